import XdistProofs.Sys.DeathOnce
/-!
  C10, whole system, every scheduler: **once more workers were lost than `--max-worker-restart` allows, the session is shutting down
  and stays so** — in every reachable state `failedNodes > b` (with at least one death) implies `shuttingdown`; no later death, late
  `workerready` or replacement (there is none) revokes it.
-/
namespace Xdist.Sys
open Xdist Xdist.Ctl

set_option linter.unusedSectionVars false

variable {σ τ : Type} [DecidableEq τ]

def OverShut (c : Ctl.State σ τ) : Prop := overB c = true → c.shuttingdown = true

theorem step_overShut (I : SchedI σ τ) (idsOf : Nat → List τ) {st st' : State σ τ} (a : Step) (hi : OverShut st.ctl)
    (h : step I idsOf st a = .ok st') : OverShut st'.ctl := by
  cases a with
  | main j p =>
    simp only [Sys.step] at h
    split at h
    · cases h
    · split at h
      · cases h
      · simp only [Except.ok.injEq] at h; subst h; exact hi
  | deliver j =>
    simp only [Sys.step] at h
    split at h
    · cases h
    · split at h
      · cases h
      · simp only [Except.ok.injEq] at h; subst h; exact hi
  | recv j =>
    simp only [Sys.step] at h
    split at h
    · cases h
    rename_i s1 hr
    simp only [Except.ok.injEq] at h; subst h
    obtain ⟨w, m, rest, fl', w2, outs', _, _, rfl, _⟩ := recvStep_shape' hr
    exact hi
  | crash j b =>
    simp only [Sys.step] at h
    split at h
    · cases h
    rename_i s1 hc
    simp only [Except.ok.injEq] at h; subst h
    unfold crashStep at hc
    split at hc
    · cases hc
    split at hc
    · cases hc
    split at hc
    · simp only [Option.some.injEq] at hc; subst hc; exact hi
    · simp only [Option.some.injEq] at hc; subst hc; exact hi
  | ctl j rq =>
    simp only [Sys.step] at h
    obtain ⟨w, ev, rest, c', hw, hp, hl, rfl⟩ := ctlStep_shape' h
    unfold loopOnce at hl
    split at hl
    · cases hl
    obtain ⟨c1, hh1, rfl⟩ := map_ok.1 hl
    exact ((os_handle I hh1).trans (os_afterHandler I c1)).sd hi

/-- **An exhausted restart budget ends the run for good — whole system, every scheduler** (C10): in every reachable state, if more
    workers were lost than `--max-worker-restart = b` allows, the session is shutting down. -/
theorem C10_sys_budget_exhausted_means_shutdown (I : SchedI σ τ) (s0 : σ) (numnodes maxfail : Nat) (b : Int) (idsOf : Nat → List τ)
    (steps : List Step) {st : State σ τ} (h : run I idsOf (init I s0 numnodes maxfail (some b) idsOf) steps = .ok st)
    (hover : 0 < st.ctl.failedNodes ∧ (st.ctl.failedNodes : Int) > b) : st.ctl.shuttingdown = true := by
  have key : ∀ (steps : List Step) {x y : State σ τ}, OverShut x.ctl → run I idsOf x steps = .ok y → OverShut y.ctl := by
    intro steps
    induction steps with
    | nil => intro x y hi h; simp only [run, Except.ok.injEq] at h; subst h; exact hi
    | cons s rest ih =>
      intro x y hi h
      simp only [run] at h
      split at h
      · cases h
      · rename_i x1 hs
        exact ih (step_overShut I idsOf s hi hs) h
  have h0 : OverShut (init I s0 numnodes maxfail (some b) idsOf).ctl := by
    intro ho; simp [overB, init, Ctl.init] at ho
  have hmr : st.ctl.maxRestart = some b := by
    have hb := run_budgetSys I idsOf steps (k := numnodes) (mr := some b)
      ⟨Ctl.init_inv I s0 numnodes maxfail (some b), by simp [init, Ctl.init]⟩ h
    exact hb.1.2.2
  apply key steps h0 h
  unfold overB
  rw [hmr]
  simp [hover.1, hover.2]

end Xdist.Sys
