import XdistProofs.Sys.CtlProof1
/-! The books/wire part of `CtlFacts`, event by event. -/
namespace Xdist.Sys
open Xdist Xdist.Ctl

variable {τ : Type} [DecidableEq τ]

theorem steps_call_inv {s s' : Load.State τ} {e e' : Env} {op : SOp τ} {t : List (Atom τ)}
    (h : Steps loadI s e (Atom.call op :: t) s' e') :
    ∃ s1 e1 r, Load.step s e op = .ok (s1, e1, r) ∧ Steps loadI s1 e1 t s' e' := by
  cases h with
  | call hstep ht => exact ⟨_, _, _, hstep, ht⟩

theorem steps_shut_inv {s s' : Load.State τ} {e e' : Env} {n : Nat} {t : List (Atom τ)}
    (h : Steps loadI s e (Atom.shut n :: t) s' e') : Steps loadI s (e.shutdown n) t s' e' := by
  cases h with
  | shut _ ht => exact ht

theorem steps_append_inv {s s' : Load.State τ} {e e' : Env} {a b : List (Atom τ)}
    (h : Steps loadI s e (a ++ b) s' e') : ∃ s1 e1, Steps loadI s e a s1 e1 ∧ Steps loadI s1 e1 b s' e' := by
  induction a generalizing s e with
  | nil => exact ⟨s, e, Steps.nil _ _, h⟩
  | cons x t ih =>
    cases x with
    | call op =>
      obtain ⟨s1, e1, r, h1, h2⟩ := steps_call_inv h
      obtain ⟨s2, e2, h3, h4⟩ := ih h2
      exact ⟨s2, e2, Steps.call h1 h3, h4⟩
    | shut n =>
      have h2 := steps_shut_inv h
      obtain ⟨s2, e2, h3, h4⟩ := ih h2
      exact ⟨s2, e2, Steps.shut n h3, h4⟩

/-- the result of the books/wire analysis of one iteration -/
structure WireFacts (c : Ctl.State (Load.State τ) τ) (ev : Ctl.Event τ) (c' : Ctl.State (Load.State τ) τ)
    (new : List SOut) (b1 : Load.Books) : Prop where
  outs : c'.env.outs = c.env.outs ++ new
  prep : Prep ev c.sched.node2pending b1
  acc : Load.Acc b1 c.env new c'.sched.node2pending c'.env
  tgt : ∀ o ∈ new, ∀ n, Contract.cmdNode o = some n →
    n ∈ AList.keys c.sched.node2pending ∨ n ∈ AList.keys c'.sched.node2pending ∨ ev = .workerready n

theorem tg_to {K : List Nat} {e e' : Env} {new : List SOut} (h : Load.Tg K e e') (ho : e'.outs = e.outs ++ new) :
    ∀ o ∈ new, ∀ n, Contract.cmdNode o = some n → n ∈ K := by
  obtain ⟨nw, h1, h2⟩ := h
  have : nw = new := List.append_cancel_left (by rw [← h1, ho])
  subst this; exact h2

/-- a plain call (no update of the books before the sends) -/
theorem plain_call {s s1 : Load.State τ} {e e1 : Env} {op : SOp τ} {r : Option τ}
    (hop : (∃ n c, op = .addNodeCollection n c) ∨ op = .schedule ∨ (∃ t, op = .markPending t))
    (h : Load.step s e op = .ok (s1, e1, r)) :
    ∃ new, Load.Acc s.node2pending e new s1.node2pending e1 ∧
      ∀ o ∈ new, ∀ n, Contract.cmdNode o = some n → n ∈ AList.keys s.node2pending := by
  have tg := Load.step_tg h
  rcases hop with ⟨n, c, rfl⟩ | rfl | ⟨t, rfl⟩
  · simp only [Load.step] at h
    obtain ⟨a, ha, hb⟩ := map_ok.1 h
    simp only [Prod.mk.injEq] at hb
    obtain ⟨rfl, rfl, _⟩ := hb
    have : a.node2pending = s.node2pending := by
      unfold Load.addNodeCollection at ha
      split at ha
      · simp at ha
      · split at ha
        · split at ha
          · simp at ha
          · split at ha
            · simp at ha
            · split at ha <;> (simp only [Except.ok.injEq] at ha; subst ha; rfl)
        · simp only [Except.ok.injEq] at ha; subst ha; rfl
    rw [this]
    exact ⟨[], Load.Acc.refl _ _, by simp⟩
  · simp only [Load.step] at h
    obtain ⟨a, ha, hb⟩ := map_ok.1 h
    simp only [Prod.mk.injEq] at hb
    obtain ⟨rfl, rfl, _⟩ := hb
    obtain ⟨new, acc⟩ := Load.schedule_acc (show Load.schedule s e = .ok (a.1, a.2) by rw [ha])
    exact ⟨new, acc, tg_to tg acc.outs⟩
  · simp only [Load.step] at h
    obtain ⟨a, ha, hb⟩ := map_ok.1 h
    simp only [Prod.mk.injEq] at hb
    obtain ⟨rfl, rfl, _⟩ := hb
    unfold Load.markPending at ha
    split at ha
    · simp at ha
    · obtain ⟨idx, _, h1⟩ := bind_ok.1 ha
      obtain ⟨new, acc⟩ := Load.checkAll_acc (s := { s with pending := idx :: s.pending }) (show Load.checkAll _ e _ = .ok (a.1, a.2) from h1)
      exact ⟨new, acc, tg_to tg acc.outs⟩

end Xdist.Sys

namespace Xdist.Sys
open Xdist Xdist.Ctl

variable {τ : Type} [DecidableEq τ]

theorem addNode_call {s s1 : Load.State τ} {e e1 : Env} {n : Nat} {r : Option τ}
    (h : Load.step s e (.addNode n) = .ok (s1, e1, r)) :
    AList.lookup s.node2pending n = none ∧ s1.node2pending = AList.set s.node2pending n [] ∧ e1 = e := by
  simp only [Load.step] at h
  obtain ⟨a, ha, hb⟩ := map_ok.1 h
  simp only [Prod.mk.injEq] at hb
  obtain ⟨rfl, rfl, _⟩ := hb
  unfold Load.addNode at ha
  split at ha
  · simp at ha
  · rename_i hc
    simp only [Except.ok.injEq] at ha; subst ha
    refine ⟨?_, rfl, rfl⟩
    simp only [AList.contains] at hc
    cases hh : AList.lookup s.node2pending n with
    | none => rfl
    | some b => rw [hh] at hc; simp at hc

theorem markComplete_call {s s1 : Load.State τ} {e e1 : Env} {n i : Nat} {slow : Bool} {r : Option τ}
    (h : Load.step s e (.markComplete n i slow) = .ok (s1, e1, r)) :
    ∃ book, AList.lookup s.node2pending n = some book ∧ i ∈ book ∧
      ∃ new, Load.Acc (AList.set s.node2pending n (book.erase i)) e new s1.node2pending e1 ∧
        ∀ o ∈ new, ∀ m, Contract.cmdNode o = some m → m ∈ AList.keys s.node2pending := by
  have tg := Load.step_tg h
  simp only [Load.step] at h
  obtain ⟨a, ha, hb⟩ := map_ok.1 h
  simp only [Prod.mk.injEq] at hb
  obtain ⟨rfl, rfl, _⟩ := hb
  unfold Load.markComplete at ha
  obtain ⟨book, hbk, h1⟩ := bind_ok.1 ha
  obtain ⟨book', hrm, h2⟩ := bind_ok.1 h1
  unfold PyList.remove at hrm
  split at hrm
  · rename_i hi
    simp only [Except.ok.injEq] at hrm; subst hrm
    obtain ⟨new, acc⟩ := Load.checkSchedule_acc (show Load.checkSchedule _ e n slow = .ok (a.1, a.2) from h2)
    exact ⟨book, AList.get_eq_ok.1 hbk, hi, new, acc, tg_to tg acc.outs⟩
  · simp at hrm

theorem removeNode_call {s s1 : Load.State τ} {e e1 : Env} {n : Nat} {r : Option τ}
    (h : Load.step s e (.removeNode n) = .ok (s1, e1, r)) :
    ∃ book, AList.lookup s.node2pending n = some book ∧
      ∃ new, Load.Acc (AList.erase s.node2pending n) e new s1.node2pending e1 ∧
        ∀ o ∈ new, ∀ m, Contract.cmdNode o = some m → m ∈ AList.keys s.node2pending := by
  have tg := Load.step_tg h
  simp only [Load.step] at h
  unfold Load.removeNode at h
  obtain ⟨⟨book, n2p⟩, hp, h1⟩ := bind_ok.1 h
  obtain ⟨hl, rfl⟩ := AList.pop_eq_ok.1 hp
  simp only at h1
  split at h1
  · simp only [Except.ok.injEq, Prod.mk.injEq] at h1
    obtain ⟨rfl, rfl, _⟩ := h1
    exact ⟨_, hl, [], Load.Acc.refl _ _, by simp⟩
  · split at h1
    · simp at h1
    · split at h1
      · simp at h1
      · obtain ⟨⟨s3, e3⟩, hca, h2⟩ := bind_ok.1 h1
        simp only [Except.ok.injEq, Prod.mk.injEq] at h2
        obtain ⟨rfl, rfl, _⟩ := h2
        obtain ⟨new, acc⟩ := Load.checkAll_acc hca
        exact ⟨_, hl, new, acc, tg_to tg acc.outs⟩

/-- `remove_node` raises `KeyError` only for a node without a book -/
theorem removeNode_keyError {s : Load.State τ} {e : Env} {n : Nat}
    (h : Load.step s e (.removeNode n) = .error .keyError) : AList.lookup s.node2pending n = none := by
  cases hl : AList.lookup s.node2pending n with
  | none => rfl
  | some book =>
    exfalso
    simp only [Load.step] at h
    unfold Load.removeNode at h
    have hp : s.node2pending.pop n = .ok (book, AList.erase s.node2pending n) := AList.pop_eq_ok.2 ⟨hl, rfl⟩
    simp only [hp, bind, Except.bind] at h
    cases book with
    | nil => simp at h
    | cons i rest =>
      simp only at h
      cases hcol : s.collection with
      | none => simp [hcol] at h
      | some col =>
        cases hci : col[i]? with
        | none => simp [hcol, hci] at h
        | some item =>
          simp only [hcol, hci] at h
          split at h
          · rename_i err hc
            simp only [Except.error.injEq] at h
            subst h
            exact Load.checkAll_no_keyError _ _ _ (fun m hm => hm) hc
          · cases h

end Xdist.Sys
