import XdistProofs.Sys.Dead3
/-! The controller step keeps the dead-worker layer (`Inv7`). -/
namespace Xdist.Sys
open Xdist Xdist.Ctl Xdist.Load

variable {τ : Type} [DecidableEq τ]

theorem routed_dead (j : Nat) (new : List SOut) (w : Wk τ) (h : w.alive = false) : routed j new w = w := by
  unfold routed; simp [h]

/-- a worker whose event is not the one handled -/
theorem ctl_wk7_other {c c' : Ctl.State (Load.State τ) τ} {ev : Ctl.Event τ} {new : List SOut} {b1 : Load.Books} {W : List Nat}
    (f : CtlFacts c ev c' new b1) {j : Nat} {w : Wk τ} (h : WkInv7 c W j w)
    (hj : subjectOf ev ≠ some j) (hlt : j < c.nextId) : WkInv7 c' W j (routed j new w) := by
  obtain ⟨r1, r2, r3, r4, r5⟩ := routed_fields j new w
  have hd : (c'.env.flags.get j).down = (c.env.flags.get j).down := (f.acc.other j).1
  have hlk : AList.lookup b1 j = AList.lookup c.sched.node2pending j := prep_other f.prep hj
  have hact : j ∈ c'.active → j ∈ c.active := by
    intro hh
    rcases f.actNew j hh with h' | ⟨h', _⟩
    · exact h'
    · omega
  exact {
    endNone := (by rw [r1, r2, r3]; exact h.endNone)
    endLast := (by rw [r1, r3]; exact h.endLast)
    deadNoFin := (by rw [r1, r3]; exact h.deadNoFin)
    downWhy := (by rw [r1, r2, hd]; exact h.downWhy)
    deadDown := (by rw [r1, r3, hd]; exact h.deadDown)
    deadSync := (by
      intro ha hW hk
      rw [r1] at ha
      rw [routed_dead j new w ha]
      have hd0 := h.deadSync ha hW (hact hk)
      unfold DeadD at hd0 ⊢
      cases hb : AList.lookup c.sched.node2pending j with
      | none =>
        rw [hb] at hd0
        have hb' : AList.lookup c'.sched.node2pending j = none := by
          cases hx : AList.lookup c'.sched.node2pending j with
          | none => rfl
          | some bk =>
            have : j ∈ AList.keys b1 := by
              rw [← f.acc.keys]; exact (AList.lookup_isSome_iff_mem_keys _ _).1 (by rw [hx]; rfl)
            have := (AList.lookup_isSome_iff_mem_keys _ _).2 this
            rw [hlk, hb] at this; cases this
        rw [hb']
        exact hd0
      | some book =>
        rw [hb] at hd0
        simp only at hd0
        obtain ⟨extra, he⟩ := hd0
        obtain ⟨extra', he1, _⟩ := f.acc.books j book (by rw [hlk, hb])
        rw [he1]
        simp only
        exact ⟨extra ++ extra', by rw [he]; simp [List.append_assoc]⟩) }

/-- the worker whose event is handled -/
theorem ctl_wk7_self {c c' : Ctl.State (Load.State τ) τ} {ev0 : Ctl.Event τ} {rq : Bool} {new : List SOut} {b1 : Load.Books}
    {W : List Nat} (f : CtlFacts c (fixRq rq ev0) c' new b1) {k : Nat} {w : Wk τ} {rest : List (Ctl.Event τ)}
    (h1 : WkInv c k w) (h : WkInv7 c W k w) (hp : w.posted = ev0 :: rest) (hlt : k < c.nextId) :
    WkInv7 c' W k (routed k new ({ w with posted := rest } : Wk τ)) := by
  obtain ⟨r1, r2, r3, r4, r5⟩ := routed_fields k new ({ w with posted := rest } : Wk τ)
  simp only at r1 r2 r3 r4 r5
  have hd : (c'.env.flags.get k).down = (c.env.flags.get k).down := (f.acc.other k).1
  have hown : Own k ev0 = true := h1.ownP ev0 (by rw [hp]; simp)
  have hflw : flight k w = ev0 :: flight k ({ w with posted := rest } : Wk τ) := flight_pop k hp
  have hact : k ∈ c'.active → k ∈ c.active := by
    intro hh
    rcases f.actNew k hh with h' | ⟨h', _⟩
    · exact h'
    · omega
  have hprep := f.prep
  exact {
    endNone := (by rw [r1, r2, r3]; exact h.endNone)
    endLast := (by rw [r1, r3]; exact h.endLast)
    deadNoFin := (by rw [r1, r3]; exact h.deadNoFin)
    downWhy := (by rw [r1, r2, hd]; exact h.downWhy)
    deadDown := (by rw [r1, r3, hd]; exact h.deadDown)
    deadSync := (by
      intro ha hW hk
      rw [r1] at ha
      rw [routed_dead k new ({ w with posted := rest } : Wk τ) ha]
      have hd0 := h.deadSync ha hW (hact hk)
      -- the event is not a death notice: the worker would not be active afterwards
      have hnn : isNotice ev0 = false := by
        cases hh : isNotice ev0 with
        | false => rfl
        | true =>
          exact absurd hk (f.actGone k (by rw [fixRq_downOf]; exact own_notice_down hown hh))
      have hheld : heldS ({ w with posted := rest } : Wk τ) = heldS w := rfl
      have hcompl : completes (flight k w) = (complIdx ev0).toList ++ completes (flight k ({ w with posted := rest } : Wk τ)) := by
        rw [hflw]; simp only [completes, List.filterMap_cons]
        cases complIdx ev0 <;> rfl
      unfold DeadD at hd0 ⊢
      rw [hheld]
      cases hci : complIdx ev0 with
      | some i =>
        obtain ⟨n, s, rfl⟩ : ∃ n s, ev0 = .complete n i s := by
          cases ev0 <;> simp [complIdx] at hci
          subst hci; exact ⟨_, _, rfl⟩
        have hnk : n = k := by simpa [Own] using hown
        subst hnk
        obtain ⟨book, hbk, hi, rfl⟩ := hprep
        rw [hbk] at hd0
        simp only at hd0
        obtain ⟨extra, he⟩ := hd0
        rw [hcompl, hci] at he
        simp only [Option.toList_some, List.singleton_append, List.cons_append] at he
        obtain ⟨extra', he1, _⟩ := f.acc.books n (book.erase i) (AList.lookup_set_same _ _ _)
        rw [he1]
        simp only
        refine ⟨extra ++ extra', ?_⟩
        rw [he]
        simp [List.append_assoc]
      | none =>
        have hcompl' : completes (flight k w) = completes (flight k ({ w with posted := rest } : Wk τ)) := by
          rw [hcompl, hci]; rfl
        have hb1 : AList.lookup b1 k = AList.lookup c.sched.node2pending k ∨
            (AList.lookup c.sched.node2pending k = none ∧ AList.lookup b1 k = some []) := by
          cases ev0 with
          | workerready n =>
            have hnk : n = k := by simpa [Own] using hown
            subst hnk
            rcases hprep with rfl | ⟨hl', rfl⟩
            · exact Or.inl rfl
            · exact Or.inr ⟨hl', AList.lookup_set_same _ _ _⟩
          | complete n i s => simp [complIdx] at hci
          | errordown n r => simp [isNotice] at hnn
          | workerfinished n x a b => simp [isNotice] at hnn
          | internalError n => cases hprep; exact Or.inl rfl
          | collectionfinish n ids => cases hprep; exact Or.inl rfl
          | testreport n fl => cases hprep; exact Or.inl rfl
          | unscheduled n is => cases hprep; exact Or.inl rfl
          | collectreport n key fl => cases hprep; exact Or.inl rfl
          | other => cases hprep; exact Or.inl rfl
        rcases hb1 with hb1 | ⟨hl', hb1⟩
        · cases hb : AList.lookup c.sched.node2pending k with
          | none =>
            rw [hb] at hd0
            have hb' : AList.lookup c'.sched.node2pending k = none := by
              cases hx : AList.lookup c'.sched.node2pending k with
              | none => rfl
              | some bk =>
                have : k ∈ AList.keys b1 := by
                  rw [← f.acc.keys]; exact (AList.lookup_isSome_iff_mem_keys _ _).1 (by rw [hx]; rfl)
                have := (AList.lookup_isSome_iff_mem_keys _ _).2 this
                rw [hb1, hb] at this; cases this
            rw [hb']
            simp only at hd0 ⊢
            rw [← hcompl']
            exact hd0
          | some book =>
            rw [hb] at hd0
            simp only at hd0
            obtain ⟨extra, he⟩ := hd0
            obtain ⟨extra', he1, _⟩ := f.acc.books k book (by rw [hb1, hb])
            rw [he1]
            simp only
            refine ⟨extra ++ extra', ?_⟩
            rw [he, hcompl']
            simp [List.append_assoc]
        · rw [hl'] at hd0
          simp only at hd0
          obtain ⟨extra', he1, _⟩ := f.acc.books k [] hb1
          rw [he1]
          simp only
          refine ⟨extra', ?_⟩
          rw [← hcompl', hd0.1, hd0.2]
          rfl) }

theorem ctl_inv7 (idsOf : Nat → List τ) {st st' : LState τ} {W : List Nat} {k : Nat} {rq : Bool} (hinv1 : Inv st) (hinv : Inv7 st W)
    (h : step Ctl.loadI idsOf st (.ctl k rq) = .ok st') : Inv7 st' (ghostW st (.ctl k rq) W) := by
  simp only [step] at h
  obtain ⟨w, ev0, rest, c', hw, hp, hl, rfl⟩ := ctlStep_shape h
  have hk : k < st.wk.length := by
    rcases Nat.lt_or_ge k st.wk.length with h' | h'
    · exact h'
    · rw [List.getElem?_eq_none h'] at hw; cases hw
  have hlen := hinv1.1.len
  have wi := hinv1.wk hw
  have hown : Own k ev0 = true := wi.ownP ev0 (by rw [hp]; simp)
  obtain ⟨new, b1, f⟩ := ctl_facts hinv1.1 (by rw [← hlen]; exact hk) (fixRq_own rq hown) hl
  have hnew : c'.env.outs.drop st.ctl.env.outs.length = new := by rw [f.outs]; simp
  rw [hnew]
  have hsubj : ∀ j, j ≠ k → subjectOf (fixRq rq ev0) ≠ some j := by
    intro j hj hs
    rw [fixRq_subject] at hs
    rcases own_subject hown with h' | h'
    · rw [h'] at hs; cases hs; exact hj rfl
    · rw [h'] at hs; cases hs
  have hsetlen : (st.wk.set k ({ w with posted := rest } : Wk τ)).length = st.ctl.nextId := by simp [hlen]
  show Inv7 _ W
  intro j wj hj
  simp only at hj
  rw [route_get] at hj
  by_cases hjl : j < st.wk.length
  · rw [spawn_get_old _ _ _ _ (by simpa using hjl)] at hj
    by_cases hjk : j = k
    · subst hjk
      rw [getElem?_set_self' hw] at hj
      simp only [Option.map_some, Option.some.injEq] at hj
      subst hj
      exact ctl_wk7_self f wi (hinv j w hw) hp (by rw [← hlen]; exact hk)
    · rw [List.getElem?_set_ne (Ne.symm hjk)] at hj
      cases hwj : st.wk[j]? with
      | none => rw [hwj] at hj; cases hj
      | some w0 =>
        rw [hwj] at hj
        simp only [Option.map_some, Option.some.injEq] at hj
        subst hj
        exact ctl_wk7_other f (hinv j w0 hwj) (hsubj j hjk) (by rw [← hlen]; exact hjl)
  · have hjl' : st.wk.length ≤ j := Nat.le_of_not_lt hjl
    by_cases hju : j < c'.nextId
    · rw [spawn_get_new _ _ _ _ (by simpa using hjl') hju] at hj
      simp only [Option.map_some, Option.some.injEq] at hj
      subst hj
      have hge : st.ctl.nextId ≤ j := by rw [← hlen]; exact hjl'
      have hdel : deliverTo j new = [] := by
        apply deliverTo_nil_of_lt
        intro o ho n cmd hc hnj
        have := f.newLt o ho n cmd hc
        omega
      have hr : routed j new ({ ids := idsOf j } : Wk τ) = ({ ids := idsOf j } : Wk τ) := by
        unfold routed; simp [hdel]
      rw [hr]
      have hdn : (c'.env.flags.get j).down = false := by rw [(f.acc.other j).1, flags_default hinv1.1 j hge]
      exact {
        endNone := (by intro _ _ m hm; simp at hm)
        endLast := (by intro ha; cases ha)
        deadNoFin := (by intro ha; cases ha)
        downWhy := (by intro _ _ hd; rw [hdn] at hd; cases hd)
        deadDown := (by intro ha; cases ha)
        deadSync := (by intro ha; cases ha) }
    · have : (spawn idsOf (st.wk.set k ({ w with posted := rest } : Wk τ)) c'.nextId)[j]? = none := by
        apply List.getElem?_eq_none
        rw [spawn_length _ _ _ (by rw [hsetlen]; exact f.nextLe)]
        omega
      rw [this] at hj; cases hj

end Xdist.Sys
