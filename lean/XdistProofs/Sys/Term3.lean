import XdistProofs.Sys.Term2
/-!
  C02, termination (`--dist load`): the controller's step decreases the measure.

  * An event that is not a death notice: nobody joins or leaves, the restart budget is untouched; whatever the iteration puts on
    the wire was paid for by tests leaving the pool or by shutdown flags being set (`Load.step_pot`), and one event less is
    waiting.
  * A death notice (`errordown`, `workerfinished`): either a replacement is started — the restart budget shrinks — or nobody is
    started and the controller stops counting a worker that is dead or has finished.
-/
namespace Xdist.Sys
open Xdist Xdist.Ctl Xdist.Load Xdist.Contract

set_option linter.unusedSectionVars false

variable {τ : Type} [DecidableEq τ]

/-- only a `collectionfinish` makes the controller register a collection, and it registers the one the event carries -/
theorem shape_addcoll {c c' : Ctl.State (Load.State τ) τ} {ev : Ctl.Event τ} {as : List (Atom τ)} (h : Shape loadI c c' ev as)
    {n : Nat} {cc : List τ} (hm : Atom.call (.addNodeCollection n cc) ∈ as) : ev = .collectionfinish n cc := by
  have notin : ∀ {K : Nat → Prop} {t : List (Atom τ)}, AllShut K t → Atom.call (.addNodeCollection n cc) ∉ t := by
    intro K t ht hmem
    obtain ⟨m, hh, _⟩ := ht _ hmem
    cases hh
  cases ev with
  | workerready m =>
    obtain ⟨t, ht, h' | h'⟩ := h
    · rw [h'.2] at hm
      rcases List.mem_cons.1 hm with hm | hm
      · cases hm
      · exact absurd hm (notin ht)
    · rw [h'.2] at hm
      rcases List.mem_cons.1 hm with hm | hm
      · cases hm
      · exact absurd hm (notin ht)
  | complete m i slow =>
    obtain ⟨t, ht, h'⟩ := h
    rw [h'] at hm
    rcases List.mem_cons.1 hm with hm | hm
    · cases hm
    · exact absurd hm (notin ht)
  | unscheduled m is =>
    obtain ⟨t, ht, h'⟩ := h
    rw [h'] at hm
    rcases List.mem_cons.1 hm with hm | hm
    · cases hm
    · exact absurd hm (notin ht)
  | collectionfinish m ids =>
    obtain ⟨t, ht, h' | h' | h'⟩ := h
    · rw [h'.2] at hm; exact absurd hm (notin ht)
    · rw [h'.2.2.2] at hm
      rcases List.mem_cons.1 hm with hm | hm
      · cases hm; rfl
      · exact absurd hm (notin ht)
    · rw [h'.2.2] at hm
      rcases List.mem_cons.1 hm with hm | hm
      · cases hm; rfl
      · rcases List.mem_cons.1 hm with hm | hm
        · cases hm
        · exact absurd hm (notin ht)
  | errordown m rq =>
    obtain ⟨t, ht, h' | h' | ⟨x, _, h'⟩⟩ := h
    · rw [h'] at hm; exact absurd hm (notin ht)
    · rw [h'] at hm
      rcases List.mem_cons.1 hm with hm | hm
      · cases hm
      · exact absurd hm (notin ht)
    · rw [h'] at hm
      rcases List.mem_cons.1 hm with hm | hm
      · cases hm
      · rcases List.mem_cons.1 hm with hm | hm
        · cases hm
        · exact absurd hm (notin ht)
  | workerfinished m x sf ss =>
    obtain ⟨t0, t, ht0, ht, h' | h'⟩ := h
    · rw [h'] at hm
      rcases List.mem_append.1 hm with hm | hm
      · exact absurd hm (notin ht0)
      · exact absurd hm (notin ht)
    · rw [h'] at hm
      rcases List.mem_append.1 hm with hm | hm
      · exact absurd hm (notin ht0)
      · rcases List.mem_cons.1 hm with hm | hm
        · cases hm
        · exact absurd hm (notin ht)
  | internalError m => exact absurd hm (notin h)
  | testreport m f => exact absurd hm (notin h)
  | collectreport m key f => exact absurd hm (notin h)
  | other => exact absurd hm (notin h)

/-- **an iteration that handles no death notice does not increase the potential of scheduler, flags and wire** -/
theorem steps_pot (N L : Nat) {s s' : Load.State τ} {e e' : Env} {as : List (Atom τ)} (h : Steps loadI s e as s' e')
    (hpl : ∀ a ∈ as, plainAtom a) (hc : Load.CollLe L s)
    (hadd : ∀ n c, Atom.call (.addNodeCollection n c) ∈ as → c.length ≤ L) :
    Load.Pot N L s' e' ≤ Load.Pot N L s e := by
  induction h with
  | nil => exact Nat.le_refl _
  | @call s e op s1 e1 r as s2 e2 hs _ ih =>
    have hs' : Load.step s e op = .ok (s1, e1, r) := hs
    have hp := hpl _ List.mem_cons_self
    have hop : (∀ n, op ≠ .removeNode n) ∧ (∀ t, op ≠ .markPending t) := by
      constructor
      · intro n hh; subst hh; exact hp
      · intro t hh; subst hh; exact hp
    obtain ⟨a1, a2⟩ := Load.step_pot N L hs' hop hc (fun n c hh => hadd n c (by rw [hh]; exact List.mem_cons_self))
    exact Nat.le_trans (ih (fun a ha => hpl a (List.mem_cons_of_mem _ ha)) a2
      (fun n c hh => hadd n c (List.mem_cons_of_mem _ hh))) a1
  | @shut s e as s2 e2 n _ ih =>
    refine Nat.le_trans (ih (fun a ha => hpl a (List.mem_cons_of_mem _ ha)) hc
      (fun n c hh => hadd n c (List.mem_cons_of_mem _ hh))) ?_
    unfold Load.Pot
    exact Nat.add_le_add_left (shutdown_pot N e n) _

theorem outW_cmdOf {N : Nat} {o : SOut} {n : Nat} {c : Cmd} (h : cmdOf o = some (n, c)) :
    outW N o = if n < N then cmdW c else 0 := by
  cases o with
  | run m is => simp only [cmdOf, Option.some.injEq, Prod.mk.injEq] at h; obtain ⟨rfl, rfl⟩ := h; rfl
  | runAll m => simp only [cmdOf, Option.some.injEq, Prod.mk.injEq] at h; obtain ⟨rfl, rfl⟩ := h; rfl
  | steal m is => simp only [cmdOf, Option.some.injEq, Prod.mk.injEq] at h; obtain ⟨rfl, rfl⟩ := h; rfl
  | shutdown m => simp only [cmdOf, Option.some.injEq, Prod.mk.injEq] at h; obtain ⟨rfl, rfl⟩ := h; rfl
  | collectReport a b => simp [cmdOf] at h

/-- what is written on the wire reaches inboxes only: the list of workers keeps its length and everybody's life, the messages
    on their way back are untouched, and the inboxes grow by at most the weight of what was written -/
theorem route_measure : ∀ (outs : List SOut) (wk : List (Wk τ)),
    (route wk outs).length = wk.length ∧ (∀ j : Nat, ((route wk outs)[j]?).map life = (wk[j]?).map life) ∧
    sumW aliveW (route wk outs) = sumW aliveW wk ∧ sumW wkM (route wk outs) = sumW wkM wk ∧
    sumW wkT (route wk outs) ≤ sumW wkT wk + outsW wk.length outs := by
  intro outs
  induction outs with
  | nil => intro wk; exact ⟨rfl, fun _ => rfl, rfl, rfl, Nat.le_add_right _ _⟩
  | cons o rest ih =>
    intro wk
    have hcons : outsW wk.length (o :: rest) = outW wk.length o + outsW wk.length rest := by simp [outsW]
    simp only [route]
    cases hc : cmdOf o with
    | none =>
      simp only
      obtain ⟨a1, a2, a3, a4, a5⟩ := ih wk
      exact ⟨a1, a2, a3, a4, by rw [hcons]; omega⟩
    | some nc =>
      obtain ⟨n, c⟩ := nc
      simp only
      cases hw : wk[n]? with
      | none =>
        simp only
        obtain ⟨a1, a2, a3, a4, a5⟩ := ih wk
        exact ⟨a1, a2, a3, a4, by rw [hcons]; omega⟩
      | some w =>
        simp only
        by_cases hal : w.alive = true
        · rw [if_pos hal]
          obtain ⟨a1, a2, a3, a4, a5⟩ := ih (wk.set n { w with inbox := w.inbox ++ [c] })
          have hlt := lt_length_of_get hw
          simp only [List.length_set] at a1 a5
          have hA := sumW_set aliveW wk n w { w with inbox := w.inbox ++ [c] } hw
          have hM := sumW_set wkM wk n w { w with inbox := w.inbox ++ [c] } hw
          have hT := sumW_set wkT wk n w { w with inbox := w.inbox ++ [c] } hw
          have eA : aliveW ({ w with inbox := w.inbox ++ [c] } : Wk τ) = aliveW w := rfl
          have eM : wkM ({ w with inbox := w.inbox ++ [c] } : Wk τ) = wkM w := rfl
          have eT : wkT ({ w with inbox := w.inbox ++ [c] } : Wk τ) = wkT w + cmdW c := by
            simp only [wkT, inboxW, List.map_append, List.sum_append, List.map_cons, List.map_nil, List.sum_cons, List.sum_nil]
            have : phaseRank ({ w with inbox := w.inbox ++ [c] } : Wk τ) = phaseRank w := rfl
            rw [this]; omega
          have hO : outW wk.length o = cmdW c := by rw [outW_cmdOf hc]; simp [hlt]
          refine ⟨a1, ?_, by omega, by omega, by rw [hcons]; omega⟩
          intro j
          rw [a2 j]
          exact life_set (w' := { w with inbox := w.inbox ++ [c] }) hw rfl rfl j
        · rw [if_neg hal]
          obtain ⟨a1, a2, a3, a4, a5⟩ := ih wk
          exact ⟨a1, a2, a3, a4, by rw [hcons]; omega⟩

theorem spawn_self (idsOf : Nat → List τ) (wk : List (Wk τ)) : spawn idsOf wk wk.length = wk := by
  simp [spawn]

theorem length_filter_erase {p : Nat → Bool} : ∀ {l : List Nat} {k : Nat}, k ∈ l → p k = true →
    ((l.erase k).filter p).length + 1 = (l.filter p).length := by
  intro l
  induction l with
  | nil => intro k h; cases h
  | cons a t ih =>
    intro k hk hp
    by_cases hak : a = k
    · subst hak
      simp [hp]
    · rw [List.erase_cons_tail (by simpa using hak)]
      have hk' : k ∈ t := by
        rcases List.mem_cons.1 hk with h | h
        · exact absurd h.symm hak
        · exact h
      have := ih hk' hp
      by_cases hpa : p a = true
      · simp only [List.filter_cons, hpa, if_true, List.length_cons]; omega
      · simp only [List.filter_cons, hpa, Bool.false_eq_true, if_false]; exact this

/-- **the controller's step decreases the measure** -/
theorem ctl_dec {ids : List τ} (idsOf : Nat → List τ) {st st' : LState τ} {k : Nat} {rq : Bool} {b : Int}
    (hm : st.ctl.maxRestart = some b) (h1 : Inv st) (i10 : Inv10 st []) (i12 : Inv12 ids st) (i13 : Inv13 st)
    (h : step loadI idsOf st (.ctl k rq) = .ok st') : Dec (mu ids.length st') (mu ids.length st) := by
  simp only [Sys.step] at h
  obtain ⟨w, ev0, rest, c', hw, hp, hl, rfl⟩ := ctlStep_shape h
  have hk := lt_length_of_get hw
  have hlen := h1.1.len
  have wi := h1.wk hw
  have hown : Own k ev0 = true := wi.ownP ev0 (by rw [hp]; simp)
  have hkact : k ∈ st.ctl.active := by
    apply Classical.byContradiction
    intro hna
    have := wi.inactive hna
    rw [hp] at this; cases this
  obtain ⟨new, b1, f⟩ := ctl_facts h1.1 (by rw [← hlen]; exact hk) (fixRq_own rq hown) hl
  have hdrop : c'.env.outs.drop st.ctl.env.outs.length = new := by rw [f.outs]; simp
  rw [hdrop]
  -- the worker whose event is taken
  have hset0 : ∀ (g : Wk τ → Nat), g ({ w with posted := rest } : Wk τ) = g w →
      sumW g (st.wk.set k { w with posted := rest }) = sumW g st.wk := by
    intro g hg
    have := sumW_set g st.wk k w { w with posted := rest } hw
    omega
  have hlife0 : goneP (st.wk.set k { w with posted := rest }) = goneP st.wk := goneP_congr (life_set hw rfl rfl)
  have hM0 : sumW wkM (st.wk.set k { w with posted := rest }) + 1 = sumW wkM st.wk := by
    have := sumW_set wkM st.wk k w { w with posted := rest } hw
    have e : wkM w = wkM ({ w with posted := rest } : Wk τ) + 1 := by simp [wkM, hp]; omega
    omega
  have hl' := hl
  unfold loopOnce at hl'
  split at hl'
  · cases hl'
  obtain ⟨c1, hh1, hc'⟩ := map_ok.1 hl'
  have kA := afterHandler_keeps loadI c1
  have aA := afterHandler_act loadI c1
  rw [hc'] at kA aA
  cases hev : downOfEv (fixRq rq ev0) with
  | none =>
    -- no death notice
    obtain ⟨k1, a1⟩ := handle_plain_frame loadI hh1 hev
    have kk := k1.trans kA
    have hnext : c'.nextId = st.wk.length := by rw [kk.nextId, hlen]
    have hsp : spawn idsOf (st.wk.set k { w with posted := rest }) c'.nextId = st.wk.set k { w with posted := rest } := by
      rw [hnext]
      have := spawn_self idsOf (st.wk.set k { w with posted := rest })
      simp only [List.length_set] at this
      exact this
    rw [hsp]
    obtain ⟨r1, r2, r3, r4, r5⟩ := route_measure new (st.wk.set k { w with posted := rest })
    simp only [List.length_set] at r1 r5
    have hgone : goneP (route (st.wk.set k { w with posted := rest }) new) = goneP st.wk := by
      rw [goneP_congr r2, hlife0]
    -- scheduler, flags, wire
    obtain ⟨as, hsteps, hshape⟩ := loopOnce_steps hl
    have hdeath : deathEvent (fixRq rq ev0) = false := by
      cases ev0 <;> simp [fixRq, downOfEv] at hev <;> rfl
    have hplain := shape_plain hshape hdeath
    have hcl : Load.CollLe ids.length st.ctl.sched := by
      intro p hp'
      rw [i12.1.si.1 p hp']
      exact Nat.le_refl _
    have hadd : ∀ n c, Atom.call (.addNodeCollection n c) ∈ as → c.length ≤ ids.length := by
      intro n c hmem
      have hev0 := shape_addcoll hshape hmem
      have hcf : isCf ids ev0 := (i12.2 k w hw).2 ev0 (by unfold flight; rw [hp]; simp)
      cases ev0 <;> simp [fixRq] at hev0
      obtain ⟨_, rfl⟩ := hev0
      simp only [isCf] at hcf
      rw [hcf]
      exact Nat.le_refl _
    have hpot := steps_pot st.wk.length ids.length hsteps hplain hcl hadd
    unfold Load.Pot envPot at hpot
    rw [f.outs, outsW_append] at hpot
    unfold mu
    simp only
    rw [budget_of_keeps kk, r3, hset0 aliveW rfl, aA.1, a1, hgone, r1, r4]
    apply dec45
    · have := hset0 wkT rfl
      omega
    · omega
  | some d =>
    -- a death notice: it is about worker `k`, which is dead or has finished
    have hd : d = k ∧ deathEvent ev0 = true := by
      cases ev0 <;> simp [fixRq, downOfEv, Own] at hev hown <;> simp [deathEvent] <;> omega
    obtain ⟨rfl, hde⟩ := hd
    have hgk : goneP st.wk d = true := by
      unfold goneP
      rw [hw]
      simp only [Bool.or_eq_true, Bool.not_eq_eq_eq_not, Bool.not_true, decide_eq_true_eq]
      cases ev0 with
      | errordown n r =>
        left
        cases ha : w.alive with
        | false => rfl
        | true =>
          have := i10 d w hw ha (by simp) (.errordown n r) (by rw [hp]; simp)
          simp [isErrd] at this
      | workerfinished n x sf ss =>
        right
        have hmem : Ctl.Event.workerfinished n x sf ss ∈ flight d w := by unfold flight; rw [hp]; simp
        exact ((i13 d w hw).wfFields n x sf ss hmem).1
      | workerready n => cases hde
      | internalError n => cases hde
      | collectionfinish n cc => cases hde
      | testreport n fl => cases hde
      | complete n i slow => cases hde
      | unscheduled n is => cases hde
      | collectreport n key fl => cases hde
      | other => cases hde
    have hframe : c1.maxRestart = some b ∧
        (budget c1 < budget st.ctl ∨ (budget c1 ≤ budget st.ctl ∧ c1.nextId = st.ctl.nextId ∧ c1.active = st.ctl.active.erase d)) := by
      cases ev0 with
      | errordown n r =>
        have : n = d := by simpa [Own] using hown
        subst this
        simp only [fixRq, handle] at hh1
        exact errordown_frame loadI hm hh1
      | workerfinished n x sf ss =>
        have : n = d := by simpa [Own] using hown
        subst this
        simp only [fixRq, handle] at hh1
        exact workerfinished_frame loadI hm hh1
      | workerready n => cases hde
      | internalError n => cases hde
      | collectionfinish n cc => cases hde
      | testreport n fl => cases hde
      | complete n i slow => cases hde
      | unscheduled n is => cases hde
      | collectreport n key fl => cases hde
      | other => cases hde
    obtain ⟨_, hcase⟩ := hframe
    have hb' : budget c' = budget c1 := budget_of_keeps kA
    unfold mu
    simp only
    rcases hcase with hlt | ⟨hle, hnx, hact⟩
    · exact dec1 _ _ (by rw [hb']; exact hlt)
    · rcases Nat.lt_or_ge (budget c1) (budget st.ctl) with hlt | hge
      · exact dec1 _ _ (by rw [hb']; exact hlt)
      · have hbeq : budget c' = budget st.ctl := by rw [hb']; omega
        have hnext : c'.nextId = st.wk.length := by rw [kA.nextId, hnx, hlen]
        have hsp : spawn idsOf (st.wk.set d { w with posted := rest }) c'.nextId = st.wk.set d { w with posted := rest } := by
          rw [hnext]
          have := spawn_self idsOf (st.wk.set d { w with posted := rest })
          simp only [List.length_set] at this
          exact this
        rw [hsp]
        obtain ⟨r1, r2, r3, r4, r5⟩ := route_measure new (st.wk.set d { w with posted := rest })
        have hgone : goneP (route (st.wk.set d { w with posted := rest }) new) = goneP st.wk := by
          rw [goneP_congr r2, hlife0]
        rw [hbeq, r3, hset0 aliveW rfl, aA.1, hact, hgone]
        apply dec3
        have := length_filter_erase (p := goneP st.wk) hkact hgk
        omega

end Xdist.Sys
