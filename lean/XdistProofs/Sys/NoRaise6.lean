import XdistProofs.Sys.NoRaise5
/-!
  C17: `collectionfinish` never raises — when every worker collects the same, non-empty list of tests.  Twelfth layer (`Inv12`):
  every registered collection and the agreed collection are that list, and the collection is agreed as soon as it is complete
  (no mismatch can occur), so `assert self.collection` in `add_node_collection` holds.
-/
namespace Xdist.Sys
open Xdist Xdist.Ctl Xdist.Load Xdist.Contract

variable {τ : Type} [DecidableEq τ]

/-- scheduler side: every collection is `ids` -/
def SI (ids : List τ) (s : Load.State τ) : Prop :=
  (∀ p ∈ s.node2collection, p.2 = ids) ∧ (∀ col, s.collection = some col → col = ids)

theorem mem_alist_set' {κ ν : Type} [DecidableEq κ] {d : AList κ ν} {n : κ} {v : ν} {p : κ × ν} (h : p ∈ AList.set d n v) :
    p = (n, v) ∨ p ∈ d := by
  induction d with
  | nil => simp only [AList.set, List.mem_singleton] at h; exact Or.inl h
  | cons q t ih =>
    obtain ⟨k, w⟩ := q
    simp only [AList.set] at h
    split at h
    · rename_i hk
      rcases List.mem_cons.1 h with h | h
      · left; rw [h, hk]
      · right; exact List.mem_cons_of_mem _ h
    · rcases List.mem_cons.1 h with h | h
      · right; rw [h]; exact List.mem_cons_self
      · rcases ih h with h' | h'
        · exact Or.inl h'
        · exact Or.inr (List.mem_cons_of_mem _ h')

theorem step_si {ids : List τ} {s s' : Load.State τ} {e e' : Env} {op : SOp τ} {ret : Option τ} (hf : Load.Fresh s) (hi : SI ids s)
    (hop : ∀ n c, op = .addNodeCollection n c → c = ids) (h : Load.step s e op = .ok (s', e', ret)) : SI ids s' := by
  have same : s'.node2collection = s.node2collection → s'.collection = s.collection → SI ids s' := by
    intro h1 h2; unfold SI; rw [h1, h2]; exact hi
  cases op with
  | addNode n =>
    simp only [Load.step] at h
    obtain ⟨s1, h1, h2⟩ := map_ok.1 h
    simp at h2; obtain ⟨rfl, rfl, rfl⟩ := h2
    obtain ⟨_, st⟩ := Load.addNode_ref (e := e) h1
    exact same st.2.1 st.2.2.1
  | addNodeCollection n c =>
    have hc := hop n c rfl
    subst hc
    simp only [Load.step] at h
    obtain ⟨s1, h1, h2⟩ := map_ok.1 h
    simp at h2; obtain ⟨rfl, rfl, rfl⟩ := h2
    have hset : SI c ({ s with node2collection := s.node2collection.set n c } : Load.State τ) := by
      refine ⟨?_, hi.2⟩
      intro p hp
      rcases mem_alist_set' hp with rfl | hp
      · rfl
      · exact hi.1 p hp
    unfold Load.addNodeCollection at h1
    split at h1
    · cases h1
    · split at h1
      · split at h1
        · cases h1
        · split at h1
          · cases h1
          · split at h1
            · simp only [Except.ok.injEq] at h1; subst h1; exact hi
            · simp only [Except.ok.injEq] at h1; subst h1; exact hset
      · simp only [Except.ok.injEq] at h1; subst h1; exact hset
  | schedule =>
    simp only [Load.step] at h
    obtain ⟨⟨s1, e1⟩, h1, h2⟩ := map_ok.1 h
    simp at h2; obtain ⟨rfl, rfl, rfl⟩ := h2
    cases Load.schedule_shape hf h1 with
    | again hsome r => exact same r.static.2.1 r.static.2.2.1
    | mismatch first col' rest hreg hne hs' he => subst hs'; exact hi
    | first first col' rest hcn hreg hall hcol acts r p hst =>
      refine ⟨by rw [hst.2]; exact hi.1, ?_⟩
      intro col hc
      rw [hcol] at hc
      cases hc
      exact hi.1 (first, col') (by rw [hreg]; simp)
  | markComplete n i slow =>
    simp only [Load.step] at h
    obtain ⟨⟨s1, e1⟩, h1, h2⟩ := map_ok.1 h
    simp at h2; obtain ⟨rfl, rfl, rfl⟩ := h2
    obtain ⟨_, _, _, st⟩ := Load.markComplete_ref h1
    exact same st.2.1 st.2.2.1
  | markPending t =>
    simp only [Load.step] at h
    obtain ⟨⟨s1, e1⟩, h1, h2⟩ := map_ok.1 h
    simp at h2; obtain ⟨rfl, rfl, rfl⟩ := h2
    obtain ⟨col', idx, acts, hc', hi', r, p, st⟩ := Load.markPending_ref h1
    exact same st.2.1 st.2.2.1
  | removePending n is => simp [Load.step] at h
  | removeNode n =>
    simp only [Load.step] at h
    obtain ⟨book, acts, hl, r, p, st, hret⟩ := Load.removeNode_ref h
    exact same st.2.1 st.2.2.1

/-- with equal collections `schedule()` always agrees on one -/
theorem schedule_agrees {ids : List τ} {s s' : Load.State τ} {e e' : Env} {ret : Option τ} (hf : Load.Fresh s) (hi : SI ids s)
    (h : Load.step s e .schedule = .ok (s', e', ret)) : s'.collection ≠ none := by
  simp only [Load.step] at h
  obtain ⟨⟨s1, e1⟩, h1, h2⟩ := map_ok.1 h
  simp at h2; obtain ⟨rfl, rfl, rfl⟩ := h2
  cases Load.schedule_shape hf h1 with
  | again hsome r =>
    rw [r.static.2.2.1]
    intro hh; rw [hh] at hsome; cases hsome
  | mismatch first col' rest hreg hne hs' he =>
    exfalso
    obtain ⟨p, hp, hne'⟩ := hne
    apply hne'
    have e1 := hi.1 p (by rw [hreg]; exact List.mem_cons_of_mem _ hp)
    have e2 := hi.1 (first, col') (by rw [hreg]; simp)
    simp only at e2
    rw [e1, e2]
  | first first col' rest hcn hreg hall hcol acts r p hst => rw [hcol]; simp

/-- the registered collections change only when one is registered -/
theorem step_n2c {s s' : Load.State τ} {e e' : Env} {op : SOp τ} {ret : Option τ} (hf : Load.Fresh s)
    (hop : ∀ n c, op ≠ .addNodeCollection n c) (h : Load.step s e op = .ok (s', e', ret)) :
    s'.node2collection = s.node2collection ∧ s'.numnodes = s.numnodes := by
  cases op with
  | addNode n =>
    simp only [Load.step] at h
    obtain ⟨s1, h1, h2⟩ := map_ok.1 h
    simp at h2; obtain ⟨rfl, rfl, rfl⟩ := h2
    obtain ⟨_, st⟩ := Load.addNode_ref (e := e) h1
    exact ⟨st.2.1, st.1⟩
  | addNodeCollection n c => exact absurd rfl (hop n c)
  | schedule =>
    simp only [Load.step] at h
    obtain ⟨⟨s1, e1⟩, h1, h2⟩ := map_ok.1 h
    simp at h2; obtain ⟨rfl, rfl, rfl⟩ := h2
    cases Load.schedule_shape hf h1 with
    | again hsome r => exact ⟨r.static.2.1, r.static.1⟩
    | mismatch first col' rest hreg hne hs' he => subst hs'; exact ⟨rfl, rfl⟩
    | first first col' rest hcn hreg hall hcol acts r p hst => exact ⟨hst.2, hst.1⟩
  | markComplete n i slow =>
    simp only [Load.step] at h
    obtain ⟨⟨s1, e1⟩, h1, h2⟩ := map_ok.1 h
    simp at h2; obtain ⟨rfl, rfl, rfl⟩ := h2
    obtain ⟨_, _, _, st⟩ := Load.markComplete_ref h1
    exact ⟨st.2.1, st.1⟩
  | markPending t =>
    simp only [Load.step] at h
    obtain ⟨⟨s1, e1⟩, h1, h2⟩ := map_ok.1 h
    simp at h2; obtain ⟨rfl, rfl, rfl⟩ := h2
    obtain ⟨col', idx, acts, hc', hi', r, p, st⟩ := Load.markPending_ref h1
    exact ⟨st.2.1, st.1⟩
  | removePending n is => simp [Load.step] at h
  | removeNode n =>
    simp only [Load.step] at h
    obtain ⟨book, acts, hl, r, p, st, hret⟩ := Load.removeNode_ref h
    exact ⟨st.2.1, st.1⟩

def ancAtom : Atom τ → Prop
  | .call (.addNodeCollection _ _) => True
  | _ => False

theorem stepsG_si {ids : List τ} {s s' : Load.State τ} {e e' : Env} {g g' : Ghost} {as : List (Atom τ)}
    (h : StepsG s e g as s' e' g') (hb : BalS s g) (hi : SI ids s)
    (hop : ∀ n c, Atom.call (.addNodeCollection n c) ∈ as → c = ids) : SI ids s' := by
  induction h with
  | nil => exact hi
  | @call s e g op s1 e1 r as s2 e2 g2 hs _ ih =>
    obtain ⟨hf, hbal, hst⟩ := hb
    obtain ⟨hf1, hb1⟩ := Load.step_bal hf hbal hs
    refine ih ⟨hf1, hb1, Load.step_started hf hst hs⟩ (step_si hf hi ?_ hs) (fun n c hm => hop n c (List.mem_cons_of_mem _ hm))
    intro n c hh
    exact hop n c (by rw [hh]; exact List.mem_cons_self)
  | shut n _ ih => exact ih hb hi (fun n' c hm => hop n' c (List.mem_cons_of_mem _ hm))

theorem stepsG_n2c {s s' : Load.State τ} {e e' : Env} {g g' : Ghost} {as : List (Atom τ)}
    (h : StepsG s e g as s' e' g') (hb : BalS s g) (hop : ∀ a ∈ as, ¬ ancAtom a) :
    s'.node2collection = s.node2collection ∧ s'.numnodes = s.numnodes := by
  induction h with
  | nil => exact ⟨rfl, rfl⟩
  | @call s e g op s1 e1 r as s2 e2 g2 hs _ ih =>
    obtain ⟨hf, hbal, hst⟩ := hb
    obtain ⟨hf1, hb1⟩ := Load.step_bal hf hbal hs
    have h1 := step_n2c hf (by
      intro n c hh
      exact hop (.call op) List.mem_cons_self (by rw [hh]; trivial)) hs
    obtain ⟨a, b⟩ := ih ⟨hf1, hb1, Load.step_started hf hst hs⟩ (fun x hx => hop x (List.mem_cons_of_mem _ hx))
    exact ⟨a.trans h1.1, b.trans h1.2⟩
  | shut n _ ih => exact ih hb (fun x hx => hop x (List.mem_cons_of_mem _ hx))

theorem allShut_noAnc {K : Nat → Prop} {t : List (Atom τ)} (h : AllShut K t) : ∀ a ∈ t, ¬ ancAtom a := by
  intro a ha
  obtain ⟨n, rfl, _⟩ := h a ha
  exact fun hh => hh

/-- controller side of the twelfth layer -/
structure CtlInv12 (ids : List τ) (c : Ctl.State (Load.State τ) τ) : Prop where
  si : SI ids c.sched
  comp : Load.collectionIsCompleted c.sched = true → c.sched.collection ≠ none

/-- shutdown signals do not touch the scheduler -/
theorem stepsG_shuts_sched {K : Nat → Prop} {s s' : Load.State τ} {e e' : Env} {g g' : Ghost} {t : List (Atom τ)}
    (h : StepsG s e g t s' e' g') (ht : AllShut K t) : s' = s := by
  induction h with
  | nil => rfl
  | call hs _ _ =>
    obtain ⟨n, hh, _⟩ := ht _ List.mem_cons_self
    cases hh
  | shut n _ ih => exact ih (fun a ha => ht a (List.mem_cons_of_mem _ ha))

/-- **one iteration keeps the controller side** — `evIds`: a `collectionfinish` being handled carries `ids` -/
theorem ctl_inv12 {ids : List τ} {c c' : Ctl.State (Load.State τ) τ} {ev : Ctl.Event τ} {g g' : Ghost} {as : List (Atom τ)}
    (h12 : CtlInv12 ids c) (hb : BalS c.sched g) (hsh : Shape loadI c c' ev as)
    (hg : StepsG c.sched c.env g as c'.sched c'.env g') (hev : ∀ n cc, ev = .collectionfinish n cc → cc = ids) :
    CtlInv12 ids c' := by
  -- iterations without `add_node_collection`
  have plain : (∀ a ∈ as, ¬ ancAtom a) → CtlInv12 ids c' := by
    intro hno
    have hsi := stepsG_si hg hb h12.si (by
      intro n cc hm
      exact absurd trivial (hno _ hm))
    obtain ⟨e1, e2⟩ := stepsG_n2c hg hb hno
    refine ⟨hsi, ?_⟩
    intro hc
    have hc0 : Load.collectionIsCompleted c.sched = true := by
      unfold Load.collectionIsCompleted at hc ⊢
      rw [e1, e2] at hc; exact hc
    have := h12.comp hc0
    cases hcol : c.sched.collection with
    | none => exact absurd hcol this
    | some col => rw [stepsG_collection hg hb hcol]; simp
  cases ev with
  | collectionfinish n cc =>
    have hcc := hev n cc rfl
    subst hcc
    obtain ⟨t, ht, h' | h' | h'⟩ := hsh
    · rw [h'.2] at hg
      exact plain (by rw [h'.2]; exact allShut_noAnc ht)
    · obtain ⟨_, _, hnc, has⟩ := h'
      rw [has] at hg
      have hsi := stepsG_si hg hb h12.si (by
        intro n' c'' hm
        rcases List.mem_cons.1 hm with hm | hm
        · cases hm; rfl
        · obtain ⟨m, hh, _⟩ := ht _ hm; cases hh)
      refine ⟨hsi, fun hc => ?_⟩
      have hnc' : Load.collectionIsCompleted c'.sched = false := hnc
      rw [hnc'] at hc; cases hc
    · obtain ⟨_, _, has⟩ := h'
      rw [has] at hg
      have hsi := stepsG_si hg hb h12.si (by
        intro n' c'' hm
        rcases List.mem_cons.1 hm with hm | hm
        · cases hm; rfl
        · rcases List.mem_cons.1 hm with hm | hm
          · cases hm
          · obtain ⟨m, hh, _⟩ := ht _ hm; cases hh)
      refine ⟨hsi, fun _ => ?_⟩
      -- after `add_node_collection`, `schedule()` agrees on the collection
      cases hg with
      | call hs1 t1 =>
        cases t1 with
        | call hs2 t2 =>
          obtain ⟨hf, hbal, hst⟩ := hb
          obtain ⟨hf1, hb1⟩ := Load.step_bal hf hbal hs1
          have hsi1 := step_si hf h12.si (by intro n' c'' hh; cases hh; rfl) hs1
          have hagree := schedule_agrees hf1 hsi1 hs2
          have := stepsG_shuts_sched t2 ht
          rw [this]; exact hagree
  | workerready n =>
    apply plain
    obtain ⟨t, ht, h' | h'⟩ := hsh
    · rw [h'.2]; intro a ha
      rcases List.mem_cons.1 ha with rfl | ha
      · exact fun hh => hh
      · exact allShut_noAnc ht a ha
    · rw [h'.2]; intro a ha
      rcases List.mem_cons.1 ha with rfl | ha
      · exact fun hh => hh
      · exact allShut_noAnc ht a ha
  | complete n i slow =>
    apply plain
    obtain ⟨t, ht, rfl⟩ := hsh
    intro a ha
    rcases List.mem_cons.1 ha with rfl | ha
    · exact fun hh => hh
    · exact allShut_noAnc ht a ha
  | unscheduled n is =>
    apply plain
    obtain ⟨t, ht, rfl⟩ := hsh
    intro a ha
    rcases List.mem_cons.1 ha with rfl | ha
    · exact fun hh => hh
    · exact allShut_noAnc ht a ha
  | errordown n rq =>
    apply plain
    obtain ⟨t, ht, h' | h' | ⟨x, _, h'⟩⟩ := hsh
    · rw [h']; exact allShut_noAnc ht
    · rw [h']; intro a ha
      rcases List.mem_cons.1 ha with rfl | ha
      · exact fun hh => hh
      · exact allShut_noAnc ht a ha
    · rw [h']; intro a ha
      rcases List.mem_cons.1 ha with rfl | ha
      · exact fun hh => hh
      · rcases List.mem_cons.1 ha with rfl | ha
        · exact fun hh => hh
        · exact allShut_noAnc ht a ha
  | workerfinished n x sf ss =>
    apply plain
    obtain ⟨t0, t, ht0, ht, h' | h'⟩ := hsh
    · rw [h']; intro a ha
      rcases List.mem_append.1 ha with ha | ha
      · exact allShut_noAnc ht0 a ha
      · exact allShut_noAnc ht a ha
    · rw [h']; intro a ha
      rcases List.mem_append.1 ha with ha | ha
      · exact allShut_noAnc ht0 a ha
      · rcases List.mem_cons.1 ha with rfl | ha
        · exact fun hh => hh
        · exact allShut_noAnc ht a ha
  | internalError n => exact plain (allShut_noAnc hsh)
  | testreport n f => exact plain (allShut_noAnc hsh)
  | collectreport n key f => exact plain (allShut_noAnc hsh)
  | other => exact plain (allShut_noAnc hsh)

end Xdist.Sys
