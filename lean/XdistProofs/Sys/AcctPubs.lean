import XdistProofs.Sys.Acct
/-!
  The published crash reports are the crash items of the ghost history, in order (`GC`): one iteration of the controller loop
  (`loopOnce_ghost`) is a sequence of atoms with a ghost such that the crash reports it publishes are exactly the items
  `remove_node` charged, and the re-queued ones exactly those `mark_test_pending` was called for.
-/
namespace Xdist.Sys
open Xdist Xdist.Ctl Xdist.Load Xdist.Contract

variable {τ : Type} [DecidableEq τ]

/-- the tests reported as crashed, in the order of the reports -/
def crashIds (pubs : List (Pub τ)) : List τ := pubs.filterMap fun p => match p with | .crash _ t _ => some t | _ => none

/-- the tests the crash hook re-queued -/
def rqIds (pubs : List (Pub τ)) : List τ := pubs.filterMap fun p => match p with | .crash _ t true => some t | _ => none

/-- the ids of a ghost list of indices (newest first) in chronological order -/
def idsOfIdx (col : List τ) (l : List Nat) : List τ := l.reverse.filterMap (fun i => col[i]?)

theorem idsOfIdx_append (col : List τ) (a b : List Nat) : idsOfIdx col (a ++ b) = idsOfIdx col b ++ idsOfIdx col a := by
  simp [idsOfIdx, List.reverse_append, List.filterMap_append]

theorem crashIds_append (a b : List (Pub τ)) : crashIds (a ++ b) = crashIds a ++ crashIds b := by
  simp [crashIds, List.filterMap_append]

theorem rqIds_append (a b : List (Pub τ)) : rqIds (a ++ b) = rqIds a ++ rqIds b := by
  simp [rqIds, List.filterMap_append]

theorem rqIds_nil_of_crashIds_nil {pubs : List (Pub τ)} (h : crashIds pubs = []) : rqIds pubs = [] := by
  induction pubs with
  | nil => rfl
  | cons p t ih =>
    cases p with
    | crash n x rq => simp [crashIds] at h
    | report n f => simpa [crashIds, rqIds] using ih (by simpa [crashIds] using h)
    | collect k => simpa [crashIds, rqIds] using ih (by simpa [crashIds] using h)
    | nodedown n c => simpa [crashIds, rqIds] using ih (by simpa [crashIds] using h)
    | spawn n => simpa [crashIds, rqIds] using ih (by simpa [crashIds] using h)
    | internalError n => simpa [crashIds, rqIds] using ih (by simpa [crashIds] using h)

/-- **the published crash reports are the crash items** -/
structure GC (c : Ctl.State (Load.State τ) τ) (g : Ghost) : Prop where
  early : c.sched.collection = none → crashIds c.pubs = [] ∧ g.crashed = [] ∧ g.requeued = []
  late : ∀ col, c.sched.collection = some col →
    crashIds c.pubs = idsOfIdx col g.crashed ∧ rqIds c.pubs = idsOfIdx col g.requeued

/-- how an iteration extends reports and ghost -/
theorem GC.step {c c' : Ctl.State (Load.State τ) τ} {g g' : Ghost} {nc nr : List τ} {dc dr : List Nat}
    (h : GC c g) (hp1 : crashIds c'.pubs = crashIds c.pubs ++ nc) (hp2 : rqIds c'.pubs = rqIds c.pubs ++ nr)
    (hg1 : g'.crashed = dc ++ g.crashed) (hg2 : g'.requeued = dr ++ g.requeued)
    (hcol : ∀ col, c.sched.collection = some col → c'.sched.collection = some col)
    (hn : c.sched.collection = none → nc = [] ∧ nr = [] ∧ dc = [] ∧ dr = [])
    (hs : ∀ col, c.sched.collection = some col → idsOfIdx col dc = nc ∧ idsOfIdx col dr = nr) : GC c' g' := by
  cases hc : c.sched.collection with
  | none =>
    obtain ⟨rfl, rfl, rfl, rfl⟩ := hn hc
    obtain ⟨a1, a2, a3⟩ := h.early hc
    simp only [List.append_nil, List.nil_append] at hp1 hp2 hg1 hg2
    refine ⟨fun _ => ⟨by rw [hp1, a1], by rw [hg1, a2], by rw [hg2, a3]⟩, ?_⟩
    intro col _
    rw [hp1, hp2, hg1, hg2, a1, a2, a3, rqIds_nil_of_crashIds_nil a1]
    exact ⟨rfl, rfl⟩
  | some col =>
    have hc' := hcol col hc
    obtain ⟨b1, b2⟩ := h.late col hc
    obtain ⟨s1, s2⟩ := hs col hc
    refine ⟨?_, ?_⟩
    · intro hh; rw [hc'] at hh; cases hh
    intro col' hcol'
    rw [hc'] at hcol'
    cases hcol'
    rw [hp1, hp2, hg1, hg2, idsOfIdx_append, idsOfIdx_append, b1, b2, s1, s2]
    exact ⟨rfl, rfl⟩

/-- an iteration that publishes no crash report and charges nothing -/
theorem GC.same {c c' : Ctl.State (Load.State τ) τ} {g g' : Ghost} (h : GC c g)
    (hp1 : crashIds c'.pubs = crashIds c.pubs) (hp2 : rqIds c'.pubs = rqIds c.pubs)
    (hg1 : g'.crashed = g.crashed) (hg2 : g'.requeued = g.requeued)
    (hcol : ∀ col, c.sched.collection = some col → c'.sched.collection = some col) : GC c' g' :=
  h.step (nc := []) (nr := []) (dc := []) (dr := []) (by rw [hp1, List.append_nil]) (by rw [hp2, List.append_nil])
    (by rw [hg1]; rfl) (by rw [hg2]; rfl) hcol (fun _ => ⟨rfl, rfl, rfl, rfl⟩) (fun _ _ => ⟨rfl, rfl⟩)

/-! ### the agreed collection is never changed -/

theorem step_collection {s s' : Load.State τ} {e e' : Env} {op : SOp τ} {ret : Option τ} (hf : Load.Fresh s)
    (h : Load.step s e op = .ok (s', e', ret)) {col : List τ} (hc : s.collection = some col) : s'.collection = some col := by
  cases op with
  | addNode n =>
    simp only [Load.step] at h
    obtain ⟨s1, h1, h2⟩ := map_ok.1 h
    simp at h2; obtain ⟨rfl, rfl, rfl⟩ := h2
    obtain ⟨_, st⟩ := Load.addNode_ref (e := e) h1
    rw [st.2.2.1]; exact hc
  | addNodeCollection n c =>
    simp only [Load.step] at h
    obtain ⟨s1, h1, h2⟩ := map_ok.1 h
    simp at h2; obtain ⟨rfl, rfl, rfl⟩ := h2
    obtain ⟨_, hcc, _, _⟩ := Load.addNodeCollection_view h1
    rw [hcc]; exact hc
  | schedule =>
    simp only [Load.step] at h
    obtain ⟨⟨s1, e1⟩, h1, h2⟩ := map_ok.1 h
    simp at h2; obtain ⟨rfl, rfl, rfl⟩ := h2
    cases Load.schedule_shape hf h1 with
    | again hsome r => rw [r.static.2.2.1]; exact hc
    | mismatch first col' rest hreg hne hs' he => subst hs'; exact hc
    | first first col' rest hcn hreg hall hcol acts r p hst => rw [hcn] at hc; cases hc
  | markComplete n i slow =>
    simp only [Load.step] at h
    obtain ⟨⟨s1, e1⟩, h1, h2⟩ := map_ok.1 h
    simp at h2; obtain ⟨rfl, rfl, rfl⟩ := h2
    obtain ⟨_, _, _, st⟩ := Load.markComplete_ref h1
    rw [st.2.2.1]; exact hc
  | markPending t =>
    simp only [Load.step] at h
    obtain ⟨⟨s1, e1⟩, h1, h2⟩ := map_ok.1 h
    simp at h2; obtain ⟨rfl, rfl, rfl⟩ := h2
    obtain ⟨col', idx, acts, hc', hi, r, p, st⟩ := Load.markPending_ref h1
    rw [st.2.2.1]; exact hc
  | removePending n is => simp [Load.step] at h
  | removeNode n =>
    simp only [Load.step] at h
    obtain ⟨book, acts, hl, r, p, st, hret⟩ := Load.removeNode_ref h
    rw [st.2.2.1]; exact hc

theorem stepsG_collection {s s' : Load.State τ} {e e' : Env} {g g' : Ghost} {as : List (Atom τ)}
    (h : StepsG s e g as s' e' g') (hb : BalS s g) {col : List τ} (hc : s.collection = some col) : s'.collection = some col := by
  induction h with
  | nil => exact hc
  | call hs _ ih =>
    obtain ⟨hf, hbal, hst⟩ := hb
    obtain ⟨hf1, hb1⟩ := Load.step_bal hf hbal hs
    exact ih ⟨hf1, hb1, Load.step_started hf hst hs⟩ (step_collection hf hs hc)
  | shut n _ ih => exact ih hb hc

/-! ### atoms that charge nothing -/

def plainAtom : Atom τ → Prop
  | .call (.removeNode _) => False
  | .call (.markPending _) => False
  | _ => True

theorem ghostOp_plain (s s' : Load.State τ) (g : Ghost) (op : SOp τ) (h : plainAtom (.call op)) :
    (Load.ghostOp s s' g op).crashed = g.crashed ∧ (Load.ghostOp s s' g op).requeued = g.requeued := by
  cases op with
  | addNode n => exact ⟨rfl, rfl⟩
  | addNodeCollection n c => exact ⟨rfl, rfl⟩
  | schedule => simp only [Load.ghostOp]; split <;> exact ⟨rfl, rfl⟩
  | markComplete n i d => exact ⟨rfl, rfl⟩
  | markPending t => exact absurd h (by simp [plainAtom])
  | removePending n is => exact ⟨rfl, rfl⟩
  | removeNode n => exact absurd h (by simp [plainAtom])

theorem stepsG_plain {s s' : Load.State τ} {e e' : Env} {g g' : Ghost} {as : List (Atom τ)}
    (h : StepsG s e g as s' e' g') (hp : ∀ a ∈ as, plainAtom a) : g'.crashed = g.crashed ∧ g'.requeued = g.requeued := by
  induction h with
  | nil => exact ⟨rfl, rfl⟩
  | @call s e g op s1 e1 r as s2 e2 g2 hs _ ih =>
    obtain ⟨a, b⟩ := ih (fun x hx => hp x (List.mem_cons_of_mem _ hx))
    obtain ⟨c, d⟩ := ghostOp_plain s s1 g op (hp _ List.mem_cons_self)
    exact ⟨a.trans c, b.trans d⟩
  | shut n _ ih => exact ih (fun x hx => hp x (List.mem_cons_of_mem _ hx))

theorem allShut_plain {K : Nat → Prop} {t : List (Atom τ)} (h : AllShut K t) : ∀ a ∈ t, plainAtom a := by
  intro a ha
  obtain ⟨n, rfl, _⟩ := h a ha
  trivial

/-- shutdown signals leave the ghost alone -/
theorem stepsG_shuts {K : Nat → Prop} {s s' : Load.State τ} {e e' : Env} {t : List (Atom τ)} (h : Steps (loadI (τ := τ)) s e t s' e')
    (ht : AllShut K t) (g : Ghost) : StepsG s e g t s' e' g := by
  induction h with
  | nil s e => exact StepsG.nil s e g
  | call hs _ _ =>
    obtain ⟨n, hh, _⟩ := ht _ List.mem_cons_self
    cases hh
  | shut n _ ih => exact StepsG.shut n (ih (fun a ha => ht a (List.mem_cons_of_mem _ ha)))

theorem StepsG.append {s s1 s2 : Load.State τ} {e e1 e2 : Env} {g g1 g2 : Ghost} {as bs : List (Atom τ)}
    (h1 : StepsG s e g as s1 e1 g1) (h2 : StepsG s1 e1 g1 bs s2 e2 g2) : StepsG s e g (as ++ bs) s2 e2 g2 := by
  induction h1 with
  | nil => exact h2
  | call hs _ ih => exact StepsG.call hs (ih h2)
  | shut n _ ih => exact StepsG.shut n (ih h2)

theorem StepsG.steps {s s' : Load.State τ} {e e' : Env} {g g' : Ghost} {as : List (Atom τ)} (h : StepsG s e g as s' e' g') :
    Steps (loadI (τ := τ)) s e as s' e' := by
  induction h with
  | nil s e g => exact Steps.nil s e
  | call hs _ ih => exact Steps.call hs ih
  | shut n _ ih => exact Steps.shut n ih

end Xdist.Sys
