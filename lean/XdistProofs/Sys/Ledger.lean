import XdistProofs.Sys.PoolCtl
import XdistProofs.Sys.LedgerDef
import XdistProofs.Sys.Reach2
/-!
  **The whole-system ledger of `--dist load` (runs without worker loss).**  Every index of the agreed collection is, at any
  moment, in exactly one place: the controller's pool, or one worker's account — the tests that worker has started
  (`ran`, the execution history of its main thread), the one it announced as next, its queue, or a run command on its way to
  it.  Hence no test is ever started twice or on two workers, and once nothing is outstanding every test has been started
  exactly once.  The statement is about *executions by the worker threads*, not about the controller's bookkeeping.
-/
namespace Xdist.Sys
open Xdist Xdist.Ctl Xdist.Load

variable {τ : Type} [DecidableEq τ]

/-! ### the worker side: an account never changes by the worker's own steps -/

theorem acct_main {c : Ctl.State (Load.State τ) τ} {k : Nat} {w w' : Wk τ} {p : MainP} (h : WkInv c k w)
    (hm : mainStep k w p = some w') : acct w' = acct w ∧ w'.alive = w.alive := by
  unfold mainStep at hm
  have ha : w.alive = true := by
    cases hh : w.alive with
    | true => rfl
    | false => simp [hh] at hm
  have hna : (!w.alive) = false := by simp [ha]
  simp only [hna, Bool.false_eq_true, ↓reduceIte] at hm
  cases hph : w.phase with
  | boot => simp only [hph, Option.some.injEq] at hm; subst hm; exact ⟨rfl, rfl⟩
  | collect =>
    simp only [hph] at hm
    cases p with
    | collect errs garbage intr sf0 =>
      simp only at hm
      split at hm <;> (simp only [Option.some.injEq] at hm; subst hm; exact ⟨rfl, rfl⟩)
    | none => simp at hm
    | reports fs sf ss ex => simp at hm
    | complete slow => simp at hm
  | finish => simp only [hph, Option.some.injEq] at hm; subst hm; exact ⟨rfl, rfl⟩
  | done => simp [hph] at hm
  | loop =>
    simp only [hph] at hm
    cases hpc : w.w.pc with
    | init =>
      simp only [hpc] at hm
      obtain ⟨v, hv, rfl⟩ := Option.map_eq_some_iff.1 hm
      unfold Worker.get0 at hv
      simp only [hpc, ne_eq, not_true_eq_false, ↓reduceIte] at hv
      split at hv
      · cases hv
      · rename_i q r htr
        simp only [Option.some.injEq] at hv
        subst hv
        refine ⟨?_, rfl⟩
        have hn := h.init0 hpc
        unfold acct nextT ranIdx inboxRuns
        simp only [hn, htr]
        cases q <;> simp [Worker.tests]
    | haveItem =>
      simp only [hpc] at hm
      obtain ⟨v, hv, rfl⟩ := Option.map_eq_some_iff.1 hm
      unfold Worker.get1 at hv
      simp only [hpc, ne_eq, not_true_eq_false, ↓reduceIte] at hv
      split at hv
      · rename_i i q r hnx htr
        simp only [Option.some.injEq] at hv
        subst hv
        refine ⟨?_, rfl⟩
        unfold acct nextT ranIdx inboxRuns
        simp only [hnx, htr]
        cases q <;> simp [Worker.tests]
      · cases hv
    | done => simp [hpc] at hm
    | running =>
      simp only [hpc] at hm
      split at hm
      · simp only [Option.some.injEq] at hm; subst hm; exact ⟨rfl, rfl⟩
      · simp only [Option.some.injEq] at hm; subst hm; exact ⟨rfl, rfl⟩
      · split at hm
        · simp only [Option.some.injEq] at hm; subst hm; exact ⟨rfl, rfl⟩
        · split at hm
          · rename_i i v hcur hfin
            simp only [Option.some.injEq] at hm
            subst hm
            unfold Worker.finish at hfin
            simp only [hpc, ne_eq, not_true_eq_false, ↓reduceIte, hcur, Option.some.injEq] at hfin
            subst hfin
            exact ⟨rfl, rfl⟩
          · cases hm
      · cases hm

theorem inboxRuns_cons_run (is : List Nat) (rest : List Cmd) (w : Wk τ) :
    inboxRuns ({ w with inbox := Cmd.run is :: rest } : Wk τ) = is ++ inboxRuns ({ w with inbox := rest } : Wk τ) := by
  simp [inboxRuns]

theorem putMany_ran (s : Worker.State) (is : List Nat) : (Worker.putMany s is).ran = s.ran := by
  induction is generalizing s with
  | nil => rfl
  | cons i t ih => simp only [Worker.putMany]; rw [ih]; rfl

theorem acct_deliver {c : Ctl.State (Load.State τ) τ} {k : Nat} {w w' : Wk τ} (h : WkInv c k w)
    (hd : deliverStep k w = some w') : acct w' = acct w ∧ w'.alive = w.alive := by
  unfold deliverStep at hd
  split at hd
  · cases hd
  cases hi : w.inbox with
  | nil => simp [hi] at hd
  | cons cmd rest =>
    simp only [hi] at hd
    have hk := h.inboxK cmd (by rw [hi]; simp)
    cases cmd with
    | run is =>
      simp only [Option.some.injEq] at hd
      subst hd
      obtain ⟨f1, _, _, f4⟩ := putMany_fields w.w is
      refine ⟨?_, rfl⟩
      unfold acct nextT ranIdx inboxRuns
      simp only [f1, f4, hi, tests_append, tests_map_test, List.flatMap_cons, List.append_assoc]
      rw [putMany_ran]
    | shutdown =>
      simp only [Option.some.injEq] at hd
      subst hd
      refine ⟨?_, rfl⟩
      unfold acct nextT ranIdx inboxRuns
      simp [Worker.putShutdown, hi, tests_append, Worker.tests]
    | runAll => simp [loadCmd] at hk
    | steal is => simp [loadCmd] at hk

/-! ### lists of workers -/

theorem flatMap_set_same {α β : Type} (f : α → List β) {l : List α} {k : Nat} {a b : α} (h : l[k]? = some a) (hf : f b = f a) :
    (l.set k b).flatMap f = l.flatMap f := by
  induction l generalizing k with
  | nil => cases h
  | cons x t ih =>
    cases k with
    | zero => simp only [List.getElem?_cons_zero, Option.some.injEq] at h; subst h; simp [hf]
    | succ k => simp only [List.getElem?_cons_succ] at h; simp only [List.set_cons_succ, List.flatMap_cons]; rw [ih h]

theorem count_flatMap_set {α : Type} (f : α → List Nat) (x : Nat) {l : List α} {k : Nat} {a b : α} (h : l[k]? = some a) :
    ((l.set k b).flatMap f).count x + (f a).count x = (l.flatMap f).count x + (f b).count x := by
  induction l generalizing k with
  | nil => cases h
  | cons y t ih =>
    cases k with
    | zero =>
      simp only [List.getElem?_cons_zero, Option.some.injEq] at h; subst h
      simp only [List.set_cons_zero, List.flatMap_cons, List.count_append]; omega
    | succ k =>
      simp only [List.getElem?_cons_succ] at h
      simp only [List.set_cons_succ, List.flatMap_cons, List.count_append]
      have := ih h
      omega

theorem mem_set_alive {wk : List (Wk τ)} {k : Nat} {w' : Wk τ} (hall : ∀ w ∈ wk, w.alive = true) (h' : w'.alive = true) :
    ∀ w ∈ wk.set k w', w.alive = true := by
  intro w hw
  rcases List.mem_or_eq_of_mem_set hw with h | h
  · exact hall w h
  · rw [h]; exact h'

/-- what a command adds to the account of the worker it is delivered to -/
def runsCmd : Cmd → List Nat
  | .run is => is
  | _ => []

theorem acct_inbox_snoc (w : Wk τ) (c : Cmd) : acct ({ w with inbox := w.inbox ++ [c] } : Wk τ) = acct w ++ runsCmd c := by
  unfold acct nextT ranIdx inboxRuns
  simp only [List.flatMap_append, List.flatMap_cons, List.flatMap_nil, List.append_nil, List.append_assoc]
  cases c <;> rfl

theorem cmdOf_runs (o : SOut) : (match cmdOf o with | some (_, c) => runsCmd c | none => []) = runsOf [o] := by
  cases o <;> simp [cmdOf, runsCmd, runsOf]

/-- **routing**: the accounts grow by exactly the run commands on the wire (all workers alive, every addressee exists) -/
theorem route_count (new : List SOut) (x : Nat) : ∀ (wk : List (Wk τ)), (∀ w ∈ wk, w.alive = true) →
    (∀ o ∈ new, ∀ n cmd, cmdOf o = some (n, cmd) → n < wk.length) →
    ((route wk new).flatMap acct).count x = (wk.flatMap acct).count x + (runsOf new).count x := by
  induction new with
  | nil => intro wk _ _; simp [route]
  | cons o rest ih =>
    intro wk hal hlt
    have hr : runsOf (o :: rest) = runsOf [o] ++ runsOf rest := by
      rw [← runsOf_append]; rfl
    rw [hr, List.count_append]
    simp only [route]
    cases hc : cmdOf o with
    | none =>
      simp only
      rw [ih wk hal (fun o' ho' => hlt o' (List.mem_cons_of_mem _ ho'))]
      have := cmdOf_runs o
      rw [hc] at this
      rw [← this]; simp
    | some p =>
      obtain ⟨n, c⟩ := p
      simp only
      have hn : n < wk.length := hlt o (by simp) n c hc
      have hw : wk[n]? = some wk[n] := by simp [hn]
      rw [hw]
      simp only
      have hwa : (wk[n]).alive = true := hal _ (List.getElem_mem hn)
      rw [if_pos hwa]
      rw [ih (wk.set n ({ wk[n] with inbox := wk[n].inbox ++ [c] } : Wk τ)) (mem_set_alive hal hwa)
        (fun o' ho' n' c' h' => by simpa using hlt o' (List.mem_cons_of_mem _ ho') n' c' h')]
      have h1 := count_flatMap_set acct x (b := ({ wk[n] with inbox := wk[n].inbox ++ [c] } : Wk τ)) hw
      rw [acct_inbox_snoc, List.count_append] at h1
      have h2 := cmdOf_runs o
      rw [hc] at h2
      simp only at h2
      rw [← h2]
      omega

theorem spawn_flatMap (idsOf : Nat → List τ) (wk : List (Wk τ)) (upTo : Nat) :
    (spawn idsOf wk upTo).flatMap acct = wk.flatMap acct := by
  unfold spawn
  rw [List.flatMap_append]
  have : ((List.range (upTo - wk.length)).map fun j => ({ ids := idsOf (wk.length + j) } : Wk τ)).flatMap acct = [] := by
    rw [List.flatMap_eq_nil_iff]
    intro w hw
    obtain ⟨j, _, rfl⟩ := List.mem_map.1 hw
    rfl
  rw [this, List.append_nil]

theorem spawn_alive (idsOf : Nat → List τ) (wk : List (Wk τ)) (upTo : Nat) (h : ∀ w ∈ wk, w.alive = true) :
    ∀ w ∈ spawn idsOf wk upTo, w.alive = true := by
  intro w hw
  unfold spawn at hw
  rcases List.mem_append.1 hw with hw | hw
  · exact h w hw
  · obtain ⟨j, _, rfl⟩ := List.mem_map.1 hw; rfl

theorem route_alive (new : List SOut) : ∀ (wk : List (Wk τ)), (∀ w ∈ route wk new, w.alive = true) → ∀ w ∈ wk, w.alive = true := by
  intro wk h w hw
  obtain ⟨j, hj, rfl⟩ := List.getElem_of_mem hw
  have hg := route_get wk new j
  have : wk[j]? = some wk[j] := by simp [hj]
  rw [this] at hg
  simp only [Option.map_some] at hg
  have hm : routed j new wk[j] ∈ route wk new := List.mem_of_getElem? hg
  have := h _ hm
  unfold routed at this
  split at this
  · rename_i ha; exact ha
  · exact this

end Xdist.Sys
