import XdistProofs.Sys.After1
/-!
  Nothing behind the shutdown marker — the worker's side (thirteenth layer, `WkInv13`): once the shutdown signal is in the worker's
  inbox or queue no test follows it; a worker leaves its loop because of its own stop request, an exit, or the marker; the
  `workerfinished` it then sends carries its final status.
-/
namespace Xdist.Sys
open Xdist Xdist.Ctl Xdist.Load Xdist.Contract

variable {τ : Type} [DecidableEq τ]

/-- the tests in a list of commands -/
def runsL (l : List Cmd) : List Nat := l.flatMap fun c => match c with | .run is => is | _ => []

theorem inboxRuns_eq (w : Wk τ) : inboxRuns w = runsL w.inbox := rfl

theorem runsL_append (a b : List Cmd) : runsL (a ++ b) = runsL a ++ runsL b := by simp [runsL, List.flatMap_append]

theorem runsL_cons_run (is : List Nat) (l : List Cmd) : runsL (.run is :: l) = is ++ runsL l := by simp [runsL]

theorem runsL_cons_shut (l : List Cmd) : runsL (.shutdown :: l) = runsL l := by simp [runsL]

theorem putMany_torun (s : Worker.State) (is : List Nat) : (Worker.putMany s is).torun = s.torun ++ is.map Worker.QItem.test := by
  induction is generalizing s with
  | nil => simp [Worker.putMany]
  | cons i r ih => simp only [Worker.putMany]; rw [ih]; simp [Worker.put, List.append_assoc]

theorem putMany_next (s : Worker.State) (is : List Nat) : (Worker.putMany s is).next = s.next ∧ (Worker.putMany s is).pc = s.pc := by
  induction is generalizing s with
  | nil => exact ⟨rfl, rfl⟩
  | cons i r ih => simp only [Worker.putMany]; obtain ⟨a, b⟩ := ih (Worker.put s i); exact ⟨a, b⟩

/-- neither `workerfinished` nor something that looks like it -/
def noWf : WMsg τ → Bool
  | .fin _ _ _ => false
  | .ev (.workerfinished _ _ _ _) => false
  | _ => true

theorem not_wf_of_noWf {k : Nat} {ms : List (WMsg τ)} (hms : ∀ m ∈ ms, noWf m = true) {n x : Nat} {sf ss : Option String}
    (h : Ctl.Event.workerfinished n x sf ss ∈ ms.filterMap (evOf k)) : False := by
  obtain ⟨m, hm1, hm2⟩ := List.mem_filterMap.1 h
  have := hms m hm1
  cases m with
  | ev e => simp only [evOf, Option.some.injEq] at hm2; subst hm2; simp [noWf] at this
  | ignored => simp [evOf] at hm2
  | fin a b c => simp [noWf] at this
  | garbage => simp [evOf] at hm2
  | endMarker => simp [evOf] at hm2

structure WkInv13 (c : Ctl.State (Load.State τ) τ) (k : Nat) (w : Wk τ) : Prop where
  nextSome : w.w.pc ≠ .init → w.w.next.isSome = true
  /-- why a worker is past its loop -/
  exitWhy : w.phase = .finish ∨ w.phase = .done →
    w.exitstatus = 2 ∨ w.sf.isSome = true ∨ w.ss.isSome = true ∨ w.w.next = some .shutdown
  wfFields : ∀ n x sf ss, Ctl.Event.workerfinished n x sf ss ∈ flight k w →
    w.phase = .done ∧ x = w.exitstatus ∧ sf = w.sf ∧ ss = w.ss
  doneAlive : w.phase = .done → w.alive = true
  /-- nothing behind the marker -/
  na1 : w.alive = true → w.w.next = some .shutdown → Worker.tests w.w.torun = [] ∧ inboxRuns w = []
  na2 : w.alive = true → ∀ a b, w.w.torun = a ++ Worker.QItem.shutdown :: b → Worker.tests b = [] ∧ inboxRuns w = []
  na3 : w.alive = true → ∀ a b, w.inbox = a ++ Cmd.shutdown :: b → runsL b = []
  /-- a marker is there only if the controller sent the signal -/
  n1 : w.alive = true → shutSeen w = true → (c.env.flags.get k).sent = true

def Inv13 (st : LState τ) : Prop := ∀ k w, st.wk[k]? = some w → WkInv13 st.ctl k w

theorem inv13_setWk {st : LState τ} {k : Nat} {w w' : Wk τ} (hinv : Inv13 st) (hw : st.wk[k]? = some w)
    (h' : WkInv13 st.ctl k w') : Inv13 (setWk st k w') := by
  intro j wj hj
  by_cases hjk : j = k
  · subst hjk
    simp only [setWk] at hj
    rw [getElem?_set_self' hw] at hj
    cases hj
    exact h'
  · simp only [setWk] at hj
    rw [List.getElem?_set_ne (Ne.symm hjk)] at hj
    exact hinv j wj hj

/-- a step that changes neither the worker's queue state nor its status, and emits no `workerfinished` -/
theorem wkInv13_emit {c : Ctl.State (Load.State τ) τ} {k : Nat} {w w' : Wk τ} (ms : List (WMsg τ)) (h : WkInv13 c k w)
    (hw : w'.w = w.w) (hi : w'.inbox = w.inbox) (hal : w'.alive = w.alive) (hp : w'.posted = w.posted)
    (ho : w'.outbox = w.outbox ++ ms) (hms : ∀ m ∈ ms, noWf m = true)
    (hph : w'.phase = w.phase) (hx : w'.exitstatus = w.exitstatus) (hsf : w'.sf = w.sf) (hss : w'.ss = w.ss)
    (hnd : w.phase ≠ .done) : WkInv13 c k w' := by
  have hshut : shutSeen w' = shutSeen w := by unfold shutSeen; rw [hw, hi]
  have hruns : inboxRuns w' = inboxRuns w := by unfold inboxRuns; rw [hi]
  refine ⟨by rw [hw]; exact h.nextSome, by rw [hph, hx, hsf, hss, hw]; exact h.exitWhy, ?_, by rw [hph]; exact fun hh => absurd hh hnd,
    by rw [hal, hw, hruns]; exact h.na1, by rw [hal, hw, hruns]; exact h.na2, by rw [hal, hi]; exact h.na3,
    by rw [hal, hshut]; exact h.n1⟩
  intro n x sf ss hm
  rw [flight_emit k hp ho] at hm
  rcases List.mem_append.1 hm with hm | hm
  · exact absurd (h.wfFields n x sf ss hm).1 hnd
  · exact (not_wf_of_noWf hms hm).elim

theorem mem_flight_emit {k : Nat} {w w' : Wk τ} {e : Ctl.Event τ} (h : e ∈ flight k w') (ms : List (WMsg τ))
    (hp : w'.posted = w.posted) (ho : w'.outbox = w.outbox ++ ms) : e ∈ flight k w ∨ e ∈ ms.filterMap (evOf k) := by
  rw [flight_emit k hp ho] at h; exact List.mem_append.1 h

theorem shutSeen_of_next {w : Wk τ} (h : w.w.next = some .shutdown) : shutSeen w = true := by
  unfold shutSeen; rw [h]; simp

theorem shutSeen_of_torun {w : Wk τ} {a b : List Worker.QItem} (h : w.w.torun = a ++ Worker.QItem.shutdown :: b) : shutSeen w = true := by
  unfold shutSeen; rw [h]; simp

theorem shutSeen_of_inbox {w : Wk τ} {a b : List Cmd} (h : w.inbox = a ++ Cmd.shutdown :: b) : shutSeen w = true := by
  unfold shutSeen; rw [h]; simp

/-- taking the next item from the queue (`torun.get()`): `q` becomes `next`, `r` stays -/
theorem wkInv13_get {c : Ctl.State (Load.State τ) τ} {k : Nat} {w w' : Wk τ} {q : Worker.QItem} {r : List Worker.QItem}
    (h : WkInv13 c k w) (ht : w.w.torun = q :: r) (hn : w'.w.next = some q) (hr : w'.w.torun = r) (hpc : w'.w.pc ≠ .init)
    (hi : w'.inbox = w.inbox) (hal : w'.alive = w.alive) (hfl : flight k w' = flight k w)
    (hph : w'.phase = .loop ∨ (w'.phase = .finish ∧ q = .shutdown)) (hx : w'.exitstatus = w.exitstatus) (hsf : w'.sf = w.sf)
    (hss : w'.ss = w.ss) (hnd : w.phase ≠ .done) : WkInv13 c k w' := by
  have hruns : inboxRuns w' = inboxRuns w := by unfold inboxRuns; rw [hi]
  refine ⟨fun _ => by rw [hn]; rfl, ?_, ?_, ?_, ?_, ?_, by rw [hal, hi]; exact h.na3, ?_⟩
  · intro hp
    rcases hph with h' | ⟨_, h'⟩
    · rw [h'] at hp; rcases hp with hp | hp <;> cases hp
    · right; right; right; rw [hn, h']
  · intro n x sf ss hm
    rw [hfl] at hm
    exact absurd (h.wfFields n x sf ss hm).1 hnd
  · intro hp
    rcases hph with h' | ⟨h', _⟩ <;> rw [h'] at hp <;> cases hp
  · intro ha hnx
    rw [hn] at hnx
    simp only [Option.some.injEq] at hnx
    subst hnx
    rw [hr, hruns]
    exact h.na2 (by rw [← hal]; exact ha) [] r (by rw [ht]; rfl)
  · intro ha a b hs
    rw [hr] at hs
    rw [hruns]
    exact h.na2 (by rw [← hal]; exact ha) (q :: a) b (by rw [ht, hs]; rfl)
  · intro ha hs
    apply h.n1 (by rw [← hal]; exact ha)
    unfold shutSeen at hs ⊢
    rw [hi, hn, hr] at hs
    rw [ht]
    simp only [Bool.or_eq_true, List.contains_cons, beq_iff_eq] at hs ⊢
    rcases hs with (hs | hs) | hs
    · exact Or.inl (Or.inl hs)
    · exact Or.inl (Or.inr (Or.inr hs))
    · left; right; left
      simp only [Option.some.injEq] at hs
      exact hs.symm

theorem mainStep_inv13 {c : Ctl.State (Load.State τ) τ} {k : Nat} {w w' : Wk τ} {p : MainP} (h : WkInv13 c k w)
    (hm : mainStep k w p = some w') : WkInv13 c k w' := by
  have ha := mainStep_alive hm
  unfold mainStep at hm
  split at hm
  · cases hm
  cases hph : w.phase with
  | boot =>
    simp only [hph, Option.some.injEq] at hm
    subst hm
    refine ⟨h.nextSome, fun hp => (by rcases hp with hp | hp <;> cases hp), ?_, fun hp => (by cases hp), h.na1, h.na2, h.na3, h.n1⟩
    intro n x sf ss hmem
    rcases mem_flight_emit (w := w) hmem [.ev (.workerready k)] rfl rfl with hmem | hmem
    · have := (h.wfFields n x sf ss hmem).1
      rw [hph] at this; cases this
    · simp [evOf] at hmem
  | collect =>
    simp only [hph] at hm
    cases p with
    | collect errs garbage intr sf0 =>
      simp only at hm
      have hnofin : ∀ m ∈ ([WMsg.ignored] ++ errs.map (fun (e : String × Bool) => WMsg.ev (Ctl.Event.collectreport (τ := τ) k e.1 e.2)) ++
            [WMsg.ev (Ctl.Event.collectionfinish k w.ids)]), noWf m = true := by
        intro m hm'
        simp only [List.mem_append, List.mem_cons, List.mem_map, List.not_mem_nil, or_false] at hm'
        rcases hm' with (rfl | ⟨x, _, rfl⟩) | rfl <;> rfl
      have hwf : ∀ (w2 : Wk τ) (n x : Nat) (sf ss : Option String), Ctl.Event.workerfinished n x sf ss ∈ flight k w2 →
          ∀ (ms : List (WMsg τ)), w2.posted = w.posted → w2.outbox = w.outbox ++ ms → (∀ m ∈ ms, noWf m = true) → False := by
        intro w2 n x sf ss hmem ms hp2 ho2 hms
        rw [flight_emit k hp2 ho2] at hmem
        rcases List.mem_append.1 hmem with hmem | hmem
        · have := (h.wfFields n x sf ss hmem).1
          rw [hph] at this; cases this
        · exact not_wf_of_noWf hms hmem
      split at hm
      · simp only [Option.some.injEq] at hm
        subst hm
        refine ⟨h.nextSome, fun _ => Or.inl rfl, ?_, fun hp => (by cases hp), h.na1, h.na2, h.na3, h.n1⟩
        intro n x sf ss hmem
        exact (hwf _ n x sf ss hmem _ rfl rfl hnofin).elim
      · simp only [Option.some.injEq] at hm
        subst hm
        refine ⟨h.nextSome, fun hp => (by rcases hp with hp | hp <;> cases hp), ?_, fun hp => (by cases hp), h.na1, h.na2, h.na3, h.n1⟩
        intro n x sf ss hmem
        refine (hwf _ n x sf ss hmem (([WMsg.ignored] ++ errs.map (fun (e : String × Bool) => WMsg.ev (Ctl.Event.collectreport k e.1 e.2)) ++
            [WMsg.ev (Ctl.Event.collectionfinish k w.ids)]) ++ (if garbage then [WMsg.garbage] else [])) rfl
          (by simp [List.append_assoc]) ?_).elim
        intro m hm'
        rcases List.mem_append.1 hm' with hm' | hm'
        · exact hnofin m hm'
        · split at hm' <;> simp at hm'
          subst hm'; rfl
    | none => simp at hm
    | reports fs sf ss ex => simp at hm
    | complete slow => simp at hm
  | finish =>
    simp only [hph, Option.some.injEq] at hm
    subst hm
    have hew := h.exitWhy (Or.inl hph)
    refine ⟨h.nextSome, fun _ => hew, ?_, fun _ => ha, h.na1, h.na2, h.na3, h.n1⟩
    intro n x sf ss hmem
    rcases mem_flight_emit (w := w) hmem [.fin w.exitstatus w.sf w.ss, .endMarker] rfl rfl with hmem | hmem
    · have := (h.wfFields n x sf ss hmem).1
      rw [hph] at this; cases this
    · simp only [List.filterMap_cons, evOf, List.filterMap_nil, List.mem_singleton, Ctl.Event.workerfinished.injEq] at hmem
      exact ⟨rfl, hmem.2.1, hmem.2.2.1, hmem.2.2.2⟩
  | done => simp [hph] at hm
  | loop =>
    simp only [hph] at hm
    have hnd : w.phase ≠ .done := by rw [hph]; simp
    cases hpc : w.w.pc with
    | init =>
      simp only [hpc] at hm
      obtain ⟨v, hv, rfl⟩ := Option.map_eq_some_iff.1 hm
      unfold Worker.get0 at hv
      simp only [hpc, ne_eq, not_true_eq_false, ↓reduceIte] at hv
      cases ht : w.w.torun with
      | nil => simp [ht] at hv
      | cons q r =>
        simp only [ht, Option.some.injEq] at hv
        subst hv
        refine wkInv13_get (q := q) (r := r) h ht rfl rfl ?_ rfl rfl rfl ?_ rfl rfl rfl hnd
        · cases q <;> simp
        · cases q with
          | test i => left; simp
          | shutdown => right; simp
    | haveItem =>
      simp only [hpc] at hm
      obtain ⟨v, hv, rfl⟩ := Option.map_eq_some_iff.1 hm
      unfold Worker.get1 at hv
      simp only [hpc, ne_eq, not_true_eq_false, ↓reduceIte] at hv
      split at hv
      · rename_i i q r hnx ht
        simp only [Option.some.injEq] at hv
        subst hv
        exact wkInv13_get (q := q) (r := r) h ht rfl rfl (by simp) rfl rfl rfl (Or.inl rfl) rfl rfl rfl hnd
      · cases hv
    | done => simp [hpc] at hm
    | running =>
      simp only [hpc] at hm
      split at hm
      · simp only [Option.some.injEq] at hm
        subst hm
        exact wkInv13_emit [.ev .other] h rfl rfl rfl rfl rfl (by intro m hm'; simp at hm'; subst hm'; rfl) hph.symm rfl rfl rfl hnd
      · simp only [Option.some.injEq] at hm
        subst hm
        -- the reports of the test; the session's stop flags and exit status may change — the worker is still in its loop
        refine ⟨h.nextSome, fun hp => (by rcases hp with hp | hp <;> cases hp), ?_, fun hp => (by cases hp), h.na1, h.na2, h.na3, h.n1⟩
        intro n x sf' ss' hmem
        rcases mem_flight_emit (w := w) hmem _ rfl (List.append_assoc _ _ _) with hmem | hmem
        · exact absurd (h.wfFields n x sf' ss' hmem).1 hnd
        · refine (not_wf_of_noWf ?_ hmem).elim
          intro m hm'
          simp only [List.mem_append, List.mem_map, List.mem_singleton] at hm'
          rcases hm' with ⟨y, _, rfl⟩ | rfl <;> rfl
      · split at hm
        · simp only [Option.some.injEq] at hm
          subst hm
          rename_i hex
          refine ⟨h.nextSome, fun _ => Or.inl hex, ?_, fun hp => (by cases hp), h.na1, h.na2, h.na3, h.n1⟩
          intro n x sf ss hmem
          exact absurd (h.wfFields n x sf ss hmem).1 hnd
        · split at hm
          · rename_i i v hcur hfin
            simp only [Option.some.injEq] at hm
            subst hm
            unfold Worker.finish at hfin
            simp only [hpc, ne_eq, not_true_eq_false, ↓reduceIte, hcur, Option.some.injEq] at hfin
            subst hfin
            have hns := h.nextSome (by rw [hpc]; simp)
            refine ⟨fun _ => hns, ?_, ?_, ?_, h.na1, h.na2, h.na3, h.n1⟩
            · intro _
              cases hstop : (w.sf.isSome || w.ss.isSome) with
              | true =>
                simp only [Bool.or_eq_true] at hstop
                rcases hstop with h' | h'
                · exact Or.inr (Or.inl h')
                · exact Or.inr (Or.inr (Or.inl h'))
              | false =>
                right; right; right
                simp only
                cases hnx : w.w.next with
                | none => rw [hnx] at hns; cases hns
                | some q =>
                  cases q with
                  | shutdown => rfl
                  | test j =>
                    exfalso
                    rename_i hp
                    simp only [hstop, Bool.false_eq_true, ↓reduceIte, hnx] at hp
                    rcases hp with hp | hp <;> cases hp
            · intro n x sf ss hmem
              rcases mem_flight_emit (w := w) hmem [.ev (.complete k i _)] rfl rfl with hmem | hmem
              · exact absurd (h.wfFields n x sf ss hmem).1 hnd
              · simp [evOf] at hmem
            · intro hp
              exfalso
              revert hp
              simp only
              split
              · simp
              · split <;> simp
          · cases hm
      · cases hm

end Xdist.Sys
