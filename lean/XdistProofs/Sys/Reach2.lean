import XdistProofs.Sys.Ctl2
/-!
  **`--dist load`: no stand-off in any reachable state — also while the collections are still arriving.**

  Both layers of the system invariant hold in every reachable state (`reach_inv12`); with the second layer the hypothesis
  "the collection is complete" of `C02_sys_load_no_standoff` becomes a consequence of "nothing can move".
-/
namespace Xdist.Sys
open Xdist Xdist.Ctl

variable {τ : Type} [DecidableEq τ]

/-- every step of the system keeps the second layer (given the first) -/
theorem step_inv2 (idsOf : Nat → List τ) {st st' : LState τ} (a : Step) (h1 : Inv st) (h2 : Inv2 st)
    (h : step loadI idsOf st a = .ok st') : Inv2 st' := by
  cases a with
  | main k p => exact main_inv2 idsOf h2 h
  | deliver k => exact deliver_inv2 idsOf h1 h2 h
  | recv k => exact recv_inv2 idsOf h1 h2 h
  | crash k b => exact crash_inv2 idsOf h2 h
  | ctl k rq => exact ctl_inv2 idsOf h1 h2 h

theorem init_inv2 (numnodes maxfail : Nat) (msc maxRestart : Option Int) (idsOf : Nat → List τ) :
    Inv2 (init loadI (Load.init numnodes msc) numnodes maxfail maxRestart idsOf) := by
  have hov : over (init loadI (Load.init (τ := τ) numnodes msc) numnodes maxfail maxRestart idsOf).ctl = false := by
    unfold over
    simp only [init, Ctl.init]
    cases maxRestart <;> simp
  refine inv2_of ⟨?_, ?_, ?_, ?_⟩ ?_
  · intro _; simp [init, Ctl.init, Load.init]
  · intro h; simp [init, Ctl.init] at h
  · intro h; rw [hov] at h; cases h
  · intro _; exact ⟨rfl, rfl, by intro p hp; simp [init, Ctl.init, Load.init] at hp⟩
  · intro j w hj
    simp only [init, List.getElem?_map] at hj
    cases hr : (List.range numnodes)[j]? with
    | none => rw [hr] at hj; cases hj
    | some x =>
      rw [hr] at hj
      simp only [Option.map_some, Option.some.injEq] at hj
      subst hj
      exact {
        reg := Or.inl rfl
        shutProv := (by intro hs; simp [shutSeen] at hs)
        runNext := (by intro hh; cases hh)
        finCause := (by intro hh; rcases hh with hh | hh <;> cases hh)
        finOut := (by intro m hm; simp at hm)
        finPosted := (by intro e he; simp at he) }

/-- both layers of the invariant hold in every reachable state -/
theorem reach_inv12 (idsOf : Nat → List τ) {st0 st : LState τ} (h1 : Inv st0) (h2 : Inv2 st0) (h : Reach idsOf st0 st) :
    Inv st ∧ Inv2 st := by
  induction h with
  | init => exact ⟨h1, h2⟩
  | step a _ hs ih => exact ⟨step_inv idsOf a ih.1 hs, step_inv2 idsOf a ih.1 ih.2 hs⟩

theorem length_le_of_nodup_subset {α : Type} [DecidableEq α] : ∀ {l m : List α}, l.Nodup → (∀ a ∈ l, a ∈ m) → l.length ≤ m.length
  | [], _, _, _ => Nat.zero_le _
  | a :: l, m, hnd, hsub => by
    have ha : a ∈ m := hsub a (by simp)
    have hnd' := List.nodup_cons.1 hnd
    have hsub' : ∀ b ∈ l, b ∈ m.erase a := by
      intro b hb
      have hne : b ≠ a := fun h => hnd'.1 (h ▸ hb)
      exact (List.mem_erase_of_ne hne).2 (hsub b (List.mem_cons_of_mem _ hb))
    have := length_le_of_nodup_subset hnd'.2 hsub'
    rw [List.length_erase_of_mem ha] at this
    have hpos : 0 < m.length := List.length_pos_of_mem ha
    simp only [List.length_cons]
    omega

/-- **No stand-off, in any phase of the run**: under both layers of the invariant, while the session is not finished some
    step other than a crash is enabled. -/
theorem no_standoff2 (idsOf : Nat → List τ) {st : LState τ} (hinv : Inv st) (hinv2 : Inv2 st)
    (hnf : Ctl.sessionFinished st.ctl = false) : Enabled idsOf st := by
  apply Classical.byContradiction
  intro hne
  -- otherwise the collection is incomplete …
  have hc : Load.collectionIsCompleted st.ctl.sched = false := by
    cases hh : Load.collectionIsCompleted st.ctl.sched with
    | false => rfl
    | true => exact absurd (no_standoff idsOf hinv hnf hh) hne
  have hact : ∃ n, n ∈ st.ctl.active := by
    cases hh : st.ctl.active with
    | nil =>
      exfalso
      apply hne
      refine enabled_of (.ctl 0 false) (by intro a b h; cases h) ?_
      simp [step, ctlStep, hnf, hh]
    | cons a t => exact ⟨a, by simp⟩
  -- … although every active worker has reported its collection and is registered with it
  have hreg : ∀ m ∈ st.ctl.active, m ∈ AList.keys st.ctl.sched.node2collection ∧ late st.ctl = false := by
    intro m hm
    obtain ⟨w, hw, sm⟩ := stuck_of_not_enabled idsOf hinv hnf hne hm
    have wi := hinv.wk hw
    have wi2 := hinv2.wk hw
    have hnf' := sm.notFlagged hinv hw
    have hf : flight m w = [] := by simp [flight, sm.noPosted, sm.noOutbox]
    have hkeys : m ∈ AList.keys st.ctl.sched.node2pending :=
      wi.ready hm hnf' (by rw [sm.loop]; intro h; cases h) (by rw [hf]; rfl)
    have hcp : collPending m w = false := by
      unfold collPending; rw [hf, sm.loop]; rfl
    -- the run is early: no stop reason and the budget is not exceeded, since `m` has not been told to shut down
    have hsd : st.ctl.shuttingdown = false := by
      cases hh : st.ctl.shuttingdown with
      | false => rfl
      | true => rw [hinv.1.shutInv hh m hkeys] at hnf'; cases hnf'
    have hlate : late st.ctl = false := by
      unfold late
      have h1 : st.ctl.shouldstop.isSome = false := by
        cases hh : st.ctl.shouldstop.isSome with
        | false => rfl
        | true => rw [hinv.1.stopShut hh] at hsd; cases hsd
      have h2 : over st.ctl = false := by
        cases hh : over st.ctl with
        | false => rfl
        | true => rw [hinv2.1.overShut hh] at hsd; cases hsd
      rw [h1, h2, hc]; rfl
    rcases wi2.reg with h | h
    · rw [hcp] at h; cases h
    · rcases h hkeys with h | h | h
      · exact ⟨h, hlate⟩
      · rw [hlate] at h; cases h
      · rw [hnf'] at h; cases h
  obtain ⟨n, hn⟩ := hact
  have hlate := (hreg n hn).2
  have hcount := hinv2.1.count hlate
  have hle : st.ctl.active.length ≤ (AList.keys st.ctl.sched.node2collection).length :=
    length_le_of_nodup_subset hinv.1.activeNodup (fun a ha => (hreg a ha).1)
  rw [Load.keys_length] at hle
  have : Load.collectionIsCompleted st.ctl.sched = true := by
    unfold Load.collectionIsCompleted
    simp only [ge_iff_le, decide_eq_true_eq]
    omega
  rw [this] at hc; cases hc

/-- **`--dist load`: the run never comes to a stand-off.**  In every state the whole system can reach — whatever the numbers
    of workers and tests, `--maxschedchunk`, `--maxfail`, the restart budget, what the tests do, which workers crash when
    (also during start-up and collection), which collections they report, and in whatever order threads run and messages
    are delivered —, as long as the session is not finished some thread can take a step: the controller has an event to
    handle (or ends the run with an error), a receiver thread has a message to process, a command can be delivered, or a
    worker's main thread can go on. -/
theorem C02_sys_load_no_standoff_any_phase (numnodes maxfail : Nat) (msc maxRestart : Option Int) (idsOf : Nat → List τ)
    {st : LState τ} (h : Reach idsOf (init loadI (Load.init numnodes msc) numnodes maxfail maxRestart idsOf) st)
    (hnf : Ctl.sessionFinished st.ctl = false) : Enabled idsOf st := by
  obtain ⟨i1, i2⟩ := reach_inv12 idsOf (init_inv numnodes maxfail msc maxRestart idsOf)
    (init_inv2 numnodes maxfail msc maxRestart idsOf) h
  exact no_standoff2 idsOf i1 i2 hnf

end Xdist.Sys
