import XdistProofs.Sys.Prog3
import XdistProofs.Sched.LoadPot
import XdistProofs.Ctl.Restart
/-!
  C02, whole system, `--dist load`: **termination**.  A measure in `ℕ⁵`, ordered lexicographically, that every step of every
  thread decreases:

  1. the restart budget that is left;
  2. the number of live workers that have not finished;
  3. the number of workers the controller still counts as active although they are dead or have finished;
  4. the work that is still to be done upstream of the workers' main threads: six units per test in the scheduler's pool, six
     per worker not yet told to shut down, one per command in an inbox plus five per test it carries, five per queue entry,
     and the position of each main thread inside its life cycle;
  5. the messages on their way back: two per message a receiver thread has not seen, one per event the controller has not
     handled.

  This file: the definitions, and the steps of the workers' threads, of the receiver threads and crashes.
-/
namespace Xdist.Sys
open Xdist Xdist.Ctl Xdist.Load Xdist.Contract

set_option linter.unusedSectionVars false

variable {τ : Type} [DecidableEq τ]

/-! ### the order -/

abbrev M5 := Nat × Nat × Nat × Nat × Nat

def Dec : M5 → M5 → Prop :=
  Prod.Lex (· < ·) (Prod.Lex (· < ·) (Prod.Lex (· < ·) (Prod.Lex (· < ·) (· < ·))))

theorem dec_wf : WellFounded Dec :=
  (Prod.lex (α := Nat) (β := Nat × Nat × Nat × Nat) inferInstance
    (Prod.lex (α := Nat) (β := Nat × Nat × Nat) inferInstance
      (Prod.lex (α := Nat) (β := Nat × Nat) inferInstance
        (Prod.lex (α := Nat) (β := Nat) inferInstance inferInstance)))).wf

theorem dec1 {a1 b1 : Nat} (x y : Nat × Nat × Nat × Nat) (h : a1 < b1) : Dec (a1, x) (b1, y) := Prod.Lex.left _ _ h

theorem dec2 {a a2 b2 : Nat} (x y : Nat × Nat × Nat) (h : a2 < b2) : Dec (a, a2, x) (a, b2, y) :=
  Prod.Lex.right _ (Prod.Lex.left _ _ h)

theorem dec3 {a b a3 b3 : Nat} (x y : Nat × Nat) (h : a3 < b3) : Dec (a, b, a3, x) (a, b, b3, y) :=
  Prod.Lex.right _ (Prod.Lex.right _ (Prod.Lex.left _ _ h))

theorem dec4 {a b c a4 b4 : Nat} (x y : Nat) (h : a4 < b4) : Dec (a, b, c, a4, x) (a, b, c, b4, y) :=
  Prod.Lex.right _ (Prod.Lex.right _ (Prod.Lex.right _ (Prod.Lex.left _ _ h)))

theorem dec5 {a b c d a5 b5 : Nat} (h : a5 < b5) : Dec (a, b, c, d, a5) (a, b, c, d, b5) :=
  Prod.Lex.right _ (Prod.Lex.right _ (Prod.Lex.right _ (Prod.Lex.right _ h)))

theorem dec45 {a b c a4 b4 a5 b5 : Nat} (h4 : a4 ≤ b4) (h5 : a5 < b5) : Dec (a, b, c, a4, a5) (a, b, c, b4, b5) := by
  rcases Nat.lt_or_ge a4 b4 with h | h
  · exact dec4 _ _ h
  · have : a4 = b4 := Nat.le_antisymm h4 h
    subst this
    exact dec5 h5

/-- no infinite descending sequence -/
theorem no_infinite_descent {α : Type} {r : α → α → Prop} (hwf : WellFounded r) (f : Nat → α) (h : ∀ i, r (f (i + 1)) (f i)) : False := by
  have key : ∀ x, Acc r x → ∀ f : Nat → α, f 0 = x → (∀ i, r (f (i + 1)) (f i)) → False := by
    intro x hx
    induction hx with
    | intro x _ ih =>
      intro f h0 hf
      exact ih (f 1) (by rw [← h0]; exact hf 0) (fun i => f (i + 1)) rfl (fun i => hf (i + 1))
  exact key (f 0) (hwf.apply _) f rfl h

/-! ### the components -/

def cmdW : Cmd → Nat
  | .run is => 1 + 5 * is.length
  | .shutdown => 6
  | _ => 1

def inboxW (l : List Cmd) : Nat := (l.map cmdW).sum

/-- how far the main thread is from the end of the current protocol call -/
def pcRank (w : Worker.State) (sub : Nat) : Nat :=
  match w.pc with
  | .init => 0
  | .haveItem => 1
  | .running => 4 - sub
  | .done => 0

def phaseRank (w : Wk τ) : Nat :=
  match w.phase with
  | .boot => 7
  | .collect => 6
  | .loop => 1 + pcRank w.w w.sub
  | .finish => 0
  | .done => 0

/-- work upstream of one worker's main thread -/
def wkT (w : Wk τ) : Nat := inboxW w.inbox + 5 * w.w.torun.length + phaseRank w

/-- messages on their way back from one worker -/
def wkM (w : Wk τ) : Nat := 2 * w.outbox.length + w.posted.length

def aliveW (w : Wk τ) : Nat := if w.alive = true ∧ w.phase ≠ .done then 1 else 0

def sumW (f : Wk τ → Nat) (l : List (Wk τ)) : Nat := (l.map f).sum

/-- dead or finished -/
def goneP (wk : List (Wk τ)) (k : Nat) : Bool :=
  match wk[k]? with
  | some w => !w.alive || decide (w.phase = .done)
  | none => false

/-- the measure; `L` is the number of tests every worker collects -/
def mu (L : Nat) (st : LState τ) : M5 :=
  (budget st.ctl,
   sumW aliveW st.wk,
   (st.ctl.active.filter (goneP st.wk)).length,
   6 * Load.pot L st.ctl.sched + unsent st.wk.length st.ctl.env.flags + sumW wkT st.wk,
   sumW wkM st.wk)

/-! ### sums over the list of workers -/

theorem sumW_set (f : Wk τ → Nat) : ∀ (l : List (Wk τ)) (k : Nat) (w v : Wk τ), l[k]? = some w →
    sumW f (l.set k v) + f w = sumW f l + f v := by
  intro l
  induction l with
  | nil => intro k w v h; simp at h
  | cons a t ih =>
    intro k w v h
    cases k with
    | zero =>
      simp only [List.getElem?_cons_zero, Option.some.injEq] at h
      subst h
      simp only [sumW, List.set_cons_zero, List.map_cons, List.sum_cons]
      omega
    | succ k =>
      simp only [List.getElem?_cons_succ] at h
      have := ih k w v h
      simp only [sumW, List.set_cons_succ, List.map_cons, List.sum_cons] at this ⊢
      omega

def life (w : Wk τ) : Bool × Bool := (w.alive, decide (w.phase = .done))

theorem goneP_congr {wk wk' : List (Wk τ)} (h : ∀ j : Nat, (wk'[j]?).map life = (wk[j]?).map life) :
    goneP wk' = goneP wk := by
  funext k
  unfold goneP
  have := h k
  cases h1 : wk'[k]? with
  | none =>
    cases h2 : wk[k]? with
    | none => rfl
    | some w => rw [h1, h2] at this; cases this
  | some w' =>
    cases h2 : wk[k]? with
    | none => rw [h1, h2] at this; cases this
    | some w =>
      rw [h1, h2] at this
      simp only [Option.map_some, Option.some.injEq, life, Prod.mk.injEq] at this
      simp only [this.1, this.2]

theorem life_set {wk : List (Wk τ)} {k : Nat} {w w' : Wk τ} (hw : wk[k]? = some w) (ha : w'.alive = w.alive)
    (hp : decide (w'.phase = .done) = decide (w.phase = .done)) (j : Nat) :
    ((wk.set k w')[j]?).map life = (wk[j]?).map life := by
  by_cases hjk : k = j
  · subst hjk
    have hlt : k < wk.length := by
      rcases Nat.lt_or_ge k wk.length with h | h
      · exact h
      · rw [List.getElem?_eq_none h] at hw; cases hw
    rw [List.getElem?_set_self hlt, hw]
    simp [life, ha, hp]
  · rw [List.getElem?_set_ne hjk]

/-! ### the main thread -/

theorem pcRank_le (w : Worker.State) (sub : Nat) : pcRank w sub ≤ 4 := by
  unfold pcRank; split <;> omega

/-- a step of a worker's main thread: it finishes, or it comes closer to finishing -/
theorem mainStep_measure {k : Nat} {w w' : Wk τ} {p : MainP} (h : mainStep k w p = some w') :
    w.alive = true ∧ w'.alive = true ∧ w.phase ≠ .done ∧
      ((w'.phase = .done) ∨ (w'.phase ≠ .done ∧ wkT w' < wkT w)) := by
  unfold mainStep at h
  split at h
  · cases h
  rename_i hal
  have hal' : w.alive = true := by simpa using hal
  cases hph : w.phase with
  | boot =>
    simp only [hph, Option.some.injEq] at h; subst h
    refine ⟨hal', hal', by simp, Or.inr ⟨by simp, ?_⟩⟩
    simp [wkT, phaseRank, hph]
  | collect =>
    simp only [hph] at h
    cases p with
    | collect errs garbage intr sf0 =>
      simp only at h
      split at h
      · simp only [Option.some.injEq] at h; subst h
        refine ⟨hal', hal', by simp, Or.inr ⟨by simp, ?_⟩⟩
        simp [wkT, phaseRank, hph]
      · simp only [Option.some.injEq] at h; subst h
        refine ⟨hal', hal', by simp, Or.inr ⟨by simp, ?_⟩⟩
        have := pcRank_le w.w w.sub
        simp only [wkT, phaseRank, hph]
        omega
    | none => cases h
    | reports a b c d => cases h
    | complete s => cases h
  | loop =>
    simp only [hph] at h
    cases hpc : w.w.pc with
    | init =>
      simp only [hpc] at h
      obtain ⟨w1, h1, h2⟩ := Option.map_eq_some_iff.1 h
      subst h2
      unfold Worker.get0 at h1
      simp only [hpc, ne_eq, not_true_eq_false, if_false] at h1
      split at h1
      · cases h1
      · rename_i q r hq
        simp only [Option.some.injEq] at h1; subst h1
        refine ⟨hal', hal', by simp, Or.inr ⟨?_, ?_⟩⟩
        · simp only; split <;> simp
        · cases q with
          | test i => simp [wkT, phaseRank, hph, pcRank, hpc, hq]; omega
          | shutdown => simp [wkT, phaseRank, hph, pcRank, hpc, hq]; omega
    | haveItem =>
      simp only [hpc] at h
      obtain ⟨w1, h1, h2⟩ := Option.map_eq_some_iff.1 h
      subst h2
      unfold Worker.get1 at h1
      simp only [hpc, ne_eq, not_true_eq_false, if_false] at h1
      split at h1
      · rename_i i q r hn hq
        simp only [Option.some.injEq] at h1; subst h1
        refine ⟨hal', hal', by simp, Or.inr ⟨by simp, ?_⟩⟩
        simp [wkT, phaseRank, hph, pcRank, hpc, hq]; omega
      · cases h1
    | running =>
      simp only [hpc] at h
      split at h
      · simp only [Option.some.injEq] at h; subst h
        rename_i hs
        refine ⟨hal', hal', by simp, Or.inr ⟨by simp, ?_⟩⟩
        simp [wkT, phaseRank, hph, pcRank, hpc, hs]
      · simp only [Option.some.injEq] at h; subst h
        rename_i hs
        refine ⟨hal', hal', by simp, Or.inr ⟨by simp, ?_⟩⟩
        simp [wkT, phaseRank, hph, pcRank, hpc, hs]
      · rename_i hs
        split at h
        · simp only [Option.some.injEq] at h; subst h
          refine ⟨hal', hal', by simp, Or.inr ⟨by simp, ?_⟩⟩
          simp [wkT, phaseRank, hph, pcRank, hpc, hs]
        · split at h
          · rename_i i w1 hc hf
            simp only [Option.some.injEq] at h; subst h
            unfold Worker.finish at hf
            simp only [hpc, ne_eq, not_true_eq_false, if_false, hc, Option.some.injEq] at hf
            subst hf
            have hpc' : ∀ (b : Bool) (nx : Option Worker.QItem),
                (if b = true then Worker.PC.done else
                  match nx with
                  | some (Worker.QItem.test _) => Worker.PC.haveItem
                  | _ => Worker.PC.done) = Worker.PC.done ∨
                (if b = true then Worker.PC.done else
                  match nx with
                  | some (Worker.QItem.test _) => Worker.PC.haveItem
                  | _ => Worker.PC.done) = Worker.PC.haveItem := by
              intro b nx
              cases b
              · cases nx with
                | none => exact Or.inl rfl
                | some q => cases q <;> simp
              · exact Or.inl rfl
            simp only
            generalize hg : (if (w.sf.isSome || w.ss.isSome) = true then Worker.PC.done else
                  match w.w.next with
                  | some (Worker.QItem.test _) => Worker.PC.haveItem
                  | _ => Worker.PC.done) = pc'
            have hcase := hpc' (w.sf.isSome || w.ss.isSome) w.w.next
            rw [hg] at hcase
            refine ⟨hal', hal', by simp, Or.inr ⟨?_, ?_⟩⟩
            · rcases hcase with h' | h' <;> simp [h']
            · rcases hcase with h' | h'
              · simp [wkT, phaseRank, hph, pcRank, hpc, hs, h']
              · simp [wkT, phaseRank, hph, pcRank, hpc, hs, h']
          · cases h
      · cases h
    | done => simp only [hpc] at h; cases h
  | finish =>
    simp only [hph, Option.some.injEq] at h; subst h
    exact ⟨hal', hal', by simp, Or.inl rfl⟩
  | done => simp only [hph] at h; cases h

/-! ### command delivery -/

theorem deliverStep_measure {k : Nat} {w w' : Wk τ} (h : deliverStep k w = some w') (hk : ∀ c ∈ w.inbox, loadCmd c = true) :
    w'.alive = w.alive ∧ w'.phase = w.phase ∧ wkT w' < wkT w ∧ wkM w' = wkM w := by
  unfold deliverStep at h
  split at h
  · cases h
  split at h
  · cases h
  · rename_i c rest hin
    have hc := hk c (by rw [hin]; simp)
    cases c with
    | run is =>
      simp only [Option.some.injEq] at h; subst h
      refine ⟨rfl, rfl, ?_, rfl⟩
      simp only [wkT, hin, inboxW, List.map_cons, List.sum_cons, cmdW, putMany_torun, List.length_append, List.length_map]
      have : phaseRank ({ w with inbox := rest, w := Worker.putMany w.w is } : Wk τ) = phaseRank w := by
        unfold phaseRank pcRank
        simp only [(putMany_next w.w is).2]
      rw [this]
      omega
    | shutdown =>
      simp only [Option.some.injEq] at h; subst h
      refine ⟨rfl, rfl, ?_, rfl⟩
      simp only [wkT, hin, inboxW, List.map_cons, List.sum_cons, cmdW, Worker.putShutdown, List.length_append, List.length_singleton]
      have : phaseRank ({ w with inbox := rest, w := { w.w with torun := w.w.torun ++ [Worker.QItem.shutdown] } } : Wk τ) = phaseRank w := rfl
      rw [this]
      omega
    | runAll => simp [loadCmd] at hc
    | steal is => simp [loadCmd] at hc

end Xdist.Sys
