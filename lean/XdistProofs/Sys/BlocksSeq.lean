import XdistProofs.Sys.Blocks
import XdistProofs.Sys.EachOnce
/-!
  The order-and-multiplicity form of `Sys/Blocks`: what a worker has put on its queue, followed by the `runtests` still waiting in its
  inbox, is a **subsequence of the commands addressed to it in the log, in log order, each at most as often as it was written** —
  for every scheduler, in every execution.  (A subsequence, not all of them: what is written to a dead worker's pipe is lost, and a
  crash empties the inbox.)  Consequences: a worker receives its commands in the order the controller sent them (C05), and under
  `--dist each`, where at most one such command is ever written per worker, it receives at most one block (C08).
-/
namespace Xdist.Sys
open Xdist Xdist.Ctl Xdist.Contract

set_option linter.unusedSectionVars false

variable {σ τ : Type} [DecidableEq τ]

/-- the payloads of the commands of the log that hand tests to worker `k`, in log order -/
def payloads (k : Nat) (n : Nat) (outs : List SOut) : List (List Nat) :=
  outs.filterMap fun o => match o with
    | .run m is => if m = k then some is else none
    | .runAll m => if m = k then some (List.range n) else none
    | _ => none

/-- the payloads of the commands in an inbox -/
def inboxPay (n : Nat) (inbox : List Cmd) : List (List Nat) :=
  inbox.filterMap fun c => match c with
    | .run is => some is
    | .runAll => some (List.range n)
    | _ => none

theorem payloads_append (k n : Nat) (a b : List SOut) : payloads k n (a ++ b) = payloads k n a ++ payloads k n b := by
  simp [payloads, List.filterMap_append]

theorem inboxPay_append (n : Nat) (a b : List Cmd) : inboxPay n (a ++ b) = inboxPay n a ++ inboxPay n b := by
  simp [inboxPay, List.filterMap_append]

/-- what `route` puts into the inbox of worker `k` are exactly the payloads addressed to it -/
theorem inboxPay_deliverTo (k n : Nat) (new : List SOut) : inboxPay n (deliverTo k new) = payloads k n new := by
  induction new with
  | nil => rfl
  | cons o rest ih =>
    rw [deliverTo_cons, inboxPay_append, ih]
    have : payloads k n (o :: rest) = payloads k n [o] ++ payloads k n rest := by
      rw [← payloads_append]; rfl
    rw [this]
    congr 1
    cases o with
    | run m is => by_cases hm : m = k <;> simp [cmdOf, payloads, inboxPay, hm]
    | runAll m => by_cases hm : m = k <;> simp [cmdOf, payloads, inboxPay, hm]
    | steal m is => by_cases hm : m = k <;> simp [cmdOf, payloads, inboxPay, hm]
    | shutdown m => by_cases hm : m = k <;> simp [cmdOf, payloads, inboxPay, hm]
    | collectReport a b => simp [cmdOf, payloads, inboxPay]

/-- received ++ waiting is a subsequence of what was addressed to the worker -/
def Seq (outs : List SOut) (k : Nat) (w : Wk τ) : Prop :=
  ∃ L : List (List Nat), w.w.received = L.flatten ∧ (L ++ inboxPay w.ids.length w.inbox).Sublist (payloads k w.ids.length outs)

def SeqAll (st : State σ τ) : Prop := ∀ k w, st.wk[k]? = some w → Seq st.ctl.env.outs k w

theorem seq_mono {outs : List SOut} {k : Nat} {w : Wk τ} (h : Seq outs k w) (new : List SOut) : Seq (outs ++ new) k w := by
  obtain ⟨L, hL, hs⟩ := h
  exact ⟨L, hL, by rw [payloads_append]; exact hs.trans (List.sublist_append_left _ _)⟩

theorem seq_congr {outs : List SOut} {k : Nat} {w w' : Wk τ} (h : Seq outs k w) (h1 : w'.w.received = w.w.received)
    (h2 : w'.inbox = w.inbox) (h3 : w'.ids = w.ids) : Seq outs k w' := by
  obtain ⟨L, hL, hs⟩ := h
  exact ⟨L, by rw [h1]; exact hL, by rw [h2, h3]; exact hs⟩

theorem deliverStep_seq {outs : List SOut} {k : Nat} {w w' : Wk τ} (h : deliverStep k w = some w') (hb : Seq outs k w) : Seq outs k w' := by
  unfold deliverStep at h
  split at h
  · cases h
  split at h
  · cases h
  rename_i c rest hin
  obtain ⟨L, hL, hs⟩ := hb
  rw [hin] at hs
  cases c with
  | run is =>
    simp only [Option.some.injEq] at h; subst h
    refine ⟨L ++ [is], ?_, ?_⟩
    · show (Worker.putMany w.w is).received = _
      rw [putMany_received, hL]; simp
    · have : L ++ inboxPay w.ids.length (Cmd.run is :: rest) = (L ++ [is]) ++ inboxPay w.ids.length rest := by
        simp [inboxPay]
      rw [this] at hs; exact hs
  | runAll =>
    simp only [Option.some.injEq] at h; subst h
    refine ⟨L ++ [List.range w.ids.length], ?_, ?_⟩
    · show (Worker.putMany w.w (List.range w.ids.length)).received = _
      rw [putMany_received, hL]; simp
    · have : L ++ inboxPay w.ids.length (Cmd.runAll :: rest) = (L ++ [List.range w.ids.length]) ++ inboxPay w.ids.length rest := by
        simp [inboxPay]
      rw [this] at hs; exact hs
  | shutdown =>
    simp only [Option.some.injEq] at h; subst h
    refine ⟨L, hL, ?_⟩
    have : inboxPay w.ids.length (Cmd.shutdown :: rest) = inboxPay w.ids.length rest := by simp [inboxPay]
    rw [this] at hs; exact hs
  | steal is =>
    simp only [Option.some.injEq] at h; subst h
    refine ⟨L, by show (Worker.steal w.w is).received = _; rw [steal_received]; exact hL, ?_⟩
    have : inboxPay w.ids.length (Cmd.steal is :: rest) = inboxPay w.ids.length rest := by simp [inboxPay]
    rw [this] at hs; exact hs

/-- the commands of one controller iteration (or a receiver thread's shutdown signal) are appended to the log and routed -/
theorem routed_seq {outs : List SOut} {k : Nat} {w : Wk τ} (new : List SOut) (hb : Seq outs k w) : Seq (outs ++ new) k (routed k new w) := by
  unfold routed
  split
  · obtain ⟨L, hL, hs⟩ := hb
    refine ⟨L, hL, ?_⟩
    show (L ++ inboxPay w.ids.length (w.inbox ++ deliverTo k new)).Sublist _
    rw [inboxPay_append, inboxPay_deliverTo, payloads_append, ← List.append_assoc]
    exact List.Sublist.append hs (List.Sublist.refl _)
  · exact seq_mono hb new

theorem seq_fresh (outs : List SOut) (k : Nat) (ids : List τ) : Seq outs k ({ ids := ids } : Wk τ) :=
  ⟨[], rfl, by simp [inboxPay]⟩

theorem step_seq (I : SchedI σ τ) (hA : Appends I) (idsOf : Nat → List τ) {st st' : State σ τ} (a : Step)
    (hb : SeqAll st) (h : step I idsOf st a = .ok st') : SeqAll st' := by
  cases a with
  | main j p =>
    simp only [Sys.step] at h
    split at h
    · cases h
    rename_i w hw
    split at h
    · cases h
    rename_i w' hm
    simp only [Except.ok.injEq] at h; subst h
    obtain ⟨m1, m2, m3⟩ := mainStep_keeps hm
    intro k wk hk
    simp only [setWk] at hk
    by_cases hkj : j = k
    · subst hkj
      rw [List.getElem?_set_self (lt_len_of_get hw)] at hk
      cases hk
      exact seq_congr (hb j w hw) m1 m2 m3
    · rw [List.getElem?_set_ne hkj] at hk
      exact hb k wk hk
  | deliver j =>
    simp only [Sys.step] at h
    split at h
    · cases h
    rename_i w hw
    split at h
    · cases h
    rename_i w' hm
    simp only [Except.ok.injEq] at h; subst h
    intro k wk hk
    simp only [setWk] at hk
    by_cases hkj : j = k
    · subst hkj
      rw [List.getElem?_set_self (lt_len_of_get hw)] at hk
      cases hk
      exact deliverStep_seq hm (hb j w hw)
    · rw [List.getElem?_set_ne hkj] at hk
      exact hb k wk hk
  | recv j =>
    simp only [Sys.step] at h
    split at h
    · cases h
    rename_i s1 hr
    simp only [Except.ok.injEq] at h; subst h
    unfold recvStep at hr
    split at hr
    · cases hr
    rename_i w hw
    split at hr
    · cases hr
    rename_i m rest ho
    simp only [Option.some.injEq] at hr
    subst hr
    have hjl := lt_len_of_get hw
    intro k wk hk
    simp only at hk ⊢
    have key : ∀ w1, (st.wk.set j { w with outbox := rest, posted := w.posted ++ (Receiver.step { down := (st.ctl.env.flags.get j).down, shutdownSent := (st.ctl.env.flags.get j).sent } (toRecv j m)).2.1.map (ofPost j) })[k]? = some w1 →
        Seq st.ctl.env.outs k w1 := by
      intro w1 h1
      by_cases hkj : j = k
      · subst hkj
        rw [List.getElem?_set_self hjl] at h1
        cases h1
        exact seq_congr (hb j w hw) rfl rfl rfl
      · rw [List.getElem?_set_ne hkj] at h1
        exact hb k w1 h1
    split at hk
    · rename_i hcond
      rw [route_get] at hk
      simp only [Option.map_eq_some_iff] at hk
      obtain ⟨w1, h1, rfl⟩ := hk
      simp only [hcond, if_true]
      exact routed_seq _ (key w1 h1)
    · rename_i hcond
      simp only [hcond]
      exact key wk hk
  | crash j b =>
    simp only [Sys.step] at h
    split at h
    · cases h
    rename_i s1 hc
    simp only [Except.ok.injEq] at h; subst h
    unfold crashStep at hc
    split at hc
    · cases hc
    rename_i w hw
    split at hc
    · cases hc
    have key : ∀ k wk, (st.wk.set j { w with alive := false, inbox := [], outbox := w.outbox ++ [.endMarker] })[k]? = some wk →
        Seq st.ctl.env.outs k wk := by
      intro k wk hk
      by_cases hkj : j = k
      · subst hkj
        rw [List.getElem?_set_self (lt_len_of_get hw)] at hk
        cases hk
        obtain ⟨L, hL, hs⟩ := hb j w hw
        refine ⟨L, hL, ?_⟩
        show (L ++ inboxPay w.ids.length []).Sublist _
        have : (L ++ inboxPay w.ids.length ([] : List Cmd)).Sublist (L ++ inboxPay w.ids.length w.inbox) := by
          simp [inboxPay]
        exact this.trans hs
      · rw [List.getElem?_set_ne hkj] at hk
        exact hb k wk hk
    split at hc
    · simp only [Option.some.injEq] at hc; subst hc
      intro k wk hk
      exact key k wk hk
    · simp only [Option.some.injEq] at hc; subst hc
      intro k wk hk
      exact key k wk hk
  | ctl j rq =>
    simp only [Sys.step] at h
    obtain ⟨w, ev0, rest, c', hw, hp, hl, rfl⟩ := ctlStep_shape' h
    obtain ⟨as, hsteps, _⟩ := loopOnce_steps hl
    obtain ⟨new, hnew⟩ := steps_appends hA hsteps
    have hdrop : c'.env.outs.drop st.ctl.env.outs.length = new := by rw [hnew]; simp
    intro k wk hk
    simp only at hk ⊢
    rw [hdrop, route_get] at hk
    simp only [Option.map_eq_some_iff] at hk
    obtain ⟨w0, h0, rfl⟩ := hk
    rw [hnew]
    refine routed_seq new ?_
    rcases spawn_get h0 with h0 | h0
    · by_cases hkj : j = k
      · subst hkj
        rw [List.getElem?_set_self (lt_len_of_get hw)] at h0
        cases h0
        exact seq_congr (hb j w hw) rfl rfl rfl
      · rw [List.getElem?_set_ne hkj] at h0
        exact hb k w0 h0
    · subst h0
      exact seq_fresh _ _ _

theorem run_seq (I : SchedI σ τ) (hA : Appends I) (idsOf : Nat → List τ) : ∀ (steps : List Step) {st st' : State σ τ},
    SeqAll st → run I idsOf st steps = .ok st' → SeqAll st' := by
  intro steps
  induction steps with
  | nil => intro st st' hs h; simp only [run, Except.ok.injEq] at h; subst h; exact hs
  | cons a rest ih =>
    intro st st' hs h
    simp only [run] at h
    split at h
    · cases h
    · rename_i st1 hs1
      exact ih (step_seq I hA idsOf a hs hs1) h

/-- **A worker receives its commands in the order they were sent, each at most as often as it was written** (C05; any scheduler
    whose calls only append to the log — all six modes).  After any execution, for every worker: the indices it has put on its queue
    are `L.flatten` where `L`, followed by the payloads still waiting in its inbox, is a subsequence — in log order — of the payloads
    of the `runtests`/`runtests_all` commands addressed to it in the log. -/
theorem C05_sys_received_in_send_order (I : SchedI σ τ) (hA : Appends I) (s0 : σ) (numnodes maxfail : Nat) (mr : Option Int)
    (idsOf : Nat → List τ) (steps : List Step) {st : State σ τ} (h : run I idsOf (init I s0 numnodes maxfail mr idsOf) steps = .ok st)
    (k : Nat) (w : Wk τ) (hw : st.wk[k]? = some w) :
    ∃ L : List (List Nat), w.w.received = L.flatten ∧
      (L ++ inboxPay w.ids.length w.inbox).Sublist (payloads k w.ids.length st.ctl.env.outs) := by
  have h0 : SeqAll (init I s0 numnodes maxfail mr idsOf) := by
    intro k w hk
    simp only [init, List.getElem?_map, Option.map_eq_some_iff] at hk
    obtain ⟨i, _, rfl⟩ := hk
    exact seq_fresh _ _ _
  exact run_seq I hA idsOf steps h0 h k w hw

theorem length_filterMap_le_filter {α β : Type} (f : α → Option β) (p : α → Bool) (hp : ∀ x, (f x).isSome = true → p x = true) (l : List α) :
    (l.filterMap f).length ≤ (l.filter p).length := by
  induction l with
  | nil => simp
  | cons a r ih =>
    cases hf : f a with
    | none =>
      rw [List.filterMap_cons_none hf]
      by_cases hpa : p a = true
      · rw [List.filter_cons_of_pos hpa]; simp only [List.length_cons]; omega
      · rw [List.filter_cons_of_neg hpa]; exact ih
    | some b =>
      have hpa : p a = true := hp a (by rw [hf]; rfl)
      rw [List.filterMap_cons_some hf, List.filter_cons_of_pos hpa]
      simp only [List.length_cons]; omega

/-- the commands handing tests to worker `k` are among the dispatching commands addressed to it -/
theorem payloads_length_le (k n : Nat) (e : Env) : (payloads k n e.outs).length ≤ (dispTo k e).length := by
  unfold dispTo dispatches payloads
  rw [List.filter_filter]
  apply length_filterMap_le_filter
  intro o ho
  cases o with
  | run m is =>
    by_cases hm : m = k
    · simp [isDispatch, cmdNode, hm]
    · simp [hm] at ho
  | runAll m =>
    by_cases hm : m = k
    · simp [isDispatch, cmdNode, hm]
    · simp [hm] at ho
  | steal m is => simp at ho
  | shutdown m => simp at ho
  | collectReport a b => simp at ho

/-- **Under `--dist each` a worker receives at most one block** (C08): after any execution, what a worker has put on its queue is
    empty or one single block — the payload of the one command that was written to it (the whole collection for `runtests_all`, the
    left-over it takes over for `runtests`). -/
theorem C08_sys_each_receives_one_block (specs : AList Nat Nat) (numnodes maxfail : Nat) (mr : Option Int)
    (idsOf : Nat → List String) (steps : List Step) {st : State Sched.Any String}
    (h : run (Sched.iface specs) idsOf (init (Sched.iface specs) (.each (Each.init numnodes)) numnodes maxfail mr idsOf) steps = .ok st)
    (k : Nat) (w : Wk String) (hw : st.wk[k]? = some w) :
    w.w.received = [] ∨ (∃ is, w.w.received = is ∧ is ∈ payloads k w.ids.length st.ctl.env.outs ∧ w.inbox.all (fun c => c matches .shutdown | .steal _)) := by
  obtain ⟨L, hL, hs⟩ := C05_sys_received_in_send_order (Sched.iface specs) (iface_appends specs) _ numnodes maxfail mr idsOf steps h k w hw
  have h1 := (C08_sys_each_sent_tests_at_most_once specs numnodes maxfail mr idsOf steps h k).1
  have hlen : (L ++ inboxPay w.ids.length w.inbox).length ≤ 1 :=
    Nat.le_trans hs.length_le (Nat.le_trans (payloads_length_le k _ st.ctl.env) h1)
  cases L with
  | nil => left; rw [hL]; rfl
  | cons is t =>
    right
    simp only [List.length_append, List.length_cons] at hlen
    have ht : t = [] := by cases t with | nil => rfl | cons _ _ => simp at hlen; omega
    subst ht
    have hin : inboxPay w.ids.length w.inbox = [] := by
      cases hi : inboxPay w.ids.length w.inbox with
      | nil => rfl
      | cons _ _ => rw [hi] at hlen; simp at hlen; omega
    refine ⟨is, by rw [hL]; simp, hs.subset (by simp), ?_⟩
    rw [List.all_eq_true]
    intro c hc
    have : ∀ l : List Cmd, inboxPay w.ids.length l = [] → ∀ c ∈ l, (c matches .shutdown | .steal _) = true := by
      intro l
      induction l with
      | nil => intro _ c hc; cases hc
      | cons a r ih =>
        intro hnil c hc
        cases a with
        | run js => simp [inboxPay] at hnil
        | runAll => simp [inboxPay] at hnil
        | shutdown =>
          have hr : inboxPay w.ids.length r = [] := by simpa [inboxPay] using hnil
          rcases List.mem_cons.1 hc with rfl | hc
          · rfl
          · exact ih hr c hc
        | steal js =>
          have hr : inboxPay w.ids.length r = [] := by simpa [inboxPay] using hnil
          rcases List.mem_cons.1 hc with rfl | hc
          · rfl
          · exact ih hr c hc
    exact this w.inbox hin c hc

/-- Non-vacuity: in the each-mode execution of `Sys/EachOnce`, one delivery later, worker 0 has received the whole collection as
    its one block. -/
theorem eachRun_received :
    (match run (Sched.iface []) eachIds eachInit (eachSteps ++ [.deliver 0]) with
      | .ok st => st.wk.map (fun w => (w.w.received, payloads 0 w.ids.length st.ctl.env.outs)) | .error _ => []) = [([0, 1], [[0, 1]])] := by
  decide +kernel

end Xdist.Sys
