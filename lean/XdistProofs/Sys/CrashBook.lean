import XdistProofs.Sys.Reach
import XdistProofs.Sys.LedgerDef
/-!
  C03 at the level of the whole system (`--dist load`): **what the controller's book of a worker says at the moment that worker
  dies.**  For a worker that has not been written off, the book is: the tests whose completion is still on its way to the
  controller, then the test it is executing, then what it holds after it (announced, queued, in commands not yet delivered) —
  so that, once the completions in flight have been handled (they precede the death notice on the worker's FIFO channel and
  on the controller's queue), the head of the book — the crash item of `remove_node`, `C03_load_crash_item` — is the test that
  was running, and the rest, in order, is what goes back to the pool.
-/
namespace Xdist.Sys
open Xdist Xdist.Ctl

variable {τ : Type} [DecidableEq τ]

theorem C03_sys_load_book_at_death (numnodes maxfail : Nat) (msc maxRestart : Option Int) (idsOf : Nat → List τ) {st : LState τ}
    (h : Reach idsOf (init loadI (Load.init numnodes msc) numnodes maxfail maxRestart idsOf) st)
    {k : Nat} {w : Wk τ} (hw : st.wk[k]? = some w) (ha : w.alive = true) (hd : (st.ctl.env.flags.get k).down = false)
    {book : List Nat} (hb : AList.lookup st.ctl.sched.node2pending k = some book) :
    book = completes (flight k w) ++ heldS w ++ inboxRuns w ∧
    (∀ i, w.w.pc = .running → w.w.cur = some i →
      book = completes (flight k w) ++ i :: (nextT w ++ Worker.tests w.w.torun ++ inboxRuns w)) := by
  have hinv := reach_inv idsOf (init_inv numnodes maxfail msc maxRestart idsOf) h
  have hs := (hinv.wk hw).sync ha hd
  unfold SyncD at hs
  rw [hb] at hs
  simp only at hs
  refine ⟨hs, ?_⟩
  intro i hpc hcur
  rw [hs]
  unfold heldS nextT
  simp only [hpc, hcur, ↓reduceIte, Option.toList_some, List.append_assoc, List.singleton_append, List.cons_append, List.nil_append]
  cases w.w.next with
  | none => rfl
  | some q => cases q <;> rfl

end Xdist.Sys
