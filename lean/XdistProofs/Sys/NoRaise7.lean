import XdistProofs.Sys.NoRaise6
/-! The worker side of the twelfth layer (every `collectionfinish` in flight carries `ids`), and `collectionfinish` never raises. -/
namespace Xdist.Sys
open Xdist Xdist.Ctl Xdist.Load Xdist.Contract

variable {τ : Type} [DecidableEq τ]

def isCf (c : List τ) : Ctl.Event τ → Prop
  | .collectionfinish _ cc => cc = c
  | _ => True

/-- the worker collects `ids`, and so says every `collectionfinish` of it that is on its way -/
def WkIds (ids : List τ) (k : Nat) (w : Wk τ) : Prop := w.ids = ids ∧ ∀ e ∈ flight k w, isCf ids e

theorem wkIds_emit {ids : List τ} {k : Nat} {w w' : Wk τ} (ms : List (WMsg τ)) (h : WkIds ids k w) (hi : w'.ids = w.ids)
    (hp : w'.posted = w.posted) (ho : w'.outbox = w.outbox ++ ms) (hms : ∀ e ∈ ms.filterMap (evOf k), isCf ids e) : WkIds ids k w' := by
  refine ⟨hi.trans h.1, ?_⟩
  intro e he
  rw [flight_emit k hp ho] at he
  rcases List.mem_append.1 he with he | he
  · exact h.2 e he
  · exact hms e he

theorem mainStep_wkIds {ids : List τ} {k : Nat} {w w' : Wk τ} {p : MainP} (h : WkIds ids k w) (hm : mainStep k w p = some w') :
    WkIds ids k w' := by
  unfold mainStep at hm
  split at hm
  · cases hm
  cases hph : w.phase with
  | boot =>
    simp only [hph, Option.some.injEq] at hm
    subst hm
    exact wkIds_emit [.ev (.workerready k)] h rfl rfl rfl (by intro e he; simp [evOf] at he; subst he; trivial)
  | collect =>
    simp only [hph] at hm
    cases p with
    | collect errs garbage intr sf0 =>
      simp only at hm
      have hmsgs : ∀ e ∈ ([WMsg.ignored] ++ errs.map (fun (e : String × Bool) => WMsg.ev (Ctl.Event.collectreport (τ := τ) k e.1 e.2)) ++
            [WMsg.ev (Ctl.Event.collectionfinish k w.ids)]).filterMap (evOf k), isCf ids e := by
        intro e he
        simp only [List.filterMap_append, List.mem_append, List.mem_filterMap, List.mem_map, List.mem_singleton] at he
        rcases he with (⟨m, hm', he⟩ | ⟨m, ⟨x, _, rfl⟩, he⟩) | ⟨m, rfl, he⟩
        · subst hm'
          simp [evOf] at he
        · simp only [evOf, Option.some.injEq] at he; subst he; trivial
        · simp only [evOf, Option.some.injEq] at he; subst he; exact h.1
      split at hm
      · simp only [Option.some.injEq] at hm
        subst hm
        exact wkIds_emit _ h rfl rfl rfl hmsgs
      · simp only [Option.some.injEq] at hm
        subst hm
        refine wkIds_emit (([WMsg.ignored] ++ errs.map (fun (e : String × Bool) => WMsg.ev (Ctl.Event.collectreport k e.1 e.2)) ++
            [WMsg.ev (Ctl.Event.collectionfinish k w.ids)]) ++ (if garbage then [WMsg.garbage] else [])) h rfl rfl
          (by simp [List.append_assoc]) ?_
        intro e he
        rw [List.filterMap_append] at he
        rcases List.mem_append.1 he with he | he
        · exact hmsgs e he
        · cases garbage <;> simp [evOf] at he
    | none => simp at hm
    | reports fs sf ss ex => simp at hm
    | complete slow => simp at hm
  | finish =>
    simp only [hph, Option.some.injEq] at hm
    subst hm
    refine wkIds_emit [.fin w.exitstatus w.sf w.ss, .endMarker] h rfl rfl rfl ?_
    intro e he; simp [evOf] at he; subst he; trivial
  | done => simp [hph] at hm
  | loop =>
    simp only [hph] at hm
    cases hpc : w.w.pc with
    | init =>
      simp only [hpc] at hm
      obtain ⟨v, hv, rfl⟩ := Option.map_eq_some_iff.1 hm
      exact wkIds_emit [] h rfl rfl (by simp) (by intro e he; simp at he)
    | haveItem =>
      simp only [hpc] at hm
      obtain ⟨v, hv, rfl⟩ := Option.map_eq_some_iff.1 hm
      exact wkIds_emit [] h rfl rfl (by simp) (by intro e he; simp at he)
    | done => simp [hpc] at hm
    | running =>
      simp only [hpc] at hm
      split at hm
      · simp only [Option.some.injEq] at hm
        subst hm
        exact wkIds_emit [.ev .other] h rfl rfl rfl (by intro e he; simp [evOf] at he; subst he; trivial)
      · simp only [Option.some.injEq] at hm
        subst hm
        refine wkIds_emit _ h rfl rfl (List.append_assoc _ _ _) ?_
        intro e he
        simp only [List.filterMap_append, List.mem_append, List.mem_filterMap, List.mem_map, List.mem_singleton] at he
        rcases he with ⟨m, ⟨x, _, rfl⟩, he⟩ | ⟨m, rfl, he⟩
        · simp only [evOf, Option.some.injEq] at he; subst he; trivial
        · simp only [evOf, Option.some.injEq] at he; subst he; trivial
      · split at hm
        · simp only [Option.some.injEq] at hm
          subst hm
          exact wkIds_emit [] h rfl rfl (by simp) (by intro e he; simp at he)
        · split at hm
          · simp only [Option.some.injEq] at hm
            subst hm
            exact wkIds_emit [.ev (.complete k _ _)] h rfl rfl rfl (by intro e he; simp [evOf] at he; subst he; trivial)
          · cases hm
      · cases hm

theorem deliverStep_wkIds {ids : List τ} {k : Nat} {w w' : Wk τ} (h : WkIds ids k w) (hd : deliverStep k w = some w') :
    WkIds ids k w' := by
  unfold deliverStep at hd
  split at hd
  · cases hd
  cases hi : w.inbox with
  | nil => simp [hi] at hd
  | cons cmd rest =>
    simp only [hi] at hd
    cases cmd with
    | run is => simp only [Option.some.injEq] at hd; subst hd; exact wkIds_emit [] h rfl rfl (by simp) (by intro e he; simp at he)
    | runAll => simp only [Option.some.injEq] at hd; subst hd; exact wkIds_emit [] h rfl rfl (by simp) (by intro e he; simp at he)
    | shutdown => simp only [Option.some.injEq] at hd; subst hd; exact wkIds_emit [] h rfl rfl (by simp) (by intro e he; simp at he)
    | steal is =>
      simp only [Option.some.injEq] at hd; subst hd
      exact wkIds_emit [.ev (.unscheduled k _)] h rfl rfl rfl (by intro e he; simp [evOf] at he; subst he; trivial)

/-- the receiver thread -/
theorem recv_wkIds {ids : List τ} {j : Nat} {w w2 : Wk τ} {m : WMsg τ} {rest : List (WMsg τ)} {d sn : Bool}
    (h : WkIds ids j w) (ho : w.outbox = m :: rest) (hi : w2.ids = w.ids) (hout : w2.outbox = rest)
    (hpo : w2.posted = w.posted ++ (Receiver.step (α := Ctl.Event τ) { down := d, shutdownSent := sn } (toRecv j m)).2.1.map (ofPost j)) :
    WkIds ids j w2 := by
  generalize hevs : (Receiver.step (α := Ctl.Event τ) { down := d, shutdownSent := sn } (toRecv j m)).2.1.map (ofPost j) = evs at hpo
  have hposts := recv_posts j d sn m
  simp only [hevs] at hposts
  refine ⟨hi.trans h.1, ?_⟩
  intro e he
  have hfl : flight j w = w.posted ++ ((evOf j m).toList ++ rest.filterMap (evOf j)) := by
    unfold flight; rw [ho, filterMap_cons_toList]
  unfold flight at he
  rw [hpo, hout, List.append_assoc] at he
  rcases List.mem_append.1 he with he | he
  · exact h.2 e (by rw [hfl]; exact List.mem_append_left _ he)
  · rcases List.mem_append.1 he with he | he
    · rcases hposts with h' | ⟨_, h'⟩ | ⟨_, h', _⟩
      · rw [h'] at he; cases he
      · rw [h'] at he
        exact h.2 e (by rw [hfl]; exact List.mem_append_right _ (List.mem_append_left _ he))
      · rw [h'] at he; simp at he; subst he; trivial
    · exact h.2 e (by rw [hfl]; exact List.mem_append_right _ (List.mem_append_right _ he))

/-- **the twelfth layer** -/
def Inv12 (ids : List τ) (st : LState τ) : Prop :=
  CtlInv12 ids st.ctl ∧ ∀ k w, st.wk[k]? = some w → WkIds ids k w

theorem inv12_setWk {ids : List τ} {st : LState τ} {k : Nat} {w w' : Wk τ} (hinv : Inv12 ids st) (hw : st.wk[k]? = some w)
    (h' : WkIds ids k w') : Inv12 ids (setWk st k w') := by
  refine ⟨hinv.1, ?_⟩
  intro j wj hj
  by_cases hjk : j = k
  · subst hjk
    simp only [setWk] at hj
    rw [getElem?_set_self' hw] at hj
    cases hj
    exact h'
  · simp only [setWk] at hj
    rw [List.getElem?_set_ne (Ne.symm hjk)] at hj
    exact hinv.2 j wj hj

theorem other_inv12 {ids : List τ} (idsOf : Nat → List τ) {st st' : LState τ} (a : Step) (hn : ∀ k rq, a ≠ .ctl k rq)
    (h12 : Inv12 ids st) (h : step loadI idsOf st a = .ok st') : Inv12 ids st' := by
  cases a with
  | main k p =>
    simp only [Sys.step] at h
    split at h
    · cases h
    · rename_i w hw
      split at h
      · cases h
      · rename_i w' hm
        simp only [Except.ok.injEq] at h; subst h
        exact inv12_setWk h12 hw (mainStep_wkIds (h12.2 k w hw) hm)
  | deliver k =>
    simp only [Sys.step] at h
    split at h
    · cases h
    · rename_i w hw
      split at h
      · cases h
      · rename_i w' hm
        simp only [Except.ok.injEq] at h; subst h
        exact inv12_setWk h12 hw (deliverStep_wkIds (h12.2 k w hw) hm)
  | crash k b =>
    simp only [Sys.step] at h
    split at h
    · cases h
    rename_i s1 hc
    simp only [Except.ok.injEq] at h; subst h
    unfold crashStep at hc
    split at hc
    · cases hc
    rename_i w hw
    split at hc
    · cases hc
    have base : Inv12 ids (setWk st k ({ w with alive := false, inbox := [], outbox := w.outbox ++ [.endMarker] } : Wk τ)) :=
      inv12_setWk h12 hw (wkIds_emit [.endMarker] (h12.2 k w hw) rfl rfl rfl (by intro e he; simp [evOf] at he))
    split at hc
    · simp only [Option.some.injEq] at hc; subst hc
      exact ⟨⟨base.1.si, base.1.comp⟩, base.2⟩
    · simp only [Option.some.injEq] at hc; subst hc; exact base
  | recv k =>
    simp only [Sys.step] at h
    split at h
    · cases h
    rename_i s1 hr
    simp only [Except.ok.injEq] at h; subst h
    obtain ⟨w, m, rest, fl', w2, outs', hw, ho, rfl, hfl', hw2⟩ := recvStep_shape hr
    simp only at hfl' hw2
    refine ⟨⟨h12.1.si, h12.1.comp⟩, ?_⟩
    intro j wj hj
    by_cases hjk : j ≠ k
    · simp only at hj
      rw [List.getElem?_set_ne (Ne.symm hjk)] at hj
      exact h12.2 j wj hj
    have hjk : j = k := Classical.byContradiction hjk
    subst hjk
    simp only at hj
    rw [getElem?_set_self' hw] at hj
    cases hj
    refine recv_wkIds (d := (st.ctl.env.flags.get j).down) (sn := (st.ctl.env.flags.get j).sent) (h12.2 j w hw) ho ?_ ?_ ?_
    · rw [hw2]; split
      · split <;> rfl
      · rfl
    · rw [hw2]; split
      · split <;> rfl
      · rfl
    · rw [hw2]; split
      · split <;> rfl
      · rfl
  | ctl k rq => exact absurd rfl (hn k rq)

theorem ctl_inv12_sys {ids : List τ} (idsOf : Nat → List τ) (hids : ∀ j, idsOf j = ids) {st st' : LState τ} {g g' : Ghost}
    {as : List (Atom τ)} {k : Nat} {rq : Bool} {w : Wk τ} {ev0 : Ctl.Event τ} {rest : List (Ctl.Event τ)}
    (h12 : Inv12 ids st) (hb : BalS st.ctl.sched g) (h : step loadI idsOf st (.ctl k rq) = .ok st')
    (hw : st.wk[k]? = some w) (hp : w.posted = ev0 :: rest) (hsh : Shape loadI st.ctl st'.ctl (fixRq rq ev0) as)
    (hg : StepsG st.ctl.sched st.ctl.env g as st'.ctl.sched st'.ctl.env g') : Inv12 ids st' := by
  have hc12 : CtlInv12 ids st'.ctl := by
    refine ctl_inv12 h12.1 hb hsh hg ?_
    intro n cc hev
    have hmem : ev0 ∈ flight k w := by unfold flight; rw [hp]; simp
    have := (h12.2 k w hw).2 ev0 hmem
    cases ev0 <;> simp only [fixRq] at hev <;> try cases hev
    exact this
  refine ⟨hc12, ?_⟩
  simp only [Sys.step] at h
  obtain ⟨w1, ev1, rest1, c', hw1, hp1, hl, rfl⟩ := ctlStep_shape h
  rw [hw] at hw1; cases hw1
  rw [hp] at hp1; cases hp1
  intro j wj hj
  simp only at hj
  rw [route_get] at hj
  by_cases hjl : j < (st.wk.set k ({ w with posted := rest } : Wk τ)).length
  · rw [spawn_get_old _ _ _ _ hjl] at hj
    by_cases hjk : j = k
    · subst hjk
      rw [getElem?_set_self' hw] at hj
      simp only [Option.map_some, Option.some.injEq] at hj
      subst hj
      obtain ⟨_, _, r3, r4, _⟩ := routed_fields j (c'.env.outs.drop st.ctl.env.outs.length) ({ w with posted := rest } : Wk τ)
      have h0 := h12.2 j w hw
      refine ⟨?_, ?_⟩
      · unfold routed; split <;> exact h0.1
      · intro e he
        unfold flight at he
        rw [r3, r4] at he
        apply h0.2 e
        unfold flight
        rw [hp]
        rcases List.mem_append.1 he with he | he
        · exact List.mem_append_left _ (List.mem_cons_of_mem _ he)
        · exact List.mem_append_right _ he
    · rw [List.getElem?_set_ne (Ne.symm hjk)] at hj
      cases hwj : st.wk[j]? with
      | none => rw [hwj] at hj; cases hj
      | some w0 =>
        rw [hwj] at hj
        simp only [Option.map_some, Option.some.injEq] at hj
        subst hj
        obtain ⟨_, _, r3, r4, _⟩ := routed_fields j (c'.env.outs.drop st.ctl.env.outs.length) w0
        have h0 := h12.2 j w0 hwj
        refine ⟨?_, ?_⟩
        · unfold routed; split <;> exact h0.1
        · intro e he
          unfold flight at he
          rw [r3, r4] at he
          exact h0.2 e he
  · have hjl' : (st.wk.set k ({ w with posted := rest } : Wk τ)).length ≤ j := Nat.le_of_not_lt hjl
    by_cases hju : j < c'.nextId
    · rw [spawn_get_new _ _ _ _ hjl' hju] at hj
      simp only [Option.map_some, Option.some.injEq] at hj
      subst hj
      obtain ⟨_, _, r3, r4, _⟩ := routed_fields j (c'.env.outs.drop st.ctl.env.outs.length) ({ ids := idsOf j } : Wk τ)
      refine ⟨?_, ?_⟩
      · unfold routed; split <;> exact hids j
      · intro e he
        unfold flight at he
        rw [r3, r4] at he
        cases he
    · have hge : (spawn idsOf (st.wk.set k ({ w with posted := rest } : Wk τ)) c'.nextId).length ≤ j := by
        unfold spawn
        simp only [List.length_append, List.length_map, List.length_range]
        omega
      rw [List.getElem?_eq_none hge] at hj
      cases hj

end Xdist.Sys
