import XdistProofs.Sys.Dead2
/-! The receiver-thread step and the lifting of the worker-side steps for the dead-worker layer (`Inv7`). -/
namespace Xdist.Sys
open Xdist Xdist.Ctl Xdist.Load

variable {τ : Type} [DecidableEq τ]

/-- messages after which the receiver thread regards the worker as gone -/
def closes : WMsg τ → Bool
  | .fin _ _ _ => true
  | .garbage => true
  | .endMarker => true
  | _ => false

theorem WkInv7.congr_env {c : Ctl.State (Load.State τ) τ} {W : List Nat} (e' : Env) {j : Nat} {w : Wk τ}
    (hd : (e'.flags.get j).down = (c.env.flags.get j).down) (h : WkInv7 c W j w) :
    WkInv7 ({ c with env := e' } : Ctl.State (Load.State τ) τ) W j w :=
  WkInv7.congr (c := c) (c' := { c with env := e' }) rfl rfl hd h

theorem inv7_setWk {st : LState τ} {W : List Nat} {k : Nat} {w w' : Wk τ} (hinv : Inv7 st W) (hw : st.wk[k]? = some w)
    (h' : WkInv7 st.ctl W k w') : Inv7 (setWk st k w') W := by
  intro j wj hj
  by_cases hjk : j = k
  · subst hjk
    simp only [setWk] at hj
    rw [getElem?_set_self' hw] at hj
    cases hj
    exact h'
  · simp only [setWk] at hj
    rw [List.getElem?_set_ne (Ne.symm hjk)] at hj
    exact hinv j wj hj

theorem main_inv7 (idsOf : Nat → List τ) {st st' : LState τ} {W : List Nat} {k : Nat} {p : MainP} (hinv : Inv7 st W)
    (h : step Ctl.loadI idsOf st (.main k p) = .ok st') : Inv7 st' (ghostW st (.main k p) W) := by
  simp only [step] at h
  split at h
  · cases h
  · rename_i w hw
    split at h
    · cases h
    · rename_i w' hm
      simp only [Except.ok.injEq] at h
      subst h
      exact inv7_setWk hinv hw (mainStep_inv7 (hinv k w hw) hm)

theorem deliver_inv7 (idsOf : Nat → List τ) {st st' : LState τ} {W : List Nat} {k : Nat} (hinv1 : Inv st) (hinv : Inv7 st W)
    (h : step Ctl.loadI idsOf st (.deliver k) = .ok st') : Inv7 st' (ghostW st (.deliver k) W) := by
  simp only [step] at h
  split at h
  · cases h
  · rename_i w hw
    split at h
    · cases h
    · rename_i w' hm
      simp only [Except.ok.injEq] at h
      subst h
      exact inv7_setWk hinv hw (deliverStep_inv7 (hinv1.wk hw) (hinv k w hw) hm)

theorem crash_inv7 (idsOf : Nat → List τ) {st st' : LState τ} {W : List Nat} {k : Nat} {b : Bool} (hinv1 : Inv st) (hinv6 : Inv6 st)
    (hinv : Inv7 st W) (h : step Ctl.loadI idsOf st (.crash k b) = .ok st') : Inv7 st' (ghostW st (.crash k b) W) := by
  simp only [step] at h
  split at h
  · cases h
  rename_i s1 hc
  simp only [Except.ok.injEq] at h
  subst h
  unfold crashStep at hc
  split at hc
  · cases hc
  rename_i w hw
  split at hc
  · cases hc
  rename_i hg
  simp only [Bool.or_eq_true, Bool.not_eq_eq_eq_not, Bool.not_true, decide_eq_true_eq, not_or] at hg
  have ha : w.alive = true := by cases hh : w.alive <;> simp_all
  have base := inv7_setWk hinv hw (crash_wk7 (hinv1.wk hw) (hinv6 k w hw) (hinv k w hw) ha hg.2)
  split at hc
  · simp only [Option.some.injEq] at hc
    subst hc
    intro j wj hj
    refine WkInv7.congr_env _ ?_ (base j wj hj)
    simp only [setWk, Contract.flags_get_set]; split <;> simp_all
  · simp only [Option.some.injEq] at hc
    subst hc
    exact base

theorem recv_inv7 (idsOf : Nat → List τ) {st st' : LState τ} {W : List Nat} {k : Nat} (hinv1 : Inv st) (hinv6 : Inv6 st)
    (hinv : Inv7 st W) (h : step Ctl.loadI idsOf st (.recv k) = .ok st') : Inv7 st' (ghostW st (.recv k) W) := by
  have hWsub : ∀ x, x ∈ W → x ∈ ghostW st (.recv k) W := fun x hx => ghostW_mono st _ W hx
  simp only [step] at h
  split at h
  · cases h
  rename_i s1 hr
  simp only [Except.ok.injEq] at h
  subst h
  obtain ⟨w, m, rest, fl', w2, outs', hw, ho, rfl, hfl', hw2⟩ := recvStep_shape hr
  simp only at hfl' hw2
  have wi := hinv1.wk hw
  have wi6 := hinv6 k w hw
  have wi7 := hinv k w hw
  have hflk : Flags.get (AList.set st.ctl.env.flags k fl') k = fl' := by simp [Contract.flags_get_set]
  have hflj : ∀ j, j ≠ k → Flags.get (AList.set st.ctl.env.flags k fl') j = st.ctl.env.flags.get j := by
    intro j hj; simp [Contract.flags_get_set, hj]
  intro j wj hj
  by_cases hjk : j ≠ k
  · simp only at hj
    rw [List.getElem?_set_ne (Ne.symm hjk)] at hj
    exact WkInv7.congr_env _ (by simp only; rw [hflj j hjk]) ((hinv j wj hj).mono hWsub)
  have hjk : j = k := Classical.byContradiction hjk
  subst hjk
  simp only at hj
  rw [getElem?_set_self' hw] at hj
  cases hj
  -- an undecodable message from a worker not yet written off puts it into the ghost set
  have hgarb : m = .garbage → (st.ctl.env.flags.get j).down = false → j ∈ ghostW st (.recv j) W := by
    intro hm hd
    unfold ghostW
    simp only [hw, ho, hm, hd, Bool.false_eq_true, ↓reduceIte, List.mem_cons, true_or]
  generalize hevs : (Receiver.step (α := Ctl.Event τ) { down := (st.ctl.env.flags.get j).down, shutdownSent := (st.ctl.env.flags.get j).sent }
    (toRecv j m)).2.1.map (ofPost j) = evs at hw2
  have hposts := recv_posts j (st.ctl.env.flags.get j).down (st.ctl.env.flags.get j).sent m
  simp only [hevs] at hposts
  have hshape : w2 = ({ w with outbox := rest, posted := w.posted ++ evs } : Wk τ) ∨
      w2 = ({ w with outbox := rest, posted := w.posted ++ evs, inbox := w.inbox ++ [.shutdown] } : Wk τ) := by
    rw [hw2]
    split
    · split
      · exact Or.inr rfl
      · exact Or.inl rfl
    · exact Or.inl rfl
  have hal2 : w2.alive = w.alive := by rcases hshape with h | h <;> rw [h]
  have hph2 : w2.phase = w.phase := by rcases hshape with h | h <;> rw [h]
  have hob2 : w2.outbox = rest := by rcases hshape with h | h <;> rw [h]
  have hpo2 : w2.posted = w.posted ++ evs := by rcases hshape with h | h <;> rw [h]
  have hheld2 : heldS w2 = heldS w := by rcases hshape with h | h <;> rw [h] <;> rfl
  -- the `down` flag after the step
  have hdown' : fl'.down = ((st.ctl.env.flags.get j).down || closes m) := by
    rw [hfl']
    cases hd : (st.ctl.env.flags.get j).down <;> cases m <;> simp [Receiver.step, toRecv, closes]
  have hposts' : (st.ctl.env.flags.get j).down = false → evs = (evOf j m).toList ∨ (evs = [Ctl.Event.errordown j false] ∧ evOf j m = none) := by
    intro hd
    rw [← hevs, hd]
    cases m <;> simp [Receiver.step, toRecv, ofPost, evOf]
  have hfl1 : flight j w = w.posted ++ ((evOf j m).toList ++ rest.filterMap (evOf j)) := by
    unfold flight; rw [ho, filterMap_cons_toList]
  have hfl2 : flight j w2 = w.posted ++ (evs ++ rest.filterMap (evOf j)) := by
    unfold flight; rw [hpo2, hob2, List.append_assoc]
  have hnW : j ∉ ghostW st (.recv j) W → j ∉ W := fun hh hx => hh (hWsub j hx)
  have hgetd : (Flags.get (AList.set st.ctl.env.flags j fl') j).down = fl'.down := by rw [hflk]
  exact {
    endNone := (by
      intro ha hp x hx
      rw [hob2] at hx
      exact wi7.endNone (by rw [← hal2]; exact ha) (by rw [← hph2]; exact hp) x (by rw [ho]; exact List.mem_cons_of_mem _ hx))
    endLast := (by
      intro ha a b hs
      rw [hob2] at hs
      exact wi7.endLast (by rw [← hal2]; exact ha) (m :: a) b (by rw [ho, hs]; rfl))
    deadNoFin := (by
      intro ha x hx
      rw [hob2] at hx
      exact wi7.deadNoFin (by rw [← hal2]; exact ha) x (by rw [ho]; exact List.mem_cons_of_mem _ hx))
    downWhy := (by
      intro ha hW hd
      simp only at hd
      rw [hgetd, hdown'] at hd
      rw [hal2] at ha
      rw [hph2]
      cases hd0 : (st.ctl.env.flags.get j).down with
      | true => exact wi7.downWhy ha (hnW hW) hd0
      | false =>
        rw [hd0] at hd
        simp only [Bool.false_or] at hd
        apply Classical.byContradiction
        intro hne
        cases m with
        | fin x sf ss =>
          have := wi6.finNoneO ha hne (.fin x sf ss) (by rw [ho]; simp)
          cases this
        | garbage => exact hW (hgarb rfl hd0)
        | endMarker =>
          have := wi7.endNone ha hne .endMarker (by rw [ho]; simp)
          cases this
        | ev e => simp [closes] at hd
        | ignored => simp [closes] at hd)
    deadDown := (by
      intro ha hW hd
      simp only at hd
      rw [hgetd, hdown'] at hd
      rw [hal2] at ha
      rw [hob2]
      cases hd0 : (st.ctl.env.flags.get j).down with
      | true =>
        have := wi7.deadDown ha (hnW hW) hd0
        rw [ho] at this; cases this
      | false =>
        rw [hd0] at hd
        simp only [Bool.false_or] at hd
        cases m with
        | fin x sf ss =>
          have := wi7.deadNoFin ha (.fin x sf ss) (by rw [ho]; simp)
          cases this
        | garbage => exact absurd (hgarb rfl hd0) hW
        | endMarker => exact wi7.endLast ha [] rest (by rw [ho]; rfl)
        | ev e => simp [closes] at hd
        | ignored => simp [closes] at hd)
    deadSync := (by
      intro ha hW hk
      rw [hal2] at ha
      simp only at hk ⊢
      cases hd0 : (st.ctl.env.flags.get j).down with
      | true =>
        have := wi7.deadDown ha (hnW hW) hd0
        rw [ho] at this; cases this
      | false =>
        have hd := wi7.deadSync ha (hnW hW) hk
        have hcompl : completes (flight j w2) = completes (flight j w) := by
          rw [hfl1, hfl2]
          rcases hposts' hd0 with h' | ⟨h', h''⟩
          · rw [h']
          · rw [h', h'']
            simp only [Option.toList_none, List.nil_append, completes_append]
            rfl
        unfold DeadD at hd ⊢
        rw [hcompl, hheld2]
        exact hd) }

end Xdist.Sys
