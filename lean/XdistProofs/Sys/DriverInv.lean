import XdistProofs.Sys.Inv2
import XdistProofs.Sys.LedgerDef
import XdistModel.Driver.Sys
/-!
  `inv?` for the `sys` driver: evaluates the (decidable) system invariant of `Sys/Inv.lean` on the current state of a
  replayed `--dist load` run.
-/
namespace Xdist.Driver.Sys
open Xdist

def toLoad (s : Xdist.Sys.State Any String) : Option (Xdist.Sys.LState String) :=
  match s.ctl.sched with
  | .load ls =>
    let c := s.ctl
    some { ctl := { sched := ls, env := c.env, shuttingdown := c.shuttingdown, shouldstop := c.shouldstop,
                    countfailures := c.countfailures, maxfail := c.maxfail, failedNodes := c.failedNodes,
                    maxRestart := c.maxRestart, active := c.active, nextId := c.nextId, summary := c.summary,
                    seenCollect := c.seenCollect, pubs := c.pubs },
           wk := s.wk }
  | _ => none

def invLine (st : St) : String :=
  match st.sys with
  | none => "inv=-"
  | some s =>
    match toLoad s with
    | none => "inv=-"
    | some ls =>
      if decide (Xdist.Sys.Inv ls) then
        (if decide (Xdist.Sys.Inv2 ls) then
          (if decide (Xdist.Sys.Inv3 ls) then "inv=1" else "inv=0 ledger")
         else
          let badCtl := if decide (Xdist.Sys.CtlInv2 ls.ctl) then "" else " ctl2"
          let bad := ls.wk.zipIdx.filter (fun p => !decide (Xdist.Sys.WkInv2 ls.ctl p.2 p.1))
          s!"inv=0{badCtl} workers2={bad.map (·.2)}")
      else
        let badCtl := if decide (Xdist.Sys.CtlInv ls) then "" else " ctl"
        let bad := ls.wk.zipIdx.filter (fun p => !decide (Xdist.Sys.WkInv ls.ctl p.2 p.1))
        s!"inv=0{badCtl} workers={bad.map (·.2)}"

def handleInv (st : St) (line : String) : St × String :=
  if line = "inv?" then (st, if st.dead then "inv=-" else invLine st) else handle st line

end Xdist.Driver.Sys
