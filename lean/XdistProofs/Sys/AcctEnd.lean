import XdistProofs.Sys.EndCrash
/-!
  **C03 / C15 / C01, whole system, `--dist load`, with crashes: every test is completed exactly once or reported as crashed
  exactly once** (`C03_sys_load_ledger_with_crashes`, `C03_sys_load_accounting_at_end`).
-/
namespace Xdist.Sys
open Xdist Xdist.Ctl Xdist.Load Xdist.Contract

variable {τ : Type} [DecidableEq τ]

/-- all layers of the invariant along an execution with its ghosts -/
theorem reachB_all (numnodes maxfail : Nat) (msc maxRestart : Option Int) (idsOf : Nat → List τ) {st : LState τ} {W : List Nat}
    {g : Ghost} (h : ReachB idsOf (init loadI (Load.init numnodes msc) numnodes maxfail maxRestart idsOf) st W g) :
    Inv st ∧ Inv6 st ∧ Inv7 st W ∧ Inv8w st W ∧ H2 st W g ∧ Inv9 st := by
  induction h with
  | init =>
    refine ⟨init_inv numnodes maxfail msc maxRestart idsOf, init_inv6 numnodes maxfail msc maxRestart idsOf,
      init_inv7 numnodes maxfail msc maxRestart idsOf, init_inv8w numnodes maxfail msc maxRestart idsOf, ?_, ?_⟩
    · intro _
      have : (init loadI (Load.init numnodes msc) numnodes maxfail maxRestart idsOf).wk.flatMap handled = ([] : List Nat) := by
        rw [List.flatMap_eq_nil_iff]
        intro w hw
        simp only [init, List.mem_map] at hw
        obtain ⟨j, _, rfl⟩ := hw
        rfl
      rw [this]
    · intro hq
      obtain ⟨q1, _, _⟩ := hq
      simp [init, Ctl.init] at q1
  | other a hn _ hs ih =>
    obtain ⟨i1, i6, i7, i8, ih2, i9⟩ := ih
    exact ⟨step_inv idsOf a i1 hs, step_inv6 idsOf a i1 i6 hs, step_inv7 idsOf a i1 i6 i7 hs,
      step_inv8w idsOf a i1 i6 i7 i8 hs, other_h2 idsOf a hn i6 i7 i8 ih2 hs, step_inv9 idsOf a i9 hs⟩
  | ctl k rq _ hs hw hp hsh hg _ ih =>
    obtain ⟨i1, i6, i7, i8, ih2, i9⟩ := ih
    exact ⟨step_inv idsOf _ i1 hs, step_inv6 idsOf _ i1 i6 hs, step_inv7 idsOf _ i1 i6 i7 hs,
      step_inv8w idsOf _ i1 i6 i7 i8 hs, ctl_h2 idsOf i8 ih2 hs hw hp hsh hg, step_inv9 idsOf _ i9 hs⟩

/-- **The ledger of the whole system with crashes.**  In every reachable state of every execution in which no undecodable
    message was received — any interleaving, any number of crashes, replacements and re-queues —:
    `pool ++ books ++ (tests completed by the workers whose completion the controller has processed) ++ crash items`
    is, as a multiset, `indices of the agreed collection ++ re-queued crash items`. -/
theorem C03_sys_load_ledger_with_crashes (numnodes maxfail : Nat) (msc maxRestart : Option Int) (idsOf : Nat → List τ)
    {st : LState τ} {g : Ghost} {col : List τ}
    (h : ReachB idsOf (init loadI (Load.init numnodes msc) numnodes maxfail maxRestart idsOf) st [] g)
    (hcol : st.ctl.sched.collection = some col) :
    (st.ctl.sched.pending ++ (AList.values st.ctl.sched.node2pending).flatten ++ st.wk.flatMap handled ++ g.crashed).Perm
      (List.range col.length ++ g.requeued) := by
  obtain ⟨_, hbal, hst⟩ := reachB_bal numnodes maxfail msc maxRestart idsOf h
  obtain ⟨_, _, _, _, ih2, _⟩ := reachB_all numnodes maxfail msc maxRestart idsOf h
  have hc := ih2 rfl
  unfold Bal at hbal
  unfold Load.StartedOK at hst
  rw [hcol] at hst
  rw [hst] at hbal
  simp only [Load.view, View.all] at hbal
  refine List.Perm.trans ?_ hbal
  exact List.Perm.append_right _ (List.Perm.append_left _ hc.symm)

/-- **Exactly once, with crashes.**  When the session of such an execution is finished, no stop reason was set and the restart
    budget was not exceeded: the tests *completed by the workers* together with the crash items are, as a multiset, the indices
    of the collection plus the re-queued crash items — every test was completed exactly once or charged to a crash exactly
    once (once more for every time the crash hook re-queued it), on whatever workers, however many of them died. -/
theorem C03_sys_load_accounting_at_end (numnodes maxfail : Nat) (msc maxRestart : Option Int) (idsOf : Nat → List τ)
    {st : LState τ} {g : Ghost} {col : List τ}
    (h : ReachB idsOf (init loadI (Load.init numnodes msc) numnodes maxfail maxRestart idsOf) st [] g)
    (hcol : st.ctl.sched.collection = some col) (hfin : Ctl.sessionFinished st.ctl = true)
    (hstop : st.ctl.shouldstop = none) (hsum : st.ctl.summary = none) :
    (st.wk.flatMap doneIdx ++ g.crashed).Perm (List.range col.length ++ g.requeued) ∧
      st.ctl.sched.pending = [] ∧ st.ctl.sched.node2pending = [] := by
  have hled := C03_sys_load_ledger_with_crashes numnodes maxfail msc maxRestart idsOf h hcol
  obtain ⟨i1, _, i7, i8, _, i9⟩ := reachB_all numnodes maxfail msc maxRestart idsOf h
  unfold Ctl.sessionFinished at hfin
  simp only [Bool.and_eq_true, List.isEmpty_iff] at hfin
  obtain ⟨hsd, hact⟩ := hfin
  -- the pool is empty
  have hpool : st.ctl.sched.pending = [] := (i9 ⟨hsd, hstop, hsum⟩).1
  -- nobody is registered any more
  have hbooks : st.ctl.sched.node2pending = [] := by
    cases hb : st.ctl.sched.node2pending with
    | nil => rfl
    | cons p t =>
      exfalso
      have hk : p.1 ∈ AList.keys st.ctl.sched.node2pending := by rw [hb]; simp [AList.keys]
      have hlt := i1.1.keysLt p.1 hk
      rw [← i1.1.len] at hlt
      have hw : st.wk[p.1]? = some st.wk[p.1] := by simp [hlt]
      rcases (i1.wk hw).keysActive hk with h' | h'
      · rw [hact] at h'; cases h'
      · rw [hstop] at h'; cases h'
  -- nothing is on its way any more
  have hhand : st.wk.flatMap handled = st.wk.flatMap doneIdx := by
    apply flatMap_congr'
    intro w hw
    obtain ⟨k, hk, rfl⟩ := List.getElem_of_mem hw
    have hwk : st.wk[k]? = some st.wk[k] := by simp [hk]
    have wi := i1.wk hwk
    have hna : k ∉ st.ctl.active := by rw [hact]; simp
    have hposted := wi.inactive hna
    have hq := quiet (i7 k _ hwk) (i8 k _ hwk) (by simp) (wi.inactiveDown hna)
    unfold handled inflightC
    rw [hposted, hq]
    simp [completes]
  rw [hpool, hbooks, hhand] at hled
  simp only [AList.values, List.map_nil, List.flatten_nil, List.nil_append] at hled
  exact ⟨hled, hpool, hbooks⟩

theorem range_filterMap_get (l : List τ) : (List.range l.length).filterMap (fun i => l[i]?) = l := by
  induction l with
  | nil => rfl
  | cons a t ih =>
    rw [List.length_cons, List.range_succ_eq_map, List.filterMap_cons]
    simp only [List.getElem?_cons_zero, List.filterMap_map]
    congr 1

/-- **The same in terms of what is published** (test ids): at the end of such a session the tests completed by the workers
    together with the tests *reported as crashed* are, as a multiset, the collection plus the tests the crash hook re-queued:
    every test has a completion or a crash report, exactly one of them (one more per re-queue) — nothing is lost, nothing
    runs to completion twice, nothing is reported as crashed that was not charged. -/
theorem C03_sys_load_reports_at_end (numnodes maxfail : Nat) (msc maxRestart : Option Int) (idsOf : Nat → List τ)
    {st : LState τ} {g : Ghost} {col : List τ}
    (h : ReachB idsOf (init loadI (Load.init numnodes msc) numnodes maxfail maxRestart idsOf) st [] g)
    (hcol : st.ctl.sched.collection = some col) (hfin : Ctl.sessionFinished st.ctl = true)
    (hstop : st.ctl.shouldstop = none) (hsum : st.ctl.summary = none) :
    ((st.wk.flatMap doneIdx).filterMap (fun i => col[i]?) ++ crashIds st.ctl.pubs).Perm (col ++ rqIds st.ctl.pubs) := by
  obtain ⟨hperm, _, _⟩ := C03_sys_load_accounting_at_end numnodes maxfail msc maxRestart idsOf h hcol hfin hstop hsum
  obtain ⟨hc1, hc2⟩ := (reachB_gc numnodes maxfail msc maxRestart idsOf h).late col hcol
  have hp := hperm.filterMap (fun i => col[i]?)
  rw [List.filterMap_append, List.filterMap_append, range_filterMap_get] at hp
  rw [hc1, hc2]
  unfold idsOfIdx
  refine List.Perm.trans (List.Perm.append_left _ ((List.reverse_perm _).filterMap _)) (hp.trans ?_)
  exact List.Perm.append_left _ ((List.reverse_perm _).filterMap _).symm

/-- **Ghost-free form.**  For every execution of the system (`ReachG`) in which no undecodable message was received (`W = []`):
    when the session is finished without stop reason and within the restart budget, the tests completed by the workers together
    with the tests reported as crashed are the collection plus the re-queued tests, as multisets of test ids. -/
theorem C03_sys_load_every_test_completed_or_reported (numnodes maxfail : Nat) (msc maxRestart : Option Int) (idsOf : Nat → List τ)
    {st : LState τ} {col : List τ}
    (h : ReachG idsOf (init loadI (Load.init numnodes msc) numnodes maxfail maxRestart idsOf) st [])
    (hcol : st.ctl.sched.collection = some col) (hfin : Ctl.sessionFinished st.ctl = true)
    (hstop : st.ctl.shouldstop = none) (hsum : st.ctl.summary = none) :
    ((st.wk.flatMap doneIdx).filterMap (fun i => col[i]?) ++ crashIds st.ctl.pubs).Perm (col ++ rqIds st.ctl.pubs) ∧
      st.ctl.sched.pending = [] ∧ st.ctl.sched.node2pending = [] := by
  obtain ⟨g, hg⟩ := reachG_reachB numnodes maxfail msc maxRestart idsOf h
  exact ⟨C03_sys_load_reports_at_end numnodes maxfail msc maxRestart idsOf hg hcol hfin hstop hsum,
    (C03_sys_load_accounting_at_end numnodes maxfail msc maxRestart idsOf hg hcol hfin hstop hsum).2⟩

end Xdist.Sys
