import XdistProofs.Sys.AcctEnd
import XdistProofs.Sched.LoadOk
/-!
  Scheduler facts along every execution that the "never raises" theorems need: `maxschedchunk` is fixed once a non-empty
  collection is agreed (`MscS`), every outstanding index is a valid position (`bounded_of_bal`).
-/
namespace Xdist.Load
open Xdist Xdist.Contract

variable {τ : Type} [DecidableEq τ]

def MscS (s : State τ) : Prop := ∀ col, s.collection = some col → col ≠ [] → s.maxschedchunk.isSome = true

theorem sendEach_frame {num : Int} {ns : List Nat} : ∀ {s s' : State τ} {e e' : Env}, sendEach s e num ns = .ok (s', e') →
    s'.maxschedchunk = s.maxschedchunk ∧ s'.collection = s.collection := by
  induction ns with
  | nil => intro s s' e e' h; simp only [sendEach, Except.ok.injEq, Prod.mk.injEq] at h; obtain ⟨rfl, _⟩ := h; exact ⟨rfl, rfl⟩
  | cons n t ih =>
    intro s s' e e' h
    simp only [sendEach] at h
    obtain ⟨⟨s1, e1⟩, h1, h2⟩ := bind_ok.1 h
    obtain ⟨_, a2, a3⟩ := sendTests_keep h1
    obtain ⟨b2, b3⟩ := ih h2
    exact ⟨b2.trans a2, b3.trans a3⟩

theorem roundRobin_frame {ns : List Nat} {k : Nat} : ∀ {i : Nat} {s s' : State τ} {e e' : Env}, roundRobin ns s e k i = .ok (s', e') →
    s'.maxschedchunk = s.maxschedchunk ∧ s'.collection = s.collection := by
  induction k with
  | zero => intro i s s' e e' h; simp only [roundRobin, Except.ok.injEq, Prod.mk.injEq] at h; obtain ⟨rfl, _⟩ := h; exact ⟨rfl, rfl⟩
  | succ k ih =>
    intro i s s' e e' h
    simp only [roundRobin] at h
    split at h
    · cases h
    · obtain ⟨⟨s1, e1⟩, h1, h2⟩ := bind_ok.1 h
      obtain ⟨_, a2, a3⟩ := sendTests_keep h1
      obtain ⟨b2, b3⟩ := ih h2
      exact ⟨b2.trans a2, b3.trans a3⟩

theorem initialSend_frame {s s' : State τ} {e e' : Env} {n : Nat} {msc : Int} (h : initialSend s e n msc = .ok (s', e')) :
    s'.maxschedchunk = s.maxschedchunk ∧ s'.collection = s.collection := by
  unfold initialSend at h
  obtain ⟨⟨s3, e3⟩, hsend, h⟩ := bind_ok.1 h
  have h3 : s3.maxschedchunk = s.maxschedchunk ∧ s3.collection = s.collection := by
    unfold initialDistribute at hsend
    dsimp only at hsend
    split at hsend
    · exact roundRobin_frame hsend
    · split at hsend
      · cases hsend
      · exact sendEach_frame hsend
  split at h
  · simp only [Except.ok.injEq, Prod.mk.injEq] at h; obtain ⟨rfl, _⟩ := h; exact h3
  · simp only [Except.ok.injEq, Prod.mk.injEq] at h; obtain ⟨rfl, _⟩ := h; exact h3

theorem step_mscS {s s' : State τ} {e e' : Env} {op : SOp τ} {ret : Option τ} (hm : MscS s)
    (h : step s e op = .ok (s', e', ret)) : MscS s' := by
  have same : s'.collection = s.collection → s'.maxschedchunk = s.maxschedchunk → MscS s' := by
    intro h1 h2 col hc hne
    rw [h2]; exact hm col (by rw [← h1]; exact hc) hne
  cases op with
  | addNode n =>
    simp only [step] at h
    obtain ⟨s1, h1, h2⟩ := map_ok.1 h
    simp at h2; obtain ⟨rfl, rfl, rfl⟩ := h2
    obtain ⟨_, st⟩ := addNode_ref (e := e) h1
    exact same st.2.2.1 st.2.2.2
  | addNodeCollection n c =>
    simp only [step] at h
    obtain ⟨s1, h1, h2⟩ := map_ok.1 h
    simp at h2; obtain ⟨rfl, rfl, rfl⟩ := h2
    unfold addNodeCollection at h1
    split at h1
    · cases h1
    · split at h1
      · split at h1
        · cases h1
        · split at h1
          · cases h1
          · split at h1
            · simp only [Except.ok.injEq] at h1; subst h1; exact hm
            · simp only [Except.ok.injEq] at h1; subst h1; exact same rfl rfl
      · simp only [Except.ok.injEq] at h1; subst h1; exact same rfl rfl
  | schedule =>
    simp only [step] at h
    obtain ⟨⟨s1, e1⟩, h1, h2⟩ := map_ok.1 h
    simp at h2; obtain ⟨rfl, rfl, rfl⟩ := h2
    unfold schedule at h1
    split at h1
    · cases h1
    · split at h1
      · obtain ⟨_, a2, a3⟩ := checkAll_keep h1
        exact same a3 a2
      · split at h1
        · cases h1
        · unfold scheduleFirst at h1
          simp only at h1
          split at h1
          · simp only [Except.ok.injEq, Prod.mk.injEq] at h1; obtain ⟨rfl, _⟩ := h1; exact hm
          · split at h1
            · rename_i hemp
              simp only [Except.ok.injEq, Prod.mk.injEq] at h1; obtain ⟨rfl, _⟩ := h1
              intro col hc hne
              simp only [Option.some.injEq] at hc
              subst hc
              simp at hemp
              exact absurd hemp hne
            · obtain ⟨a2, a3⟩ := initialSend_frame h1
              intro col hc hne
              rw [a2]; rfl
  | markComplete n i slow =>
    simp only [step] at h
    obtain ⟨⟨s1, e1⟩, h1, h2⟩ := map_ok.1 h
    simp at h2; obtain ⟨rfl, rfl, rfl⟩ := h2
    obtain ⟨_, _, _, st⟩ := markComplete_ref h1
    exact same st.2.2.1 st.2.2.2
  | markPending t =>
    simp only [step] at h
    obtain ⟨⟨s1, e1⟩, h1, h2⟩ := map_ok.1 h
    simp at h2; obtain ⟨rfl, rfl, rfl⟩ := h2
    obtain ⟨col', idx, acts, hc', hi, r, p, st⟩ := markPending_ref h1
    exact same st.2.2.1 st.2.2.2
  | removePending n is => simp [step] at h
  | removeNode n =>
    simp only [step] at h
    obtain ⟨book, acts, hl, r, p, st, hret⟩ := removeNode_ref h
    exact same st.2.2.1 st.2.2.2

/-- every re-queued index is a valid position -/
def RBs (s : State τ) (g : Ghost) : Prop := ∀ j ∈ g.requeued, j < total s

theorem step_rb {s s' : State τ} {e e' : Env} {g : Ghost} {op : SOp τ} {ret : Option τ} (hf : Fresh s) (hr : RBs s g)
    (h : step s e op = .ok (s', e', ret)) : RBs s' (ghostOp s s' g op) := by
  have hmono : total s ≤ total s' := by
    unfold total
    cases hc : s.collection with
    | none => exact Nat.zero_le _
    | some col =>
      have : s'.collection = some col := by
        -- the agreed collection is never changed
        cases op with
        | addNode n =>
          simp only [step] at h
          obtain ⟨s1, h1, h2⟩ := map_ok.1 h
          simp at h2; obtain ⟨rfl, rfl, rfl⟩ := h2
          obtain ⟨_, st⟩ := addNode_ref (e := e) h1
          rw [st.2.2.1]; exact hc
        | addNodeCollection n c =>
          simp only [step] at h
          obtain ⟨s1, h1, h2⟩ := map_ok.1 h
          simp at h2; obtain ⟨rfl, rfl, rfl⟩ := h2
          obtain ⟨_, hcc, _, _⟩ := addNodeCollection_view h1
          rw [hcc]; exact hc
        | schedule =>
          simp only [step] at h
          obtain ⟨⟨s1, e1⟩, h1, h2⟩ := map_ok.1 h
          simp at h2; obtain ⟨rfl, rfl, rfl⟩ := h2
          cases schedule_shape hf h1 with
          | again hsome r => rw [r.static.2.2.1]; exact hc
          | mismatch first col' rest hreg hne hs' he => subst hs'; exact hc
          | first first col' rest hcn hreg hall hcol acts r p hst => rw [hcn] at hc; cases hc
        | markComplete n i slow =>
          simp only [step] at h
          obtain ⟨⟨s1, e1⟩, h1, h2⟩ := map_ok.1 h
          simp at h2; obtain ⟨rfl, rfl, rfl⟩ := h2
          obtain ⟨_, _, _, st⟩ := markComplete_ref h1
          rw [st.2.2.1]; exact hc
        | markPending t =>
          simp only [step] at h
          obtain ⟨⟨s1, e1⟩, h1, h2⟩ := map_ok.1 h
          simp at h2; obtain ⟨rfl, rfl, rfl⟩ := h2
          obtain ⟨col', idx, acts, hc', hi, r, p, st⟩ := markPending_ref h1
          rw [st.2.2.1]; exact hc
        | removePending n is => simp [step] at h
        | removeNode n =>
          simp only [step] at h
          obtain ⟨book, acts, hl, r, p, st, hret⟩ := removeNode_ref h
          rw [st.2.2.1]; exact hc
      rw [this]; exact Nat.le_refl _
  have keep : (ghostOp s s' g op).requeued = g.requeued → RBs s' (ghostOp s s' g op) := by
    intro hq j hj
    rw [hq] at hj
    exact Nat.lt_of_lt_of_le (hr j hj) hmono
  cases op with
  | addNode n => exact keep rfl
  | addNodeCollection n c => exact keep rfl
  | schedule => apply keep; simp only [ghostOp]; split <;> rfl
  | markComplete n i slow => exact keep rfl
  | removePending n is => exact keep rfl
  | removeNode n => apply keep; simp only [ghostOp]; split <;> rfl
  | markPending t =>
    simp only [step] at h
    obtain ⟨⟨s1, e1⟩, h1, h2⟩ := map_ok.1 h
    simp at h2; obtain ⟨rfl, rfl, rfl⟩ := h2
    obtain ⟨col', idx, acts, hc', hi, r, p, st⟩ := markPending_ref h1
    intro j hj
    simp only [ghostOp, hc', hi, List.mem_cons] at hj
    have htot : total s1 = col'.length := by unfold total; rw [st.2.2.1, hc']
    rcases hj with rfl | hj
    · rw [htot]; exact index_lt_of_ok hi
    · exact Nat.lt_of_lt_of_le (hr j hj) hmono

/-- every outstanding index is a position of the agreed collection -/
theorem bounded_of_bal {s : State τ} {g : Ghost} (hbal : Bal (view s) g) (hst : StartedOK s g) (hr : RBs s g) :
    ∀ i ∈ (view s).all, i < total s := by
  intro i hi
  have : i ∈ (view s).all ++ g.completed ++ g.crashed := by simp [hi]
  have := (hbal.mem_iff).1 this
  rcases List.mem_append.1 this with h | h
  · unfold StartedOK at hst
    rw [hst] at h
    unfold total
    cases hc : s.collection with
    | none => rw [hc] at h; cases h
    | some col => rw [hc] at h; simpa using h
  · exact hr i h

end Xdist.Load
