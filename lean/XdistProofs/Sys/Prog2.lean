import XdistProofs.Sys.Prog1
/-!
  C02, whole system, `--dist load`: `J` and — the session never runs out of workers without having decided to end — `K`
  (`active = [] → shuttingdown`) along the controller step.
-/
namespace Xdist.Ctl
open Xdist

variable {σ τ : Type}

/-- a crash that leaves no shutdown in force has been answered with a replacement -/
theorem errordown_clone (I : SchedI σ τ) {st st' : State σ τ} {n : Nat} {rq : Bool} (h : errordown I st n rq = .ok st')
    (hsd : st'.shuttingdown = false) : st'.nextId = st.nextId + 1 := by
  have key : ∀ (a : State σ τ), a.nextId = st.nextId → removeActive (restartOrStop I a n) n = .ok st' → st'.nextId = st.nextId + 1 := by
    intro a han ha
    rw [(keeps_removeActive ha).nextId]
    rcases restartOrStop_cases I a n with ⟨b, hh⟩ | hh
    · exfalso
      rw [(removeActive_fields ha).2.2.1, hh, triggerShutdown_shut] at hsd
      cases hsd
    · rw [hh]; simp only [cloneNode]; rw [han]
  unfold errordown at h
  simp only at h
  split at h
  · exact key ({ st with pubs := st.pubs ++ [Pub.nodedown n true] }) rfl h
  · cases h
  · rename_i st1 hc
    exact key _ (keeps_callSched I hc).nextId h
  · rename_i st1 x hc
    obtain ⟨st2, h2, h3⟩ := bind_ok.1 h
    exact key _ ((keeps_handleCrashItem I h2).nextId.trans (keeps_callSched I hc).nextId) h3

end Xdist.Ctl

namespace Xdist.Sys
open Xdist Xdist.Ctl Xdist.Load Xdist.Contract

variable {τ : Type} [DecidableEq τ]

theorem removeNode_none_env {s s' : Load.State τ} {e e' : Env} {n : Nat} (h : Load.removeNode s e n = .ok (s', e', none)) : e' = e := by
  unfold Load.removeNode at h
  obtain ⟨⟨book, n2p⟩, hp, h1⟩ := bind_ok.1 h
  simp only at h1
  split at h1
  · simp only [Except.ok.injEq, Prod.mk.injEq] at h1
    exact h1.2.1.symm
  · split at h1
    · cases h1
    · split at h1
      · cases h1
      · obtain ⟨⟨s3, e3⟩, _, h3⟩ := bind_ok.1 h1
        simp at h3

/-- the early phase, from the controller's state -/
theorem early_of_first {st : LState τ} {ids : List τ} (h1 : Inv st) (h2 : Inv2 st) (h12 : Inv12 ids st)
    (hsd : st.ctl.shuttingdown = false) (hcn : st.ctl.sched.collection = none) : late st.ctl = false := by
  unfold late
  have hss : st.ctl.shouldstop.isSome = false := by
    cases hh : st.ctl.shouldstop.isSome with
    | false => rfl
    | true => rw [h1.1.stopShut hh] at hsd; cases hsd
  have hov : over st.ctl = false := by
    cases hh : over st.ctl with
    | false => rfl
    | true => rw [h2.1.overShut hh] at hsd; cases hsd
  have hcc : Load.collectionIsCompleted st.ctl.sched = false := by
    cases hh : Load.collectionIsCompleted st.ctl.sched with
    | false => rfl
    | true => exact absurd hcn (h12.1.comp hh)
  rw [hss, hov, hcc]; rfl

/-- a worker that finished normally had been told to shut down -/
theorem sent_of_finished {st : LState τ} (i13 : Inv13 st) {k x : Nat} {sf ss : Option String} {w : Wk τ}
    {rest : List (Ctl.Event τ)} (hw : st.wk[k]? = some w) (hp : w.posted = .workerfinished k x sf ss :: rest)
    (hx : x ≠ 2) (hsf : sf = none) (hss : ss = none) : (st.ctl.env.flags.get k).sent = true := by
  have w13 := i13 k w hw
  have hmem : Ctl.Event.workerfinished k x sf ss ∈ flight k w := by unfold flight; rw [hp]; simp
  obtain ⟨hph, hx', hsf', hss'⟩ := w13.wfFields k x sf ss hmem
  have ha := w13.doneAlive hph
  have hnext : w.w.next = some .shutdown := by
    rcases w13.exitWhy (Or.inr hph) with h' | h' | h' | h'
    · exact absurd (hx'.trans h') hx
    · rw [← hsf', hsf] at h'; cases h'
    · rw [← hss', hss] at h'; cases h'
    · exact h'
  exact w13.n1 ha (shutSeen_of_next hnext)

/-- **the controller step keeps `J`** -/
theorem ctl_j (idsOf : Nat → List τ) {ids : List τ} {st st' : LState τ} {k : Nat} {rq : Bool} (h1 : Inv st) (h2 : Inv2 st)
    (h12 : Inv12 ids st) (hfo : FO st []) (i13 : Inv13 st) (hj : J st.ctl)
    (h : step loadI idsOf st (.ctl k rq) = .ok st') : J st'.ctl := by
  simp only [Sys.step] at h
  obtain ⟨w, ev0, rest, c', hw, hp, hl, rfl⟩ := ctlStep_shape h
  have hk : k < st.wk.length := by
    rcases Nat.lt_or_ge k st.wk.length with h' | h'
    · exact h'
    · rw [List.getElem?_eq_none h'] at hw; cases hw
  have hlen := h1.1.len
  have wi := h1.wk hw
  have hown : Own k ev0 = true := wi.ownP ev0 (by rw [hp]; simp)
  have hkact : k ∈ st.ctl.active := by
    apply Classical.byContradiction
    intro hna
    have := wi.inactive hna
    rw [hp] at this; cases this
  obtain ⟨new, b1, f⟩ := ctl_facts h1.1 (by rw [← hlen]; exact hk) (fixRq_own rq hown) hl
  intro hsd' hp'
  simp only at hsd' hp' ⊢
  have hl' := hl
  unfold loopOnce at hl'
  split at hl'
  · cases hl'
  obtain ⟨c1, hh1, rfl⟩ := map_ok.1 hl'
  obtain ⟨heq, hss1, _⟩ := afterHandler_noshut hsd'
  rw [heq] at hsd' hp' ⊢
  cases hev : deathEvent (fixRq rq ev0) with
  | false =>
    have hni : ∀ n, fixRq rq ev0 ≠ .internalError n := by
      intro n hh
      have := fixRq_own rq hown
      rw [hh] at this
      simp [Own] at this
    obtain ⟨hsd0, hact, hfl, hor⟩ := handle_plain_j hh1 hev hni hsd' hp'
    rcases hor with hpn | hcn
    · obtain ⟨a, ha, hs⟩ := hj hsd0 hpn
      exact ⟨a, by rw [hact]; exact ha, by unfold Flags.get at hs ⊢; rw [hfl]; exact hs⟩
    · refine ⟨k, by rw [hact]; exact hkact, ?_⟩
      have := hfo (early_of_first h1 h2 h12 hsd0 hcn) k (by simp)
      unfold Flags.get at this ⊢
      rw [hfl]; exact this
  | true =>
    cases ev0 with
    | errordown n r =>
      have hnk : n = k := by simpa [Own] using hown
      subst hnk
      simp only [fixRq, handle] at hh1
      have hnid := errordown_clone loadI hh1 hsd'
      have hnid' : (afterHandler loadI c1).nextId = st.ctl.nextId + 1 := by rw [heq]; exact hnid
      refine ⟨st.ctl.nextId, ?_, ?_⟩
      · have := f.actFresh st.ctl.nextId (Nat.le_refl _) (by rw [hnid']; omega)
        rw [heq] at this; exact this
      · cases hs : (c1.env.flags.get st.ctl.nextId).sent with
        | false => rfl
        | true =>
          exfalso
          have hs' : ((afterHandler loadI c1).env.flags.get st.ctl.nextId).sent = true := by rw [heq]; exact hs
          have hdef := flags_default h1.1 st.ctl.nextId (Nat.le_refl _)
          rcases f.acc.sentNew st.ctl.nextId hs' with h' | h' | h'
          · rw [hdef] at h'; cases h'
          · have := f.newLt _ h' st.ctl.nextId .shutdown (by simp [cmdOf])
            omega
          · rw [hdef] at h'; cases h'
    | workerfinished n x sf ss =>
      have hnk : n = k := by simpa [Own] using hown
      subst hnk
      simp only [fixRq, handle] at hh1
      unfold workerfinished at hh1
      split at hh1
      · -- exit status 2: a stop reason is set
        exfalso
        have := (os_errordown loadI hh1).stop (by
          rw [(triggerShutdown_fields loadI _).1]; rfl)
        rw [hss1] at this; cases this
      · rename_i hx
        simp only at hh1
        split at hh1
        · exfalso
          have := (os_removeActive hh1).stop (by cases hcs : st.ctl.shouldstop <;> simp [hcs])
          rw [hss1] at this; cases this
        · rename_i hnone
          have hsf : sf = none := by cases sf <;> simp_all
          have hss : ss = none := by
            cases ss with
            | none => rfl
            | some r => subst hsf; simp at hnone
          have hsent := sent_of_finished i13 hw hp hx hsf hss
          -- the worker leaves; scheduler pool and flags are untouched
          have hfacts : c1.shuttingdown = st.ctl.shuttingdown ∧ c1.sched.pending = st.ctl.sched.pending ∧ c1.env = st.ctl.env ∧
              c1.active = st.ctl.active.erase n := by
            have hra : ∀ {a : Ctl.State (Load.State τ) τ}, removeActive a n = .ok c1 → c1.active = a.active.erase n := by
              intro a ha
              unfold removeActive at ha
              split at ha
              · simp only [Except.ok.injEq] at ha; subst ha; rfl
              · cases ha
            split at hh1
            · split at hh1
              · cases hh1
              · cases hh1
              · rename_i st1 hc
                obtain ⟨f1, _, f3, f4, _⟩ := callSched_fields loadI hc
                obtain ⟨g1, g2, g3, _⟩ := removeActive_fields hh1
                have hrm : Load.removeNode st.ctl.sched st.ctl.env n = .ok (st1.sched, st1.env, none) := by
                  simpa [loadI, Load.step] using f1
                refine ⟨by rw [g3, f3], ?_, by rw [g1, removeNode_none_env hrm], by rw [hra hh1, f4]⟩
                rw [g2, removeNode_none_sched hrm]
            · obtain ⟨g1, g2, g3, _⟩ := removeActive_fields hh1
              exact ⟨by rw [g3], by rw [g2], by rw [g1], by rw [hra hh1]⟩
          obtain ⟨e1, e2, e3, e4⟩ := hfacts
          obtain ⟨a, ha, hs⟩ := hj (by rw [← e1]; exact hsd') (by rw [← e2]; exact hp')
          have han : a ≠ n := by intro hh; subst hh; rw [hsent] at hs; cases hs
          exact ⟨a, by rw [e4]; exact (List.mem_erase_of_ne han).2 ha, by rw [e3]; exact hs⟩
    | workerready n => cases hev
    | internalError n => cases hev
    | collectionfinish n cc => cases hev
    | testreport n fl => cases hev
    | complete n i slow => cases hev
    | unscheduled n is => cases hev
    | collectreport n key fl => cases hev
    | other => cases hev

end Xdist.Sys
