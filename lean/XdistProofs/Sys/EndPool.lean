import XdistProofs.Sys.Ledger2
/-!
  Runs without worker loss and without a stop reason: once the shutdown is in force the pool is empty and stays empty — so
  when such a session is finished every index of the collection is in exactly one worker's account.
-/
namespace Xdist.Ctl
open Xdist

variable {σ τ : Type}

/-- a handler that loses no worker does not touch the shutdown flag -/
theorem handle_clean_shut (I : SchedI σ τ) {st st1 : State σ τ} {ev : Event τ} (h : handle I st ev = .ok st1)
    (hf : st1.failedNodes = st.failedNodes) : st1.shuttingdown = st.shuttingdown := by
  cases ev with
  | workerready n =>
    simp only [handle] at h
    split at h
    · simp only [Except.ok.injEq] at h; subst h; rfl
    · obtain ⟨a, ha, hb⟩ := map_ok.1 h
      subst hb
      exact (callSched_fields I (r := a.2) (show callSched I st (.addNode n) = .ok (a.1, a.2) by rw [ha])).2.2.1
  | workerfinished n x sf ss =>
    simp only [handle] at h
    unfold workerfinished at h
    split at h
    · exfalso
      have := errordown_failed I h
      rw [(keeps_triggerShutdown I _).failedNodes] at this
      simp only at this
      omega
    · simp only at h
      split at h
      · rw [(removeActive_fields h).2.2.1]; split <;> rfl
      · split at h
        · split at h
          · cases h
          · cases h
          · rename_i st' hc
            rw [(removeActive_fields h).2.2.1, (callSched_fields I hc).2.2.1]
        · rw [(removeActive_fields h).2.2.1]
  | internalError n =>
    simp only [handle] at h
    obtain ⟨a, ha, hb⟩ := map_ok.1 h
    subst hb
    exact (removeActive_fields ha).2.2.1
  | errordown n rq =>
    exfalso
    simp only [handle] at h
    have := errordown_failed I h
    omega
  | collectionfinish n ids =>
    simp only [handle, collectionfinish] at h
    split at h
    · simp only [Except.ok.injEq] at h; subst h; rfl
    · split at h
      · simp only [Except.ok.injEq] at h; subst h; rfl
      · obtain ⟨r, h1, h2⟩ := bind_ok.1 h
        have e1 := (callSched_fields I (r := r.2) (show callSched I st (.addNodeCollection n ids) = .ok (r.1, r.2) by rw [h1])).2.2.1
        split at h2
        · obtain ⟨a, ha, hb⟩ := map_ok.1 h2
          subst hb
          rw [(callSched_fields I (r := a.2) (show callSched I r.1 .schedule = .ok (a.1, a.2) by rw [ha])).2.2.1, e1]
        · simp only [Except.ok.injEq] at h2; subst h2; exact e1
  | testreport n failed =>
    simp only [handle, Except.ok.injEq] at h; subst h
    exact (handleFailures_fields _ _).2.2.1
  | complete n i slow =>
    simp only [handle] at h
    obtain ⟨a, ha, hb⟩ := map_ok.1 h
    subst hb
    exact (callSched_fields I (r := a.2) (show callSched I st _ = .ok (a.1, a.2) by rw [ha])).2.2.1
  | unscheduled n is =>
    simp only [handle] at h
    obtain ⟨a, ha, hb⟩ := map_ok.1 h
    subst hb
    exact (callSched_fields I (r := a.2) (show callSched I st _ = .ok (a.1, a.2) by rw [ha])).2.2.1
  | collectreport n key failed =>
    simp only [handle] at h
    split at h
    · simp only [Except.ok.injEq] at h; subst h; rfl
    · simp only [Except.ok.injEq] at h; subst h
      exact (handleFailures_fields _ _).2.2.1
  | other => simp only [handle, Except.ok.injEq] at h; subst h; rfl

/-- in an iteration that loses no worker and leaves no stop reason, the shutdown can only be triggered by `tests_finished` -/
theorem loopOnce_shut_cause (I : SchedI σ τ) {st st' : State σ τ} {ev : Event τ} (h : loopOnce I st ev = .ok st')
    (hf : st'.failedNodes = st.failedNodes) (hs0 : st.shuttingdown = false) (hs : st'.shuttingdown = true)
    (hst : st'.shouldstop = none) : I.testsFinished st'.sched = true := by
  unfold loopOnce at h
  split at h
  · cases h
  obtain ⟨st1, h1, rfl⟩ := map_ok.1 h
  have hf1 : st1.failedNodes = st.failedNodes := by rw [← (afterHandler_keeps I st1).failedNodes]; exact hf
  have hsd1 : st1.shuttingdown = false := by rw [handle_clean_shut I h1 hf1]; exact hs0
  rw [afterHandler_sched']
  cases htf : I.testsFinished st1.sched with
  | true => rfl
  | false =>
    exfalso
    have hss : (afterHandler I st1).shouldstop = st1.shouldstop := by
      unfold afterHandler
      simp only [htf, Bool.false_eq_true, ↓reduceIte]
      split
      · exact (triggerShutdown_fields I _).1
      · rfl
    rw [hss] at hst
    unfold afterHandler at hs
    simp only [htf, Bool.false_eq_true, ↓reduceIte, hst, Option.isSome_none] at hs
    rw [hsd1] at hs; cases hs

end Xdist.Ctl

namespace Xdist.Sys
open Xdist Xdist.Ctl Xdist.Load

variable {τ : Type} [DecidableEq τ]

/-- without worker loss and without a stop reason the shutdown means that the pool is empty -/
def Inv5 (st : LState τ) : Prop :=
  Clean st → st.ctl.shouldstop = none → st.ctl.shuttingdown = true → st.ctl.sched.pending = []

instance (st : LState τ) : Decidable (Inv5 st) := by unfold Inv5; infer_instance

theorem inv5_of_ctl {st st' : LState τ} (h : Inv5 st) (hc : st'.ctl = st.ctl)
    (hcl : Clean st' → Clean st) : Inv5 st' := by
  intro c1 c2 c3
  rw [hc] at c2 c3 ⊢
  exact h (hcl c1) c2 c3

theorem ctl_inv5 (idsOf : Nat → List τ) {st st' : LState τ} {k : Nat} {rq : Bool} (hinv1 : Inv st) (h3 : Inv3 st) (h5 : Inv5 st)
    (h : step Ctl.loadI idsOf st (.ctl k rq) = .ok st') : Inv5 st' := by
  -- the pre-state is clean whenever the post-state is (as in `ctl_inv3`)
  have h3' := ctl_inv3 idsOf hinv1 h3 h
  simp only [step] at h
  obtain ⟨w, ev0, rest, c', hw, hp, hl, rfl⟩ := ctlStep_shape h
  intro hcl hst hsd
  simp only at hst hsd ⊢
  have hk : k < st.wk.length := by
    rcases Nat.lt_or_ge k st.wk.length with h' | h'
    · exact h'
    · rw [List.getElem?_eq_none h'] at hw; cases hw
  have hlen := hinv1.1.len
  have os := os_loopOnce loadI hl
  have hfn : st.ctl.failedNodes = 0 := by
    have := os.fn
    have h0 : c'.failedNodes = 0 := hcl.1
    omega
  have hst0 : st.ctl.shouldstop = none := by
    cases hh : st.ctl.shouldstop with
    | none => rfl
    | some r => have := os.stop (by rw [hh]; rfl); rw [hst] at this; cases this
  -- all workers were alive before
  have hal : ∀ v ∈ st.wk, v.alive = true := by
    have hal1 : ∀ v ∈ spawn idsOf (st.wk.set k ({ w with posted := rest } : Wk τ)) c'.nextId, v.alive = true :=
      route_alive _ _ hcl.2
    have hal2 : ∀ v ∈ st.wk.set k ({ w with posted := rest } : Wk τ), v.alive = true := fun v hv =>
      hal1 v (by unfold spawn; exact List.mem_append_left _ hv)
    intro v hv
    obtain ⟨j, hj, rfl⟩ := List.getElem_of_mem hv
    by_cases hjk : j = k
    · subst hjk
      have : st.wk[j]? = some st.wk[j] := by simp [hj]
      rw [this] at hw; cases hw
      exact hal2 ({ st.wk[j] with posted := rest } : Wk τ) (List.mem_of_getElem? (getElem?_set_self' this))
    · refine hal2 _ ?_
      have : (st.wk.set k ({ w with posted := rest } : Wk τ))[j]? = some st.wk[j] := by
        rw [List.getElem?_set_ne (Ne.symm hjk)]; simp [hj]
      exact List.mem_of_getElem? this
  have hcl0 : Clean st := ⟨hfn, hal⟩
  have hnb : NoBroken st.ctl.env := by
    intro m
    by_cases hm : m < st.wk.length
    · have hwm : st.wk[m]? = some st.wk[m] := by simp [hm]
      exact (hinv1.wk hwm).notBroken (hal _ (List.getElem_mem hm))
    · rw [flags_default hinv1.1 m (by rw [← hlen]; omega)]
  obtain ⟨new, pit⟩ := pool_iteration hl hcl.1 hnb hinv1.1.nocol
  cases hsd0 : st.ctl.shuttingdown with
  | true =>
    have hp0 := h5 hcl0 hst0 hsd0
    rcases pit.led with ⟨_, hpool⟩ | ⟨_, hsf, _⟩
    · rw [hp0] at hpool
      cases hh : c'.sched.pending with
      | nil => rfl
      | cons a t =>
        rw [hh] at hpool
        have := congrArg List.length hpool
        simp at this
    · rw [hsd0] at hsf; cases hsf
  | false =>
    have := loopOnce_shut_cause loadI hl (by rw [hcl.1, hfn]) hsd0 hsd hst
    have htf : Load.testsFinished c'.sched = true := this
    unfold Load.testsFinished at htf
    simp only [Bool.and_eq_true] at htf
    exact List.isEmpty_iff.1 htf.1.2

theorem step_inv5 (idsOf : Nat → List τ) {st st' : LState τ} (a : Step) (h1 : Inv st) (h3 : Inv3 st) (h5 : Inv5 st)
    (h : step loadI idsOf st a = .ok st') : Inv5 st' := by
  cases a with
  | ctl k rq => exact ctl_inv5 idsOf h1 h3 h5 h
  | crash k b =>
    intro hcl
    exact absurd hcl (fun hc => by
      have := crash_inv3 idsOf h
      -- a crash leaves no clean state: reuse the argument of `crash_inv3`
      simp only [step] at h
      split at h
      · cases h
      rename_i s1 hcr
      simp only [Except.ok.injEq] at h
      subst h
      unfold crashStep at hcr
      split at hcr
      · cases hcr
      rename_i w hw
      split at hcr
      · cases hcr
      have hdead : ∀ (s2 : LState τ), s2.wk = (setWk st k ({ w with alive := false, inbox := [], outbox := w.outbox ++ [.endMarker] } : Wk τ)).wk →
          (∀ v ∈ s2.wk, v.alive = true) → False := by
        intro s2 hs2 hall
        have := hall ({ w with alive := false, inbox := [], outbox := w.outbox ++ [.endMarker] } : Wk τ)
          (by rw [hs2]; simp only [setWk]; exact List.mem_of_getElem? (getElem?_set_self' hw))
        cases this
      split at hcr
      · simp only [Option.some.injEq] at hcr; subst hcr; exact hdead _ rfl hc.2
      · simp only [Option.some.injEq] at hcr; subst hcr; exact hdead _ rfl hc.2)
  | main k p =>
    simp only [step] at h
    split at h
    · cases h
    · rename_i w hw
      split at h
      · cases h
      · rename_i w' hm
        simp only [Except.ok.injEq] at h
        subst h
        obtain ⟨_, a2⟩ := acct_main (h1.wk hw) hm
        refine inv5_of_ctl h5 rfl ?_
        intro hc
        refine ⟨hc.1, ?_⟩
        intro v hv
        obtain ⟨j, hj, rfl⟩ := List.getElem_of_mem hv
        by_cases hjk : j = k
        · subst hjk
          have : st.wk[j]? = some st.wk[j] := by simp [hj]
          rw [this] at hw; cases hw
          rw [← a2]
          exact hc.2 w' (by simp only [setWk]; exact List.mem_of_getElem? (getElem?_set_self' this))
        · refine hc.2 _ ?_
          simp only [setWk]
          have : (st.wk.set k w')[j]? = some st.wk[j] := by rw [List.getElem?_set_ne (Ne.symm hjk)]; simp [hj]
          exact List.mem_of_getElem? this
  | deliver k =>
    simp only [step] at h
    split at h
    · cases h
    · rename_i w hw
      split at h
      · cases h
      · rename_i w' hm
        simp only [Except.ok.injEq] at h
        subst h
        obtain ⟨_, a2⟩ := acct_deliver (h1.wk hw) hm
        refine inv5_of_ctl h5 rfl ?_
        intro hc
        refine ⟨hc.1, ?_⟩
        intro v hv
        obtain ⟨j, hj, rfl⟩ := List.getElem_of_mem hv
        by_cases hjk : j = k
        · subst hjk
          have : st.wk[j]? = some st.wk[j] := by simp [hj]
          rw [this] at hw; cases hw
          rw [← a2]
          exact hc.2 w' (by simp only [setWk]; exact List.mem_of_getElem? (getElem?_set_self' this))
        · refine hc.2 _ ?_
          simp only [setWk]
          have : (st.wk.set k w')[j]? = some st.wk[j] := by rw [List.getElem?_set_ne (Ne.symm hjk)]; simp [hj]
          exact List.mem_of_getElem? this
  | recv k =>
    simp only [step] at h
    split at h
    · cases h
    rename_i s1 hr
    simp only [Except.ok.injEq] at h
    subst h
    obtain ⟨w, m, rest, fl', w2, outs', hw, ho, rfl, hfl', hw2⟩ := recvStep_shape hr
    simp only at hw2
    have ha : w2.alive = w.alive := by
      rw [hw2]
      split
      · split <;> rfl
      · rfl
    intro hc hst hsd
    simp only at hst hsd ⊢
    refine h5 ⟨hc.1, ?_⟩ hst hsd
    intro v hv
    obtain ⟨j, hj, rfl⟩ := List.getElem_of_mem hv
    by_cases hjk : j = k
    · subst hjk
      have : st.wk[j]? = some st.wk[j] := by simp [hj]
      rw [this] at hw; cases hw
      rw [← ha]
      exact hc.2 w2 (List.mem_of_getElem? (getElem?_set_self' this))
    · refine hc.2 _ ?_
      have : (st.wk.set k w2)[j]? = some st.wk[j] := by rw [List.getElem?_set_ne (Ne.symm hjk)]; simp [hj]
      exact List.mem_of_getElem? this

theorem reach_inv35 (idsOf : Nat → List τ) {st0 st : LState τ} (h1 : Inv st0) (h3 : Inv3 st0) (h5 : Inv5 st0)
    (h : Reach idsOf st0 st) : Inv st ∧ Inv3 st ∧ Inv5 st := by
  induction h with
  | init => exact ⟨h1, h3, h5⟩
  | step a _ hs ih =>
    exact ⟨step_inv idsOf a ih.1 hs, step_inv3 idsOf a ih.1 ih.2.1 hs, step_inv5 idsOf a ih.1 ih.2.1 ih.2.2 hs⟩

/-- **At the end of a run without worker loss and without a stop reason the pool is empty**, so every index of the agreed
    collection is in exactly one worker's account (started, or — if a worker did not drain its queue — held by it). -/
theorem C01_sys_load_end_accounts (numnodes maxfail : Nat) (msc maxRestart : Option Int) (idsOf : Nat → List τ) {st : LState τ}
    (h : Reach idsOf (init loadI (Load.init numnodes msc) numnodes maxfail maxRestart idsOf) st) (hcl : Clean st)
    (hst : st.ctl.shouldstop = none) (hfin : Ctl.sessionFinished st.ctl = true)
    {col : List τ} (hcol : st.ctl.sched.collection = some col) :
    st.ctl.sched.pending = [] ∧ (st.wk.flatMap acct).Perm (List.range col.length) := by
  have hi5 : Inv5 (init loadI (Load.init (τ := τ) numnodes msc) numnodes maxfail maxRestart idsOf) := by
    intro _ _ hs; simp [init, Ctl.init] at hs
  obtain ⟨_, i3, i5⟩ := reach_inv35 idsOf (init_inv numnodes maxfail msc maxRestart idsOf)
    (init_inv3 numnodes maxfail msc maxRestart idsOf) hi5 h
  have hsd : st.ctl.shuttingdown = true := by
    unfold Ctl.sessionFinished at hfin
    simp only [Bool.and_eq_true] at hfin
    exact hfin.1
  have hp := i5 hcl hst hsd
  have hl := i3 hcl
  unfold Ledger at hl
  rw [hcol] at hl
  simp only at hl
  rw [hp, List.nil_append] at hl
  exact ⟨hp, hl⟩

end Xdist.Sys
