import XdistProofs.Sys.After6
import XdistProofs.Sched.LoadJ
/-!
  C02, whole system, `--dist load`: while tests are left in the pool and no shutdown is in force, some active worker has not been
  told to shut down (`J`) — controller level: what a handler that leaves the session in that situation has done.
-/
namespace Xdist.Sys
open Xdist Xdist.Ctl Xdist.Load Xdist.Contract

variable {τ : Type} [DecidableEq τ]

/-- some active worker has not been told to shut down -/
def Usable (c : Ctl.State (Load.State τ) τ) : Prop := ∃ a ∈ c.active, (c.env.flags.get a).sent = false

/-- tests left and no shutdown in force: somebody can still take them -/
def J (c : Ctl.State (Load.State τ) τ) : Prop := c.shuttingdown = false → c.sched.pending ≠ [] → Usable c

theorem afterHandler_noshut {c1 : Ctl.State (Load.State τ) τ} (h : (afterHandler loadI c1).shuttingdown = false) :
    afterHandler loadI c1 = c1 ∧ c1.shouldstop = none ∧ Load.testsFinished c1.sched = false := by
  unfold afterHandler at h ⊢
  simp only at h ⊢
  cases htf : loadI.testsFinished c1.sched with
  | true =>
    simp only [htf, ↓reduceIte] at h
    split at h
    · rw [triggerShutdown_shut] at h; cases h
    · rw [triggerShutdown_shut] at h; cases h
  | false =>
    simp only [htf, Bool.false_eq_true, ↓reduceIte] at h ⊢
    cases hs : c1.shouldstop with
    | none => simp only [Option.isSome_none, Bool.false_eq_true, ↓reduceIte]; exact ⟨trivial, trivial, htf⟩
    | some r =>
      simp only [hs, Option.isSome_some, ↓reduceIte] at h
      rw [triggerShutdown_shut] at h; cases h

/-- a handler of an event that is not a death notice, after which tests are left and no shutdown is in force: it told nobody to
    shut down, lost nobody, and either tests were left before or it was the first `schedule()` -/
theorem handle_plain_j {c c1 : Ctl.State (Load.State τ) τ} {ev : Ctl.Event τ} (h : handle loadI c ev = .ok c1)
    (hev : deathEvent ev = false) (hni : ∀ n, ev ≠ .internalError n) (hsd : c1.shuttingdown = false)
    (hp : c1.sched.pending ≠ []) :
    c.shuttingdown = false ∧ c1.active = c.active ∧ c1.env.flags = c.env.flags ∧
      (c.sched.pending ≠ [] ∨ c.sched.collection = none) := by
  have one : ∀ {a b : Ctl.State (Load.State τ) τ} {op : SOp τ} {r : Option τ}, callSched loadI a op = .ok (b, r) →
      b.shuttingdown = a.shuttingdown ∧ b.active = a.active ∧ (b.sched.pending ≠ [] → b.env.flags = a.env.flags) ∧
        ((∀ n, op ≠ .removeNode n) → (∀ t, op ≠ .markPending t) → (op = .schedule → a.sched.collection ≠ none) →
          a.sched.pending = [] → b.sched.pending = []) := by
    intro a b op r hc
    obtain ⟨f1, _, f3, f4, _⟩ := callSched_fields loadI hc
    exact ⟨f3, f4, Load.step_j f1, fun h1 h2 h3 => Load.step_pool_nil f1 ⟨h1, h2, h3⟩⟩
  cases ev with
  | workerready n =>
    simp only [handle] at h
    split at h
    · rename_i hs; simp only [Except.ok.injEq] at h; subst h; simp only at hsd; rw [hs] at hsd; cases hsd
    · obtain ⟨a, ha, hb⟩ := map_ok.1 h
      subst hb
      obtain ⟨o1, o2, o3, o4⟩ := one (show callSched loadI c (.addNode n) = .ok (a.1, a.2) by rw [ha])
      refine ⟨by rw [← o1]; exact hsd, o2, o3 hp, Or.inl ?_⟩
      intro hh
      exact hp (o4 (by intro m hm; cases hm) (by intro t ht; cases ht) (by intro hs; cases hs) hh)
  | workerfinished n x sf ss => cases hev
  | errordown n rq => cases hev
  | internalError n => exact absurd rfl (hni n)
  | collectionfinish n ids =>
    simp only [handle, collectionfinish] at h
    split at h
    · rename_i hs; simp only [Except.ok.injEq] at h; subst h; rw [hs] at hsd; cases hsd
    · rename_i hs
      have hs0 : c.shuttingdown = false := by cases hh : c.shuttingdown <;> simp_all
      split at h
      · simp only [Except.ok.injEq] at h; subst h; exact ⟨hs0, rfl, rfl, Or.inl hp⟩
      · obtain ⟨r, h1, h2⟩ := bind_ok.1 h
        obtain ⟨o1, o2, o3, o4⟩ := one (show callSched loadI c (.addNodeCollection n ids) = .ok (r.1, r.2) by rw [h1])
        have hcoll : r.1.sched.collection = c.sched.collection := by
          obtain ⟨f1, _⟩ := callSched_fields loadI (show callSched loadI c (.addNodeCollection n ids) = .ok (r.1, r.2) by rw [h1])
          simp only [loadI, Load.step] at f1
          obtain ⟨s1, hs1, hs2⟩ := map_ok.1 f1
          simp only [Prod.mk.injEq] at hs2
          rw [← hs2.1]
          exact (Load.addNodeCollection_view hs1).2.1
        have henv : r.1.env = c.env := by
          obtain ⟨f1, _⟩ := callSched_fields loadI (show callSched loadI c (.addNodeCollection n ids) = .ok (r.1, r.2) by rw [h1])
          simp only [loadI, Load.step] at f1
          obtain ⟨s1, hs1, hs2⟩ := map_ok.1 f1
          simp only [Prod.mk.injEq] at hs2
          exact hs2.2.1.symm
        have hpend : r.1.sched.pending = c.sched.pending := by
          obtain ⟨f1, _⟩ := callSched_fields loadI (show callSched loadI c (.addNodeCollection n ids) = .ok (r.1, r.2) by rw [h1])
          simp only [loadI, Load.step] at f1
          obtain ⟨s1, hs1, hs2⟩ := map_ok.1 f1
          simp only [Prod.mk.injEq] at hs2
          rw [← hs2.1]
          have := congrArg View.pool (Load.addNodeCollection_view hs1).1
          simpa [Load.view] using this
        split at h2
        · obtain ⟨a, ha, hb⟩ := map_ok.1 h2
          subst hb
          obtain ⟨p1, p2, p3, p4⟩ := one (show callSched loadI r.1 .schedule = .ok (a.1, a.2) by rw [ha])
          refine ⟨hs0, p2.trans o2, by rw [p3 hp, henv], ?_⟩
          cases hcn : c.sched.collection with
          | none => exact Or.inr rfl
          | some col =>
            left
            intro hh
            apply hp
            exact p4 (by intro m hm; cases hm) (by intro t ht; cases ht) (by intro _; rw [hcoll, hcn]; simp) (by rw [hpend]; exact hh)
        · simp only [Except.ok.injEq] at h2; subst h2
          exact ⟨hs0, o2, by rw [henv], Or.inl (by rw [← hpend]; exact hp)⟩
  | testreport n failed =>
    simp only [handle, Except.ok.injEq] at h; subst h
    obtain ⟨f1, f2, f3, _⟩ := handleFailures_fields ({ c with pubs := c.pubs ++ [.report n failed] } : Ctl.State (Load.State τ) τ) failed
    have hact : (handleFailures ({ c with pubs := c.pubs ++ [.report n failed] } : Ctl.State (Load.State τ) τ) failed).active = c.active := by
      unfold handleFailures; split
      · simp only; split <;> rfl
      · rfl
    exact ⟨by rw [f3] at hsd; exact hsd, hact, by rw [f1], Or.inl (by rw [f2] at hp; exact hp)⟩
  | complete n i slow =>
    simp only [handle] at h
    obtain ⟨a, ha, hb⟩ := map_ok.1 h
    subst hb
    obtain ⟨o1, o2, o3, o4⟩ := one (show callSched loadI c (.markComplete n i slow) = .ok (a.1, a.2) by rw [ha])
    refine ⟨by rw [← o1]; exact hsd, o2, o3 hp, Or.inl ?_⟩
    intro hh
    exact hp (o4 (by intro m hm; cases hm) (by intro t ht; cases ht) (by intro hs; cases hs) hh)
  | unscheduled n is =>
    simp only [handle] at h
    obtain ⟨a, ha, hb⟩ := map_ok.1 h
    have hc : callSched loadI c (.removePending n is) = .ok (a.1, a.2) := by rw [ha]
    have := (callSched_fields loadI hc).1
    simp [loadI, Load.step] at this
  | collectreport n key failed =>
    simp only [handle] at h
    split at h
    · simp only [Except.ok.injEq] at h; subst h; exact ⟨hsd, rfl, rfl, Or.inl hp⟩
    · simp only [Except.ok.injEq] at h; subst h
      obtain ⟨f1, f2, f3, _⟩ := handleFailures_fields
        ({ c with seenCollect := c.seenCollect ++ [key], pubs := c.pubs ++ [.collect key] } : Ctl.State (Load.State τ) τ) failed
      have hact : (handleFailures ({ c with seenCollect := c.seenCollect ++ [key], pubs := c.pubs ++ [.collect key] } :
          Ctl.State (Load.State τ) τ) failed).active = c.active := by
        unfold handleFailures; split
        · simp only; split <;> rfl
        · rfl
      exact ⟨by rw [f3] at hsd; exact hsd, hact, by rw [f1], Or.inl (by rw [f2] at hp; exact hp)⟩
  | other => simp only [handle, Except.ok.injEq] at h; subst h; exact ⟨hsd, rfl, rfl, Or.inl hp⟩

end Xdist.Sys
