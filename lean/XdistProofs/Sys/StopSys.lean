import XdistProofs.Sys.Budget
import XdistProofs.Props.C11
/-!
  C11 at the level of the whole system, **for every scheduler that is quiet once its nodes are shutting down** (all six are:
  `Sched.iface_quiet`): once a stop reason is set — `--maxfail` reached, a worker's fail-fast/stop request, a keyboard interrupt
  —, no thread of the system ever puts a dispatching command (`runtests`, `runtests_all`, `steal`) on a wire again, whatever
  happens afterwards: workers becoming ready, finishing, crashing and being replaced, receiver threads flipping flags in the
  middle of it.
-/
namespace Xdist.Sys
open Xdist Xdist.Ctl

set_option linter.unusedSectionVars false

variable {σ τ : Type} [DecidableEq τ]

/-- what holds of the controller in every reachable state -/
def StopInv (I : SchedI σ τ) (c : Ctl.State σ τ) : Prop :=
  ShutInv I c ∧ (c.shouldstop.isSome = true → c.shuttingdown = true)

theorem flags_shuttingDown_set {f : Flags} {k : Nat} {v : NodeFlags} (hv : (f.get k).down = true → v.down = true)
    (hs : (f.get k).sent = true → v.sent = true) {n : Nat} (h : f.shuttingDown n = true) :
    Flags.shuttingDown (AList.set f k v) n = true := by
  unfold Flags.shuttingDown at h ⊢
  rw [Contract.flags_get_set]
  by_cases hn : n = k
  · subst hn
    simp only [if_true]
    simp only [Bool.or_eq_true] at h ⊢
    rcases h with h | h
    · exact Or.inl (hv h)
    · exact Or.inr (hs h)
  · simp only [hn, if_false]; exact h

/-- a receiver thread only ever sets flags: it never takes a shutdown back -/
theorem receiver_mono {α : Type} (s : Receiver.State) (m : Receiver.Msg α) :
    (s.down = true → (Receiver.step s m).1.down = true) ∧ (s.shutdownSent = true → (Receiver.step s m).1.shutdownSent = true) := by
  obtain ⟨d, ss⟩ := s
  cases m <;> cases d <;> cases ss <;> simp [Receiver.step]

/-- **one step of any thread**: the invariant is kept, and with a stop reason set nothing is dispatched -/
theorem step_stop (I : SchedI σ τ) (hQ : Quiet I) (idsOf : Nat → List τ) {st st' : State σ τ} (a : Step) (hi : StopInv I st.ctl)
    (h : step I idsOf st a = .ok st') :
    StopInv I st'.ctl ∧ (st.ctl.shouldstop.isSome = true →
      dispatches st'.ctl.env = dispatches st.ctl.env ∧ st'.ctl.shouldstop.isSome = true) := by
  cases a with
  | main j p =>
    simp only [Sys.step] at h
    split at h
    · cases h
    · split at h
      · cases h
      · simp only [Except.ok.injEq] at h; subst h
        exact ⟨hi, fun hs => ⟨rfl, hs⟩⟩
  | deliver j =>
    simp only [Sys.step] at h
    split at h
    · cases h
    · split at h
      · cases h
      · simp only [Except.ok.injEq] at h; subst h
        exact ⟨hi, fun hs => ⟨rfl, hs⟩⟩
  | recv j =>
    simp only [Sys.step] at h
    split at h
    · cases h
    rename_i s1 hr
    simp only [Except.ok.injEq] at h; subst h
    unfold recvStep at hr
    split at hr
    · cases hr
    rename_i w hw
    split at hr
    · cases hr
    rename_i m rest ho
    simp only [Option.some.injEq] at hr
    subst hr
    obtain ⟨m1, m2⟩ := receiver_mono { down := (st.ctl.env.flags.get j).down, shutdownSent := (st.ctl.env.flags.get j).sent } (toRecv j m)
    refine ⟨⟨?_, hi.2⟩, fun hs => ⟨?_, hs⟩⟩
    · intro hsd n hn
      exact flags_shuttingDown_set (by exact m1) (by exact m2) (hi.1 hsd n hn)
    · simp only [dispatches]
      split
      · simp [List.filter_append, isDispatch]
      · rfl
  | crash j b =>
    simp only [Sys.step] at h
    split at h
    · cases h
    rename_i s1 hc
    simp only [Except.ok.injEq] at h; subst h
    unfold crashStep at hc
    split at hc
    · cases hc
    split at hc
    · cases hc
    split at hc
    · simp only [Option.some.injEq] at hc; subst hc
      refine ⟨⟨?_, hi.2⟩, fun hs => ⟨rfl, hs⟩⟩
      intro hsd n hn
      exact flags_shuttingDown_set (f := st.ctl.env.flags) (k := j) (v := { st.ctl.env.flags.get j with broken := true })
        (fun x => x) (fun x => x) (hi.1 hsd n hn)
    · simp only [Option.some.injEq] at hc; subst hc
      exact ⟨hi, fun hs => ⟨rfl, hs⟩⟩
  | ctl j rq =>
    simp only [Sys.step] at h
    unfold ctlStep at h
    split at h
    · cases h
    split at h
    · cases h
    split at h
    · cases h
    split at h
    · cases h
    simp only at h
    split at h
    · cases h
    rename_i c' hl
    simp only [Except.ok.injEq] at h; subst h
    have sp := loopOnce_spec I hQ hi.1 hl
    exact ⟨⟨sp.shutInv, sp.stopped⟩, fun hs => ⟨sp.quiet (hi.2 hs), sp.mono hs⟩⟩

theorem run_stop (I : SchedI σ τ) (hQ : Quiet I) (idsOf : Nat → List τ) :
    ∀ (steps : List Step) {st st' : State σ τ}, StopInv I st.ctl → run I idsOf st steps = .ok st' →
      StopInv I st'.ctl ∧ (st.ctl.shouldstop.isSome = true →
        dispatches st'.ctl.env = dispatches st.ctl.env ∧ st'.ctl.shouldstop.isSome = true) := by
  intro steps
  induction steps with
  | nil => intro st st' hi h; simp only [run, Except.ok.injEq] at h; subst h; exact ⟨hi, fun hs => ⟨rfl, hs⟩⟩
  | cons a rest ih =>
    intro st st' hi h
    simp only [run] at h
    split at h
    · cases h
    · rename_i st1 hs1
      obtain ⟨i1, k1⟩ := step_stop I hQ idsOf a hi hs1
      obtain ⟨i2, k2⟩ := ih i1 h
      refine ⟨i2, fun hs => ?_⟩
      obtain ⟨d1, s1⟩ := k1 hs
      obtain ⟨d2, s2⟩ := k2 s1
      exact ⟨d2.trans d1, s2⟩

/-- **After the stop decision nothing is dispatched — whole system, every mode** (C11).  Take any execution of the system from
    its initial state (`pre`), in any of the six `--dist` modes, up to a state in which a stop reason is set, and continue it in
    any way (`post`: any schedule of the threads, workers becoming ready, finishing, crashing, being replaced, receiver
    threads writing shutdown signals of their own): the dispatching commands ever written to the wires are the same at the end
    as at the moment of the decision, and the reason stays set. -/
theorem C11_sys_no_dispatch_after_stop (I : SchedI σ τ) (hQ : Quiet I) (s0 : σ) (numnodes maxfail : Nat) (mr : Option Int)
    (idsOf : Nat → List τ) (pre post : List Step) {st1 st2 : State σ τ}
    (h1 : run I idsOf (init I s0 numnodes maxfail mr idsOf) pre = .ok st1) (hstop : st1.ctl.shouldstop.isSome = true)
    (h2 : run I idsOf st1 post = .ok st2) :
    dispatches st2.ctl.env = dispatches st1.ctl.env ∧ st2.ctl.shouldstop.isSome = true ∧ st2.ctl.shuttingdown = true := by
  have h0 : StopInv I (init I s0 numnodes maxfail mr idsOf).ctl := by
    refine ⟨init_shutInv I s0 numnodes maxfail mr, ?_⟩
    intro hs; simp [init, Ctl.init] at hs
  obtain ⟨i1, _⟩ := run_stop I hQ idsOf pre h0 h1
  obtain ⟨i2, k2⟩ := run_stop I hQ idsOf post i1 h2
  obtain ⟨d, s⟩ := k2 hstop
  exact ⟨d, s, i2.2 s⟩

/-- … in particular for the scheduler of each of the six `--dist` modes -/
theorem C11_sys_all_modes (specs : AList Nat Nat) (s0 : Sched.Any) (numnodes maxfail : Nat) (mr : Option Int)
    (idsOf : Nat → List String) (pre post : List Step) {st1 st2 : State Sched.Any String}
    (h1 : run (Sched.iface specs) idsOf (init (Sched.iface specs) s0 numnodes maxfail mr idsOf) pre = .ok st1)
    (hstop : st1.ctl.shouldstop.isSome = true) (h2 : run (Sched.iface specs) idsOf st1 post = .ok st2) :
    dispatches st2.ctl.env = dispatches st1.ctl.env ∧ st2.ctl.shouldstop.isSome = true ∧ st2.ctl.shuttingdown = true :=
  C11_sys_no_dispatch_after_stop (Sched.iface specs) (Sched.iface_quiet specs) s0 numnodes maxfail mr idsOf pre post h1 hstop h2

end Xdist.Sys
