import XdistProofs.Sys.StopSys
import XdistProofs.Sched.OtherShutOnce
/-!
  C16, whole system: **at most one shutdown signal per worker is ever written to the wire** — by whichever thread: the controller's
  `triggershutdown`, the scheduler's `check_schedule`, the handler of a late `workerready`, or a receiver thread's error handler
  after an undecodable message.  Generic in the scheduler, given that its calls keep the discipline (`Disc`); proved for
  `LoadScheduling`.
-/
namespace Xdist.Sys
open Xdist Xdist.Ctl

set_option linter.unusedSectionVars false

variable {σ τ : Type} [DecidableEq τ]

/-- the scheduler's calls keep the shutdown discipline of the wire -/
def Disc (I : SchedI σ τ) : Prop :=
  ∀ {s : σ} {e : Env} {op : SOp τ} {s' : σ} {e' : Env} {r : Option τ}, I.step s e op = .ok (s', e', r) → ShutOnceE e → ShutOnceE e'

theorem steps_shutOnce {I : SchedI σ τ} (hD : Disc I) {s s' : σ} {e e' : Env} {as : List (Atom τ)} (h : Steps I s e as s' e')
    (hs : ShutOnceE e) : ShutOnceE e' := by
  induction h with
  | nil => exact hs
  | call hc _ ih => exact ih (hD hc hs)
  | shut n _ ih => exact ih (shutOnceE_shutdown hs n)

/-- the receiver thread writes a shutdown signal only if none was sent, and then sets the flag -/
theorem receiver_shut {α : Type} (s : Receiver.State) (m : Receiver.Msg α) :
    ((Receiver.step s m).2.2 = true → s.shutdownSent = false ∧ (Receiver.step s m).1.shutdownSent = true) ∧
    (s.shutdownSent = true → (Receiver.step s m).1.shutdownSent = true) := by
  obtain ⟨d, ss⟩ := s
  cases m <;> cases d <;> cases ss <;> simp [Receiver.step]

theorem step_shutOnce (I : SchedI σ τ) (hD : Disc I) (idsOf : Nat → List τ) {st st' : State σ τ} (a : Step)
    (hs : ShutOnceE st.ctl.env) (h : step I idsOf st a = .ok st') : ShutOnceE st'.ctl.env := by
  cases a with
  | main j p =>
    simp only [Sys.step] at h
    split at h
    · cases h
    · split at h
      · cases h
      · simp only [Except.ok.injEq] at h; subst h; exact hs
  | deliver j =>
    simp only [Sys.step] at h
    split at h
    · cases h
    · split at h
      · cases h
      · simp only [Except.ok.injEq] at h; subst h; exact hs
  | recv j =>
    simp only [Sys.step] at h
    split at h
    · cases h
    rename_i s1 hr
    simp only [Except.ok.injEq] at h; subst h
    unfold recvStep at hr
    split at hr
    · cases hr
    rename_i w hw
    split at hr
    · cases hr
    rename_i m rest ho
    simp only [Option.some.injEq] at hr
    subst hr
    obtain ⟨m1, m2⟩ := receiver_shut { down := (st.ctl.env.flags.get j).down, shutdownSent := (st.ctl.env.flags.get j).sent } (toRecv j m)
    simp only at m1 m2
    intro n
    obtain ⟨c1, c2⟩ := hs n
    simp only
    by_cases hnj : n = j
    · subst hnj
      split
      · rename_i hcond
        simp only [Bool.and_eq_true] at hcond
        obtain ⟨hsent0, hsent1⟩ := m1 hcond.1
        have hnot : SOut.shutdown n ∉ st.ctl.env.outs := fun hm => by rw [c2 hm] at hsent0; cases hsent0
        refine ⟨?_, ?_⟩
        · have : st.ctl.env.outs.count (SOut.shutdown n) = 0 := List.count_eq_zero.2 hnot
          simp [List.count_append, this]
        · intro _; rw [Contract.flags_get_set]; simp only [if_true]; exact hsent1
      · refine ⟨c1, ?_⟩
        intro hm
        rw [Contract.flags_get_set]; simp only [if_true]
        exact m2 (c2 hm)
    · split
      · refine ⟨?_, ?_⟩
        · have : [SOut.shutdown j].count (SOut.shutdown n) = 0 := by
            apply List.count_eq_zero.2
            intro hm; simp at hm; exact hnj hm
          simp only [List.count_append, this]; omega
        · intro hm
          rw [Contract.flags_get_set]; simp only [hnj, if_false]
          simp only [List.mem_append, List.mem_singleton, SOut.shutdown.injEq, hnj, or_false] at hm
          exact c2 hm
      · refine ⟨c1, ?_⟩
        intro hm
        rw [Contract.flags_get_set]; simp only [hnj, if_false]
        exact c2 hm
  | crash j b =>
    simp only [Sys.step] at h
    split at h
    · cases h
    rename_i s1 hc
    simp only [Except.ok.injEq] at h; subst h
    unfold crashStep at hc
    split at hc
    · cases hc
    split at hc
    · cases hc
    split at hc
    · simp only [Option.some.injEq] at hc; subst hc
      intro n
      obtain ⟨c1, c2⟩ := hs n
      refine ⟨c1, ?_⟩
      intro hm
      have := c2 hm
      show (Flags.get (AList.set st.ctl.env.flags j { st.ctl.env.flags.get j with broken := true }) n).sent = true
      rw [Contract.flags_get_set]
      by_cases hnj : n = j
      · subst hnj; simp only [if_true]; exact this
      · simp only [hnj, if_false]; exact this
    · simp only [Option.some.injEq] at hc; subst hc; exact hs
  | ctl j rq =>
    simp only [Sys.step] at h
    unfold ctlStep at h
    split at h
    · cases h
    split at h
    · cases h
    split at h
    · cases h
    split at h
    · cases h
    simp only at h
    split at h
    · cases h
    rename_i c' hl
    simp only [Except.ok.injEq] at h; subst h
    obtain ⟨as, hsteps, _⟩ := loopOnce_steps hl
    exact steps_shutOnce hD hsteps hs

theorem run_shutOnce (I : SchedI σ τ) (hD : Disc I) (idsOf : Nat → List τ) : ∀ (steps : List Step) {st st' : State σ τ},
    ShutOnceE st.ctl.env → run I idsOf st steps = .ok st' → ShutOnceE st'.ctl.env := by
  intro steps
  induction steps with
  | nil => intro st st' hs h; simp only [run, Except.ok.injEq] at h; subst h; exact hs
  | cons a rest ih =>
    intro st st' hs h
    simp only [run] at h
    split at h
    · cases h
    · rename_i st1 hs1
      exact ih (step_shutOnce I hD idsOf a hs hs1) h

theorem loadI_disc {τ : Type} [DecidableEq τ] : Disc (loadI (τ := τ)) := by
  intro s e op s' e' r h hs
  exact Load.step_shutOnce h hs

/-- **At most one shutdown signal per worker, whole system** (C16, `--dist load`).  After any execution of the composed system —
    any schedule of the threads, crashes, replacements, stop requests, undecodable messages answered by the receiver thread's own
    `shutdown()` —, every worker has been written at most one shutdown signal, and if one was written its `_shutdown_sent` flag
    is set (so nobody will write another). -/
theorem C16_sys_load_one_shutdown_signal {τ : Type} [DecidableEq τ] (numnodes maxfail : Nat) (msc mr : Option Int)
    (idsOf : Nat → List τ) (steps : List Step) {st : State (Load.State τ) τ}
    (h : run loadI idsOf (init loadI (Load.init numnodes msc) numnodes maxfail mr idsOf) steps = .ok st) (n : Nat) :
    st.ctl.env.outs.count (SOut.shutdown n) ≤ 1 ∧ (SOut.shutdown n ∈ st.ctl.env.outs → (st.ctl.env.flags.get n).sent = true) := by
  have h0 : ShutOnceE (init loadI (Load.init numnodes msc) numnodes maxfail mr idsOf).ctl.env := by
    intro k; simp [init, Ctl.init]
  exact run_shutOnce loadI loadI_disc idsOf steps h0 h n

theorem iface_disc (specs : AList Nat Nat) : Disc (Sched.iface specs) := by
  intro s e op s' e' r h hs
  exact Sched.any_step_shutOnce specs h hs

/-- **At most one shutdown signal per worker, whole system, all six modes** (C16).  After any execution of the composed system in
    any `--dist` mode — any schedule of the threads, crashes, replacements, stop requests, steals, undecodable messages answered by
    the receiver thread's own `shutdown()` —, every worker has been written at most one shutdown signal, and if one was written
    its `_shutdown_sent` flag is set. -/
theorem C16_sys_one_shutdown_signal_all_modes (specs : AList Nat Nat) (s0 : Sched.Any) (numnodes maxfail : Nat) (mr : Option Int)
    (idsOf : Nat → List String) (steps : List Step) {st : State Sched.Any String}
    (h : run (Sched.iface specs) idsOf (init (Sched.iface specs) s0 numnodes maxfail mr idsOf) steps = .ok st) (n : Nat) :
    st.ctl.env.outs.count (SOut.shutdown n) ≤ 1 ∧ (SOut.shutdown n ∈ st.ctl.env.outs → (st.ctl.env.flags.get n).sent = true) := by
  have h0 : ShutOnceE (init (Sched.iface specs) s0 numnodes maxfail mr idsOf).ctl.env := by
    intro k; simp [init, Ctl.init]
  exact run_shutOnce (Sched.iface specs) (iface_disc specs) idsOf steps h0 h n

end Xdist.Sys
