import XdistProofs.Sys.DeadCtl
/-!
  **C03, whole system, `--dist load`: the test reported as crashed is the one the dead worker was executing**
  (`C03_sys_load_crash_item`).
-/
namespace Xdist.Ctl
open Xdist

variable {σ τ : Type}

theorem triggerShutdown_pubs (I : SchedI σ τ) (st : State σ τ) : (triggerShutdown I st).pubs = st.pubs := by
  unfold triggerShutdown; split <;> rfl

theorem restartOrStop_pubs_mem (I : SchedI σ τ) (st : State σ τ) (n : Nat) {p : Pub τ} (h : p ∈ st.pubs) :
    p ∈ (restartOrStop I st n).pubs := by
  rcases restartOrStop_cases I st n with ⟨b, hh⟩ | hh
  · rw [hh, triggerShutdown_pubs]; exact h
  · rw [hh]; simp only [cloneNode]; exact List.mem_append_left _ h

theorem removeActive_pubs {st st' : State σ τ} {n : Nat} (h : removeActive st n = .ok st') : st'.pubs = st.pubs := by
  unfold removeActive at h
  split at h
  · simp only [Except.ok.injEq] at h; subst h; rfl
  · simp at h

theorem afterHandler_pubs (I : SchedI σ τ) (st : State σ τ) : (afterHandler I st).pubs = st.pubs := by
  unfold afterHandler
  simp only
  split <;> split <;> simp [triggerShutdown_pubs]

end Xdist.Ctl

namespace Xdist.Sys
open Xdist Xdist.Ctl Xdist.Load

variable {τ : Type} [DecidableEq τ]

/-- handling the death notice of a worker whose book starts with `i`: the crash report is about test `i` of the agreed
    collection -/
theorem errordown_crash_pub {c c' : Ctl.State (Load.State τ) τ} {n i : Nat} {rq : Bool} {tl : List Nat}
    (hl : loopOnce loadI c (.errordown n rq) = .ok c') (hb : AList.lookup c.sched.node2pending n = some (i :: tl)) :
    ∃ col t, c.sched.collection = some col ∧ col[i]? = some t ∧ Pub.crash n t rq ∈ c'.pubs := by
  unfold loopOnce at hl
  split at hl
  · cases hl
  obtain ⟨st1, h1, rfl⟩ := map_ok.1 hl
  rw [afterHandler_pubs]
  simp only [handle] at h1
  unfold errordown at h1
  simp only at h1
  -- what `remove_node` returns
  have hrem : ∀ (st' : Ctl.State (Load.State τ) τ) (r : Option τ),
      callSched loadI ({ c with pubs := c.pubs ++ [Pub.nodedown n true] } : Ctl.State (Load.State τ) τ) (.removeNode n) = .ok (st', r) →
      ∃ col t, c.sched.collection = some col ∧ col[i]? = some t ∧ r = some t := by
    intro st' r hc
    obtain ⟨hstep, _⟩ := callSched_step hc
    simp only [Load.step] at hstep
    unfold Load.removeNode at hstep
    obtain ⟨⟨book, n2p⟩, hp, h2⟩ := bind_ok.1 hstep
    obtain ⟨hlk, rfl⟩ := AList.pop_eq_ok.1 hp
    rw [hb] at hlk
    cases hlk
    simp only at h2
    cases hcol : c.sched.collection with
    | none => simp [hcol] at h2
    | some col =>
      simp only [hcol] at h2
      cases hci : col[i]? with
      | none => simp [hci] at h2
      | some item =>
        simp only [hci] at h2
        obtain ⟨⟨s3, e3⟩, _, h3⟩ := bind_ok.1 h2
        simp only [Except.ok.injEq, Prod.mk.injEq] at h3
        exact ⟨col, item, rfl, hci, h3.2.2.symm⟩
  split at h1
  · -- KeyError: impossible, the node has a book
    rename_i hke
    exfalso
    unfold callSched at hke
    have : Load.step c.sched c.env (.removeNode n) = .error .keyError := by
      cases hs : Load.step c.sched c.env (.removeNode n) with
      | error e =>
        have : (loadI.step c.sched c.env (.removeNode n)) = .error e := hs
        simp only [this, Except.map] at hke
        cases hke; rfl
      | ok v =>
        have : (loadI.step c.sched c.env (.removeNode n)) = .ok v := hs
        simp only [this, Except.map] at hke
        cases hke
    have := removeNode_keyError this
    rw [hb] at this; cases this
  · cases h1
  · rename_i st' hc
    obtain ⟨col, t, _, _, hr⟩ := hrem st' none hc
    cases hr
  · rename_i st' x hc
    obtain ⟨col, t, h2, h3, hr⟩ := hrem st' (some x) hc
    cases hr
    obtain ⟨st2, hci, hra⟩ := bind_ok.1 h1
    refine ⟨col, x, h2, h3, ?_⟩
    rw [removeActive_pubs hra]
    apply restartOrStop_pubs_mem
    unfold handleCrashItem at hci
    obtain ⟨st3, _, h5⟩ := map_ok.1 hci
    subst h5
    simp

theorem init_inv7 (numnodes maxfail : Nat) (msc maxRestart : Option Int) (idsOf : Nat → List τ) :
    Inv7 (init loadI (Load.init numnodes msc) numnodes maxfail maxRestart idsOf) [] := by
  intro j w hj
  simp only [init, List.getElem?_map] at hj
  cases hr : (List.range numnodes)[j]? with
  | none => rw [hr] at hj; cases hj
  | some x =>
    rw [hr] at hj
    simp only [Option.map_some, Option.some.injEq] at hj
    subst hj
    exact {
      endNone := (by intro _ _ m hm; simp at hm)
      endLast := (by intro ha; cases ha)
      deadNoFin := (by intro ha; cases ha)
      downWhy := (by intro _ _ hd; simp [init, Ctl.init, Flags.get, AList.lookup] at hd)
      deadDown := (by intro ha; cases ha)
      deadSync := (by intro ha; cases ha) }

theorem step_inv7 (idsOf : Nat → List τ) {st st' : LState τ} {W : List Nat} (a : Step) (h1 : Inv st) (h6 : Inv6 st) (h7 : Inv7 st W)
    (h : step loadI idsOf st a = .ok st') : Inv7 st' (ghostW st a W) := by
  cases a with
  | main k p => exact main_inv7 idsOf h7 h
  | deliver k => exact deliver_inv7 idsOf h1 h7 h
  | recv k => exact recv_inv7 idsOf h1 h6 h7 h
  | crash k b => exact crash_inv7 idsOf h1 h6 h7 h
  | ctl k rq => exact ctl_inv7 idsOf h1 h7 h

theorem reachG_inv (idsOf : Nat → List τ) {st0 st : LState τ} {W : List Nat} (h1 : Inv st0) (h6 : Inv6 st0) (h7 : Inv7 st0 [])
    (h : ReachG idsOf st0 st W) : Inv st ∧ Inv6 st ∧ Inv7 st W := by
  induction h with
  | init => exact ⟨h1, h6, h7⟩
  | step a _ hs ih =>
    exact ⟨step_inv idsOf a ih.1 hs, step_inv6 idsOf a ih.1 ih.2.1 hs, step_inv7 idsOf a ih.1 ih.2.1 ih.2.2 hs⟩

/-- **A worker crash costs the test that was running** (`--dist load`, whole system).  In every execution of the system —
    any interleaving, any number of earlier crashes, replacements, re-queues — when the controller handles the death notice
    of a worker that died inside test `i` (and had not been written off before because of an undecodable message), the crash
    report it publishes is about test `i` of the agreed collection, under the dead worker's id. -/
theorem C03_sys_load_crash_item (numnodes maxfail : Nat) (msc maxRestart : Option Int) (idsOf : Nat → List τ)
    {st st' : LState τ} {W : List Nat}
    (h : ReachG idsOf (init loadI (Load.init numnodes msc) numnodes maxfail maxRestart idsOf) st W)
    {k i : Nat} {w : Wk τ} {r rq : Bool} {rest : List (Ctl.Event τ)}
    (hw : st.wk[k]? = some w) (ha : w.alive = false) (hW : k ∉ W) (hp : w.posted = .errordown k r :: rest)
    (hpc : w.w.pc = .running) (hcur : w.w.cur = some i)
    (hstep : step loadI idsOf st (.ctl k rq) = .ok st') :
    ∃ col t, st.ctl.sched.collection = some col ∧ col[i]? = some t ∧ Pub.crash k t rq ∈ st'.ctl.pubs := by
  obtain ⟨i1, _, i7⟩ := reachG_inv idsOf (init_inv numnodes maxfail msc maxRestart idsOf)
    (init_inv6 numnodes maxfail msc maxRestart idsOf) (init_inv7 numnodes maxfail msc maxRestart idsOf) h
  have wi := i1.wk hw
  have wi7 := i7 k w hw
  have hact : k ∈ st.ctl.active := by
    apply Classical.byContradiction
    intro hna
    have := wi.inactive hna
    rw [hp] at this; cases this
  have hdown : (st.ctl.env.flags.get k).down = true := wi.noticeDown (by rw [hp]; simp [isNotice])
  have hout : w.outbox = [] := wi7.deadDown ha hW hdown
  have hrest : rest = [] := by
    cases hr : rest with
    | nil => rfl
    | cons e t =>
      exfalso
      have := wi.noticeLast
      rw [hp, hr, dropLast_cons_of_ne _ (by simp), List.any_cons] at this
      simp [isNotice] at this
  have hfl : flight k w = [.errordown k r] := by
    unfold flight; rw [hp, hrest, hout]; rfl
  have hd := wi7.deadSync ha hW hact
  unfold DeadD at hd
  obtain ⟨tl0, hheld⟩ : ∃ tl0, heldS w = i :: tl0 := by
    unfold heldS; simp only [hpc, hcur, ↓reduceIte, Option.toList_some, List.singleton_append, List.cons_append]
    exact ⟨_, rfl⟩
  -- the book starts with the test that was running
  obtain ⟨tl, hb⟩ : ∃ tl, AList.lookup st.ctl.sched.node2pending k = some (i :: tl) := by
    cases hb : AList.lookup st.ctl.sched.node2pending k with
    | none =>
      rw [hb] at hd
      simp only at hd
      rw [hheld] at hd
      cases hd.2
    | some book =>
      rw [hb] at hd
      simp only at hd
      obtain ⟨extra, he⟩ := hd
      rw [hfl, hheld] at he
      exact ⟨_, by rw [he]; rfl⟩
  simp only [step] at hstep
  obtain ⟨w0, ev0, rest0, c', hw0, hp0, hl, rfl⟩ := ctlStep_shape hstep
  rw [hw] at hw0
  cases hw0
  rw [hp] at hp0
  cases hp0
  exact errordown_crash_pub (show loopOnce loadI st.ctl (.errordown k rq) = .ok c' from hl) hb

end Xdist.Sys
