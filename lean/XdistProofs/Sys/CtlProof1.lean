import XdistProofs.Sys.CtlStep
import XdistProofs.Ctl.Active
import XdistProofs.Ctl.Atoms
import XdistProofs.Sched.LoadTgt
/-! Facts about sequences of atoms of the load scheduler (`Steps loadI`). -/
namespace Xdist.Sys
open Xdist Xdist.Ctl

variable {τ : Type} [DecidableEq τ]

theorem shutdown_acc' (b : Load.Books) (e : Env) (n : Nat) :
    ∃ new, Load.Acc b e new b (e.shutdown n) ∧ ∀ o ∈ new, o = SOut.shutdown n := by
  obtain ⟨new, acc⟩ := Load.shutdown_acc b e n
  refine ⟨new, acc, ?_⟩
  have ho := acc.outs
  unfold Env.shutdown at ho
  simp only at ho
  split at ho
  · have : new = [] := by simpa using ho
    subst this; intro o ho'; simp at ho'
  · split at ho
    · have : new = [] := by simpa using ho
      subst this; intro o ho'; simp at ho'
    · have : new = [SOut.shutdown n] := by
        have := List.append_cancel_left ho
        exact this.symm
      subst this; intro o ho'; simpa using ho'

/-- a sequence of shutdown signals: the books do not change, the wire gets shutdown commands for nodes of `K` -/
theorem steps_shuts {K : Nat → Prop} {s s' : Load.State τ} {e e' : Env} {as : List (Atom τ)}
    (h : Steps loadI s e as s' e') (hs : AllShut K as) (b : Load.Books) :
    s' = s ∧ ∃ new, Load.Acc b e new b e' ∧ ∀ o ∈ new, ∀ n, Contract.cmdNode o = some n → K n := by
  induction h with
  | nil s e => exact ⟨rfl, [], Load.Acc.refl _ _, by simp⟩
  | call hstep t ih =>
    obtain ⟨n, hn, _⟩ := hs _ List.mem_cons_self
    cases hn
  | shut n t ih =>
    obtain ⟨m, hm, hk⟩ := hs _ List.mem_cons_self
    cases hm
    obtain ⟨i1, new2, a2, t2⟩ := ih (fun a ha => hs a (by simp [ha]))
    obtain ⟨new1, a1, t1⟩ := shutdown_acc' b _ n
    refine ⟨i1, new1 ++ new2, a1.trans a2, ?_⟩
    intro o ho n hn
    rcases List.mem_append.1 ho with ho | ho
    · have := t1 o ho; subst this
      simp [Contract.cmdNode] at hn; subst hn; exact hk
    · exact t2 o ho n hn

/-- the bookkeeping facts and the two-tests condition along a sequence of atoms -/
theorem steps_GQ {G : Nat → Prop} {s s' : Load.State τ} {e e' : Env} {as : List (Atom τ)}
    (h : Steps loadI s e as s' e') (h0 : Load.P0 s) (hg : Load.GQ G s e)
    (hadd : ∀ n, Atom.call (SOp.addNode n) ∈ as → ¬ G n) : Load.P0 s' ∧ Load.GQ G s' e' := by
  induction h with
  | nil s e => exact ⟨h0, hg⟩
  | call hstep t ih =>
    rename_i s0 e0 op s1 e1 r as0 s2 e2
    obtain ⟨p1, g1⟩ := Load.step_GQ h0 hg (fun n hn => hadd n (by rw [hn]; simp)) hstep
    exact ih p1 g1 (fun n hn => hadd n (by simp [hn]))
  | shut n t ih =>
    exact ih h0 (Load.shutdown_GQ n hg) (fun m hm => hadd m (by simp [hm]))

theorem allShut_no_call {K : Nat → Prop} {t : List (Atom τ)} (h : AllShut K t) (op : SOp τ) : Atom.call op ∉ t := by
  intro hm
  obtain ⟨n, hn, _⟩ := h _ hm
  cases hn

end Xdist.Sys
