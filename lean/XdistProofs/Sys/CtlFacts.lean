import XdistProofs.Sys.Route
import XdistProofs.Props.C02Ctl
/-!
  What one iteration of the controller loop does, as far as the system invariant is concerned (`CtlFacts`), and the
  preservation of the per-worker invariant of a worker whose event is *not* the one handled.
-/
namespace Xdist.Sys
open Xdist

variable {τ : Type} [DecidableEq τ]

/-- the worker an event writes off -/
def downOf : Ctl.Event τ → Option Nat
  | .errordown n _ => some n
  | .workerfinished n _ _ _ => some n
  | .internalError n => some n
  | _ => none

/-- the update of the books that precedes the sends of the iteration -/
def Prep (ev : Ctl.Event τ) (b b1 : Load.Books) : Prop :=
  match ev with
  | .workerready n => b1 = b ∨ (AList.lookup b n = none ∧ b1 = AList.set b n [])
  | .complete n i _ => ∃ book, AList.lookup b n = some book ∧ i ∈ book ∧ b1 = AList.set b n (book.erase i)
  | .errordown n _ => b1 = b ∨ (∃ book, AList.lookup b n = some book ∧ b1 = AList.erase b n)
  | .workerfinished n _ _ _ => b1 = b ∨ (∃ book, AList.lookup b n = some book ∧ b1 = AList.erase b n)
  | _ => b1 = b

/-- the worker an event is about -/
def subjectOf : Ctl.Event τ → Option Nat
  | .workerready n => some n
  | .workerfinished n _ _ _ => some n
  | .internalError n => some n
  | .errordown n _ => some n
  | .collectionfinish n _ => some n
  | .testreport n _ => some n
  | .complete n _ _ => some n
  | .unscheduled n _ => some n
  | .collectreport n _ _ => some n
  | .other => none

theorem prep_other {ev : Ctl.Event τ} {b b1 : Load.Books} (h : Prep ev b b1) {j : Nat} (hj : subjectOf ev ≠ some j) :
    AList.lookup b1 j = AList.lookup b j := by
  cases ev with
  | workerready n =>
    rcases h with rfl | ⟨_, rfl⟩
    · rfl
    · exact AList.lookup_set_other _ _ _ _ (fun hh => hj (by rw [hh]; rfl))
  | complete n i s =>
    obtain ⟨book, _, _, rfl⟩ := h
    exact AList.lookup_set_other _ _ _ _ (fun hh => hj (by rw [hh]; rfl))
  | errordown n rq =>
    rcases h with rfl | ⟨book, _, rfl⟩
    · rfl
    · exact AList.lookup_erase_other _ _ _ (fun hh => hj (by rw [hh]; rfl))
  | workerfinished n x sf ss =>
    rcases h with rfl | ⟨book, _, rfl⟩
    · rfl
    · exact AList.lookup_erase_other _ _ _ (fun hh => hj (by rw [hh]; rfl))
  | internalError n => cases h; rfl
  | collectionfinish n ids => cases h; rfl
  | testreport n f => cases h; rfl
  | unscheduled n is => cases h; rfl
  | collectreport n k f => cases h; rfl
  | other => cases h; rfl

/-- **what one controller iteration does** (for an event `ev` of the load mode), as needed by the system invariant -/
structure CtlFacts (c : Ctl.State (Load.State τ) τ) (ev : Ctl.Event τ) (c' : Ctl.State (Load.State τ) τ)
    (new : List SOut) (b1 : Load.Books) : Prop where
  outs : c'.env.outs = c.env.outs ++ new
  prep : Prep ev c.sched.node2pending b1
  acc : Load.Acc b1 c.env new c'.sched.node2pending c'.env
  newLt : ∀ o ∈ new, ∀ n cmd, cmdOf o = some (n, cmd) → n < c.nextId
  p0 : Load.P0 c'.sched
  gq : ∀ G : Nat → Prop, Load.GQ G c.sched c.env → (∀ n, ev = .workerready n → ¬ G n) → Load.GQ G c'.sched c'.env
  collQ : ∀ n ids, ev = .collectionfinish n ids → Load.Qn c'.sched c'.env n
  readyKey : ∀ n, ev = .workerready n →
    (c.shuttingdown = true → c'.env.flags.shuttingDown n = true) ∧
    (c.shuttingdown = false → n ∈ AList.keys c'.sched.node2pending)
  nextLe : c.nextId ≤ c'.nextId
  actNew : ∀ a, a ∈ c'.active → a ∈ c.active ∨ (c.nextId ≤ a ∧ a < c'.nextId)
  actKeep : ∀ a ∈ c.active, a ∈ c'.active ∨ downOf ev = some a
  actFresh : ∀ a, c.nextId ≤ a → a < c'.nextId → a ∈ c'.active
  actNodup : c'.active.Nodup
  actGone : ∀ a, downOf ev = some a → a ∉ c'.active
  downKeys : ∀ a, downOf ev = some a → a ∈ AList.keys c'.sched.node2pending → c'.shouldstop.isSome = true
  stopMono : c.shouldstop.isSome = true → c'.shouldstop.isSome = true
  shutInv : c'.shuttingdown = true → ∀ n ∈ AList.keys c'.sched.node2pending, c'.env.flags.shuttingDown n = true
  stopShut : c'.shouldstop.isSome = true → c'.shuttingdown = true
  tf : Load.testsFinished c'.sched = true → ∀ n ∈ AList.keys c'.sched.node2pending, c'.env.flags.shuttingDown n = true

theorem CtlFacts.flagMono {c c' : Ctl.State (Load.State τ) τ} {ev : Ctl.Event τ} {new : List SOut} {b1 : Load.Books}
    (f : CtlFacts c ev c' new b1) (n : Nat) (h : c.env.flags.shuttingDown n = true) : c'.env.flags.shuttingDown n = true := by
  unfold Flags.shuttingDown at h ⊢
  rw [(f.acc.other n).1]
  simp only [Bool.or_eq_true] at h ⊢
  rcases h with h | h
  · exact Or.inl h
  · exact Or.inr (f.acc.sentMono n h)

/-- **a worker whose event is not the one being handled**: its books grow by exactly what is put into its inbox -/
theorem ctl_wk_other {c c' : Ctl.State (Load.State τ) τ} {ev : Ctl.Event τ} {new : List SOut} {b1 : Load.Books}
    (f : CtlFacts c ev c' new b1) {j : Nat} {w : Wk τ} (h : WkInv c j w) (hj : subjectOf ev ≠ some j) (hlt : j < c.nextId) :
    WkInv c' j (routed j new w) := by
  have hdn : downOf ev ≠ some j := by
    intro hh; apply hj
    cases ev <;> simp [downOf] at hh <;> simp [subjectOf, hh]
  have hd : (c'.env.flags.get j).down = (c.env.flags.get j).down := (f.acc.other j).1
  have hbr : (c'.env.flags.get j).broken = (c.env.flags.get j).broken := (f.acc.other j).2
  have hact : j ∈ c'.active → j ∈ c.active := by
    intro hh
    rcases f.actNew j hh with h' | ⟨h', _⟩
    · exact h'
    · omega
  have hact' : j ∈ c.active → j ∈ c'.active := by
    intro hh
    rcases f.actKeep j hh with h' | h'
    · exact h'
    · exact absurd h' hdn
  have hlk : AList.lookup b1 j = AList.lookup c.sched.node2pending j := prep_other f.prep hj
  -- the routed worker differs from `w` in its inbox only
  have hfl : flight j (routed j new w) = flight j w := by unfold routed; split <;> rfl
  have hph : (routed j new w).phase = w.phase := by unfold routed; split <;> rfl
  have hcp : collPending j (routed j new w) = collPending j w := by unfold collPending; rw [hfl, hph]
  have hal : (routed j new w).alive = w.alive := by unfold routed; split <;> rfl
  have hww : (routed j new w).w = w.w := by unfold routed; split <;> rfl
  have hpo : (routed j new w).posted = w.posted := by unfold routed; split <;> rfl
  have hou : (routed j new w).outbox = w.outbox := by unfold routed; split <;> rfl
  have hcb : (routed j new w).cbSet = w.cbSet := by unfold routed; split <;> rfl
  have hsu : (routed j new w).sub = w.sub := by unfold routed; split <;> rfl
  have hsd : c'.env.flags.shuttingDown j = false → c.env.flags.shuttingDown j = false := by
    intro hh
    cases hx : c.env.flags.shuttingDown j with
    | false => rfl
    | true => rw [f.flagMono j hx] at hh; cases hh
  refine ⟨?_, ?_, ?_, ?_, ?_, ?_, fun _ => trivial, ?_, ?_, ?_, ?_, ?_, ?_, ?_, ?_, ?_, ?_, ?_, ?_, ?_, ?_, ?_, ?_, ?_, ?_, ?_⟩
  · rw [hph, hcb, hww]; exact h.loopCb
  · rw [hww, hsu]; exact h.running
  · rw [hww]; exact h.have1
  · rw [hww]; exact h.init0
  · rw [hph, hww, hcb]; exact h.early
  · rw [hal, hph, hou, hpo]; exact h.boot0
  · -- what arrives in the inbox are run and shutdown commands
    intro x hx
    unfold routed at hx
    split at hx
    · rcases List.mem_append.1 hx with hx | hx
      · exact h.inboxK x hx
      · exact deliverTo_kinds j new f.acc.kinds x hx
    · exact h.inboxK x hx
  · rw [hpo]; exact h.ownP
  · rw [hou]; exact h.ownO
  · rw [hou]; exact h.evPlain
  · rw [hal, hbr]; exact h.notBroken
  · intro hk hdd
    rw [hal, hph, hou]
    exact h.notice1 (hact hk) (by rw [← hd]; exact hdd)
  · intro hk hdd
    rw [hpo]
    exact h.notice2 (hact hk) (by rw [← hd]; exact hdd)
  · rw [hpo, hd]; exact h.noticeDown
  · intro hk
    rw [hpo]
    exact h.inactive (fun hh => hk (hact' hh))
  · intro hk
    rw [hd]
    exact h.inactiveDown (fun hh => hk (hact' hh))
  · rw [hpo]; exact h.noticeLast
  · rw [hph, hfl]; exact h.bootNoReady
  · -- a shutdown signal sent in this iteration is in the inbox now
    intro halive hs
    rw [hal] at halive
    rw [shutSeen_def, hww]
    rcases f.acc.sentNew j hs with hs' | hs' | hs'
    · have := h.shut halive hs'
      rw [shutSeen_def] at this
      simp only [Bool.or_eq_true] at this ⊢
      rcases this with (h1 | h1) | h1
      · left; left
        unfold routed
        simp only [halive, ↓reduceIte]
        simp only [List.contains_eq_mem, decide_eq_true_eq] at h1 ⊢
        exact List.mem_append_left _ h1
      · exact Or.inl (Or.inr h1)
      · exact Or.inr h1
    · simp only [Bool.or_eq_true]
      left; left
      unfold routed
      simp only [halive, ↓reduceIte, List.contains_eq_mem, decide_eq_true_eq]
      exact List.mem_append_right _ (shutdown_mem_deliverTo j new hs')
    · rw [h.notBroken halive] at hs'; cases hs'
  · intro hk hs hp hr
    rw [hph] at hp
    rw [hfl] at hr
    have hkey := h.ready (hact hk) (hsd hs) hp hr
    have : (AList.lookup c.sched.node2pending j).isSome := (AList.lookup_isSome_iff_mem_keys _ _).2 hkey
    rw [f.acc.keys]
    exact (AList.lookup_isSome_iff_mem_keys _ _).1 (by rw [hlk]; exact this)
  · rw [hd, hfl]; exact h.readyTail
  · rw [hd, hfl, hcp]; exact h.readyColl
  · rw [hcp]
    rcases h.qn with hq | hq
    · exact Or.inl hq
    · right
      rw [qnD_iff] at hq ⊢
      exact f.gq (fun m => m = j) (fun m hm => by rw [hm]; exact hq)
        (fun n hn hnj => hj (by rw [hn, hnj]; rfl)) j rfl
  · intro hk
    have hk1 : j ∈ AList.keys c.sched.node2pending := by
      rw [f.acc.keys] at hk
      have := (AList.lookup_isSome_iff_mem_keys _ _).2 hk
      rw [hlk] at this
      exact (AList.lookup_isSome_iff_mem_keys _ _).1 this
    rcases h.keysActive hk1 with hh | hh
    · exact Or.inl (hact' hh)
    · exact Or.inr (f.stopMono hh)
  · -- books and wire: the book grows by what was put on the wire for `j`, and that is what reaches its inbox
    intro halive hdd
    rw [hal] at halive
    rw [hd] at hdd
    have hs := h.sync halive hdd
    have hnb := h.notBroken halive
    have hruns : inboxRuns (routed j new w) = inboxRuns w ++ Load.sentTo new j := by
      have e := runs_deliverTo j new f.acc.kinds
      unfold routed inboxRuns
      simp only [halive, ↓reduceIte, List.flatMap_append]
      exact congrArg _ e
    have hheld : heldS (routed j new w) = heldS w := by unfold heldS; rw [hww]
    unfold SyncD at hs ⊢
    cases hb : AList.lookup c.sched.node2pending j with
    | none =>
      rw [hb] at hs
      simp only at hs
      have hb1 : AList.lookup b1 j = none := by rw [hlk, hb]
      have hb' : AList.lookup c'.sched.node2pending j = none := by
        cases hx : AList.lookup c'.sched.node2pending j with
        | none => rfl
        | some bk =>
          have : j ∈ AList.keys b1 := by
            rw [← f.acc.keys]; exact (AList.lookup_isSome_iff_mem_keys _ _).1 (by rw [hx]; rfl)
          have := (AList.lookup_isSome_iff_mem_keys _ _).2 this
          rw [hb1] at this; cases this
      rw [hb']
      simp only
      intro hx
      rw [hph, hfl] at hx
      obtain ⟨x1, x2, x3⟩ := hs hx
      have hsent : Load.sentTo new j = [] := by
        apply Classical.byContradiction
        intro hne
        have := (AList.lookup_isSome_iff_mem_keys _ _).2 (f.acc.tokeys j hne)
        rw [hb1] at this; cases this
      exact ⟨by rw [hfl]; exact x1, by rw [hheld]; exact x2, by rw [hruns, x3, hsent]; rfl⟩
    | some book =>
      rw [hb] at hs
      simp only at hs
      obtain ⟨extra, he1, he2⟩ := f.acc.books j book (by rw [hlk, hb])
      rw [he1]
      simp only
      rw [he2 hnb, hs, hfl, hheld, hruns]
      simp [List.append_assoc]

end Xdist.Sys
