import XdistProofs.Sys.FinishedShut
import XdistProofs.Props.C11
/-!
  C11, whole system, every scheduler: **a stop reason appears only for a reason the controller is meant to act upon** — the step
  that sets it is the controller handling a failed test/collection report that reaches `--maxfail`, or the `workerfinished` of a
  worker that ended with exit status 2 or with its own fail-fast/stop request.  No other thread, and no other event, ever
  interrupts a run.
-/
namespace Xdist.Sys
open Xdist Xdist.Ctl

set_option linter.unusedSectionVars false

variable {σ τ : Type} [DecidableEq τ]

/-- **Why a run is interrupted** (C11; whole system; every scheduler).  If a step of the system takes the controller from "no stop
    reason" to "stop reason set", that step is the controller handling the oldest event `ev` of some worker `j`, and `ev` is
    a `workerfinished` with exit status 2 / `shouldfail` / `shouldstop`, or a failed test or collection report with `--maxfail`
    set and reached. -/
theorem C11_sys_only_reasons_to_stop (I : SchedI σ τ) (idsOf : Nat → List τ) {st st' : State σ τ} (a : Step)
    (h : step I idsOf st a = .ok st') (h0 : st.ctl.shouldstop = none) (h1 : st'.ctl.shouldstop.isSome = true) :
    ∃ j rq w ev rest, a = .ctl j rq ∧ st.wk[j]? = some w ∧ w.posted = ev :: rest ∧
      ((∃ n x sf ss, ev = .workerfinished n x sf ss ∧ (x = 2 ∨ sf.isSome = true ∨ ss.isSome = true)) ∨
       ((∃ n, ev = .testreport n true) ∨ (∃ n key, ev = .collectreport n key true)) ∧
         st.ctl.maxfail ≠ 0 ∧ st.ctl.countfailures + 1 ≥ st.ctl.maxfail) := by
  cases a with
  | main j p =>
    exfalso
    simp only [Sys.step] at h
    split at h
    · cases h
    · split at h
      · cases h
      · simp only [Except.ok.injEq] at h; subst h
        simp only [setWk] at h1; rw [h0] at h1; cases h1
  | deliver j =>
    exfalso
    simp only [Sys.step] at h
    split at h
    · cases h
    · split at h
      · cases h
      · simp only [Except.ok.injEq] at h; subst h
        simp only [setWk] at h1; rw [h0] at h1; cases h1
  | recv j =>
    exfalso
    simp only [Sys.step] at h
    split at h
    · cases h
    rename_i s1 hr
    simp only [Except.ok.injEq] at h; subst h
    obtain ⟨w, m, rest, fl', w2, outs', _, _, rfl, _⟩ := recvStep_shape' hr
    simp only at h1; rw [h0] at h1; cases h1
  | crash j b =>
    exfalso
    simp only [Sys.step] at h
    split at h
    · cases h
    rename_i s1 hc
    simp only [Except.ok.injEq] at h; subst h
    unfold crashStep at hc
    split at hc
    · cases hc
    split at hc
    · cases hc
    split at hc
    · simp only [Option.some.injEq] at hc; subst hc
      simp only [setWk] at h1; rw [h0] at h1; cases h1
    · simp only [Option.some.injEq] at hc; subst hc
      simp only [setWk] at h1; rw [h0] at h1; cases h1
  | ctl j rq =>
    simp only [Sys.step] at h
    obtain ⟨w, ev, rest, c', hw, hp, hl, rfl⟩ := ctlStep_shape' h
    refine ⟨j, rq, w, ev, rest, rfl, hw, hp, ?_⟩
    unfold loopOnce at hl
    split at hl
    · cases hl
    obtain ⟨c1, hh1, rfl⟩ := map_ok.1 hl
    simp only at h1
    rw [afterHandler_shouldstop] at h1
    have := Props.C11.C11_only_if I hh1 h0 h1
    cases ev <;> first | exact this | (simp [fixRq] at this)

end Xdist.Sys
