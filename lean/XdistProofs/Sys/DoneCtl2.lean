import XdistProofs.Sys.DoneCtl
/-! The controller step keeps the fourth layer (`Inv6`): the per-worker part. -/
namespace Xdist.Sys
open Xdist Xdist.Ctl Xdist.Load

variable {τ : Type} [DecidableEq τ]

theorem routed_fields (j : Nat) (new : List SOut) (w : Wk τ) :
    (routed j new w).alive = w.alive ∧ (routed j new w).phase = w.phase ∧ (routed j new w).outbox = w.outbox ∧
    (routed j new w).posted = w.posted ∧ (routed j new w).w = w.w := by
  unfold routed; split <;> exact ⟨rfl, rfl, rfl, rfl, rfl⟩

theorem routed_runs {c c' : Ctl.State (Load.State τ) τ} {ev : Ctl.Event τ} {new : List SOut} {b1 : Load.Books}
    (f : CtlFacts c ev c' new b1) (j : Nat) (w : Wk τ) (ha : w.alive = true) :
    inboxRuns (routed j new w) = inboxRuns w ++ Load.sentTo new j := by
  have e := runs_deliverTo j new f.acc.kinds
  unfold routed inboxRuns
  simp only [ha, ↓reduceIte, List.flatMap_append]
  exact congrArg _ e

theorem sentTo_nil_of_not_key {c c' : Ctl.State (Load.State τ) τ} {ev : Ctl.Event τ} {new : List SOut} {b1 : Load.Books}
    (f : CtlFacts c ev c' new b1) {j : Nat} (h : j ∉ AList.keys c'.sched.node2pending) : Load.sentTo new j = [] := by
  apply Classical.byContradiction
  intro hne
  have := f.acc.tokeys j hne
  rw [← f.acc.keys] at this
  exact h this

/-- a worker whose event is not the one handled -/
theorem ctl_wk6_other {c c' : Ctl.State (Load.State τ) τ} {ev : Ctl.Event τ} {new : List SOut} {b1 : Load.Books}
    (f : CtlFacts c ev c' new b1) (os : OS c c') {j : Nat} {w : Wk τ} (h1 : WkInv c j w) (h : WkInv6 c j w)
    (hj : subjectOf ev ≠ some j) (hlt : j < c.nextId) : WkInv6 c' j (routed j new w) := by
  obtain ⟨r1, r2, r3, r4, r5⟩ := routed_fields j new w
  have hdn : downOf ev ≠ some j := by
    intro hh; apply hj
    cases ev <;> simp [downOf] at hh <;> simp [subjectOf, hh]
  have hlk : AList.lookup b1 j = AList.lookup c.sched.node2pending j := prep_other f.prep hj
  have hkeys : j ∈ AList.keys c'.sched.node2pending ↔ j ∈ AList.keys c.sched.node2pending := by
    rw [f.acc.keys, ← AList.lookup_isSome_iff_mem_keys, ← AList.lookup_isSome_iff_mem_keys, hlk]
  have hact : j ∈ c'.active → j ∈ c.active := by
    intro hh
    rcases f.actNew j hh with h' | ⟨h', _⟩
    · exact h'
    · omega
  have hact' : j ∈ c.active → j ∈ c'.active := by
    intro hh
    rcases f.actKeep j hh with h' | h'
    · exact h'
    · exact absurd h' hdn
  have hheld : heldS (routed j new w) = heldS w := by unfold heldS; rw [r5]
  have hfl : flight j (routed j new w) = flight j w := by unfold flight; rw [r3, r4]
  refine ⟨by rw [r1, r2, r3]; exact h.finNoneO, by rw [r1, r2, r4]; exact h.finNoneP, by rw [r1, r3]; exact h.finLast, ?_, ?_, ?_⟩
  · intro ha hk hnk
    rw [r1] at ha
    obtain ⟨x1, x2, x3⟩ := h.nr ha (hact hk) (fun hh => hnk (hkeys.2 hh))
    exact ⟨by rw [hfl]; exact x1, by rw [hheld]; exact x2, by rw [routed_runs f j w ha, x3, sentTo_nil_of_not_key f hnk]; rfl⟩
  · intro ha hany
    rw [r1] at ha
    rw [r4] at hany
    have hd := h.doneSync ha hany
    have hnb := h1.notBroken ha
    unfold DoneD at hd ⊢
    rw [r4, hheld, routed_runs f j w ha]
    cases hb : AList.lookup c.sched.node2pending j with
    | none =>
      rw [hb] at hd
      simp only at hd
      have hnk : j ∉ AList.keys c'.sched.node2pending := by
        intro hk
        have := (AList.lookup_isSome_iff_mem_keys _ _).2 (hkeys.1 hk)
        rw [hb] at this; cases this
      have hb' : AList.lookup c'.sched.node2pending j = none := by
        cases hx : AList.lookup c'.sched.node2pending j with
        | none => rfl
        | some bk => exact absurd ((AList.lookup_isSome_iff_mem_keys _ _).1 (by rw [hx]; rfl)) hnk
      rw [hb']
      simp only
      exact ⟨hd.1, hd.2.1, by rw [hd.2.2, sentTo_nil_of_not_key f hnk]; rfl⟩
    | some book =>
      rw [hb] at hd
      simp only at hd
      obtain ⟨extra, he1, he2⟩ := f.acc.books j book (by rw [hlk, hb])
      rw [he1]
      simp only
      rw [he2 hnb, hd]
      simp [List.append_assoc]
  · intro ha f1 f2 f3
    rw [r1] at ha
    have g1 : c.failedNodes = 0 := by have := os.fn; omega
    have g2 : c.shouldstop = none := by
      cases hh : c.shouldstop with
      | none => rfl
      | some r => have := os.stop (by rw [hh]; rfl); rw [f2] at this; cases this
    have g3 : j ∉ c.active := fun hh => f3 (hact' hh)
    obtain ⟨y1, y2, y3⟩ := h.idleDone ha g1 g2 g3
    have hnk0 : j ∉ AList.keys c.sched.node2pending := by
      intro hk
      rcases h1.keysActive hk with h' | h'
      · exact g3 h'
      · rw [g2] at h'; cases h'
    have hnk : j ∉ AList.keys c'.sched.node2pending := fun hk => hnk0 (hkeys.1 hk)
    exact ⟨by rw [r2]; exact y1, by rw [hheld]; exact y2, by rw [routed_runs f j w ha, y3, sentTo_nil_of_not_key f hnk]; rfl⟩


/-- the worker whose event is handled -/
theorem ctl_wk6_self {c c' : Ctl.State (Load.State τ) τ} {ev0 : Ctl.Event τ} {rq : Bool} {new : List SOut} {b1 : Load.Books}
    (f : CtlFacts c (fixRq rq ev0) c' new b1) (os : OS c c') (hl : loopOnce loadI c (fixRq rq ev0) = .ok c')
    (hnd : (AList.keys c.sched.node2pending).Nodup) {k : Nat} {w : Wk τ} {rest : List (Ctl.Event τ)}
    (h1 : WkInv c k w) (h : WkInv6 c k w) (hp : w.posted = ev0 :: rest) (hlt : k < c.nextId) :
    WkInv6 c' k (routed k new ({ w with posted := rest } : Wk τ)) := by
  obtain ⟨r1, r2, r3, r4, r5⟩ := routed_fields k new ({ w with posted := rest } : Wk τ)
  simp only at r1 r2 r3 r4 r5
  have hown : Own k ev0 = true := h1.ownP ev0 (by rw [hp]; simp)
  have hheld : heldS (routed k new ({ w with posted := rest } : Wk τ)) = heldS w := by unfold heldS; rw [r5]
  have hflw : flight k w = ev0 :: flight k ({ w with posted := rest } : Wk τ) := flight_pop k hp
  have hfl : flight k (routed k new ({ w with posted := rest } : Wk τ)) = flight k ({ w with posted := rest } : Wk τ) := by
    unfold flight; rw [r3, r4]
  have hruns : w.alive = true → inboxRuns (routed k new ({ w with posted := rest } : Wk τ)) = inboxRuns w ++ Load.sentTo new k :=
    fun ha => routed_runs f k ({ w with posted := rest } : Wk τ) ha
  have hact : k ∈ c'.active → k ∈ c.active := by
    intro hh
    rcases f.actNew k hh with h' | ⟨h', _⟩
    · exact h'
    · omega
  have hsub : subjectOf (fixRq rq ev0) = some k ∨ fixRq rq ev0 = .other := by
    rcases own_subject (fixRq_own rq hown) with h' | h'
    · exact Or.inl h'
    · exact Or.inr h'
  -- the book of `k` before the sends of this iteration
  have hprep := f.prep
  refine ⟨by rw [r1, r2, r3]; exact h.finNoneO, ?_, by rw [r1, r3]; exact h.finLast, ?_, ?_, ?_⟩
  · intro ha hph e he
    rw [r4] at he
    exact h.finNoneP (by rw [← r1]; exact ha) (by rw [← r2]; exact hph) e (by rw [hp]; exact List.mem_cons_of_mem _ he)
  · -- not (or not yet) a node
    intro ha hk hnk
    rw [r1] at ha
    have hk0 : k ∈ c.active := hact hk
    have hnk0 : k ∉ AList.keys c.sched.node2pending := by
      intro hh
      rcases prep_keep hprep hh with h' | h'
      · exact hnk (by rw [f.acc.keys]; exact h')
      · exact f.actGone k h' hk
    obtain ⟨x1, x2, x3⟩ := h.nr ha hk0 hnk0
    rw [hflw] at x1
    have x1' : completes (flight k ({ w with posted := rest } : Wk τ)) = [] := by
      rw [show (ev0 :: flight k ({ w with posted := rest } : Wk τ)) = [ev0] ++ flight k ({ w with posted := rest } : Wk τ) from rfl,
        completes_append] at x1
      simp only [List.append_eq_nil_iff] at x1
      exact x1.2
    exact ⟨by rw [hfl]; exact x1', by rw [hheld]; exact x2,
      by rw [hruns ha, x3, sentTo_nil_of_not_key f hnk]; rfl⟩
  · -- `workerfinished` still on the event queue
    intro ha hany
    rw [r1] at ha
    rw [r4] at hany
    have hany0 : w.posted.any isWf = true := by rw [hp, List.any_cons, hany]; simp
    have hd := h.doneSync ha hany0
    have hnb := h1.notBroken ha
    -- the event handled now is not a death notice: those come last
    have hnn : isNotice ev0 = false := by
      cases hh : isNotice ev0 with
      | false => rfl
      | true =>
        exfalso
        have hne : rest ≠ [] := by intro hr; rw [hr] at hany; cases hany
        have := h1.noticeLast
        rw [hp, dropLast_cons_of_ne ev0 hne, List.any_cons, hh] at this
        simp at this
    unfold DoneD at hd ⊢
    rw [r4, hheld, hruns ha]
    rw [hp] at hd
    have hcompl : completes (ev0 :: rest) = (complIdx ev0).toList ++ completes rest := by
      simp only [completes, List.filterMap_cons]; cases complIdx ev0 <;> rfl
    rw [hcompl] at hd
    cases hci : complIdx ev0 with
    | some i =>
      obtain ⟨n, s, rfl⟩ : ∃ n s, ev0 = .complete n i s := by
        cases ev0 <;> simp [complIdx] at hci
        subst hci; exact ⟨_, _, rfl⟩
      have hnk : n = k := by simpa [Own] using hown
      subst hnk
      obtain ⟨book, hbk, hi, rfl⟩ := hprep
      rw [hbk, hci] at hd
      simp only [Option.toList_some, List.singleton_append, List.cons_append] at hd
      obtain ⟨extra, he1, he2⟩ := f.acc.books n (book.erase i) (AList.lookup_set_same _ _ _)
      rw [he1]
      simp only
      rw [he2 hnb, hd]
      simp [List.append_assoc]
    | none =>
      rw [hci] at hd
      simp only [Option.toList_none, List.nil_append] at hd
      have hb1 : AList.lookup b1 k = AList.lookup c.sched.node2pending k ∨
          (AList.lookup c.sched.node2pending k = none ∧ AList.lookup b1 k = some []) := by
        cases ev0 with
        | workerready n =>
          have hnk : n = k := by simpa [Own] using hown
          subst hnk
          rcases hprep with rfl | ⟨hl', rfl⟩
          · exact Or.inl rfl
          · exact Or.inr ⟨hl', AList.lookup_set_same _ _ _⟩
        | complete n i s => simp [complIdx] at hci
        | errordown n r => simp [isNotice] at hnn
        | workerfinished n x a b => simp [isNotice] at hnn
        | internalError n => cases hprep; exact Or.inl rfl
        | collectionfinish n ids => cases hprep; exact Or.inl rfl
        | testreport n fl => cases hprep; exact Or.inl rfl
        | unscheduled n is => cases hprep; exact Or.inl rfl
        | collectreport n key fl => cases hprep; exact Or.inl rfl
        | other => cases hprep; exact Or.inl rfl
      rcases hb1 with hb1 | ⟨hl', hb1⟩
      · cases hb : AList.lookup c.sched.node2pending k with
        | none =>
          rw [hb] at hd
          simp only at hd
          have hnk : k ∉ AList.keys c'.sched.node2pending := by
            intro hk
            rw [f.acc.keys] at hk
            have := (AList.lookup_isSome_iff_mem_keys _ _).2 hk
            rw [hb1, hb] at this; cases this
          have hb' : AList.lookup c'.sched.node2pending k = none := by
            cases hx : AList.lookup c'.sched.node2pending k with
            | none => rfl
            | some bk => exact absurd ((AList.lookup_isSome_iff_mem_keys _ _).1 (by rw [hx]; rfl)) hnk
          rw [hb']
          simp only
          exact ⟨hd.1, hd.2.1, by rw [hd.2.2, sentTo_nil_of_not_key f hnk]; rfl⟩
        | some book =>
          rw [hb] at hd
          simp only at hd
          obtain ⟨extra, he1, he2⟩ := f.acc.books k book (by rw [hb1, hb])
          rw [he1]
          simp only
          rw [he2 hnb, hd]
          simp [List.append_assoc]
      · rw [hl'] at hd
        simp only at hd
        obtain ⟨extra, he1, he2⟩ := f.acc.books k [] hb1
        rw [he1]
        simp only
        rw [he2 hnb, hd.1, hd.2.1, hd.2.2]
        simp
  · -- no longer active
    intro ha f1 f2 f3
    rw [r1] at ha
    have g1 : c.failedNodes = 0 := by have := os.fn; omega
    have g2 : c.shouldstop = none := by
      cases hh : c.shouldstop with
      | none => rfl
      | some r => have := os.stop (by rw [hh]; rfl); rw [f2] at this; cases this
    -- it was active: its event was on the queue
    have hk0 : k ∈ c.active := by
      apply Classical.byContradiction
      intro hna
      have := h1.inactive hna
      rw [hp] at this; cases this
    -- so this iteration handled its death notice, which — no worker was lost — is `workerfinished`
    have hdown : downOf (fixRq rq ev0) = some k := by
      rcases f.actKeep k hk0 with h' | h'
      · exact absurd h' f3
      · exact h'
    obtain ⟨x, sf, ss, rfl⟩ : ∃ x sf ss, ev0 = .workerfinished k x sf ss := by
      cases ev0 with
      | workerfinished n x sf ss =>
        have hnk : n = k := by simpa [Own] using hown
        subst hnk; exact ⟨x, sf, ss, rfl⟩
      | errordown n r =>
        exfalso
        have := loopOnce_errordown_failed (show loopOnce loadI c (.errordown n rq) = .ok c' from hl)
        omega
      | internalError n => simp [Own] at hown
      | workerready n => simp [fixRq, downOf] at hdown
      | collectionfinish n ids => simp [fixRq, downOf] at hdown
      | testreport n fl => simp [fixRq, downOf] at hdown
      | complete n i s => simp [fixRq, downOf] at hdown
      | unscheduled n is => simp [fixRq, downOf] at hdown
      | collectreport n key fl => simp [fixRq, downOf] at hdown
      | other => simp [fixRq, downOf] at hdown
    have hany0 : w.posted.any isWf = true := by rw [hp]; simp [isWf]
    have hd := h.doneSync ha hany0
    obtain ⟨hbook, hnk⟩ := workerfinished_clean (show loopOnce loadI c (.workerfinished k x sf ss) = .ok c' from hl)
      (by rw [f1, g1]) f2 hnd
    have hphase : w.phase = .done := by
      apply Classical.byContradiction
      intro hne
      have := h.finNoneP ha hne (.workerfinished k x sf ss) (by rw [hp]; simp)
      simp [isWf] at this
    unfold DoneD at hd
    have hempty : heldS w = [] ∧ inboxRuns w = [] := by
      rcases hbook with hb | hb
      · rw [hb] at hd
        simp only at hd
        have := hd.symm
        simp only [List.append_eq_nil_iff] at this
        exact ⟨this.1.2, this.2⟩
      · rw [hb] at hd
        simp only at hd
        exact ⟨hd.2.1, hd.2.2⟩
    exact ⟨by rw [r2]; exact hphase, by rw [hheld]; exact hempty.1,
      by rw [hruns ha, hempty.2, sentTo_nil_of_not_key f hnk]; rfl⟩

end Xdist.Sys
