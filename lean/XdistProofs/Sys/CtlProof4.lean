import XdistProofs.Sys.CtlProof3
/-! Which worker is still a scheduler node after its death notice was handled. -/
namespace Xdist.Sys
open Xdist Xdist.Ctl

variable {τ : Type} [DecidableEq τ]

theorem keys_after_plain {s s1 : Load.State τ} {e e1 : Env} {op : SOp τ} {r : Option τ}
    (hop : (∃ n c, op = .addNodeCollection n c) ∨ op = .schedule ∨ (∃ t, op = .markPending t))
    (h : Load.step s e op = .ok (s1, e1, r)) : AList.keys s1.node2pending = AList.keys s.node2pending := by
  obtain ⟨new, a, _⟩ := plain_call hop h
  exact a.keys

theorem removeNode_not_key {s s1 : Load.State τ} {e e1 : Env} {n : Nat} {r : Option τ} (hnd : (AList.keys s.node2pending).Nodup)
    (h : Load.step s e (.removeNode n) = .ok (s1, e1, r)) : n ∉ AList.keys s1.node2pending := by
  obtain ⟨book, hb, new, a, _⟩ := removeNode_call h
  rw [a.keys]
  exact AList.not_mem_keys_erase_self _ _ hnd

/-- after `worker_errordown(n)` the node is no scheduler node any more -/
theorem errordown_not_key {st st' : Ctl.State (Load.State τ) τ} {n : Nat} {rq : Bool}
    (hnd : (AList.keys st.sched.node2pending).Nodup) (he : errordown loadI st n rq = .ok st') :
    n ∉ AList.keys st'.sched.node2pending := by
  unfold errordown at he
  simp only at he
  split at he
  · rename_i hc
    -- KeyError: the node had no book
    have hsch : st'.sched = st.sched := by rw [(removeActive_fields he).2.1, (restartOrStop_fields loadI _ n).2.1]
    rw [hsch]
    unfold callSched at hc
    cases hs : loadI.step st.sched st.env (.removeNode n) with
    | ok p => simp [hs, Except.map] at hc
    | error err =>
      simp only [hs, Except.map] at hc
      cases hc
      have := removeNode_keyError (show Load.step st.sched st.env (.removeNode n) = .error .keyError from hs)
      intro hk
      have := (AList.lookup_isSome_iff_mem_keys _ _).2 hk
      simp_all
  · simp at he
  · rename_i st1 hc
    have hsch : st'.sched = st1.sched := by rw [(removeActive_fields he).2.1, (restartOrStop_fields loadI _ n).2.1]
    rw [hsch]
    exact removeNode_not_key hnd (callSched_fields loadI hc).1
  · rename_i st1 x hc
    obtain ⟨st2, h2, h3⟩ := bind_ok.1 he
    have hsch : st'.sched = st2.sched := by rw [(removeActive_fields h3).2.1, (restartOrStop_fields loadI _ n).2.1]
    rw [hsch]
    have h1 := removeNode_not_key hnd (callSched_fields loadI hc).1
    unfold handleCrashItem at h2
    obtain ⟨st3, h4, h5⟩ := map_ok.1 h2
    subst h5
    split at h4
    · obtain ⟨a, ha, hb⟩ := map_ok.1 h4
      subst hb
      have := keys_after_plain (Or.inr (Or.inr ⟨x, rfl⟩))
        (callSched_fields loadI (r := a.2) (show callSched loadI st1 (.markPending x) = .ok (a.1, a.2) by rw [ha])).1
      simp only
      rw [this]; exact h1
    · simp only [Except.ok.injEq] at h4; subst h4; exact h1

theorem afterHandler_shouldstop (I : SchedI σ τ) (st : Ctl.State σ τ) : (afterHandler I st).shouldstop = st.shouldstop := by
  unfold afterHandler
  simp only
  split <;> split <;> simp [(triggerShutdown_fields I _).1]

theorem errordown_shouldstop {st st' : Ctl.State (Load.State τ) τ} {n : Nat} {rq : Bool}
    (he : errordown loadI st n rq = .ok st') : st'.shouldstop = st.shouldstop := by
  unfold errordown at he
  simp only at he
  split at he
  · rw [(removeActive_fields he).2.2.2.1, (restartOrStop_fields loadI _ n).1]
  · simp at he
  · rename_i st1 hc
    rw [(removeActive_fields he).2.2.2.1, (restartOrStop_fields loadI _ n).1, (callSched_fields loadI hc).2.1]
  · rename_i st1 x hc
    obtain ⟨st2, h2, h3⟩ := bind_ok.1 he
    rw [(removeActive_fields h3).2.2.2.1, (restartOrStop_fields loadI _ n).1, (handleCrashItem_fields loadI h2).1,
      (callSched_fields loadI hc).2.1]

/-- **a worker whose death notice was handled is no scheduler node any more — unless the run is being stopped** -/
theorem down_keys {c c' : Ctl.State (Load.State τ) τ} {ev : Ctl.Event τ} (hnd : (AList.keys c.sched.node2pending).Nodup)
    (hl : loopOnce loadI c ev = .ok c') {a : Nat} (hd : downOf ev = some a) (hie : ∀ n, ev ≠ .internalError n)
    (hk : a ∈ AList.keys c'.sched.node2pending) : c'.shouldstop.isSome = true := by
  unfold loopOnce at hl
  split at hl
  · simp at hl
  obtain ⟨x, hx, hb⟩ := map_ok.1 hl
  subst hb
  rw [afterHandler_sched'] at hk
  rw [afterHandler_shouldstop]
  cases ev with
  | errordown n rq =>
    simp only [downOf, Option.some.injEq] at hd; subst hd
    simp only [handle] at hx
    exact absurd hk (errordown_not_key hnd hx)
  | workerfinished n xs sf ss =>
    simp only [downOf, Option.some.injEq] at hd; subst hd
    simp only [handle] at hx
    unfold workerfinished at hx
    split at hx
    · dsimp only at hx
      have hs := errordown_shouldstop hx
      rw [hs, (triggerShutdown_fields loadI _).1]
      rfl
    · simp only at hx
      split at hx
      · rw [(removeActive_fields hx).2.2.2.1]
        split
        · rfl
        · rename_i hns
          cases hh : c.shouldstop with
          | none => simp [hh] at hns
          | some v => rfl
      · split at hx
        · split at hx
          · simp at hx
          · simp at hx
          · rename_i hnn st1 hc
            rw [(removeActive_fields hx).2.1] at hk
            exact absurd hk (removeNode_not_key hnd (callSched_fields loadI hc).1)
        · rename_i hnn
          rw [(removeActive_fields hx).2.1] at hk
          exact absurd hk hnn
  | internalError n => exact absurd rfl (hie n)
  | workerready n => simp [downOf] at hd
  | collectionfinish n ids => simp [downOf] at hd
  | testreport n f => simp [downOf] at hd
  | complete n i s => simp [downOf] at hd
  | unscheduled n is => simp [downOf] at hd
  | collectreport n k f => simp [downOf] at hd
  | other => simp [downOf] at hd

end Xdist.Sys
