import XdistProofs.Sys.Route
import XdistProofs.Sys.EarlyCtl
import XdistProofs.Ctl.Budget
/-!
  C10 at the level of the whole system, **for every scheduler**: along every execution — any interleaving of the threads, any
  crashes — the worker processes that exist are exactly the initial ones plus one per counted death within the budget:
  `numnodes + min failedNodes budget`.  In particular never more than `numnodes + budget` processes are ever started.
-/
namespace Xdist.Sys
open Xdist Xdist.Ctl

set_option linter.unusedSectionVars false

variable {σ τ : Type} [DecidableEq τ]

/-- the bookkeeping of `DSession` and the list of worker processes agree -/
def BudgetSys (k : Nat) (mr : Option Int) (st : State σ τ) : Prop :=
  BudgetInv k mr st.ctl ∧ st.wk.length = st.ctl.nextId

theorem budgetInv_env {k : Nat} {mr : Option Int} {c : Ctl.State σ τ} (e : Env) (h : BudgetInv k mr c) :
    BudgetInv k mr ({ c with env := e } : Ctl.State σ τ) := h

theorem cap_mono (mr : Option Int) {a b : Nat} (h : a ≤ b) : cap mr a ≤ cap mr b := by
  unfold cap
  split
  · omega
  · exact h

/-- **every step keeps the bookkeeping and the process list in step** -/
theorem step_budgetSys (I : SchedI σ τ) (idsOf : Nat → List τ) {k : Nat} {mr : Option Int} {st st' : State σ τ} (a : Step)
    (hb : BudgetSys k mr st) (h : step I idsOf st a = .ok st') : BudgetSys k mr st' := by
  cases a with
  | main j p =>
    simp only [Sys.step] at h
    split at h
    · cases h
    · split at h
      · cases h
      · simp only [Except.ok.injEq] at h; subst h
        exact ⟨hb.1, by simp only [setWk, List.length_set]; exact hb.2⟩
  | deliver j =>
    simp only [Sys.step] at h
    split at h
    · cases h
    · split at h
      · cases h
      · simp only [Except.ok.injEq] at h; subst h
        exact ⟨hb.1, by simp only [setWk, List.length_set]; exact hb.2⟩
  | recv j =>
    simp only [Sys.step] at h
    split at h
    · cases h
    rename_i s1 hr
    simp only [Except.ok.injEq] at h; subst h
    unfold recvStep at hr
    split at hr
    · cases hr
    split at hr
    · cases hr
    simp only [Option.some.injEq] at hr
    subst hr
    refine ⟨budgetInv_env _ hb.1, ?_⟩
    simp only
    split
    · rw [route_length, List.length_set]; exact hb.2
    · rw [List.length_set]; exact hb.2
  | crash j b =>
    simp only [Sys.step] at h
    split at h
    · cases h
    rename_i s1 hc
    simp only [Except.ok.injEq] at h; subst h
    unfold crashStep at hc
    split at hc
    · cases hc
    split at hc
    · cases hc
    split at hc
    · simp only [Option.some.injEq] at hc; subst hc
      exact ⟨budgetInv_env _ hb.1, by simp only [setWk, List.length_set]; exact hb.2⟩
    · simp only [Option.some.injEq] at hc; subst hc
      exact ⟨hb.1, by simp only [setWk, List.length_set]; exact hb.2⟩
  | ctl j rq =>
    simp only [Sys.step] at h
    unfold ctlStep at h
    split at h
    · cases h
    split at h
    · cases h
    split at h
    · cases h
    rename_i w hw
    split at h
    · cases h
    rename_i ev rest hp
    simp only at h
    split at h
    · cases h
    rename_i c' hl
    simp only [Except.ok.injEq] at h; subst h
    have hb' := loopOnce_inv I hb.1 hl
    refine ⟨hb', ?_⟩
    simp only
    rw [route_length]
    simp only [spawn, List.length_append, List.length_map, List.length_range, List.length_set]
    -- the id counter never goes back
    have hfn : st.ctl.failedNodes ≤ c'.failedNodes := by
      unfold loopOnce at hl
      split at hl
      · cases hl
      obtain ⟨c1, hh1, rfl⟩ := map_ok.1 hl
      exact Nat.le_trans (os_handle I hh1).fn (os_afterHandler I c1).fn
    have h1 := hb.1.2.1
    have h2 := hb'.2.1
    have hmr : c'.maxRestart = st.ctl.maxRestart := by rw [hb'.2.2, hb.1.2.2]
    have := cap_mono st.ctl.maxRestart hfn
    rw [hmr] at h2
    have hlen := hb.2
    omega

theorem run_budgetSys (I : SchedI σ τ) (idsOf : Nat → List τ) {k : Nat} {mr : Option Int} :
    ∀ (steps : List Step) {st st' : State σ τ}, BudgetSys k mr st → run I idsOf st steps = .ok st' → BudgetSys k mr st' := by
  intro steps
  induction steps with
  | nil => intro st st' hb h; simp only [run, Except.ok.injEq] at h; subst h; exact hb
  | cons a rest ih =>
    intro st st' hb h
    simp only [run] at h
    split at h
    · cases h
    · rename_i st1 hs
      exact ih (step_budgetSys I idsOf a hb hs) h

/-- **Restarts are bounded by the budget — whole system, every scheduler** (C10).  After any execution from the initial state —
    any schedule of the threads, any crashes at any point, any test outcomes —, the worker processes that were ever started
    are the `numnodes` initial ones plus exactly `min failedNodes b` replacements: never more than `numnodes + b`, and with
    `--max-worker-restart=0` none at all; the replacements' ids are `gw<numnodes>`, `gw<numnodes+1>`, … without gaps. -/
theorem C10_sys_restarts_bounded (I : SchedI σ τ) (s0 : σ) (numnodes maxfail : Nat) (b : Int) (idsOf : Nat → List τ)
    (steps : List Step) {st : State σ τ} (h : run I idsOf (init I s0 numnodes maxfail (some b) idsOf) steps = .ok st) :
    st.wk.length = numnodes + min st.ctl.failedNodes b.toNat ∧ st.wk.length ≤ numnodes + b.toNat ∧
      spawnIds st.ctl = List.range' numnodes (min st.ctl.failedNodes b.toNat) := by
  have h0 : BudgetSys numnodes (some b) (init I s0 numnodes maxfail (some b) idsOf) := by
    refine ⟨Ctl.init_inv I s0 numnodes maxfail (some b), ?_⟩
    simp [init, Ctl.init]
  obtain ⟨⟨a1, a2, a3⟩, a4⟩ := run_budgetSys I idsOf steps h0 h
  rw [a3] at a1 a2
  simp only [cap] at a1 a2
  refine ⟨by rw [a4, a2], by rw [a4, a2]; omega, a1⟩

/-- with an unlimited budget (`--tx` without `-n`) every counted death is answered with a replacement -/
theorem C10_sys_unlimited (I : SchedI σ τ) (s0 : σ) (numnodes maxfail : Nat) (idsOf : Nat → List τ)
    (steps : List Step) {st : State σ τ} (h : run I idsOf (init I s0 numnodes maxfail none idsOf) steps = .ok st) :
    st.wk.length = numnodes + st.ctl.failedNodes := by
  have h0 : BudgetSys numnodes none (init I s0 numnodes maxfail none idsOf) := by
    refine ⟨Ctl.init_inv I s0 numnodes maxfail none, ?_⟩
    simp [init, Ctl.init]
  obtain ⟨⟨_, a2, a3⟩, a4⟩ := run_budgetSys I idsOf steps h0 h
  rw [a3] at a2
  simp only [cap] at a2
  rw [a4, a2]

end Xdist.Sys
