import XdistProofs.Sys.After2
/-! The thirteenth layer is kept by command delivery, crashes, the receiver threads and the controller. -/
namespace Xdist.Sys
open Xdist Xdist.Ctl Xdist.Load Xdist.Contract

variable {τ : Type} [DecidableEq τ]

theorem append_singleton_split {α : Type} {l a b : List α} {x : α} (h : l ++ [x] = a ++ x :: b) :
    (b = [] ∧ a = l) ∨ (∃ b0, l = a ++ x :: b0 ∧ b = b0 ++ [x]) := by
  rcases Load.append_eq_append_cons h with ⟨m, h1, h2⟩ | ⟨m, h1, h2⟩
  · exact Or.inr ⟨m, h1, h2⟩
  · cases m with
    | nil => simp only [List.nil_append, List.cons.injEq] at h2; left; exact ⟨h2.2.symm, by simpa using h1⟩
    | cons y t =>
      simp only [List.cons_append, List.cons.injEq] at h2
      exact (Load.nil_ne_append_cons h2.2).elim

theorem deliverStep_inv13 {c : Ctl.State (Load.State τ) τ} {k : Nat} {w w' : Wk τ} (h1 : WkInv c k w) (h : WkInv13 c k w)
    (hd : deliverStep k w = some w') : WkInv13 c k w' := by
  unfold deliverStep at hd
  split at hd
  · cases hd
  rename_i hg
  simp only [Bool.or_eq_true, Bool.not_eq_eq_eq_not, Bool.not_true, decide_eq_true_eq, not_or] at hg
  have hnd : w.phase ≠ .done := hg.2
  have hal : w.alive = true := by cases hh : w.alive <;> simp_all
  cases hi : w.inbox with
  | nil => simp [hi] at hd
  | cons cmd rest =>
    simp only [hi] at hd
    have hk := h1.inboxK cmd (by rw [hi]; simp)
    have hwf : ∀ (w2 : Wk τ), flight k w2 = flight k w → w2.phase = w.phase → w2.exitstatus = w.exitstatus → w2.sf = w.sf → w2.ss = w.ss →
        ∀ n x sf ss, Ctl.Event.workerfinished n x sf ss ∈ flight k w2 →
          w2.phase = .done ∧ x = w2.exitstatus ∧ sf = w2.sf ∧ ss = w2.ss := by
      intro w2 e1 e2 e3 e4 e5 n x sf ss hm
      rw [e1] at hm; rw [e2, e3, e4, e5]; exact h.wfFields n x sf ss hm
    cases cmd with
    | run is =>
      simp only [Option.some.injEq] at hd
      subst hd
      obtain ⟨pn, pp⟩ := putMany_next w.w is
      have htor := putMany_torun w.w is
      refine ⟨by simp only; rw [pn, pp]; exact h.nextSome, by simp only; rw [pn]; exact h.exitWhy, hwf _ rfl rfl rfl rfl rfl,
        h.doneAlive, ?_, ?_, ?_, ?_⟩
      · intro _ hnx
        simp only at hnx ⊢
        rw [pn] at hnx
        obtain ⟨a1, a2⟩ := h.na1 hal hnx
        rw [inboxRuns_eq, hi, runsL_cons_run] at a2
        obtain ⟨his, hrest⟩ := List.append_eq_nil_iff.1 a2
        subst his
        exact ⟨by rw [htor]; simpa using a1, by rw [inboxRuns_eq]; exact hrest⟩
      · intro _ a b hs
        simp only at hs ⊢
        rw [htor] at hs
        -- the marker is in the old part of the queue: what is appended are tests
        have hold : ∃ b0, w.w.torun = a ++ Worker.QItem.shutdown :: b0 ∧ b = b0 ++ is.map Worker.QItem.test := by
          rcases Load.append_eq_append_cons hs with ⟨m, e1, e2⟩ | ⟨m, e1, e2⟩
          · exact ⟨m, e1, e2⟩
          · exfalso
            have : Worker.QItem.shutdown ∈ is.map Worker.QItem.test := by rw [e2]; simp
            simp at this
        obtain ⟨b0, e1, e2⟩ := hold
        obtain ⟨a1, a2⟩ := h.na2 hal a b0 e1
        rw [inboxRuns_eq, hi, runsL_cons_run] at a2
        obtain ⟨his, hrest⟩ := List.append_eq_nil_iff.1 a2
        subst his
        exact ⟨by rw [e2]; simpa using a1, by rw [inboxRuns_eq]; exact hrest⟩
      · intro _ a b hs
        simp only at hs
        exact h.na3 hal (.run is :: a) b (by rw [hi, hs]; rfl)
      · intro _ hs
        apply h.n1 hal
        unfold shutSeen at hs ⊢
        simp only at hs
        rw [pn, htor] at hs
        rw [hi]
        simp only [Bool.or_eq_true, List.contains_cons, List.contains_append] at hs ⊢
        rcases hs with (hs | hs) | hs
        · exact Or.inl (Or.inl (Or.inr hs))
        · rcases hs with hs | hs
          · exact Or.inl (Or.inr hs)
          · exfalso
            have : (is.map Worker.QItem.test).contains Worker.QItem.shutdown = false := by
              induction is with
              | nil => rfl
              | cons i t ih => simp [List.contains_cons, ih]
            rw [this] at hs; cases hs
        · exact Or.inr hs
    | shutdown =>
      simp only [Option.some.injEq] at hd
      subst hd
      refine ⟨h.nextSome, h.exitWhy, hwf _ rfl rfl rfl rfl rfl, h.doneAlive, ?_, ?_, ?_, ?_⟩
      · intro _ hnx
        simp only [Worker.putShutdown] at hnx ⊢
        obtain ⟨a1, a2⟩ := h.na1 hal hnx
        rw [inboxRuns_eq, hi, runsL_cons_shut] at a2
        exact ⟨by rw [tests_append, a1]; rfl, by rw [inboxRuns_eq]; exact a2⟩
      · intro _ a b hs
        simp only [Worker.putShutdown] at hs ⊢
        rcases append_singleton_split hs with ⟨rfl, _⟩ | ⟨b0, e1, e2⟩
        · refine ⟨rfl, ?_⟩
          rw [inboxRuns_eq]
          exact h.na3 hal [] rest (by rw [hi]; rfl)
        · obtain ⟨a1, a2⟩ := h.na2 hal a b0 e1
          rw [inboxRuns_eq, hi, runsL_cons_shut] at a2
          exact ⟨by rw [e2, tests_append, a1]; rfl, by rw [inboxRuns_eq]; exact a2⟩
      · intro _ a b hs
        simp only at hs
        exact h.na3 hal (.shutdown :: a) b (by rw [hi, hs]; rfl)
      · intro _ _
        apply h.n1 hal
        unfold shutSeen
        rw [hi]; simp
    | runAll => simp [loadCmd] at hk
    | steal is => simp [loadCmd] at hk

theorem crash_wk13 {c : Ctl.State (Load.State τ) τ} {k : Nat} {w : Wk τ} (h : WkInv13 c k w) (hnd : w.phase ≠ .done) :
    WkInv13 c k ({ w with alive := false, inbox := [], outbox := w.outbox ++ [.endMarker] } : Wk τ) := by
  refine ⟨h.nextSome, h.exitWhy, ?_, fun hp => absurd hp hnd, fun ha => (by cases ha), fun ha => (by cases ha),
    fun ha => (by cases ha), fun ha => (by cases ha)⟩
  intro n x sf ss hm
  rcases mem_flight_emit (w := w) hm [.endMarker] rfl rfl with hm | hm
  · exact h.wfFields n x sf ss hm
  · simp [evOf] at hm

theorem WkInv13.congr {c c' : Ctl.State (Load.State τ) τ} {k : Nat} {w : Wk τ}
    (hs : (c'.env.flags.get k).sent = (c.env.flags.get k).sent) (h : WkInv13 c k w) : WkInv13 c' k w :=
  ⟨h.nextSome, h.exitWhy, h.wfFields, h.doneAlive, h.na1, h.na2, h.na3, by rw [hs]; exact h.n1⟩

/-- the receiver thread, for a message that is not an undecodable one read from a worker not yet written off -/
theorem recv_wk13 {c : Ctl.State (Load.State τ) τ} {j : Nat} {w w2 : Wk τ} {m : WMsg τ} {rest : List (WMsg τ)} {d sn : Bool}
    (h : WkInv13 c j w) (ho : w.outbox = m :: rest) (hw : w2.w = w.w) (hi : w2.inbox = w.inbox) (hal : w2.alive = w.alive)
    (hph : w2.phase = w.phase) (hx : w2.exitstatus = w.exitstatus) (hsf : w2.sf = w.sf) (hss : w2.ss = w.ss) (hout : w2.outbox = rest)
    (hpo : w2.posted = w.posted ++ (Receiver.step (α := Ctl.Event τ) { down := d, shutdownSent := sn } (toRecv j m)).2.1.map (ofPost j)) :
    WkInv13 c j w2 := by
  generalize hevs : (Receiver.step (α := Ctl.Event τ) { down := d, shutdownSent := sn } (toRecv j m)).2.1.map (ofPost j) = evs at hpo
  have hposts := recv_posts j d sn m
  simp only [hevs] at hposts
  have hshut : shutSeen w2 = shutSeen w := by unfold shutSeen; rw [hw, hi]
  have hruns : inboxRuns w2 = inboxRuns w := by unfold inboxRuns; rw [hi]
  refine ⟨by rw [hw]; exact h.nextSome, by rw [hph, hx, hsf, hss, hw]; exact h.exitWhy, ?_, by rw [hph, hal]; exact h.doneAlive,
    by rw [hal, hw, hruns]; exact h.na1, by rw [hal, hw, hruns]; exact h.na2, by rw [hal, hi]; exact h.na3,
    by rw [hal, hshut]; exact h.n1⟩
  intro n x sf ss hm
  rw [hph, hx, hsf, hss]
  apply h.wfFields n x sf ss
  have hfl : flight j w = w.posted ++ ((evOf j m).toList ++ rest.filterMap (evOf j)) := by
    unfold flight; rw [ho, filterMap_cons_toList]
  unfold flight at hm
  rw [hpo, hout, List.append_assoc] at hm
  rw [hfl]
  rcases List.mem_append.1 hm with hm | hm
  · exact List.mem_append_left _ hm
  · rcases List.mem_append.1 hm with hm | hm
    · rcases hposts with h' | ⟨_, h'⟩ | ⟨_, h', _⟩
      · rw [h'] at hm; cases hm
      · rw [h'] at hm; exact List.mem_append_right _ (List.mem_append_left _ hm)
      · rw [h'] at hm; simp at hm
    · exact List.mem_append_right _ (List.mem_append_right _ hm)

end Xdist.Sys
