import XdistProofs.Sys.AcctPubs
/-! `worker_errordown` and the whole iteration with ghost and published crash reports (`errordownG`, `loopOnce_ghost`). -/
namespace Xdist.Ctl
open Xdist

variable {σ τ : Type}

theorem callSched_pubs (I : SchedI σ τ) {st st' : State σ τ} {op : SOp τ} {r : Option τ}
    (h : callSched I st op = .ok (st', r)) : st'.pubs = st.pubs := by
  unfold callSched at h
  obtain ⟨a, _, hb⟩ := map_ok.1 h
  simp only [Prod.mk.injEq] at hb
  obtain ⟨rfl, _⟩ := hb
  rfl

theorem handleFailures_pubs (st : State σ τ) (f : Bool) : (handleFailures st f).pubs = st.pubs := by
  unfold handleFailures
  split
  · simp only; split <;> rfl
  · rfl

end Xdist.Ctl

namespace Xdist.Sys
open Xdist Xdist.Ctl Xdist.Load Xdist.Contract

variable {τ : Type} [DecidableEq τ]

theorem restartOrStop_crashIds (st : Ctl.State (Load.State τ) τ) (n : Nat) :
    crashIds (restartOrStop loadI st n).pubs = crashIds st.pubs ∧ rqIds (restartOrStop loadI st n).pubs = rqIds st.pubs := by
  rcases restartOrStop_cases loadI st n with ⟨b, hh⟩ | hh
  · rw [hh, triggerShutdown_pubs]; exact ⟨rfl, rfl⟩
  · rw [hh]
    simp only [cloneNode, crashIds_append, rqIds_append]
    exact ⟨by simp [crashIds], by simp [rqIds]⟩

theorem index_get {col : List τ} {t : τ} {idx : Nat} (h : PyList.index col t = .ok idx) : col[idx]? = some t := by
  induction col generalizing idx with
  | nil => simp [PyList.index] at h
  | cons a r ih =>
    simp only [PyList.index] at h
    split at h
    · rename_i hat
      simp only [Except.ok.injEq] at h; subst h; simp [hat]
    · obtain ⟨j, hj, rfl⟩ := map_ok.1 h
      simp [ih hj]

theorem ghostOp_rm_nil {s s' : Load.State τ} {g : Ghost} {n : Nat} (h : AList.lookup s.node2pending n = some []) :
    Load.ghostOp s s' g (.removeNode n) = g := by simp [Load.ghostOp, h]

theorem ghostOp_rm_cons {s s' : Load.State τ} {g : Ghost} {n i : Nat} {tl : List Nat}
    (h : AList.lookup s.node2pending n = some (i :: tl)) :
    Load.ghostOp s s' g (.removeNode n) = { g with crashed := i :: g.crashed } := by simp [Load.ghostOp, h]

theorem ghostOp_mp {s s' : Load.State τ} {g : Ghost} {t : τ} {col : List τ} {idx : Nat} (hc : s.collection = some col)
    (hi : PyList.index col t = .ok idx) :
    Load.ghostOp s s' g (.markPending t) = { g with requeued := idx :: g.requeued } := by simp [Load.ghostOp, hc, hi]

/-- `callSched` as a step of the scheduler -/
theorem callSched_load {c a : Ctl.State (Load.State τ) τ} {op : SOp τ} {r : Option τ} (h : callSched loadI c op = .ok (a, r)) :
    Load.step c.sched c.env op = .ok (a.sched, a.env, r) := (callSched_fields loadI h).1

/-- **`worker_errordown` with ghost and reports**: the crash report it publishes is the item `remove_node` charged, and it is
    marked re-queued exactly when `mark_test_pending` was called for it -/
theorem errordownG {st st' : Ctl.State (Load.State τ) τ} {n : Nat} {rq : Bool} (he : errordown loadI st n rq = .ok st') (g : Ghost)
    (hb : BalS st.sched g) :
    ∃ as t g', AllShut (· ∈ loadI.nodes st'.sched) t ∧ StepsG st.sched st.env g as st'.sched st'.env g' ∧
      (as = t ∨ as = Atom.call (.removeNode n) :: t ∨ ∃ x, rq = true ∧ as = Atom.call (.removeNode n) :: Atom.call (.markPending x) :: t) ∧
      (GC st g → GC st' g') := by
  unfold errordown at he
  simp only at he
  split at he
  · -- KeyError swallowed
    obtain ⟨t, ht, hs⟩ := steps_restartOrStop (I := loadI) ({ st with pubs := st.pubs ++ [Pub.nodedown n true] } : Ctl.State (Load.State τ) τ) n
    have hsch : st'.sched = st.sched := by
      rw [(removeActive_fields he).2.1, (restartOrStop_fields loadI _ n).2.1]
    refine ⟨t, t, g, by rw [hsch]; exact ht, stepsG_shuts (steps_removeActive hs he) ht g, Or.inl rfl, ?_⟩
    intro hgc
    obtain ⟨p1, p2⟩ := restartOrStop_crashIds ({ st with pubs := st.pubs ++ [Pub.nodedown n true] } : Ctl.State (Load.State τ) τ) n
    refine hgc.same ?_ ?_ rfl rfl (fun col hc => by rw [hsch]; exact hc)
    · rw [removeActive_pubs he, p1]; simp [crashIds_append, crashIds]
    · rw [removeActive_pubs he, p2]; simp [rqIds_append, rqIds]
  · simp at he
  · rename_i st1 hc
    obtain ⟨t, ht, hs⟩ := steps_restartOrStop (I := loadI) st1 n
    have hstep := callSched_load hc
    have hsch : st'.sched = st1.sched := by
      rw [(removeActive_fields he).2.1, (restartOrStop_fields loadI _ n).2.1]
    have hrm : Load.removeNode st.sched st.env n = .ok (st1.sched, st1.env, none) := by
      simpa [Load.step] using hstep
    obtain ⟨hbook, _⟩ := removeNode_none_book hrm
    have hg : Load.ghostOp st.sched st1.sched g (.removeNode n) = g := ghostOp_rm_nil hbook
    refine ⟨_, t, g, by rw [hsch]; exact ht,
      StepsG.call hstep (by rw [hg]; exact stepsG_shuts (steps_removeActive hs he) ht g), Or.inr (Or.inl rfl), ?_⟩
    intro hgc
    obtain ⟨p1, p2⟩ := restartOrStop_crashIds st1 n
    have hpubs1 : st1.pubs = st.pubs ++ [Pub.nodedown n true] := callSched_pubs loadI hc
    refine hgc.same ?_ ?_ rfl rfl (fun col hcc => by rw [hsch]; exact step_collection hb.1 hstep hcc)
    · rw [removeActive_pubs he, p1, hpubs1]; simp [crashIds_append, crashIds]
    · rw [removeActive_pubs he, p2, hpubs1]; simp [rqIds_append, rqIds]
  · rename_i st1 x hc
    obtain ⟨st2, h2, h3⟩ := bind_ok.1 he
    have hstep := callSched_load hc
    obtain ⟨t, ht, hs⟩ := steps_restartOrStop (I := loadI) st2 n
    have hsch : st'.sched = st2.sched := by
      rw [(removeActive_fields h3).2.1, (restartOrStop_fields loadI _ n).2.1]
    have hpubs1 : st1.pubs = st.pubs ++ [Pub.nodedown n true] := callSched_pubs loadI hc
    -- what `remove_node` returned
    have hrm : Load.removeNode st.sched st.env n = .ok (st1.sched, st1.env, some x) := by
      simpa [Load.step] using hstep
    obtain ⟨book, acts, hl, _, _, hstat, hret⟩ := Load.removeNode_ref hrm
    cases book with
    | nil => simp at hret
    | cons i tl =>
      simp only at hret
      obtain ⟨col, hcol, hci, _⟩ := hret
      have hg1 : Load.ghostOp st.sched st1.sched g (.removeNode n) = { g with crashed := i :: g.crashed } := ghostOp_rm_cons hl
      have hcol1 : st1.sched.collection = some col := by rw [hstat.2.2.1]; exact hcol
      have hb1 : BalS st1.sched (Load.ghostOp st.sched st1.sched g (.removeNode n)) := by
        obtain ⟨hf, hbal, hst⟩ := hb
        obtain ⟨hf1, hbal1⟩ := Load.step_bal hf hbal hstep
        exact ⟨hf1, hbal1, Load.step_started hf hst hstep⟩
      obtain ⟨p1, p2⟩ := restartOrStop_crashIds st2 n
      unfold handleCrashItem at h2
      obtain ⟨st3, h4, h5⟩ := map_ok.1 h2
      subst h5
      split at h4
      · rename_i hrq
        obtain ⟨a, ha, hbb⟩ := map_ok.1 h4
        subst hbb
        have hca : callSched loadI st1 (.markPending x) = .ok (a.1, a.2) := by rw [ha]
        have hstep2 := callSched_load hca
        have hmp : Load.markPending st1.sched st1.env x = .ok (a.1.sched, a.1.env) := by
          have := hstep2
          simp only [Load.step] at this
          obtain ⟨r, hr, hr2⟩ := map_ok.1 this
          simp only [Prod.mk.injEq] at hr2
          obtain ⟨r1, r2, _⟩ := hr2
          rw [hr, ← r1, ← r2]
        obtain ⟨col', idx, acts', hc', hi, _, _, hstat2⟩ := Load.markPending_ref hmp
        rw [hcol1] at hc'; cases hc'
        have hg2 : Load.ghostOp st1.sched a.1.sched (Load.ghostOp st.sched st1.sched g (.removeNode n)) (.markPending x) =
            { g with crashed := i :: g.crashed, requeued := idx :: g.requeued } := by
          rw [ghostOp_mp hcol1 hi, hg1]
        refine ⟨_, t, _, by rw [hsch]; exact ht,
          StepsG.call hstep (StepsG.call hstep2 (stepsG_shuts (steps_removeActive hs h3) ht _)),
          Or.inr (Or.inr ⟨x, hrq, rfl⟩), ?_⟩
        intro hgc
        rw [hg2]
        refine hgc.step (nc := [x]) (nr := [x]) (dc := [i]) (dr := [idx]) ?_ ?_ rfl rfl ?_ ?_ ?_
        · rw [removeActive_pubs h3, p1]
          simp only [crashIds_append, callSched_pubs loadI hca, hpubs1]
          simp [crashIds]
        · rw [removeActive_pubs h3, p2]
          simp only [rqIds_append, callSched_pubs loadI hca, hpubs1]
          simp [rqIds, hrq]
        · intro col' hcc
          rw [hsch]
          show a.1.sched.collection = some col'
          rw [hstat2.2.2.1, hstat.2.2.1]; exact hcc
        · intro hcn; rw [hcol] at hcn; cases hcn
        · intro col' hcc
          rw [hcol] at hcc; cases hcc
          exact ⟨by simp [idsOfIdx, hci], by simp [idsOfIdx, index_get hi]⟩
      · rename_i hrq
        simp only [Except.ok.injEq] at h4; subst h4
        have hrqf : rq = false := by cases rq <;> simp_all
        refine ⟨_, t, _, by rw [hsch]; exact ht,
          StepsG.call hstep (stepsG_shuts (steps_removeActive hs h3) ht _), Or.inr (Or.inl rfl), ?_⟩
        intro hgc
        rw [hg1]
        refine hgc.step (nc := [x]) (nr := []) (dc := [i]) (dr := []) ?_ ?_ rfl rfl ?_ ?_ ?_
        · rw [removeActive_pubs h3, p1]
          simp only [crashIds_append, hpubs1]
          simp [crashIds]
        · rw [removeActive_pubs h3, p2]
          simp only [rqIds_append, hpubs1]
          simp [rqIds, hrqf]
        · intro col' hcc
          rw [hsch]
          show st1.sched.collection = some col'
          rw [hstat.2.2.1]; exact hcc
        · intro hcn; rw [hcol] at hcn; cases hcn
        · intro col' hcc
          rw [hcol] at hcc; cases hcc
          exact ⟨by simp [idsOfIdx, hci], by simp [idsOfIdx]⟩

end Xdist.Sys
