import XdistProofs.Sys.AcctPubs2
/-! One iteration of the controller loop with its ghost: `loopOnce_ghost`. -/
namespace Xdist.Sys
open Xdist Xdist.Ctl Xdist.Load Xdist.Contract

variable {τ : Type} [DecidableEq τ]

def deathEvent : Ctl.Event τ → Bool
  | .errordown _ _ => true
  | .workerfinished _ _ _ _ => true
  | _ => false

/-- handlers of events that are not a death notice publish no crash report -/
theorem handle_pubs_plain {c c1 : Ctl.State (Load.State τ) τ} {ev : Ctl.Event τ} (h : handle loadI c ev = .ok c1)
    (hev : deathEvent ev = false) : crashIds c1.pubs = crashIds c.pubs ∧ rqIds c1.pubs = rqIds c.pubs := by
  cases ev with
  | workerready n =>
    simp only [handle] at h
    split at h
    · simp only [Except.ok.injEq] at h; subst h; exact ⟨rfl, rfl⟩
    · obtain ⟨a, ha, hb⟩ := map_ok.1 h
      subst hb
      rw [callSched_pubs loadI (r := a.2) (show callSched loadI c (.addNode n) = .ok (a.1, a.2) by rw [ha])]
      exact ⟨rfl, rfl⟩
  | workerfinished n x sf ss => cases hev
  | internalError n =>
    simp only [handle] at h
    obtain ⟨a, ha, hb⟩ := map_ok.1 h
    subst hb
    simp only [crashIds_append, rqIds_append, removeActive_pubs ha]
    exact ⟨by simp [crashIds], by simp [rqIds]⟩
  | errordown n rq => cases hev
  | collectionfinish n ids =>
    simp only [handle, collectionfinish] at h
    split at h
    · simp only [Except.ok.injEq] at h; subst h; exact ⟨rfl, rfl⟩
    · split at h
      · simp only [Except.ok.injEq] at h; subst h; exact ⟨rfl, rfl⟩
      · obtain ⟨r, h1, h2⟩ := bind_ok.1 h
        have e1 := callSched_pubs loadI (r := r.2) (show callSched loadI c (.addNodeCollection n ids) = .ok (r.1, r.2) by rw [h1])
        split at h2
        · obtain ⟨a, ha, hb⟩ := map_ok.1 h2
          subst hb
          rw [callSched_pubs loadI (r := a.2) (show callSched loadI r.1 .schedule = .ok (a.1, a.2) by rw [ha]), e1]
          exact ⟨rfl, rfl⟩
        · simp only [Except.ok.injEq] at h2; subst h2; rw [e1]; exact ⟨rfl, rfl⟩
  | testreport n failed =>
    simp only [handle, Except.ok.injEq] at h; subst h
    rw [handleFailures_pubs]
    simp only [crashIds_append, rqIds_append]
    exact ⟨by simp [crashIds], by simp [rqIds]⟩
  | complete n i slow =>
    simp only [handle] at h
    obtain ⟨a, ha, hb⟩ := map_ok.1 h
    subst hb
    rw [callSched_pubs loadI (r := a.2) (show callSched loadI c _ = .ok (a.1, a.2) by rw [ha])]
    exact ⟨rfl, rfl⟩
  | unscheduled n is =>
    simp only [handle] at h
    obtain ⟨a, ha, hb⟩ := map_ok.1 h
    subst hb
    rw [callSched_pubs loadI (r := a.2) (show callSched loadI c _ = .ok (a.1, a.2) by rw [ha])]
    exact ⟨rfl, rfl⟩
  | collectreport n key failed =>
    simp only [handle] at h
    split at h
    · simp only [Except.ok.injEq] at h; subst h; exact ⟨rfl, rfl⟩
    · simp only [Except.ok.injEq] at h; subst h
      rw [handleFailures_pubs]
      simp only [crashIds_append, rqIds_append]
      exact ⟨by simp [crashIds], by simp [rqIds]⟩
  | other => simp only [handle, Except.ok.injEq] at h; subst h; exact ⟨rfl, rfl⟩

/-- the scheduler calls of an iteration for an event that is not a death notice charge nothing -/
theorem shape_plain {c c' : Ctl.State (Load.State τ) τ} {ev : Ctl.Event τ} {as : List (Atom τ)} (h : Shape loadI c c' ev as)
    (hev : deathEvent ev = false) : ∀ a ∈ as, plainAtom a := by
  cases ev with
  | workerready n =>
    obtain ⟨t, ht, h' | h'⟩ := h
    · rw [h'.2]; intro a ha
      rcases List.mem_cons.1 ha with rfl | ha
      · trivial
      · exact allShut_plain ht a ha
    · rw [h'.2]; intro a ha
      rcases List.mem_cons.1 ha with rfl | ha
      · trivial
      · exact allShut_plain ht a ha
  | complete n i slow =>
    obtain ⟨t, ht, rfl⟩ := h
    intro a ha
    rcases List.mem_cons.1 ha with rfl | ha
    · trivial
    · exact allShut_plain ht a ha
  | unscheduled n is =>
    obtain ⟨t, ht, rfl⟩ := h
    intro a ha
    rcases List.mem_cons.1 ha with rfl | ha
    · trivial
    · exact allShut_plain ht a ha
  | collectionfinish n ids =>
    obtain ⟨t, ht, h' | h' | h'⟩ := h
    · rw [h'.2]; exact allShut_plain ht
    · rw [h'.2.2.2]; intro a ha
      rcases List.mem_cons.1 ha with rfl | ha
      · trivial
      · exact allShut_plain ht a ha
    · rw [h'.2.2]; intro a ha
      rcases List.mem_cons.1 ha with rfl | ha
      · trivial
      · rcases List.mem_cons.1 ha with rfl | ha
        · trivial
        · exact allShut_plain ht a ha
  | errordown n rq => cases hev
  | workerfinished n x sf ss => cases hev
  | internalError n => exact allShut_plain h
  | testreport n f => exact allShut_plain h
  | collectreport n key f => exact allShut_plain h
  | other => exact allShut_plain h

/-- **One iteration of the controller loop with its ghost**: the atoms are determined by the event (`Shape`), and the crash
    reports published are exactly the items charged. -/
theorem loopOnce_ghost {c c' : Ctl.State (Load.State τ) τ} {ev : Ctl.Event τ} (hl : loopOnce loadI c ev = .ok c') (g : Ghost)
    (hb : BalS c.sched g) :
    ∃ as g', StepsG c.sched c.env g as c'.sched c'.env g' ∧ Shape loadI c c' ev as ∧ (GC c g → GC c' g') := by
  cases hev : deathEvent ev with
  | false =>
    obtain ⟨as, hst, hsh⟩ := loopOnce_steps hl
    obtain ⟨g', hg⟩ := steps_toG hst g
    refine ⟨as, g', hg, hsh, ?_⟩
    intro hgc
    obtain ⟨k1, k2⟩ := stepsG_plain hg (shape_plain hsh hev)
    unfold loopOnce at hl
    split at hl
    · cases hl
    obtain ⟨c1, h1, rfl⟩ := map_ok.1 hl
    obtain ⟨p1, p2⟩ := handle_pubs_plain h1 hev
    exact hgc.same (by rw [afterHandler_pubs]; exact p1) (by rw [afterHandler_pubs]; exact p2) k1 k2
      (fun col hc => stepsG_collection hg hb hc)
  | true =>
    unfold loopOnce at hl
    split at hl
    · cases hl
    obtain ⟨a, ha, rfl⟩ := map_ok.1 hl
    obtain ⟨ta, hta0, sa⟩ := steps_afterHandler (I := loadI) a
    have hfin : (afterHandler loadI a).sched = a.sched := afterHandler_sched' loadI a
    have liftK : ∀ {t : List (Atom τ)}, AllShut (· ∈ loadI.nodes a.sched) t → AllShut (TgtK loadI c (afterHandler loadI a) ev) t :=
      fun ht => ht.mono (fun n hn => Or.inr (Or.inl (by rw [hfin]; exact hn)))
    have liftK0 : ∀ {t : List (Atom τ)}, AllShut (· ∈ loadI.nodes c.sched) t → AllShut (TgtK loadI c (afterHandler loadI a) ev) t :=
      fun ht => ht.mono (fun n hn => Or.inl hn)
    have hta := liftK hta0
    -- what follows the handler changes neither reports nor ghost nor the collection
    have finish : ∀ (g1 : Ghost), (GC c g → GC a g1) → GC c g → GC (afterHandler loadI a) g1 := by
      intro g1 hh hgc
      exact (hh hgc).same (by rw [afterHandler_pubs]) (by rw [afterHandler_pubs]) rfl rfl (fun col hc => by rw [hfin]; exact hc)
    cases ev with
    | errordown n rq =>
      simp only [handle] at ha
      obtain ⟨as, t, g1, ht, hs, hshape, hlink⟩ := errordownG ha g hb
      refine ⟨as ++ ta, g1, hs.append (stepsG_shuts sa hta0 g1), ⟨t ++ ta, allShut_append (liftK ht) hta, ?_⟩, finish g1 hlink⟩
      rcases hshape with rfl | rfl | ⟨x, hx, rfl⟩
      · left; rfl
      · right; left; simp
      · right; right; exact ⟨x, hx, by simp⟩
    | workerfinished n x sf ss =>
      simp only [handle] at ha
      unfold workerfinished at ha
      split at ha
      · dsimp only at ha
        obtain ⟨t0, ht0, s0⟩ := steps_triggerShutdown (I := loadI)
          ({ c with shouldstop := some (Stop.keyboard n), pubs := c.pubs ++ [Pub.nodedown n false] } : Ctl.State (Load.State τ) τ)
        have hsch0 : (triggerShutdown loadI ({ c with shouldstop := some (Stop.keyboard n), pubs := c.pubs ++ [Pub.nodedown n false] } :
            Ctl.State (Load.State τ) τ)).sched = c.sched := (triggerShutdown_fields loadI _).2.1
        obtain ⟨as, t, g1, ht, hs, hshape, hlink⟩ := errordownG ha g (by rw [hsch0]; exact hb)
        refine ⟨t0 ++ as ++ ta, g1, ((stepsG_shuts s0 ht0 g).append hs).append (stepsG_shuts sa hta0 g1),
          ⟨t0, t ++ ta, liftK0 ht0, allShut_append (liftK ht) hta, ?_⟩, finish g1 ?_⟩
        · rcases hshape with rfl | rfl | ⟨x, hx, _⟩
          · left; simp
          · right; simp
          · cases hx
        · intro hgc
          apply hlink
          refine hgc.same ?_ ?_ rfl rfl (fun col hc => by rw [hsch0]; exact hc)
          · rw [triggerShutdown_pubs]; simp [crashIds_append, crashIds]
          · rw [triggerShutdown_pubs]; simp [rqIds_append, rqIds]
      · simp only at ha
        split at ha
        · -- the worker ended with a stop request: no scheduler call
          have hs := steps_removeActive (I := loadI) (s := c.sched) (e := c.env) (as := [])
            (st := (if c.shouldstop.isNone = true then
              { c with pubs := c.pubs ++ [Pub.nodedown n false], shouldstop := some (Stop.worker _) }
            else { c with pubs := c.pubs ++ [Pub.nodedown n false] })) (by split <;> exact Steps.nil _ _) ha
          refine ⟨[] ++ ta, g, (stepsG_shuts (K := fun _ => True) hs allShut_nil g).append (stepsG_shuts sa hta0 g),
            ⟨[], ta, allShut_nil, hta, Or.inl rfl⟩, finish g ?_⟩
          intro hgc
          obtain ⟨_, g2, _⟩ := removeActive_fields ha
          refine hgc.same ?_ ?_ rfl rfl (fun col hc => by rw [g2]; split <;> exact hc)
          · rw [removeActive_pubs ha]; split <;> simp [crashIds_append, crashIds]
          · rw [removeActive_pubs ha]; split <;> simp [rqIds_append, rqIds]
        · split at ha
          · split at ha
            · simp at ha
            · simp at ha
            · rename_i st1 hc
              have hstep := callSched_load hc
              have hrm : Load.removeNode c.sched c.env n = .ok (st1.sched, st1.env, none) := by
                simpa [Load.step] using hstep
              obtain ⟨hbook, _⟩ := removeNode_none_book hrm
              have hg : Load.ghostOp c.sched st1.sched g (.removeNode n) = g := ghostOp_rm_nil hbook
              have hs := steps_removeActive (I := loadI) (Steps.nil st1.sched st1.env) ha
              refine ⟨_, g, (StepsG.call hstep (by rw [hg]; exact stepsG_shuts (K := fun _ => True) hs allShut_nil g)).append (stepsG_shuts sa hta0 g),
                ⟨[], ta, allShut_nil, hta, Or.inr rfl⟩, finish g ?_⟩
              intro hgc
              obtain ⟨_, g2, _⟩ := removeActive_fields ha
              refine hgc.same ?_ ?_ rfl rfl (fun col hcc => by rw [g2]; exact step_collection hb.1 hstep hcc)
              · rw [removeActive_pubs ha, callSched_pubs loadI hc]; simp [crashIds_append, crashIds]
              · rw [removeActive_pubs ha, callSched_pubs loadI hc]; simp [rqIds_append, rqIds]
          · have hs := steps_removeActive (I := loadI) (s := c.sched) (e := c.env) (as := [])
              (st := { c with pubs := c.pubs ++ [Pub.nodedown n false] }) (Steps.nil _ _) ha
            refine ⟨[] ++ ta, g, (stepsG_shuts (K := fun _ => True) hs allShut_nil g).append (stepsG_shuts sa hta0 g),
              ⟨[], ta, allShut_nil, hta, Or.inl rfl⟩, finish g ?_⟩
            intro hgc
            obtain ⟨_, g2, _⟩ := removeActive_fields ha
            refine hgc.same ?_ ?_ rfl rfl (fun col hc => by rw [g2]; exact hc)
            · rw [removeActive_pubs ha]; simp [crashIds_append, crashIds]
            · rw [removeActive_pubs ha]; simp [rqIds_append, rqIds]
    | workerready n => cases hev
    | internalError n => cases hev
    | collectionfinish n ids => cases hev
    | testreport n f => cases hev
    | complete n i slow => cases hev
    | unscheduled n is => cases hev
    | collectreport n key f => cases hev
    | other => cases hev

end Xdist.Sys
