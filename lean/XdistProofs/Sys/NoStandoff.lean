import XdistProofs.Sys.Inv
/-!
  **No stand-off** in `--dist load`, from the system invariant: in every state that satisfies `Inv`, in which the session
  is not finished and the collection phase is complete, some thread can take a step — the controller has an event to
  handle, a receiver thread has a message to process, a command can be delivered, or a worker's main thread can go on.
-/
namespace Xdist.Sys
open Xdist Xdist.Ctl

variable {τ : Type} [DecidableEq τ]

/-- some step other than a crash is enabled -/
def Enabled (idsOf : Nat → List τ) (st : LState τ) : Prop :=
  ∃ a : Step, (∀ k b, a ≠ .crash k b) ∧ step loadI idsOf st a ≠ .error .notEnabled

theorem enabled_of {idsOf : Nat → List τ} {st : LState τ} (a : Step) (h1 : ∀ k b, a ≠ .crash k b)
    (h2 : step loadI idsOf st a ≠ .error .notEnabled) : Enabled idsOf st := ⟨a, h1, h2⟩

/-- what is known about an active worker when nothing of it can move -/
structure Stuck (st : LState τ) (k : Nat) (w : Wk τ) : Prop where
  alive : w.alive = true
  notDown : (st.ctl.env.flags.get k).down = false
  loop : w.phase = .loop
  noInbox : w.inbox = []
  noTorun : w.w.torun = []
  noOutbox : w.outbox = []
  noPosted : w.posted = []
  pc : w.w.pc = .init ∨ w.w.pc = .haveItem

theorem mainStep_enabled (k : Nat) (w : Wk τ) (ha : w.alive = true) (hp : w.phase ≠ .done)
    (hloop : w.phase = .loop → w.w.pc ≠ .done ∧ (w.w.pc = .running → w.sub ≤ 2 ∧ w.w.cur.isSome = true) ∧
      (w.w.pc = .haveItem → ∃ j, w.w.next = some (.test j)))
    (hstuck : ¬ (w.phase = .loop ∧ w.w.torun = [] ∧ (w.w.pc = .init ∨ w.w.pc = .haveItem))) :
    ∃ p, (mainStep k w p).isSome = true := by
  cases hph : w.phase with
  | boot => exact ⟨.none, by simp [mainStep, ha, hph]⟩
  | collect => exact ⟨.collect [] false false none, by simp [mainStep, ha, hph]⟩
  | finish => exact ⟨.none, by simp [mainStep, ha, hph]⟩
  | done => exact absurd hph hp
  | loop =>
    obtain ⟨h1, h2, h3⟩ := hloop hph
    cases hpc : w.w.pc with
    | done => exact absurd hpc h1
    | init =>
      cases ht : w.w.torun with
      | nil => exact absurd ⟨hph, ht, Or.inl hpc⟩ hstuck
      | cons q r => exact ⟨.none, by simp [mainStep, ha, hph, hpc, Worker.get0, ht]⟩
    | haveItem =>
      obtain ⟨j, hj⟩ := h3 hpc
      cases ht : w.w.torun with
      | nil => exact absurd ⟨hph, ht, Or.inr hpc⟩ hstuck
      | cons q r => exact ⟨.none, by simp [mainStep, ha, hph, hpc, Worker.get1, ht, hj]⟩
    | running =>
      obtain ⟨hs, hc⟩ := h2 hpc
      obtain ⟨i, hi⟩ := Option.isSome_iff_exists.1 hc
      rcases Nat.lt_or_ge w.sub 1 with h0 | h0
      · have : w.sub = 0 := by omega
        exact ⟨.none, by simp [mainStep, ha, hph, hpc, this]⟩
      · rcases Nat.lt_or_ge w.sub 2 with h1' | h1'
        · have : w.sub = 1 := by omega
          exact ⟨.reports [] none none false, by simp [mainStep, ha, hph, hpc, this]⟩
        · have : w.sub = 2 := by omega
          refine ⟨.complete false, ?_⟩
          by_cases hx : w.exitstatus = 2
          · simp [mainStep, ha, hph, hpc, this, hx]
          · simp [mainStep, ha, hph, hpc, this, hx, hi, Worker.finish]

/-- an active worker of which no step is enabled is alive, in its run loop, holding at most the test it cannot start -/
theorem stuck_of_not_enabled (idsOf : Nat → List τ) {st : LState τ} (hinv : Inv st)
    (hnf : Ctl.sessionFinished st.ctl = false) (hne : ¬ Enabled idsOf st) {k : Nat} (hk : k ∈ st.ctl.active) :
    ∃ w, st.wk[k]? = some w ∧ Stuck st k w := by
  have hlt : k < st.wk.length := by rw [hinv.1.len]; exact hinv.1.activeLt k hk
  obtain ⟨w, hw⟩ : ∃ w, st.wk[k]? = some w := ⟨st.wk[k], by simp [hlt]⟩
  have wi := hinv.wk hw
  have hact : st.ctl.active.isEmpty = false := by
    cases hh : st.ctl.active with
    | nil => rw [hh] at hk; simp at hk
    | cons a t => rfl
  -- the controller has nothing of `k` to handle
  have hposted : w.posted = [] := by
    cases hp : w.posted with
    | nil => rfl
    | cons ev rest =>
      exfalso
      apply hne
      refine enabled_of (.ctl k false) (by intro a b h; cases h) ?_
      simp only [step, ctlStep, hnf, hact, hw, hp, Bool.false_eq_true, ↓reduceIte]
      split <;> simp
  -- the receiver thread has nothing to process
  have houtbox : w.outbox = [] := by
    cases ho : w.outbox with
    | nil => rfl
    | cons m rest =>
      exfalso
      apply hne
      refine enabled_of (.recv k) (by intro a b h; cases h) ?_
      simp [step, recvStep, hw, ho]
  have hdown : (st.ctl.env.flags.get k).down = false := by
    cases hd : (st.ctl.env.flags.get k).down with
    | false => rfl
    | true =>
      have := wi.notice2 hk hd
      rw [hposted] at this; simp at this
  have halive : w.alive = true ∧ w.phase ≠ .done := by
    rcases wi.notice1 hk hdown with h | h
    · exact h
    · rw [houtbox] at h; simp at h
  -- the main thread cannot move
  have hmain : w.phase = .loop ∧ w.w.torun = [] ∧ (w.w.pc = .init ∨ w.w.pc = .haveItem) := by
    apply Classical.byContradiction
    intro hns
    obtain ⟨p, hp⟩ := mainStep_enabled k w halive.1 halive.2
      (fun hl => ⟨(wi.loopCb hl).2, wi.running, wi.have1⟩) hns
    apply hne
    refine enabled_of (.main k p) (by intro a b h; cases h) ?_
    obtain ⟨w', hw'⟩ := Option.isSome_iff_exists.1 hp
    simp [step, hw, hw']
  have hinbox : w.inbox = [] := by
    cases hi : w.inbox with
    | nil => rfl
    | cons c rest =>
      exfalso
      apply hne
      refine enabled_of (.deliver k) (by intro a b h; cases h) ?_
      have hcb := (wi.loopCb hmain.1).1
      have : ∃ w', deliverStep k w = some w' := by
        unfold deliverStep
        simp only [halive.1, hcb, hmain.1, hi]
        cases c <;> simp
      obtain ⟨w', hw'⟩ := this
      simp [step, hw, hw']
  exact ⟨w, hw, ⟨halive.1, hdown, hmain.1, hinbox, hmain.2.1, houtbox, hposted, hmain.2.2⟩⟩

theorem Stuck.heldS_le {st : LState τ} {k : Nat} {w : Wk τ} (s : Stuck st k w) : (heldS w).length ≤ 1 := by
  unfold heldS
  rw [s.noTorun]
  have : ¬ w.w.pc = .running := by
    rcases s.pc with h | h <;> rw [h] <;> intro hh <;> cases hh
  simp only [this, ↓reduceIte, List.nil_append, Worker.tests, List.append_nil]
  split <;> simp

theorem Stuck.book_le {st : LState τ} (hinv : Inv st) {k : Nat} {w : Wk τ} (hw : st.wk[k]? = some w) (s : Stuck st k w)
    {book : List Nat} (hb : AList.lookup st.ctl.sched.node2pending k = some book) : book.length ≤ 1 := by
  have wi := hinv.wk hw
  have hs := wi.sync s.alive s.notDown
  unfold SyncD at hs
  rw [hb] at hs
  simp only at hs
  have hf : flight k w = [] := by simp [flight, s.noPosted, s.noOutbox]
  have hi : inboxRuns w = [] := by simp [inboxRuns, s.noInbox]
  rw [hf, hi] at hs
  simp only [completes, List.filterMap_nil, List.nil_append, List.append_nil] at hs
  rw [hs]; exact s.heldS_le

theorem Stuck.notFlagged {st : LState τ} (hinv : Inv st) {k : Nat} {w : Wk τ} (hw : st.wk[k]? = some w) (s : Stuck st k w) :
    st.ctl.env.flags.shuttingDown k = false := by
  have wi := hinv.wk hw
  have hsent : (st.ctl.env.flags.get k).sent = false := by
    cases hs : (st.ctl.env.flags.get k).sent with
    | false => rfl
    | true =>
      have := wi.shut s.alive hs
      unfold shutSeen at this
      rw [s.noInbox, s.noTorun] at this
      rcases s.pc with h | h
      · rw [wi.init0 h] at this; simp at this
      · obtain ⟨j, hj⟩ := wi.have1 h
        rw [hj] at this; simp at this
  unfold Flags.shuttingDown
  rw [s.notDown, hsent]; rfl

/-- **No stand-off (`--dist load`, after collection)**: under the system invariant, while the session is not finished
    some step other than a crash is enabled. -/
theorem no_standoff (idsOf : Nat → List τ) {st : LState τ} (hinv : Inv st)
    (hnf : Ctl.sessionFinished st.ctl = false) (hc : Load.collectionIsCompleted st.ctl.sched = true) :
    Enabled idsOf st := by
  apply Classical.byContradiction
  intro hne
  -- no active worker: the controller raises (a step, not a stand-off)
  have hact : ∃ n, n ∈ st.ctl.active := by
    cases hh : st.ctl.active with
    | nil =>
      exfalso
      apply hne
      refine enabled_of (.ctl 0 false) (by intro a b h; cases h) ?_
      simp [step, ctlStep, hnf, hh]
    | cons a t => exact ⟨a, by simp⟩
  obtain ⟨n, hn⟩ := hact
  obtain ⟨w, hw, sn⟩ := stuck_of_not_enabled idsOf hinv hnf hne hn
  have wi := hinv.wk hw
  have hnf' := sn.notFlagged hinv hw
  -- `n` is a scheduler node: its `workerready` was handled while the session was not shutting down
  have hf : flight n w = [] := by simp [flight, sn.noPosted, sn.noOutbox]
  have hkeys : n ∈ AList.keys st.ctl.sched.node2pending :=
    wi.ready hn hnf' (by rw [sn.loop]; intro h; cases h) (by rw [hf]; rfl)
  obtain ⟨book, hb⟩ : ∃ b, AList.lookup st.ctl.sched.node2pending n = some b := by
    have := (AList.lookup_isSome_iff_mem_keys st.ctl.sched.node2pending n).2 hkeys
    cases hl : AList.lookup st.ctl.sched.node2pending n with
    | none => rw [hl] at this; cases this
    | some b => exact ⟨b, rfl⟩
  -- nothing is left to hand out
  have hpend : st.ctl.sched.pending = [] := by
    have hcp : collPending n w = false := by
      unfold collPending; rw [hf, sn.loop]; rfl
    rcases wi.qn with h | h
    · rw [hcp] at h; cases h
    · unfold QnD at h
      rw [hb] at h
      rcases h with h | h | h
      · rw [hnf'] at h; cases h
      · have := sn.book_le hinv hw hb; omega
      · exact h
  -- every scheduler node is an active worker (else a stop is in force and everybody was told to shut down)
  have hall : ∀ m ∈ AList.keys st.ctl.sched.node2pending, m ∈ st.ctl.active := by
    intro m hm
    apply Classical.byContradiction
    intro hma
    have hlt : m < st.wk.length ∨ ¬ m < st.wk.length := Nat.lt_or_ge m st.wk.length |>.elim Or.inl (fun h => Or.inr (by omega))
    -- use the invariant of worker `n` instead: `keysActive` is stated per worker, for `m` we need its record
    rcases hlt with hlt | hlt
    · have hwm : st.wk[m]? = some st.wk[m] := by simp [hlt]
      rcases (hinv.wk hwm).keysActive hm with h | h
      · exact hma h
      · have := hinv.1.shutInv (hinv.1.stopShut h) n hkeys
        rw [hnf'] at this; cases this
    · -- a key beyond the worker table: excluded by the invariant of the controller (see `keysLt`)
      exact absurd (hinv.1.keysLt m hm) (by rw [← hinv.1.len]; exact hlt)
  -- hence every book holds at most one test: `tests_finished`, so everybody was told to shut down
  have htf : Load.testsFinished st.ctl.sched = true := by
    unfold Load.testsFinished
    rw [hc, hpend]
    simp only [List.isEmpty_nil, Bool.and_self, Bool.true_and, List.all_eq_true, decide_eq_true_eq]
    intro p hp
    have hpk : p.1 ∈ AList.keys st.ctl.sched.node2pending := List.mem_map.2 ⟨p, hp, rfl⟩
    obtain ⟨wm, hwm, sm⟩ := stuck_of_not_enabled idsOf hinv hnf hne (hall p.1 hpk)
    have hl := AList.lookup_of_mem _ hinv.1.nodup p hp
    have := sm.book_le hinv hwm hl
    omega
  have := hinv.1.tf htf n hkeys
  rw [hnf'] at this; cases this

end Xdist.Sys
