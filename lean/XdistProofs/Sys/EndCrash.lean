import XdistProofs.Sys.AcctH2
/-!
  The end of a session **with worker loss**: while the shutdown is in force, no stop reason is set and the restart budget is not
  exceeded (`QuietEnd`), the pool is empty and no worker is booked more than one test (`PoolDone`) — the shutdown can only have
  been triggered by `tests_finished`, and nothing is handed out or returned to the pool afterwards (a worker that dies then
  either holds at most the test it is running, or revokes the shutdown by being replaced).
-/
namespace Xdist.Ctl
open Xdist

variable {σ τ : Type}

def QuietEnd (c : State σ τ) : Prop := c.shuttingdown = true ∧ c.shouldstop = none ∧ c.summary = none

theorem triggerShutdown_summary (I : SchedI σ τ) (st : State σ τ) : (triggerShutdown I st).summary = st.summary := by
  unfold triggerShutdown; split <;> rfl

theorem triggerShutdown_shut (I : SchedI σ τ) (st : State σ τ) : (triggerShutdown I st).shuttingdown = true := by
  unfold triggerShutdown; split
  · assumption
  · rfl

theorem callSched_summary (I : SchedI σ τ) {st st' : State σ τ} {op : SOp τ} {r : Option τ}
    (h : callSched I st op = .ok (st', r)) : st'.summary = st.summary := by
  unfold callSched at h
  obtain ⟨a, _, hb⟩ := map_ok.1 h
  simp only [Prod.mk.injEq] at hb
  obtain ⟨rfl, _⟩ := hb
  rfl

theorem removeActive_summary {st st' : State σ τ} {n : Nat} (h : removeActive st n = .ok st') : st'.summary = st.summary := by
  unfold removeActive at h
  split at h
  · simp only [Except.ok.injEq] at h; subst h; rfl
  · simp at h

theorem handleFailures_summary (st : State σ τ) (f : Bool) : (handleFailures st f).summary = st.summary := by
  unfold handleFailures
  split
  · simp only; split <;> rfl
  · rfl

/-- after `worker_errordown` the session is not in a quiet shutdown: either the budget is exceeded (summary line set) or the
    shutdown was revoked for the replacement -/
theorem errordown_not_quiet (I : SchedI σ τ) {st st' : State σ τ} {n : Nat} {rq : Bool} (h : errordown I st n rq = .ok st') :
    ¬ QuietEnd st' := by
  have key : ∀ (a : State σ τ), removeActive (restartOrStop I a n) n = .ok st' → ¬ QuietEnd st' := by
    intro a ha hq
    obtain ⟨q1, _, q3⟩ := hq
    rw [(removeActive_fields ha).2.2.1] at q1
    rw [removeActive_summary ha] at q3
    rcases restartOrStop_cases I a n with ⟨b, hh⟩ | hh
    · rw [hh, triggerShutdown_summary] at q3; cases q3
    · rw [hh] at q1; simp [cloneNode] at q1
  unfold errordown at h
  simp only at h
  split at h
  · exact key _ h
  · cases h
  · exact key _ h
  · obtain ⟨st2, _, h2⟩ := bind_ok.1 h
    exact key _ h2

end Xdist.Ctl

namespace Xdist.Sys
open Xdist Xdist.Ctl Xdist.Load Xdist.Contract

variable {τ : Type} [DecidableEq τ]

/-- nothing left to hand out, nobody booked more than the test in hand -/
def PoolDone (s : Load.State τ) : Prop := s.pending = [] ∧ ∀ p ∈ s.node2pending, p.2.length < 2

theorem poolDone_of_finished {s : Load.State τ} (h : Load.testsFinished s = true) : PoolDone s := by
  unfold Load.testsFinished at h
  simp only [Bool.and_eq_true, List.all_eq_true, decide_eq_true_eq] at h
  exact ⟨List.isEmpty_iff.1 h.1.2, h.2⟩

theorem mem_alist_set {d : AList Nat (List Nat)} {n : Nat} {v : List Nat} {p : Nat × List Nat} (h : p ∈ AList.set d n v) :
    p = (n, v) ∨ p ∈ d := by
  induction d with
  | nil => simp only [AList.set, List.mem_singleton] at h; exact Or.inl h
  | cons q t ih =>
    obtain ⟨k, w⟩ := q
    simp only [AList.set] at h
    split at h
    · rename_i hk
      rcases List.mem_cons.1 h with h | h
      · left; rw [h, hk]
      · right; exact List.mem_cons_of_mem _ h
    · rcases List.mem_cons.1 h with h | h
      · right; rw [h]; exact List.mem_cons_self
      · rcases ih h with h' | h'
        · exact Or.inl h'
        · exact Or.inr (List.mem_cons_of_mem _ h')

theorem mem_alist_erase {d : AList Nat (List Nat)} {n : Nat} {p : Nat × List Nat} (h : p ∈ AList.erase d n) : p ∈ d := by
  induction d with
  | nil => simp [AList.erase] at h
  | cons q t ih =>
    obtain ⟨k, w⟩ := q
    simp only [AList.erase] at h
    split at h
    · exact List.mem_cons_of_mem _ h
    · rcases List.mem_cons.1 h with h | h
      · rw [h]; exact List.mem_cons_self
      · exact List.mem_cons_of_mem _ (ih h)

theorem mem_of_lookup {d : AList Nat (List Nat)} {n : Nat} {b : List Nat} (h : AList.lookup d n = some b) : (n, b) ∈ d := by
  induction d with
  | nil => simp [AList.lookup] at h
  | cons q t ih =>
    obtain ⟨k, w⟩ := q
    simp only [AList.lookup] at h
    split at h
    · rename_i hk
      simp only [Option.some.injEq] at h
      rw [← hk, ← h]; exact List.mem_cons_self
    · exact List.mem_cons_of_mem _ (ih h)

/-- with an empty pool `check_schedule` hands out nothing -/
theorem checkSchedule_pool_nil {s s' : Load.State τ} {e e' : Env} {n : Nat} {slow : Bool} (hp : s.pending = [])
    (h : Load.checkSchedule s e n slow = .ok (s', e')) : s' = s := by
  unfold Load.checkSchedule at h
  split at h
  · simp only [Except.ok.injEq, Prod.mk.injEq] at h; exact h.1.symm
  · simp only [hp, List.isEmpty_nil, Bool.not_true, Bool.false_eq_true, ↓reduceIte, Except.ok.injEq, Prod.mk.injEq] at h
    exact h.1.symm

theorem markComplete_poolDone {s s' : Load.State τ} {e e' : Env} {n i : Nat} {slow : Bool} (hd : PoolDone s)
    (h : Load.markComplete s e n i slow = .ok (s', e')) : PoolDone s' := by
  unfold Load.markComplete at h
  obtain ⟨book, hb, h⟩ := bind_ok.1 h
  obtain ⟨book', hb', h⟩ := bind_ok.1 h
  have := checkSchedule_pool_nil (s := { s with node2pending := s.node2pending.set n book' }) hd.1 h
  subst this
  refine ⟨hd.1, ?_⟩
  intro p hp
  rcases mem_alist_set hp with rfl | hp
  · simp only
    have hlen : book'.length ≤ book.length := by
      unfold PyList.remove at hb'
      split at hb'
      · simp only [Except.ok.injEq] at hb'; subst hb'
        rw [List.length_erase]; split <;> omega
      · cases hb'
    have := hd.2 (n, book) (mem_of_lookup (AList.get_eq_ok.1 hb))
    simp only at this
    omega
  · exact hd.2 p hp

theorem removeNode_none_sched {s s' : Load.State τ} {e e' : Env} {n : Nat} (h : Load.removeNode s e n = .ok (s', e', none)) :
    s' = { s with node2pending := AList.erase s.node2pending n } := by
  unfold Load.removeNode at h
  obtain ⟨⟨book, n2p⟩, hp, h1⟩ := bind_ok.1 h
  obtain ⟨hl, rfl⟩ := AList.pop_eq_ok.1 hp
  simp only at h1
  split at h1
  · simp only [Except.ok.injEq, Prod.mk.injEq] at h1
    exact h1.1.symm
  · split at h1
    · cases h1
    · split at h1
      · cases h1
      · obtain ⟨⟨s3, e3⟩, _, h3⟩ := bind_ok.1 h1
        simp at h3

/-- **the handler, while the session stays in a quiet shutdown**: it was in one before, and it hands nothing out -/
theorem handle_end {c c1 : Ctl.State (Load.State τ) τ} {ev : Ctl.Event τ} (h : handle loadI c ev = .ok c1) (hq : QuietEnd c1) :
    QuietEnd c ∧ (PoolDone c.sched → PoolDone c1.sched) := by
  obtain ⟨q1, q2, q3⟩ := hq
  cases ev with
  | workerready n =>
    simp only [handle] at h
    split at h
    · rename_i hsd
      simp only [Except.ok.injEq] at h; subst h
      exact ⟨⟨hsd, q2, q3⟩, fun hd => hd⟩
    · rename_i hsd
      obtain ⟨a, ha, hb⟩ := map_ok.1 h
      subst hb
      have := (callSched_fields loadI (r := a.2) (show callSched loadI c (.addNode n) = .ok (a.1, a.2) by rw [ha])).2.2.1
      rw [this] at q1
      exact absurd q1 hsd
  | workerfinished n x sf ss =>
    simp only [handle] at h
    unfold workerfinished at h
    split at h
    · exact absurd ⟨q1, q2, q3⟩ (errordown_not_quiet loadI h)
    · simp only at h
      split at h
      · exfalso
        rw [(removeActive_fields h).2.2.2.1] at q2
        split at q2
        · cases q2
        · rename_i hns
          simp only at q2
          rw [q2] at hns; simp at hns
      · split at h
        · split at h
          · cases h
          · cases h
          · rename_i st' hc
            obtain ⟨f1, f2, f3, _⟩ := callSched_fields loadI hc
            obtain ⟨g1, g2, g3, g4, _⟩ := removeActive_fields h
            refine ⟨⟨by rw [← f3, ← g3]; exact q1, by rw [← f2, ← g4]; exact q2,
              by rw [← callSched_summary loadI hc, ← removeActive_summary h]; exact q3⟩, ?_⟩
            intro hd
            rw [g2]
            have hrm : Load.removeNode c.sched c.env n = .ok (st'.sched, st'.env, none) := by
              have := f1
              simp only [loadI, Load.step] at this
              exact this
            rw [removeNode_none_sched hrm]
            exact ⟨hd.1, fun p hp => hd.2 p (mem_alist_erase hp)⟩
        · obtain ⟨g1, g2, g3, g4, _⟩ := removeActive_fields h
          exact ⟨⟨by rw [← g3]; exact q1, by rw [← g4]; exact q2, by rw [← removeActive_summary h]; exact q3⟩,
            fun hd => by rw [g2]; exact hd⟩
  | internalError n =>
    simp only [handle] at h
    obtain ⟨a, ha, hb⟩ := map_ok.1 h
    subst hb
    obtain ⟨g1, g2, g3, g4, _⟩ := removeActive_fields ha
    exact ⟨⟨by rw [← g3]; exact q1, by rw [← g4]; exact q2, by rw [← removeActive_summary ha]; exact q3⟩,
      fun hd => by simp only; rw [g2]; exact hd⟩
  | errordown n rq =>
    simp only [handle] at h
    exact absurd ⟨q1, q2, q3⟩ (errordown_not_quiet loadI h)
  | collectionfinish n ids =>
    simp only [handle, collectionfinish] at h
    split at h
    · simp only [Except.ok.injEq] at h; subst h
      exact ⟨⟨q1, q2, q3⟩, fun hd => hd⟩
    · rename_i hsd
      exfalso
      split at h
      · simp only [Except.ok.injEq] at h; subst h; exact hsd q1
      · obtain ⟨r, h1, h2⟩ := bind_ok.1 h
        have e1 := (callSched_fields loadI (r := r.2) (show callSched loadI c (.addNodeCollection n ids) = .ok (r.1, r.2) by rw [h1])).2.2.1
        split at h2
        · obtain ⟨a, ha, hb⟩ := map_ok.1 h2
          subst hb
          rw [(callSched_fields loadI (r := a.2) (show callSched loadI r.1 .schedule = .ok (a.1, a.2) by rw [ha])).2.2.1, e1] at q1
          exact hsd q1
        · simp only [Except.ok.injEq] at h2; subst h2; rw [e1] at q1; exact hsd q1
  | testreport n failed =>
    simp only [handle, Except.ok.injEq] at h; subst h
    obtain ⟨f1, f2, f3, f4⟩ := handleFailures_fields ({ c with pubs := c.pubs ++ [.report n failed] } : Ctl.State (Load.State τ) τ) failed
    refine ⟨⟨by rw [f3] at q1; exact q1, ?_, by rw [handleFailures_summary] at q3; exact q3⟩, fun hd => by rw [f2]; exact hd⟩
    cases hs : c.shouldstop with
    | none => rfl
    | some r =>
      have := f4 (by simp [hs])
      rw [q2] at this; cases this
  | complete n i slow =>
    simp only [handle] at h
    obtain ⟨a, ha, hb⟩ := map_ok.1 h
    subst hb
    have hc : callSched loadI c (.markComplete n i slow) = .ok (a.1, a.2) := by rw [ha]
    obtain ⟨f1, f2, f3, _⟩ := callSched_fields loadI hc
    refine ⟨⟨by rw [← f3]; exact q1, by rw [← f2]; exact q2, by rw [← callSched_summary loadI hc]; exact q3⟩, ?_⟩
    intro hd
    simp only [loadI, Load.step] at f1
    obtain ⟨r, hr, hr2⟩ := map_ok.1 f1
    simp only [Prod.mk.injEq] at hr2
    obtain ⟨hr2a, _, _⟩ := hr2
    rw [← hr2a]
    exact markComplete_poolDone hd (show Load.markComplete c.sched c.env n i slow = .ok (r.1, r.2) by rw [hr])
  | unscheduled n is =>
    simp only [handle] at h
    obtain ⟨a, ha, hb⟩ := map_ok.1 h
    have hc : callSched loadI c (.removePending n is) = .ok (a.1, a.2) := by rw [ha]
    have := (callSched_fields loadI hc).1
    simp [loadI, Load.step] at this
  | collectreport n key failed =>
    simp only [handle] at h
    split at h
    · simp only [Except.ok.injEq] at h; subst h
      exact ⟨⟨q1, q2, q3⟩, fun hd => hd⟩
    · simp only [Except.ok.injEq] at h; subst h
      obtain ⟨f1, f2, f3, f4⟩ := handleFailures_fields
        ({ c with seenCollect := c.seenCollect ++ [key], pubs := c.pubs ++ [.collect key] } : Ctl.State (Load.State τ) τ) failed
      refine ⟨⟨by rw [f3] at q1; exact q1, ?_, by rw [handleFailures_summary] at q3; exact q3⟩, fun hd => by rw [f2]; exact hd⟩
      cases hs : c.shouldstop with
      | none => rfl
      | some r =>
        have := f4 (by simp [hs])
        rw [q2] at this; cases this
  | other =>
    simp only [handle, Except.ok.injEq] at h; subst h
    exact ⟨⟨q1, q2, q3⟩, fun hd => hd⟩

/-- one iteration of the controller loop -/
theorem loopOnce_end {c c' : Ctl.State (Load.State τ) τ} {ev : Ctl.Event τ} (hl : loopOnce loadI c ev = .ok c')
    (hq : QuietEnd c') (ih : QuietEnd c → PoolDone c.sched) : PoolDone c'.sched := by
  unfold loopOnce at hl
  split at hl
  · cases hl
  obtain ⟨c1, h1, rfl⟩ := map_ok.1 hl
  rw [afterHandler_sched']
  cases htf : Load.testsFinished c1.sched with
  | true => exact poolDone_of_finished htf
  | false =>
    obtain ⟨q1, q2, q3⟩ := hq
    have hss : (afterHandler loadI c1).shouldstop = c1.shouldstop := by
      unfold afterHandler
      simp only [loadI, htf, Bool.false_eq_true, ↓reduceIte]
      split
      · exact (triggerShutdown_fields _ _).1
      · rfl
    rw [hss] at q2
    have heq : afterHandler loadI c1 = c1 := by
      unfold afterHandler
      simp only [loadI, htf, Bool.false_eq_true, ↓reduceIte, q2, Option.isSome_none]
    rw [heq] at q1 q3
    obtain ⟨hqc, hpd⟩ := handle_end h1 ⟨q1, q2, q3⟩
    exact hpd (ih hqc)

/-- ninth layer -/
def Inv9 (st : LState τ) : Prop := QuietEnd st.ctl → PoolDone st.ctl.sched

theorem step_inv9 (idsOf : Nat → List τ) {st st' : LState τ} (a : Step) (h9 : Inv9 st) (h : step loadI idsOf st a = .ok st') :
    Inv9 st' := by
  cases a with
  | ctl k rq =>
    simp only [Sys.step] at h
    obtain ⟨w, ev0, rest, c', hw, hp, hl, rfl⟩ := ctlStep_shape h
    intro hq
    exact loopOnce_end hl hq h9
  | main k p =>
    have hs := other_sched (.main k p) (by intro _ _ hh; cases hh) h
    simp only [Sys.step] at h
    split at h
    · cases h
    · split at h
      · cases h
      · simp only [Except.ok.injEq] at h; subst h
        exact h9
  | deliver k =>
    simp only [Sys.step] at h
    split at h
    · cases h
    · split at h
      · cases h
      · simp only [Except.ok.injEq] at h; subst h
        exact h9
  | recv k =>
    simp only [Sys.step] at h
    split at h
    · cases h
    rename_i s1 hr
    simp only [Except.ok.injEq] at h; subst h
    obtain ⟨w, m, rest, fl', w2, outs', _, _, rfl, _⟩ := recvStep_shape hr
    exact h9
  | crash k b =>
    simp only [Sys.step] at h
    split at h
    · cases h
    rename_i s1 hc
    simp only [Except.ok.injEq] at h; subst h
    unfold crashStep at hc
    split at hc
    · cases hc
    split at hc
    · cases hc
    split at hc
    · simp only [Option.some.injEq] at hc; subst hc; exact h9
    · simp only [Option.some.injEq] at hc; subst hc; exact h9

end Xdist.Sys
