import XdistProofs.Sys.AcctWk
/-! The eighth layer (`Inv8`), per worker: nothing a worker has completed is dropped on its way to the controller. -/
namespace Xdist.Sys
open Xdist Xdist.Ctl Xdist.Load Xdist.Contract

variable {τ : Type} [DecidableEq τ]

structure WkInv8 (c : Ctl.State (Load.State τ) τ) (W : List Nat) (k : Nat) (w : Wk τ) : Prop where
  /-- the channel of a live worker that has finished: everything up to `workerfinished` and the end marker, or — once the
      controller's receiver thread has seen `workerfinished` — at most the end marker -/
  tailA : w.alive = true → w.phase = .done → k ∉ W →
    ((c.env.flags.get k).down = false ∧ ∃ a x sf ss, w.outbox = a ++ [WMsg.fin x sf ss, .endMarker] ∧
        (∀ m ∈ a, isEnd m = false) ∧ (∀ m ∈ a, isFin m = false)) ∨
    ((c.env.flags.get k).down = true ∧ (w.outbox = [.endMarker] ∨ w.outbox = []))
  suf : k ∉ W → Suf w

def Inv8w (st : LState τ) (W : List Nat) : Prop := ∀ k w, st.wk[k]? = some w → WkInv8 st.ctl W k w

/-- the receiver thread of the controller never drops a completion of a worker that was not written off because of an
    undecodable message -/
theorem quiet {c : Ctl.State (Load.State τ) τ} {W : List Nat} {k : Nat} {w : Wk τ} (h7 : WkInv7 c W k w) (h8 : WkInv8 c W k w)
    (hW : k ∉ W) (hd : (c.env.flags.get k).down = true) : w.outbox.filterMap msgC = [] := by
  cases ha : w.alive with
  | false => rw [h7.deadDown ha hW hd]; rfl
  | true =>
    have hp := h7.downWhy ha hW hd
    rcases h8.tailA ha hp hW with ⟨h', _⟩ | ⟨_, h' | h'⟩
    · rw [hd] at h'; cases h'
    · rw [h']; rfl
    · rw [h']; rfl

theorem WkInv8.mono {c : Ctl.State (Load.State τ) τ} {W W' : List Nat} {j : Nat} {w : Wk τ} (hW : ∀ x, x ∈ W → x ∈ W')
    (h : WkInv8 c W j w) : WkInv8 c W' j w :=
  ⟨fun a b d => h.tailA a b (fun hh => d (hW _ hh)), fun d => h.suf (fun hh => d (hW _ hh))⟩

theorem WkInv8.congr {c c' : Ctl.State (Load.State τ) τ} {W : List Nat} {j : Nat} {w : Wk τ}
    (hd : (c'.env.flags.get j).down = (c.env.flags.get j).down) (h : WkInv8 c W j w) : WkInv8 c' W j w :=
  ⟨by rw [hd]; exact h.tailA, h.suf⟩

theorem inv8w_setWk {st : LState τ} {W : List Nat} {k : Nat} {w w' : Wk τ} (hinv : Inv8w st W) (hw : st.wk[k]? = some w)
    (h' : WkInv8 st.ctl W k w') : Inv8w (setWk st k w') W := by
  intro j wj hj
  by_cases hjk : j = k
  · subst hjk
    simp only [setWk] at hj
    rw [getElem?_set_self' hw] at hj
    cases hj
    exact h'
  · simp only [setWk] at hj
    rw [List.getElem?_set_ne (Ne.symm hjk)] at hj
    exact hinv j wj hj

/-! ### the worker's own steps -/

theorem mainStep_phase_done {k : Nat} {w w' : Wk τ} {p : MainP} (hm : mainStep k w p = some w') (hd : w'.phase = .done) :
    w.phase = .finish ∧ w'.outbox = w.outbox ++ [.fin w.exitstatus w.sf w.ss, .endMarker] ∧ w'.alive = w.alive := by
  unfold mainStep at hm
  split at hm
  · cases hm
  cases hph : w.phase with
  | boot => simp only [hph, Option.some.injEq] at hm; subst hm; cases hd
  | collect =>
    simp only [hph] at hm
    cases p with
    | collect errs garbage intr sf0 =>
      simp only at hm
      split at hm
      · simp only [Option.some.injEq] at hm; subst hm; cases hd
      · simp only [Option.some.injEq] at hm; subst hm; cases hd
    | none => simp at hm
    | reports fs sf ss ex => simp at hm
    | complete slow => simp at hm
  | finish =>
    simp only [hph, Option.some.injEq] at hm
    subst hm
    exact ⟨rfl, rfl, rfl⟩
  | done => simp [hph] at hm
  | loop =>
    exfalso
    simp only [hph] at hm
    cases hpc : w.w.pc with
    | init =>
      simp only [hpc] at hm
      obtain ⟨v, hv, rfl⟩ := Option.map_eq_some_iff.1 hm
      simp only at hd
      split at hd <;> cases hd
    | haveItem =>
      simp only [hpc] at hm
      obtain ⟨v, hv, rfl⟩ := Option.map_eq_some_iff.1 hm
      simp only [hph] at hd; cases hd
    | done => simp [hpc] at hm
    | running =>
      simp only [hpc] at hm
      split at hm
      · simp only [Option.some.injEq] at hm; subst hm; simp only [hph] at hd; cases hd
      · simp only [Option.some.injEq] at hm; subst hm; simp only [hph] at hd; cases hd
      · split at hm
        · simp only [Option.some.injEq] at hm; subst hm; cases hd
        · split at hm
          · simp only [Option.some.injEq] at hm; subst hm
            simp only at hd
            split at hd <;> cases hd
          · cases hm
      · cases hm

theorem mainStep_alive {k : Nat} {w w' : Wk τ} {p : MainP} (hm : mainStep k w p = some w') : w.alive = true := by
  unfold mainStep at hm
  cases hh : w.alive with
  | true => rfl
  | false => simp [hh] at hm

theorem mainStep_inv8 {c : Ctl.State (Load.State τ) τ} {W : List Nat} {k : Nat} {w w' : Wk τ} {p : MainP}
    (h6 : WkInv6 c k w) (h7 : WkInv7 c W k w) (h : WkInv8 c W k w) (hm : mainStep k w p = some w') : WkInv8 c W k w' := by
  have ha := mainStep_alive hm
  obtain ⟨d, hd1, hd2⟩ := main_done hm
  refine ⟨?_, fun hW => (suf_step (h.suf hW) hd1 hd2).1⟩
  intro ha' hp' hW
  obtain ⟨hfin, hout, _⟩ := mainStep_phase_done hm hp'
  have hnd : w.phase ≠ .done := by rw [hfin]; simp
  left
  refine ⟨?_, w.outbox, _, _, _, hout, h7.endNone ha hnd, h6.finNoneO ha hnd⟩
  cases hdn : (c.env.flags.get k).down with
  | false => rfl
  | true => exact absurd (h7.downWhy ha hW hdn) hnd

theorem deliverStep_inv8 {c : Ctl.State (Load.State τ) τ} {W : List Nat} {k : Nat} {w w' : Wk τ}
    (h : WkInv8 c W k w) (hd : deliverStep k w = some w') : WkInv8 c W k w' := by
  obtain ⟨h1, h2⟩ := deliver_done hd
  refine ⟨?_, fun hW => (suf_step (d := []) (h.suf hW) (by rw [h1, List.append_nil]) (by rw [h2, List.append_nil])).1⟩
  intro ha' hp' hW
  exfalso
  unfold deliverStep at hd
  split at hd
  · cases hd
  rename_i hg
  simp only [Bool.or_eq_true, Bool.not_eq_eq_eq_not, Bool.not_true, decide_eq_true_eq, not_or] at hg
  cases hi : w.inbox with
  | nil => simp [hi] at hd
  | cons cmd rest =>
    simp only [hi] at hd
    cases cmd <;> (simp only [Option.some.injEq] at hd; subst hd; exact hg.2 hp')

theorem crash_wk8 {c : Ctl.State (Load.State τ) τ} {W : List Nat} {k : Nat} {w : Wk τ} (h : WkInv8 c W k w) :
    WkInv8 c W k ({ w with alive := false, inbox := [], outbox := w.outbox ++ [.endMarker] } : Wk τ) := by
  refine ⟨?_, fun hW => ?_⟩
  · intro ha; cases ha
  · exact (suf_step (d := []) (h.suf hW) (by rw [List.append_nil]; rfl)
      (by simp [inflightC, List.filterMap_append, msgC])).1

end Xdist.Sys
