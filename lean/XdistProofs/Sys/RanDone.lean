import XdistProofs.Sys.AcctWk
import XdistProofs.Sys.LedgerDef
/-!
  A fact about the worker alone (any scheduler, any schedule): the tests a worker has **started** are the tests it has
  **completed**, in the same order, followed — while it is inside a protocol call — by the one it is running.  A worker never
  starts a test twice on its own account, and never reports a completion for a test it did not start.
-/
namespace Xdist.Sys
open Xdist

set_option linter.unusedSectionVars false

variable {τ : Type} [DecidableEq τ]

/-- started = completed ++ the one in progress -/
def RanOk (w : Wk τ) : Prop :=
  ranIdx w = doneIdx w ++ (if w.w.pc = .running then w.w.cur.toList else [])

theorem ranOk_init (ids : List τ) : RanOk ({ ids := ids } : Wk τ) := by
  simp [RanOk, ranIdx, doneIdx]

theorem ranOk_congr {w w' : Wk τ} (h : w'.w = w.w) (hr : RanOk w) : RanOk w' := by
  unfold RanOk ranIdx doneIdx at *
  rw [h]; exact hr

theorem mainStep_ranOk {k : Nat} {w w' : Wk τ} {p : MainP} (hr : RanOk w) (h : mainStep k w p = some w') : RanOk w' := by
  unfold mainStep at h
  split at h
  · cases h
  cases hph : w.phase with
  | boot => simp only [hph, Option.some.injEq] at h; subst h; exact ranOk_congr rfl hr
  | collect =>
    simp only [hph] at h
    cases p with
    | collect errs garbage intr sf0 =>
      simp only at h
      split at h
      · simp only [Option.some.injEq] at h; subst h; exact ranOk_congr rfl hr
      · simp only [Option.some.injEq] at h; subst h; exact ranOk_congr rfl hr
    | none => cases h
    | reports a b c d => cases h
    | complete s => cases h
  | loop =>
    simp only [hph] at h
    cases hpc : w.w.pc with
    | init =>
      simp only [hpc] at h
      obtain ⟨w1, h1, h2⟩ := Option.map_eq_some_iff.1 h
      subst h2
      unfold Worker.get0 at h1
      simp only [hpc, ne_eq, not_true_eq_false, if_false] at h1
      split at h1
      · cases h1
      · rename_i q r hq
        simp only [Option.some.injEq] at h1; subst h1
        unfold RanOk ranIdx doneIdx at hr ⊢
        simp only [hpc] at hr
        cases q <;> simpa using hr
    | haveItem =>
      simp only [hpc] at h
      obtain ⟨w1, h1, h2⟩ := Option.map_eq_some_iff.1 h
      subst h2
      unfold Worker.get1 at h1
      simp only [hpc, ne_eq, not_true_eq_false, if_false] at h1
      split at h1
      · rename_i i q r hn hq
        simp only [Option.some.injEq] at h1; subst h1
        unfold RanOk ranIdx doneIdx at hr ⊢
        simp only [hpc] at hr
        simp only [List.map_append, List.map_cons, List.map_nil, if_true, Option.toList_some]
        rw [show (List.map (fun x => x.1) w.w.ran) = _ from by simpa using hr]
      · cases h1
    | running =>
      simp only [hpc] at h
      split at h
      · simp only [Option.some.injEq] at h; subst h; exact ranOk_congr rfl hr
      · simp only [Option.some.injEq] at h; subst h; exact ranOk_congr rfl hr
      · split at h
        · simp only [Option.some.injEq] at h; subst h; exact ranOk_congr rfl hr
        · split at h
          · rename_i i w1 hc hf
            simp only [Option.some.injEq] at h; subst h
            unfold Worker.finish at hf
            simp only [hpc, ne_eq, not_true_eq_false, if_false, hc, Option.some.injEq] at hf
            have e1 : w1.ran = w.w.ran := by rw [← hf]
            have e2 : w1.sent = w.w.sent ++ [.complete i] := by rw [← hf]
            have e3 : w1.pc ≠ .running := by
              rw [← hf]
              simp only
              split
              · simp
              · split <;> simp
            unfold RanOk ranIdx doneIdx at hr ⊢
            simp only [hpc, if_true, hc, Option.toList_some] at hr
            simp only [e1, e2]
            rw [if_neg e3]
            simp only [List.filterMap_append, List.filterMap_cons, List.filterMap_nil, List.append_nil]
            exact hr
          · cases h
      · cases h
    | done => simp only [hpc] at h; cases h
  | finish => simp only [hph, Option.some.injEq] at h; subst h; exact ranOk_congr rfl hr
  | done => simp only [hph] at h; cases h

theorem deliverStep_ranOk {k : Nat} {w w' : Wk τ} (hr : RanOk w) (h : deliverStep k w = some w') : RanOk w' := by
  unfold deliverStep at h
  split at h
  · cases h
  split at h
  · cases h
  · rename_i c rest hin
    cases c with
    | run is =>
      simp only [Option.some.injEq] at h; subst h
      unfold RanOk ranIdx doneIdx at hr ⊢
      simp only [putMany_ran, putMany_sent, (putMany_fields w.w is).2.1, (putMany_fields w.w is).2.2.1]
      exact hr
    | runAll =>
      simp only [Option.some.injEq] at h; subst h
      unfold RanOk ranIdx doneIdx at hr ⊢
      simp only [putMany_ran, putMany_sent, (putMany_fields w.w _).2.1, (putMany_fields w.w _).2.2.1]
      exact hr
    | shutdown =>
      simp only [Option.some.injEq] at h; subst h
      exact hr
    | steal is =>
      simp only [Option.some.injEq] at h; subst h
      unfold RanOk ranIdx doneIdx at hr ⊢
      simp only [Worker.steal]
      split
      · simp only [List.filterMap_append, List.filterMap_cons, List.filterMap_nil, List.append_nil]; exact hr
      · simp only [List.filterMap_append, List.filterMap_cons, List.filterMap_nil, List.append_nil]; exact hr

end Xdist.Sys
