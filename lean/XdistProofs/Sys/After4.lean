import XdistProofs.Sys.After3
/-! The controller step keeps the thirteenth layer; the layer along executions without an undecodable message. -/
namespace Xdist.Sys
open Xdist Xdist.Ctl Xdist.Load Xdist.Contract

variable {τ : Type} [DecidableEq τ]

theorem deliverTo_append (j : Nat) (a b : List SOut) : deliverTo j (a ++ b) = deliverTo j a ++ deliverTo j b := by
  simp [deliverTo, List.filterMap_append]

/-- a shutdown command among what is delivered to `j` comes from a shutdown signal for `j` on the wire; what follows it is what
    is delivered of the rest -/
theorem deliverTo_split (j : Nat) : ∀ (new : List SOut) (m b : List Cmd), deliverTo j new = m ++ Cmd.shutdown :: b →
    ∃ pre post, new = pre ++ SOut.shutdown j :: post ∧ b = deliverTo j post := by
  intro new
  induction new with
  | nil => intro m b h; simp [deliverTo] at h
  | cons o rest ih =>
    intro m b h
    rw [deliverTo_cons] at h
    cases hc : cmdOf o with
    | none =>
      simp only [hc, List.nil_append] at h
      obtain ⟨pre, post, h1, h2⟩ := ih m b h
      exact ⟨o :: pre, post, by rw [h1]; rfl, h2⟩
    | some p =>
      obtain ⟨n, c⟩ := p
      simp only [hc] at h
      by_cases hn : n = j
      · simp only [hn, ↓reduceIte, List.singleton_append] at h
        cases m with
        | nil =>
          simp only [List.nil_append, List.cons.injEq] at h
          obtain ⟨hcs, hb⟩ := h
          subst hcs
          have : o = SOut.shutdown j := by
            cases o <;> simp [cmdOf] at hc
            · rename_i n'; rw [← hn, hc]
          exact ⟨[], rest, by rw [this]; rfl, hb.symm⟩
        | cons y t =>
          simp only [List.cons_append, List.cons.injEq] at h
          obtain ⟨pre, post, h1, h2⟩ := ih t b h.2
          exact ⟨o :: pre, post, by rw [h1]; rfl, h2⟩
      · simp only [hn, ↓reduceIte, List.nil_append] at h
        obtain ⟨pre, post, h1, h2⟩ := ih m b h
        exact ⟨o :: pre, post, by rw [h1]; rfl, h2⟩

theorem runsL_deliverTo (j : Nat) (new : List SOut) (hk : ∀ o ∈ new, Load.LoadOut o) : runsL (deliverTo j new) = Load.sentTo new j :=
  runs_deliverTo j new hk

/-- a worker whose event is not touched, after routing -/
theorem routed_wk13 {c c' : Ctl.State (Load.State τ) τ} {j : Nat} {w : Wk τ} {new : List SOut} (h : WkInv13 c j w)
    (wd : Load.Wd c.env new c'.env) (hk : ∀ o ∈ new, Load.LoadOut o) : WkInv13 c' j (routed j new w) := by
  obtain ⟨r1, r2, r3, r4, r5⟩ := routed_fields j new w
  have hfl : flight j (routed j new w) = flight j w := by unfold flight; rw [r3, r4]
  have hx : (routed j new w).exitstatus = w.exitstatus ∧ (routed j new w).sf = w.sf ∧ (routed j new w).ss = w.ss := by
    unfold routed; split <;> exact ⟨rfl, rfl, rfl⟩
  have hinb : w.alive = true → (routed j new w).inbox = w.inbox ++ deliverTo j new := by
    intro ha; unfold routed; simp [ha]
  have hsent : w.alive = true → shutSeen w = true → Load.sentTo new j = [] := fun ha hs => wd.p1 j (h.n1 ha hs)
  refine ⟨by rw [r5]; exact h.nextSome, by rw [r2, hx.1, hx.2.1, hx.2.2, r5]; exact h.exitWhy, ?_, by rw [r1, r2]; exact h.doneAlive,
    ?_, ?_, ?_, ?_⟩
  · intro n x sf ss hm
    rw [hfl] at hm
    rw [r2, hx.1, hx.2.1, hx.2.2]
    exact h.wfFields n x sf ss hm
  · intro ha hnx
    rw [r1] at ha
    rw [r5] at hnx ⊢
    obtain ⟨a1, a2⟩ := h.na1 ha hnx
    refine ⟨a1, ?_⟩
    rw [inboxRuns_eq, hinb ha, runsL_append, ← inboxRuns_eq, a2, runsL_deliverTo j new hk, hsent ha (shutSeen_of_next hnx)]
    rfl
  · intro ha a b hs
    rw [r1] at ha
    rw [r5] at hs
    obtain ⟨a1, a2⟩ := h.na2 ha a b hs
    refine ⟨a1, ?_⟩
    rw [inboxRuns_eq, hinb ha, runsL_append, ← inboxRuns_eq, a2, runsL_deliverTo j new hk, hsent ha (shutSeen_of_torun hs)]
    rfl
  · intro ha a b hs
    rw [r1] at ha
    rw [hinb ha] at hs
    rcases Load.append_eq_append_cons hs with ⟨m, e1, e2⟩ | ⟨m, e1, e2⟩
    · rw [e2, runsL_append, h.na3 ha a m e1, runsL_deliverTo j new hk, hsent ha (shutSeen_of_inbox e1)]
      rfl
    · obtain ⟨pre, post, h1, h2⟩ := deliverTo_split j new m b e2
      rw [h2, runsL_deliverTo j post (fun o ho => hk o (by rw [h1]; simp [ho]))]
      exact wd.p2 j pre post h1
  · intro ha hs
    rw [r1] at ha
    unfold shutSeen at hs
    rw [hinb ha, r5] at hs
    simp only [List.contains_append, Bool.or_eq_true] at hs
    have hold : shutSeen w = true ∨ (deliverTo j new).contains Cmd.shutdown = true := by
      unfold shutSeen
      simp only [Bool.or_eq_true]
      rcases hs with ((hs | hs) | hs) | hs
      · exact Or.inl (Or.inl (Or.inl hs))
      · exact Or.inr hs
      · exact Or.inl (Or.inl (Or.inr hs))
      · exact Or.inl (Or.inr hs)
    rcases hold with h' | h'
    · exact wd.mono j (h.n1 ha h')
    · exact wd.p3 j (shutdown_of_mem_deliverTo j new (by simpa using h'))

/-- removing the oldest event from the queue -/
theorem pop_wk13 {c : Ctl.State (Load.State τ) τ} {k : Nat} {w : Wk τ} {ev0 : Ctl.Event τ} {rest : List (Ctl.Event τ)}
    (h : WkInv13 c k w) (hp : w.posted = ev0 :: rest) : WkInv13 c k ({ w with posted := rest } : Wk τ) := by
  refine ⟨h.nextSome, h.exitWhy, ?_, h.doneAlive, h.na1, h.na2, h.na3, h.n1⟩
  intro n x sf ss hm
  apply h.wfFields n x sf ss
  unfold flight at hm ⊢
  rw [hp]
  rcases List.mem_append.1 hm with hm | hm
  · exact List.mem_append_left _ (List.mem_cons_of_mem _ hm)
  · exact List.mem_append_right _ hm

theorem ctl_inv13 (idsOf : Nat → List τ) {ids : List τ} {st st' : LState τ} {k : Nat} {rq : Bool} (h1 : Inv st) (h2 : Inv2 st)
    (h12 : Inv12 ids st) (hfo : FO st []) (h13 : Inv13 st) (h : step loadI idsOf st (.ctl k rq) = .ok st') : Inv13 st' := by
  simp only [Sys.step] at h
  obtain ⟨w, ev0, rest, c', hw, hp, hl, rfl⟩ := ctlStep_shape h
  have hk : k < st.wk.length := by
    rcases Nat.lt_or_ge k st.wk.length with h' | h'
    · exact h'
    · rw [List.getElem?_eq_none h'] at hw; cases hw
  have hlen := h1.1.len
  have wi := h1.wk hw
  have hown : Own k ev0 = true := wi.ownP ev0 (by rw [hp]; simp)
  obtain ⟨new, b1, f⟩ := ctl_facts h1.1 (by rw [← hlen]; exact hk) (fixRq_own rq hown) hl
  have hnew : c'.env.outs.drop st.ctl.env.outs.length = new := by rw [f.outs]; simp
  rw [hnew]
  obtain ⟨as, hst, hsh⟩ := loopOnce_steps hl
  -- the first `schedule()` meets nobody who was told to shut down
  have hfirst : st.ctl.shuttingdown = false → st.ctl.sched.collection = none →
      ∀ m ∈ AList.keys st.ctl.sched.node2pending, (st.ctl.env.flags.get m).sent = false := by
    intro hsd hcn m _
    apply hfo ?_ m (by simp)
    unfold late
    have hss : st.ctl.shouldstop.isSome = false := by
      cases hh : st.ctl.shouldstop.isSome with
      | false => rfl
      | true => rw [h1.1.stopShut hh] at hsd; cases hsd
    have hov : over st.ctl = false := by
      cases hh : over st.ctl with
      | false => rfl
      | true => rw [h2.1.overShut hh] at hsd; cases hsd
    have hcc : Load.collectionIsCompleted st.ctl.sched = false := by
      cases hh : Load.collectionIsCompleted st.ctl.sched with
      | false => rfl
      | true => exact absurd hcn (h12.1.comp hh)
    rw [hss, hov, hcc]; rfl
  obtain ⟨new', wd'⟩ := iter_wd hst hsh hfirst
  have hnn : new' = new := by
    have := wd'.outs
    rw [f.outs] at this
    exact (List.append_cancel_left this).symm
  subst hnn
  have hkinds := f.acc.kinds
  have hsetlen : (st.wk.set k ({ w with posted := rest } : Wk τ)).length = st.ctl.nextId := by simp [hlen]
  intro j wj hj
  simp only at hj
  rw [route_get] at hj
  by_cases hjl : j < st.wk.length
  · rw [spawn_get_old _ _ _ _ (by simpa using hjl)] at hj
    by_cases hjk : j = k
    · subst hjk
      rw [getElem?_set_self' hw] at hj
      simp only [Option.map_some, Option.some.injEq] at hj
      subst hj
      exact routed_wk13 (pop_wk13 (h13 j w hw) hp) wd' hkinds
    · rw [List.getElem?_set_ne (Ne.symm hjk)] at hj
      cases hwj : st.wk[j]? with
      | none => rw [hwj] at hj; cases hj
      | some w0 =>
        rw [hwj] at hj
        simp only [Option.map_some, Option.some.injEq] at hj
        subst hj
        exact routed_wk13 (h13 j w0 hwj) wd' hkinds
  · have hjl' : st.wk.length ≤ j := Nat.le_of_not_lt hjl
    by_cases hju : j < c'.nextId
    · rw [spawn_get_new _ _ _ _ (by simpa using hjl') hju] at hj
      simp only [Option.map_some, Option.some.injEq] at hj
      subst hj
      have hge : st.ctl.nextId ≤ j := by rw [← hlen]; exact hjl'
      have hdel : deliverTo j new' = [] := by
        apply deliverTo_nil_of_lt
        intro o ho n cmd hc hnj
        have := f.newLt o ho n cmd hc
        omega
      have hr : routed j new' ({ ids := idsOf j } : Wk τ) = ({ ids := idsOf j } : Wk τ) := by
        unfold routed; simp [hdel]
      rw [hr]
      refine ⟨fun hh => absurd rfl hh, fun hp' => (by rcases hp' with hp' | hp' <;> cases hp'), ?_, fun hp' => (by cases hp'),
        fun _ hn => (by cases hn), ?_, ?_, fun _ hs => (by simp [shutSeen] at hs)⟩
      · intro n x sf ss hm; simp [flight] at hm
      · intro _ a b hs; exact (Load.nil_ne_append_cons hs).elim
      · intro _ a b hs; exact (Load.nil_ne_append_cons hs).elim
    · have : (spawn idsOf (st.wk.set k ({ w with posted := rest } : Wk τ)) c'.nextId)[j]? = none := by
        apply List.getElem?_eq_none
        rw [spawn_length _ _ _ (by rw [hsetlen]; exact f.nextLe)]
        omega
      rw [this] at hj; cases hj

theorem step_inv13 (idsOf : Nat → List τ) {ids : List τ} {st st' : LState τ} (a : Step) (h1 : Inv st) (h2 : Inv2 st)
    (h12 : Inv12 ids st) (hfo : FO st []) (h13 : Inv13 st) (hW : ghostW st a [] = [])
    (h : step loadI idsOf st a = .ok st') : Inv13 st' := by
  cases a with
  | ctl k rq => exact ctl_inv13 idsOf h1 h2 h12 hfo h13 h
  | main k p =>
    simp only [Sys.step] at h
    split at h
    · cases h
    · rename_i w hw
      split at h
      · cases h
      · rename_i w' hm
        simp only [Except.ok.injEq] at h; subst h
        exact inv13_setWk h13 hw (mainStep_inv13 (h13 k w hw) hm)
  | deliver k =>
    simp only [Sys.step] at h
    split at h
    · cases h
    · rename_i w hw
      split at h
      · cases h
      · rename_i w' hm
        simp only [Except.ok.injEq] at h; subst h
        exact inv13_setWk h13 hw (deliverStep_inv13 (h1.wk hw) (h13 k w hw) hm)
  | crash k b =>
    simp only [Sys.step] at h
    split at h
    · cases h
    rename_i s1 hc
    simp only [Except.ok.injEq] at h; subst h
    unfold crashStep at hc
    split at hc
    · cases hc
    rename_i w hw
    split at hc
    · cases hc
    rename_i hg
    simp only [Bool.or_eq_true, Bool.not_eq_eq_eq_not, Bool.not_true, decide_eq_true_eq, not_or] at hg
    have base := inv13_setWk h13 hw (crash_wk13 (h13 k w hw) hg.2)
    split at hc
    · simp only [Option.some.injEq] at hc; subst hc
      intro j wj hj
      refine WkInv13.congr ?_ (base j wj hj)
      simp only [setWk, Contract.flags_get_set]; split <;> simp_all
    · simp only [Option.some.injEq] at hc; subst hc; exact base
  | recv k =>
    simp only [Sys.step] at h
    split at h
    · cases h
    rename_i s1 hr
    simp only [Except.ok.injEq] at h; subst h
    obtain ⟨w, m, rest, fl', w2, outs', hw, ho, rfl, hfl', hw2⟩ := recvStep_shape hr
    simp only at hfl' hw2
    -- no undecodable message is read from a worker that was not written off
    have hng : ¬ (m = .garbage ∧ (st.ctl.env.flags.get k).down = false) := by
      rintro ⟨hm, hd⟩
      have : k ∈ ghostW st (.recv k) [] := by
        unfold ghostW
        simp only [hw, ho, hm, hd, Bool.false_eq_true, ↓reduceIte, List.mem_cons, true_or]
      rw [hW] at this; cases this
    have hr22 : (Receiver.step (α := Ctl.Event τ) { down := (st.ctl.env.flags.get k).down, shutdownSent := (st.ctl.env.flags.get k).sent }
        (toRecv k m)).2.2 = false := by
      cases hd : (st.ctl.env.flags.get k).down <;> cases m <;> simp [Receiver.step, toRecv] <;> exact absurd ⟨rfl, hd⟩ hng
    have hsent' : fl'.sent = (st.ctl.env.flags.get k).sent := by
      rw [hfl']
      cases hd : (st.ctl.env.flags.get k).down <;> cases m <;> simp [Receiver.step, toRecv] <;> exact absurd ⟨rfl, hd⟩ hng
    have hw2' : w2 = ({ w with outbox := rest, posted := w.posted ++ (Receiver.step (α := Ctl.Event τ)
        { down := (st.ctl.env.flags.get k).down, shutdownSent := (st.ctl.env.flags.get k).sent } (toRecv k m)).2.1.map (ofPost k) } : Wk τ) := by
      rw [hw2, hr22]; simp
    intro j wj hj
    by_cases hjk : j ≠ k
    · simp only at hj
      rw [List.getElem?_set_ne (Ne.symm hjk)] at hj
      refine WkInv13.congr ?_ (h13 j wj hj)
      simp [Contract.flags_get_set, hjk]
    have hjk : j = k := Classical.byContradiction hjk
    subst hjk
    simp only at hj
    rw [getElem?_set_self' hw] at hj
    cases hj
    have hres : WkInv13 st.ctl j w2 := by
      rw [hw2']
      exact recv_wk13 (d := (st.ctl.env.flags.get j).down) (sn := (st.ctl.env.flags.get j).sent) (h13 j w hw) ho rfl rfl rfl rfl rfl rfl rfl rfl rfl
    refine WkInv13.congr ?_ hres
    simp [Contract.flags_get_set, hsent']

end Xdist.Sys
