import XdistModel.Sys.System
import XdistProofs.Ctl.QLoad
/-!
  The invariant of the whole-system model for `--dist load`: what relates the controller's books, flags and queues to what
  the workers hold, have sent and have been sent.  Every conjunct is decidable, so the invariant can also be *executed*
  (the `sys` driver evaluates it after every replayed step of every simulated run).
-/
namespace Xdist.Sys
open Xdist

variable {τ : Type} [DecidableEq τ]

abbrev LState (τ : Type) := State (Load.State τ) τ

/-! ### what is in flight from a worker to the controller -/

/-- what the receiver thread posts for a message, while the worker is not written off -/
def evOf (k : Nat) : WMsg τ → Option (Ctl.Event τ)
  | .ev e => some e
  | .fin x sf ss => some (.workerfinished k x sf ss)
  | _ => none

/-- the events of worker `k` the controller has not handled yet, oldest first -/
def flight (k : Nat) (w : Wk τ) : List (Ctl.Event τ) := w.posted ++ w.outbox.filterMap (evOf k)

def isReady : Ctl.Event τ → Bool
  | .workerready _ => true
  | _ => false

def isColl : Ctl.Event τ → Bool
  | .collectionfinish _ _ => true
  | _ => false

/-- the events that tell the controller a worker is gone -/
def isNotice : Ctl.Event τ → Bool
  | .errordown _ _ => true
  | .workerfinished _ _ _ _ => true
  | _ => false

def complIdx : Ctl.Event τ → Option Nat
  | .complete _ i _ => some i
  | _ => none

/-- the completions in flight, in order -/
def completes (l : List (Ctl.Event τ)) : List Nat := l.filterMap complIdx

/-- the events a worker of the load mode can produce, all about itself -/
def Own (k : Nat) : Ctl.Event τ → Bool
  | .workerready n => n == k
  | .workerfinished n _ _ _ => n == k
  | .errordown n _ => n == k
  | .collectionfinish n _ => n == k
  | .testreport n _ => n == k
  | .complete n _ _ => n == k
  | .collectreport n _ _ => n == k
  | .other => true
  | .internalError _ => false
  | .unscheduled _ _ => false

/-- a worker never sends a death notice as an ordinary event -/
def plainMsg : WMsg τ → Bool
  | .ev e => !isNotice e
  | _ => true

def isEnd : WMsg τ → Bool
  | .endMarker => true
  | _ => false

/-! ### what a worker holds -/

/-- the tests a worker has taken from the wire and not yet completed, in the order it runs them -/
def heldS (w : Wk τ) : List Nat :=
  (if w.w.pc = .running then w.w.cur.toList else []) ++
  (match w.w.next with | some (.test j) => [j] | _ => []) ++ Worker.tests w.w.torun

/-- the tests in commands not yet delivered to the worker's queue -/
def inboxRuns (w : Wk τ) : List Nat := w.inbox.flatMap fun c => match c with | .run is => is | _ => []

def shutSeen (w : Wk τ) : Bool :=
  w.inbox.contains .shutdown || w.w.torun.contains .shutdown || w.w.next == some .shutdown

def collPending (k : Nat) (w : Wk τ) : Bool :=
  w.phase == .boot || w.phase == .collect || (flight k w).any isColl

def nextIsTest (w : Wk τ) : Bool :=
  match w.w.next with
  | some (.test _) => true
  | _ => false

def loadCmd : Cmd → Bool
  | .run _ => true
  | .shutdown => true
  | _ => false

/-- the per-node condition of `Sched/LoadQ`, in decidable form -/
def QnD (s : Load.State τ) (e : Env) (n : Nat) : Prop :=
  match AList.lookup s.node2pending n with
  | none => True
  | some book => e.flags.shuttingDown n = true ∨ 2 ≤ book.length ∨ s.pending = []

instance (s : Load.State τ) (e : Env) (n : Nat) : Decidable (QnD s e n) := by
  unfold QnD; split <;> infer_instance

theorem qnD_iff (s : Load.State τ) (e : Env) (n : Nat) : QnD s e n ↔ Load.Qn s e n := by
  unfold QnD Load.Qn
  cases h : AList.lookup s.node2pending n with
  | none => simp
  | some b => simp

/-- the book of the controller for a worker is what the worker has completed (completion still in flight), holds, and has
    been sent without having received it yet — in this order -/
def SyncD (s : Load.State τ) (k : Nat) (w : Wk τ) : Prop :=
  match AList.lookup s.node2pending k with
  | none => (w.phase = .boot ∨ (flight k w).any isReady = true) → completes (flight k w) = [] ∧ heldS w = [] ∧ inboxRuns w = []
  | some book => book = completes (flight k w) ++ heldS w ++ inboxRuns w

instance (s : Load.State τ) (k : Nat) (w : Wk τ) : Decidable (SyncD s k w) := by
  unfold SyncD; split <;> infer_instance

/-- everything that concerns one worker -/
structure WkInv (c : Ctl.State (Load.State τ) τ) (k : Nat) (w : Wk τ) : Prop where
  -- local well-formedness
  loopCb : w.phase = .loop → w.cbSet = true ∧ w.w.pc ≠ .done
  running : w.w.pc = .running → w.sub ≤ 2 ∧ w.w.cur.isSome = true
  have1 : w.w.pc = .haveItem → ∃ j, w.w.next = some (.test j)
  init0 : w.w.pc = .init → w.w.next = none
  early : w.phase = .boot ∨ w.phase = .collect → w.w.pc = .init ∧ w.w.torun = [] ∧ w.cbSet = false
  boot0 : w.alive = true → w.phase = .boot → w.outbox = [] ∧ w.posted = []
  latePc : w.phase = .finish ∨ w.phase = .done → True
  inboxK : ∀ c ∈ w.inbox, loadCmd c = true
  ownP : ∀ ev ∈ w.posted, Own k ev = true
  ownO : ∀ ev ∈ w.outbox.filterMap (evOf k), Own k ev = true
  evPlain : ∀ m ∈ w.outbox, plainMsg m = true
  notBroken : w.alive = true → (c.env.flags.get k).broken = false
  -- the controller learns of every death
  notice1 : k ∈ c.active → (c.env.flags.get k).down = false →
    (w.alive = true ∧ w.phase ≠ .done) ∨ w.outbox.any isEnd = true
  notice2 : k ∈ c.active → (c.env.flags.get k).down = true → w.posted.any isNotice = true
  noticeDown : w.posted.any isNotice = true → (c.env.flags.get k).down = true
  inactive : k ∉ c.active → w.posted = []
  inactiveDown : k ∉ c.active → (c.env.flags.get k).down = true
  noticeLast : w.posted.dropLast.any isNotice = false
  bootNoReady : w.phase = .boot → (flight k w).any isReady = false
  -- every shutdown signal reaches the queue of a live worker
  shut : w.alive = true → (c.env.flags.get k).sent = true → shutSeen w = true
  -- registration and collection
  ready : k ∈ c.active → c.env.flags.shuttingDown k = false → w.phase ≠ .boot →
    (flight k w).any isReady = false → k ∈ AList.keys c.sched.node2pending
  readyTail : (c.env.flags.get k).down = false → (flight k w).tail.any isReady = false
  readyColl : (c.env.flags.get k).down = false → (flight k w).any isReady = true → collPending k w = true
  qn : collPending k w = true ∨ QnD c.sched c.env k
  keysActive : k ∈ AList.keys c.sched.node2pending → k ∈ c.active ∨ c.shouldstop.isSome = true
  -- books and wire
  sync : w.alive = true → (c.env.flags.get k).down = false → SyncD c.sched k w

set_option synthInstance.maxSize 4000 in
set_option synthInstance.maxHeartbeats 400000 in
instance instWkInvDec (c : Ctl.State (Load.State τ) τ) (k : Nat) (w : Wk τ) : Decidable (WkInv c k w) :=
  decidable_of_iff
    ((w.phase = .loop → w.cbSet = true ∧ w.w.pc ≠ .done) ∧
     (w.w.pc = .running → w.sub ≤ 2 ∧ w.w.cur.isSome = true) ∧
     (w.w.pc = .haveItem → nextIsTest w = true) ∧
     (w.w.pc = .init → w.w.next = none) ∧
     (w.phase = .boot ∨ w.phase = .collect → w.w.pc = .init ∧ w.w.torun = [] ∧ w.cbSet = false) ∧
     (w.alive = true → w.phase = .boot → w.outbox.isEmpty = true ∧ w.posted.isEmpty = true) ∧
     (∀ c ∈ w.inbox, loadCmd c = true) ∧
     (∀ ev ∈ w.posted, Own k ev = true) ∧
     (∀ ev ∈ w.outbox.filterMap (evOf k), Own k ev = true) ∧
     (∀ m ∈ w.outbox, plainMsg m = true) ∧
     (w.alive = true → (c.env.flags.get k).broken = false) ∧
     (k ∈ c.active → (c.env.flags.get k).down = false →
        (w.alive = true ∧ w.phase ≠ .done) ∨ w.outbox.any isEnd = true) ∧
     (k ∈ c.active → (c.env.flags.get k).down = true → w.posted.any isNotice = true) ∧
     (w.posted.any isNotice = true → (c.env.flags.get k).down = true) ∧
     (k ∉ c.active → w.posted.isEmpty = true) ∧
     (k ∉ c.active → (c.env.flags.get k).down = true) ∧
     (w.posted.dropLast.any isNotice = false) ∧
     (w.phase = .boot → (flight k w).any isReady = false) ∧
     (w.alive = true → (c.env.flags.get k).sent = true → shutSeen w = true) ∧
     (k ∈ c.active → c.env.flags.shuttingDown k = false → w.phase ≠ .boot →
        (flight k w).any isReady = false → k ∈ AList.keys c.sched.node2pending) ∧
     ((c.env.flags.get k).down = false → (flight k w).tail.any isReady = false) ∧
     ((c.env.flags.get k).down = false → (flight k w).any isReady = true → collPending k w = true) ∧
     (collPending k w = true ∨ QnD c.sched c.env k) ∧
     (k ∈ AList.keys c.sched.node2pending → k ∈ c.active ∨ c.shouldstop.isSome = true) ∧
     (w.alive = true → (c.env.flags.get k).down = false → SyncD c.sched k w))
    (by
      constructor
      · rintro ⟨h1, h2, h3, h4, h5, h6, h7, h8, h9, h9', h10, h11, h12, h13, h14, h14', ha, hb, h15, h16, h17, h18, h19, h20, h21⟩
        refine ⟨h1, h2, ?_, h4, h5, ?_, fun _ => trivial, h7, h8, h9, h9', h10, h11, h12, h13, ?_, h14', ha, hb, h15, h16, h17, h18, h19, h20, h21⟩
        · intro hp
          have := h3 hp
          unfold nextIsTest at this
          split at this
          · exact ⟨_, by assumption⟩
          · cases this
        · intro ha hp
          have := h6 ha hp
          exact ⟨List.isEmpty_iff.1 this.1, List.isEmpty_iff.1 this.2⟩
        · intro hk; exact List.isEmpty_iff.1 (h14 hk)
      · intro h
        refine ⟨h.loopCb, h.running, ?_, h.init0, h.early, ?_, h.inboxK, h.ownP, h.ownO, h.evPlain, h.notBroken, h.notice1, h.notice2,
          h.noticeDown, ?_, h.inactiveDown, h.noticeLast, h.bootNoReady, h.shut, h.ready, h.readyTail, h.readyColl, h.qn, h.keysActive, h.sync⟩
        · intro hp
          obtain ⟨j, hj⟩ := h.have1 hp
          unfold nextIsTest; rw [hj]
        · intro ha hp
          have := h.boot0 ha hp
          exact ⟨List.isEmpty_iff.2 this.1, List.isEmpty_iff.2 this.2⟩
        · intro hk; exact List.isEmpty_iff.2 (h.inactive hk))

/-- what concerns the controller alone -/
structure CtlInv (st : LState τ) : Prop where
  len : st.wk.length = st.ctl.nextId
  activeLt : ∀ a ∈ st.ctl.active, a < st.ctl.nextId
  activeNodup : st.ctl.active.Nodup
  stopShut : st.ctl.shouldstop.isSome = true → st.ctl.shuttingdown = true
  shutInv : st.ctl.shuttingdown = true → ∀ n ∈ AList.keys st.ctl.sched.node2pending, st.ctl.env.flags.shuttingDown n = true
  tf : Load.testsFinished st.ctl.sched = true → ∀ n ∈ AList.keys st.ctl.sched.node2pending, st.ctl.env.flags.shuttingDown n = true
  nocol : st.ctl.sched.collection = none → st.ctl.sched.pending = []
  compl : st.ctl.sched.collection ≠ none → Load.collectionIsCompleted st.ctl.sched = true
  nodup : (AList.keys st.ctl.sched.node2pending).Nodup
  keysLt : ∀ m ∈ AList.keys st.ctl.sched.node2pending, m < st.ctl.nextId
  flagsLt : ∀ m ∈ AList.keys st.ctl.env.flags, st.ctl.nextId ≤ m → st.ctl.env.flags.get m = {}

instance (st : LState τ) : Decidable (CtlInv st) :=
  decidable_of_iff
    (st.wk.length = st.ctl.nextId ∧ (∀ a ∈ st.ctl.active, a < st.ctl.nextId) ∧ st.ctl.active.Nodup ∧
     (st.ctl.shouldstop.isSome = true → st.ctl.shuttingdown = true) ∧
     (st.ctl.shuttingdown = true → ∀ n ∈ AList.keys st.ctl.sched.node2pending, st.ctl.env.flags.shuttingDown n = true) ∧
     (Load.testsFinished st.ctl.sched = true → ∀ n ∈ AList.keys st.ctl.sched.node2pending, st.ctl.env.flags.shuttingDown n = true) ∧
     (st.ctl.sched.collection.isNone = true → st.ctl.sched.pending = []) ∧
     (st.ctl.sched.collection.isNone = false → Load.collectionIsCompleted st.ctl.sched = true) ∧
     (AList.keys st.ctl.sched.node2pending).Nodup ∧
     (∀ m ∈ AList.keys st.ctl.sched.node2pending, m < st.ctl.nextId) ∧
     (∀ m ∈ AList.keys st.ctl.env.flags, st.ctl.nextId ≤ m → st.ctl.env.flags.get m = {}))
    (by
      constructor
      · rintro ⟨h1, h2, h3, h3', h4, h5, h6, h7, h8, h9, h10⟩
        refine ⟨h1, h2, h3, h3', h4, h5, ?_, ?_, h8, h9, h10⟩
        · intro h; exact h6 (by rw [h]; rfl)
        · intro h; exact h7 (by cases hh : st.ctl.sched.collection <;> simp_all)
      · intro h
        refine ⟨h.len, h.activeLt, h.activeNodup, h.stopShut, h.shutInv, h.tf, ?_, ?_, h.nodup, h.keysLt, h.flagsLt⟩
        · intro hh; exact h.nocol (by cases hc : st.ctl.sched.collection <;> simp_all)
        · intro hh; exact h.compl (by cases hc : st.ctl.sched.collection <;> simp_all))

/-- **the system invariant** -/
def Inv (st : LState τ) : Prop := CtlInv st ∧ ∀ p ∈ st.wk.zipIdx, WkInv st.ctl p.2 p.1

instance (st : LState τ) : Decidable (Inv st) := by unfold Inv; infer_instance

theorem Inv.wk {st : LState τ} (h : Inv st) {k : Nat} {w : Wk τ} (hw : st.wk[k]? = some w) : WkInv st.ctl k w := by
  have := h.2 (w, k) (by
    rw [List.mem_zipIdx_iff_getElem?]
    simpa using hw)
  exact this

end Xdist.Sys
