import XdistProofs.Sys.AcctCtl
/-!
  The completions the controller has processed (the ghost history of its `mark_test_complete` calls) are, as a multiset, the
  tests the workers have completed and whose completion is no longer on its way — in every execution without an undecodable
  message.
-/
namespace Xdist.Sys
open Xdist Xdist.Ctl Xdist.Load Xdist.Contract

variable {τ : Type} [DecidableEq τ]

def atomCompl : Atom τ → Option Nat
  | .call (.markComplete _ i _) => some i
  | _ => none

theorem ghostOp_completed (s s' : Load.State τ) (g : Ghost) (op : SOp τ) :
    (Load.ghostOp s s' g op).completed = (atomCompl (.call op)).toList ++ g.completed := by
  cases op with
  | addNode n => rfl
  | addNodeCollection n c => rfl
  | schedule =>
    simp only [Load.ghostOp, atomCompl]
    split <;> rfl
  | markComplete n i d => rfl
  | markPending t =>
    simp only [Load.ghostOp, atomCompl]
    split
    · split <;> rfl
    · rfl
  | removePending n is => rfl
  | removeNode n =>
    simp only [Load.ghostOp, atomCompl]
    split <;> rfl

theorem stepsG_completed {s s' : Load.State τ} {e e' : Env} {g g' : Ghost} {as : List (Atom τ)}
    (h : StepsG s e g as s' e' g') : g'.completed = (as.filterMap atomCompl).reverse ++ g.completed := by
  induction h with
  | nil => rfl
  | @call s e g op s1 e1 r as s2 e2 g2 hs _ ih =>
    rw [ih, ghostOp_completed, filterMap_cons_toList, List.reverse_append, List.append_assoc]
    congr 1
    cases atomCompl (Atom.call op) <;> rfl
  | shut n _ ih => rw [ih]; rfl

theorem allShut_compl {K : Nat → Prop} {t : List (Atom τ)} (h : AllShut K t) : t.filterMap atomCompl = [] := by
  rw [List.filterMap_eq_nil_iff]
  intro a ha
  obtain ⟨n, rfl, _⟩ := h a ha
  rfl

/-- the only scheduler call of an iteration that records a completion is the one for a completion event -/
theorem shape_compl {c c' : Ctl.State (Load.State τ) τ} {ev : Ctl.Event τ} {as : List (Atom τ)} (h : Shape loadI c c' ev as) :
    as.filterMap atomCompl = (complIdx ev).toList := by
  cases ev with
  | workerready n =>
    obtain ⟨t, ht, h' | h'⟩ := h
    · rw [h'.2, filterMap_cons_toList, allShut_compl ht]; rfl
    · rw [h'.2, filterMap_cons_toList, allShut_compl ht]; rfl
  | complete n i slow =>
    obtain ⟨t, ht, rfl⟩ := h
    rw [filterMap_cons_toList, allShut_compl ht]; rfl
  | unscheduled n is =>
    obtain ⟨t, ht, rfl⟩ := h
    rw [filterMap_cons_toList, allShut_compl ht]; rfl
  | collectionfinish n ids =>
    obtain ⟨t, ht, h' | h' | h'⟩ := h
    · rw [h'.2, allShut_compl ht]; rfl
    · rw [h'.2.2.2, filterMap_cons_toList, allShut_compl ht]; rfl
    · rw [h'.2.2, filterMap_cons_toList, filterMap_cons_toList, allShut_compl ht]; rfl
  | errordown n rq =>
    obtain ⟨t, ht, h' | h' | ⟨x, _, h'⟩⟩ := h
    · rw [h', allShut_compl ht]; rfl
    · rw [h', filterMap_cons_toList, allShut_compl ht]; rfl
    · rw [h', filterMap_cons_toList, filterMap_cons_toList, allShut_compl ht]; rfl
  | workerfinished n x sf ss =>
    obtain ⟨t0, t, ht0, ht, h' | h'⟩ := h
    · rw [h', List.filterMap_append, allShut_compl ht0, allShut_compl ht]; rfl
    · rw [h', List.filterMap_append, allShut_compl ht0, filterMap_cons_toList, allShut_compl ht]; rfl
  | internalError n => exact allShut_compl h
  | testreport n f => exact allShut_compl h
  | collectreport n key f => exact allShut_compl h
  | other => exact allShut_compl h

/-! ### lists of workers -/

theorem perm_flatMap_set {α : Type} (f : α → List Nat) {l : List α} {k : Nat} {a b : α} {c : List Nat} (h : l[k]? = some a)
    (hf : f b = f a ++ c) : ((l.set k b).flatMap f).Perm (l.flatMap f ++ c) := by
  induction l generalizing k with
  | nil => cases h
  | cons x t ih =>
    cases k with
    | zero =>
      simp only [List.getElem?_cons_zero, Option.some.injEq] at h; subst h
      simp only [List.set_cons_zero, List.flatMap_cons, hf, List.append_assoc]
      exact List.Perm.append_left _ List.perm_append_comm
    | succ k =>
      simp only [List.getElem?_cons_succ] at h
      simp only [List.set_cons_succ, List.flatMap_cons, List.append_assoc]
      exact List.Perm.append_left _ (ih h)

theorem map_handled_route (wk : List (Wk τ)) (new : List SOut) : (route wk new).map handled = wk.map handled := by
  apply List.ext_getElem?
  intro j
  rw [List.getElem?_map, List.getElem?_map, route_get]
  cases wk[j]? with
  | none => rfl
  | some w =>
    simp only [Option.map_some]
    obtain ⟨d1, d2⟩ := routed_done j new w
    rw [handled_congr d1 d2]

theorem flatMap_handled_route (wk : List (Wk τ)) (new : List SOut) : (route wk new).flatMap handled = wk.flatMap handled := by
  rw [List.flatMap_def, List.flatMap_def, map_handled_route]

theorem flatMap_handled_spawn (idsOf : Nat → List τ) (wk : List (Wk τ)) (upTo : Nat) :
    (spawn idsOf wk upTo).flatMap handled = wk.flatMap handled := by
  unfold spawn
  rw [List.flatMap_append]
  have : ((List.range (upTo - wk.length)).map fun j => ({ ids := idsOf (wk.length + j) } : Wk τ)).flatMap handled = [] := by
    rw [List.flatMap_eq_nil_iff]
    intro w hw
    obtain ⟨j, _, rfl⟩ := List.mem_map.1 hw
    rfl
  rw [this, List.append_nil]

/-- the completions among what the receiver thread posts for a message -/
theorem recv_completes (j : Nat) (d sn : Bool) (m : WMsg τ) (hq : d = true → (msgC m).toList = []) :
    completes ((Receiver.step (α := Ctl.Event τ) { down := d, shutdownSent := sn } (toRecv j m)).2.1.map (ofPost j)) =
      (msgC m).toList := by
  cases d with
  | true =>
    rw [hq rfl]
    cases m <;> simp [Receiver.step, toRecv, completes]
  | false =>
    apply completes_evs_of_post (j := j)
    cases m <;> simp [Receiver.step, toRecv, ofPost, evOf]

/-- the global part of the eighth layer -/
def H2 (st : LState τ) (W : List Nat) (g : Ghost) : Prop := W = [] → g.completed.Perm (st.wk.flatMap handled)

theorem ghostW_nil {st : LState τ} {a : Step} {W : List Nat} (h : ghostW st a W = []) : W = [] := by
  cases W with
  | nil => rfl
  | cons x t =>
    have := ghostW_mono st a (x :: t) (k := x) (by simp)
    rw [h] at this; cases this

/-- steps of the workers, the receiver threads and crashes: nothing is handled, nothing is lost -/
theorem other_h2 (idsOf : Nat → List τ) {st st' : LState τ} {W : List Nat} {g : Ghost} (a : Step) (hn : ∀ k rq, a ≠ .ctl k rq)
    (h6 : Inv6 st) (h7 : Inv7 st W) (h8 : Inv8w st W) (hh : H2 st W g) (h : step loadI idsOf st a = .ok st') :
    H2 st' (ghostW st a W) g := by
  intro hW'
  have hW := ghostW_nil hW'
  have hnot : ∀ j, j ∉ W := by intro j; rw [hW]; simp
  have base := hh hW
  suffices hs : st'.wk.flatMap handled = st.wk.flatMap handled by rw [hs]; exact base
  cases a with
  | main k p =>
    simp only [Sys.step] at h
    split at h
    · cases h
    · rename_i w hw
      split at h
      · cases h
      · rename_i w' hm
        simp only [Except.ok.injEq] at h
        subst h
        obtain ⟨d, hd1, hd2⟩ := main_done hm
        exact flatMap_set_same handled hw (suf_step ((h8 k w hw).suf (hnot k)) hd1 hd2).2
  | deliver k =>
    simp only [Sys.step] at h
    split at h
    · cases h
    · rename_i w hw
      split at h
      · cases h
      · rename_i w' hm
        simp only [Except.ok.injEq] at h
        subst h
        obtain ⟨h1, h2⟩ := deliver_done hm
        exact flatMap_set_same handled hw (handled_congr h1 h2)
  | crash k b =>
    simp only [Sys.step] at h
    split at h
    · cases h
    rename_i s1 hc
    simp only [Except.ok.injEq] at h
    subst h
    unfold crashStep at hc
    split at hc
    · cases hc
    rename_i w hw
    split at hc
    · cases hc
    have hset : (st.wk.set k ({ w with alive := false, inbox := [], outbox := w.outbox ++ [.endMarker] } : Wk τ)).flatMap handled =
        st.wk.flatMap handled :=
      flatMap_set_same handled hw (handled_congr rfl (by simp [inflightC, List.filterMap_append, msgC]))
    split at hc
    · simp only [Option.some.injEq] at hc; subst hc; exact hset
    · simp only [Option.some.injEq] at hc; subst hc; exact hset
  | recv k =>
    simp only [Sys.step] at h
    split at h
    · cases h
    rename_i s1 hr
    simp only [Except.ok.injEq] at h
    subst h
    have hr' := hr
    unfold recvStep at hr'
    split at hr'
    · cases hr'
    rename_i w hw
    split at hr'
    · cases hr'
    rename_i m rest ho
    simp only [Option.some.injEq] at hr'
    subst hr'
    simp only
    have hcomp0 := recv_completes k (st.ctl.env.flags.get k).down (st.ctl.env.flags.get k).sent m (by
      intro hd0
      have hq := quiet (h7 k w hw) (h8 k w hw) (hnot k) hd0
      rw [ho, filterMap_cons_toList] at hq
      exact (List.append_eq_nil_iff.1 hq).1)
    generalize (Receiver.step (α := Ctl.Event τ) { down := (st.ctl.env.flags.get k).down, shutdownSent := (st.ctl.env.flags.get k).sent }
        (toRecv k m)).2.1.map (ofPost k) = evs at hcomp0 ⊢
    have hcomp := hcomp0
    have key : ∀ (wk1 : List (Wk τ)), wk1 = st.wk.set k ({ w with outbox := rest, posted := w.posted ++ evs } : Wk τ) →
        wk1.flatMap handled = st.wk.flatMap handled := by
      intro wk1 hwk1
      subst hwk1
      apply flatMap_set_same handled hw
      refine handled_congr (w := w) rfl ?_
      unfold inflightC
      simp only
      rw [ho, filterMap_cons_toList, completes_append, List.append_assoc, hcomp]
    split
    · rw [flatMap_handled_route]; exact key _ rfl
    · exact key _ rfl
  | ctl k rq => exact absurd rfl (hn k rq)

/-- the controller step: the completion it handles, if any, moves from "on its way" to "handled" -/
theorem ctl_h2 (idsOf : Nat → List τ) {st st' : LState τ} {W : List Nat} {g g' : Ghost} {as : List (Atom τ)} {k : Nat} {rq : Bool}
    {w : Wk τ} {ev0 : Ctl.Event τ} {rest : List (Ctl.Event τ)} (h8 : Inv8w st W) (hh : H2 st W g)
    (h : step loadI idsOf st (.ctl k rq) = .ok st') (hw : st.wk[k]? = some w) (hp : w.posted = ev0 :: rest)
    (hsh : Shape loadI st.ctl st'.ctl (fixRq rq ev0) as)
    (hg : StepsG st.ctl.sched st.ctl.env g as st'.ctl.sched st'.ctl.env g') : H2 st' (ghostW st (.ctl k rq) W) g' := by
  intro hW'
  have hW := ghostW_nil hW'
  have base := hh hW
  simp only [Sys.step] at h
  obtain ⟨w1, ev1, rest1, c', hw1, hp1, hl, rfl⟩ := ctlStep_shape h
  rw [hw] at hw1; cases hw1
  rw [hp] at hp1; cases hp1
  simp only
  rw [flatMap_handled_route, flatMap_handled_spawn, stepsG_completed hg, shape_compl hsh, fixRq_complIdx]
  obtain ⟨_, hhd⟩ := suf_pop hp ((h8 k w hw).suf (by rw [hW]; simp))
  have hperm := perm_flatMap_set handled (l := st.wk) (b := ({ w with posted := rest } : Wk τ)) hw hhd
  refine List.Perm.trans ?_ hperm.symm
  have : (complIdx ev0).toList.reverse = (complIdx ev0).toList := by cases complIdx ev0 <;> rfl
  rw [this]
  exact List.Perm.trans List.perm_append_comm (List.Perm.append_right _ base)

end Xdist.Sys
