import XdistProofs.Sys.Done3
/-! The controller step keeps the fourth layer (`Inv6`). -/
namespace Xdist.Sys
open Xdist Xdist.Ctl Xdist.Load

variable {τ : Type} [DecidableEq τ]

theorem loopOnce_failed_keep {c c' st1 : Ctl.State (Load.State τ) τ} (h : c' = afterHandler loadI st1) :
    c'.failedNodes = st1.failedNodes := by rw [h]; exact (afterHandler_keeps loadI st1).failedNodes

/-- handling a death notice of the `errordown` kind counts a lost worker -/
theorem loopOnce_errordown_failed {c c' : Ctl.State (Load.State τ) τ} {n : Nat} {rq : Bool}
    (hl : loopOnce loadI c (.errordown n rq) = .ok c') : c'.failedNodes = c.failedNodes + 1 := by
  unfold loopOnce at hl
  split at hl
  · cases hl
  obtain ⟨st1, h1, rfl⟩ := map_ok.1 hl
  rw [(afterHandler_keeps loadI st1).failedNodes]
  simp only [handle] at h1
  exact errordown_failed loadI h1

/-- `remove_node` returning nothing means the node held nothing -/
theorem removeNode_none_book {s s' : Load.State τ} {e e' : Env} {n : Nat} (h : Load.removeNode s e n = .ok (s', e', none)) :
    AList.lookup s.node2pending n = some [] ∧ s'.node2pending = AList.erase s.node2pending n := by
  unfold Load.removeNode at h
  obtain ⟨⟨book, n2p⟩, hp, h1⟩ := bind_ok.1 h
  obtain ⟨hl, rfl⟩ := AList.pop_eq_ok.1 hp
  simp only at h1
  split at h1
  · simp only [Except.ok.injEq, Prod.mk.injEq] at h1
    obtain ⟨rfl, _, _⟩ := h1
    exact ⟨hl, rfl⟩
  · split at h1
    · cases h1
    · split at h1
      · cases h1
      · obtain ⟨⟨s3, e3⟩, _, h3⟩ := bind_ok.1 h1
        simp at h3

/-- handling `workerfinished` without losing a worker and without a stop reason: the worker's book was empty (or it was not
    a node), and it is not a node afterwards -/
theorem workerfinished_clean {c c' : Ctl.State (Load.State τ) τ} {n x : Nat} {sf ss : Option String}
    (hl : loopOnce loadI c (.workerfinished n x sf ss) = .ok c') (hf : c'.failedNodes = c.failedNodes)
    (hst : c'.shouldstop = none) (hnd : (AList.keys c.sched.node2pending).Nodup) :
    (AList.lookup c.sched.node2pending n = some [] ∨ AList.lookup c.sched.node2pending n = none) ∧
    n ∉ AList.keys c'.sched.node2pending := by
  unfold loopOnce at hl
  split at hl
  · cases hl
  obtain ⟨st1, h1, rfl⟩ := map_ok.1 hl
  rw [afterHandler_sched']
  have hf1 : st1.failedNodes = c.failedNodes := by rw [← (afterHandler_keeps loadI st1).failedNodes]; exact hf
  have hs1 : st1.shouldstop = none := by
    cases hh : st1.shouldstop with
    | none => rfl
    | some r => have := (os_afterHandler loadI st1).stop (by rw [hh]; rfl); rw [hst] at this; cases this
  simp only [handle] at h1
  unfold workerfinished at h1
  split at h1
  · exfalso
    have := errordown_failed loadI h1
    rw [(keeps_triggerShutdown loadI _).failedNodes] at this
    simp only at this
    omega
  · simp only at h1
    split at h1
    · exfalso
      have := (os_removeActive h1).stop (by cases hcs : c.shouldstop <;> simp [hcs])
      rw [hs1] at this; cases this
    · split at h1
      · rename_i hmem
        split at h1
        · cases h1
        · cases h1
        · rename_i st' hc
          obtain ⟨hstep, _⟩ := callSched_step hc
          obtain ⟨e1, e2⟩ := removeNode_none_book (show Load.removeNode _ _ n = .ok (st'.sched, st'.env, none) from hstep)
          rw [(removeActive_fields h1).2.1, e2]
          exact ⟨Or.inl e1, AList.not_mem_keys_erase_self _ _ hnd⟩
      · rename_i hmem
        rw [(removeActive_fields h1).2.1]
        have hnk : n ∉ AList.keys c.sched.node2pending := hmem
        refine ⟨Or.inr ?_, hnk⟩
        cases hh : AList.lookup c.sched.node2pending n with
        | none => rfl
        | some b => exact absurd ((AList.lookup_isSome_iff_mem_keys _ _).1 (by rw [hh]; rfl)) hnk

/-- a node the event does not remove stays a node -/
theorem prep_keep {ev : Ctl.Event τ} {b b1 : Load.Books} (h : Prep ev b b1) {m : Nat} (hm : m ∈ AList.keys b) :
    m ∈ AList.keys b1 ∨ downOf ev = some m := by
  by_cases hs : subjectOf ev = some m
  · cases ev with
    | workerready n =>
      rcases h with rfl | ⟨_, rfl⟩
      · exact Or.inl hm
      · exact Or.inl (Load.keys_set_sub _ _ _ _ hm)
    | complete n i s =>
      obtain ⟨book, _, _, rfl⟩ := h
      exact Or.inl (Load.keys_set_sub _ _ _ _ hm)
    | errordown n rq => right; simpa [subjectOf, downOf] using hs
    | workerfinished n x sf ss => right; simpa [subjectOf, downOf] using hs
    | internalError n => right; simpa [subjectOf, downOf] using hs
    | collectionfinish n ids => cases h; exact Or.inl hm
    | testreport n f => cases h; exact Or.inl hm
    | unscheduled n is => cases h; exact Or.inl hm
    | collectreport n k f => cases h; exact Or.inl hm
    | other => cases h; exact Or.inl hm
  · left
    have := (AList.lookup_isSome_iff_mem_keys _ _).2 hm
    rw [← prep_other h hs] at this
    exact (AList.lookup_isSome_iff_mem_keys _ _).1 this

end Xdist.Sys
