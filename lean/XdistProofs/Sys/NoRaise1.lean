import XdistProofs.Sys.NoRaise0
/-!
  C17, whole system, `--dist load`: **handling a completion or a death notice never raises** — controller level.  The handlers
  return under the facts the system invariant provides (the test is in the worker's book; outstanding indices are positions of the
  agreed collection; `maxschedchunk` is fixed once there are tests).
-/
namespace Xdist.Sys
open Xdist Xdist.Ctl Xdist.Load Xdist.Contract

variable {τ : Type} [DecidableEq τ]

/-- the scheduler facts carried along every execution -/
def SchedOk (s : Load.State τ) (g : Ghost) : Prop := BalS s g ∧ Load.MscS s ∧ Load.RBs s g

theorem stepsG_schedOk {s s' : Load.State τ} {e e' : Env} {g g' : Ghost} {as : List (Atom τ)}
    (h : StepsG s e g as s' e' g') (hb : SchedOk s g) : SchedOk s' g' := by
  induction h with
  | nil => exact hb
  | call hs _ ih =>
    obtain ⟨⟨hf, hbal, hst⟩, hm, hr⟩ := hb
    obtain ⟨hf1, hb1⟩ := Load.step_bal hf hbal hs
    exact ih ⟨⟨hf1, hb1, Load.step_started hf hst hs⟩, Load.step_mscS hm hs, Load.step_rb hf hr hs⟩
  | shut n _ ih => exact ih hb

theorem reachB_schedOk (numnodes maxfail : Nat) (msc maxRestart : Option Int) (idsOf : Nat → List τ) {st : LState τ} {W : List Nat}
    {g : Ghost} (h : ReachB idsOf (init loadI (Load.init numnodes msc) numnodes maxfail maxRestart idsOf) st W g) :
    SchedOk st.ctl.sched g := by
  induction h with
  | init =>
    refine ⟨⟨by intro _; rfl, ?_, ?_⟩, ?_, ?_⟩
    · simp [Bal, Load.view, Load.init, View.all, AList.values, init, Ctl.init]
    · simp [Load.StartedOK, Load.init, init, Ctl.init]
    · intro col hc; simp [init, Ctl.init, Load.init] at hc
    · intro j hj; cases hj
  | other a hn _ hs ih => rw [other_sched a hn hs]; exact ih
  | ctl k rq _ _ _ _ _ hg _ ih => exact stepsG_schedOk hg ih

/-- with tests to hand out, `maxschedchunk` is set -/
theorem SchedOk.mscOk {s : Load.State τ} {g : Ghost} (h : SchedOk s g) : Load.MscOk s := by
  obtain ⟨⟨_, hbal, hst⟩, hm, hr⟩ := h
  intro hp
  obtain ⟨i, t, hit⟩ := List.exists_cons_of_ne_nil hp
  have hi : i ∈ (Load.view s).all := by simp [Load.view, View.all, hit]
  have hlt := Load.bounded_of_bal hbal hst hr i hi
  unfold Load.total at hlt
  cases hc : s.collection with
  | none => rw [hc] at hlt; cases hlt
  | some col =>
    rw [hc] at hlt
    exact hm col hc (by intro hh; rw [hh] at hlt; cases hlt)

theorem mem_all_of_book {s : Load.State τ} {n i : Nat} {book : List Nat} (hb : AList.lookup s.node2pending n = some book)
    (hi : i ∈ book) : i ∈ (Load.view s).all := by
  simp only [Load.view, View.all, List.mem_append, List.mem_flatten]
  right
  refine ⟨book, ?_, hi⟩
  simp only [AList.values, List.mem_map]
  exact ⟨(n, book), mem_of_lookup hb, rfl⟩

/-- a non-empty book holds positions of the agreed collection -/
theorem SchedOk.book_item {s : Load.State τ} {g : Ghost} (h : SchedOk s g) {n i : Nat} {book : List Nat}
    (hb : AList.lookup s.node2pending n = some book) (hi : i ∈ book) :
    ∃ col item, s.collection = some col ∧ col[i]? = some item ∧ col ≠ [] ∧ s.maxschedchunk.isSome = true := by
  obtain ⟨⟨_, hbal, hst⟩, hm, hr⟩ := h
  have hlt := Load.bounded_of_bal hbal hst hr i (mem_all_of_book hb hi)
  unfold Load.total at hlt
  cases hc : s.collection with
  | none => rw [hc] at hlt; cases hlt
  | some col =>
    rw [hc] at hlt
    have hne : col ≠ [] := by intro hh; rw [hh] at hlt; cases hlt
    exact ⟨col, col[i], rfl, by simp [hlt], hne, hm col hc hne⟩

theorem removeActive_ok {σ : Type} {st : Ctl.State σ τ} {n : Nat} (h : n ∈ st.active) : ∃ st', removeActive st n = .ok st' := by
  unfold removeActive; simp [h]

theorem restartOrStop_active {σ : Type} (I : SchedI σ τ) (st : Ctl.State σ τ) (n : Nat) {a : Nat} (h : a ∈ st.active) :
    a ∈ (restartOrStop I st n).active := by
  rcases restartOrStop_cases I st n with ⟨b, hh⟩ | hh
  · rw [hh, (triggerShutdown_fields I _).2.2.1]; exact h
  · rw [hh]; simp only [cloneNode]; exact List.mem_append_left _ h

/-- **`worker_errordown` returns** -/
theorem errordown_total {c : Ctl.State (Load.State τ) τ} {g : Ghost} (hs : SchedOk c.sched g) {n : Nat} (rq : Bool)
    (hn : n ∈ c.active) : ∃ c1, errordown loadI c n rq = .ok c1 := by
  unfold errordown
  simp only
  have hfin : ∀ (a : Ctl.State (Load.State τ) τ), n ∈ a.active → ∃ c1, removeActive (restartOrStop loadI a n) n = .ok c1 :=
    fun a ha => removeActive_ok (restartOrStop_active loadI a n ha)
  cases hl : AList.lookup c.sched.node2pending n with
  | none =>
    have : callSched loadI ({ c with pubs := c.pubs ++ [Pub.nodedown n true] } : Ctl.State (Load.State τ) τ) (.removeNode n) =
        .error .keyError := by
      unfold callSched
      simp only [loadI, Load.step, Load.removeNode, AList.pop, hl, bind, Except.bind, Except.map]
    rw [this]
    exact hfin _ hn
  | some book =>
    obtain ⟨⟨s1, e1, r⟩, hrm⟩ := Load.removeNode_total c.sched c.env hl
      (by
        intro i rest hbk
        obtain ⟨col, item, h1, h2, _, _⟩ := hs.book_item hl (i := i) (by rw [hbk]; simp)
        exact ⟨col, item, h1, h2⟩)
      (by
        intro hh
        rcases hh with hh | hh
        · exact hs.mscOk hh
        · cases book with
          | nil => simp at hh
          | cons i rest =>
            obtain ⟨_, _, _, _, _, h4⟩ := hs.book_item hl (i := i) (by simp)
            exact h4)
    have hcall : callSched loadI ({ c with pubs := c.pubs ++ [Pub.nodedown n true] } : Ctl.State (Load.State τ) τ) (.removeNode n) =
        .ok (({ c with pubs := c.pubs ++ [Pub.nodedown n true], sched := s1, env := e1 } : Ctl.State (Load.State τ) τ), r) := by
      unfold callSched
      simp only [loadI, Load.step, hrm, Except.map]
    rw [hcall]
    cases r with
    | none => exact hfin _ hn
    | some t =>
      simp only
      -- the crash item is a test of the agreed collection
      obtain ⟨book', acts, hl', _, _, hstat, hret⟩ := Load.removeNode_ref hrm
      rw [hl] at hl'; cases hl'
      cases book with
      | nil => simp at hret
      | cons i rest =>
        simp only at hret
        obtain ⟨col, hcol, hci, _⟩ := hret
        obtain ⟨_, _, hcol', _, hne, hmsc⟩ := hs.book_item hl (i := i) (by simp)
        have hcol1 : s1.collection = some col := by rw [hstat.2.2.1]; exact hcol
        have hmsc1 : s1.maxschedchunk.isSome = true := by rw [hstat.2.2.2]; exact hmsc
        have htcol : t ∈ col := List.mem_of_getElem? hci
        unfold handleCrashItem
        cases rq with
        | false =>
          simp only [Bool.false_eq_true, ↓reduceIte, Except.map, bind, Except.bind]
          exact hfin _ hn
        | true =>
          obtain ⟨⟨s2, e2⟩, hmp⟩ := Load.markPending_total s1 e1 hcol1 htcol hmsc1
          have : callSched loadI ({ c with pubs := c.pubs ++ [Pub.nodedown n true], sched := s1, env := e1 } : Ctl.State (Load.State τ) τ)
              (.markPending t) = .ok (({ c with pubs := c.pubs ++ [Pub.nodedown n true], sched := s2, env := e2 } :
                Ctl.State (Load.State τ) τ), none) := by
            unfold callSched
            simp only [loadI, Load.step, hmp, Except.map]
          simp only [↓reduceIte, this, Except.map, bind, Except.bind]
          exact hfin _ hn

/-- **handling a completion returns** when the test is in the worker's book -/
theorem handle_complete_total {c : Ctl.State (Load.State τ) τ} {g : Ghost} (hs : SchedOk c.sched g) {n i : Nat} (slow : Bool)
    {book : List Nat} (hb : AList.lookup c.sched.node2pending n = some book) (hi : i ∈ book) :
    ∃ c1, handle loadI c (.complete n i slow) = .ok c1 := by
  obtain ⟨⟨s1, e1⟩, hmc⟩ := Load.markComplete_total c.sched c.env slow hb hi hs.mscOk
  simp only [handle, callSched, loadI, Load.step, hmc, Except.map]
  exact ⟨_, rfl⟩

end Xdist.Sys
