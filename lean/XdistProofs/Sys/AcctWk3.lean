import XdistProofs.Sys.AcctWk2
/-! `main`, `deliver`, `crash`, `recv` keep the eighth layer. -/
namespace Xdist.Sys
open Xdist Xdist.Ctl Xdist.Load Xdist.Contract

variable {τ : Type} [DecidableEq τ]

theorem main_inv8w (idsOf : Nat → List τ) {st st' : LState τ} {W : List Nat} {k : Nat} {p : MainP} (h6 : Inv6 st) (h7 : Inv7 st W)
    (hinv : Inv8w st W) (h : step Ctl.loadI idsOf st (.main k p) = .ok st') : Inv8w st' (ghostW st (.main k p) W) := by
  simp only [Sys.step] at h
  split at h
  · cases h
  · rename_i w hw
    split at h
    · cases h
    · rename_i w' hm
      simp only [Except.ok.injEq] at h
      subst h
      exact inv8w_setWk hinv hw (mainStep_inv8 (h6 k w hw) (h7 k w hw) (hinv k w hw) hm)

theorem deliver_inv8w (idsOf : Nat → List τ) {st st' : LState τ} {W : List Nat} {k : Nat} (hinv : Inv8w st W)
    (h : step Ctl.loadI idsOf st (.deliver k) = .ok st') : Inv8w st' (ghostW st (.deliver k) W) := by
  simp only [Sys.step] at h
  split at h
  · cases h
  · rename_i w hw
    split at h
    · cases h
    · rename_i w' hm
      simp only [Except.ok.injEq] at h
      subst h
      exact inv8w_setWk hinv hw (deliverStep_inv8 (hinv k w hw) hm)

theorem crash_inv8w (idsOf : Nat → List τ) {st st' : LState τ} {W : List Nat} {k : Nat} {b : Bool} (hinv : Inv8w st W)
    (h : step Ctl.loadI idsOf st (.crash k b) = .ok st') : Inv8w st' (ghostW st (.crash k b) W) := by
  simp only [Sys.step] at h
  split at h
  · cases h
  rename_i s1 hc
  simp only [Except.ok.injEq] at h
  subst h
  unfold crashStep at hc
  split at hc
  · cases hc
  rename_i w hw
  split at hc
  · cases hc
  have base := inv8w_setWk hinv hw (crash_wk8 (hinv k w hw))
  split at hc
  · simp only [Option.some.injEq] at hc
    subst hc
    intro j wj hj
    refine WkInv8.congr ?_ (base j wj hj)
    simp only [setWk, Contract.flags_get_set]; split <;> simp_all
  · simp only [Option.some.injEq] at hc
    subst hc
    exact base

theorem completes_evs_of_post {j : Nat} {m : WMsg τ} {evs : List (Ctl.Event τ)}
    (h : evs = (evOf j m).toList ∨ (evs = [Ctl.Event.errordown j false] ∧ evOf j m = none)) :
    completes evs = (msgC m).toList := by
  rcases h with h | ⟨h, h'⟩
  · rw [h]
    cases m with
    | ev e => cases e <;> rfl
    | ignored => rfl
    | fin x sf ss => rfl
    | garbage => rfl
    | endMarker => rfl
  · rw [h]
    cases m with
    | ev e => simp [evOf] at h'
    | ignored => rfl
    | fin x sf ss => simp [evOf] at h'
    | garbage => rfl
    | endMarker => rfl

theorem recv_inv8w (idsOf : Nat → List τ) {st st' : LState τ} {W : List Nat} {k : Nat} (hinv6 : Inv6 st)
    (hinv7 : Inv7 st W) (hinv : Inv8w st W) (h : step Ctl.loadI idsOf st (.recv k) = .ok st') :
    Inv8w st' (ghostW st (.recv k) W) := by
  have hWsub : ∀ x, x ∈ W → x ∈ ghostW st (.recv k) W := fun x hx => ghostW_mono st _ W hx
  simp only [Sys.step] at h
  split at h
  · cases h
  rename_i s1 hr
  simp only [Except.ok.injEq] at h
  subst h
  obtain ⟨w, m, rest, fl', w2, outs', hw, ho, rfl, hfl', hw2⟩ := recvStep_shape hr
  simp only at hfl' hw2
  have wi6 := hinv6 k w hw
  have wi7 := hinv7 k w hw
  have wi8 := hinv k w hw
  have hflk : Flags.get (AList.set st.ctl.env.flags k fl') k = fl' := by simp [Contract.flags_get_set]
  have hflj : ∀ j, j ≠ k → Flags.get (AList.set st.ctl.env.flags k fl') j = st.ctl.env.flags.get j := by
    intro j hj; simp [Contract.flags_get_set, hj]
  intro j wj hj
  by_cases hjk : j ≠ k
  · simp only at hj
    rw [List.getElem?_set_ne (Ne.symm hjk)] at hj
    exact WkInv8.congr (by simp only; rw [hflj j hjk]) ((hinv j wj hj).mono hWsub)
  have hjk : j = k := Classical.byContradiction hjk
  subst hjk
  simp only at hj
  rw [getElem?_set_self' hw] at hj
  cases hj
  have hgarb : m = .garbage → (st.ctl.env.flags.get j).down = false → j ∈ ghostW st (.recv j) W := by
    intro hm hd
    unfold ghostW
    simp only [hw, ho, hm, hd, Bool.false_eq_true, ↓reduceIte, List.mem_cons, true_or]
  generalize hevs : (Receiver.step (α := Ctl.Event τ) { down := (st.ctl.env.flags.get j).down, shutdownSent := (st.ctl.env.flags.get j).sent }
    (toRecv j m)).2.1.map (ofPost j) = evs at hw2
  have hshape : w2 = ({ w with outbox := rest, posted := w.posted ++ evs } : Wk τ) ∨
      w2 = ({ w with outbox := rest, posted := w.posted ++ evs, inbox := w.inbox ++ [.shutdown] } : Wk τ) := by
    rw [hw2]
    split
    · split
      · exact Or.inr rfl
      · exact Or.inl rfl
    · exact Or.inl rfl
  have hal2 : w2.alive = w.alive := by rcases hshape with h | h <;> rw [h]
  have hph2 : w2.phase = w.phase := by rcases hshape with h | h <;> rw [h]
  have hob2 : w2.outbox = rest := by rcases hshape with h | h <;> rw [h]
  have hpo2 : w2.posted = w.posted ++ evs := by rcases hshape with h | h <;> rw [h]
  have hdone2 : doneIdx w2 = doneIdx w := by rcases hshape with h | h <;> rw [h] <;> rfl
  have hdown' : fl'.down = ((st.ctl.env.flags.get j).down || closes m) := by
    rw [hfl']
    cases hd : (st.ctl.env.flags.get j).down <;> cases m <;> simp [Receiver.step, toRecv, closes]
  have hnW : j ∉ ghostW st (.recv j) W → j ∉ W := fun hh hx => hh (hWsub j hx)
  have hgetd : (Flags.get (AList.set st.ctl.env.flags j fl') j).down = fl'.down := by rw [hflk]
  -- what is still on its way is unchanged
  have hinfl : j ∉ ghostW st (.recv j) W → inflightC w2 = inflightC w := by
    intro hW
    unfold inflightC
    rw [hpo2, hob2, ho, filterMap_cons_toList, completes_append, List.append_assoc]
    congr 1
    congr 1
    cases hd0 : (st.ctl.env.flags.get j).down with
    | false =>
      have hposts' : evs = (evOf j m).toList ∨ (evs = [Ctl.Event.errordown j false] ∧ evOf j m = none) := by
        rw [← hevs, hd0]
        cases m <;> simp [Receiver.step, toRecv, ofPost, evOf]
      exact completes_evs_of_post hposts'
    | true =>
      have hq := quiet wi7 wi8 (hnW hW) hd0
      rw [ho, filterMap_cons_toList] at hq
      have hm0 : (msgC m).toList = [] := (List.append_eq_nil_iff.1 hq).1
      rw [hm0]
      have : evs = [] := by
        rw [← hevs, hd0]
        cases m <;> simp [Receiver.step, toRecv]
      rw [this]; rfl
  refine ⟨?_, fun hW => (suf_step (d := []) (wi8.suf (hnW hW)) (by rw [hdone2, List.append_nil])
    (by rw [hinfl hW, List.append_nil])).1⟩
  intro ha hp hW
  rw [hal2] at ha
  rw [hph2] at hp
  simp only
  rw [hgetd, hdown', hob2]
  rcases wi8.tailA ha hp (hnW hW) with ⟨hd0, a, x, sf, ss, hout, hne, hnf⟩ | ⟨hd0, hout | hout⟩
  · rw [hd0]
    simp only [Bool.false_or]
    rw [ho] at hout
    cases a with
    | nil =>
      simp only [List.nil_append, List.cons.injEq] at hout
      right
      rw [hout.1]
      exact ⟨rfl, Or.inl hout.2⟩
    | cons y a' =>
      simp only [List.cons_append, List.cons.injEq] at hout
      obtain ⟨rfl, hrest⟩ := hout
      have hy1 := hne m (by simp)
      have hy2 := hnf m (by simp)
      cases m with
      | ev e =>
        left
        exact ⟨rfl, a', x, sf, ss, hrest, fun z hz => hne z (List.mem_cons_of_mem _ hz), fun z hz => hnf z (List.mem_cons_of_mem _ hz)⟩
      | ignored =>
        left
        exact ⟨rfl, a', x, sf, ss, hrest, fun z hz => hne z (List.mem_cons_of_mem _ hz), fun z hz => hnf z (List.mem_cons_of_mem _ hz)⟩
      | fin x' sf' ss' => simp [isFin] at hy2
      | garbage => exact absurd (hgarb rfl hd0) hW
      | endMarker => simp [isEnd] at hy1
  · rw [hd0]
    simp only [Bool.true_or]
    rw [ho] at hout
    simp only [List.cons.injEq] at hout
    right
    exact ⟨trivial, Or.inr hout.2⟩
  · rw [ho] at hout; cases hout

end Xdist.Sys
