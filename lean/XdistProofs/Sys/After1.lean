import XdistProofs.Sys.NoRaise8
import XdistProofs.Sched.LoadWd
/-!
  C16 / C17 at the level of the whole system (`--dist load`): what one iteration of the controller loop puts on the wire relative
  to the shutdown signals (`iter_wd`), and: while the run is early (no stop decided, budget not exceeded, collection not complete)
  no worker has been told to shut down (`FO`), so the first `schedule()` — which does not look at the flags — meets none.
-/
namespace Xdist.Sys
open Xdist Xdist.Ctl Xdist.Load Xdist.Contract

variable {τ : Type} [DecidableEq τ]

def schedAtom : Atom τ → Prop
  | .call .schedule => True
  | _ => False

/-- atoms other than the first `schedule()` -/
theorem steps_wd_plain {s s' : Load.State τ} {e e' : Env} {as : List (Atom τ)} (h : Steps (loadI (τ := τ)) s e as s' e')
    (hno : ∀ a ∈ as, ¬ schedAtom a) : ∃ new, Load.Wd e new e' := by
  induction h with
  | nil s e => exact ⟨[], Load.Wd.refl e⟩
  | @call s e op s1 e1 r as s2 e2 hs _ ih =>
    obtain ⟨n1, a1⟩ := Load.step_wd (by
      intro hop
      exact absurd (show schedAtom (Atom.call op) by rw [hop]; trivial) (hno _ List.mem_cons_self)) hs
    obtain ⟨n2, a2⟩ := ih (fun a ha => hno a (List.mem_cons_of_mem _ ha))
    exact ⟨n1 ++ n2, a1.trans a2⟩
  | shut n _ ih =>
    obtain ⟨n1, a1⟩ := Load.shutdown_wd _ n
    obtain ⟨n2, a2⟩ := ih (fun a ha => hno a (List.mem_cons_of_mem _ ha))
    exact ⟨n1 ++ n2, a1.trans a2⟩

theorem allShut_noSched {K : Nat → Prop} {t : List (Atom τ)} (h : AllShut K t) : ∀ a ∈ t, ¬ schedAtom a := by
  intro a ha
  obtain ⟨n, rfl, _⟩ := h a ha
  exact fun hh => hh

/-- **one iteration**: nothing for a node already told to shut down, nothing behind a shutdown signal, every signal sets the
    flag — provided the first `schedule()` meets no node that was told to shut down -/
theorem iter_wd {c c' : Ctl.State (Load.State τ) τ} {ev : Ctl.Event τ} {as : List (Atom τ)}
    (hst : Steps (loadI (τ := τ)) c.sched c.env as c'.sched c'.env) (hsh : Shape loadI c c' ev as)
    (hfirst : c.shuttingdown = false → c.sched.collection = none →
      ∀ m ∈ AList.keys c.sched.node2pending, (c.env.flags.get m).sent = false) :
    ∃ new, Load.Wd c.env new c'.env := by
  have plain := fun hno => steps_wd_plain hst hno
  cases ev with
  | collectionfinish n cc =>
    obtain ⟨t, ht, h' | h' | h'⟩ := hsh
    · exact plain (by rw [h'.2]; exact allShut_noSched ht)
    · apply plain
      rw [h'.2.2.2]
      intro a ha
      rcases List.mem_cons.1 ha with rfl | ha
      · exact fun hh => hh
      · exact allShut_noSched ht a ha
    · obtain ⟨hsd, _, has⟩ := h'
      rw [has] at hst
      cases hst with
      | call hs1 t1 =>
        cases t1 with
        | call hs2 t2 =>
          rename_i s1 e1 r1 s2 e2 r2
          -- `add_node_collection` touches neither the books nor the wire
          have h1 : e1 = c.env ∧ s1.collection = c.sched.collection ∧ s1.node2pending = c.sched.node2pending := by
            have hs1' := hs1
            simp only [loadI, Load.step] at hs1'
            obtain ⟨sa, ha1, ha2⟩ := map_ok.1 hs1'
            simp only [Prod.mk.injEq] at ha2
            obtain ⟨rfl, rfl, _⟩ := ha2
            obtain ⟨hv, hcoll, _, _⟩ := Load.addNodeCollection_view ha1
            refine ⟨rfl, hcoll, ?_⟩
            have := congrArg View.books hv; simpa [Load.view] using this
          obtain ⟨rfl, hc1, hb1⟩ := h1
          obtain ⟨n2, a2⟩ := Load.step_wd (s := s1) (op := .schedule) (by
            intro _ hcn m hm
            unfold Load.nodes at hm
            rw [hb1] at hm
            exact hfirst hsd (by rw [← hc1]; exact hcn) m hm) hs2
          obtain ⟨n3, a3⟩ := steps_wd_plain t2 (allShut_noSched ht)
          exact ⟨n2 ++ n3, a2.trans a3⟩
  | workerready n =>
    apply plain
    obtain ⟨t, ht, h' | h'⟩ := hsh
    · rw [h'.2]; intro a ha
      rcases List.mem_cons.1 ha with rfl | ha
      · exact fun hh => hh
      · exact allShut_noSched ht a ha
    · rw [h'.2]; intro a ha
      rcases List.mem_cons.1 ha with rfl | ha
      · exact fun hh => hh
      · exact allShut_noSched ht a ha
  | complete n i slow =>
    apply plain
    obtain ⟨t, ht, rfl⟩ := hsh
    intro a ha
    rcases List.mem_cons.1 ha with rfl | ha
    · exact fun hh => hh
    · exact allShut_noSched ht a ha
  | unscheduled n is =>
    apply plain
    obtain ⟨t, ht, rfl⟩ := hsh
    intro a ha
    rcases List.mem_cons.1 ha with rfl | ha
    · exact fun hh => hh
    · exact allShut_noSched ht a ha
  | errordown n rq =>
    apply plain
    obtain ⟨t, ht, h' | h' | ⟨x, _, h'⟩⟩ := hsh
    · rw [h']; exact allShut_noSched ht
    · rw [h']; intro a ha
      rcases List.mem_cons.1 ha with rfl | ha
      · exact fun hh => hh
      · exact allShut_noSched ht a ha
    · rw [h']; intro a ha
      rcases List.mem_cons.1 ha with rfl | ha
      · exact fun hh => hh
      · rcases List.mem_cons.1 ha with rfl | ha
        · exact fun hh => hh
        · exact allShut_noSched ht a ha
  | workerfinished n x sf ss =>
    apply plain
    obtain ⟨t0, t, ht0, ht, h' | h'⟩ := hsh
    · rw [h']; intro a ha
      rcases List.mem_append.1 ha with ha | ha
      · exact allShut_noSched ht0 a ha
      · exact allShut_noSched ht a ha
    · rw [h']; intro a ha
      rcases List.mem_append.1 ha with ha | ha
      · exact allShut_noSched ht0 a ha
      · rcases List.mem_cons.1 ha with rfl | ha
        · exact fun hh => hh
        · exact allShut_noSched ht a ha
  | internalError n => exact plain (allShut_noSched hsh)
  | testreport n f => exact plain (allShut_noSched hsh)
  | collectreport n key f => exact plain (allShut_noSched hsh)
  | other => exact plain (allShut_noSched hsh)

/-- while the run is early nobody has been told to shut down (except by the receiver thread, after an undecodable message) -/
def FO (st : LState τ) (W : List Nat) : Prop := late st.ctl = false → ∀ k, k ∉ W → (st.ctl.env.flags.get k).sent = false

theorem step_fo (idsOf : Nat → List τ) {st st' : LState τ} {W : List Nat} (a : Step) (h1 : Inv st) (h2 : Inv2 st) (hfo : FO st W)
    (h : step loadI idsOf st a = .ok st') : FO st' (ghostW st a W) := by
  cases a with
  | main k p =>
    simp only [Sys.step] at h
    split at h
    · cases h
    · split at h
      · cases h
      · simp only [Except.ok.injEq] at h; subst h; exact hfo
  | deliver k =>
    simp only [Sys.step] at h
    split at h
    · cases h
    · split at h
      · cases h
      · simp only [Except.ok.injEq] at h; subst h; exact hfo
  | crash k b =>
    simp only [Sys.step] at h
    split at h
    · cases h
    rename_i s1 hc
    simp only [Except.ok.injEq] at h; subst h
    unfold crashStep at hc
    split at hc
    · cases hc
    split at hc
    · cases hc
    split at hc
    · simp only [Option.some.injEq] at hc; subst hc
      intro hl j hj
      have := hfo (by rw [← hl]; exact (late_congr rfl rfl rfl rfl).symm) j hj
      simp only [setWk, Contract.flags_get_set]
      split
      · rename_i hjk; subst hjk; exact this
      · exact this
    · simp only [Option.some.injEq] at hc; subst hc; exact hfo
  | recv k =>
    have hWsub : ∀ x, x ∈ W → x ∈ ghostW st (.recv k) W := fun x hx => ghostW_mono st _ W hx
    simp only [Sys.step] at h
    split at h
    · cases h
    rename_i s1 hr
    simp only [Except.ok.injEq] at h; subst h
    obtain ⟨w, m, rest, fl', w2, outs', hw, ho, rfl, hfl', hw2⟩ := recvStep_shape hr
    intro hl j hj
    have hl0 : late st.ctl = false := by rw [← hl]; exact (late_congr rfl rfl rfl rfl).symm
    have hjW : j ∉ W := fun hh => hj (hWsub j hh)
    have base := hfo hl0 j hjW
    simp only [Contract.flags_get_set]
    split
    · rename_i hjk
      subst hjk
      rw [hfl']
      simp only
      cases hd : (st.ctl.env.flags.get j).down with
      | true => cases m <;> simp [Receiver.step, toRecv, base]
      | false =>
        cases m with
        | garbage =>
          exfalso
          apply hj
          unfold ghostW
          simp only [hw, ho, hd, Bool.false_eq_true, ↓reduceIte, List.mem_cons, true_or]
        | ev e => simp [Receiver.step, toRecv, base]
        | ignored => simp [Receiver.step, toRecv, base]
        | fin x sf ss => simp [Receiver.step, toRecv, base]
        | endMarker => simp [Receiver.step, toRecv, base]
    · exact base
  | ctl k rq =>
    simp only [Sys.step] at h
    obtain ⟨w, ev0, rest, c', hw, hp, hl, rfl⟩ := ctlStep_shape h
    show FO _ W
    intro hlate' j hj
    simp only at hlate' ⊢
    have hlate : late st.ctl = false := by
      cases hh : late st.ctl with
      | false => rfl
      | true => rw [late_mono hl hh] at hlate'; cases hlate'
    have wi := h1.wk hw
    have hown : Own k ev0 = true := wi.ownP ev0 (by rw [hp]; simp)
    have hsd : st.ctl.shuttingdown = false := by
      cases hh : st.ctl.shuttingdown with
      | false => rfl
      | true => rw [h2.1.shutLate hh] at hlate; cases hlate
    have hfin : evFinOk (late st.ctl) (fixRq rq ev0) = true := by
      have := (h2.wk hw).finPosted ev0 (by rw [hp]; simp)
      cases ev0 <;> exact this
    have hni : ∀ n, fixRq rq ev0 ≠ .internalError n := by
      intro n hh
      have := fixRq_own rq hown
      rw [hh] at this
      simp [Own] at this
    have ei := early_iteration hl hlate' hlate hsd (h2.1.early hlate) h1.1.nodup hfin hni
    rw [ei.env]
    exact hfo hlate j hj

end Xdist.Sys
