import XdistProofs.Sys.Done
/-! The worker-side steps keep the fourth layer (`Inv6`). -/
namespace Xdist.Sys
open Xdist Xdist.Ctl Xdist.Load

variable {τ : Type} [DecidableEq τ]

theorem completes_testreports (k : Nat) (fs : List Bool) :
    completes ((fs.map (fun f => WMsg.ev (Ctl.Event.testreport (τ := τ) k f)) ++ [WMsg.ev Ctl.Event.other]).filterMap (evOf k)) = [] := by
  induction fs with
  | nil => rfl
  | cons f t ih => simpa [completes, evOf, complIdx, List.filterMap_cons] using ih

theorem mainStep_inv6 {c : Ctl.State (Load.State τ) τ} {k : Nat} {w w' : Wk τ} {p : MainP} (h1 : WkInv c k w) (h : WkInv6 c k w)
    (hm : mainStep k w p = some w') : WkInv6 c k w' := by
  unfold mainStep at hm
  have ha : w.alive = true := by
    cases hh : w.alive with
    | true => rfl
    | false => simp [hh] at hm
  have hna : (!w.alive) = false := by simp [ha]
  simp only [hna, Bool.false_eq_true, ↓reduceIte] at hm
  cases hph : w.phase with
  | boot =>
    simp only [hph, Option.some.injEq] at hm
    subst hm
    exact wkInv6_emit [.ev (.workerready k)] h rfl (by rw [hph]; simp) (by simp) rfl rfl
      (by intro m hm; simp at hm; subst hm; rfl) rfl rfl rfl
  | collect =>
    simp only [hph] at hm
    cases p with
    | collect errs garbage intr sf0 =>
      simp only at hm
      have hcs : ∀ tl : List (WMsg τ), tl.filterMap (evOf k) = [] →
          completes ((([WMsg.ignored] ++ errs.map (fun (e : String × Bool) => WMsg.ev (Ctl.Event.collectreport k e.1 e.2)) ++
            [WMsg.ev (Ctl.Event.collectionfinish k w.ids)]) ++ tl).filterMap (evOf k)) = [] := by
        intro tl htl
        rw [evOf_collect_msgs k w.ids errs tl htl]
        apply completes_nil_of
        intro e he
        rcases List.mem_append.1 he with he | he
        · obtain ⟨x, _, rfl⟩ := List.mem_map.1 he; rfl
        · simp at he; subst he; rfl
      have hfin : ∀ m ∈ ([WMsg.ignored] ++ errs.map (fun (e : String × Bool) => WMsg.ev (Ctl.Event.collectreport (τ := τ) k e.1 e.2)) ++
            [WMsg.ev (Ctl.Event.collectionfinish k w.ids)]), isFin m = false := by
        intro m hm
        simp only [List.mem_append, List.mem_cons, List.mem_map, List.not_mem_nil, or_false] at hm
        rcases hm with (rfl | ⟨x, _, rfl⟩) | rfl <;> rfl
      split at hm
      · simp only [Option.some.injEq] at hm
        subst hm
        refine wkInv6_emit _ h rfl (by rw [hph]; simp) (by simp) rfl rfl hfin ?_ rfl rfl
        have := hcs [] rfl
        simpa using this
      · simp only [Option.some.injEq] at hm
        subst hm
        refine wkInv6_emit (([WMsg.ignored] ++ errs.map (fun (e : String × Bool) => WMsg.ev (Ctl.Event.collectreport k e.1 e.2)) ++
            [WMsg.ev (Ctl.Event.collectionfinish k w.ids)]) ++ (if garbage then [WMsg.garbage] else [])) h rfl (by rw [hph]; simp) (by simp)
          rfl (by simp [List.append_assoc]) ?_ (hcs _ (by split <;> rfl)) rfl rfl
        intro m hm
        rcases List.mem_append.1 hm with hm | hm
        · exact hfin m hm
        · split at hm <;> simp at hm
          subst hm; rfl
    | none => simp at hm
    | reports fs sf ss ex => simp at hm
    | complete slow => simp at hm
  | finish =>
    simp only [hph, Option.some.injEq] at hm
    subst hm
    have hnd : w.phase ≠ .done := by rw [hph]; simp
    have hno := h.finNoneO ha hnd
    refine wkInv6_local h (fun _ => ha) hnd (fun _ hp => absurd rfl hp) ?_ rfl ?_
    · intro _ a x sf ss b hs
      exact fin_split_unique hno hs
    · intro _ ⟨x1, x2, x3⟩
      refine ⟨?_, x2, x3⟩
      rw [flight_emit k (w := w) (w' := ({ w with outbox := w.outbox ++ [.fin w.exitstatus w.sf w.ss, .endMarker], phase := .done } : Wk τ))
        (ms := [.fin w.exitstatus w.sf w.ss, .endMarker]) rfl rfl, completes_append, x1]
      rfl
  | done => simp [hph] at hm
  | loop =>
    simp only [hph] at hm
    have hnd : w.phase ≠ .done := by rw [hph]; simp
    cases hpc : w.w.pc with
    | init =>
      simp only [hpc] at hm
      obtain ⟨v, hv, rfl⟩ := Option.map_eq_some_iff.1 hm
      unfold Worker.get0 at hv
      simp only [hpc, ne_eq, not_true_eq_false, ↓reduceIte] at hv
      split at hv
      · cases hv
      · rename_i q r htr
        simp only [Option.some.injEq] at hv
        subst hv
        have hn := h1.init0 hpc
        refine wkInv6_emit [] h rfl hnd (by simp only; split <;> simp) rfl (by simp) (by simp) rfl ?_ rfl
        unfold heldS
        simp only [hpc, hn, htr]
        cases q <;> simp [Worker.tests]
    | haveItem =>
      simp only [hpc] at hm
      obtain ⟨v, hv, rfl⟩ := Option.map_eq_some_iff.1 hm
      unfold Worker.get1 at hv
      simp only [hpc, ne_eq, not_true_eq_false, ↓reduceIte] at hv
      split at hv
      · rename_i i q r hnx htr
        simp only [Option.some.injEq] at hv
        subst hv
        refine wkInv6_emit [] h rfl hnd (by simp) rfl (by simp) (by simp) rfl ?_ rfl
        unfold heldS
        simp only [hpc, hnx, htr]
        cases q <;> simp [Worker.tests]
      · cases hv
    | done => simp [hpc] at hm
    | running =>
      simp only [hpc] at hm
      split at hm
      · simp only [Option.some.injEq] at hm
        subst hm
        exact wkInv6_emit [.ev .other] h rfl hnd (by simp) rfl rfl (by intro m hm; simp at hm; subst hm; rfl) rfl rfl rfl
      · simp only [Option.some.injEq] at hm
        subst hm
        refine wkInv6_emit _ h rfl hnd (by simp) rfl (List.append_assoc _ _ _) ?_ (completes_testreports k _) rfl rfl
        intro m hm
        simp only [List.mem_append, List.mem_map, List.mem_singleton] at hm
        rcases hm with ⟨x, _, rfl⟩ | rfl <;> rfl
      · split at hm
        · simp only [Option.some.injEq] at hm
          subst hm
          exact wkInv6_emit [] h rfl hnd (by simp) rfl (by simp) (by simp) rfl rfl rfl
        · split at hm
          · rename_i i v hcur hfin
            simp only [Option.some.injEq] at hm
            subst hm
            unfold Worker.finish at hfin
            simp only [hpc, ne_eq, not_true_eq_false, ↓reduceIte, hcur, Option.some.injEq] at hfin
            subst hfin
            -- a completion: the worker was running a test, so it is known to the scheduler (or nothing is claimed)
            rename_i slow _ _ _ _
            have hno : ∀ m ∈ w.outbox ++ [WMsg.ev (Ctl.Event.complete k i slow)], isFin m = false := by
              intro m hm
              rcases List.mem_append.1 hm with hm | hm
              · exact h.finNoneO ha hnd m hm
              · simp at hm; subst hm; rfl
            refine wkInv6_local h (fun _ => ha) hnd (fun _ _ => hno) ?_ rfl ?_
            · intro _ a x sf ss b hs
              exact (no_fin_split hno hs).elim
            · intro _ ⟨_, x2, _⟩
              exfalso
              unfold heldS at x2
              simp [hpc, hcur] at x2
          · cases hm
      · cases hm

theorem deliverStep_inv6 {c : Ctl.State (Load.State τ) τ} {k : Nat} {w w' : Wk τ} (h1 : WkInv c k w) (h : WkInv6 c k w)
    (hd : deliverStep k w = some w') : WkInv6 c k w' := by
  unfold deliverStep at hd
  split at hd
  · cases hd
  rename_i hg
  simp only [Bool.or_eq_true, Bool.not_eq_eq_eq_not, Bool.not_true, decide_eq_true_eq, not_or] at hg
  have hnd : w.phase ≠ .done := hg.2
  cases hi : w.inbox with
  | nil => simp [hi] at hd
  | cons cmd rest =>
    simp only [hi] at hd
    have hk := h1.inboxK cmd (by rw [hi]; simp)
    cases cmd with
    | run is =>
      simp only [Option.some.injEq] at hd
      subst hd
      obtain ⟨f1, f2, f3, f4⟩ := putMany_fields w.w is
      refine wkInv6_local h (fun ha => ha) hnd (h.finNoneO) (h.finLast) rfl ?_
      intro _ ⟨x1, x2, x3⟩
      unfold inboxRuns at x3
      rw [hi] at x3
      simp only [List.flatMap_cons, List.append_eq_nil_iff] at x3
      obtain ⟨his, hrest⟩ := x3
      subst his
      refine ⟨x1, ?_, ?_⟩
      · unfold heldS at x2 ⊢
        simp only [Worker.putMany]
        exact x2
      · unfold inboxRuns; exact hrest
    | shutdown =>
      simp only [Option.some.injEq] at hd
      subst hd
      refine wkInv6_local h (fun ha => ha) hnd (h.finNoneO) (h.finLast) rfl ?_
      intro _ ⟨x1, x2, x3⟩
      refine ⟨x1, ?_, ?_⟩
      · unfold heldS at x2 ⊢
        simp only [Worker.putShutdown, tests_append, Worker.tests, List.append_nil]
        exact x2
      · unfold inboxRuns at x3 ⊢
        rw [hi] at x3
        simpa using x3
    | runAll => simp [loadCmd] at hk
    | steal is => simp [loadCmd] at hk

end Xdist.Sys

namespace Xdist.Sys
open Xdist Xdist.Ctl Xdist.Load

variable {τ : Type} [DecidableEq τ]

/-- the fourth layer only looks at the scheduler, the active set, the loss counter and the stop reason -/
theorem WkInv6.congr {c c' : Ctl.State (Load.State τ) τ} {j : Nat} {w : Wk τ} (hs : c'.sched = c.sched)
    (ha : c'.active = c.active) (hf : c'.failedNodes = c.failedNodes) (hst : c'.shouldstop = c.shouldstop)
    (h : WkInv6 c j w) : WkInv6 c' j w :=
  ⟨h.finNoneO, h.finNoneP, h.finLast, by rw [ha, hs]; exact h.nr, by rw [hs]; exact h.doneSync,
    by rw [hf, hst, ha]; exact h.idleDone⟩

theorem WkInv6.congr_env {c : Ctl.State (Load.State τ) τ} (e' : Env) {j : Nat} {w : Wk τ} (h : WkInv6 c j w) :
    WkInv6 ({ c with env := e' } : Ctl.State (Load.State τ) τ) j w :=
  WkInv6.congr (c := c) (c' := { c with env := e' }) rfl rfl rfl rfl h

theorem inv6_setWk {st : LState τ} {k : Nat} {w w' : Wk τ} (hinv : Inv6 st) (hw : st.wk[k]? = some w)
    (h' : WkInv6 st.ctl k w') : Inv6 (setWk st k w') := by
  intro j wj hj
  by_cases hjk : j = k
  · subst hjk
    simp only [setWk] at hj
    rw [getElem?_set_self' hw] at hj
    cases hj
    exact h'
  · simp only [setWk] at hj
    rw [List.getElem?_set_ne (Ne.symm hjk)] at hj
    exact hinv j wj hj

theorem main_inv6 (idsOf : Nat → List τ) {st st' : LState τ} {k : Nat} {p : MainP} (hinv1 : Inv st) (hinv : Inv6 st)
    (h : step Ctl.loadI idsOf st (.main k p) = .ok st') : Inv6 st' := by
  simp only [step] at h
  split at h
  · cases h
  · rename_i w hw
    split at h
    · cases h
    · rename_i w' hm
      simp only [Except.ok.injEq] at h
      subst h
      exact inv6_setWk hinv hw (mainStep_inv6 (hinv1.wk hw) (hinv k w hw) hm)

theorem deliver_inv6 (idsOf : Nat → List τ) {st st' : LState τ} {k : Nat} (hinv1 : Inv st) (hinv : Inv6 st)
    (h : step Ctl.loadI idsOf st (.deliver k) = .ok st') : Inv6 st' := by
  simp only [step] at h
  split at h
  · cases h
  · rename_i w hw
    split at h
    · cases h
    · rename_i w' hm
      simp only [Except.ok.injEq] at h
      subst h
      exact inv6_setWk hinv hw (deliverStep_inv6 (hinv1.wk hw) (hinv k w hw) hm)

theorem crash_inv6 (idsOf : Nat → List τ) {st st' : LState τ} {k : Nat} {b : Bool} (hinv : Inv6 st)
    (h : step Ctl.loadI idsOf st (.crash k b) = .ok st') : Inv6 st' := by
  simp only [step] at h
  split at h
  · cases h
  rename_i s1 hc
  simp only [Except.ok.injEq] at h
  subst h
  unfold crashStep at hc
  split at hc
  · cases hc
  rename_i w hw
  split at hc
  · cases hc
  have hdead : WkInv6 st.ctl k ({ w with alive := false, inbox := [], outbox := w.outbox ++ [.endMarker] } : Wk τ) :=
    { finNoneO := (by intro ha; cases ha)
      finNoneP := (by intro ha; cases ha)
      finLast := (by intro ha; cases ha)
      nr := (by intro ha; cases ha)
      doneSync := (by intro ha; cases ha)
      idleDone := (by intro ha; cases ha) }
  have base := inv6_setWk hinv hw hdead
  split at hc
  · simp only [Option.some.injEq] at hc
    subst hc
    intro j wj hj
    exact WkInv6.congr_env _ (base j wj hj)
  · simp only [Option.some.injEq] at hc
    subst hc
    exact base

theorem isWf_notice {e : Ctl.Event τ} (h : isWf e = true) : isNotice e = true := by
  cases e <;> simp [isWf] at h <;> rfl

/-- what the receiver thread posts for a message -/
theorem recv_posts (j : Nat) (d s : Bool) (m : WMsg τ) :
    let evs := (Receiver.step (α := Ctl.Event τ) { down := d, shutdownSent := s } (toRecv j m)).2.1.map (ofPost j)
    evs = [] ∨ (d = false ∧ evs = (evOf j m).toList) ∨ (d = false ∧ evs = [Ctl.Event.errordown j false] ∧ evOf j m = none) := by
  cases d with
  | true => left; cases m <;> simp [Receiver.step, toRecv]
  | false =>
    cases m with
    | ev e => right; left; simp [Receiver.step, toRecv, ofPost, evOf]
    | ignored => left; simp [Receiver.step, toRecv]
    | fin x sf ss => right; left; simp [Receiver.step, toRecv, ofPost, evOf]
    | garbage => right; right; simp [Receiver.step, toRecv, ofPost, evOf]
    | endMarker => right; right; simp [Receiver.step, toRecv, ofPost, evOf]

theorem filterMap_cons_toList {α β : Type} (f : α → Option β) (a : α) (l : List α) :
    (a :: l).filterMap f = (f a).toList ++ l.filterMap f := by
  simp only [List.filterMap_cons]; cases f a <;> rfl

end Xdist.Sys
