import XdistProofs.Sys.NoRaise1
/-!
  C17, whole system, `--dist load`: handling a completion, a report or a death notice never ends in an internal error.
  Tenth layer: a live worker that was not written off because of an undecodable message has no death notice of the `errordown`
  kind on the controller's queue (`Inv10`) — so a live worker the receiver regards as gone is one that *finished*.
-/
namespace Xdist.Sys
open Xdist Xdist.Ctl Xdist.Load Xdist.Contract

variable {τ : Type} [DecidableEq τ]

def isErrd : Ctl.Event τ → Bool
  | .errordown _ _ => true
  | _ => false

def Inv10 (st : LState τ) (W : List Nat) : Prop :=
  ∀ k w, st.wk[k]? = some w → w.alive = true → k ∉ W → ∀ e ∈ w.posted, isErrd e = false

theorem inv10_setWk {st : LState τ} {W : List Nat} {k : Nat} {w w' : Wk τ} (hinv : Inv10 st W) (hw : st.wk[k]? = some w)
    (h' : w'.alive = true → w.alive = true) (hp : w'.posted = w.posted) : Inv10 (setWk st k w') W := by
  intro j wj hj ha hW e he
  by_cases hjk : j = k
  · subst hjk
    simp only [setWk] at hj
    rw [getElem?_set_self' hw] at hj
    cases hj
    rw [hp] at he
    exact hinv j w hw (h' ha) hW e he
  · simp only [setWk] at hj
    rw [List.getElem?_set_ne (Ne.symm hjk)] at hj
    exact hinv j wj hj ha hW e he

theorem mainStep_posted {k : Nat} {w w' : Wk τ} {p : MainP} (hm : mainStep k w p = some w') : w'.posted = w.posted ∧ w'.alive = w.alive := by
  unfold mainStep at hm
  split at hm
  · cases hm
  cases hph : w.phase with
  | boot => simp only [hph, Option.some.injEq] at hm; subst hm; exact ⟨rfl, rfl⟩
  | collect =>
    simp only [hph] at hm
    cases p with
    | collect errs garbage intr sf0 =>
      simp only at hm
      split at hm
      · simp only [Option.some.injEq] at hm; subst hm; exact ⟨rfl, rfl⟩
      · simp only [Option.some.injEq] at hm; subst hm; exact ⟨rfl, rfl⟩
    | none => simp at hm
    | reports fs sf ss ex => simp at hm
    | complete slow => simp at hm
  | finish => simp only [hph, Option.some.injEq] at hm; subst hm; exact ⟨rfl, rfl⟩
  | done => simp [hph] at hm
  | loop =>
    simp only [hph] at hm
    cases hpc : w.w.pc with
    | init =>
      simp only [hpc] at hm
      obtain ⟨v, hv, rfl⟩ := Option.map_eq_some_iff.1 hm
      exact ⟨rfl, rfl⟩
    | haveItem =>
      simp only [hpc] at hm
      obtain ⟨v, hv, rfl⟩ := Option.map_eq_some_iff.1 hm
      exact ⟨rfl, rfl⟩
    | done => simp [hpc] at hm
    | running =>
      simp only [hpc] at hm
      split at hm
      · simp only [Option.some.injEq] at hm; subst hm; exact ⟨rfl, rfl⟩
      · simp only [Option.some.injEq] at hm; subst hm; exact ⟨rfl, rfl⟩
      · split at hm
        · simp only [Option.some.injEq] at hm; subst hm; exact ⟨rfl, rfl⟩
        · split at hm
          · simp only [Option.some.injEq] at hm; subst hm; exact ⟨rfl, rfl⟩
          · cases hm
      · cases hm

theorem deliverStep_posted {k : Nat} {w w' : Wk τ} (hd : deliverStep k w = some w') : w'.posted = w.posted ∧ w'.alive = w.alive := by
  unfold deliverStep at hd
  split at hd
  · cases hd
  cases hi : w.inbox with
  | nil => simp [hi] at hd
  | cons cmd rest =>
    simp only [hi] at hd
    cases cmd <;> (simp only [Option.some.injEq] at hd; subst hd; exact ⟨rfl, rfl⟩)

theorem step_inv10 (idsOf : Nat → List τ) {st st' : LState τ} {W : List Nat} (a : Step) (h1 : Inv st) (h7 : Inv7 st W)
    (h8 : Inv8w st W) (h10 : Inv10 st W) (h : step loadI idsOf st a = .ok st') : Inv10 st' (ghostW st a W) := by
  cases a with
  | main k p =>
    simp only [Sys.step] at h
    split at h
    · cases h
    · rename_i w hw
      split at h
      · cases h
      · rename_i w' hm
        simp only [Except.ok.injEq] at h; subst h
        obtain ⟨a1, a2⟩ := mainStep_posted hm
        exact inv10_setWk h10 hw (fun ha => by rw [← a2]; exact ha) a1
  | deliver k =>
    simp only [Sys.step] at h
    split at h
    · cases h
    · rename_i w hw
      split at h
      · cases h
      · rename_i w' hm
        simp only [Except.ok.injEq] at h; subst h
        obtain ⟨a1, a2⟩ := deliverStep_posted hm
        exact inv10_setWk h10 hw (fun ha => by rw [← a2]; exact ha) a1
  | crash k b =>
    simp only [Sys.step] at h
    split at h
    · cases h
    rename_i s1 hc
    simp only [Except.ok.injEq] at h; subst h
    unfold crashStep at hc
    split at hc
    · cases hc
    rename_i w hw
    split at hc
    · cases hc
    have base : Inv10 (setWk st k ({ w with alive := false, inbox := [], outbox := w.outbox ++ [.endMarker] } : Wk τ)) W :=
      inv10_setWk h10 hw (fun ha => by cases ha) rfl
    split at hc
    · simp only [Option.some.injEq] at hc; subst hc; exact base
    · simp only [Option.some.injEq] at hc; subst hc; exact base
  | recv k =>
    have hWsub : ∀ x, x ∈ W → x ∈ ghostW st (.recv k) W := fun x hx => ghostW_mono st _ W hx
    simp only [Sys.step] at h
    split at h
    · cases h
    rename_i s1 hr
    simp only [Except.ok.injEq] at h; subst h
    obtain ⟨w, m, rest, fl', w2, outs', hw, ho, rfl, hfl', hw2⟩ := recvStep_shape hr
    simp only at hfl' hw2
    intro j wj hj ha hW e he
    by_cases hjk : j ≠ k
    · simp only at hj
      rw [List.getElem?_set_ne (Ne.symm hjk)] at hj
      exact h10 j wj hj ha (fun hh => hW (hWsub j hh)) e he
    have hjk : j = k := Classical.byContradiction hjk
    subst hjk
    simp only at hj
    rw [getElem?_set_self' hw] at hj
    cases hj
    have hnW : j ∉ W := fun hh => hW (hWsub j hh)
    generalize hevs : (Receiver.step (α := Ctl.Event τ) { down := (st.ctl.env.flags.get j).down, shutdownSent := (st.ctl.env.flags.get j).sent }
      (toRecv j m)).2.1.map (ofPost j) = evs at hw2
    have hshape : w2 = ({ w with outbox := rest, posted := w.posted ++ evs } : Wk τ) ∨
        w2 = ({ w with outbox := rest, posted := w.posted ++ evs, inbox := w.inbox ++ [.shutdown] } : Wk τ) := by
      rw [hw2]
      split
      · split
        · exact Or.inr rfl
        · exact Or.inl rfl
      · exact Or.inl rfl
    have hal2 : w2.alive = w.alive := by rcases hshape with h | h <;> rw [h]
    have hpo2 : w2.posted = w.posted ++ evs := by rcases hshape with h | h <;> rw [h]
    rw [hal2] at ha
    rw [hpo2] at he
    rcases List.mem_append.1 he with he | he
    · exact h10 j w hw ha hnW e he
    · have wi := h1.wk hw
      have wi7 := h7 j w hw
      have wi8 := h8 j w hw
      have hposts := recv_posts j (st.ctl.env.flags.get j).down (st.ctl.env.flags.get j).sent m
      simp only [hevs] at hposts
      rcases hposts with h' | ⟨_, h'⟩ | ⟨hd0, h', hnone⟩
      · rw [h'] at he; cases he
      · rw [h'] at he
        cases m with
        | ev e0 =>
          simp only [evOf, Option.toList_some, List.mem_singleton] at he
          subst he
          have := wi.evPlain (.ev e) (by rw [ho]; simp)
          simp only [plainMsg, Bool.not_eq_eq_eq_not, Bool.not_true] at this
          cases e <;> simp_all [isErrd, isNotice]
        | ignored => simp [evOf] at he
        | fin x sf ss => simp only [evOf, Option.toList_some, List.mem_singleton] at he; subst he; rfl
        | garbage => simp [evOf] at he
        | endMarker => simp [evOf] at he
      · exfalso
        cases m with
        | ev e0 => simp [evOf] at hnone
        | ignored =>
          rw [← hevs, hd0] at h'
          simp [Receiver.step, toRecv] at h'
        | fin x sf ss => simp [evOf] at hnone
        | garbage =>
          apply hW
          unfold ghostW
          simp only [hw, ho, hd0, Bool.false_eq_true, ↓reduceIte, List.mem_cons, true_or]
        | endMarker =>
          -- a live worker that was not written off: the end marker is never at the head of its channel
          by_cases hp : w.phase = .done
          · rcases wi8.tailA ha hp hnW with ⟨_, a, x, sf, ss, hout, hne, _⟩ | ⟨hd1, _⟩
            · rw [ho] at hout
              cases a with
              | nil => simp at hout
              | cons y a' =>
                simp only [List.cons_append, List.cons.injEq] at hout
                have := hne y (by simp)
                rw [← hout.1] at this
                simp [isEnd] at this
            · rw [hd0] at hd1; cases hd1
          · have := wi7.endNone ha hp .endMarker (by rw [ho]; simp)
            simp [isEnd] at this
  | ctl k rq =>
    simp only [Sys.step] at h
    obtain ⟨w, ev0, rest, c', hw, hp, hl, rfl⟩ := ctlStep_shape h
    have hk : k < st.wk.length := by
      rcases Nat.lt_or_ge k st.wk.length with h' | h'
      · exact h'
      · rw [List.getElem?_eq_none h'] at hw; cases hw
    show Inv10 _ W
    intro j wj hj ha hW e he
    simp only at hj
    rw [route_get] at hj
    by_cases hjl : j < st.wk.length
    · rw [spawn_get_old _ _ _ _ (by simpa using hjl)] at hj
      by_cases hjk : j = k
      · subst hjk
        rw [getElem?_set_self' hw] at hj
        simp only [Option.map_some, Option.some.injEq] at hj
        subst hj
        obtain ⟨r1, _, _, r4, _⟩ := routed_fields j (c'.env.outs.drop st.ctl.env.outs.length) ({ w with posted := rest } : Wk τ)
        rw [r1] at ha
        rw [r4] at he
        exact h10 j w hw ha hW e (by rw [hp]; exact List.mem_cons_of_mem _ he)
      · rw [List.getElem?_set_ne (Ne.symm hjk)] at hj
        cases hwj : st.wk[j]? with
        | none => rw [hwj] at hj; cases hj
        | some w0 =>
          rw [hwj] at hj
          simp only [Option.map_some, Option.some.injEq] at hj
          subst hj
          obtain ⟨r1, _, _, r4, _⟩ := routed_fields j (c'.env.outs.drop st.ctl.env.outs.length) w0
          rw [r1] at ha
          rw [r4] at he
          exact h10 j w0 hwj ha hW e he
    · have hjl' : st.wk.length ≤ j := Nat.le_of_not_lt hjl
      by_cases hju : j < c'.nextId
      · rw [spawn_get_new _ _ _ _ (by simpa using hjl') hju] at hj
        simp only [Option.map_some, Option.some.injEq] at hj
        subst hj
        obtain ⟨_, _, _, r4, _⟩ := routed_fields j (c'.env.outs.drop st.ctl.env.outs.length) ({ ids := idsOf j } : Wk τ)
        rw [r4] at he
        cases he
      · have hge : (spawn idsOf (st.wk.set k ({ w with posted := rest } : Wk τ)) c'.nextId).length ≤ j := by
          unfold spawn
          simp only [List.length_append, List.length_set, List.length_map, List.length_range]
          omega
        rw [List.getElem?_eq_none hge] at hj
        cases hj

end Xdist.Sys
