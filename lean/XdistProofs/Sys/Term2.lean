import XdistProofs.Sys.Term1
/-!
  C02, termination (`--dist load`): every step of a worker's main thread, every command delivery, every step of a receiver
  thread and every crash decreases the measure.
-/
namespace Xdist.Sys
open Xdist Xdist.Ctl Xdist.Load Xdist.Contract

set_option linter.unusedSectionVars false

variable {τ : Type} [DecidableEq τ]

theorem lt_length_of_get {α : Type} {l : List α} {k : Nat} {w : α} (h : l[k]? = some w) : k < l.length := by
  rcases Nat.lt_or_ge k l.length with h' | h'
  · exact h'
  · rw [List.getElem?_eq_none h'] at h; cases h

theorem main_dec (L : Nat) (idsOf : Nat → List τ) {st st' : LState τ} {k : Nat} {p : MainP}
    (h : step loadI idsOf st (.main k p) = .ok st') : Dec (mu L st') (mu L st) := by
  simp only [Sys.step] at h
  split at h
  · cases h
  rename_i w hw
  split at h
  · cases h
  rename_i w' hm
  simp only [Except.ok.injEq] at h; subst h
  obtain ⟨ha, ha', hnd, hcase⟩ := mainStep_measure hm
  unfold mu setWk
  simp only [List.length_set]
  rcases hcase with hd | ⟨hnd', hlt⟩
  · apply dec2
    have := sumW_set aliveW st.wk k w w' hw
    have e1 : aliveW w = 1 := by simp [aliveW, ha, hnd]
    have e2 : aliveW w' = 0 := by simp [aliveW, hd]
    omega
  · have e1 : aliveW w = 1 := by simp [aliveW, ha, hnd]
    have e2 : aliveW w' = 1 := by simp [aliveW, ha', hnd']
    have hs := sumW_set aliveW st.wk k w w' hw
    have hsum : sumW aliveW (st.wk.set k w') = sumW aliveW st.wk := by omega
    have hg : goneP (st.wk.set k w') = goneP st.wk :=
      goneP_congr (life_set hw (ha'.trans ha.symm) (by simp [hnd, hnd']))
    rw [hsum, hg]
    apply dec4
    have := sumW_set wkT st.wk k w w' hw
    omega

theorem deliver_dec (L : Nat) (idsOf : Nat → List τ) {st st' : LState τ} {k : Nat} (h1 : Inv st)
    (h : step loadI idsOf st (.deliver k) = .ok st') : Dec (mu L st') (mu L st) := by
  simp only [Sys.step] at h
  split at h
  · cases h
  rename_i w hw
  split at h
  · cases h
  rename_i w' hm
  simp only [Except.ok.injEq] at h; subst h
  obtain ⟨ha, hp, hlt, _⟩ := deliverStep_measure hm (h1.wk hw).inboxK
  unfold mu setWk
  simp only [List.length_set]
  have hs := sumW_set aliveW st.wk k w w' hw
  have e : aliveW w' = aliveW w := by simp [aliveW, ha, hp]
  have hsum : sumW aliveW (st.wk.set k w') = sumW aliveW st.wk := by omega
  have hg : goneP (st.wk.set k w') = goneP st.wk := goneP_congr (life_set hw ha (by rw [hp]))
  rw [hsum, hg]
  apply dec4
  have := sumW_set wkT st.wk k w w' hw
  omega

theorem crash_dec (L : Nat) (idsOf : Nat → List τ) {st st' : LState τ} {k : Nat} {b : Bool}
    (h : step loadI idsOf st (.crash k b) = .ok st') : Dec (mu L st') (mu L st) := by
  simp only [Sys.step] at h
  split at h
  · cases h
  rename_i s1 hc
  simp only [Except.ok.injEq] at h; subst h
  unfold crashStep at hc
  split at hc
  · cases hc
  rename_i w hw
  split at hc
  · cases hc
  rename_i hcond
  have hal : w.alive = true ∧ w.phase ≠ .done := by
    simp only [Bool.or_eq_true, Bool.not_eq_eq_eq_not, Bool.not_true, decide_eq_true_eq, not_or] at hcond
    exact ⟨by simpa using hcond.1, hcond.2⟩
  have key : sumW aliveW (st.wk.set k { w with alive := false, inbox := [], outbox := w.outbox ++ [.endMarker] }) < sumW aliveW st.wk := by
    have := sumW_set aliveW st.wk k w { w with alive := false, inbox := [], outbox := w.outbox ++ [.endMarker] } hw
    have e1 : aliveW w = 1 := by simp [aliveW, hal.1, hal.2]
    have e2 : aliveW ({ w with alive := false, inbox := [], outbox := w.outbox ++ [.endMarker] } : Wk τ) = 0 := by simp [aliveW]
    omega
  split at hc
  · simp only [Option.some.injEq] at hc; subst hc
    unfold mu setWk
    exact dec2 _ _ key
  · simp only [Option.some.injEq] at hc; subst hc
    unfold mu setWk
    exact dec2 _ _ key

/-- what one call of `process_from_remote` costs: at most one event is posted, and a shutdown signal it writes is paid for by
    the flag it sets -/
theorem receiver_acct {α : Type} (s : Receiver.State) (m : Receiver.Msg α) :
    (Receiver.step s m).2.1.length ≤ 1 ∧
    unsentW { down := (Receiver.step s m).1.down, sent := (Receiver.step s m).1.shutdownSent, broken := false } +
        (if (Receiver.step s m).2.2 = true then 6 else 0) ≤
      unsentW { down := s.down, sent := s.shutdownSent, broken := false } := by
  obtain ⟨d, ss⟩ := s
  cases m <;> cases d <;> cases ss <;> simp [Receiver.step, unsentW]

theorem unsentW_broken (d s b b' : Bool) : unsentW { down := d, sent := s, broken := b } = unsentW { down := d, sent := s, broken := b' } := rfl

theorem recv_dec (L : Nat) (idsOf : Nat → List τ) {st st' : LState τ} {k : Nat}
    (h : step loadI idsOf st (.recv k) = .ok st') : Dec (mu L st') (mu L st) := by
  simp only [Sys.step] at h
  split at h
  · cases h
  rename_i s1 hr
  simp only [Except.ok.injEq] at h; subst h
  obtain ⟨w, m, rest, fl', w2, outs', hw, ho, rfl, hfl, hw2⟩ := recvStep_shape hr
  have hklt := lt_length_of_get hw
  generalize hrr : Receiver.step { down := (st.ctl.env.flags.get k).down, shutdownSent := (st.ctl.env.flags.get k).sent }
    (toRecv k m) = r at hfl hw2
  obtain ⟨a1, a2⟩ := receiver_acct { down := (st.ctl.env.flags.get k).down, shutdownSent := (st.ctl.env.flags.get k).sent } (toRecv k m)
  rw [hrr] at a1 a2
  have hal : w2.alive = w.alive ∧ w2.phase = w.phase := by
    rw [hw2]; simp only
    split
    · split <;> exact ⟨rfl, rfl⟩
    · exact ⟨rfl, rfl⟩
  unfold mu
  simp only [List.length_set]
  have hs := sumW_set aliveW st.wk k w w2 hw
  have e : aliveW w2 = aliveW w := by simp [aliveW, hal.1, hal.2]
  have hsum : sumW aliveW (st.wk.set k w2) = sumW aliveW st.wk := by omega
  have hg : goneP (st.wk.set k w2) = goneP st.wk := goneP_congr (life_set hw hal.1 (by rw [hal.2]))
  have hbud : budget ({ st.ctl with env := { flags := AList.set st.ctl.env.flags k fl', outs := outs' } } : Ctl.State (Load.State τ) τ) =
      budget st.ctl := rfl
  rw [hsum, hg, hbud]
  have hT := sumW_set wkT st.wk k w w2 hw
  have hM := sumW_set wkM st.wk k w w2 hw
  have hU := unsent_set st.wk.length st.ctl.env.flags k fl'
  simp only [hklt, if_true] at hU
  have hfl0 : unsentW (st.ctl.env.flags.get k) =
      unsentW { down := (st.ctl.env.flags.get k).down, sent := (st.ctl.env.flags.get k).sent, broken := false } := rfl
  have hfl1 : unsentW fl' = unsentW { down := r.1.down, sent := r.1.shutdownSent, broken := false } := by rw [hfl]; rfl
  have a2' : unsentW fl' + (if r.2.2 = true then 6 else 0) ≤ unsentW (st.ctl.env.flags.get k) := by
    rw [hfl1, hfl0]; exact a2
  -- the worker's share
  have hwT : wkT w2 ≤ wkT w + (if r.2.2 = true then 6 else 0) := by
    rw [hw2]; simp only
    split
    · rename_i hc
      have hr22 : r.2.2 = true := by
        simp only [Bool.and_eq_true] at hc; exact hc.1
      simp only [hr22, if_true]
      split
      · simp only [wkT, inboxW, List.map_append, List.sum_append, List.map_cons, List.map_nil, List.sum_cons, List.sum_nil, cmdW]
        have : phaseRank ({ w with outbox := rest, posted := w.posted ++ r.2.1.map (ofPost k), inbox := w.inbox ++ [Cmd.shutdown] } : Wk τ) =
            phaseRank w := rfl
        rw [this]; omega
      · have : wkT ({ w with outbox := rest, posted := w.posted ++ r.2.1.map (ofPost k) } : Wk τ) = wkT w := rfl
        rw [this]; omega
    · have : wkT ({ w with outbox := rest, posted := w.posted ++ r.2.1.map (ofPost k) } : Wk τ) = wkT w := rfl
      rw [this]; omega
  have hwM : wkM w2 < wkM w := by
    have : wkM w2 = 2 * rest.length + (w.posted.length + r.2.1.length) := by
      rw [hw2]; simp only
      split
      · split <;> simp [wkM]
      · simp [wkM]
    rw [this]
    simp only [wkM, ho, List.length_cons]
    omega
  apply dec45
  · show 6 * Load.pot L st.ctl.sched + unsent st.wk.length (AList.set st.ctl.env.flags k fl') + sumW wkT (st.wk.set k w2) ≤ _
    omega
  · omega

end Xdist.Sys
