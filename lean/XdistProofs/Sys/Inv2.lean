import XdistProofs.Sys.Inv
/-!
  A second layer of the system invariant for `--dist load`, about the **collection phase**: until the collection is
  agreed (or a stop is decided) nobody is told to shut down, no worker leaves on its own without a reason the controller
  acts upon, and the number of active workers stays the number the scheduler waits for.  With it the no-stand-off theorem
  needs no hypothesis about the collection (`Sys/Reach2.lean`).  Every conjunct is decidable (executed by the `sys` driver).
-/
namespace Xdist.Load
variable {τ : Type} [DecidableEq τ]

/-- nothing has been handed out yet -/
def EarlyS (s : State τ) : Prop :=
  s.collection = none ∧ s.pending = [] ∧ ∀ p ∈ s.node2pending, p.2 = []

instance (s : State τ) : Decidable (EarlyS s) := by unfold EarlyS; infer_instance

end Xdist.Load

namespace Xdist.Sys
open Xdist

variable {τ : Type} [DecidableEq τ]

/-- more workers were lost than `--max-worker-restart` allows -/
def over (c : Ctl.State (Load.State τ) τ) : Bool :=
  match c.maxRestart with
  | some b => decide (0 < c.failedNodes ∧ (c.failedNodes : Int) > b)
  | none => false

/-- the run is past its early phase: a stop was decided, the restart budget is exceeded, or every initial collection has
    arrived -/
def late (c : Ctl.State (Load.State τ) τ) : Bool :=
  c.shouldstop.isSome || over c || Load.collectionIsCompleted c.sched

/-- why a worker's session may end: keyboard-interrupt / collection errors (exit status 2), its own fail-fast or stop
    request, or — `lt` — the controller may have told it to -/
def finOk (lt : Bool) (x : Nat) (sf ss : Option String) : Bool := x == 2 || sf.isSome || ss.isSome || lt

def msgFinOk (lt : Bool) : WMsg τ → Bool
  | .fin x sf ss => finOk lt x sf ss
  | _ => true

def evFinOk (lt : Bool) : Ctl.Event τ → Bool
  | .workerfinished _ x sf ss => finOk lt x sf ss
  | _ => true

/-- the worker is registered with its collection, unless that cannot matter any more -/
def RegD (c : Ctl.State (Load.State τ) τ) (k : Nat) : Prop :=
  k ∈ AList.keys c.sched.node2pending →
    k ∈ AList.keys c.sched.node2collection ∨ late c = true ∨ c.env.flags.shuttingDown k = true

instance (c : Ctl.State (Load.State τ) τ) (k : Nat) : Decidable (RegD c k) := by unfold RegD; infer_instance

structure WkInv2 (c : Ctl.State (Load.State τ) τ) (k : Nat) (w : Wk τ) : Prop where
  reg : collPending k w = true ∨ RegD c k
  /-- a shutdown signal on its way to (or in the queue of) a worker: the run is late, or the worker was written off -/
  shutProv : shutSeen w = true → late c = true ∨ (c.env.flags.get k).down = true
  runNext : w.w.pc = .running → w.w.next.isSome = true
  finCause : (w.phase = .finish ∨ w.phase = .done) → finOk (late c) w.exitstatus w.sf w.ss = true ∨ (c.env.flags.get k).down = true
  finOut : ∀ m ∈ w.outbox, msgFinOk (late c) m = true ∨ (c.env.flags.get k).down = true
  finPosted : ∀ e ∈ w.posted, evFinOk (late c) e = true

instance (c : Ctl.State (Load.State τ) τ) (k : Nat) (w : Wk τ) : Decidable (WkInv2 c k w) :=
  decidable_of_iff
    ((collPending k w = true ∨ RegD c k) ∧
     (shutSeen w = true → late c = true ∨ (c.env.flags.get k).down = true) ∧
     (w.w.pc = .running → w.w.next.isSome = true) ∧
     ((w.phase = .finish ∨ w.phase = .done) → finOk (late c) w.exitstatus w.sf w.ss = true ∨ (c.env.flags.get k).down = true) ∧
     (∀ m ∈ w.outbox, msgFinOk (late c) m = true ∨ (c.env.flags.get k).down = true) ∧
     (∀ e ∈ w.posted, evFinOk (late c) e = true))
    ⟨fun ⟨a, b, c', d, e, f⟩ => ⟨a, b, c', d, e, f⟩, fun h => ⟨h.reg, h.shutProv, h.runNext, h.finCause, h.finOut, h.finPosted⟩⟩

structure CtlInv2 (c : Ctl.State (Load.State τ) τ) : Prop where
  /-- while the run is early no worker is lost without a replacement -/
  count : late c = false → c.active.length = c.sched.numnodes
  /-- a shutdown is in force only when the run is late -/
  shutLate : c.shuttingdown = true → late c = true
  /-- once the budget is exceeded the shutdown stays in force -/
  overShut : over c = true → c.shuttingdown = true
  /-- while the run is early the scheduler has handed nothing out -/
  early : late c = false → Load.EarlyS c.sched

instance (c : Ctl.State (Load.State τ) τ) : Decidable (CtlInv2 c) :=
  decidable_of_iff
    ((late c = false → c.active.length = c.sched.numnodes) ∧ (c.shuttingdown = true → late c = true) ∧
     (over c = true → c.shuttingdown = true) ∧ (late c = false → Load.EarlyS c.sched))
    ⟨fun ⟨a, b, d, e⟩ => ⟨a, b, d, e⟩, fun h => ⟨h.count, h.shutLate, h.overShut, h.early⟩⟩

def Inv2 (st : LState τ) : Prop := CtlInv2 st.ctl ∧ ∀ p ∈ st.wk.zipIdx, WkInv2 st.ctl p.2 p.1

instance (st : LState τ) : Decidable (Inv2 st) := by unfold Inv2; infer_instance

theorem Inv2.wk {st : LState τ} (h : Inv2 st) {k : Nat} {w : Wk τ} (hw : st.wk[k]? = some w) : WkInv2 st.ctl k w := by
  have := h.2 (w, k) (by
    rw [List.mem_zipIdx_iff_getElem?]
    simpa using hw)
  exact this

end Xdist.Sys
