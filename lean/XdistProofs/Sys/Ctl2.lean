import XdistProofs.Sys.EarlyCtl
import XdistProofs.Sys.Preserve2b
import XdistProofs.Sys.Reach
/-! The controller step keeps the second layer of the system invariant. -/
namespace Xdist.Sys
open Xdist Xdist.Ctl

variable {τ : Type} [DecidableEq τ]

theorem steps_completed_mono {s s' : Load.State τ} {e e' : Env} {as : List (Atom τ)} (h : Steps loadI s e as s' e')
    (hc : Load.collectionIsCompleted s = true) : Load.collectionIsCompleted s' = true := by
  induction h with
  | nil => exact hc
  | call h _ ih => exact ih (Load.step_completed_mono h hc)
  | shut n _ ih => exact ih hc

/-- the run never becomes early again -/
theorem late_mono {c c' : Ctl.State (Load.State τ) τ} {ev : Ctl.Event τ} (hl : loopOnce loadI c ev = .ok c')
    (h : late c = true) : late c' = true := by
  have os := os_loopOnce loadI hl
  unfold late at h
  simp only [Bool.or_eq_true] at h
  rcases h with (h | h) | h
  · exact late_of_stop (os.stop h)
  · exact late_of_over (by rw [over_eq]; exact overB_mono os (by rw [← over_eq]; exact h))
  · obtain ⟨as, hsteps, _⟩ := loopOnce_steps hl
    exact late_of_completed (steps_completed_mono hsteps h)

theorem finOk_mono {lt lt' : Bool} {x : Nat} {sf ss : Option String} (hm : lt = true → lt' = true)
    (h : finOk lt x sf ss = true) : finOk lt' x sf ss = true := by
  unfold finOk at h ⊢
  simp only [Bool.or_eq_true] at h ⊢
  rcases h with h | h
  · exact Or.inl h
  · exact Or.inr (hm h)

theorem evFinOk_fixRq (lt rq : Bool) (e : Ctl.Event τ) : evFinOk lt (fixRq rq e) = evFinOk lt e := by cases e <;> rfl

/-- the second layer without its first conjunct -/
structure WkRest (c : Ctl.State (Load.State τ) τ) (k : Nat) (w : Wk τ) : Prop where
  shutProv : shutSeen w = true → late c = true ∨ (c.env.flags.get k).down = true
  runNext : w.w.pc = .running → w.w.next.isSome = true
  finCause : (w.phase = .finish ∨ w.phase = .done) → finOk (late c) w.exitstatus w.sf w.ss = true ∨ (c.env.flags.get k).down = true
  finOut : ∀ m ∈ w.outbox, msgFinOk (late c) m = true ∨ (c.env.flags.get k).down = true
  finPosted : ∀ e ∈ w.posted, evFinOk (late c) e = true

theorem WkInv2.rest {c : Ctl.State (Load.State τ) τ} {k : Nat} {w : Wk τ} (h : WkInv2 c k w) : WkRest c k w :=
  ⟨h.shutProv, h.runNext, h.finCause, h.finOut, h.finPosted⟩

theorem WkRest.pop {c : Ctl.State (Load.State τ) τ} {k : Nat} {w : Wk τ} {ev : Ctl.Event τ} {rest : List (Ctl.Event τ)}
    (h : WkRest c k w) (hp : w.posted = ev :: rest) : WkRest c k ({ w with posted := rest } : Wk τ) :=
  ⟨h.shutProv, h.runNext, h.finCause, h.finOut, fun e he => h.finPosted e (by rw [hp]; exact List.mem_cons_of_mem _ he)⟩

theorem shutdown_of_mem_deliverTo (j : Nat) (new : List SOut) (h : Cmd.shutdown ∈ deliverTo j new) : SOut.shutdown j ∈ new := by
  unfold deliverTo at h
  obtain ⟨o, ho, hx⟩ := List.mem_filterMap.1 h
  cases o with
  | run n is => simp only [cmdOf] at hx; split at hx <;> simp at hx
  | runAll n => simp only [cmdOf] at hx; split at hx <;> simp at hx
  | steal n is => simp only [cmdOf] at hx; split at hx <;> simp at hx
  | shutdown n =>
    simp only [cmdOf] at hx
    split at hx
    · rename_i hn; subst hn; exact ho
    · cases hx
  | collectReport a b => simp [cmdOf] at hx

/-- a worker after the controller step: its inbox has grown by what was addressed to it -/
theorem wkInv2_routed {c c' : Ctl.State (Load.State τ) τ} {j : Nat} {new : List SOut} {w : Wk τ} (r : WkRest c j w)
    (hlm : late c = true → late c' = true) (hd : (c'.env.flags.get j).down = (c.env.flags.get j).down)
    (hshut : SOut.shutdown j ∈ new → late c' = true)
    (hreg : collPending j w = true ∨ RegD c' j) : WkInv2 c' j (routed j new w) := by
  have hcp : collPending j (routed j new w) = collPending j w := by unfold routed; split <;> rfl
  have hph : (routed j new w).phase = w.phase := by unfold routed; split <;> rfl
  have hww : (routed j new w).w = w.w := by unfold routed; split <;> rfl
  have hob : (routed j new w).outbox = w.outbox := by unfold routed; split <;> rfl
  have hpo : (routed j new w).posted = w.posted := by unfold routed; split <;> rfl
  have hex : (routed j new w).exitstatus = w.exitstatus ∧ (routed j new w).sf = w.sf ∧ (routed j new w).ss = w.ss := by
    unfold routed; split <;> exact ⟨rfl, rfl, rfl⟩
  refine ⟨by rw [hcp]; exact hreg, ?_, by rw [hww]; exact r.runNext, ?_, ?_, ?_⟩
  · intro hs
    rw [hd]
    have : shutSeen w = true ∨ Cmd.shutdown ∈ deliverTo j new := by
      unfold routed at hs
      split at hs
      · unfold shutSeen at hs ⊢
        simp only [Bool.or_eq_true, List.contains_eq_mem, List.mem_append, decide_eq_true_eq] at hs ⊢
        rcases hs with ((hs | hs) | hs) | hs
        · exact Or.inl (Or.inl (Or.inl hs))
        · exact Or.inr hs
        · exact Or.inl (Or.inl (Or.inr hs))
        · exact Or.inl (Or.inr hs)
      · exact Or.inl hs
    rcases this with h | h
    · rcases r.shutProv h with h' | h'
      · exact Or.inl (hlm h')
      · exact Or.inr h'
    · exact Or.inl (hshut (shutdown_of_mem_deliverTo j new h))
  · rw [hph, hex.1, hex.2.1, hex.2.2, hd]
    intro hp
    rcases r.finCause hp with h | h
    · exact Or.inl (finOk_mono hlm h)
    · exact Or.inr h
  · rw [hob, hd]
    intro m hm
    rcases r.finOut m hm with h | h
    · left
      cases m with
      | fin x sf ss => exact finOk_mono hlm h
      | ev e => rfl
      | ignored => rfl
      | garbage => rfl
      | endMarker => rfl
    · exact Or.inr h
  · rw [hpo]
    intro e he
    have := r.finPosted e he
    cases e with
    | workerfinished n x sf ss => exact finOk_mono hlm this
    | _ => rfl

theorem flight_pop (k : Nat) {w : Wk τ} {ev : Ctl.Event τ} {rest : List (Ctl.Event τ)} (hp : w.posted = ev :: rest) :
    flight k w = ev :: flight k ({ w with posted := rest } : Wk τ) := by
  simp [flight, hp]

/-- **the controller step keeps the second layer of the system invariant** -/
theorem ctl_inv2 (idsOf : Nat → List τ) {st st' : LState τ} {k : Nat} {rq : Bool} (hinv1 : Inv st) (hinv : Inv2 st)
    (h : step Ctl.loadI idsOf st (.ctl k rq) = .ok st') : Inv2 st' := by
  simp only [step] at h
  obtain ⟨w, ev0, rest, c', hw, hp, hl, rfl⟩ := ctlStep_shape h
  have hk : k < st.wk.length := by
    rcases Nat.lt_or_ge k st.wk.length with h' | h'
    · exact h'
    · rw [List.getElem?_eq_none h'] at hw; cases hw
  have hlen := hinv1.1.len
  have wi := hinv1.wk hw
  have wi2 := hinv.wk hw
  have hown : Own k ev0 = true := wi.ownP ev0 (by rw [hp]; simp)
  obtain ⟨new, b1, f⟩ := ctl_facts hinv1.1 (by rw [← hlen]; exact hk) (fixRq_own rq hown) hl
  have hnew : c'.env.outs.drop st.ctl.env.outs.length = new := by rw [f.outs]; simp
  rw [hnew]
  have hlm : late st.ctl = true → late c' = true := late_mono hl
  -- what an iteration that leaves the run early has done
  have hearly : late c' = false → EarlyIter st.ctl c' (fixRq rq ev0) := by
    intro hl'
    have hl0 : late st.ctl = false := by
      cases hh : late st.ctl with
      | false => rfl
      | true => rw [hlm hh] at hl'; cases hl'
    have hsd : st.ctl.shuttingdown = false := by
      cases hh : st.ctl.shuttingdown with
      | false => rfl
      | true => rw [hinv.1.shutLate hh] at hl0; cases hl0
    refine early_iteration hl hl' hl0 hsd (hinv.1.early hl0) hinv1.1.nodup ?_ ?_
    · rw [evFinOk_fixRq]; exact wi2.finPosted ev0 (by rw [hp]; simp)
    · intro n hn
      have := fixRq_own rq hown
      rw [hn] at this; simp [Own] at this
  have hnoshut : ∀ j, SOut.shutdown j ∈ new → late c' = true := by
    intro j hj
    cases hh : late c' with
    | true => rfl
    | false =>
      exfalso
      have := (hearly hh).env
      have : c'.env.outs = st.ctl.env.outs := by rw [this]
      rw [f.outs] at this
      have hn : new = [] := by simpa using this
      rw [hn] at hj; cases hj
  have hdown : ∀ j, (c'.env.flags.get j).down = (st.ctl.env.flags.get j).down := fun j => (f.acc.other j).1
  -- a worker registered before stays registered
  have hregMono : ∀ j, fixRq rq ev0 ≠ .workerready j → RegD st.ctl j → RegD c' j := by
    intro j hne hr hkj
    cases hh : late c' with
    | true => exact Or.inr (Or.inl rfl)
    | false =>
      have ei := hearly hh
      rcases ei.keys j hkj with h' | h'
      · rcases hr h' with h'' | h'' | h''
        · exact Or.inl (ei.reg j h'')
        · rw [hlm h''] at hh; cases hh
        · exact Or.inr (Or.inr (f.flagMono j h''))
      · exact absurd h' hne
  have hsubj : ∀ j, j ≠ k → subjectOf (fixRq rq ev0) ≠ some j := by
    intro j hj hs
    rw [fixRq_subject] at hs
    rcases own_subject hown with h' | h'
    · rw [h'] at hs; cases hs; exact hj rfl
    · rw [h'] at hs; cases hs
  have hsetlen : (st.wk.set k ({ w with posted := rest } : Wk τ)).length = st.ctl.nextId := by simp [hlen]
  refine inv2_of ?_ ?_
  · -- the controller's part
    refine ⟨?_, ?_, ?_, fun hl' => (hearly hl').early⟩
    · intro hl'
      have ei := hearly hl'
      have hl0 : late st.ctl = false := by
        cases hh : late st.ctl with
        | false => rfl
        | true => rw [hlm hh] at hl'; cases hl'
      rw [ei.len, ei.nn]; exact hinv.1.count hl0
    · intro hsd
      cases hh : late c' with
      | true => rfl
      | false => rw [(hearly hh).sd] at hsd; cases hsd
    · intro ho
      exact (os_loopOnce loadI hl).sd (fun h' => hinv.1.overShut (by rw [over_eq]; exact h')) (by rw [← over_eq]; exact ho)
  · intro j wj hj
    simp only at hj
    rw [route_get] at hj
    by_cases hjl : j < st.wk.length
    · rw [spawn_get_old _ _ _ _ (by simpa using hjl)] at hj
      by_cases hjk : j = k
      · subst hjk
        rw [getElem?_set_self' hw] at hj
        simp only [Option.map_some, Option.some.injEq] at hj
        subst hj
        refine wkInv2_routed (wi2.rest.pop hp) hlm (hdown j) (hnoshut j) ?_
        -- registration of the worker whose event was handled
        by_cases hcp : collPending j ({ w with posted := rest } : Wk τ) = true
        · exact Or.inl hcp
        right
        have hcp' : collPending j ({ w with posted := rest } : Wk τ) = false := by
          cases hh : collPending j ({ w with posted := rest } : Wk τ) with
          | false => rfl
          | true => exact absurd hh hcp
        have hrel : collPending j w = (isColl ev0 || collPending j ({ w with posted := rest } : Wk τ)) := by
          unfold collPending
          rw [flight_pop j hp]
          simp only [List.any_cons]
          cases (w.phase == Phase.boot) <;> cases (w.phase == Phase.collect) <;> cases isColl ev0 <;> simp
        intro hkj
        cases hh : late c' with
        | true => exact Or.inr (Or.inl rfl)
        | false =>
          have ei := hearly hh
          by_cases hready : fixRq rq ev0 = .workerready j
          · -- its `workerready`: the collection report is still to come, unless the worker was written off
            cases hdj : (st.ctl.env.flags.get j).down with
            | true =>
              right; right
              unfold Flags.shuttingDown; rw [hdown j, hdj]; rfl
            | false =>
              exfalso
              have hr0 : isReady ev0 = true := by rw [← fixRq_isReady rq, hready]; rfl
              have := wi.readyColl hdj (by rw [flight_pop j hp]; simp [hr0])
              rw [hrel, hcp'] at this
              have hc0 : isColl ev0 = true := by simpa using this
              cases ev0 <;> simp [isReady, isColl] at hr0 hc0
          · rcases wi2.reg with hh' | hh'
            · -- the collection report itself
              rw [hrel, hcp'] at hh'
              have hc0 : isColl ev0 = true := by simpa using hh'
              cases ev0 with
              | collectionfinish n ids =>
                have hnj : n = j := by simpa [Own] using hown
                subst hnj
                exact Or.inl (ei.coll n ids rfl hkj)
              | _ => simp [isColl] at hc0
            · rcases hregMono j hready hh' hkj with a | a | a
              · exact Or.inl a
              · rw [hh] at a; cases a
              · exact Or.inr (Or.inr a)
      · rw [List.getElem?_set_ne (Ne.symm hjk)] at hj
        cases hwj : st.wk[j]? with
        | none => rw [hwj] at hj; cases hj
        | some w0 =>
          rw [hwj] at hj
          simp only [Option.map_some, Option.some.injEq] at hj
          subst hj
          have w02 := hinv.wk hwj
          refine wkInv2_routed w02.rest hlm (hdown j) (hnoshut j) ?_
          rcases w02.reg with h' | h'
          · exact Or.inl h'
          · right
            refine hregMono j ?_ h'
            intro he
            exact hsubj j hjk (by rw [he]; rfl)
    · have hjl' : st.wk.length ≤ j := Nat.le_of_not_lt hjl
      by_cases hju : j < c'.nextId
      · rw [spawn_get_new _ _ _ _ (by simpa using hjl') hju] at hj
        simp only [Option.map_some, Option.some.injEq] at hj
        subst hj
        have hge : st.ctl.nextId ≤ j := by rw [← hlen]; exact hjl'
        have hdel : deliverTo j new = [] := by
          apply deliverTo_nil_of_lt
          intro o ho n cmd hc hnj
          have := f.newLt o ho n cmd hc
          omega
        have hr : routed j new ({ ids := idsOf j } : Wk τ) = ({ ids := idsOf j } : Wk τ) := by
          unfold routed; simp [hdel]
        rw [hr]
        exact {
          reg := Or.inl rfl
          shutProv := (by intro hs; simp [shutSeen] at hs)
          runNext := (by intro hh; cases hh)
          finCause := (by intro hh; rcases hh with hh | hh <;> cases hh)
          finOut := (by intro m hm; simp at hm)
          finPosted := (by intro e he; simp at he) }
      · have : (spawn idsOf (st.wk.set k ({ w with posted := rest } : Wk τ)) c'.nextId)[j]? = none := by
          apply List.getElem?_eq_none
          rw [spawn_length _ _ _ (by rw [hsetlen]; exact f.nextLe)]
          omega
        rw [this] at hj; cases hj

end Xdist.Sys
