import XdistProofs.Sys.Ledger
/-! The ledger holds in every reachable state without worker loss (`C01_sys_load_ledger`), and what follows from it. -/
namespace Xdist.Sys
open Xdist Xdist.Ctl Xdist.Load

variable {τ : Type} [DecidableEq τ]

/-- the ledger only looks at the pool, the agreed collection and the workers' accounts -/
theorem Ledger.congr {st st' : LState τ} (h1 : st'.ctl.sched.collection = st.ctl.sched.collection)
    (h2 : st'.ctl.sched.pending = st.ctl.sched.pending) (h3 : st'.wk.flatMap acct = st.wk.flatMap acct)
    (hm : ∀ w ∈ st'.wk, acct w = [] ∨ ∃ w0 ∈ st.wk, acct w = acct w0) (h : Ledger st) : Ledger st' := by
  unfold Ledger at h ⊢
  rw [h1]
  cases hc : st.ctl.sched.collection with
  | none =>
    rw [hc] at h
    simp only at h ⊢
    intro w hw
    rcases hm w hw with h' | ⟨w0, hw0, h'⟩
    · exact h'
    · rw [h']; exact h w0 hw0
  | some col =>
    rw [hc] at h
    simp only at h ⊢
    rw [h2, h3]; exact h

/-- a step that changes one worker, keeping its account and its being alive, and leaves the controller alone -/
theorem inv3_setWk {st : LState τ} {k : Nat} {w w' : Wk τ} (hinv : Inv3 st) (hw : st.wk[k]? = some w)
    (ha : acct w' = acct w) (hal : w'.alive = w.alive) : Inv3 (setWk st k w') := by
  intro hcl
  have hcl0 : Clean st := by
    refine ⟨hcl.1, ?_⟩
    intro v hv
    obtain ⟨j, hj, rfl⟩ := List.getElem_of_mem hv
    by_cases hjk : j = k
    · subst hjk
      have : st.wk[j]? = some st.wk[j] := by simp [hj]
      rw [this] at hw; cases hw
      rw [← hal]
      exact hcl.2 w' (by simp only [setWk]; exact List.mem_of_getElem? (getElem?_set_self' this))
    · refine hcl.2 _ ?_
      simp only [setWk]
      have : (st.wk.set k w')[j]? = some st.wk[j] := by rw [List.getElem?_set_ne (Ne.symm hjk)]; simp [hj]
      exact List.mem_of_getElem? this
  refine Ledger.congr (st := st) rfl rfl (flatMap_set_same acct hw ha) ?_ (hinv hcl0)
  intro v hv
  simp only [setWk] at hv
  rcases List.mem_or_eq_of_mem_set hv with h | h
  · exact Or.inr ⟨v, h, rfl⟩
  · rw [h]; exact Or.inr ⟨w, List.mem_of_getElem? hw, ha⟩

theorem main_inv3 (idsOf : Nat → List τ) {st st' : LState τ} {k : Nat} {p : MainP} (hinv1 : Inv st) (hinv : Inv3 st)
    (h : step Ctl.loadI idsOf st (.main k p) = .ok st') : Inv3 st' := by
  simp only [step] at h
  split at h
  · cases h
  · rename_i w hw
    split at h
    · cases h
    · rename_i w' hm
      simp only [Except.ok.injEq] at h
      subst h
      obtain ⟨a1, a2⟩ := acct_main (hinv1.wk hw) hm
      exact inv3_setWk hinv hw a1 a2

theorem deliver_inv3 (idsOf : Nat → List τ) {st st' : LState τ} {k : Nat} (hinv1 : Inv st) (hinv : Inv3 st)
    (h : step Ctl.loadI idsOf st (.deliver k) = .ok st') : Inv3 st' := by
  simp only [step] at h
  split at h
  · cases h
  · rename_i w hw
    split at h
    · cases h
    · rename_i w' hm
      simp only [Except.ok.injEq] at h
      subst h
      obtain ⟨a1, a2⟩ := acct_deliver (hinv1.wk hw) hm
      exact inv3_setWk hinv hw a1 a2

theorem crash_inv3 (idsOf : Nat → List τ) {st st' : LState τ} {k : Nat} {b : Bool}
    (h : step Ctl.loadI idsOf st (.crash k b) = .ok st') : Inv3 st' := by
  intro hcl
  exfalso
  simp only [step] at h
  split at h
  · cases h
  rename_i s1 hc
  simp only [Except.ok.injEq] at h
  subst h
  unfold crashStep at hc
  split at hc
  · cases hc
  rename_i w hw
  split at hc
  · cases hc
  have hmem : ∀ (s2 : LState τ), s2.wk = (setWk st k ({ w with alive := false, inbox := [], outbox := w.outbox ++ [.endMarker] } : Wk τ)).wk →
      (∀ v ∈ s2.wk, v.alive = true) → False := by
    intro s2 hs2 hall
    have := hall ({ w with alive := false, inbox := [], outbox := w.outbox ++ [.endMarker] } : Wk τ)
      (by rw [hs2]; simp only [setWk]; exact List.mem_of_getElem? (getElem?_set_self' hw))
    cases this
  split at hc
  · simp only [Option.some.injEq] at hc; subst hc; exact hmem _ rfl hcl.2
  · simp only [Option.some.injEq] at hc; subst hc; exact hmem _ rfl hcl.2

theorem recv_inv3 (idsOf : Nat → List τ) {st st' : LState τ} {k : Nat} (hinv : Inv3 st)
    (h : step Ctl.loadI idsOf st (.recv k) = .ok st') : Inv3 st' := by
  simp only [step] at h
  split at h
  · cases h
  rename_i s1 hr
  simp only [Except.ok.injEq] at h
  subst h
  obtain ⟨w, m, rest, fl', w2, outs', hw, ho, rfl, hfl', hw2⟩ := recvStep_shape hr
  simp only at hw2
  -- the receiver thread moves messages; it may put the shutdown command into the inbox — no test index is involved
  have ha : acct w2 = acct w ∧ w2.alive = w.alive := by
    rw [hw2]
    split
    · split
      · constructor
        · unfold acct nextT ranIdx inboxRuns
          simp [List.flatMap_append]
        · rfl
      · exact ⟨rfl, rfl⟩
    · exact ⟨rfl, rfl⟩
  intro hcl
  have hcl0 : Clean st := by
    refine ⟨hcl.1, ?_⟩
    intro v hv
    obtain ⟨j, hj, rfl⟩ := List.getElem_of_mem hv
    by_cases hjk : j = k
    · subst hjk
      have : st.wk[j]? = some st.wk[j] := by simp [hj]
      rw [this] at hw; cases hw
      rw [← ha.2]
      exact hcl.2 w2 (List.mem_of_getElem? (getElem?_set_self' this))
    · refine hcl.2 _ ?_
      have : (st.wk.set k w2)[j]? = some st.wk[j] := by rw [List.getElem?_set_ne (Ne.symm hjk)]; simp [hj]
      exact List.mem_of_getElem? this
  refine Ledger.congr (st := st) rfl rfl (flatMap_set_same acct hw ha.1) ?_ (hinv hcl0)
  intro v hv
  simp only at hv
  rcases List.mem_or_eq_of_mem_set hv with h | h
  · exact Or.inr ⟨v, h, rfl⟩
  · rw [h]; exact Or.inr ⟨w, List.mem_of_getElem? hw, ha.1⟩

theorem nil_of_count {l : List Nat} (h : ∀ x, l.count x = 0) : l = [] := by
  cases l with
  | nil => rfl
  | cons a t => have := h a; simp at this

theorem acct_nil_of_flatMap {wk : List (Wk τ)} (h : wk.flatMap acct = []) : ∀ w ∈ wk, acct w = [] := by
  intro w hw
  rw [List.flatMap_eq_nil_iff] at h
  exact h w hw

/-- **the controller step keeps the ledger** -/
theorem ctl_inv3 (idsOf : Nat → List τ) {st st' : LState τ} {k : Nat} {rq : Bool} (hinv1 : Inv st) (hinv : Inv3 st)
    (h : step Ctl.loadI idsOf st (.ctl k rq) = .ok st') : Inv3 st' := by
  simp only [step] at h
  obtain ⟨w, ev0, rest, c', hw, hp, hl, rfl⟩ := ctlStep_shape h
  intro hcl
  have hk : k < st.wk.length := by
    rcases Nat.lt_or_ge k st.wk.length with h' | h'
    · exact h'
    · rw [List.getElem?_eq_none h'] at hw; cases hw
  have hlen := hinv1.1.len
  have wi := hinv1.wk hw
  have hown : Own k ev0 = true := wi.ownP ev0 (by rw [hp]; simp)
  obtain ⟨new0, b1, f⟩ := ctl_facts hinv1.1 (by rw [← hlen]; exact hk) (fixRq_own rq hown) hl
  have hnew : c'.env.outs.drop st.ctl.env.outs.length = new0 := by rw [f.outs]; simp
  rw [hnew] at hcl ⊢
  -- the run was without worker loss before this step as well
  have hfn : st.ctl.failedNodes = 0 := by
    have := (os_loopOnce loadI hl).fn
    have h0 : c'.failedNodes = 0 := hcl.1
    omega
  have hsetlen : (st.wk.set k ({ w with posted := rest } : Wk τ)).length = st.ctl.nextId := by simp [hlen]
  have hal1 : ∀ v ∈ spawn idsOf (st.wk.set k ({ w with posted := rest } : Wk τ)) c'.nextId, v.alive = true :=
    route_alive new0 _ hcl.2
  have hal2 : ∀ v ∈ st.wk.set k ({ w with posted := rest } : Wk τ), v.alive = true := by
    intro v hv
    exact hal1 v (by unfold spawn; exact List.mem_append_left _ hv)
  have hcl0 : Clean st := by
    refine ⟨hfn, ?_⟩
    intro v hv
    obtain ⟨j, hj, rfl⟩ := List.getElem_of_mem hv
    by_cases hjk : j = k
    · subst hjk
      have : st.wk[j]? = some st.wk[j] := by simp [hj]
      rw [this] at hw; cases hw
      exact hal2 ({ st.wk[j] with posted := rest } : Wk τ) (List.mem_of_getElem? (getElem?_set_self' this))
    · refine hal2 _ ?_
      have : (st.wk.set k ({ w with posted := rest } : Wk τ))[j]? = some st.wk[j] := by
        rw [List.getElem?_set_ne (Ne.symm hjk)]; simp [hj]
      exact List.mem_of_getElem? this
  have hled := hinv hcl0
  -- no peer is gone
  have hnb : NoBroken st.ctl.env := by
    intro m
    by_cases hm : m < st.wk.length
    · have hwm : st.wk[m]? = some st.wk[m] := by simp [hm]
      exact (hinv1.wk hwm).notBroken (hcl0.2 _ (List.getElem_mem hm))
    · rw [flags_default hinv1.1 m (by rw [← hlen]; omega)]
  obtain ⟨new, pit⟩ := pool_iteration hl hcl.1 hnb hinv1.1.nocol
  have hnn : new = new0 := List.append_cancel_left (by rw [← pit.outs, f.outs])
  subst hnn
  -- the accounts after the step
  have hpop : acct ({ w with posted := rest } : Wk τ) = acct w := rfl
  have hfm : (spawn idsOf (st.wk.set k ({ w with posted := rest } : Wk τ)) c'.nextId).flatMap acct = st.wk.flatMap acct := by
    rw [spawn_flatMap, flatMap_set_same acct hw hpop]
  have hcount : ∀ x, ((route (spawn idsOf (st.wk.set k ({ w with posted := rest } : Wk τ)) c'.nextId) new).flatMap acct).count x =
      (st.wk.flatMap acct).count x + (runsOf new).count x := by
    intro x
    rw [route_count new x _ hal1, hfm]
    intro o ho n cmd hc
    rw [spawn_length _ _ _ (by rw [hsetlen]; exact f.nextLe)]
    exact Nat.lt_of_lt_of_le (f.newLt o ho n cmd hc) f.nextLe
  unfold Ledger at hled ⊢
  simp only
  rcases pit.led with ⟨hcs, hpool⟩ | ⟨hcn, _, col, hcs, hrange⟩
  · rw [hcs]
    cases hc : st.ctl.sched.collection with
    | none =>
      rw [hc] at hled
      simp only at hled ⊢
      have hp0 : st.ctl.sched.pending = [] := hinv1.1.nocol hc
      rw [hp0] at hpool
      have hr : runsOf new = [] := by
        cases hh : runsOf new with
        | nil => rfl
        | cons a t => rw [hh] at hpool; cases hpool
      apply acct_nil_of_flatMap
      apply nil_of_count
      intro x
      rw [hcount x, hr]
      have : st.wk.flatMap acct = [] := by
        rw [List.flatMap_eq_nil_iff]; exact hled
      rw [this]; rfl
    | some col =>
      rw [hc] at hled
      simp only at hled ⊢
      rw [List.perm_iff_count] at hled ⊢
      intro x
      have := hled x
      rw [List.count_append] at this ⊢
      rw [hcount x, ← this, hpool, List.count_append]
      omega
  · rw [hcn] at hled
    rw [hcs]
    simp only at hled ⊢
    rw [List.perm_iff_count]
    intro x
    rw [List.count_append, hcount x, hrange, List.count_append]
    have : st.wk.flatMap acct = [] := by
      rw [List.flatMap_eq_nil_iff]; exact hled
    rw [this]
    simp only [List.count_nil]
    omega

theorem step_inv3 (idsOf : Nat → List τ) {st st' : LState τ} (a : Step) (h1 : Inv st) (h3 : Inv3 st)
    (h : step loadI idsOf st a = .ok st') : Inv3 st' := by
  cases a with
  | main k p => exact main_inv3 idsOf h1 h3 h
  | deliver k => exact deliver_inv3 idsOf h1 h3 h
  | recv k => exact recv_inv3 idsOf h3 h
  | crash k b => exact crash_inv3 idsOf h
  | ctl k rq => exact ctl_inv3 idsOf h1 h3 h

theorem init_inv3 (numnodes maxfail : Nat) (msc maxRestart : Option Int) (idsOf : Nat → List τ) :
    Inv3 (init loadI (Load.init numnodes msc) numnodes maxfail maxRestart idsOf) := by
  intro _
  unfold Ledger
  simp only [init, Ctl.init, Load.init]
  intro w hw
  obtain ⟨j, _, rfl⟩ := List.mem_map.1 hw
  rfl

theorem reach_inv3 (idsOf : Nat → List τ) {st0 st : LState τ} (h1 : Inv st0) (h3 : Inv3 st0) (h : Reach idsOf st0 st) :
    Inv st ∧ Inv3 st := by
  induction h with
  | init => exact ⟨h1, h3⟩
  | step a _ hs ih => exact ⟨step_inv idsOf a ih.1 hs, step_inv3 idsOf a ih.1 ih.2 hs⟩

/-- **`--dist load`, runs without worker loss: the ledger.**  In every reachable state in which no worker has been lost
    (no crash, no write-off handled), once the collection is agreed its indices are — each exactly once — in the
    controller's pool or in one worker's account: started by that worker's main thread, announced as its next test, in its
    queue, or in a run command on its way to it. -/
theorem C01_sys_load_ledger (numnodes maxfail : Nat) (msc maxRestart : Option Int) (idsOf : Nat → List τ) {st : LState τ}
    (h : Reach idsOf (init loadI (Load.init numnodes msc) numnodes maxfail maxRestart idsOf) st) (hcl : Clean st)
    {col : List τ} (hcol : st.ctl.sched.collection = some col) :
    (st.ctl.sched.pending ++ st.wk.flatMap acct).Perm (List.range col.length) := by
  have := (reach_inv3 idsOf (init_inv numnodes maxfail msc maxRestart idsOf)
    (init_inv3 numnodes maxfail msc maxRestart idsOf) h).2 hcl
  unfold Ledger at this
  rw [hcol] at this
  exact this

theorem flatMap_congr' {α β : Type} {f g : α → List β} {l : List α} (h : ∀ a ∈ l, f a = g a) : l.flatMap f = l.flatMap g := by
  induction l with
  | nil => rfl
  | cons a t ih =>
    simp only [List.flatMap_cons]
    rw [h a (by simp), ih (fun b hb => h b (List.mem_cons_of_mem _ hb))]

theorem ranIdx_sublist_acct (wk : List (Wk τ)) : (wk.flatMap ranIdx).Sublist (wk.flatMap acct) := by
  induction wk with
  | nil => exact List.Sublist.refl _
  | cons w t ih =>
    simp only [List.flatMap_cons]
    refine List.Sublist.append ?_ ih
    unfold acct
    rw [List.append_assoc, List.append_assoc]
    exact List.sublist_append_left _ _

/-- **No test is started twice, on the same or on two workers** (runs without worker loss): the executions of all worker
    main threads so far, taken together, are pairwise distinct indices of the agreed collection. -/
theorem C01_sys_load_started_at_most_once (numnodes maxfail : Nat) (msc maxRestart : Option Int) (idsOf : Nat → List τ)
    {st : LState τ} (h : Reach idsOf (init loadI (Load.init numnodes msc) numnodes maxfail maxRestart idsOf) st)
    (hcl : Clean st) {col : List τ} (hcol : st.ctl.sched.collection = some col) :
    (st.wk.flatMap ranIdx).Nodup ∧ ∀ i ∈ st.wk.flatMap ranIdx, i < col.length := by
  have hp := C01_sys_load_ledger numnodes maxfail msc maxRestart idsOf h hcl hcol
  have hnd : (st.ctl.sched.pending ++ st.wk.flatMap acct).Nodup := hp.nodup_iff.2 List.nodup_range
  have hsub : (st.wk.flatMap ranIdx).Sublist (st.ctl.sched.pending ++ st.wk.flatMap acct) :=
    (ranIdx_sublist_acct st.wk).trans (List.sublist_append_right _ _)
  refine ⟨hsub.nodup hnd, ?_⟩
  intro i hi
  have := hp.mem_iff.1 (hsub.subset hi)
  simpa using this

/-- **Once nothing is outstanding every test has been started exactly once** (runs without worker loss): with an empty
    pool and no worker holding an announced, queued or undelivered test, the executions of all workers are a permutation
    of the indices of the agreed collection. -/
theorem C01_sys_load_all_started_when_idle (numnodes maxfail : Nat) (msc maxRestart : Option Int) (idsOf : Nat → List τ)
    {st : LState τ} (h : Reach idsOf (init loadI (Load.init numnodes msc) numnodes maxfail maxRestart idsOf) st)
    (hcl : Clean st) {col : List τ} (hcol : st.ctl.sched.collection = some col) (hpool : st.ctl.sched.pending = [])
    (hidle : ∀ w ∈ st.wk, nextT w = [] ∧ Worker.tests w.w.torun = [] ∧ inboxRuns w = []) :
    (st.wk.flatMap ranIdx).Perm (List.range col.length) := by
  have hp := C01_sys_load_ledger numnodes maxfail msc maxRestart idsOf h hcl hcol
  rw [hpool, List.nil_append] at hp
  have : st.wk.flatMap acct = st.wk.flatMap ranIdx := by
    apply flatMap_congr'
    intro w hw
    obtain ⟨a, b, c⟩ := hidle w hw
    unfold acct
    rw [a, b, c]; simp
  rw [this] at hp
  exact hp

end Xdist.Sys
