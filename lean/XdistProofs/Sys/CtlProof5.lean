import XdistProofs.Sys.CtlProof4
/-! **`CtlFacts` holds for every iteration of the controller loop on an event of the load mode.** -/
namespace Xdist.Sys
open Xdist Xdist.Ctl

variable {τ : Type} [DecidableEq τ]

theorem downOf_eq (ev : Ctl.Event τ) : downOf ev = Ctl.downOfEv ev := by cases ev <;> rfl

theorem cmdOf_node {o : SOut} {n : Nat} {c : Cmd} (h : cmdOf o = some (n, c)) : Contract.cmdNode o = some n := by
  cases o <;> simp [cmdOf] at h <;> simp [Contract.cmdNode, h.1]

theorem shape_addNode {c c' : Ctl.State (Load.State τ) τ} {ev : Ctl.Event τ} {as : List (Atom τ)}
    (h : Shape loadI c c' ev as) {n : Nat} (hm : Atom.call (SOp.addNode n) ∈ as) : ev = .workerready n := by
  cases ev with
  | workerready m =>
    obtain ⟨t, ht, hc⟩ := h
    rcases hc with ⟨_, rfl⟩ | ⟨_, rfl⟩
    · rcases List.mem_cons.1 hm with hm | hm
      · cases hm
      · exact absurd hm (allShut_no_call ht _)
    · rcases List.mem_cons.1 hm with hm | hm
      · cases hm; rfl
      · exact absurd hm (allShut_no_call ht _)
  | complete m i s =>
    obtain ⟨t, ht, rfl⟩ := h
    rcases List.mem_cons.1 hm with hm | hm
    · cases hm
    · exact absurd hm (allShut_no_call ht _)
  | unscheduled m is =>
    obtain ⟨t, ht, rfl⟩ := h
    rcases List.mem_cons.1 hm with hm | hm
    · cases hm
    · exact absurd hm (allShut_no_call ht _)
  | collectionfinish m ids =>
    obtain ⟨t, ht, hc⟩ := h
    rcases hc with ⟨_, rfl⟩ | ⟨_, _, _, rfl⟩ | ⟨_, _, rfl⟩
    · exact absurd hm (allShut_no_call ht _)
    · rcases List.mem_cons.1 hm with hm | hm
      · cases hm
      · exact absurd hm (allShut_no_call ht _)
    · rcases List.mem_cons.1 hm with hm | hm
      · cases hm
      · rcases List.mem_cons.1 hm with hm | hm
        · cases hm
        · exact absurd hm (allShut_no_call ht _)
  | errordown m rq =>
    obtain ⟨t, ht, hc⟩ := h
    rcases hc with rfl | rfl | ⟨x, _, rfl⟩
    · exact absurd hm (allShut_no_call ht _)
    · rcases List.mem_cons.1 hm with hm | hm
      · cases hm
      · exact absurd hm (allShut_no_call ht _)
    · rcases List.mem_cons.1 hm with hm | hm
      · cases hm
      · rcases List.mem_cons.1 hm with hm | hm
        · cases hm
        · exact absurd hm (allShut_no_call ht _)
  | workerfinished m x sf ss =>
    obtain ⟨t0, t, ht0, ht, hc⟩ := h
    rcases hc with rfl | rfl
    · exact absurd hm (allShut_no_call (allShut_append ht0 ht) _)
    · rcases List.mem_append.1 hm with hm | hm
      · exact absurd hm (allShut_no_call ht0 _)
      · rcases List.mem_cons.1 hm with hm | hm
        · cases hm
        · exact absurd hm (allShut_no_call ht _)
  | internalError m => exact absurd hm (allShut_no_call h _)
  | testreport m f => exact absurd hm (allShut_no_call h _)
  | collectreport m k f => exact absurd hm (allShut_no_call h _)
  | other => exact absurd hm (allShut_no_call h _)

end Xdist.Sys

namespace Xdist.Sys
open Xdist Xdist.Ctl

variable {τ : Type} [DecidableEq τ]

theorem qn_of_flag {s : Load.State τ} {e : Env} {n : Nat} (h : e.flags.shuttingDown n = true) : Load.Qn s e n :=
  fun _ _ => Or.inl h

/-- after the collection report of `n` was handled, `n` holds two tests, was told to shut down, or nothing is left -/
theorem coll_Q {c c' : Ctl.State (Load.State τ) τ} {n : Nat} {ids : List τ} (h0 : Load.P0 c.sched)
    (hsi : ShutInv loadI c) (hl : loopOnce loadI c (.collectionfinish n ids) = .ok c') (hp0' : Load.P0 c'.sched)
    (hmono : ∀ m, c.env.flags.shuttingDown m = true → c'.env.flags.shuttingDown m = true) : Load.Qn c'.sched c'.env n := by
  obtain ⟨as, hsteps, hshape⟩ := loopOnce_steps hl
  obtain ⟨t, ht, hcase⟩ := hshape
  rcases hcase with ⟨hor, rfl⟩ | ⟨_, _, hnc, rfl⟩ | ⟨_, _, rfl⟩
  · obtain ⟨i1, _⟩ := steps_shuts hsteps ht c.sched.node2pending
    rcases hor with hsd | hn
    · by_cases hk : n ∈ AList.keys c.sched.node2pending
      · exact qn_of_flag (hmono n (hsi hsd n hk))
      · exact Load.Qn_of_not_key (by rw [i1]; exact hk)
    · exact Load.Qn_of_not_key (by rw [i1]; exact hn)
  · -- registered, but the collection is not complete yet: nothing has been handed out
    have hcol : c'.sched.collection = none := by
      cases hh : c'.sched.collection with
      | none => rfl
      | some col =>
        have := hp0'.compl (by rw [hh]; simp)
        have hnc' : Load.collectionIsCompleted c'.sched = false := hnc
        rw [this] at hnc'; cases hnc'
    exact Load.Qn_of_pending_nil (hp0'.nocol hcol) n
  · obtain ⟨s1, e1, r, h1, h2⟩ := steps_call_inv hsteps
    obtain ⟨s2, e2, r2, h3, h4⟩ := steps_call_inv h2
    obtain ⟨p1, _⟩ := Load.step_GQ (G := fun _ => False) h0 (fun m hm => hm.elim) (fun m hm => by cases hm) h1
    -- `schedule()`
    simp only [loadI, Load.step] at h3
    obtain ⟨a, ha, hb⟩ := map_ok.1 h3
    simp only [Prod.mk.injEq] at hb
    obtain ⟨rfl, rfl, _⟩ := hb
    obtain ⟨hall, p2⟩ := Load.schedule_all p1 (show Load.schedule s1 e1 = .ok (a.1, a.2) by rw [ha])
    obtain ⟨_, g3⟩ := steps_GQ (G := fun _ => True) h4 p2 (fun m _ => hall m)
      (fun m hm => absurd hm (allShut_no_call ht _))
    exact g3 n trivial

theorem ready_key {c c' : Ctl.State (Load.State τ) τ} {n : Nat} (hl : loopOnce loadI c (.workerready n) = .ok c') :
    (c.shuttingdown = true → c'.env.flags.shuttingDown n = true) ∧
    (c.shuttingdown = false → n ∈ AList.keys c'.sched.node2pending) := by
  obtain ⟨as, hsteps, hshape⟩ := loopOnce_steps hl
  obtain ⟨t, ht, hcase⟩ := hshape
  constructor
  · intro hsd
    rcases hcase with ⟨_, rfl⟩ | ⟨hf, _⟩
    · have h2 := steps_shut_inv hsteps
      obtain ⟨_, new, a, _⟩ := steps_shuts h2 ht c.sched.node2pending
      have h0 := Ctl.shutdown_flag_self c.env n
      unfold Flags.shuttingDown at h0 ⊢
      rw [(a.other n).1]
      simp only [Bool.or_eq_true] at h0 ⊢
      rcases h0 with h0 | h0
      · exact Or.inl h0
      · exact Or.inr (a.sentMono n h0)
    · rw [hsd] at hf; cases hf
  · intro hsd
    rcases hcase with ⟨hf, _⟩ | ⟨_, rfl⟩
    · rw [hsd] at hf; cases hf
    · obtain ⟨s1, e1, r, h1, h2⟩ := steps_call_inv hsteps
      obtain ⟨_, hs1, _⟩ := addNode_call h1
      obtain ⟨i1, _⟩ := steps_shuts h2 ht s1.node2pending
      rw [i1, hs1]
      exact (AList.lookup_isSome_iff_mem_keys _ _).1 (by rw [AList.lookup_set_same]; rfl)

/-- **`CtlFacts`** for one iteration on an event that a worker of the load mode produced -/
theorem ctl_facts {st : LState τ} (hc : CtlInv st) {k : Nat} (hk : k < st.ctl.nextId) {ev : Ctl.Event τ}
    (hown : Own k ev = true) {c' : Ctl.State (Load.State τ) τ} (hl : loopOnce loadI st.ctl ev = .ok c') :
    ∃ new b1, CtlFacts st.ctl ev c' new b1 := by
  obtain ⟨new, b1, wf⟩ := wire_facts hl
  obtain ⟨as, hsteps, hshape⟩ := loopOnce_steps hl
  have h0 : Load.P0 st.ctl.sched := ⟨hc.nocol, hc.compl, hc.nodup⟩
  have hsi : ShutInv loadI st.ctl := hc.shutInv
  have spec := loopOnce_spec loadI Props.C02.loadI_quiet hsi hl
  have act := loopOnce_act loadI hl
  have hsubj : ∀ n, subjectOf ev = some n → n = k := by
    intro n hn
    rcases own_subject hown with h' | h'
    · rw [h'] at hn; cases hn; rfl
    · rw [h'] at hn; cases hn
  have hgone : ∀ g, Ctl.downOfEv ev = some g → g < st.ctl.nextId := by
    intro g hg
    rw [← downOf_eq] at hg
    rw [(own_down_notice hown hg).2]; exact hk
  have hgq : ∀ G : Nat → Prop, Load.GQ G st.ctl.sched st.ctl.env → (∀ n, ev = .workerready n → ¬ G n) →
      Load.P0 c'.sched ∧ Load.GQ G c'.sched c'.env := by
    intro G hg hadd
    exact steps_GQ hsteps h0 hg (fun n hm => hadd n (shape_addNode hshape hm))
  have hp0' : Load.P0 c'.sched := (hgq (fun _ => False) (fun m hm => hm.elim) (fun _ _ h => h)).1
  have hkeys' : ∀ m ∈ AList.keys c'.sched.node2pending, m < st.ctl.nextId := by
    intro m hm
    rw [wf.acc.keys] at hm
    rcases prep_keys wf.prep hm with h' | h'
    · exact hc.keysLt m h'
    · rw [hsubj m h']; exact hk
  have hmono : ∀ m, st.ctl.env.flags.shuttingDown m = true → c'.env.flags.shuttingDown m = true := by
    intro m h
    unfold Flags.shuttingDown at h ⊢
    rw [(wf.acc.other m).1]
    simp only [Bool.or_eq_true] at h ⊢
    rcases h with h | h
    · exact Or.inl h
    · exact Or.inr (wf.acc.sentMono m h)
  refine ⟨new, b1, ⟨wf.outs, wf.prep, wf.acc, ?_, hp0', fun G hg hadd => (hgq G hg hadd).2, ?_, ?_, act.nextLe, act.new, ?_,
    act.fresh hgone, act.nodup hc.activeNodup hc.activeLt, ?_, ?_, spec.mono, spec.shutInv, spec.stopped, ?_⟩⟩
  · -- nothing is addressed to a worker that does not exist yet
    intro o ho n cmd hcmd
    rcases wf.tgt o ho n (cmdOf_node hcmd) with h' | h' | h'
    · exact hc.keysLt n h'
    · exact hkeys' n h'
    · have : subjectOf ev = some n := by rw [h']; rfl
      rw [hsubj n this]; exact hk
  · intro n ids hev
    subst hev
    exact coll_Q h0 hsi hl hp0' hmono
  · intro n hev
    subst hev
    exact ready_key hl
  · intro a ha
    rcases act.keep a ha with h' | h'
    · exact Or.inl h'
    · exact Or.inr (by rw [downOf_eq]; exact h')
  · intro a hd
    exact act.goneOut a (by rw [← downOf_eq]; exact hd) hc.activeNodup hc.activeLt
  · intro a hd hkk
    refine down_keys hc.nodup hl hd ?_ hkk
    intro n hn
    rw [hn] at hown; simp [Own] at hown
  · intro hf
    exact (Props.C02.C02_finished_shuts_everyone loadI Props.C02.loadI_quiet hsi hl hf).2

end Xdist.Sys
