import XdistProofs.Sys.CtlProof5
import XdistProofs.Sys.NoStandoff
/-!
  **The system invariant holds in every reachable state of the whole-system model (`--dist load`)**, and with it the
  absence of stand-offs.
-/
namespace Xdist.Sys
open Xdist Xdist.Ctl

variable {τ : Type} [DecidableEq τ]

theorem fixRq_own (rq : Bool) {k : Nat} {e : Ctl.Event τ} (h : Own k e = true) : Own k (fixRq rq e) = true := by
  cases e <;> simpa [fixRq, Own] using h

theorem ctl_inv (idsOf : Nat → List τ) {st st' : LState τ} {k : Nat} {rq : Bool} (hinv : Inv st)
    (h : step loadI idsOf st (.ctl k rq) = .ok st') : Inv st' := by
  refine ctl_inv_of_facts idsOf hinv ?_ h
  intro w ev0 rest c' hw hp hl
  have hk : k < st.ctl.nextId := by
    rw [← hinv.1.len]
    rcases Nat.lt_or_ge k st.wk.length with h' | h'
    · exact h'
    · rw [List.getElem?_eq_none h'] at hw; cases hw
  have hown := (hinv.wk hw).ownP ev0 (by rw [hp]; simp)
  exact ctl_facts hinv.1 hk (fixRq_own rq hown) hl

/-- **every step of the system keeps the invariant** -/
theorem step_inv (idsOf : Nat → List τ) {st st' : LState τ} (a : Step) (hinv : Inv st)
    (h : step loadI idsOf st a = .ok st') : Inv st' := by
  cases a with
  | main k p => exact main_inv idsOf hinv h
  | deliver k => exact deliver_inv idsOf hinv h
  | recv k => exact recv_inv idsOf hinv h
  | crash k b => exact crash_inv idsOf hinv h
  | ctl k rq => exact ctl_inv idsOf hinv h

/-- the initial state: `numnodes` workers about to start, nothing sent, nothing received -/
theorem init_inv (numnodes maxfail : Nat) (msc maxRestart : Option Int) (idsOf : Nat → List τ) :
    Inv (init loadI (Load.init numnodes msc) numnodes maxfail maxRestart idsOf) := by
  refine inv_of ?_ ?_
  · refine ⟨by simp [init, Ctl.init], ?_, ?_, by intro h; simp [init, Ctl.init] at h, by intro h; simp [init, Ctl.init] at h, ?_,
      fun _ => rfl, by intro h; simp [init, Ctl.init, Load.init] at h, by simp [init, Ctl.init, Load.init, AList.keys],
      by intro m hm; simp [init, Ctl.init, Load.init, AList.keys] at hm, by intro m hm; simp [init, Ctl.init, AList.keys] at hm⟩
    · intro a ha; simpa [init, Ctl.init] using ha
    · simp [init, Ctl.init]; exact List.nodup_range
    · intro _ n hn; simp [init, Ctl.init, Load.init, AList.keys] at hn
  · intro j w hj
    simp only [init, List.getElem?_map] at hj
    cases hr : (List.range numnodes)[j]? with
    | none => rw [hr] at hj; cases hj
    | some x =>
      rw [hr] at hj
      simp only [Option.map_some, Option.some.injEq] at hj
      subst hj
      have hjl : j < numnodes := by
        have := List.getElem?_eq_some_iff.1 hr
        obtain ⟨hlt, _⟩ := this
        simpa using hlt
      have hact : j ∈ (Ctl.init loadI (Load.init (τ := τ) numnodes msc) numnodes maxfail maxRestart).active := by
        simp [Ctl.init, hjl]
      have hnk : j ∉ AList.keys (Ctl.init loadI (Load.init (τ := τ) numnodes msc) numnodes maxfail maxRestart).sched.node2pending := by
        simp [Ctl.init, Load.init, AList.keys]
      have hfl : (init loadI (Load.init (τ := τ) numnodes msc) numnodes maxfail maxRestart idsOf).ctl.env.flags.get j = {} := rfl
      exact {
        loopCb := (by intro h; cases h)
        running := (by intro h; cases h)
        have1 := (by intro h; cases h)
        init0 := fun _ => rfl
        early := fun _ => ⟨rfl, rfl, rfl⟩
        boot0 := fun _ _ => ⟨rfl, rfl⟩
        latePc := fun _ => trivial
        inboxK := (by intro x hx; simp at hx)
        ownP := (by intro x hx; simp at hx)
        ownO := (by intro x hx; simp at hx)
        evPlain := (by intro x hx; simp at hx)
        notBroken := fun _ => by rw [hfl]
        notice1 := fun _ _ => Or.inl ⟨rfl, by simp⟩
        notice2 := (by intro _ hh; rw [hfl] at hh; cases hh)
        noticeDown := (by intro h; simp at h)
        inactive := fun hk => absurd hact hk
        inactiveDown := fun hk => absurd hact hk
        noticeLast := rfl
        bootNoReady := fun _ => rfl
        shut := (by intro _ hh; rw [hfl] at hh; cases hh)
        ready := fun _ _ hp => absurd rfl hp
        readyTail := fun _ => rfl
        readyColl := (by intro _ h; simp [flight] at h)
        qn := Or.inl rfl
        keysActive := fun hk => absurd hk hnk
        sync := (by
          intro _ _
          unfold SyncD
          simp only [Ctl.init, Load.init]
          intro _
          exact ⟨rfl, rfl, rfl⟩) }

/-- reachable states: any sequence of steps (worker progress, deliveries, receiver steps, crashes, controller iterations)
    from the initial state -/
inductive Reach (idsOf : Nat → List τ) (st0 : LState τ) : LState τ → Prop where
  | init : Reach idsOf st0 st0
  | step {st st' : LState τ} (a : Step) : Reach idsOf st0 st → step loadI idsOf st a = .ok st' → Reach idsOf st0 st'

theorem reach_inv (idsOf : Nat → List τ) {st0 st : LState τ} (h0 : Inv st0) (h : Reach idsOf st0 st) : Inv st := by
  induction h with
  | init => exact h0
  | step a _ hs ih => exact step_inv idsOf a ih hs

/-- **`--dist load`: no stand-off once the collection is complete.**  In every state the whole system can reach — whatever
    the numbers of workers and tests, `--maxschedchunk`, `--maxfail`, the restart budget, what the tests do, which workers
    crash when, which collections they report, and in whatever order threads run and messages are delivered —, as long as
    the session is not finished some thread can take a step: the controller has an event to handle (or ends the run with
    an error), a receiver thread has a message to process, a command can be delivered, or a worker's main thread can go on. -/
theorem C02_sys_load_no_standoff (numnodes maxfail : Nat) (msc maxRestart : Option Int) (idsOf : Nat → List τ) {st : LState τ}
    (h : Reach idsOf (init loadI (Load.init numnodes msc) numnodes maxfail maxRestart idsOf) st)
    (hnf : Ctl.sessionFinished st.ctl = false) (hc : Load.collectionIsCompleted st.ctl.sched = true) :
    Enabled idsOf st :=
  no_standoff idsOf (reach_inv idsOf (init_inv numnodes maxfail msc maxRestart idsOf) h) hnf hc

end Xdist.Sys
