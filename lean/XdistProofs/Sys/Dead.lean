import XdistProofs.Sys.EndAll
/-!
  C03 at the level of the whole system (`--dist load`): **dead workers.**  For a worker that died without ever having been
  written off because of an undecodable message, the controller's book keeps saying, until the death notice is handled,
  `completions still to be handled ++ what the worker held when it died ++ what was booked for it since`; the end marker is the
  last thing on its channel.  Hence the crash item — the head of the book when the notice is handled — is the test the worker
  was executing (or, between two tests, the one it was about to start).

  "Never written off" is a fact about the history, not about the state (an undecodable message and the end marker leave the
  same flags behind); it is carried by a ghost component `W` of the reachability relation (`ReachG`), which no step reads.
-/
namespace Xdist.Sys
open Xdist Xdist.Ctl Xdist.Load

variable {τ : Type} [DecidableEq τ]

/-- ghost: the workers written off because of an undecodable message -/
def ghostW (st : LState τ) (a : Step) (W : List Nat) : List Nat :=
  match a with
  | .recv k =>
    match st.wk[k]? with
    | some w =>
      match w.outbox with
      | .garbage :: _ => if (st.ctl.env.flags.get k).down then W else k :: W
      | _ => W
    | none => W
  | _ => W

/-- reachability with the ghost -/
inductive ReachG (idsOf : Nat → List τ) (st0 : LState τ) : LState τ → List Nat → Prop where
  | init : ReachG idsOf st0 st0 []
  | step {st st' : LState τ} {W : List Nat} (a : Step) : ReachG idsOf st0 st W → step loadI idsOf st a = .ok st' →
      ReachG idsOf st0 st' (ghostW st a W)

theorem ReachG.reach {idsOf : Nat → List τ} {st0 st : LState τ} {W : List Nat} (h : ReachG idsOf st0 st W) : Reach idsOf st0 st := by
  induction h with
  | init => exact Reach.init
  | step a _ hs ih => exact Reach.step a ih hs

theorem ghostW_mono (st : LState τ) (a : Step) (W : List Nat) {k : Nat} (h : k ∈ W) : k ∈ ghostW st a W := by
  unfold ghostW
  split
  · split
    · split
      · split
        · exact h
        · exact List.mem_cons_of_mem _ h
      · exact h
    · exact h
  · exact h

/-- the book of a dead worker -/
def DeadD (s : Load.State τ) (k : Nat) (w : Wk τ) : Prop :=
  match AList.lookup s.node2pending k with
  | none => completes (flight k w) = [] ∧ heldS w = []
  | some book => ∃ extra, book = completes (flight k w) ++ heldS w ++ extra

structure WkInv7 (c : Ctl.State (Load.State τ) τ) (W : List Nat) (k : Nat) (w : Wk τ) : Prop where
  /-- a live worker that has not finished has not closed its channel -/
  endNone : w.alive = true → w.phase ≠ .done → ∀ m ∈ w.outbox, isEnd m = false
  /-- the end marker is the last thing on a dead worker's channel -/
  endLast : w.alive = false → ∀ a b, w.outbox = a ++ WMsg.endMarker :: b → b = []
  /-- a worker that died had not finished: no `workerfinished` of it is on its way -/
  deadNoFin : w.alive = false → ∀ m ∈ w.outbox, isFin m = false
  /-- a live worker is written off only because it finished or because of an undecodable message -/
  downWhy : w.alive = true → k ∉ W → (c.env.flags.get k).down = true → w.phase = .done
  /-- after the end marker nothing is left on the channel -/
  deadDown : w.alive = false → k ∉ W → (c.env.flags.get k).down = true → w.outbox = []
  deadSync : w.alive = false → k ∉ W → k ∈ c.active → DeadD c.sched k w

def Inv7 (st : LState τ) (W : List Nat) : Prop := ∀ k w, st.wk[k]? = some w → WkInv7 st.ctl W k w

theorem WkInv7.congr {c c' : Ctl.State (Load.State τ) τ} {W : List Nat} {j : Nat} {w : Wk τ} (hs : c'.sched = c.sched)
    (ha : c'.active = c.active) (hd : (c'.env.flags.get j).down = (c.env.flags.get j).down)
    (h : WkInv7 c W j w) : WkInv7 c' W j w :=
  ⟨h.endNone, h.endLast, h.deadNoFin, by rw [hd]; exact h.downWhy, by rw [hd]; exact h.deadDown, by rw [ha, hs]; exact h.deadSync⟩

/-- the ghost only grows -/
theorem WkInv7.mono {c : Ctl.State (Load.State τ) τ} {W W' : List Nat} {j : Nat} {w : Wk τ} (hW : ∀ x, x ∈ W → x ∈ W')
    (h : WkInv7 c W j w) : WkInv7 c W' j w :=
  ⟨h.endNone, h.endLast, h.deadNoFin, fun a b => h.downWhy a (fun hh => b (hW _ hh)), fun a b => h.deadDown a (fun hh => b (hW _ hh)),
    fun a b => h.deadSync a (fun hh => b (hW _ hh))⟩

end Xdist.Sys
