import XdistProofs.Sys.AcctPubs3
/-! Executions of the composed system with their ghost histories (`ReachB`), and the controller's ledger along them. -/
namespace Xdist.Sys
open Xdist Xdist.Ctl Xdist.Load Xdist.Contract

variable {τ : Type} [DecidableEq τ]

/-- executions of the system with both ghosts: the workers written off because of an undecodable message, and the history of
    the scheduler calls made by the controller -/
inductive ReachB (idsOf : Nat → List τ) (st0 : LState τ) : LState τ → List Nat → Ghost → Prop where
  | init : ReachB idsOf st0 st0 [] {}
  | other {st st' : LState τ} {W : List Nat} {g : Ghost} (a : Step) (hn : ∀ k rq, a ≠ .ctl k rq) :
      ReachB idsOf st0 st W g → step loadI idsOf st a = .ok st' → ReachB idsOf st0 st' (ghostW st a W) g
  | ctl {st st' : LState τ} {W : List Nat} {g g' : Ghost} {as : List (Atom τ)} (k : Nat) (rq : Bool)
      {w : Wk τ} {ev0 : Ctl.Event τ} {rest : List (Ctl.Event τ)} :
      ReachB idsOf st0 st W g → step loadI idsOf st (.ctl k rq) = .ok st' →
      st.wk[k]? = some w → w.posted = ev0 :: rest → Shape loadI st.ctl st'.ctl (fixRq rq ev0) as →
      StepsG st.ctl.sched st.ctl.env g as st'.ctl.sched st'.ctl.env g' → (GC st.ctl g → GC st'.ctl g') →
      ReachB idsOf st0 st' (ghostW st (.ctl k rq) W) g'

theorem ReachB.reachG {idsOf : Nat → List τ} {st0 st : LState τ} {W : List Nat} {g : Ghost} (h : ReachB idsOf st0 st W g) :
    ReachG idsOf st0 st W := by
  induction h with
  | init => exact ReachG.init
  | other a _ _ hs ih => exact ReachG.step a ih hs
  | ctl k rq _ hs _ _ _ _ _ ih => exact ReachG.step (.ctl k rq) ih hs

/-- steps of the workers, of the receiver threads and crashes leave the scheduler alone -/
theorem other_sched {idsOf : Nat → List τ} {st st' : LState τ} (a : Step) (hn : ∀ k rq, a ≠ .ctl k rq)
    (h : step loadI idsOf st a = .ok st') : st'.ctl.sched = st.ctl.sched := by
  cases a with
  | main k p =>
    simp only [Sys.step] at h
    split at h
    · cases h
    · split at h
      · cases h
      · simp only [Except.ok.injEq] at h; subst h; rfl
  | deliver k =>
    simp only [Sys.step] at h
    split at h
    · cases h
    · split at h
      · cases h
      · simp only [Except.ok.injEq] at h; subst h; rfl
  | recv k =>
    simp only [Sys.step] at h
    split at h
    · cases h
    rename_i s1 hr
    simp only [Except.ok.injEq] at h; subst h
    obtain ⟨w, m, rest, fl', w2, outs', _, _, rfl, _⟩ := recvStep_shape hr
    rfl
  | crash k b =>
    simp only [Sys.step] at h
    split at h
    · cases h
    rename_i s1 hc
    simp only [Except.ok.injEq] at h; subst h
    unfold crashStep at hc
    split at hc
    · cases hc
    split at hc
    · cases hc
    split at hc
    · simp only [Option.some.injEq] at hc; subst hc; rfl
    · simp only [Option.some.injEq] at hc; subst hc; rfl
  | ctl k rq => exact absurd rfl (hn k rq)

/-- **The controller's ledger in every reachable state of the system**, whatever crashed: pool + books + completions handled +
    crash items = the indices of the agreed collection + what the crash hook re-queued, as multisets. -/
theorem reachB_bal (numnodes maxfail : Nat) (msc maxRestart : Option Int) (idsOf : Nat → List τ) {st : LState τ} {W : List Nat}
    {g : Ghost} (h : ReachB idsOf (init loadI (Load.init numnodes msc) numnodes maxfail maxRestart idsOf) st W g) :
    BalS st.ctl.sched g := by
  induction h with
  | init =>
    refine ⟨by intro _; rfl, ?_, ?_⟩
    · simp [Bal, Load.view, Load.init, View.all, AList.values, init, Ctl.init]
    · simp [Load.StartedOK, Load.init, init, Ctl.init]
  | other a hn _ hs ih => rw [other_sched a hn hs]; exact ih
  | ctl k rq _ _ _ _ _ hg _ ih => exact stepsG_bal hg ih

/-- **every execution has its ghost history** -/
theorem reachG_reachB (numnodes maxfail : Nat) (msc maxRestart : Option Int) (idsOf : Nat → List τ) {st : LState τ} {W : List Nat}
    (h : ReachG idsOf (init loadI (Load.init numnodes msc) numnodes maxfail maxRestart idsOf) st W) :
    ∃ g, ReachB idsOf (init loadI (Load.init numnodes msc) numnodes maxfail maxRestart idsOf) st W g := by
  induction h with
  | init => exact ⟨{}, ReachB.init⟩
  | step a _ hs ih =>
    obtain ⟨g, hg⟩ := ih
    cases a with
    | main k p => exact ⟨g, ReachB.other _ (by intro _ _ hh; cases hh) hg hs⟩
    | deliver k => exact ⟨g, ReachB.other _ (by intro _ _ hh; cases hh) hg hs⟩
    | recv k => exact ⟨g, ReachB.other _ (by intro _ _ hh; cases hh) hg hs⟩
    | crash k b => exact ⟨g, ReachB.other _ (by intro _ _ hh; cases hh) hg hs⟩
    | ctl k rq =>
      have hs' := hs
      simp only [Sys.step] at hs'
      obtain ⟨w, ev0, rest, c', hw, hp, hl, rfl⟩ := ctlStep_shape hs'
      obtain ⟨as, g', hg', hsh, hlink⟩ := loopOnce_ghost hl g (reachB_bal numnodes maxfail msc maxRestart idsOf hg)
      exact ⟨g', ReachB.ctl k rq hg hs hw hp hsh hg' hlink⟩

/-- **The published crash reports are the crash items of the ghost history, in order** — in every reachable state. -/
theorem reachB_gc (numnodes maxfail : Nat) (msc maxRestart : Option Int) (idsOf : Nat → List τ) {st : LState τ} {W : List Nat}
    {g : Ghost} (h : ReachB idsOf (init loadI (Load.init numnodes msc) numnodes maxfail maxRestart idsOf) st W g) :
    GC st.ctl g := by
  induction h with
  | init =>
    refine ⟨fun _ => ⟨rfl, rfl, rfl⟩, ?_⟩
    intro col hc
    simp [init, Ctl.init, Load.init] at hc
  | other a hn _ hs ih =>
    have hsch := other_sched a hn hs
    have hpubs : ∀ {st st' : LState τ}, step loadI idsOf st a = .ok st' → st'.ctl.pubs = st.ctl.pubs := by
      intro st st' h
      cases a with
      | main k p =>
        simp only [Sys.step] at h
        split at h
        · cases h
        · split at h
          · cases h
          · simp only [Except.ok.injEq] at h; subst h; rfl
      | deliver k =>
        simp only [Sys.step] at h
        split at h
        · cases h
        · split at h
          · cases h
          · simp only [Except.ok.injEq] at h; subst h; rfl
      | recv k =>
        simp only [Sys.step] at h
        split at h
        · cases h
        rename_i s1 hr
        simp only [Except.ok.injEq] at h; subst h
        obtain ⟨w, m, rest, fl', w2, outs', _, _, rfl, _⟩ := recvStep_shape hr
        rfl
      | crash k b =>
        simp only [Sys.step] at h
        split at h
        · cases h
        rename_i s1 hc
        simp only [Except.ok.injEq] at h; subst h
        unfold crashStep at hc
        split at hc
        · cases hc
        split at hc
        · cases hc
        split at hc
        · simp only [Option.some.injEq] at hc; subst hc; rfl
        · simp only [Option.some.injEq] at hc; subst hc; rfl
      | ctl k rq => exact absurd rfl (hn k rq)
    exact ih.same (by rw [hpubs hs]) (by rw [hpubs hs]) rfl rfl (fun col hc => by rw [hsch]; exact hc)
  | ctl k rq _ _ _ _ _ _ hlink ih => exact hlink ih

end Xdist.Sys
