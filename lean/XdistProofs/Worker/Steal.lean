import XdistProofs.Worker.Order
import XdistProofs.Lemmas.PyList
/-!
  The atomic steal (C07a) and the next-item chain (C05b).
-/
namespace Xdist.Worker
open Xdist

/-- shape of `steal`, without any assumption: one reply, the reply plus what remains is what was queued,
    order preserved, shutdown markers untouched, nothing in hand or already run is affected -/
theorem steal_shape (s : State) (req : List Nat) :
    ∃ xs, (steal s req).sent = s.sent ++ [.unscheduled xs] ∧
      (xs ++ tests (steal s req).torun).Perm (tests s.torun) ∧
      (tests (steal s req).torun).Sublist (tests s.torun) ∧
      xs.Sublist (tests s.torun) ∧
      (steal s req).ran = s.ran ∧ (steal s req).cur = s.cur ∧ (steal s req).next = s.next ∧
      (steal s req).pc = s.pc := by
  unfold steal
  dsimp only
  split
  · refine ⟨_, rfl, ?_, ?_, List.filter_sublist, rfl, rfl, rfl, rfl⟩
    · simp only
      rw [tests_filter]
      exact List.filter_append_perm (fun i => (PyList.uniq req).contains i) (tests s.torun)
    · simp only
      rw [tests_filter]
      exact List.filter_sublist
  · exact ⟨[], rfl, by simp, List.Sublist.refl _, by simp, rfl, rfl, rfl, rfl⟩

/-- **All or nothing.**  With a duplicate-free queue (an invariant of reachable system states, C16):
    if every requested test is still queued, exactly the requested ones are removed and listed in the reply … -/
theorem steal_all (s : State) (req : List Nat) (hq : (tests s.torun).Nodup)
    (hall : ∀ r ∈ req, r ∈ tests s.torun) :
    tests (steal s req).torun = (tests s.torun).filter (fun i => decide (i ∉ req)) ∧
    (steal s req).sent = s.sent ++ [.unscheduled ((tests s.torun).filter (fun i => decide (i ∈ req)))] := by
  have hlen : ((tests s.torun).filter (fun i => (PyList.uniq req).contains i)).length = (PyList.uniq req).length := by
    have := (PyList.length_filter_mem_eq_iff hq (PyList.nodup_uniq req)).2 (by
      intro x hx; exact hall x ((PyList.mem_uniq req x).1 hx))
    simpa using this
  unfold steal
  dsimp only
  rw [if_pos hlen]
  refine ⟨?_, ?_⟩
  · simp only
    rw [tests_filter]
    congr 1
    funext i
    simp
  · simp only
    congr 3
    apply List.filter_congr
    intro i _
    simp

/-- … and if some requested test is no longer queued, nothing is removed and the reply is empty. -/
theorem steal_none (s : State) (req : List Nat) (hq : (tests s.torun).Nodup)
    (hmiss : ∃ r ∈ req, r ∉ tests s.torun) :
    (steal s req).torun = s.torun ∧ (steal s req).sent = s.sent ++ [.unscheduled []] := by
  have hlen : ¬ ((tests s.torun).filter (fun i => (PyList.uniq req).contains i)).length = (PyList.uniq req).length := by
    intro h
    have := (PyList.length_filter_mem_eq_iff hq (PyList.nodup_uniq req)).1 (by simpa using h)
    obtain ⟨r, hr, hnr⟩ := hmiss
    exact hnr (this r ((PyList.mem_uniq req r).2 hr))
  unfold steal
  dsimp only
  rw [if_neg hlen]
  exact ⟨rfl, rfl⟩

/-! ### next-item announcements -/

def Chain : List (Nat × Option Nat) → Prop
  | [] => True
  | [_] => True
  | (_, a) :: (j, b) :: r => a = some j ∧ Chain ((j, b) :: r)

theorem chain_append {l : List (Nat × Option Nat)} {i : Nat} {x : Option Nat}
    (hc : Chain l) (hl : ∀ k a, l.getLast? = some (k, a) → a = some i) : Chain (l ++ [(i, x)]) := by
  induction l with
  | nil => simp [Chain]
  | cons p t ih =>
    obtain ⟨k, a⟩ := p
    cases t with
    | nil =>
      have := hl k a (by simp)
      simp [Chain, this]
    | cons p2 t2 =>
      obtain ⟨j, b⟩ := p2
      simp only [Chain] at hc
      simp only [List.cons_append, Chain]
      refine ⟨hc.1, ?_⟩
      apply ih hc.2
      intro k' a' h'
      apply hl k' a'
      simpa [List.getLast?_cons_cons] using h'

/-- the announcements are a chain, the last one is the entry currently held as `nextitem_index`,
    and the loop head holds a test -/
def NextInv (s : State) : Prop :=
  Chain s.ran ∧
  (∀ i a, s.ran.getLast? = some (i, a) → ∃ q, s.next = some q ∧ a = announce q) ∧
  (s.pc = .haveItem → ∃ i, s.next = some (.test i)) ∧
  (s.pc = .init → s.ran = [])

theorem nextInv_init : NextInv {} := by simp [NextInv, Chain]

theorem nextInv_step {s s' : State} {a : Step} (hn : NextInv s) (h : step s a = some s') : NextInv s' := by
  obtain ⟨hc, hlast, hhave, hinit⟩ := hn
  cases a with
  | put i => simp [step, put] at h; subst h; exact ⟨hc, hlast, hhave, hinit⟩
  | putShutdown => simp [step, putShutdown] at h; subst h; exact ⟨hc, hlast, hhave, hinit⟩
  | steal req =>
    simp only [step] at h
    have := steal_shape s req
    obtain ⟨xs, _, _, _, _, h1, h2, h3, h4⟩ := this
    simp at h; subst h
    refine ⟨by rw [h1]; exact hc, by rw [h1, h3]; exact hlast, by rw [h4, h3]; exact hhave, by rw [h4, h1]; exact hinit⟩
  | get0 =>
    simp only [step, get0] at h
    split at h
    · simp at h
    · rename_i hpc
      simp at hpc
      cases hq : s.torun with
      | nil => simp [hq] at h
      | cons q r =>
        simp [hq] at h; subst h
        have hr := hinit hpc
        refine ⟨by simpa [hr] using hc, by simp [hr], ?_, by intro _; exact hr⟩
        cases q <;> simp
  | get1 =>
    simp only [step, get1] at h
    split at h
    · simp at h
    · split at h
      · rename_i i q r hnext hq
        simp at h; subst h
        refine ⟨?_, ?_, by simp, by simp⟩
        · apply chain_append hc
          intro k a hk
          obtain ⟨q', hq', ha⟩ := hlast k a hk
          rw [hnext] at hq'
          simp at hq'; subst hq'
          simpa [announce] using ha
        · intro i' a' h'
          simp at h'
          obtain ⟨rfl, rfl⟩ := h'
          exact ⟨q, rfl, rfl⟩
      · simp at h
  | finish b =>
    simp only [step, finish] at h
    split at h
    · simp at h
    · rename_i hpc
      simp at hpc
      cases hcur : s.cur with
      | none => simp [hcur] at h
      | some i =>
        simp [hcur] at h; subst h
        refine ⟨hc, hlast, ?_, ?_⟩
        · intro hp
          cases b with
          | true => simp at hp
          | false =>
            simp at hp
            cases hnx : s.next with
            | none => simp [hnx] at hp
            | some q =>
              cases q with
              | shutdown => simp [hnx] at hp
              | test j => exact ⟨j, rfl⟩
        · intro hp
          cases b with
          | true => simp at hp
          | false =>
            simp at hp
            cases hnx : s.next with
            | none => simp [hnx] at hp
            | some q => cases q <;> simp [hnx] at hp

theorem run_nextInv {s s' : State} {steps : List Step} (hn : NextInv s) (h : run s steps = some s') : NextInv s' := by
  induction steps generalizing s with
  | nil => simp [run] at h; subst h; exact hn
  | cons a t ih =>
    simp only [run] at h
    cases ha : step s a with
    | none => simp [ha] at h
    | some s1 => simp only [ha] at h; exact ih (nextInv_step hn ha) h

end Xdist.Worker
