import XdistModel.Worker.Interactor
/-!
  Worker-local invariants (C05, C07a), for every interleaving of receiver steps (`put`, `putShutdown`, `steal`)
  with main-thread steps (`get0`, `get1`, `finish`).
-/
namespace Xdist.Worker
open Xdist

/-- the tests the worker has run, holds in hand, or still has queued — in that order -/
def line (s : State) : List Nat :=
  s.ran.map Prod.fst ++ (match s.next with | some (.test j) => [j] | _ => []) ++ tests s.torun

/-- when the protocol for `i` has been entered, `i` is out of the hand -/
def OrderInv (s : State) : Prop :=
  -- the hand holds the *next* item only while it has not been moved into `ran`
  (line s).Sublist s.received ∧ s.received.Perm (line s ++ s.stolen)

theorem tests_append (a b : List QItem) : tests (a ++ b) = tests a ++ tests b := by
  induction a with
  | nil => rfl
  | cons q r ih => cases q <;> simp [tests, ih]

theorem tests_filter (l : List QItem) (p : Nat → Bool) :
    tests (l.filter (keepQ p)) = (tests l).filter p := by
  induction l with
  | nil => rfl
  | cons q r ih =>
    cases q with
    | shutdown =>
      have : keepQ p QItem.shutdown = true := rfl
      simp [List.filter_cons, this, tests, ih]
    | test i =>
      have hk : keepQ p (QItem.test i) = p i := rfl
      by_cases h : p i = true
      · simp [List.filter_cons, hk, tests, h, ih]
      · simp [List.filter_cons, hk, tests, h, ih]

theorem orderInv_init : OrderInv {} := by simp [OrderInv, line, tests]

/-- `line` is unchanged by the two `get` steps: they only move the head of the queue into the hand / the hand into `ran` -/
theorem line_get0 {s s' : State} (h : get0 s = some s') (hn : s.next = none) : line s' = line s ∧
    s'.received = s.received ∧ s'.stolen = s.stolen := by
  unfold get0 at h
  split at h
  · simp at h
  · cases hq : s.torun with
    | nil => simp [hq] at h
    | cons q r =>
      simp [hq] at h
      subst h
      cases q <;> simp [line, hn, hq, tests]

theorem line_get1 {s s' : State} (h : get1 s = some s') : line s' = line s ∧
    s'.received = s.received ∧ s'.stolen = s.stolen := by
  unfold get1 at h
  split at h
  · simp at h
  · split at h
    · rename_i i q r hnext hq
      simp at h; subst h
      cases q <;> simp [line, hnext, hq, tests, announce]
    · simp at h

theorem line_finish {s s' : State} {b : Bool} (h : finish s b = some s') : line s' = line s ∧
    s'.received = s.received ∧ s'.stolen = s.stolen := by
  unfold finish at h
  split at h
  · simp at h
  · cases hc : s.cur with
    | none => simp [hc] at h
    | some i => simp [hc] at h; subst h; simp [line]

/-- `next` is `none` exactly in the initial control state -/
def NextInit (s : State) : Prop := s.pc = .init ↔ s.next = none

theorem nextInit_step {s s' : State} {a : Step} (hi : NextInit s) (h : step s a = some s') : NextInit s' := by
  unfold NextInit at hi ⊢
  cases a with
  | put i => simp [step, put] at h; subst h; simpa using hi
  | putShutdown => simp [step, putShutdown] at h; subst h; simpa using hi
  | steal req =>
    simp only [step, steal] at h
    split at h <;> (simp at h; subst h; simpa using hi)
  | get0 =>
    simp only [step, get0] at h
    split at h
    · simp at h
    · cases hq : s.torun with
      | nil => simp [hq] at h
      | cons q r => simp [hq] at h; subst h; cases q <;> simp
  | get1 =>
    simp only [step, get1] at h
    split at h
    · simp at h
    · split at h
      · simp at h; subst h; simp
      · simp at h
  | finish b =>
    simp only [step, finish] at h
    split at h
    · simp at h
    · rename_i hpc
      cases hc : s.cur with
      | none => simp [hc] at h
      | some i =>
        simp [hc] at h; subst h
        have hne : s.next ≠ none := by
          intro hn
          have := hi.2 hn
          simp at hpc
          rw [this] at hpc
          simp at hpc
        cases b with
        | true => simp [hne]
        | false =>
          cases hnx : s.next with
          | none => exact absurd hnx hne
          | some q => cases q <;> simp

/-- **C05 (order) / C07 (accounting).**  Every step keeps: what the worker runs / will run, in order, is a
    subsequence of what it received, and what is missing is exactly what it replied as stolen. -/
theorem orderInv_step {s s' : State} {a : Step} (hi : NextInit s) (ho : OrderInv s) (h : step s a = some s') :
    OrderInv s' := by
  obtain ⟨hsub, hperm⟩ := ho
  cases a with
  | put i =>
    simp [step, put] at h; subst h
    refine ⟨?_, ?_⟩
    · simp only [line, tests_append, tests, List.append_nil]
      rw [← List.append_assoc]
      exact List.Sublist.append hsub (List.Sublist.refl _)
    · simp only [line, tests_append, tests, List.append_nil]
      rw [List.perm_iff_count] at hperm ⊢
      intro x
      have := hperm x
      simp only [line, List.count_append] at this ⊢
      omega
  | putShutdown =>
    simp [step, putShutdown] at h; subst h
    simpa [OrderInv, line, tests_append, tests] using And.intro hsub hperm
  | steal req =>
    simp only [step, steal] at h
    split at h
    · simp at h; subst h
      refine ⟨?_, ?_⟩
      · simp only [line]
        rw [tests_filter _ (fun i => !decide (i ∈ PyList.uniq req))]
        exact List.Sublist.trans (List.Sublist.append_left (List.filter_sublist) _) hsub
      · simp only [line]
        rw [tests_filter _ (fun i => !decide (i ∈ PyList.uniq req))]
        rw [List.perm_iff_count] at hperm ⊢
        intro x
        have h1 := hperm x
        have h2 := List.perm_iff_count.1
          (List.filter_append_perm (fun i => decide (i ∈ PyList.uniq req)) (tests s.torun)) x
        simp only [line, List.count_append] at h1 h2 ⊢
        omega
    · simp at h; subst h
      exact ⟨hsub, hperm⟩
  | get0 =>
    have hn : s.next = none := by
      simp only [step, get0] at h
      split at h
      · simp at h
      · rename_i hpc; simp at hpc; exact hi.1 hpc
    obtain ⟨h1, h2, h3⟩ := line_get0 h hn
    simp only [OrderInv, h1, h2, h3]; exact ⟨hsub, hperm⟩
  | get1 =>
    obtain ⟨h1, h2, h3⟩ := line_get1 h
    simp only [OrderInv, h1, h2, h3]; exact ⟨hsub, hperm⟩
  | finish b =>
    obtain ⟨h1, h2, h3⟩ := line_finish h
    simp only [OrderInv, h1, h2, h3]; exact ⟨hsub, hperm⟩

theorem run_inv {s s' : State} {steps : List Step} (hi : NextInit s) (ho : OrderInv s)
    (h : run s steps = some s') : NextInit s' ∧ OrderInv s' := by
  induction steps generalizing s with
  | nil => simp [run] at h; subst h; exact ⟨hi, ho⟩
  | cons a t ih =>
    simp only [run] at h
    cases ha : step s a with
    | none => simp [ha] at h
    | some s1 =>
      simp only [ha] at h
      exact ih (nextInit_step hi ha) (orderInv_step hi ho ha) h

end Xdist.Worker
