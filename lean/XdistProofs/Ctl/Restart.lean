import XdistProofs.Ctl.Budget
import XdistProofs.Ctl.Active
/-!
  The restart budget, and what a handler does to it and to the set of active workers: a death notice (`errordown`,
  `workerfinished`) either starts a replacement — the budget shrinks — or starts nobody and removes exactly the worker it is
  about; any other handler leaves budget, id counter and active set alone.
-/
namespace Xdist.Ctl
open Xdist

variable {σ τ : Type}

/-- restarts that are still allowed -/
def budget (c : State σ τ) : Nat :=
  match c.maxRestart with
  | some b => (b - (c.failedNodes : Int)).toNat
  | none => 0

theorem budget_of_keeps {a b : State σ τ} (h : Keeps a b) : budget b = budget a := by
  unfold budget; rw [h.maxRestart, h.failedNodes]

theorem restart_frame (I : SchedI σ τ) (a : State σ τ) (n : Nat) {b : Int} (hm : a.maxRestart = some b) {st' : State σ τ}
    (h : removeActive (restartOrStop I a n) n = .ok st') :
    st'.maxRestart = some b ∧
      (budget st' < budget a ∨ (budget st' ≤ budget a ∧ st'.nextId = a.nextId ∧ st'.active = a.active.erase n)) := by
  have hk := keeps_removeActive h
  have hact : st'.active = (restartOrStop I a n).active.erase n := by
    unfold removeActive at h
    split at h
    · simp only [Except.ok.injEq] at h; subst h; rfl
    · cases h
  by_cases hb : ((a.failedNodes + 1 : Nat) : Int) > b
  · have hx := restartOrStop_exceeded I a n b hm hb
    have e1 : (restartOrStop I a n).maxRestart = a.maxRestart := by rw [hx]; exact (keeps_triggerShutdown I _).maxRestart
    have e2 : (restartOrStop I a n).failedNodes = a.failedNodes + 1 := by rw [hx]; exact (keeps_triggerShutdown I _).failedNodes
    have e3 : (restartOrStop I a n).nextId = a.nextId := by rw [hx]; exact (keeps_triggerShutdown I _).nextId
    have e4 : (restartOrStop I a n).active = a.active := by rw [hx]; exact (triggerShutdown_act I _).1
    refine ⟨by rw [hk.maxRestart, e1]; exact hm, Or.inr ⟨?_, ?_, ?_⟩⟩
    · unfold budget
      rw [hk.maxRestart, hk.failedNodes, e1, e2]
      simp only [hm]
      omega
    · rw [hk.nextId, e3]
    · rw [hact, e4]
  · have hx := restartOrStop_within I a n (Or.inr ⟨b, hm, hb⟩)
    refine ⟨by rw [hk.maxRestart, hx]; exact hm, Or.inl ?_⟩
    unfold budget
    rw [hk.maxRestart, hk.failedNodes, hx]
    simp only [cloneNode, hm]
    omega

theorem errordown_frame (I : SchedI σ τ) {st st' : State σ τ} {n : Nat} {rq : Bool} {b : Int} (hm : st.maxRestart = some b)
    (h : errordown I st n rq = .ok st') :
    st'.maxRestart = some b ∧
      (budget st' < budget st ∨ (budget st' ≤ budget st ∧ st'.nextId = st.nextId ∧ st'.active = st.active.erase n)) := by
  have key : ∀ (a : State σ τ), Keeps st a → a.active = st.active → removeActive (restartOrStop I a n) n = .ok st' →
      st'.maxRestart = some b ∧
        (budget st' < budget st ∨ (budget st' ≤ budget st ∧ st'.nextId = st.nextId ∧ st'.active = st.active.erase n)) := by
    intro a hk ha hr
    have := restart_frame I a n (by rw [hk.maxRestart]; exact hm) hr
    rw [budget_of_keeps hk, hk.nextId, ha] at this
    exact this
  unfold errordown at h
  simp only at h
  split at h
  · exact key _ (keeps_pub st _ rfl) rfl h
  · cases h
  · rename_i st1 hc
    exact key _ ((keeps_pub st _ rfl).trans (keeps_callSched I hc)) (callSched_act I hc).1 h
  · rename_i st1 x hc
    obtain ⟨st2, h2, h3⟩ := bind_ok.1 h
    exact key _ (((keeps_pub st _ rfl).trans (keeps_callSched I hc)).trans (keeps_handleCrashItem I h2))
      ((handleCrashItem_act I h2).1.trans (callSched_act I hc).1) h3

theorem workerfinished_frame (I : SchedI σ τ) {st st' : State σ τ} {n x : Nat} {sf ss : Option String} {b : Int}
    (hm : st.maxRestart = some b) (h : workerfinished I st n x sf ss = .ok st') :
    st'.maxRestart = some b ∧
      (budget st' < budget st ∨ (budget st' ≤ budget st ∧ st'.nextId = st.nextId ∧ st'.active = st.active.erase n)) := by
  have rem : ∀ (a : State σ τ), Keeps st a → a.active = st.active → removeActive a n = .ok st' →
      st'.maxRestart = some b ∧
        (budget st' < budget st ∨ (budget st' ≤ budget st ∧ st'.nextId = st.nextId ∧ st'.active = st.active.erase n)) := by
    intro a hk ha hr
    have hk2 := hk.trans (keeps_removeActive hr)
    refine ⟨by rw [hk2.maxRestart]; exact hm, Or.inr ⟨by rw [budget_of_keeps hk2]; exact Nat.le_refl _, hk2.nextId, ?_⟩⟩
    unfold removeActive at hr
    split at hr
    · simp only [Except.ok.injEq] at hr; subst hr; simp only; rw [ha]
    · cases hr
  unfold workerfinished at h
  split at h
  · simp only at h
    have k0 : Keeps st ({ st with shouldstop := some (Stop.keyboard n), pubs := st.pubs ++ [Pub.nodedown n false] } : State σ τ) :=
      ⟨rfl, rfl, spawnIds_append_nonspawn _ _ rfl, rfl, rfl⟩
    have k1 := k0.trans (keeps_triggerShutdown I _)
    have a1 := triggerShutdown_act I ({ st with shouldstop := some (Stop.keyboard n), pubs := st.pubs ++ [Pub.nodedown n false] } : State σ τ)
    have := errordown_frame I (b := b) (by rw [k1.maxRestart]; exact hm) h
    rw [budget_of_keeps k1, k1.nextId, a1.1] at this
    exact this
  · simp only at h
    split at h
    · split at h
      · refine rem _ ?_ ?_ h
        case refine_2 => rfl
        exact Keeps.trans (b := ({ st with pubs := st.pubs ++ [Pub.nodedown n false] } : State σ τ)) (keeps_pub st _ rfl)
          ⟨rfl, rfl, rfl, rfl, rfl⟩
      · exact rem _ (keeps_pub st _ rfl) rfl h
    · split at h
      · split at h
        · cases h
        · cases h
        · rename_i st1 hc
          exact rem _ ((keeps_pub st _ rfl).trans (keeps_callSched I hc)) (callSched_act I hc).1 h
      · exact rem _ (keeps_pub st _ rfl) rfl h

/-- a handler of an event that is not a death notice: nobody joins or leaves -/
theorem handle_plain_frame (I : SchedI σ τ) {c c1 : State σ τ} {ev : Event τ} (h : handle I c ev = .ok c1)
    (hev : downOfEv ev = none) : Keeps c c1 ∧ c1.active = c.active := by
  cases ev with
  | workerready n =>
    simp only [handle] at h
    split at h
    · simp only [Except.ok.injEq] at h; subst h; exact ⟨⟨rfl, rfl, rfl, rfl, rfl⟩, rfl⟩
    · obtain ⟨a, ha, hb⟩ := map_ok.1 h
      subst hb
      have hc : callSched I c (.addNode n) = .ok (a.1, a.2) := by rw [ha]
      exact ⟨keeps_callSched I hc, (callSched_act I hc).1⟩
  | workerfinished n x sf ss => cases hev
  | errordown n rq => cases hev
  | internalError n => cases hev
  | collectionfinish n ids =>
    simp only [handle, collectionfinish] at h
    split at h
    · simp only [Except.ok.injEq] at h; subst h; exact ⟨Keeps.refl _, rfl⟩
    · split at h
      · simp only [Except.ok.injEq] at h; subst h; exact ⟨Keeps.refl _, rfl⟩
      · obtain ⟨r, hr, h2⟩ := bind_ok.1 h
        have hc : callSched I c (.addNodeCollection n ids) = .ok (r.1, r.2) := by rw [hr]
        split at h2
        · obtain ⟨a, ha, hb⟩ := map_ok.1 h2
          subst hb
          have hc2 : callSched I r.1 .schedule = .ok (a.1, a.2) := by rw [ha]
          exact ⟨(keeps_callSched I hc).trans (keeps_callSched I hc2), (callSched_act I hc2).1.trans (callSched_act I hc).1⟩
        · simp only [Except.ok.injEq] at h2; subst h2
          exact ⟨keeps_callSched I hc, (callSched_act I hc).1⟩
  | testreport n failed =>
    simp only [handle, Except.ok.injEq] at h; subst h
    exact ⟨(keeps_pub c _ rfl).trans (keeps_handleFailures _ failed), (handleFailures_act _ failed).1⟩
  | complete n i slow =>
    simp only [handle] at h
    obtain ⟨a, ha, hb⟩ := map_ok.1 h
    subst hb
    have hc : callSched I c (.markComplete n i slow) = .ok (a.1, a.2) := by rw [ha]
    exact ⟨keeps_callSched I hc, (callSched_act I hc).1⟩
  | unscheduled n is =>
    simp only [handle] at h
    obtain ⟨a, ha, hb⟩ := map_ok.1 h
    subst hb
    have hc : callSched I c (.removePending n is) = .ok (a.1, a.2) := by rw [ha]
    exact ⟨keeps_callSched I hc, (callSched_act I hc).1⟩
  | collectreport n key failed =>
    simp only [handle] at h
    split at h
    · simp only [Except.ok.injEq] at h; subst h; exact ⟨Keeps.refl _, rfl⟩
    · simp only [Except.ok.injEq] at h; subst h
      have k0 : Keeps c ({ c with seenCollect := c.seenCollect ++ [key], pubs := c.pubs ++ [.collect key] } : State σ τ) :=
        ⟨rfl, rfl, spawnIds_append_nonspawn _ _ rfl, rfl, rfl⟩
      exact ⟨k0.trans (keeps_handleFailures _ failed), (handleFailures_act _ failed).1⟩
  | other => simp only [handle, Except.ok.injEq] at h; subst h; exact ⟨Keeps.refl _, rfl⟩

end Xdist.Ctl
