import XdistProofs.Ctl.Lift
import XdistProofs.Sched.LoadQ
/-!
  The "two queued tests" invariant of the load scheduler, lifted to the controller: it holds after every iteration of the
  `DSession` loop, for every sequence of events.
-/
namespace Xdist.Ctl
open Xdist

variable {τ : Type} [DecidableEq τ]

/-- `LoadScheduling` as the interface `DSession` uses -/
def loadI : SchedI (Load.State τ) τ :=
  { step := Load.step, nodes := Load.nodes, testsFinished := Load.testsFinished,
    collectionIsCompleted := Load.collectionIsCompleted }

instance (s : Load.State τ) (op : SOp τ) : Decidable (Load.QOk s op) := by
  cases op <;> simp only [Load.QOk] <;> infer_instance

theorem loadI_schedInv : SchedInv (loadI (τ := τ)) Load.QInv Load.QOk := by
  refine ⟨?_, fun n hi => Load.shutdown_inv n hi, ?_, ?_⟩
  · intro s e op s' e' r hi hok hstep
    cases op with
    | addNode n =>
      simp only [loadI, Load.step] at hstep
      obtain ⟨a, ha, hb⟩ := map_ok.1 hstep
      simp only [Prod.mk.injEq] at hb
      obtain ⟨rfl, rfl, _⟩ := hb
      exact Load.addNode_inv hi hok ha
    | addNodeCollection n c => exact absurd hok id
    | schedule => exact absurd hok id
    | markComplete n i slow =>
      simp only [loadI, Load.step] at hstep
      obtain ⟨a, ha, hb⟩ := map_ok.1 hstep
      simp only [Prod.mk.injEq] at hb
      obtain ⟨rfl, rfl, _⟩ := hb
      exact Load.markComplete_inv hi (show Load.markComplete s e n i slow = .ok (a.1, a.2) by rw [ha])
    | markPending t =>
      simp only [loadI, Load.step] at hstep
      obtain ⟨a, ha, hb⟩ := map_ok.1 hstep
      simp only [Prod.mk.injEq] at hb
      obtain ⟨rfl, rfl, _⟩ := hb
      exact Load.markPending_inv hi (show Load.markPending s e t = .ok (a.1, a.2) by rw [ha])
    | removePending n is => simp [loadI, Load.step] at hstep
    | removeNode n => exact Load.removeNode_inv hi hstep
  · intro s e n c s1 e1 r1 hi h1
    simp only [loadI, Load.step] at h1
    obtain ⟨a, ha, hb⟩ := map_ok.1 h1
    simp only [Prod.mk.injEq] at hb
    obtain ⟨rfl, rfl, _⟩ := hb
    obtain ⟨c1, c2⟩ := Load.collect_inv (e := e) hi ha
    refine ⟨c1, ?_⟩
    intro s2 e2 r2 hc h2
    simp only [loadI, Load.step] at h2
    obtain ⟨b, hb1, hb2⟩ := map_ok.1 h2
    simp only [Prod.mk.injEq] at hb2
    obtain ⟨rfl, rfl, _⟩ := hb2
    exact c2 hc (show Load.schedule a e = .ok (b.1, b.2) by rw [hb1])
  · intro s op h1 h2 h3 h4
    cases op with
    | removePending n is => exact absurd rfl (h1 n is)
    | addNode n => exact absurd rfl (h2 n)
    | addNodeCollection n c => exact absurd rfl (h3 n c)
    | schedule => exact absurd rfl h4
    | _ => trivial

end Xdist.Ctl
