import XdistProofs.Ctl.Frame
/-!
  The restart bookkeeping of `DSession`, for an arbitrary scheduler: the replacement workers started so far are
  exactly `gw<k>, gw<k+1>, …` (k = number of initial workers), and there are `min failedNodes budget` of them.
-/
namespace Xdist.Ctl
open Xdist

variable {σ τ : Type}

/-- how many replacements `f` deaths lead to under the budget `mr` -/
def cap (mr : Option Int) (f : Nat) : Nat :=
  match mr with
  | some b => min f b.toNat
  | none => f

/-- the bookkeeping invariant; `k` = number of initial workers -/
def BudgetInv (k : Nat) (mr : Option Int) (st : State σ τ) : Prop :=
  spawnIds st = List.range' k (cap st.maxRestart st.failedNodes) ∧
  st.nextId = k + cap st.maxRestart st.failedNodes ∧ st.maxRestart = mr

theorem BudgetInv.of_keeps {k : Nat} {mr : Option Int} {st st' : State σ τ} (h : BudgetInv k mr st) (hk : Keeps st st') : BudgetInv k mr st' := by
  unfold BudgetInv at *
  rw [hk.spawns, hk.maxRestart, hk.failedNodes, hk.nextId]
  exact h

theorem spawnIds_cloneNode (st : State σ τ) : spawnIds (cloneNode st) = spawnIds st ++ [st.nextId] := by
  simp [spawnIds, cloneNode, List.filterMap_append]

theorem restartOrStop_exceeded (I : SchedI σ τ) (st : State σ τ) (n : Nat) (b : Int)
    (hm : st.maxRestart = some b) (hb : ((st.failedNodes + 1 : Nat) : Int) > b) :
    restartOrStop I st n = triggerShutdown I
      { st with failedNodes := st.failedNodes + 1
                summary := some (if b = 0 then Summary.disabled n else Summary.maximum b) } := by
  unfold restartOrStop
  simp only [hm, hb, ↓reduceIte]

theorem restartOrStop_within (I : SchedI σ τ) (st : State σ τ) (n : Nat)
    (h : st.maxRestart = none ∨ ∃ b, st.maxRestart = some b ∧ ¬ ((st.failedNodes + 1 : Nat) : Int) > b) :
    restartOrStop I st n = cloneNode { st with failedNodes := st.failedNodes + 1, shuttingdown := false } := by
  unfold restartOrStop
  rcases h with h | ⟨b, h, hb⟩
  · simp only [h]
  · simp only [h, hb, ↓reduceIte]

theorem restartOrStop_inv (I : SchedI σ τ) {k : Nat} {mr : Option Int} {st : State σ τ} (n : Nat) (h : BudgetInv k mr st) :
    BudgetInv k mr (restartOrStop I st n) := by
  obtain ⟨h1, h2, h3⟩ := h
  have clone : ∀ (hc : cap st.maxRestart (st.failedNodes + 1) = cap st.maxRestart st.failedNodes + 1),
      BudgetInv k mr (cloneNode { st with failedNodes := st.failedNodes + 1, shuttingdown := false }) := by
    intro hc
    refine ⟨?_, ?_, h3⟩
    · rw [spawnIds_cloneNode]
      show spawnIds st ++ [st.nextId] = List.range' k (cap st.maxRestart (st.failedNodes + 1))
      rw [hc, h1, h2, List.range'_concat]
      simp
    · show st.nextId + 1 = k + cap st.maxRestart (st.failedNodes + 1)
      rw [hc, h2]; omega
  cases hm : st.maxRestart with
  | none =>
    rw [restartOrStop_within I st n (Or.inl hm)]
    exact clone (by simp [cap, hm])
  | some b =>
    by_cases hb : ((st.failedNodes + 1 : Nat) : Int) > b
    · rw [restartOrStop_exceeded I st n b hm hb]
      refine BudgetInv.of_keeps ?_ (keeps_triggerShutdown I _)
      have hcap : min (st.failedNodes + 1) b.toNat = min st.failedNodes b.toNat := by omega
      refine ⟨?_, ?_, h3⟩
      · show spawnIds st = List.range' k (cap st.maxRestart (st.failedNodes + 1))
        rw [h1]; simp only [cap, hm, hcap]
      · show st.nextId = k + cap st.maxRestart (st.failedNodes + 1)
        rw [h2]; simp only [cap, hm, hcap]
    · rw [restartOrStop_within I st n (Or.inr ⟨b, hm, hb⟩)]
      have hcap : min (st.failedNodes + 1) b.toNat = min st.failedNodes b.toNat + 1 := by omega
      exact clone (by simp only [cap, hm, hcap])

theorem errordown_inv (I : SchedI σ τ) {k : Nat} {mr : Option Int} {st st' : State σ τ} {n : Nat} {rq : Bool}
    (h : BudgetInv k mr st) (he : errordown I st n rq = .ok st') : BudgetInv k mr st' := by
  unfold errordown at he
  simp only at he
  have h0 : BudgetInv k mr ({ st with pubs := st.pubs ++ [Pub.nodedown n true] } : State σ τ) :=
    h.of_keeps (keeps_pub st _ rfl)
  split at he
  · exact (restartOrStop_inv I n h0).of_keeps (keeps_removeActive he)
  · simp at he
  · rename_i st1 hc
    exact (restartOrStop_inv I n (h0.of_keeps (keeps_callSched I hc))).of_keeps (keeps_removeActive he)
  · rename_i st1 t hc
    obtain ⟨st2, h2, h3⟩ := bind_ok.1 he
    exact (restartOrStop_inv I n ((h0.of_keeps (keeps_callSched I hc)).of_keeps (keeps_handleCrashItem I h2))).of_keeps
      (keeps_removeActive h3)

theorem workerfinished_inv (I : SchedI σ τ) {k : Nat} {mr : Option Int} {st st' : State σ τ} {n x : Nat} {sf ss : Option String}
    (h : BudgetInv k mr st) (he : workerfinished I st n x sf ss = .ok st') : BudgetInv k mr st' := by
  unfold workerfinished at he
  split at he
  · refine errordown_inv I ?_ he
    refine BudgetInv.of_keeps ?_ (keeps_triggerShutdown I _)
    exact h.of_keeps ⟨rfl, rfl, spawnIds_append_nonspawn _ _ rfl, rfl, rfl⟩
  · simp only at he
    have h0 : BudgetInv k mr ({ st with pubs := st.pubs ++ [Pub.nodedown n false] } : State σ τ) :=
      h.of_keeps (keeps_pub st _ rfl)
    split at he
    · refine BudgetInv.of_keeps ?_ (keeps_removeActive he)
      split
      · exact h0.of_keeps ⟨rfl, rfl, rfl, rfl, rfl⟩
      · exact h0
    · split at he
      · split at he
        · simp at he
        · simp at he
        · rename_i st1 hc
          exact (h0.of_keeps (keeps_callSched I hc)).of_keeps (keeps_removeActive he)
      · exact h0.of_keeps (keeps_removeActive he)

theorem handle_inv (I : SchedI σ τ) {k : Nat} {mr : Option Int} {st st' : State σ τ} {ev : Event τ}
    (h : BudgetInv k mr st) (he : handle I st ev = .ok st') : BudgetInv k mr st' := by
  cases ev with
  | workerready n =>
    simp only [handle] at he
    split at he
    · simp only [Except.ok.injEq] at he; subst he; exact h.of_keeps ⟨rfl, rfl, rfl, rfl, rfl⟩
    · obtain ⟨a, ha, hb⟩ := map_ok.1 he
      subst hb
      exact h.of_keeps (keeps_callSched I (r := a.2) (by rw [← ha]))
  | workerfinished n x sf ss => exact workerfinished_inv I h he
  | internalError n =>
    simp only [handle] at he
    obtain ⟨a, ha, hb⟩ := map_ok.1 he
    subst hb
    exact (h.of_keeps (keeps_removeActive ha)).of_keeps (keeps_pub a _ rfl)
  | errordown n rq => exact errordown_inv I h he
  | collectionfinish n ids =>
    simp only [handle, collectionfinish] at he
    split at he
    · simp only [Except.ok.injEq] at he; subst he; exact h
    · split at he
      · simp only [Except.ok.injEq] at he; subst he; exact h
      · obtain ⟨r, hr, h2⟩ := bind_ok.1 he
        have k1 : Keeps st r.1 := keeps_callSched I (r := r.2) (by rw [← hr])
        split at h2
        · obtain ⟨a, ha, hb⟩ := map_ok.1 h2
          subst hb
          exact (h.of_keeps k1).of_keeps (keeps_callSched I (r := a.2) (by rw [← ha]))
        · simp only [Except.ok.injEq] at h2; subst h2; exact h.of_keeps k1
  | testreport n failed =>
    simp only [handle, Except.ok.injEq] at he
    subst he
    exact (h.of_keeps (keeps_pub st _ rfl)).of_keeps (keeps_handleFailures _ _)
  | complete n i slow =>
    simp only [handle] at he
    obtain ⟨a, ha, hb⟩ := map_ok.1 he
    subst hb
    exact h.of_keeps (keeps_callSched I (r := a.2) (by rw [← ha]))
  | unscheduled n is =>
    simp only [handle] at he
    obtain ⟨a, ha, hb⟩ := map_ok.1 he
    subst hb
    exact h.of_keeps (keeps_callSched I (r := a.2) (by rw [← ha]))
  | collectreport n key failed =>
    simp only [handle] at he
    split at he
    · simp only [Except.ok.injEq] at he; subst he; exact h
    · simp only [Except.ok.injEq] at he; subst he
      refine BudgetInv.of_keeps ?_ (keeps_handleFailures _ _)
      exact h.of_keeps ⟨rfl, rfl, spawnIds_append_nonspawn _ _ rfl, rfl, rfl⟩
  | other =>
    simp only [handle, Except.ok.injEq] at he; subst he; exact h

theorem afterHandler_keeps (I : SchedI σ τ) (st : State σ τ) : Keeps st (afterHandler I st) := by
  unfold afterHandler
  simp only
  split
  · split
    · exact (keeps_triggerShutdown I st).trans (keeps_triggerShutdown I _)
    · exact keeps_triggerShutdown I st
  · split
    · exact keeps_triggerShutdown I st
    · exact Keeps.refl st

theorem loopOnce_inv (I : SchedI σ τ) {k : Nat} {mr : Option Int} {st st' : State σ τ} {ev : Event τ}
    (h : BudgetInv k mr st) (he : loopOnce I st ev = .ok st') : BudgetInv k mr st' := by
  unfold loopOnce at he
  split at he
  · simp at he
  · obtain ⟨a, ha, hb⟩ := map_ok.1 he
    subst hb
    exact (handle_inv I h ha).of_keeps (afterHandler_keeps I a)

theorem runLoop_inv (I : SchedI σ τ) {k : Nat} {mr : Option Int} (evs : List (Event τ)) {st st' : State σ τ}
    (h : BudgetInv k mr st) (he : runLoop I st evs = .ok st') : BudgetInv k mr st' := by
  induction evs generalizing st with
  | nil => simp only [runLoop, Except.ok.injEq] at he; subst he; exact h
  | cons ev rest ih =>
    simp only [runLoop] at he
    split at he
    · simp only [Except.ok.injEq] at he; subst he; exact h
    · split at he
      · simp at he
      · rename_i st1 h1
        exact ih (loopOnce_inv I h h1) he

theorem init_inv (I : SchedI σ τ) (s0 : σ) (k mf : Nat) (mr : Option Int) : BudgetInv k mr (init I s0 k mf mr) := by
  unfold BudgetInv init spawnIds cap
  cases mr <;> simp

end Xdist.Ctl
