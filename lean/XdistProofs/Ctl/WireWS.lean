import XdistProofs.Ctl.Lift
import XdistProofs.Contract.WorkStealRefines
/-!
  The wire invariants of the worksteal scheduler, lifted to the controller: along **every** sequence of controller events
  (workers ready / finished / crashed / replaced, completions, steal answers, reports, stop conditions) the complete wire log
  never has anything addressed to a worker behind its shutdown signal.
-/
namespace Xdist.Ctl
open Xdist Xdist.Contract

variable {τ : Type} [DecidableEq τ]

/-- `WorkStealingScheduling` as the interface `DSession` uses -/
def wsI : SchedI (WorkSteal.State τ) τ :=
  { step := WorkSteal.step, nodes := WorkSteal.nodes, testsFinished := WorkSteal.testsFinished,
    collectionIsCompleted := WorkSteal.collectionIsCompleted }

/-- ledger + wire invariants of the scheduler, with the ledger's ghost hidden -/
def WsInv (s : WorkSteal.State τ) (e : Env) : Prop :=
  ∃ g, WorkSteal.Fresh s ∧ WorkSteal.KeysNodup s ∧ Bal (WorkSteal.view s) g ∧ NoAfter e.outs ∧ SentSync e

theorem wsI_schedInv : SchedInv (wsI (τ := τ)) WsInv WorkSteal.OpLegal := by
  refine SchedInv.ofStep ?_ ?_ ?_
  · intro s e op s' e' r ⟨g, hf, hk, hb, h1, h2⟩ hok hstep
    obtain ⟨hf', hk', hb'⟩ := WorkSteal.step_bal hf hk hb hok hstep
    obtain ⟨w1, w2⟩ := WorkSteal.step_wire hf hk h1 h2 hstep
    exact ⟨_, hf', hk', hb', w1, w2⟩
  · intro s e n ⟨g, hf, hk, hb, h1, h2⟩
    obtain ⟨w1, w2⟩ := shutdown_wire (n := n) h1 h2
    exact ⟨g, hf, hk, hb, w1, w2⟩
  · intro s op hop
    cases op with
    | removePending n is => exact absurd rfl (hop n is)
    | _ => trivial

theorem wsI_init_inv (k : Nat) : WsInv (WorkSteal.init (τ := τ) k) ({} : Env) := by
  refine ⟨{}, by intro _; rfl, by simp [WorkSteal.KeysNodup, WorkSteal.init, AList.keys], ?_, noAfter_nil, ?_⟩
  · simp [Bal, WorkSteal.view, WorkSteal.init, View.all, AList.values]
  · intro n hn; simp at hn

end Xdist.Ctl
