import XdistProofs.Ctl.Budget
import XdistProofs.Sched.Quiet
import XdistProofs.Contract.Wire
/-!
  Stop conditions at the `DSession` level (C11) for an arbitrary scheduler that is *quiet* once all its nodes are
  shutting down: while a shutdown is in force no loop iteration dispatches anything; a stop reason, once set, stays set
  and forces the shutdown at the end of every iteration.
-/
namespace Xdist.Ctl
open Xdist

variable {σ τ : Type}

/-- commands that give a worker something to do (as opposed to the shutdown signal and collection reports) -/
def isDispatch : SOut → Bool
  | .run _ _ => true
  | .runAll _ => true
  | .steal _ _ => true
  | _ => false

/-- the dispatching commands on the wire so far -/
def dispatches (e : Env) : List SOut := e.outs.filter isDispatch

/-- the scheduler property the theorems need (proved for every scheduler model in `Sched/Quiet.lean`) -/
structure Quiet (I : SchedI σ τ) : Prop where
  step : ∀ {s e op s' e' r}, QuietOp op → (∀ n ∈ I.nodes s, e.flags.shuttingDown n = true) →
    I.step s e op = .ok (s', e', r) → e' = e ∧ ∀ n ∈ I.nodes s', n ∈ I.nodes s

/-- while the session is shutting down, every node the scheduler knows has been told to shut down (or is down) -/
def ShutInv (I : SchedI σ τ) (st : State σ τ) : Prop :=
  st.shuttingdown = true → ∀ n ∈ I.nodes st.sched, st.env.flags.shuttingDown n = true

/-! ### `WorkerController.shutdown` -/

theorem shutdown_dispatches (e : Env) (n : Nat) : dispatches (e.shutdown n) = dispatches e := by
  unfold Env.shutdown dispatches
  by_cases hd : ((e.flags.get n).down || (e.flags.get n).sent) = true
  · simp only [hd, if_true]
  · simp only [hd, Bool.false_eq_true, if_false]
    by_cases hb : (e.flags.get n).broken = true
    · simp only [hb, if_true]
    · simp [hb, List.filter_append, isDispatch]

theorem shutdown_flag_self (e : Env) (n : Nat) : (e.shutdown n).flags.shuttingDown n = true := by
  unfold Env.shutdown
  by_cases hd : ((e.flags.get n).down || (e.flags.get n).sent) = true
  · simp only [hd, if_true]; simpa [Flags.shuttingDown] using hd
  · simp only [hd, Bool.false_eq_true, if_false]
    simp [Flags.shuttingDown, Contract.flags_get_set]

theorem shutdown_flag_mono (e : Env) (n m : Nat) (h : e.flags.shuttingDown m = true) :
    (e.shutdown n).flags.shuttingDown m = true := by
  by_cases hmn : m = n
  · subst hmn; exact shutdown_flag_self e m
  · unfold Env.shutdown
    by_cases hd : ((e.flags.get n).down || (e.flags.get n).sent) = true
    · simp only [hd, if_true]; exact h
    · simp only [hd, Bool.false_eq_true, if_false]
      simpa [Flags.shuttingDown, Contract.flags_get_set, hmn] using h

theorem shutdownAll_dispatches (e : Env) (ns : List Nat) : dispatches (e.shutdownAll ns) = dispatches e := by
  induction ns generalizing e with
  | nil => rfl
  | cons n t ih => simp only [Env.shutdownAll]; rw [ih, shutdown_dispatches]

theorem shutdownAll_flag_mono (e : Env) (ns : List Nat) (m : Nat) (h : e.flags.shuttingDown m = true) :
    (e.shutdownAll ns).flags.shuttingDown m = true := by
  induction ns generalizing e with
  | nil => exact h
  | cons n t ih => simp only [Env.shutdownAll]; exact ih _ (shutdown_flag_mono e n m h)

theorem shutdownAll_flag_mem (e : Env) (ns : List Nat) (m : Nat) (hm : m ∈ ns) :
    (e.shutdownAll ns).flags.shuttingDown m = true := by
  induction ns generalizing e with
  | nil => simp at hm
  | cons n t ih =>
    simp only [Env.shutdownAll]
    rcases List.mem_cons.1 hm with h | h
    · subst h; exact shutdownAll_flag_mono _ t m (shutdown_flag_self e m)
    · exact ih _ h

/-! ### `triggershutdown` -/

theorem triggerShutdown_shuttingdown (I : SchedI σ τ) (st : State σ τ) : (triggerShutdown I st).shuttingdown = true := by
  unfold triggerShutdown; split <;> simp_all

theorem triggerShutdown_fields (I : SchedI σ τ) (st : State σ τ) :
    (triggerShutdown I st).shouldstop = st.shouldstop ∧ (triggerShutdown I st).sched = st.sched ∧
    (triggerShutdown I st).active = st.active ∧ (triggerShutdown I st).countfailures = st.countfailures ∧
    (triggerShutdown I st).maxfail = st.maxfail := by
  unfold triggerShutdown; split <;> simp

theorem triggerShutdown_dispatches (I : SchedI σ τ) (st : State σ τ) :
    dispatches (triggerShutdown I st).env = dispatches st.env := by
  unfold triggerShutdown
  split
  · rfl
  · exact shutdownAll_dispatches _ _

theorem triggerShutdown_shutInv (I : SchedI σ τ) (st : State σ τ) (h : ShutInv I st) : ShutInv I (triggerShutdown I st) := by
  unfold triggerShutdown
  split
  · exact h
  · intro _ n hn
    exact shutdownAll_flag_mem _ _ n hn

/-! ### what a scheduler call changes -/

theorem callSched_fields (I : SchedI σ τ) {st st' : State σ τ} {op : SOp τ} {r : Option τ}
    (h : callSched I st op = .ok (st', r)) :
    I.step st.sched st.env op = .ok (st'.sched, st'.env, r) ∧ st'.shouldstop = st.shouldstop ∧
    st'.shuttingdown = st.shuttingdown ∧ st'.active = st.active ∧ st'.countfailures = st.countfailures ∧
    st'.maxfail = st.maxfail := by
  unfold callSched at h
  obtain ⟨a, ha, hb⟩ := map_ok.1 h
  simp only [Prod.mk.injEq] at hb
  obtain ⟨rfl, rfl⟩ := hb
  exact ⟨by rw [ha], rfl, rfl, rfl, rfl, rfl⟩

/-- a quiet scheduler call while every node is shutting down: nothing happens on the wire -/
theorem callSched_quiet (I : SchedI σ τ) (hQ : Quiet I) {st st' : State σ τ} {op : SOp τ} {r : Option τ}
    (hq : QuietOp op) (hs : st.shuttingdown = true) (hi : ShutInv I st)
    (h : callSched I st op = .ok (st', r)) :
    st'.env = st.env ∧ ShutInv I st' ∧ st'.shuttingdown = true := by
  obtain ⟨h1, _, h3, _⟩ := callSched_fields I h
  obtain ⟨he, hn⟩ := hQ.step hq (hi hs) h1
  refine ⟨he, ?_, by rw [h3, hs]⟩
  intro _ n hn'
  rw [he]
  exact hi hs n (hn n hn')

theorem removeActive_fields {st st' : State σ τ} {n : Nat} (h : removeActive st n = .ok st') :
    st'.env = st.env ∧ st'.sched = st.sched ∧ st'.shuttingdown = st.shuttingdown ∧ st'.shouldstop = st.shouldstop ∧
    st'.countfailures = st.countfailures ∧ st'.maxfail = st.maxfail := by
  unfold removeActive at h
  split at h
  · simp only [Except.ok.injEq] at h; subst h; exact ⟨rfl, rfl, rfl, rfl, rfl, rfl⟩
  · simp at h

theorem handleCrashItem_fields (I : SchedI σ τ) {st st' : State σ τ} {n : Nat} {t : τ} {rq : Bool}
    (h : handleCrashItem I st n t rq = .ok st') :
    st'.shouldstop = st.shouldstop ∧ st'.shuttingdown = st.shuttingdown ∧ st'.countfailures = st.countfailures ∧
    st'.maxfail = st.maxfail := by
  unfold handleCrashItem at h
  obtain ⟨st1, h1, h2⟩ := map_ok.1 h
  subst h2
  split at h1
  · obtain ⟨a, ha, hb⟩ := map_ok.1 h1
    subst hb
    obtain ⟨_, h2, h3, _, h5, h6⟩ := callSched_fields I (r := a.2) (show callSched I st _ = .ok (a.1, a.2) by rw [ha])
    exact ⟨h2, h3, h5, h6⟩
  · simp only [Except.ok.injEq] at h1; subst h1; exact ⟨rfl, rfl, rfl, rfl⟩

theorem handleCrashItem_quiet (I : SchedI σ τ) (hQ : Quiet I) {st st' : State σ τ} {n : Nat} {t : τ} {rq : Bool}
    (hs : st.shuttingdown = true) (hi : ShutInv I st) (h : handleCrashItem I st n t rq = .ok st') :
    st'.env = st.env ∧ ShutInv I st' := by
  unfold handleCrashItem at h
  obtain ⟨st1, h1, h2⟩ := map_ok.1 h
  subst h2
  split at h1
  · obtain ⟨a, ha, hb⟩ := map_ok.1 h1
    subst hb
    obtain ⟨he, hi', _⟩ := callSched_quiet I hQ (op := .markPending t) (r := a.2) trivial hs hi
      (show callSched I st _ = .ok (a.1, a.2) by rw [ha])
    exact ⟨he, hi'⟩
  · simp only [Except.ok.injEq] at h1; subst h1; exact ⟨rfl, hi⟩

theorem restartOrStop_cases (I : SchedI σ τ) (st : State σ τ) (n : Nat) :
    (∃ b, restartOrStop I st n = triggerShutdown I
        { st with failedNodes := st.failedNodes + 1
                  summary := some (if b = 0 then Summary.disabled n else Summary.maximum b) }) ∨
    restartOrStop I st n = cloneNode { st with failedNodes := st.failedNodes + 1, shuttingdown := false } := by
  rcases Option.eq_none_or_eq_some st.maxRestart with hm | ⟨b, hm⟩
  · exact Or.inr (restartOrStop_within I st n (Or.inl hm))
  · by_cases hb : ((st.failedNodes + 1 : Nat) : Int) > b
    · exact Or.inl ⟨b, restartOrStop_exceeded I st n b hm hb⟩
    · exact Or.inr (restartOrStop_within I st n (Or.inr ⟨b, hm, hb⟩))

theorem restartOrStop_fields (I : SchedI σ τ) (st : State σ τ) (n : Nat) :
    (restartOrStop I st n).shouldstop = st.shouldstop ∧ (restartOrStop I st n).sched = st.sched ∧
    (restartOrStop I st n).countfailures = st.countfailures ∧ (restartOrStop I st n).maxfail = st.maxfail ∧
    dispatches (restartOrStop I st n).env = dispatches st.env := by
  rcases restartOrStop_cases I st n with ⟨b, h⟩ | h
  · rw [h]
    have := triggerShutdown_fields I
      ({ st with failedNodes := st.failedNodes + 1
                 summary := some (if b = 0 then Summary.disabled n else Summary.maximum b) } : State σ τ)
    exact ⟨this.1, this.2.1, this.2.2.2.1, this.2.2.2.2, triggerShutdown_dispatches I _⟩
  · rw [h]; simp [cloneNode]

/-- after the restart decision the state is consistent again: either shutdown was (re-)triggered for every node,
    or it was revoked -/
theorem restartOrStop_shutInv (I : SchedI σ τ) (st : State σ τ) (n : Nat) (h : ShutInv I st) :
    ShutInv I (restartOrStop I st n) := by
  rcases restartOrStop_cases I st n with ⟨b, h'⟩ | h'
  · rw [h']
    exact triggerShutdown_shutInv I _ (fun hs => h hs)
  · rw [h']
    intro hs; simp [cloneNode] at hs

/-! ### the handlers -/

theorem shutInv_of_false (I : SchedI σ τ) {st : State σ τ} (h : st.shuttingdown = false) : ShutInv I st := by
  intro hs; rw [h] at hs; cases hs

/-- a quiet-type scheduler call: consistent afterwards; silent if a shutdown is in force -/
theorem sched_call_spec (I : SchedI σ τ) (hQ : Quiet I) {st st' : State σ τ} {op : SOp τ} {r : Option τ}
    (hq : QuietOp op) (hi : ShutInv I st) (h : callSched I st op = .ok (st', r)) :
    ShutInv I st' ∧ (st.shuttingdown = true → st'.env = st.env) ∧ st'.shouldstop = st.shouldstop ∧
    st'.shuttingdown = st.shuttingdown := by
  obtain ⟨_, h2, h3, _⟩ := callSched_fields I h
  rcases Bool.eq_false_or_eq_true st.shuttingdown with hs | hs
  · obtain ⟨he, hi', _⟩ := callSched_quiet I hQ hq hs hi h
    exact ⟨hi', fun _ => he, h2, h3⟩
  · exact ⟨shutInv_of_false I (by rw [h3, hs]), fun hc => (by rw [hs] at hc; cases hc), h2, h3⟩

theorem crash_item_spec (I : SchedI σ τ) (hQ : Quiet I) {st st' : State σ τ} {n : Nat} {t : τ} {rq : Bool}
    (hi : ShutInv I st) (h : handleCrashItem I st n t rq = .ok st') :
    ShutInv I st' ∧ (st.shuttingdown = true → st'.env = st.env) ∧ st'.shouldstop = st.shouldstop ∧
    st'.shuttingdown = st.shuttingdown := by
  obtain ⟨h1, h2, _, _⟩ := handleCrashItem_fields I h
  rcases Bool.eq_false_or_eq_true st.shuttingdown with hs | hs
  · obtain ⟨he, hi'⟩ := handleCrashItem_quiet I hQ hs hi h
    exact ⟨hi', fun _ => he, h1, h2⟩
  · exact ⟨shutInv_of_false I (by rw [h2, hs]), fun hc => (by rw [hs] at hc; cases hc), h1, h2⟩

/-- the tail of `worker_errordown`: restart decision, then the node leaves the active set -/
theorem restart_tail_spec (I : SchedI σ τ) {st st' : State σ τ} {n : Nat} (hi : ShutInv I st)
    (h : removeActive (restartOrStop I st n) n = .ok st') :
    ShutInv I st' ∧ dispatches st'.env = dispatches st.env ∧ st'.shouldstop = st.shouldstop := by
  obtain ⟨he, hsch, hsd, hss, _⟩ := removeActive_fields h
  obtain ⟨f1, _, _, _, f5⟩ := restartOrStop_fields I st n
  have hi' := restartOrStop_shutInv I st n hi
  refine ⟨?_, by rw [he, f5], by rw [hss, f1]⟩
  intro hs m hm
  rw [he]
  rw [hsch] at hm
  exact hi' (by rw [← hsd]; exact hs) m hm

theorem errordown_spec (I : SchedI σ τ) (hQ : Quiet I) {st st' : State σ τ} {n : Nat} {rq : Bool}
    (hi : ShutInv I st) (h : errordown I st n rq = .ok st') :
    ShutInv I st' ∧ (st.shuttingdown = true → dispatches st'.env = dispatches st.env) ∧
    st'.shouldstop = st.shouldstop := by
  unfold errordown at h
  simp only at h
  have hi0 : ShutInv I ({ st with pubs := st.pubs ++ [Pub.nodedown n true] } : State σ τ) := hi
  split at h
  · obtain ⟨a, b, c⟩ := restart_tail_spec I hi0 h
    exact ⟨a, fun _ => b, c⟩
  · simp at h
  · rename_i st1 hc
    obtain ⟨a1, a2, a3, _⟩ := sched_call_spec I hQ (op := .removeNode n) trivial hi0 hc
    obtain ⟨a, b, c⟩ := restart_tail_spec I a1 h
    exact ⟨a, fun hs => by rw [b, a2 hs], by rw [c, a3]⟩
  · rename_i st1 t hc
    obtain ⟨a1, a2, a3, a4⟩ := sched_call_spec I hQ (op := .removeNode n) trivial hi0 hc
    obtain ⟨st2, h2, h3⟩ := bind_ok.1 h
    obtain ⟨b1, b2, b3, _⟩ := crash_item_spec I hQ a1 h2
    obtain ⟨a, b, c⟩ := restart_tail_spec I b1 h3
    refine ⟨a, fun hs => ?_, by rw [c, b3, a3]⟩
    rw [b, b2 (by rw [a4]; exact hs), a2 hs]

/-- what one handler guarantees, given a quiet scheduler -/
structure HandlerSpec (I : SchedI σ τ) (st st1 : State σ τ) : Prop where
  shutInv : ShutInv I st1
  quiet : st.shuttingdown = true → dispatches st1.env = dispatches st.env
  mono : st.shouldstop.isSome = true → st1.shouldstop.isSome = true
  setting : st.shouldstop = none → st1.shouldstop.isSome = true → dispatches st1.env = dispatches st.env

theorem handleFailures_fields (st : State σ τ) (f : Bool) :
    (handleFailures st f).env = st.env ∧ (handleFailures st f).sched = st.sched ∧
    (handleFailures st f).shuttingdown = st.shuttingdown ∧
    (st.shouldstop.isSome = true → (handleFailures st f).shouldstop.isSome = true) := by
  unfold handleFailures
  split
  · simp only
    split
    · simp
    · simp
  · simp

theorem workerfinished_spec (I : SchedI σ τ) (hQ : Quiet I) {st st' : State σ τ} {n x : Nat} {sf ss : Option String}
    (hi : ShutInv I st) (h : workerfinished I st n x sf ss = .ok st') : HandlerSpec I st st' := by
  unfold workerfinished at h
  split at h
  · -- keyboard interrupt: stop reason, shutdown, then the node is handled as lost
    have hts := triggerShutdown_shutInv I
      ({ st with shouldstop := some (Stop.keyboard n), pubs := st.pubs ++ [Pub.nodedown n false] } : State σ τ) hi
    have hsd := triggerShutdown_shuttingdown I
      ({ st with shouldstop := some (Stop.keyboard n), pubs := st.pubs ++ [Pub.nodedown n false] } : State σ τ)
    have hd := triggerShutdown_dispatches I
      ({ st with shouldstop := some (Stop.keyboard n), pubs := st.pubs ++ [Pub.nodedown n false] } : State σ τ)
    have hf := triggerShutdown_fields I
      ({ st with shouldstop := some (Stop.keyboard n), pubs := st.pubs ++ [Pub.nodedown n false] } : State σ τ)
    obtain ⟨a, b, c⟩ := errordown_spec I hQ hts h
    have hdis : dispatches st'.env = dispatches st.env := by rw [b hsd, hd]
    have hstop : st'.shouldstop.isSome = true := by rw [c, hf.1]; rfl
    exact ⟨a, fun _ => hdis, fun _ => hstop, fun _ _ => hdis⟩
  · simp only at h
    have hi0 : ShutInv I ({ st with pubs := st.pubs ++ [Pub.nodedown n false] } : State σ τ) := hi
    split at h
    · -- the worker ended with a fail-fast / stop request: it stays in the scheduler
      obtain ⟨he, hsch, hsd, hss, _⟩ := removeActive_fields h
      have henv : dispatches st'.env = dispatches st.env := by
        rw [he]; split <;> rfl
      refine ⟨?_, fun _ => henv, ?_, fun _ _ => henv⟩
      · intro hs m hm
        rw [he]; rw [hsch] at hm
        have hs' : st.shuttingdown = true := by
          rw [hsd] at hs
          split at hs <;> exact hs
        have := hi hs' m (by split at hm <;> exact hm)
        split <;> exact this
      · intro hsome
        rw [hss]
        split
        · rfl
        · exact hsome
    · split at h
      · split at h
        · simp at h
        · simp at h
        · rename_i st1 hc
          obtain ⟨a1, a2, a3, a4⟩ := sched_call_spec I hQ (op := .removeNode n) trivial hi0 hc
          obtain ⟨he, hsch, hsd, hss, _⟩ := removeActive_fields h
          refine ⟨?_, fun hs => by rw [he, a2 hs], fun hsome => by rw [hss, a3]; exact hsome, ?_⟩
          · intro hs m hm
            rw [he]; rw [hsch] at hm
            exact a1 (by rw [← hsd]; exact hs) m hm
          · intro hnone hsome
            rw [hss, a3] at hsome
            simp only at hsome
            rw [hnone] at hsome
            cases hsome
      · obtain ⟨he, hsch, hsd, hss, _⟩ := removeActive_fields h
        refine ⟨?_, fun _ => by rw [he], fun hsome => by rw [hss]; exact hsome, fun _ _ => by rw [he]⟩
        intro hs m hm
        rw [he]; rw [hsch] at hm
        exact hi (by rw [← hsd]; exact hs) m hm

theorem handle_spec (I : SchedI σ τ) (hQ : Quiet I) {st st' : State σ τ} {ev : Event τ}
    (hi : ShutInv I st) (h : handle I st ev = .ok st') : HandlerSpec I st st' := by
  cases ev with
  | workerready n =>
    simp only [handle] at h
    split at h
    · rename_i hs
      simp only [Except.ok.injEq] at h; subst h
      refine ⟨?_, fun _ => shutdown_dispatches _ _, fun x => x, fun _ _ => shutdown_dispatches _ _⟩
      intro _ m hm
      exact shutdown_flag_mono _ _ _ (hi hs m hm)
    · rename_i hs
      obtain ⟨a, ha, hb⟩ := map_ok.1 h
      subst hb
      obtain ⟨_, h2, h3, _⟩ := callSched_fields I (r := a.2) (show callSched I st _ = .ok (a.1, a.2) by rw [ha])
      have hsf : st.shuttingdown = false := by cases hh : st.shuttingdown <;> simp_all
      refine ⟨shutInv_of_false I (by rw [h3, hsf]), fun hc => (by rw [hsf] at hc; cases hc), fun x => (by rw [h2]; exact x), ?_⟩
      intro hn hsome; rw [h2, hn] at hsome; cases hsome
  | workerfinished n x sf ss => exact workerfinished_spec I hQ hi h
  | internalError n =>
    simp only [handle] at h
    obtain ⟨a, ha, hb⟩ := map_ok.1 h
    subst hb
    obtain ⟨he, hsch, hsd, hss, _⟩ := removeActive_fields ha
    refine ⟨?_, fun _ => (by show dispatches a.env = _; rw [he]), fun x => (by show a.shouldstop.isSome = true; rw [hss]; exact x), ?_⟩
    · intro hs m hm
      show a.env.flags.shuttingDown m = true
      rw [he]
      exact hi (by rw [← hsd]; exact hs) m (by rw [← hsch]; exact hm)
    · intro hn hsome
      have : a.shouldstop.isSome = true := hsome
      rw [hss, hn] at this; cases this
  | errordown n rq =>
    obtain ⟨a, b, c⟩ := errordown_spec I hQ hi h
    refine ⟨a, b, fun x => (by rw [c]; exact x), ?_⟩
    intro hn hsome; rw [c, hn] at hsome; cases hsome
  | collectionfinish n ids =>
    simp only [handle, collectionfinish] at h
    split at h
    · simp only [Except.ok.injEq] at h; subst h
      exact ⟨hi, fun _ => rfl, fun x => x, fun _ _ => rfl⟩
    · rename_i hs
      have hsf : st.shuttingdown = false := by cases hh : st.shuttingdown <;> simp_all
      split at h
      · simp only [Except.ok.injEq] at h; subst h
        exact ⟨hi, fun _ => rfl, fun x => x, fun _ _ => rfl⟩
      · obtain ⟨r, hr, h2⟩ := bind_ok.1 h
        obtain ⟨_, a2, a3, _⟩ := callSched_fields I (r := r.2) (show callSched I st _ = .ok (r.1, r.2) by rw [hr])
        split at h2
        · obtain ⟨a, ha, hb⟩ := map_ok.1 h2
          subst hb
          obtain ⟨_, b2, b3, _⟩ := callSched_fields I (r := a.2) (show callSched I r.1 _ = .ok (a.1, a.2) by rw [ha])
          refine ⟨shutInv_of_false I (by rw [b3, a3, hsf]), fun hc => (by rw [hsf] at hc; cases hc),
            fun x => (by rw [b2, a2]; exact x), ?_⟩
          intro hn hsome; rw [b2, a2, hn] at hsome; cases hsome
        · simp only [Except.ok.injEq] at h2; subst h2
          refine ⟨shutInv_of_false I (by rw [a3, hsf]), fun hc => (by rw [hsf] at hc; cases hc),
            fun x => (by rw [a2]; exact x), ?_⟩
          intro hn hsome; rw [a2, hn] at hsome; cases hsome
  | testreport n failed =>
    simp only [handle, Except.ok.injEq] at h
    subst h
    obtain ⟨f1, f2, f3, f4⟩ := handleFailures_fields ({ st with pubs := st.pubs ++ [Pub.report n failed] } : State σ τ) failed
    refine ⟨?_, fun _ => (by rw [f1]), f4, fun _ _ => by rw [f1]⟩
    intro hs m hm
    rw [f1]; rw [f2] at hm
    exact hi (by rw [← f3]; exact hs) m hm
  | complete n i slow =>
    simp only [handle] at h
    obtain ⟨a, ha, hb⟩ := map_ok.1 h
    subst hb
    obtain ⟨a1, a2, a3, _⟩ := sched_call_spec I hQ (op := .markComplete n i slow) (r := a.2) trivial hi
      (show callSched I st _ = .ok (a.1, a.2) by rw [ha])
    refine ⟨a1, fun hs => (by rw [a2 hs]), fun x => (by rw [a3]; exact x), ?_⟩
    intro hn hsome; rw [a3, hn] at hsome; cases hsome
  | unscheduled n is =>
    simp only [handle] at h
    obtain ⟨a, ha, hb⟩ := map_ok.1 h
    subst hb
    obtain ⟨a1, a2, a3, _⟩ := sched_call_spec I hQ (op := .removePending n is) (r := a.2) trivial hi
      (show callSched I st _ = .ok (a.1, a.2) by rw [ha])
    refine ⟨a1, fun hs => (by rw [a2 hs]), fun x => (by rw [a3]; exact x), ?_⟩
    intro hn hsome; rw [a3, hn] at hsome; cases hsome
  | collectreport n key failed =>
    simp only [handle] at h
    split at h
    · simp only [Except.ok.injEq] at h; subst h
      exact ⟨hi, fun _ => rfl, fun x => x, fun _ _ => rfl⟩
    · simp only [Except.ok.injEq] at h; subst h
      obtain ⟨f1, f2, f3, f4⟩ := handleFailures_fields
        ({ st with seenCollect := st.seenCollect ++ [key], pubs := st.pubs ++ [Pub.collect key] } : State σ τ) failed
      refine ⟨?_, fun _ => (by rw [f1]), f4, fun _ _ => by rw [f1]⟩
      intro hs m hm
      rw [f1]; rw [f2] at hm
      exact hi (by rw [← f3]; exact hs) m hm
  | other =>
    simp only [handle, Except.ok.injEq] at h; subst h
    exact ⟨hi, fun _ => rfl, fun x => x, fun _ _ => rfl⟩

/-! ### the loop -/

theorem afterHandler_spec (I : SchedI σ τ) (st : State σ τ) (hi : ShutInv I st) :
    ShutInv I (afterHandler I st) ∧ dispatches (afterHandler I st).env = dispatches st.env ∧
    (afterHandler I st).shouldstop = st.shouldstop ∧
    (st.shouldstop.isSome = true → (afterHandler I st).shuttingdown = true) := by
  unfold afterHandler
  simp only
  split
  · have h1 := triggerShutdown_shutInv I st hi
    have f1 := triggerShutdown_fields I st
    split
    · have f2 := triggerShutdown_fields I (triggerShutdown I st)
      exact ⟨triggerShutdown_shutInv I _ h1, by rw [triggerShutdown_dispatches, triggerShutdown_dispatches],
        by rw [f2.1, f1.1], fun _ => triggerShutdown_shuttingdown I _⟩
    · rename_i hns
      exact ⟨h1, triggerShutdown_dispatches I st, f1.1, fun hs => (by rw [f1.1] at hns; exact absurd hs hns)⟩
  · split
    · exact ⟨triggerShutdown_shutInv I st hi, triggerShutdown_dispatches I st, (triggerShutdown_fields I st).1,
        fun _ => triggerShutdown_shuttingdown I st⟩
    · rename_i hns
      exact ⟨hi, rfl, rfl, fun hs => absurd hs hns⟩

/-- everything one loop iteration guarantees about stopping -/
structure LoopSpec (I : SchedI σ τ) (st st' : State σ τ) : Prop where
  shutInv : ShutInv I st'
  /-- while a shutdown is in force the iteration dispatches nothing -/
  quiet : st.shuttingdown = true → dispatches st'.env = dispatches st.env
  /-- a stop reason stays -/
  mono : st.shouldstop.isSome = true → st'.shouldstop.isSome = true
  /-- the iteration that sets the stop reason dispatches nothing -/
  setting : st.shouldstop = none → st'.shouldstop.isSome = true → dispatches st'.env = dispatches st.env
  /-- with a stop reason set, every iteration ends with the shutdown in force -/
  stopped : st'.shouldstop.isSome = true → st'.shuttingdown = true

theorem loopOnce_spec (I : SchedI σ τ) (hQ : Quiet I) {st st' : State σ τ} {ev : Event τ}
    (hi : ShutInv I st) (h : loopOnce I st ev = .ok st') : LoopSpec I st st' := by
  unfold loopOnce at h
  split at h
  · simp at h
  · obtain ⟨a, ha, hb⟩ := map_ok.1 h
    subst hb
    obtain ⟨s1, s2, s3, s4⟩ := handle_spec I hQ hi ha
    obtain ⟨a1, a2, a3, a4⟩ := afterHandler_spec I a s1
    exact ⟨a1, fun hs => (by rw [a2, s2 hs]), fun x => (by rw [a3]; exact s3 x),
      fun hn hsome => by rw [a2]; exact s4 hn (by rw [← a3]; exact hsome),
      fun hsome => a4 (by rw [← a3]; exact hsome)⟩

/-- **Once a stop condition has been met, nothing is dispatched any more**, however many events follow (workers that
    become ready, finish or crash after the decision included). -/
theorem runLoop_no_dispatch_after_stop (I : SchedI σ τ) (hQ : Quiet I) (evs : List (Event τ)) {st st' : State σ τ}
    (hi : ShutInv I st) (hstop : st.shouldstop.isSome = true) (hsd : st.shuttingdown = true)
    (h : runLoop I st evs = .ok st') :
    dispatches st'.env = dispatches st.env ∧ st'.shouldstop.isSome = true ∧ st'.shuttingdown = true := by
  induction evs generalizing st with
  | nil => simp only [runLoop, Except.ok.injEq] at h; subst h; exact ⟨rfl, hstop, hsd⟩
  | cons ev rest ih =>
    simp only [runLoop] at h
    split at h
    · simp only [Except.ok.injEq] at h; subst h; exact ⟨rfl, hstop, hsd⟩
    · split at h
      · simp at h
      · rename_i st1 h1
        have sp := loopOnce_spec I hQ hi h1
        obtain ⟨r1, r2, r3⟩ := ih sp.shutInv (sp.mono hstop) (sp.stopped (sp.mono hstop)) h
        exact ⟨by rw [r1, sp.quiet hsd], r2, r3⟩

theorem init_shutInv (I : SchedI σ τ) (s0 : σ) (k mf : Nat) (mr : Option Int) : ShutInv I (init I s0 k mf mr) := by
  intro hs; simp [init] at hs

theorem runLoop_shutInv (I : SchedI σ τ) (hQ : Quiet I) (evs : List (Event τ)) {st st' : State σ τ}
    (hi : ShutInv I st) (h : runLoop I st evs = .ok st') : ShutInv I st' := by
  induction evs generalizing st with
  | nil => simp only [runLoop, Except.ok.injEq] at h; subst h; exact hi
  | cons ev rest ih =>
    simp only [runLoop] at h
    split at h
    · simp only [Except.ok.injEq] at h; subst h; exact hi
    · split at h
      · simp at h
      · rename_i st1 h1
        exact ih (loopOnce_spec I hQ hi h1).shutInv h

end Xdist.Ctl
