import XdistModel.Ctl.Receiver
/-! What the receiver thread posts: exactly the worker's events up to its first terminating message, in order, once. -/
namespace Xdist.Receiver

variable {α : Type}

/-- messages after which the worker is `_down` for the controller -/
def isTerminal : Msg α → Bool
  | .workerfinished _ => true
  | .garbage => true
  | .endMarker => true
  | _ => false

/-- what a live receiver posts for one message -/
def postOf : Msg α → List (Post α)
  | .event n p => [.event n p]
  | .ignored => []
  | .workerfinished p => [.workerfinished p]
  | .garbage => [.errordown]
  | .endMarker => [.errordown]

theorem step_down (st : State) (h : st.down = true) (m : Msg α) : step st m = (st, [], false) := by
  cases m <;> simp [step, h]

theorem run_down (st : State) (h : st.down = true) (ms : List (Msg α)) : run st ms = (st, []) := by
  induction ms with
  | nil => rfl
  | cons m rest ih => simp [run, step_down st h m, ih]

theorem step_live (st : State) (h : st.down = false) (m : Msg α) :
    (step st m).2.1 = postOf m ∧ ((step st m).1.down = isTerminal m) := by
  cases m <;> simp [step, h, postOf, isTerminal]

theorem run_live (st : State) (h : st.down = false) (ms : List (Msg α)) :
    (run st ms).2 = (ms.takeWhile (fun m => !isTerminal m)).flatMap postOf ++
      (match ms.find? isTerminal with | some m => postOf m | none => []) := by
  induction ms generalizing st with
  | nil => rfl
  | cons m rest ih =>
    obtain ⟨h1, h2⟩ := step_live st h m
    simp only [run]
    by_cases ht : isTerminal m = true
    · have hd : (step st m).1.down = true := by rw [h2, ht]
      rw [run_down _ hd rest]
      simp [List.takeWhile, List.find?, ht, h1]
    · have ht' : isTerminal m = false := by cases hh : isTerminal m <;> simp_all
      have hd : (step st m).1.down = false := by rw [h2, ht']
      rw [ih _ hd]
      simp [List.takeWhile, List.find?, ht', h1, List.flatMap_cons, List.append_assoc]

end Xdist.Receiver
