import XdistProofs.Ctl.Stop
/-!
  One iteration of the controller loop, seen from the scheduler and the wire: it is a short sequence of *atoms* — scheduler
  calls determined by the event, and shutdown signals — and nothing else touches the scheduler state or the wire.
  Everything that relates the state before and after an iteration (book/wire accounting, invariants) is then an induction
  over that sequence.
-/
namespace Xdist.Ctl
open Xdist

variable {σ τ : Type}

inductive Atom (τ : Type) where
  | call (op : SOp τ)
  | shut (n : Nat)

/-- executing a sequence of atoms from `(s, e)` ends in `(s', e')` -/
inductive Steps (I : SchedI σ τ) : σ → Env → List (Atom τ) → σ → Env → Prop where
  | nil (s : σ) (e : Env) : Steps I s e [] s e
  | call {s : σ} {e : Env} {op : SOp τ} {s1 : σ} {e1 : Env} {r : Option τ} {as : List (Atom τ)} {s2 : σ} {e2 : Env}
      (h : I.step s e op = .ok (s1, e1, r)) (t : Steps I s1 e1 as s2 e2) : Steps I s e (.call op :: as) s2 e2
  | shut {s : σ} {e : Env} {as : List (Atom τ)} {s2 : σ} {e2 : Env} (n : Nat)
      (t : Steps I s (e.shutdown n) as s2 e2) : Steps I s e (.shut n :: as) s2 e2

/-- a list of shutdown signals, all addressed to nodes satisfying `K` -/
def AllShut (K : Nat → Prop) (as : List (Atom τ)) : Prop := ∀ a ∈ as, ∃ n, a = Atom.shut n ∧ K n

theorem allShut_nil {K : Nat → Prop} : AllShut K ([] : List (Atom τ)) := by intro a ha; simp at ha

theorem allShut_append {K : Nat → Prop} {as bs : List (Atom τ)} (ha : AllShut K as) (hb : AllShut K bs) : AllShut K (as ++ bs) := by
  intro a h
  rcases List.mem_append.1 h with h | h
  · exact ha a h
  · exact hb a h

theorem allShut_cons {K : Nat → Prop} {n : Nat} {as : List (Atom τ)} (hn : K n) (ha : AllShut K as) : AllShut K (Atom.shut n :: as) := by
  intro a h
  rcases List.mem_cons.1 h with h | h
  · exact ⟨n, h, hn⟩
  · exact ha a h

theorem AllShut.mono {K K' : Nat → Prop} {as : List (Atom τ)} (h : AllShut K as) (hk : ∀ n, K n → K' n) : AllShut K' as := by
  intro a ha
  obtain ⟨n, h1, h2⟩ := h a ha
  exact ⟨n, h1, hk n h2⟩

variable {I : SchedI σ τ}

theorem Steps.append {s s1 s2 : σ} {e e1 e2 : Env} {as bs : List (Atom τ)}
    (a : Steps I s e as s1 e1) (b : Steps I s1 e1 bs s2 e2) : Steps I s e (as ++ bs) s2 e2 := by
  induction a with
  | nil => exact b
  | call h _ ih => exact Steps.call h (ih b)
  | shut n _ ih => exact Steps.shut n (ih b)

theorem steps_shutdownAll (s : σ) (e : Env) (ns : List Nat) :
    Steps I s e (ns.map Atom.shut) s (e.shutdownAll ns) ∧ AllShut (· ∈ ns) (ns.map (Atom.shut (τ := τ))) := by
  induction ns generalizing e with
  | nil => exact ⟨Steps.nil s e, allShut_nil⟩
  | cons n t ih =>
    obtain ⟨i1, i2⟩ := ih (e.shutdown n)
    exact ⟨Steps.shut n i1, allShut_cons (by simp) (i2.mono (fun m hm => by simp [hm]))⟩

theorem steps_triggerShutdown (st : State σ τ) :
    ∃ as, AllShut (· ∈ I.nodes st.sched) as ∧ Steps I st.sched st.env as (triggerShutdown I st).sched (triggerShutdown I st).env := by
  unfold triggerShutdown
  split
  · exact ⟨[], allShut_nil, Steps.nil _ _⟩
  · obtain ⟨i1, i2⟩ := steps_shutdownAll (I := I) st.sched st.env (I.nodes st.sched)
    exact ⟨_, i2, i1⟩

theorem steps_callSched {st st' : State σ τ} {op : SOp τ} {r : Option τ} (h : callSched I st op = .ok (st', r)) :
    Steps I st.sched st.env [Atom.call op] st'.sched st'.env :=
  Steps.call (callSched_fields I h).1 (Steps.nil _ _)

theorem steps_restartOrStop (st : State σ τ) (n : Nat) :
    ∃ as, AllShut (· ∈ I.nodes st.sched) as ∧ Steps I st.sched st.env as (restartOrStop I st n).sched (restartOrStop I st n).env := by
  rcases restartOrStop_cases I st n with ⟨b, hh⟩ | hh
  · rw [hh]
    exact steps_triggerShutdown (I := I)
      ({ st with failedNodes := st.failedNodes + 1
                 summary := some (if b = 0 then Summary.disabled n else Summary.maximum b) } : State σ τ)
  · rw [hh]; exact ⟨[], allShut_nil, Steps.nil _ _⟩

theorem steps_removeActive {s : σ} {e : Env} {as : List (Atom τ)} {st st' : State σ τ} {n : Nat}
    (h : Steps I s e as st.sched st.env) (hr : removeActive st n = .ok st') : Steps I s e as st'.sched st'.env := by
  obtain ⟨he, hs, _⟩ := removeActive_fields hr
  rw [he, hs]; exact h

theorem afterHandler_sched' (I : SchedI σ τ) (st : State σ τ) : (afterHandler I st).sched = st.sched := by
  unfold afterHandler
  simp only
  split <;> split <;> simp [(triggerShutdown_fields I _).2.1]

theorem steps_afterHandler (st : State σ τ) :
    ∃ as, AllShut (· ∈ I.nodes st.sched) as ∧ Steps I st.sched st.env as (afterHandler I st).sched (afterHandler I st).env := by
  unfold afterHandler
  simp only
  split
  · split
    · obtain ⟨a1, h1, s1⟩ := steps_triggerShutdown (I := I) st
      obtain ⟨a2, h2, s2⟩ := steps_triggerShutdown (I := I) (triggerShutdown I st)
      rw [(triggerShutdown_fields I st).2.1] at h2
      exact ⟨a1 ++ a2, allShut_append h1 h2, s1.append s2⟩
    · exact steps_triggerShutdown st
  · split
    · exact steps_triggerShutdown st
    · exact ⟨[], allShut_nil, Steps.nil _ _⟩

/-- the atoms of `worker_errordown` -/
theorem steps_errordown {st st' : State σ τ} {n : Nat} {rq : Bool} (he : errordown I st n rq = .ok st') :
    ∃ as t, AllShut (· ∈ I.nodes st'.sched) t ∧ Steps I st.sched st.env as st'.sched st'.env ∧
      (as = t ∨ as = Atom.call (.removeNode n) :: t ∨ ∃ x, rq = true ∧ as = Atom.call (.removeNode n) :: Atom.call (.markPending x) :: t) := by
  unfold errordown at he
  simp only at he
  split at he
  · -- KeyError swallowed
    obtain ⟨t, ht, hs⟩ := steps_restartOrStop (I := I) ({ st with pubs := st.pubs ++ [Pub.nodedown n true] } : State σ τ) n
    have hsch : st'.sched = st.sched := by
      rw [(removeActive_fields he).2.1, (restartOrStop_fields I _ n).2.1]
    exact ⟨t, t, by rw [hsch]; exact ht, steps_removeActive hs he, Or.inl rfl⟩
  · simp at he
  · rename_i st1 hc
    obtain ⟨t, ht, hs⟩ := steps_restartOrStop (I := I) st1 n
    have h1 := steps_callSched hc
    have hsch : st'.sched = st1.sched := by
      rw [(removeActive_fields he).2.1, (restartOrStop_fields I _ n).2.1]
    exact ⟨_, t, by rw [hsch]; exact ht, steps_removeActive (h1.append hs) he, Or.inr (Or.inl rfl)⟩
  · rename_i st1 x hc
    obtain ⟨st2, h2, h3⟩ := bind_ok.1 he
    have h1 := steps_callSched hc
    obtain ⟨t, ht, hs⟩ := steps_restartOrStop (I := I) st2 n
    have hsch : st'.sched = st2.sched := by
      rw [(removeActive_fields h3).2.1, (restartOrStop_fields I _ n).2.1]
    unfold handleCrashItem at h2
    obtain ⟨st3, h4, h5⟩ := map_ok.1 h2
    subst h5
    split at h4
    · rename_i hrq
      obtain ⟨a, ha, hb⟩ := map_ok.1 h4
      subst hb
      have h6 := steps_callSched (I := I) (show callSched I st1 (.markPending x) = .ok (a.1, a.2) by rw [ha])
      exact ⟨_, t, by rw [hsch]; exact ht, steps_removeActive ((h1.append h6).append hs) h3, Or.inr (Or.inr ⟨x, hrq, rfl⟩)⟩
    · simp only [Except.ok.injEq] at h4; subst h4
      exact ⟨_, t, by rw [hsch]; exact ht, steps_removeActive (h1.append hs) h3, Or.inr (Or.inl rfl)⟩

/-- whom the shutdown signals of an iteration are addressed to: scheduler nodes, or the worker that has just reported ready
    while the session is shutting down -/
def TgtK (I : SchedI σ τ) (st st' : State σ τ) (ev : Event τ) (n : Nat) : Prop :=
  n ∈ I.nodes st.sched ∨ n ∈ I.nodes st'.sched ∨ ev = .workerready n

/-- the scheduler calls an event leads to, in order, between shutdown signals -/
def Shape (I : SchedI σ τ) (st st' : State σ τ) (ev : Event τ) (as : List (Atom τ)) : Prop :=
  match ev with
  | .workerready n => ∃ t, AllShut (TgtK I st st' ev) t ∧
      ((st.shuttingdown = true ∧ as = Atom.shut n :: t) ∨ (st.shuttingdown = false ∧ as = Atom.call (.addNode n) :: t))
  | .complete n i slow => ∃ t, AllShut (TgtK I st st' ev) t ∧ as = Atom.call (.markComplete n i slow) :: t
  | .unscheduled n is => ∃ t, AllShut (TgtK I st st' ev) t ∧ as = Atom.call (.removePending n is) :: t
  | .collectionfinish n ids => ∃ t, AllShut (TgtK I st st' ev) t ∧
      (((st.shuttingdown = true ∨ n ∉ I.nodes st.sched) ∧ as = t) ∨
       (st.shuttingdown = false ∧ n ∈ I.nodes st.sched ∧ I.collectionIsCompleted st'.sched = false ∧
          as = Atom.call (.addNodeCollection n ids) :: t) ∨
       (st.shuttingdown = false ∧ n ∈ I.nodes st.sched ∧
          as = Atom.call (.addNodeCollection n ids) :: Atom.call .schedule :: t))
  | .errordown n rq => ∃ t, AllShut (TgtK I st st' ev) t ∧
      (as = t ∨ as = Atom.call (.removeNode n) :: t ∨
        ∃ x, rq = true ∧ as = Atom.call (.removeNode n) :: Atom.call (.markPending x) :: t)
  | .workerfinished n _ _ _ => ∃ t0 t, AllShut (TgtK I st st' ev) t0 ∧ AllShut (TgtK I st st' ev) t ∧
      (as = t0 ++ t ∨ as = t0 ++ Atom.call (.removeNode n) :: t)
  | _ => AllShut (TgtK I st st' ev) as

/-- **One loop iteration is a sequence of atoms whose scheduler calls are determined by the event.** -/
theorem loopOnce_steps {st st' : State σ τ} {ev : Event τ} (h : loopOnce I st ev = .ok st') :
    ∃ as, Steps I st.sched st.env as st'.sched st'.env ∧ Shape I st st' ev as := by
  unfold loopOnce at h
  split at h
  · simp at h
  obtain ⟨a, ha, hb⟩ := map_ok.1 h
  subst hb
  obtain ⟨ta, hta0, sa⟩ := steps_afterHandler (I := I) a
  have hfin : (afterHandler I a).sched = a.sched := afterHandler_sched' I a
  -- shutdown signals addressed to nodes of the final scheduler state
  have liftK : ∀ {t : List (Atom τ)}, AllShut (· ∈ I.nodes a.sched) t → AllShut (TgtK I st (afterHandler I a) ev) t :=
    fun ht => ht.mono (fun n hn => Or.inr (Or.inl (by rw [hfin]; exact hn)))
  have liftK0 : ∀ {t : List (Atom τ)}, AllShut (· ∈ I.nodes st.sched) t → AllShut (TgtK I st (afterHandler I a) ev) t :=
    fun ht => ht.mono (fun n hn => Or.inl hn)
  have hta := liftK hta0
  cases ev with
  | workerready n =>
    simp only [handle] at ha
    split at ha
    · rename_i hsd
      simp only [Except.ok.injEq] at ha; subst ha
      exact ⟨Atom.shut n :: ta, Steps.shut n sa, ta, hta, Or.inl ⟨hsd, rfl⟩⟩
    · rename_i hsd
      obtain ⟨b, hb1, hb2⟩ := map_ok.1 ha
      subst hb2
      have h1 := steps_callSched (I := I) (show callSched I st (.addNode n) = .ok (b.1, b.2) by rw [hb1])
      exact ⟨_, h1.append sa, ta, hta, Or.inr ⟨by cases hh : st.shuttingdown <;> simp_all, rfl⟩⟩
  | workerfinished n x sf ss =>
    simp only [handle] at ha
    unfold workerfinished at ha
    split at ha
    · dsimp only at ha
      obtain ⟨t0, ht0, s0⟩ := steps_triggerShutdown (I := I)
        ({ st with shouldstop := some (Stop.keyboard n), pubs := st.pubs ++ [Pub.nodedown n false] } : State σ τ)
      obtain ⟨as, t, ht, hs, hshape⟩ := steps_errordown ha
      refine ⟨t0 ++ as ++ ta, (s0.append hs).append sa, t0, t ++ ta, liftK0 ht0, allShut_append (liftK ht) hta, ?_⟩
      rcases hshape with rfl | rfl | ⟨x, hx, _⟩
      · left; simp
      · right; simp
      · cases hx
    · simp only at ha
      split at ha
      · have hs := steps_removeActive (I := I) (s := st.sched) (e := st.env) (as := [])
          (st := (if st.shouldstop.isNone = true then
            { st with pubs := st.pubs ++ [Pub.nodedown n false], shouldstop := some (Stop.worker _) }
          else { st with pubs := st.pubs ++ [Pub.nodedown n false] })) (by split <;> exact Steps.nil _ _) ha
        exact ⟨[] ++ ta, hs.append sa, [], ta, allShut_nil, hta, Or.inl rfl⟩
      · split at ha
        · split at ha
          · simp at ha
          · simp at ha
          · rename_i st1 hc
            have h1 := steps_callSched (I := I) hc
            have hs := steps_removeActive h1 ha
            exact ⟨_, hs.append sa, [], ta, allShut_nil, hta, Or.inr rfl⟩
        · have hs := steps_removeActive (I := I) (s := st.sched) (e := st.env) (as := [])
            (st := { st with pubs := st.pubs ++ [Pub.nodedown n false] }) (Steps.nil _ _) ha
          exact ⟨[] ++ ta, hs.append sa, [], ta, allShut_nil, hta, Or.inl rfl⟩
  | internalError n =>
    simp only [handle] at ha
    obtain ⟨b, hb1, hb2⟩ := map_ok.1 ha
    subst hb2
    have hs := steps_removeActive (I := I) (Steps.nil st.sched st.env) hb1
    exact ⟨[] ++ ta, Steps.append (by exact hs) sa, by simpa [Shape] using hta⟩
  | errordown n rq =>
    simp only [handle] at ha
    obtain ⟨as, t, ht, hs, hshape⟩ := steps_errordown ha
    refine ⟨as ++ ta, hs.append sa, t ++ ta, allShut_append (liftK ht) hta, ?_⟩
    rcases hshape with rfl | rfl | ⟨x, hx, rfl⟩
    · left; rfl
    · right; left; simp
    · right; right; exact ⟨x, hx, by simp⟩
  | collectionfinish n ids =>
    simp only [handle, collectionfinish] at ha
    split at ha
    · rename_i hsd
      simp only [Except.ok.injEq] at ha; subst ha
      exact ⟨ta, sa, ta, hta, Or.inl ⟨Or.inl hsd, rfl⟩⟩
    · rename_i hsd
      have hsd' : st.shuttingdown = false := by cases hh : st.shuttingdown <;> simp_all
      split at ha
      · rename_i hn
        simp only [Except.ok.injEq] at ha; subst ha
        exact ⟨ta, sa, ta, hta, Or.inl ⟨Or.inr hn, rfl⟩⟩
      · rename_i hn
        have hn' : n ∈ I.nodes st.sched := by
          cases hd : decide (n ∈ I.nodes st.sched) <;> simp_all
        obtain ⟨r, hr, h2⟩ := bind_ok.1 ha
        have h1 := steps_callSched (I := I) (show callSched I st (.addNodeCollection n ids) = .ok (r.1, r.2) by rw [hr])
        split at h2
        · obtain ⟨b, hb1, hb2⟩ := map_ok.1 h2
          subst hb2
          have h3 := steps_callSched (I := I) (show callSched I r.1 .schedule = .ok (b.1, b.2) by rw [hb1])
          exact ⟨_, (h1.append h3).append sa, ta, hta, Or.inr (Or.inr ⟨hsd', hn', rfl⟩)⟩
        · rename_i hcomp
          simp only [Except.ok.injEq] at h2; subst h2
          refine ⟨_, h1.append sa, ta, hta, Or.inr (Or.inl ⟨hsd', hn', ?_, rfl⟩)⟩
          rw [afterHandler_sched']
          cases hh : I.collectionIsCompleted r.1.sched <;> simp_all
  | testreport n failed =>
    simp only [handle, Except.ok.injEq] at ha
    subst ha
    obtain ⟨f1, f2, _⟩ := handleFailures_fields ({ st with pubs := st.pubs ++ [Pub.report n failed] } : State σ τ) failed
    refine ⟨ta, ?_, by simpa [Shape] using hta⟩
    rw [f1, f2] at sa; exact sa
  | complete n i slow =>
    simp only [handle] at ha
    obtain ⟨b, hb1, hb2⟩ := map_ok.1 ha
    subst hb2
    have h1 := steps_callSched (I := I) (show callSched I st (.markComplete n i slow) = .ok (b.1, b.2) by rw [hb1])
    exact ⟨_, h1.append sa, ta, hta, rfl⟩
  | unscheduled n is =>
    simp only [handle] at ha
    obtain ⟨b, hb1, hb2⟩ := map_ok.1 ha
    subst hb2
    have h1 := steps_callSched (I := I) (show callSched I st (.removePending n is) = .ok (b.1, b.2) by rw [hb1])
    exact ⟨_, h1.append sa, ta, hta, rfl⟩
  | collectreport n key failed =>
    simp only [handle] at ha
    split at ha
    · simp only [Except.ok.injEq] at ha; subst ha
      exact ⟨ta, sa, by simpa [Shape] using hta⟩
    · simp only [Except.ok.injEq] at ha; subst ha
      obtain ⟨f1, f2, _⟩ := handleFailures_fields
        ({ st with seenCollect := st.seenCollect ++ [key], pubs := st.pubs ++ [Pub.collect key] } : State σ τ) failed
      refine ⟨ta, ?_, by simpa [Shape] using hta⟩
      rw [f1, f2] at sa; exact sa
  | other =>
    simp only [handle, Except.ok.injEq] at ha; subst ha
    exact ⟨ta, sa, by simpa [Shape] using hta⟩

end Xdist.Ctl
