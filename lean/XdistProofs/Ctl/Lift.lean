import XdistProofs.Ctl.Stop
/-!
  Lifting scheduler invariants to the controller: a predicate on (scheduler state, wire/flags) that every scheduler call
  preserves — under a side condition on steal answers — and that `WorkerController.shutdown` preserves, holds after every
  iteration of the `DSession` loop, for every sequence of events.
-/
namespace Xdist.Ctl
open Xdist

variable {σ τ : Type}

/-- `P` is kept by the scheduler (`Ok` is the side condition on the call) and by the shutdown signal -/
structure SchedInv (I : SchedI σ τ) (P : σ → Env → Prop) (Ok : σ → SOp τ → Prop) : Prop where
  step : ∀ {s e op s' e' r}, P s e → Ok s op → I.step s e op = .ok (s', e', r) → P s' e'
  shutdown : ∀ {s e} (n : Nat), P s e → P s (e.shutdown n)
  /-- `worker_collectionfinish`: registering a collection and — when the collection is then complete — the `schedule()` call
      that follows in the same handler are one step for the invariant -/
  collect : ∀ {s e n c s1 e1 r1}, P s e → I.step s e (.addNodeCollection n c) = .ok (s1, e1, r1) →
    (I.collectionIsCompleted s1 = false → P s1 e1) ∧
    (∀ {s2 e2 r2}, I.collectionIsCompleted s1 = true → I.step s1 e1 .schedule = .ok (s2, e2, r2) → P s2 e2)
  /-- only steal answers and the registration of a new worker carry a side condition -/
  free : ∀ s op, (∀ n is, op ≠ .removePending n is) → (∀ n, op ≠ .addNode n) → (∀ n c, op ≠ .addNodeCollection n c) →
    op ≠ .schedule → Ok s op

/-- an invariant kept by every single call under a side condition that only steal answers carry -/
theorem SchedInv.ofStep {I : SchedI σ τ} {P : σ → Env → Prop} {Ok : σ → SOp τ → Prop}
    (step : ∀ {s e op s' e' r}, P s e → Ok s op → I.step s e op = .ok (s', e', r) → P s' e')
    (shutdown : ∀ {s e} (n : Nat), P s e → P s (e.shutdown n))
    (free : ∀ s op, (∀ n is, op ≠ .removePending n is) → Ok s op) : SchedInv I P Ok :=
  { step := step, shutdown := shutdown
    collect := by
      intro s e n c s1 e1 r1 hp h1
      have p1 := step hp (free _ _ (by intro a b hh; cases hh)) h1
      exact ⟨fun _ => p1, fun _ h2 => step p1 (free _ _ (by intro a b hh; cases hh)) h2⟩
    free := fun s op h _ _ _ => free s op h }

/-- the side condition of an event: a steal answer must be legal in the state in which it is processed, a worker that
    reports ready must be a new one -/
def EvOk (Ok : σ → SOp τ → Prop) (st : State σ τ) : Event τ → Prop
  | .unscheduled n is => Ok st.sched (.removePending n is)
  | .workerready n => Ok st.sched (.addNode n)
  | _ => True

variable {I : SchedI σ τ} {P : σ → Env → Prop} {Ok : σ → SOp τ → Prop}

theorem lift_shutdownAll (h : SchedInv I P Ok) {s : σ} {e : Env} (ns : List Nat) (hp : P s e) : P s (e.shutdownAll ns) := by
  induction ns generalizing e with
  | nil => exact hp
  | cons n t ih => simp only [Env.shutdownAll]; exact ih (h.shutdown n hp)

theorem lift_triggerShutdown (h : SchedInv I P Ok) (st : State σ τ) (hp : P st.sched st.env) :
    P (triggerShutdown I st).sched (triggerShutdown I st).env := by
  unfold triggerShutdown
  split
  · exact hp
  · exact lift_shutdownAll h _ hp

theorem lift_callSched (h : SchedInv I P Ok) {st st' : State σ τ} {op : SOp τ} {r : Option τ}
    (hp : P st.sched st.env) (hok : Ok st.sched op) (hc : callSched I st op = .ok (st', r)) : P st'.sched st'.env :=
  h.step hp hok (callSched_fields I hc).1

theorem lift_handleCrashItem (h : SchedInv I P Ok) {st st' : State σ τ} {n : Nat} {t : τ} {rq : Bool}
    (hp : P st.sched st.env) (hc : handleCrashItem I st n t rq = .ok st') : P st'.sched st'.env := by
  unfold handleCrashItem at hc
  obtain ⟨st1, h1, h2⟩ := map_ok.1 hc
  subst h2
  split at h1
  · obtain ⟨a, ha, hb⟩ := map_ok.1 h1
    subst hb
    have := lift_callSched (st' := a.1) h hp (h.free _ (.markPending t) (by intro n is hh; cases hh) (by intro n hh; cases hh) (by intro n c hh; cases hh) (by intro hh; cases hh))
      (show callSched I st _ = .ok (a.1, a.2) by rw [ha])
    exact this
  · simp only [Except.ok.injEq] at h1; subst h1; exact hp

theorem lift_restartOrStop (h : SchedInv I P Ok) (st : State σ τ) (n : Nat) (hp : P st.sched st.env) :
    P (restartOrStop I st n).sched (restartOrStop I st n).env := by
  rcases restartOrStop_cases I st n with ⟨b, hh⟩ | hh
  · rw [hh]; exact lift_triggerShutdown h _ hp
  · rw [hh]; exact hp

theorem lift_removeActive {st st' : State σ τ} {n : Nat} (hp : P st.sched st.env) (hr : removeActive st n = .ok st') :
    P st'.sched st'.env := by
  obtain ⟨he, hs, _⟩ := removeActive_fields hr
  rw [he, hs]; exact hp

theorem lift_errordown (h : SchedInv I P Ok) {st st' : State σ τ} {n : Nat} {rq : Bool}
    (hp : P st.sched st.env) (he : errordown I st n rq = .ok st') : P st'.sched st'.env := by
  unfold errordown at he
  simp only at he
  have hp0 : P ({ st with pubs := st.pubs ++ [Pub.nodedown n true] } : State σ τ).sched
      ({ st with pubs := st.pubs ++ [Pub.nodedown n true] } : State σ τ).env := hp
  have free : ∀ s : σ, Ok s (.removeNode n) := fun s => h.free s (.removeNode n) (by intro a b hh; cases hh) (by intro a hh; cases hh) (by intro a b hh; cases hh) (by intro hh; cases hh)
  split at he
  · exact lift_removeActive (lift_restartOrStop h _ n hp0) he
  · simp at he
  · rename_i st1 hc
    exact lift_removeActive (lift_restartOrStop h _ n (lift_callSched h hp0 (free _) hc)) he
  · rename_i st1 t hc
    obtain ⟨st2, h2, h3⟩ := bind_ok.1 he
    exact lift_removeActive (lift_restartOrStop h _ n (lift_handleCrashItem h (lift_callSched h hp0 (free _) hc) h2)) h3

theorem lift_handle (h : SchedInv I P Ok) {st st' : State σ τ} {ev : Event τ}
    (hp : P st.sched st.env) (hok : EvOk Ok st ev) (he : handle I st ev = .ok st') : P st'.sched st'.env := by
  cases ev with
  | workerready n =>
    simp only [handle] at he
    split at he
    · simp only [Except.ok.injEq] at he; subst he; exact h.shutdown n hp
    · obtain ⟨a, ha, hb⟩ := map_ok.1 he
      subst hb
      exact lift_callSched h hp hok (show callSched I st _ = .ok (a.1, a.2) by rw [ha])
  | workerfinished n x sf ss =>
    simp only [handle] at he
    unfold workerfinished at he
    split at he
    · dsimp only at he
      have hp1 := lift_triggerShutdown h
        ({ st with shouldstop := some (Stop.keyboard n), pubs := st.pubs ++ [Pub.nodedown n false] } : State σ τ) hp
      exact lift_errordown h hp1 he
    · simp only at he
      split at he
      · have := lift_removeActive (P := P) (st := (if st.shouldstop.isNone = true then
            { st with pubs := st.pubs ++ [Pub.nodedown n false], shouldstop := some (Stop.worker _) }
          else { st with pubs := st.pubs ++ [Pub.nodedown n false] })) (by split <;> exact hp) he
        exact this
      · split at he
        · split at he
          · simp at he
          · simp at he
          · rename_i st1 hc
            exact lift_removeActive (lift_callSched h (st := { st with pubs := st.pubs ++ [Pub.nodedown n false] }) hp
              (h.free _ (.removeNode n) (by intro a b hh; cases hh) (by intro a hh; cases hh) (by intro a b hh; cases hh) (by intro hh; cases hh)) hc) he
        · exact lift_removeActive (P := P) (st := { st with pubs := st.pubs ++ [Pub.nodedown n false] }) hp he
  | internalError n =>
    simp only [handle] at he
    obtain ⟨a, ha, hb⟩ := map_ok.1 he
    subst hb
    have := lift_removeActive (P := P) hp ha
    exact this
  | errordown n rq => exact lift_errordown h hp he
  | collectionfinish n ids =>
    simp only [handle, collectionfinish] at he
    split at he
    · simp only [Except.ok.injEq] at he; subst he; exact hp
    · split at he
      · simp only [Except.ok.injEq] at he; subst he; exact hp
      · obtain ⟨r, hr, h2⟩ := bind_ok.1 he
        have hc := h.collect hp (callSched_fields I (show callSched I st _ = .ok (r.1, r.2) by rw [hr])).1
        have hr1 := (callSched_fields I (show callSched I st _ = .ok (r.1, r.2) by rw [hr]))
        split at h2
        · rename_i hcomp
          obtain ⟨a, ha, hb⟩ := map_ok.1 h2
          subst hb
          have ha1 := (callSched_fields I (show callSched I r.1 _ = .ok (a.1, a.2) by rw [ha])).1
          exact hc.2 hcomp ha1
        · rename_i hcomp
          simp only [Except.ok.injEq] at h2; subst h2
          exact hc.1 (by cases hh : I.collectionIsCompleted r.1.sched <;> simp_all)
  | testreport n failed =>
    simp only [handle, Except.ok.injEq] at he
    subst he
    obtain ⟨f1, f2, _⟩ := handleFailures_fields ({ st with pubs := st.pubs ++ [Pub.report n failed] } : State σ τ) failed
    rw [f1, f2]; exact hp
  | complete n i slow =>
    simp only [handle] at he
    obtain ⟨a, ha, hb⟩ := map_ok.1 he
    subst hb
    exact lift_callSched h hp (h.free _ (.markComplete n i slow) (by intro a b hh; cases hh) (by intro a hh; cases hh) (by intro a b hh; cases hh) (by intro hh; cases hh)) (show callSched I st _ = .ok (a.1, a.2) by rw [ha])
  | unscheduled n is =>
    simp only [handle] at he
    obtain ⟨a, ha, hb⟩ := map_ok.1 he
    subst hb
    exact lift_callSched h hp hok (show callSched I st _ = .ok (a.1, a.2) by rw [ha])
  | collectreport n key failed =>
    simp only [handle] at he
    split at he
    · simp only [Except.ok.injEq] at he; subst he; exact hp
    · simp only [Except.ok.injEq] at he; subst he
      obtain ⟨f1, f2, _⟩ := handleFailures_fields
        ({ st with seenCollect := st.seenCollect ++ [key], pubs := st.pubs ++ [Pub.collect key] } : State σ τ) failed
      rw [f1, f2]; exact hp
  | other =>
    simp only [handle, Except.ok.injEq] at he; subst he; exact hp

theorem lift_afterHandler (h : SchedInv I P Ok) (st : State σ τ) (hp : P st.sched st.env) :
    P (afterHandler I st).sched (afterHandler I st).env := by
  unfold afterHandler
  simp only
  split
  · split
    · exact lift_triggerShutdown h _ (lift_triggerShutdown h _ hp)
    · exact lift_triggerShutdown h _ hp
  · split
    · exact lift_triggerShutdown h _ hp
    · exact hp

theorem lift_loopOnce (h : SchedInv I P Ok) {st st' : State σ τ} {ev : Event τ}
    (hp : P st.sched st.env) (hok : EvOk Ok st ev) (he : loopOnce I st ev = .ok st') : P st'.sched st'.env := by
  unfold loopOnce at he
  split at he
  · simp at he
  · obtain ⟨a, ha, hb⟩ := map_ok.1 he
    subst hb
    exact lift_afterHandler h a (lift_handle h hp hok ha)

/-- every steal answer of the event sequence is legal when it is processed -/
def AllEvOk (I : SchedI σ τ) (Ok : σ → SOp τ → Prop) (st : State σ τ) : List (Event τ) → Prop
  | [] => True
  | ev :: rest =>
    if sessionFinished st then True
    else EvOk Ok st ev ∧ (match loopOnce I st ev with | .ok st' => AllEvOk I Ok st' rest | .error _ => True)

/-- the side conditions of a concrete event sequence can be computed (used for the non-vacuity examples) -/
instance decAllEvOk (I : SchedI σ τ) (Ok : σ → SOp τ → Prop) [∀ s op, Decidable (Ok s op)] :
    ∀ (st : State σ τ) (evs : List (Event τ)), Decidable (AllEvOk I Ok st evs)
  | _, [] => isTrue trivial
  | st, ev :: rest => by
    unfold AllEvOk
    cases hs : sessionFinished st with
    | true => exact isTrue (by simp)
    | false =>
      simp only [Bool.false_eq_true, ↓reduceIte]
      have : Decidable (EvOk Ok st ev) := by
        cases ev <;> simp only [EvOk] <;> infer_instance
      cases hl : loopOnce I st ev with
      | error e => simp only; infer_instance
      | ok st' =>
        simp only
        have := decAllEvOk I Ok st' rest
        infer_instance

/-- **the lifted invariant holds after every run of the controller loop** -/
theorem lift_runLoop (h : SchedInv I P Ok) (evs : List (Event τ)) {st st' : State σ τ}
    (hp : P st.sched st.env) (hok : AllEvOk I Ok st evs) (he : runLoop I st evs = .ok st') : P st'.sched st'.env := by
  induction evs generalizing st with
  | nil => simp only [runLoop, Except.ok.injEq] at he; subst he; exact hp
  | cons ev rest ih =>
    simp only [runLoop] at he
    simp only [AllEvOk] at hok
    split at he
    · simp only [Except.ok.injEq] at he; subst he; exact hp
    · rename_i hfin
      simp only [hfin, Bool.false_eq_true, ↓reduceIte] at hok
      split at he
      · simp at he
      · rename_i st1 h1
        rw [h1] at hok
        exact ih (lift_loopOnce h hp hok.1 h1) hok.2 he

end Xdist.Ctl
