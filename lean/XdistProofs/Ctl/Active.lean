import XdistProofs.Ctl.Stop
/-!
  How one loop iteration changes the set of active workers: only a death notice (`errordown`, `workerfinished`,
  `internal_error`) removes a worker — the one it is about — and only `worker_errordown` starts a new one, with a fresh id.
-/
namespace Xdist.Ctl
open Xdist

variable {σ τ : Type}

/-- the worker an event writes off -/
def downOfEv : Event τ → Option Nat
  | .errordown n _ => some n
  | .workerfinished n _ _ _ => some n
  | .internalError n => some n
  | _ => none

/-- how the active set and the id counter may change -/
structure ActRel (st st' : State σ τ) (gone : Option Nat) : Prop where
  nextLe : st.nextId ≤ st'.nextId
  new : ∀ a, a ∈ st'.active → a ∈ st.active ∨ (st.nextId ≤ a ∧ a < st'.nextId)
  keep : ∀ a ∈ st.active, a ∈ st'.active ∨ gone = some a
  fresh : (∀ g, gone = some g → g < st.nextId) → ∀ a, st.nextId ≤ a → a < st'.nextId → a ∈ st'.active
  nodup : st.active.Nodup → (∀ a ∈ st.active, a < st.nextId) → st'.active.Nodup
  goneOut : ∀ a, gone = some a → st.active.Nodup → (∀ a ∈ st.active, a < st.nextId) → a ∉ st'.active

theorem ActRel.same {st st' : State σ τ} (h1 : st'.active = st.active) (h2 : st'.nextId = st.nextId) : ActRel st st' none :=
  ⟨by rw [h2]; exact Nat.le_refl _, fun a ha => Or.inl (by rw [← h1]; exact ha), fun a ha => Or.inl (by rw [h1]; exact ha),
    fun _ a h3 h4 => by omega, fun hn _ => by rw [h1]; exact hn, fun a h _ _ => by cases h⟩

theorem triggerShutdown_act (I : SchedI σ τ) (st : State σ τ) :
    (triggerShutdown I st).active = st.active ∧ (triggerShutdown I st).nextId = st.nextId := by
  unfold triggerShutdown; split <;> simp

theorem callSched_act (I : SchedI σ τ) {st st' : State σ τ} {op : SOp τ} {r : Option τ} (h : callSched I st op = .ok (st', r)) :
    st'.active = st.active ∧ st'.nextId = st.nextId := by
  unfold callSched at h
  obtain ⟨a, _, hb⟩ := map_ok.1 h
  simp only [Prod.mk.injEq] at hb
  obtain ⟨rfl, _⟩ := hb
  exact ⟨rfl, rfl⟩

theorem handleFailures_act (st : State σ τ) (f : Bool) :
    (handleFailures st f).active = st.active ∧ (handleFailures st f).nextId = st.nextId := by
  unfold handleFailures; split
  · simp only; split <;> simp
  · exact ⟨rfl, rfl⟩

theorem afterHandler_act (I : SchedI σ τ) (st : State σ τ) :
    (afterHandler I st).active = st.active ∧ (afterHandler I st).nextId = st.nextId := by
  unfold afterHandler
  simp only
  split <;> split <;> simp [triggerShutdown_act]

theorem handleCrashItem_act (I : SchedI σ τ) {st st' : State σ τ} {n : Nat} {t : τ} {rq : Bool}
    (h : handleCrashItem I st n t rq = .ok st') : st'.active = st.active ∧ st'.nextId = st.nextId := by
  unfold handleCrashItem at h
  obtain ⟨st1, h1, h2⟩ := map_ok.1 h
  subst h2
  split at h1
  · obtain ⟨a, ha, hb⟩ := map_ok.1 h1
    subst hb
    have := callSched_act I (r := a.2) (show callSched I st (.markPending t) = .ok (a.1, a.2) by rw [ha])
    exact ⟨this.1, this.2⟩
  · simp only [Except.ok.injEq] at h1; subst h1; exact ⟨rfl, rfl⟩

/-- removing worker `n` after the restart decision -/
theorem removeAfterRestart (I : SchedI σ τ) {st0 st1 st' : State σ τ} {n : Nat}
    (h01 : st1.active = st0.active ∧ st1.nextId = st0.nextId) (hr : removeActive (restartOrStop I st1 n) n = .ok st') :
    ActRel st0 st' (some n) := by
  unfold removeActive at hr
  split at hr
  case isFalse => simp at hr
  rename_i hmem
  simp only [Except.ok.injEq] at hr
  subst hr
  rcases restartOrStop_cases I st1 n with ⟨b, hh⟩ | hh
  · -- no replacement
    have ha : (restartOrStop I st1 n).active = st0.active := by rw [hh, (triggerShutdown_act I _).1]; exact h01.1
    have hn : (restartOrStop I st1 n).nextId = st0.nextId := by rw [hh, (triggerShutdown_act I _).2]; exact h01.2
    refine ⟨by simp only; rw [hn]; exact Nat.le_refl _, ?_, ?_, ?_, ?_, ?_⟩
    · intro a ha'; simp only at ha'; rw [ha] at ha'; exact Or.inl (List.mem_of_mem_erase ha')
    · intro a ha'
      by_cases han : a = n
      · exact Or.inr (by rw [han])
      · left; simp only; rw [ha]; exact (List.mem_erase_of_ne han).2 ha'
    · intro _ a h3 h4; simp only at h4; rw [hn] at h4; omega
    · intro hnd _; simp only; rw [ha]; exact hnd.erase n
    · intro a hg hnd _
      cases hg
      simp only; rw [ha]
      exact fun hm => ((List.Nodup.mem_erase_iff hnd).1 hm).1 rfl
  · -- a replacement with a fresh id
    have ha : (restartOrStop I st1 n).active = st0.active ++ [st0.nextId] := by rw [hh]; simp [cloneNode, h01.1, h01.2]
    have hn : (restartOrStop I st1 n).nextId = st0.nextId + 1 := by rw [hh]; simp [cloneNode, h01.2]
    refine ⟨by simp only; rw [hn]; omega, ?_, ?_, ?_, ?_, ?_⟩
    · intro a ha'
      simp only at ha'; rw [ha] at ha'
      have := List.mem_of_mem_erase ha'
      rcases List.mem_append.1 this with h' | h'
      · exact Or.inl h'
      · simp at h'; right; simp only; rw [hn]; omega
    · intro a ha'
      by_cases han : a = n
      · exact Or.inr (by rw [han])
      · left; simp only; rw [ha]
        exact (List.mem_erase_of_ne han).2 (List.mem_append_left _ ha')
    · intro hg a h3 h4
      simp only at h4 ⊢; rw [hn] at h4; rw [ha]
      have : a = st0.nextId := by omega
      subst this
      have hne : st0.nextId ≠ n := by have := hg n rfl; omega
      exact (List.mem_erase_of_ne hne).2 (List.mem_append_right _ (by simp))
    · intro hnd hlt
      simp only; rw [ha]
      refine List.Nodup.erase n ?_
      refine List.nodup_append.2 ⟨hnd, by simp, ?_⟩
      intro a ha' b hb
      simp at hb; subst hb
      intro hab; subst hab
      exact absurd (hlt _ ha') (Nat.lt_irrefl _)
    · intro a hg hnd hlt
      cases hg
      simp only; rw [ha]
      have hnd' : (st0.active ++ [st0.nextId]).Nodup := by
        refine List.nodup_append.2 ⟨hnd, by simp, ?_⟩
        intro a ha' b hb
        simp at hb; subst hb
        intro hab; subst hab
        exact absurd (hlt _ ha') (Nat.lt_irrefl _)
      exact fun hm => ((List.Nodup.mem_erase_iff hnd').1 hm).1 rfl

end Xdist.Ctl

namespace Xdist.Ctl
open Xdist

variable {σ τ : Type}

theorem removeActive_rel {st0 st1 st' : State σ τ} {n : Nat} (h01 : st1.active = st0.active ∧ st1.nextId = st0.nextId)
    (hr : removeActive st1 n = .ok st') : ActRel st0 st' (some n) := by
  unfold removeActive at hr
  split at hr
  case isFalse => simp at hr
  simp only [Except.ok.injEq] at hr
  subst hr
  refine ⟨by simp only; rw [h01.2]; exact Nat.le_refl _, ?_, ?_, ?_, ?_, ?_⟩
  · intro a ha'; simp only at ha'; rw [h01.1] at ha'; exact Or.inl (List.mem_of_mem_erase ha')
  · intro a ha'
    by_cases han : a = n
    · exact Or.inr (by rw [han])
    · left; simp only; rw [h01.1]; exact (List.mem_erase_of_ne han).2 ha'
  · intro _ a h3 h4; simp only at h4; rw [h01.2] at h4; omega
  · intro hnd _; simp only; rw [h01.1]; exact hnd.erase n
  · intro a hg hnd _
    cases hg
    simp only; rw [h01.1]
    exact fun hm => ((List.Nodup.mem_erase_iff hnd).1 hm).1 rfl

theorem ActRel.after (I : SchedI σ τ) {st a : State σ τ} {g : Option Nat} (h : ActRel st a g) : ActRel st (afterHandler I a) g := by
  obtain ⟨h1, h2⟩ := afterHandler_act I a
  exact ⟨by rw [h2]; exact h.nextLe, by rw [h1, h2]; exact h.new, by rw [h1]; exact h.keep, by rw [h1, h2]; exact h.fresh,
    by rw [h1]; exact h.nodup, by rw [h1]; exact h.goneOut⟩

theorem errordown_act (I : SchedI σ τ) {st0 st st' : State σ τ} {n : Nat} {rq : Bool}
    (h0 : st.active = st0.active ∧ st.nextId = st0.nextId) (he : errordown I st n rq = .ok st') : ActRel st0 st' (some n) := by
  unfold errordown at he
  simp only at he
  split at he
  · exact removeAfterRestart I (st1 := { st with pubs := st.pubs ++ [Pub.nodedown n true] }) h0 he
  · simp at he
  · rename_i st1 hc
    have := callSched_act I hc
    exact removeAfterRestart I (st1 := st1) ⟨by rw [this.1]; exact h0.1, by rw [this.2]; exact h0.2⟩ he
  · rename_i st1 x hc
    obtain ⟨st2, h2, h3⟩ := bind_ok.1 he
    have h1 := callSched_act I hc
    have h2' := handleCrashItem_act I h2
    exact removeAfterRestart I (st1 := st2)
      ⟨by rw [h2'.1, h1.1]; exact h0.1, by rw [h2'.2, h1.2]; exact h0.2⟩ h3

/-- **how one loop iteration changes the active set** -/
theorem loopOnce_act (I : SchedI σ τ) {st st' : State σ τ} {ev : Event τ} (h : loopOnce I st ev = .ok st') :
    ActRel st st' (downOfEv ev) := by
  unfold loopOnce at h
  split at h
  · simp at h
  obtain ⟨a, ha, hb⟩ := map_ok.1 h
  subst hb
  apply ActRel.after
  cases ev with
  | workerready n =>
    simp only [handle] at ha
    split at ha
    · simp only [Except.ok.injEq] at ha; subst ha; exact ActRel.same rfl rfl
    · obtain ⟨b, hb1, hb2⟩ := map_ok.1 ha
      subst hb2
      have := callSched_act I (r := b.2) (show callSched I st (.addNode n) = .ok (b.1, b.2) by rw [hb1])
      exact ActRel.same this.1 this.2
  | workerfinished n x sf ss =>
    simp only [handle] at ha
    unfold workerfinished at ha
    split at ha
    · dsimp only at ha
      have ht := triggerShutdown_act I
        ({ st with shouldstop := some (Stop.keyboard n), pubs := st.pubs ++ [Pub.nodedown n false] } : State σ τ)
      exact errordown_act I (st0 := st) ⟨ht.1, ht.2⟩ ha
    · simp only at ha
      split at ha
      · refine removeActive_rel (st0 := st) (st1 := (if st.shouldstop.isNone = true then
            { st with pubs := st.pubs ++ [Pub.nodedown n false], shouldstop := some (Stop.worker _) }
          else { st with pubs := st.pubs ++ [Pub.nodedown n false] })) ?_ ha
        split <;> exact ⟨rfl, rfl⟩
      · split at ha
        · split at ha
          · simp at ha
          · simp at ha
          · rename_i st1 hc
            have := callSched_act I hc
            exact removeActive_rel (st0 := st) (st1 := st1) ⟨this.1, this.2⟩ ha
        · exact removeActive_rel (st0 := st) (st1 := { st with pubs := st.pubs ++ [Pub.nodedown n false] }) ⟨rfl, rfl⟩ ha
  | internalError n =>
    simp only [handle] at ha
    obtain ⟨b, hb1, hb2⟩ := map_ok.1 ha
    subst hb2
    have := removeActive_rel (st0 := st) (st1 := st) ⟨rfl, rfl⟩ hb1
    exact ⟨this.nextLe, this.new, this.keep, this.fresh, this.nodup, this.goneOut⟩
  | errordown n rq =>
    simp only [handle] at ha
    exact errordown_act I (st0 := st) ⟨rfl, rfl⟩ ha
  | collectionfinish n ids =>
    simp only [handle, collectionfinish] at ha
    split at ha
    · simp only [Except.ok.injEq] at ha; subst ha; exact ActRel.same rfl rfl
    · split at ha
      · simp only [Except.ok.injEq] at ha; subst ha; exact ActRel.same rfl rfl
      · obtain ⟨r, hr, h2⟩ := bind_ok.1 ha
        have h1 := callSched_act I (r := r.2) (show callSched I st (.addNodeCollection n ids) = .ok (r.1, r.2) by rw [hr])
        split at h2
        · obtain ⟨b, hb1, hb2⟩ := map_ok.1 h2
          subst hb2
          have h3 := callSched_act I (r := b.2) (show callSched I r.1 .schedule = .ok (b.1, b.2) by rw [hb1])
          exact ActRel.same (by rw [h3.1, h1.1]) (by rw [h3.2, h1.2])
        · simp only [Except.ok.injEq] at h2; subst h2
          exact ActRel.same h1.1 h1.2
  | testreport n failed =>
    simp only [handle, Except.ok.injEq] at ha
    subst ha
    have := handleFailures_act ({ st with pubs := st.pubs ++ [Pub.report n failed] } : State σ τ) failed
    exact ActRel.same this.1 this.2
  | complete n i slow =>
    simp only [handle] at ha
    obtain ⟨b, hb1, hb2⟩ := map_ok.1 ha
    subst hb2
    have := callSched_act I (r := b.2) (show callSched I st (.markComplete n i slow) = .ok (b.1, b.2) by rw [hb1])
    exact ActRel.same this.1 this.2
  | unscheduled n is =>
    simp only [handle] at ha
    obtain ⟨b, hb1, hb2⟩ := map_ok.1 ha
    subst hb2
    have := callSched_act I (r := b.2) (show callSched I st (.removePending n is) = .ok (b.1, b.2) by rw [hb1])
    exact ActRel.same this.1 this.2
  | collectreport n key failed =>
    simp only [handle] at ha
    split at ha
    · simp only [Except.ok.injEq] at ha; subst ha; exact ActRel.same rfl rfl
    · simp only [Except.ok.injEq] at ha; subst ha
      have := handleFailures_act
        ({ st with seenCollect := st.seenCollect ++ [key], pubs := st.pubs ++ [Pub.collect key] } : State σ τ) failed
      exact ActRel.same this.1 this.2
  | other =>
    simp only [handle, Except.ok.injEq] at ha; subst ha
    exact ActRel.same rfl rfl

end Xdist.Ctl
