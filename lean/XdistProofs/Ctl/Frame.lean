import XdistModel.Ctl.DSession
import XdistProofs.Lemmas.Except
/-!
  Frame lemmas for the `DSession` model: which fields the building blocks of the handlers can change.
  Everything here holds for an arbitrary scheduler interface `I` (any function may stand for the scheduler).
-/
namespace Xdist.Ctl
open Xdist

variable {σ τ : Type}

def isSpawn : Pub τ → Bool
  | .spawn _ => true
  | _ => false

/-- number of replacement workers started so far -/
def spawnCount (st : State σ τ) : Nat := (st.pubs.filter isSpawn).length

/-- the ids of the replacement workers, in start order -/
def spawnIds (st : State σ τ) : List Nat :=
  st.pubs.filterMap (fun p => match p with | .spawn n => some n | _ => none)

/-- a step that leaves the restart bookkeeping alone -/
structure Keeps (st st' : State σ τ) : Prop where
  maxRestart : st'.maxRestart = st.maxRestart
  failedNodes : st'.failedNodes = st.failedNodes
  spawns : spawnIds st' = spawnIds st
  nextId : st'.nextId = st.nextId
  maxfail : st'.maxfail = st.maxfail

theorem Keeps.refl (st : State σ τ) : Keeps st st := ⟨rfl, rfl, rfl, rfl, rfl⟩

theorem Keeps.trans {a b c : State σ τ} (h1 : Keeps a b) (h2 : Keeps b c) : Keeps a c :=
  ⟨h2.maxRestart.trans h1.maxRestart, h2.failedNodes.trans h1.failedNodes, h2.spawns.trans h1.spawns,
   h2.nextId.trans h1.nextId, h2.maxfail.trans h1.maxfail⟩

theorem spawnCount_eq_length (st : State σ τ) : spawnCount st = (spawnIds st).length := by
  unfold spawnCount spawnIds
  induction st.pubs with
  | nil => rfl
  | cons p t ih =>
    cases p <;> simp [List.filter_cons, List.filterMap_cons, isSpawn, ih]

theorem spawnIds_append_nonspawn (st : State σ τ) (p : Pub τ) (h : isSpawn p = false) :
    spawnIds { st with pubs := st.pubs ++ [p] } = spawnIds st := by
  unfold spawnIds
  cases p <;> simp_all [isSpawn, List.filterMap_append]

theorem keeps_triggerShutdown (I : SchedI σ τ) (st : State σ τ) : Keeps st (triggerShutdown I st) := by
  unfold triggerShutdown
  split
  · exact Keeps.refl st
  · exact ⟨rfl, rfl, rfl, rfl, rfl⟩

theorem keeps_callSched (I : SchedI σ τ) {st st' : State σ τ} {op : SOp τ} {r : Option τ}
    (h : callSched I st op = .ok (st', r)) : Keeps st st' := by
  unfold callSched at h
  obtain ⟨a, _, ha⟩ := map_ok.1 h
  simp only [Prod.mk.injEq] at ha
  obtain ⟨rfl, _⟩ := ha
  exact ⟨rfl, rfl, rfl, rfl, rfl⟩

theorem keeps_handleFailures (st : State σ τ) (f : Bool) : Keeps st (handleFailures st f) := by
  unfold handleFailures
  split
  · simp only
    split <;> exact ⟨rfl, rfl, rfl, rfl, rfl⟩
  · exact Keeps.refl st

theorem keeps_removeActive {st st' : State σ τ} {n : Nat} (h : removeActive st n = .ok st') : Keeps st st' := by
  unfold removeActive at h
  split at h
  · simp only [Except.ok.injEq] at h; subst h; exact ⟨rfl, rfl, rfl, rfl, rfl⟩
  · simp at h

theorem keeps_pub (st : State σ τ) (p : Pub τ) (h : isSpawn p = false) :
    Keeps st { st with pubs := st.pubs ++ [p] } :=
  ⟨rfl, rfl, spawnIds_append_nonspawn st p h, rfl, rfl⟩

theorem keeps_handleCrashItem (I : SchedI σ τ) {st st' : State σ τ} {n : Nat} {t : τ} {rq : Bool}
    (h : handleCrashItem I st n t rq = .ok st') : Keeps st st' := by
  unfold handleCrashItem at h
  obtain ⟨st1, h1, h2⟩ := map_ok.1 h
  subst h2
  have k1 : Keeps st st1 := by
    split at h1
    · obtain ⟨a, ha, hb⟩ := map_ok.1 h1
      subst hb
      exact keeps_callSched I (r := a.2) (by rw [← ha])
    · simp only [Except.ok.injEq] at h1; subst h1; exact Keeps.refl st
  exact k1.trans (keeps_pub st1 _ rfl)

end Xdist.Ctl
