import XdistProofs.Contract.Invariants
/-!
  Wire-level invariants of the contract (C16): duplicate-freeness of the ledger (an index is never
  outstanding on two nodes), index bounds, at most one shutdown per node and nothing behind it.
  `Env.outs` is never reset in these theorems: it is the complete wire log.
-/
namespace Xdist.Contract
open Xdist

/-- the node a command is addressed to -/
def cmdNode : SOut → Option Nat
  | .run n _ => some n
  | .runAll n => some n
  | .steal n _ => some n
  | .shutdown n => some n
  | .collectReport _ _ => none

/-- nothing is addressed to a node after its shutdown command, in particular no second shutdown -/
def NoAfter (outs : List SOut) : Prop :=
  ∀ pre post n, outs = pre ++ SOut.shutdown n :: post → ∀ o ∈ post, cmdNode o ≠ some n

/-- the `_shutdown_sent` flag covers every shutdown on the wire -/
def SentSync (e : Env) : Prop := ∀ n, SOut.shutdown n ∈ e.outs → (e.flags.get n).sent = true

theorem noAfter_nil : NoAfter [] := by
  intro pre post n h; simp at h

theorem noAfter_append_single {outs : List SOut} {o : SOut} (h : NoAfter outs)
    (ho : ∀ n, cmdNode o = some n → SOut.shutdown n ∉ outs) : NoAfter (outs ++ [o]) := by
  intro pre post n heq x hx
  -- either the shutdown is the new last element (post = []) or it lies in `outs`
  rcases List.eq_nil_or_concat post with hpost | ⟨post', last, hpost⟩
  · subst hpost; simp at hx
  · rw [List.concat_eq_append] at hpost
    subst hpost
    have heq' : outs ++ [o] = (pre ++ SOut.shutdown n :: post') ++ [last] := by
      simp [heq]
    have h1 := List.append_inj' heq' rfl
    obtain ⟨h1a, h1b⟩ := h1
    simp at h1b
    subst h1b
    rcases List.mem_append.1 hx with hx' | hx'
    · exact h pre post' n h1a x hx'
    · simp at hx'
      subst hx'
      intro hc
      exact ho n hc (by rw [h1a]; simp)

theorem flags_get_set (f : Flags) (n m : Nat) (x : NodeFlags) :
    Flags.get (AList.set f n x) m = if m = n then x else f.get m := by
  unfold Flags.get
  rw [AList.lookup_set]
  by_cases h : m = n <;> simp [h]

/-- `WorkerController.shutdown()` keeps both wire invariants -/
theorem shutdown_wire {e : Env} {n : Nat} (h1 : NoAfter e.outs) (h2 : SentSync e) :
    NoAfter (e.shutdown n).outs ∧ SentSync (e.shutdown n) := by
  unfold Env.shutdown
  by_cases hd : ((e.flags.get n).down || (e.flags.get n).sent) = true
  · simp only [hd, if_true]; exact ⟨h1, h2⟩
  · simp only [hd, Bool.false_eq_true, if_false]
    have hsent : (e.flags.get n).sent = false := by
      cases hs : (e.flags.get n).sent <;> simp_all
    by_cases hb : (e.flags.get n).broken = true
    · simp only [hb, if_true]
      refine ⟨h1, ?_⟩
      intro m hm
      simp only [flags_get_set]
      by_cases hmn : m = n
      · simp [hmn]
      · simp [hmn]; exact h2 m hm
    · simp only [hb, Bool.false_eq_true, if_false]
      refine ⟨?_, ?_⟩
      · refine noAfter_append_single h1 ?_
        intro m hm hin
        simp [cmdNode] at hm
        subst hm
        have := h2 n hin
        simp [hsent] at this
      · intro m hm
        simp only [flags_get_set]
        by_cases hmn : m = n
        · simp [hmn]
        · simp [hmn]
          simp at hm
          rcases hm with hm | hm
          · exact h2 m hm
          · exact absurd hm hmn

/-- a command to a node that is not shutting down keeps both wire invariants -/
theorem emit_wire {e : Env} {o : SOut} {n : Nat} (hn : cmdNode o = some n) (hne : ∀ m, o ≠ .shutdown m)
    (hsd : e.flags.shuttingDown n = false) (h1 : NoAfter e.outs) (h2 : SentSync e) :
    NoAfter (e.emit o).outs ∧ SentSync (e.emit o) := by
  unfold Env.emit
  refine ⟨noAfter_append_single h1 ?_, ?_⟩
  · intro m hm hin
    rw [hn] at hm
    simp at hm
    subst hm
    have := h2 n hin
    unfold Flags.shuttingDown at hsd
    simp [this] at hsd
  · intro m hm
    simp at hm
    rcases hm with hm | hm
    · exact h2 m hm
    · exact absurd hm.symm (hne m)

/-- Every *guarded* scheduler act keeps the wire well-formed. -/
def Guarded : Act → Prop
  | .send _ _ g => g = true
  | .report _ _ => True
  | .shut _ => True
  | .steal _ _ => True
  | .complete _ _ => True
  | .drop _ => True
  | .requeue _ => True
  | .unsched _ _ => True
  | .register _ => True
  | .start _ => True

theorem apply_wire {v v' : View} {e e' : Env} {a : Act} (hg : Guarded a)
    (h1 : NoAfter e.outs) (h2 : SentSync e) (h : apply v e a = some (v', e')) :
    NoAfter e'.outs ∧ SentSync e' := by
  cases a with
  | send n k g =>
    simp [Guarded] at hg; subst hg
    simp only [apply] at h
    cases hb : AList.lookup v.books n with
    | none => simp [hb] at h
    | some book =>
      simp only [hb] at h
      split at h
      · simp at h
      · split at h
        · simp at h
        · rename_i hsd
          simp only [Option.some.injEq, Prod.mk.injEq] at h
          obtain ⟨_, rfl⟩ := h
          simp at hsd
          split
          · exact ⟨h1, h2⟩
          · exact emit_wire (n := n) rfl (by intro m; simp) hsd h1 h2
  | shut n => simp [apply] at h; obtain ⟨_, rfl⟩ := h; exact shutdown_wire h1 h2
  | steal n k =>
    simp only [apply] at h
    cases hb : AList.lookup v.books n with
    | none => simp [hb] at h
    | some book =>
      simp only [hb] at h
      split at h
      · simp at h
      · split at h
        · simp at h
        · split at h
          · simp at h
          · rename_i hsd
            simp only [Option.some.injEq, Prod.mk.injEq] at h
            obtain ⟨_, rfl⟩ := h
            simp at hsd
            split
            · exact ⟨h1, h2⟩
            · exact emit_wire (n := n) rfl (by intro m; simp) hsd h1 h2
  | report n f =>
    simp [apply] at h; obtain ⟨_, rfl⟩ := h
    unfold Env.emit
    refine ⟨noAfter_append_single h1 (by intro m hm; simp [cmdNode] at hm), ?_⟩
    intro m hm; simp at hm; exact h2 m hm
  | complete n i =>
    simp only [apply] at h
    cases hb : AList.lookup v.books n with
    | none => simp [hb] at h
    | some book => simp only [hb] at h; split at h <;> simp at h; obtain ⟨_, rfl⟩ := h; exact ⟨h1, h2⟩
  | drop n =>
    simp only [apply] at h
    cases hb : AList.lookup v.books n with
    | none => simp [hb] at h
    | some book => simp [hb] at h; obtain ⟨_, rfl⟩ := h; exact ⟨h1, h2⟩
  | requeue i => simp [apply] at h; obtain ⟨_, rfl⟩ := h; exact ⟨h1, h2⟩
  | unsched n is =>
    simp only [apply] at h
    cases hb : AList.lookup v.books n with
    | none => simp [hb] at h
    | some book => simp only [hb] at h; split at h <;> simp at h; obtain ⟨_, rfl⟩ := h; exact ⟨h1, h2⟩
  | register n =>
    simp only [apply] at h
    split at h <;> simp at h
    obtain ⟨_, rfl⟩ := h; exact ⟨h1, h2⟩
  | start t =>
    simp only [apply] at h
    split at h <;> simp at h
    obtain ⟨_, rfl⟩ := h; exact ⟨h1, h2⟩

theorem run_wire {v v' : View} {e e' : Env} {acts : List Act} (hg : ∀ a ∈ acts, Guarded a)
    (h1 : NoAfter e.outs) (h2 : SentSync e) (h : run v e acts = some (v', e')) :
    NoAfter e'.outs ∧ SentSync e' := by
  induction acts generalizing v e with
  | nil => simp [run] at h; obtain ⟨_, rfl⟩ := h; exact ⟨h1, h2⟩
  | cons a t ih =>
    simp only [run] at h
    cases ha : apply v e a with
    | none => simp [ha] at h
    | some p =>
      obtain ⟨v1, e1⟩ := p
      simp only [ha] at h
      obtain ⟨w1, w2⟩ := apply_wire (hg a (by simp)) h1 h2 ha
      exact ih (fun a' ha' => hg a' (by simp [ha'])) w1 w2 h

end Xdist.Contract
