import XdistModel.Sched.Load
import XdistProofs.Contract.Spec
import XdistProofs.Contract.Invariants
import XdistProofs.Contract.Wire
import XdistProofs.Lemmas.Except
/-!
  `LoadScheduling` refines the contract: every method is a sequence of contract acts on the
  view `(pending, node2pending)`.
-/
namespace Xdist.Load
open Xdist Xdist.Contract

variable {τ : Type} [DecidableEq τ]

def view (s : State τ) : View := { pool := s.pending, books := s.node2pending, req := none }

/-- the fields no scheduling act touches -/
def SameStatic (s s' : State τ) : Prop :=
  s'.numnodes = s.numnodes ∧ s'.node2collection = s.node2collection ∧ s'.collection = s.collection
    ∧ s'.maxschedchunk = s.maxschedchunk

theorem SameStatic.refl (s : State τ) : SameStatic s s := ⟨rfl, rfl, rfl, rfl⟩
theorem SameStatic.trans {a b c : State τ} (h1 : SameStatic a b) (h2 : SameStatic b c) : SameStatic a c := by
  obtain ⟨a1, a2, a3, a4⟩ := h1; obtain ⟨b1, b2, b3, b4⟩ := h2
  exact ⟨b1.trans a1, b2.trans a2, b3.trans a3, b4.trans a4⟩

/-- `l[:n]` / `l[n:]` are `take k` / `drop k` for one and the same `k`. -/
theorem slice_take_drop (l : List Nat) (num : Int) :
    ∃ k, PyList.sliceTo l num = l.take k ∧ PyList.sliceFrom l num = l.drop k := by
  unfold PyList.sliceTo PyList.sliceFrom
  by_cases h : num ≥ 0
  · exact ⟨num.toNat, by simp [h], by simp [h]⟩
  · exact ⟨l.length - (-num).toNat, by simp [h], by simp [h]⟩

/-- Outcome of a sequence of scheduler-initiated acts: which acts it may consist of. -/
def OutAct (guard : Bool) : Act → Prop
  | .send _ _ g => guard = true → g = true
  | .shut _ => True
  | _ => False

theorem sendTests_refines (guard : Bool) {s s' : State τ} {e e' : Env} {n : Nat} {num : Int}
    (hg : guard = true → e.flags.shuttingDown n = false)
    (h : sendTests s e n num = .ok (s', e')) :
    ∃ acts, run (view s) e acts = some (view s', e') ∧ (∀ a ∈ acts, OutAct guard a) ∧ SameStatic s s' := by
  unfold sendTests at h
  obtain ⟨k, hk1, hk2⟩ := slice_take_drop s.pending num
  simp only [hk1, hk2] at h
  by_cases hemp : (s.pending.take k).isEmpty = true
  · simp [hemp] at h
    obtain ⟨rfl, rfl⟩ := h
    exact ⟨[], rfl, by simp, SameStatic.refl _⟩
  · simp only [hemp] at h
    cases hb : s.node2pending.get n with
    | error err => simp [hb, bind, Except.bind] at h
    | ok book =>
      have hl := AList.get_eq_ok.1 hb
      simp only [hb, bind, Except.bind] at h
      unfold Env.sendRun Env.send at h
      by_cases hbr : (e.flags.get n).broken = true
      all_goals
        simp [hbr] at h
        obtain ⟨rfl, rfl⟩ := h
        refine ⟨[.send n k guard], ?_, ?_, ⟨rfl, rfl, rfl, rfl⟩⟩
        · have hsd : (guard && e.flags.shuttingDown n) = false := by
            cases guard with
            | false => rfl
            | true => simp [hg rfl]
          simp [run, apply, view, hl, hemp, hbr, hsd]
        · intro a ha
          simp at ha
          subst ha
          simp [OutAct]

/-- a successful refinement step, packaged -/
structure Ref (guard : Bool) (s : State τ) (e : Env) (s' : State τ) (e' : Env) : Prop where
  acts : ∃ acts, run (view s) e acts = some (view s', e') ∧ (∀ a ∈ acts, OutAct guard a)
  static : SameStatic s s'

theorem Ref.refl (g : Bool) (s : State τ) (e : Env) : Ref g s e s e :=
  ⟨⟨[], rfl, by simp⟩, SameStatic.refl s⟩

theorem Ref.trans {g : Bool} {s1 s2 s3 : State τ} {e1 e2 e3 : Env}
    (h1 : Ref g s1 e1 s2 e2) (h2 : Ref g s2 e2 s3 e3) : Ref g s1 e1 s3 e3 := by
  obtain ⟨⟨a1, r1, p1⟩, st1⟩ := h1
  obtain ⟨⟨a2, r2, p2⟩, st2⟩ := h2
  refine ⟨⟨a1 ++ a2, ?_, ?_⟩, st1.trans st2⟩
  · rw [run_append r1]; exact r2
  · intro a ha
    rcases List.mem_append.1 ha with h | h
    · exact p1 a h
    · exact p2 a h

theorem Ref.weaken {s1 s2 : State τ} {e1 e2 : Env} (h : Ref true s1 e1 s2 e2) : Ref false s1 e1 s2 e2 := by
  obtain ⟨⟨a, r, p⟩, st⟩ := h
  refine ⟨⟨a, r, ?_⟩, st⟩
  intro x hx
  have := p x hx
  cases x <;> simp_all [OutAct]

theorem sendTests_ref (guard : Bool) {s s' : State τ} {e e' : Env} {n : Nat} {num : Int}
    (hg : guard = true → e.flags.shuttingDown n = false)
    (h : sendTests s e n num = .ok (s', e')) : Ref guard s e s' e' := by
  obtain ⟨acts, r, p, st⟩ := sendTests_refines guard hg h
  exact ⟨⟨acts, r, p⟩, st⟩

theorem shutdown_ref (g : Bool) (s : State τ) (e : Env) (n : Nat) : Ref g s e s (e.shutdown n) :=
  ⟨⟨[.shut n], by simp [run, apply], by simp [OutAct]⟩, SameStatic.refl s⟩

theorem shutdownAll_ref (g : Bool) (s : State τ) (e : Env) (ns : List Nat) : Ref g s e s (e.shutdownAll ns) := by
  induction ns generalizing e with
  | nil => exact Ref.refl g s e
  | cons n t ih => exact (shutdown_ref g s e n).trans (ih _)

/-- `check_schedule` is: nothing, one guarded send, or one shutdown. -/
theorem checkSchedule_ref {s s' : State τ} {e e' : Env} {n : Nat} {slow : Bool}
    (h : checkSchedule s e n slow = .ok (s', e')) : Ref true s e s' e' := by
  unfold checkSchedule at h
  by_cases hsd : e.flags.shuttingDown n = true
  · simp [hsd] at h; obtain ⟨rfl, rfl⟩ := h; exact Ref.refl _ _ _
  · simp only [hsd] at h
    by_cases hp : s.pending.isEmpty = true
    · simp [hp] at h; obtain ⟨rfl, rfl⟩ := h; exact shutdown_ref _ _ _ _
    · simp only [hp] at h
      by_cases hz : s.node2pending.length = 0
      · simp [hz] at h
      · simp only [hz] at h
        cases hb : s.node2pending.get n with
        | error err => simp [hb, bind, Except.bind] at h
        | ok book =>
          simp only [hb, bind, Except.bind] at h
          by_cases hlt : book.length < max 2 (s.pending.length / s.node2pending.length / 4)
          · simp only [hlt, if_true] at h
            by_cases hslow : (slow && decide (book.length ≥ 2)) = true
            · simp only [hslow, if_true] at h
              simp at h; obtain ⟨rfl, rfl⟩ := h; exact Ref.refl _ _ _
            · simp only [hslow] at h
              cases hm : s.maxschedchunk with
              | none => simp [hm] at h
              | some msc =>
                simp only [hm] at h
                exact sendTests_ref true (fun _ => by simpa using hsd) h
          · simp only [hlt, if_false] at h
            simp at h; obtain ⟨rfl, rfl⟩ := h; exact Ref.refl _ _ _

theorem checkAll_ref {s s' : State τ} {e e' : Env} {ns : List Nat}
    (h : checkAll s e ns = .ok (s', e')) : Ref true s e s' e' := by
  induction ns generalizing s e with
  | nil => simp [checkAll] at h; obtain ⟨rfl, rfl⟩ := h; exact Ref.refl _ _ _
  | cons n t ih =>
    simp only [checkAll, bind, Except.bind] at h
    cases h1 : checkSchedule s e n false with
    | error err => simp [h1] at h
    | ok p =>
      obtain ⟨s1, e1⟩ := p
      simp only [h1] at h
      exact (checkSchedule_ref h1).trans (ih h)

theorem addNode_ref {s s' : State τ} {e : Env} {n : Nat} (h : addNode s n = .ok s') :
    apply (view s) e (.register n) = some (view s', e) ∧ SameStatic s s' := by
  unfold addNode at h
  split at h
  · simp at h
  · rename_i hc
    simp at h; subst h
    simp [AList.contains] at hc
    simp [apply, view, hc, SameStatic]

theorem addNodeCollection_view {s s' : State τ} {n : Nat} {c : List τ}
    (h : addNodeCollection s n c = .ok s') :
    view s' = view s ∧ s'.collection = s.collection ∧ s'.numnodes = s.numnodes
      ∧ s'.maxschedchunk = s.maxschedchunk := by
  unfold addNodeCollection at h
  split at h
  · simp at h
  · split at h
    · split at h
      · simp at h
      · split at h
        · simp at h
        · split at h
          · simp at h; subst h; simp
          · simp at h; subst h; simp [view]
    · simp at h; subst h; simp [view]

theorem markComplete_ref {s s' : State τ} {e e' : Env} {n i : Nat} {slow : Bool}
    (h : markComplete s e n i slow = .ok (s', e')) :
    ∃ acts, run (view s) e (.complete n i :: acts) = some (view s', e') ∧
      (∀ a ∈ acts, OutAct true a) ∧ SameStatic s s' := by
  unfold markComplete at h
  cases hb : s.node2pending.get n with
  | error err => simp [hb, bind, Except.bind] at h
  | ok book =>
    simp only [hb, bind, Except.bind] at h
    cases hr : PyList.remove book i with
    | error err => simp [hr] at h
    | ok book' =>
      simp only [hr] at h
      unfold PyList.remove at hr
      split at hr
      · rename_i hi
        simp at hr; subst hr
        obtain ⟨⟨acts, r, p⟩, st⟩ := checkSchedule_ref h
        refine ⟨acts, ?_, p, ?_⟩
        · have hl := AList.get_eq_ok.1 hb
          simp only [run, apply, view, hl, hi, if_true]
          exact r
        · exact st
      · simp at hr

theorem markPending_ref {s s' : State τ} {e e' : Env} {t : τ}
    (h : markPending s e t = .ok (s', e')) :
    ∃ col idx acts, s.collection = some col ∧ PyList.index col t = .ok idx ∧
      run (view s) e (.requeue idx :: acts) = some (view s', e') ∧
      (∀ a ∈ acts, OutAct true a) ∧ SameStatic s s' := by
  unfold markPending at h
  cases hc : s.collection with
  | none => simp [hc] at h
  | some col =>
    simp only [hc, bind, Except.bind] at h
    cases hi : PyList.index col t with
    | error err => simp [hi] at h
    | ok idx =>
      simp only [hi] at h
      obtain ⟨⟨acts, r, p⟩, st⟩ := checkAll_ref h
      obtain ⟨a1, a2, a3, a4⟩ := st
      exact ⟨col, idx, acts, rfl, hi, by simpa [run, apply, view] using r, p, a1, a2, by simpa [hc] using a3, a4⟩

theorem removeNode_ref {s s' : State τ} {e e' : Env} {n : Nat} {ret : Option τ}
    (h : removeNode s e n = .ok (s', e', ret)) :
    ∃ book acts, AList.lookup s.node2pending n = some book ∧
      run (view s) e (.drop n :: acts) = some (view s', e') ∧
      (∀ a ∈ acts, OutAct true a) ∧ SameStatic s s' ∧
      (match book with
       | [] => ret = none
       | i :: _ => ∃ col, s.collection = some col ∧ col[i]? = ret ∧ ret.isSome) := by
  unfold removeNode at h
  cases hp : s.node2pending.pop n with
  | error err => simp [hp, bind, Except.bind] at h
  | ok pr =>
    obtain ⟨book, n2p⟩ := pr
    obtain ⟨hl, rfl⟩ := AList.pop_eq_ok.1 hp
    simp only [hp, bind, Except.bind] at h
    cases book with
    | nil =>
      simp at h
      obtain ⟨rfl, rfl, rfl⟩ := h
      refine ⟨[], [], hl, ?_, by simp, ⟨rfl, rfl, rfl, rfl⟩, by simp⟩
      simp [run, apply, view, hl]
    | cons i rest =>
      simp only at h
      cases hc : s.collection with
      | none => simp [hc] at h
      | some col =>
        simp only [hc] at h
        cases hi : col[i]? with
        | none => simp [hi] at h
        | some item =>
          simp only [hi] at h
          split at h
          · simp at h
          · rename_i s3 e3 hca
            simp at h
            obtain ⟨rfl, rfl, rfl⟩ := h
            obtain ⟨⟨acts, r, p⟩, st⟩ := checkAll_ref hca
            refine ⟨i :: rest, acts, hl, ?_, p, ?_, ?_⟩
            · simp only [run, apply, view, hl]
              simpa [view] using r
            · obtain ⟨a1, a2, a3, a4⟩ := st
              exact ⟨a1, a2, by simpa [hc] using a3, a4⟩
            · exact ⟨col, rfl, hi, by simp⟩

theorem sendEach_ref {s s' : State τ} {e e' : Env} {num : Int} {ns : List Nat}
    (h : sendEach s e num ns = .ok (s', e')) : Ref false s e s' e' := by
  induction ns generalizing s e with
  | nil => simp [sendEach] at h; obtain ⟨rfl, rfl⟩ := h; exact Ref.refl _ _ _
  | cons n t ih =>
    simp only [sendEach, bind, Except.bind] at h
    cases h1 : sendTests s e n num with
    | error err => simp [h1] at h
    | ok p =>
      obtain ⟨s1, e1⟩ := p
      simp only [h1] at h
      exact (sendTests_ref false (by simp) h1).trans (ih h)

theorem roundRobin_ref {ns : List Nat} {s s' : State τ} {e e' : Env} {k i : Nat}
    (h : roundRobin ns s e k i = .ok (s', e')) : Ref false s e s' e' := by
  induction k generalizing s e i with
  | zero => simp [roundRobin] at h; obtain ⟨rfl, rfl⟩ := h; exact Ref.refl _ _ _
  | succ k ih =>
    simp only [roundRobin] at h
    cases hn : ns[i % ns.length]? with
    | none => simp [hn] at h
    | some n =>
      simp only [hn, bind, Except.bind] at h
      cases h1 : sendTests s e n 1 with
      | error err => simp [h1] at h
      | ok p =>
        obtain ⟨s1, e1⟩ := p
        simp only [h1] at h
        exact (sendTests_ref false (by simp) h1).trans (ih h)

/-- before the first successful `schedule()` nothing is outstanding -/
def Fresh (s : State τ) : Prop := s.collection = none → (view s).all = []

def reportActs (first : Nat) (col : List τ) (rest : AList Nat (List τ)) : List Act :=
  (rest.filter (fun p => p.2 ≠ col)).map (fun p => Act.report p.1 first)

theorem run_reports (v : View) (e : Env) (first : Nat) (col : List τ) (rest : AList Nat (List τ)) :
    run v e (reportActs first col rest) = some (v, { e with outs := e.outs ++ collectionDiffs first col rest }) := by
  unfold reportActs collectionDiffs
  generalize rest.filter (fun p => p.2 ≠ col) = l
  induction l generalizing e with
  | nil => simp [run]
  | cons p t ih =>
    simp only [List.map_cons, run, apply, Env.emit]
    rw [ih]
    simp

/-- shape of `schedule()` in contract terms -/
inductive SchedShape (s : State τ) (e : Env) (s' : State τ) (e' : Env) : Prop
  /-- later calls: re-examine every node -/
  | again (h : s.collection.isSome) (r : Ref true s e s' e')
  /-- the initial collections differ: only failed collect-reports, nothing is dispatched -/
  | mismatch (first : Nat) (col : List τ) (rest : AList Nat (List τ))
      (hreg : s.node2collection = (first, col) :: rest)
      (hne : ∃ p ∈ rest, p.2 ≠ col)
      (hs : s' = s) (he : e' = { e with outs := e.outs ++ collectionDiffs first col rest })
  /-- the initial collections agree: the pool becomes `range N`, then unguarded sends and shutdowns -/
  | first (first : Nat) (col : List τ) (rest : AList Nat (List τ))
      (hnone : s.collection = none)
      (hreg : s.node2collection = (first, col) :: rest)
      (hall : ∀ p ∈ rest, p.2 = col)
      (hcol : s'.collection = some col)
      (acts : List Act)
      (r : run (view s) e (.start col.length :: acts) = some (view s', e'))
      (p : ∀ a ∈ acts, OutAct false a)
      (hst : s'.numnodes = s.numnodes ∧ s'.node2collection = s.node2collection)

theorem initialSend_ref {s s' : State τ} {e e' : Env} {n : Nat} {msc : Int}
    (h : initialSend s e n msc = .ok (s', e')) : Ref false s e s' e' := by
  unfold initialSend at h
  obtain ⟨⟨s3, e3⟩, hsend, h⟩ := bind_ok.1 h
  have hr3 : Ref false s e s3 e3 := by
    unfold initialDistribute at hsend
    dsimp only at hsend
    split at hsend
    · exact roundRobin_ref hsend
    · split at hsend
      · simp at hsend
      · exact sendEach_ref hsend
  have hfin : Ref false s3 e3 s' e' := by
    simp only at h
    split at h
    · simp at h; obtain ⟨rfl, rfl⟩ := h; exact shutdownAll_ref _ _ _ _
    · simp at h; obtain ⟨rfl, rfl⟩ := h; exact Ref.refl _ _ _
  exact hr3.trans hfin

theorem scheduleFirst_shape {s s' : State τ} {e e' : Env} {first : Nat} {col : List τ}
    {rest : AList Nat (List τ)} (hf : Fresh s) (hc : s.collection = none)
    (hreg : s.node2collection = (first, col) :: rest)
    (h : scheduleFirst s e first col rest = .ok (s', e')) : SchedShape s e s' e' := by
  unfold scheduleFirst at h
  by_cases hd : (collectionDiffs first col rest).isEmpty = true
  · have hall : ∀ p ∈ rest, p.2 = col := by
      intro p hp
      refine Decidable.byContradiction fun hne => ?_
      have : (SOut.collectReport p.1 first) ∈ collectionDiffs first col rest := by
        unfold collectionDiffs
        exact List.mem_map.2 ⟨p, List.mem_filter.2 ⟨hp, by simpa using hne⟩, rfl⟩
      rw [List.isEmpty_iff] at hd
      rw [hd] at this
      exact absurd this (by simp)
    have hdn : collectionDiffs first col rest = [] := List.isEmpty_iff.1 hd
    have hcond : ((!(collectionDiffs first col rest).isEmpty) = true) = False := by simp [hd]
    simp only [hdn, List.append_nil] at h
    simp only [List.isEmpty_nil, Bool.not_true, Bool.false_eq_true, if_false] at h
    obtain ⟨hp0, hb0⟩ : s.pending = [] ∧ (AList.values s.node2pending).flatten = [] := by
      have := hf hc
      simpa [View.all, view] using this
    have hstart : apply (view s) e (.start col.length) =
        some (⟨List.range col.length, s.node2pending, none⟩, e) := by
      simp [apply, view, View.all, hp0, hb0]
    by_cases hce : col.isEmpty = true
    · simp only [hce, if_true] at h
      simp at h
      obtain ⟨rfl, rfl⟩ := h
      refine .first first col rest hc hreg hall rfl [] ?_ (by simp) ⟨rfl, rfl⟩
      simp only [run, hstart]
      rfl
    · simp only [hce] at h
      obtain ⟨⟨acts, r, p⟩, st⟩ := initialSend_ref h
      refine .first first col rest hc hreg hall ?_ acts ?_ p ?_
      · simpa using st.2.2.1
      · simp only [run, hstart]
        exact r
      · exact ⟨by simpa using st.1, by simpa using st.2.1⟩
  · have hne : ∃ p ∈ rest, p.2 ≠ col := by
      have : collectionDiffs first col rest ≠ [] := by
        intro h0; simp [h0] at hd
      unfold collectionDiffs at this
      obtain ⟨x, hx⟩ := List.exists_mem_of_ne_nil _ this
      obtain ⟨p, hp, _⟩ := List.mem_map.1 hx
      obtain ⟨hp1, hp2⟩ := List.mem_filter.1 hp
      exact ⟨p, hp1, by simpa using hp2⟩
    simp [hd] at h
    obtain ⟨rfl, rfl⟩ := h
    exact .mismatch first col rest hreg hne rfl rfl

theorem schedule_shape {s s' : State τ} {e e' : Env} (hf : Fresh s)
    (h : schedule s e = .ok (s', e')) : SchedShape s e s' e' := by
  unfold schedule at h
  split at h
  · simp at h
  · cases hc : s.collection with
    | some col0 =>
      simp only [hc] at h
      exact .again (by simp [hc]) (checkAll_ref h)
    | none =>
      simp only [hc] at h
      cases hreg : s.node2collection with
      | nil => simp [hreg] at h
      | cons pr rest =>
        obtain ⟨first, col⟩ := pr
        simp only [hreg] at h
        exact scheduleFirst_shape hf hc hreg h

/-! ### the ledger along any sequence of scheduler calls -/

/-- ghost history at the level of scheduler calls (what `DSession` observes) -/
def ghostOp (s s' : State τ) (g : Ghost) : SOp τ → Ghost
  | .markComplete _ i _ => { g with completed := i :: g.completed }
  | .removeNode n =>
    match AList.lookup s.node2pending n with
    | some (i :: _) => { g with crashed := i :: g.crashed }
    | _ => g
  | .markPending t =>
    match s.collection with
    | some col =>
      match PyList.index col t with
      | .ok idx => { g with requeued := idx :: g.requeued }
      | .error _ => g
    | none => g
  | .schedule =>
    match s.collection, s'.collection with
    | none, some col => { g with started := List.range col.length ++ g.started }
    | _, _ => g
  | _ => g

theorem out_not_legal_issue {gd : Bool} {a : Act} (h : OutAct gd a) (v : View) : Legal v a := by
  cases a <;> simp_all [OutAct, Legal]

theorem out_ghost {gd : Bool} {a : Act} (h : OutAct gd a) (v : View) (g : Ghost) : ghostStep v g a = g := by
  cases a <;> simp_all [OutAct, ghostStep]

theorem out_inc {gd : Bool} {a : Act} (h : OutAct gd a) (x : Nat) : inc a x = 0 := by
  cases a <;> simp_all [OutAct, inc]

theorem bal_out_run {gd : Bool} {v v' : View} {e e' : Env} {g : Ghost} {acts : List Act}
    (hb : Bal v g) (hp : ∀ a ∈ acts, OutAct gd a) (h : run v e acts = some (v', e')) : Bal v' g := by
  induction acts generalizing v e with
  | nil => simp [run] at h; obtain ⟨rfl, _⟩ := h; exact hb
  | cons a t ih =>
    simp only [run] at h
    cases ha : apply v e a with
    | none => simp [ha] at h
    | some p =>
      obtain ⟨v1, e1⟩ := p
      simp only [ha] at h
      have h1 := bal_step hb (out_not_legal_issue (hp a (by simp)) v) ha
      rw [out_ghost (hp a (by simp))] at h1
      exact ih h1 (fun a' ha' => hp a' (by simp [ha'])) h

theorem all_nil_out_run {gd : Bool} {v v' : View} {e e' : Env} {acts : List Act}
    (hv : v.all = []) (hp : ∀ a ∈ acts, OutAct gd a) (h : run v e acts = some (v', e')) : v'.all = [] := by
  induction acts generalizing v e with
  | nil => simp [run] at h; obtain ⟨rfl, _⟩ := h; exact hv
  | cons a t ih =>
    simp only [run] at h
    cases ha : apply v e a with
    | none => simp [ha] at h
    | some p =>
      obtain ⟨v1, e1⟩ := p
      simp only [ha] at h
      have h1 : v1.all = [] := by
        apply List.eq_nil_iff_forall_not_mem.2
        intro x hx
        have hc := count_step (out_not_legal_issue (hp a (by simp)) v) ha x
        rw [out_inc (hp a (by simp))] at hc
        have : 0 < List.count x v1.all := List.count_pos_iff.2 hx
        simp [hv] at hc
        omega
      exact ih h1 (fun a' ha' => hp a' (by simp [ha'])) h

/-- **Ledger theorem for `LoadScheduling`.**  Whatever `DSession` calls, in whatever order, as long as the
    call returns: outstanding + completed + crashed = started + re-queued, as multisets of indices. -/
theorem step_bal {s s' : State τ} {e e' : Env} {g : Ghost} {op : SOp τ} {ret : Option τ}
    (hf : Fresh s) (hb : Bal (view s) g) (h : step s e op = .ok (s', e', ret)) :
    Fresh s' ∧ Bal (view s') (ghostOp s s' g op) := by
  cases op with
  | addNode n =>
    simp only [step] at h
    obtain ⟨s1, h1, h2⟩ := map_ok.1 h
    simp at h2; obtain ⟨rfl, rfl, rfl⟩ := h2
    obtain ⟨ha, st⟩ := addNode_ref (e := e) h1
    have hbs := bal_step hb (by simp [Legal]) ha
    refine ⟨?_, by simpa [ghostStep, ghostOp] using hbs⟩
    intro hc
    have hv := hf (by rw [← st.2.2.1]; exact hc)
    apply List.eq_nil_iff_forall_not_mem.2
    intro x hx
    have hcs := count_step (by simp [Legal]) ha x
    have : 0 < List.count x (view s1).all := List.count_pos_iff.2 hx
    simp [hv, dec, inc] at hcs
    omega
  | addNodeCollection n c =>
    simp only [step] at h
    obtain ⟨s1, h1, h2⟩ := map_ok.1 h
    simp at h2; obtain ⟨rfl, rfl, rfl⟩ := h2
    obtain ⟨hv, hc, _, _⟩ := addNodeCollection_view h1
    refine ⟨?_, by simpa [ghostOp, hv] using hb⟩
    intro hcn; rw [hv]; exact hf (by rw [← hc]; exact hcn)
  | schedule =>
    simp only [step] at h
    obtain ⟨⟨s1, e1⟩, h1, h2⟩ := map_ok.1 h
    simp at h2; obtain ⟨rfl, rfl, rfl⟩ := h2
    cases schedule_shape hf h1 with
    | again hsome r =>
      obtain ⟨⟨acts, hr, p⟩, st⟩ := r
      obtain ⟨col, hcol⟩ := Option.isSome_iff_exists.1 hsome
      have hc1 : s1.collection = some col := by rw [st.2.2.1]; exact hcol
      refine ⟨by intro hcn; rw [hc1] at hcn; simp at hcn, ?_⟩
      simp only [ghostOp, hcol, hc1]
      exact bal_out_run hb p hr
    | mismatch first col rest hreg hne hs he =>
      subst hs
      refine ⟨hf, ?_⟩
      cases hc : s1.collection <;> simpa [ghostOp, hc] using hb
    | first first col rest hcn hreg hall hcol acts r p hst =>
      refine ⟨by intro hc; rw [hcol] at hc; simp at hc, ?_⟩
      simp only [ghostOp, hcn, hcol]
      simp only [run] at r
      cases hst0 : apply (view s) e (.start col.length) with
      | none => simp [hst0] at r
      | some pr =>
        obtain ⟨v1, e1'⟩ := pr
        simp only [hst0] at r
        have hb1 := bal_step hb (by simp [Legal]) hst0
        simp only [ghostStep] at hb1
        exact bal_out_run hb1 p r
  | markComplete n i slow =>
    simp only [step] at h
    obtain ⟨⟨s1, e1⟩, h1, h2⟩ := map_ok.1 h
    simp at h2; obtain ⟨rfl, rfl, rfl⟩ := h2
    obtain ⟨acts, r, p, st⟩ := markComplete_ref h1
    simp only [run] at r
    cases ha : apply (view s) e (.complete n i) with
    | none => simp [ha] at r
    | some pr =>
      obtain ⟨v1, e1'⟩ := pr
      simp only [ha] at r
      have hb1 := bal_step hb (by simp [Legal]) ha
      simp only [ghostStep] at hb1
      refine ⟨?_, by simpa [ghostOp] using bal_out_run hb1 p r⟩
      intro hc
      have hv := hf (by rw [← st.2.2.1]; exact hc)
      -- a completion needs a non-empty book: impossible when nothing is outstanding
      exfalso
      have hcs := count_step (by simp [Legal]) ha i
      simp [hv, dec, inc] at hcs
  | markPending t =>
    simp only [step] at h
    obtain ⟨⟨s1, e1⟩, h1, h2⟩ := map_ok.1 h
    simp at h2; obtain ⟨rfl, rfl, rfl⟩ := h2
    obtain ⟨col, idx, acts, hc, hi, r, p, st⟩ := markPending_ref h1
    simp only [run] at r
    cases ha : apply (view s) e (.requeue idx) with
    | none => simp [ha] at r
    | some pr =>
      obtain ⟨v1, e1'⟩ := pr
      simp only [ha] at r
      have hb1 := bal_step hb (by simp [Legal]) ha
      simp only [ghostStep] at hb1
      refine ⟨by intro hcn; rw [st.2.2.1, hc] at hcn; simp at hcn, ?_⟩
      simpa [ghostOp, hc, hi] using bal_out_run hb1 p r
  | removePending n is => simp [step] at h
  | removeNode n =>
    simp only [step] at h
    obtain ⟨book, acts, hl, r, p, st, hret⟩ := removeNode_ref h
    simp only [run] at r
    cases ha : apply (view s) e (.drop n) with
    | none => simp [ha] at r
    | some pr =>
      obtain ⟨v1, e1'⟩ := pr
      simp only [ha] at r
      have hb1 := bal_step hb (by simp [Legal]) ha
      have hg : ghostStep (view s) g (.drop n) = ghostOp s s' g (.removeNode n) := by
        simp only [ghostStep, ghostOp, view, hl]
        cases book with
        | nil => rfl
        | cons i rest => rfl
      rw [hg] at hb1
      refine ⟨?_, bal_out_run hb1 p r⟩
      intro hc
      have hv := hf (by rw [← st.2.2.1]; exact hc)
      have hv1 : v1.all = [] := by
        apply List.eq_nil_iff_forall_not_mem.2
        intro x hx
        have hcs := count_step (by simp [Legal]) ha x
        have : 0 < List.count x v1.all := List.count_pos_iff.2 hx
        simp [hv, inc] at hcs
        omega
      exact all_nil_out_run hv1 p r

/-- `started` is exactly the index range of the agreed collection -/
def StartedOK (s : State τ) (g : Ghost) : Prop :=
  g.started = match s.collection with | some col => List.range col.length | none => []

theorem step_started {s s' : State τ} {e e' : Env} {g : Ghost} {op : SOp τ} {ret : Option τ}
    (hf : Fresh s) (hs : StartedOK s g) (h : step s e op = .ok (s', e', ret)) :
    StartedOK s' (ghostOp s s' g op) := by
  unfold StartedOK at hs ⊢
  cases op with
  | addNode n =>
    simp only [step] at h
    obtain ⟨s1, h1, h2⟩ := map_ok.1 h
    simp at h2; obtain ⟨rfl, rfl, rfl⟩ := h2
    obtain ⟨_, st⟩ := addNode_ref (e := e) h1
    simpa [ghostOp, st.2.2.1] using hs
  | addNodeCollection n c =>
    simp only [step] at h
    obtain ⟨s1, h1, h2⟩ := map_ok.1 h
    simp at h2; obtain ⟨rfl, rfl, rfl⟩ := h2
    obtain ⟨_, hc, _, _⟩ := addNodeCollection_view h1
    simpa [ghostOp, hc] using hs
  | schedule =>
    simp only [step] at h
    obtain ⟨⟨s1, e1⟩, h1, h2⟩ := map_ok.1 h
    simp at h2; obtain ⟨rfl, rfl, rfl⟩ := h2
    cases schedule_shape hf h1 with
    | again hsome r =>
      obtain ⟨col, hcol⟩ := Option.isSome_iff_exists.1 hsome
      have hc1 : s1.collection = some col := by rw [r.static.2.2.1]; exact hcol
      simpa [ghostOp, hcol, hc1] using hs
    | mismatch first col rest hreg hne hs' he =>
      subst hs'
      cases hc : s1.collection <;> simpa [ghostOp, hc] using hs
    | first first col rest hcn hreg hall hcol acts r p hst =>
      simp [ghostOp, hcn, hcol] at hs ⊢
      simp [hs]
  | markComplete n i slow =>
    simp only [step] at h
    obtain ⟨⟨s1, e1⟩, h1, h2⟩ := map_ok.1 h
    simp at h2; obtain ⟨rfl, rfl, rfl⟩ := h2
    obtain ⟨_, _, _, st⟩ := markComplete_ref h1
    simpa [ghostOp, st.2.2.1] using hs
  | markPending t =>
    simp only [step] at h
    obtain ⟨⟨s1, e1⟩, h1, h2⟩ := map_ok.1 h
    simp at h2; obtain ⟨rfl, rfl, rfl⟩ := h2
    obtain ⟨col, idx, acts, hc, hi, r, p, st⟩ := markPending_ref h1
    simpa [ghostOp, hc, hi, st.2.2.1] using hs
  | removePending n is => simp [step] at h
  | removeNode n =>
    simp only [step] at h
    obtain ⟨book, acts, hl, r, p, st, hret⟩ := removeNode_ref h
    simp only [ghostOp, hl, st.2.2.1]
    cases book with
    | nil => simpa using hs
    | cons i rest => simpa using hs

/-- run a whole sequence of scheduler calls (every one must return), keeping the complete wire log in
    `Env.outs` and the ghost history -/
def runOps (s : State τ) (e : Env) (g : Ghost) : List (SOp τ) → Option (State τ × Env × Ghost)
  | [] => some (s, e, g)
  | op :: t =>
    match step s e op with
    | .error _ => none
    | .ok (s', e', _) => runOps s' e' (ghostOp s s' g op) t

theorem runOps_inv {s s' : State τ} {e e' : Env} {g g' : Ghost} {ops : List (SOp τ)}
    (hf : Fresh s) (hb : Bal (view s) g) (hs : StartedOK s g)
    (h : runOps s e g ops = some (s', e', g')) :
    Fresh s' ∧ Bal (view s') g' ∧ StartedOK s' g' := by
  induction ops generalizing s e g with
  | nil => simp [runOps] at h; obtain ⟨rfl, _, rfl⟩ := h; exact ⟨hf, hb, hs⟩
  | cons op t ih =>
    simp only [runOps] at h
    cases hst : step s e op with
    | error err => simp [hst] at h
    | ok r =>
      obtain ⟨s1, e1, ret⟩ := r
      simp only [hst] at h
      obtain ⟨hf1, hb1⟩ := step_bal hf hb hst
      exact ih hf1 hb1 (step_started hf hs hst) h

/-! ### wire well-formedness and duplicate-freeness along scheduler calls (C16) -/

theorem outAct_isOut {g : Bool} {a : Act} (h : OutAct g a) : IsOut a := by
  cases a <;> simp_all [OutAct, IsOut]

theorem outAct_guarded {a : Act} (h : OutAct true a) : Guarded a := by
  cases a <;> simp_all [OutAct, Guarded]

theorem sendTests_flags {s s' : State τ} {e e' : Env} {n : Nat} {num : Int}
    (h : sendTests s e n num = .ok (s', e')) : e'.flags = e.flags ∧ nodes s' = nodes s := by
  unfold sendTests at h
  obtain ⟨k, hk1, hk2⟩ := slice_take_drop s.pending num
  simp only [hk1, hk2] at h
  by_cases hemp : (s.pending.take k).isEmpty = true
  · simp [hemp] at h; obtain ⟨rfl, rfl⟩ := h; exact ⟨rfl, rfl⟩
  · simp only [hemp] at h
    cases hb : s.node2pending.get n with
    | error err => simp [hb, bind, Except.bind] at h
    | ok book =>
      simp only [hb, bind, Except.bind] at h
      unfold Env.sendRun Env.send at h
      by_cases hbr : (e.flags.get n).broken = true
      all_goals
        simp [hbr] at h
        obtain ⟨rfl, rfl⟩ := h
        refine ⟨rfl, ?_⟩
        simp only [nodes]
        exact AList.keys_set_of_mem _ _ _ (by simp [AList.get_eq_ok.1 hb])

theorem sendEach_ref_g {s s' : State τ} {e e' : Env} {num : Int} {ns : List Nat}
    (hg : ∀ n ∈ ns, e.flags.shuttingDown n = false)
    (h : sendEach s e num ns = .ok (s', e')) : Ref true s e s' e' := by
  induction ns generalizing s e with
  | nil => simp [sendEach] at h; obtain ⟨rfl, rfl⟩ := h; exact Ref.refl _ _ _
  | cons n t ih =>
    simp only [sendEach, bind, Except.bind] at h
    cases h1 : sendTests s e n num with
    | error err => simp [h1] at h
    | ok p =>
      obtain ⟨s1, e1⟩ := p
      simp only [h1] at h
      have hf := (sendTests_flags h1).1
      exact (sendTests_ref true (fun _ => hg n (by simp)) h1).trans
        (ih (fun m hm => by rw [hf]; exact hg m (by simp [hm])) h)

theorem roundRobin_ref_g {ns : List Nat} {s s' : State τ} {e e' : Env} {k i : Nat}
    (hg : ∀ n ∈ ns, e.flags.shuttingDown n = false)
    (h : roundRobin ns s e k i = .ok (s', e')) : Ref true s e s' e' := by
  induction k generalizing s e i with
  | zero => simp [roundRobin] at h; obtain ⟨rfl, rfl⟩ := h; exact Ref.refl _ _ _
  | succ k ih =>
    simp only [roundRobin] at h
    cases hn : ns[i % ns.length]? with
    | none => simp [hn] at h
    | some n =>
      simp only [hn, bind, Except.bind] at h
      cases h1 : sendTests s e n 1 with
      | error err => simp [h1] at h
      | ok p =>
        obtain ⟨s1, e1⟩ := p
        simp only [h1] at h
        have hmem : n ∈ ns := List.mem_of_getElem? hn
        have hf := (sendTests_flags h1).1
        exact (sendTests_ref true (fun _ => hg n hmem) h1).trans
          (ih (fun m hm => by rw [hf]; exact hg m hm) h)

/-- when no registered node is shutting down, the initial distribution consists of guarded acts only -/
theorem initialSend_ref_g {s s' : State τ} {e e' : Env} {n : Nat} {msc : Int}
    (hg : ∀ m ∈ nodes s, e.flags.shuttingDown m = false)
    (h : initialSend s e n msc = .ok (s', e')) : Ref true s e s' e' := by
  unfold initialSend at h
  obtain ⟨⟨s3, e3⟩, hsend, h⟩ := bind_ok.1 h
  have hr3 : Ref true s e s3 e3 := by
    unfold initialDistribute at hsend
    dsimp only at hsend
    split at hsend
    · exact roundRobin_ref_g hg hsend
    · split at hsend
      · simp at hsend
      · exact sendEach_ref_g hg hsend
  have hfin : Ref true s3 e3 s' e' := by
    simp only at h
    split at h
    · simp at h; obtain ⟨rfl, rfl⟩ := h; exact shutdownAll_ref _ _ _ _
    · simp at h; obtain ⟨rfl, rfl⟩ := h; exact Ref.refl _ _ _
  exact hr3.trans hfin

/-- All acts of one scheduler call, provided the first `schedule()` finds no registered node shutting down. -/
theorem step_acts {s s' : State τ} {e e' : Env} {op : SOp τ} {ret : Option τ}
    (hf : Fresh s)
    (hclean : op = .schedule → s.collection = none → ∀ m ∈ nodes s, e.flags.shuttingDown m = false)
    (h : step s e op = .ok (s', e', ret)) :
    ∃ acts, run (view s) e acts = some (view s', e') ∧ (∀ a ∈ acts, Guarded a) := by
  cases op with
  | addNode n =>
    simp only [step] at h
    obtain ⟨s1, h1, h2⟩ := map_ok.1 h
    simp at h2; obtain ⟨rfl, rfl, rfl⟩ := h2
    obtain ⟨ha, _⟩ := addNode_ref (e := e) h1
    exact ⟨[.register n], by simp [run, ha], by simp [Guarded]⟩
  | addNodeCollection n c =>
    simp only [step] at h
    obtain ⟨s1, h1, h2⟩ := map_ok.1 h
    simp at h2; obtain ⟨rfl, rfl, rfl⟩ := h2
    obtain ⟨hv, _⟩ := addNodeCollection_view h1
    exact ⟨[], by simp [run, hv], by simp⟩
  | schedule =>
    simp only [step] at h
    obtain ⟨⟨s1, e1⟩, h1, h2⟩ := map_ok.1 h
    simp at h2; obtain ⟨rfl, rfl, rfl⟩ := h2
    unfold schedule at h1
    split at h1
    · simp at h1
    · cases hc : s.collection with
      | some col0 =>
        simp only [hc] at h1
        obtain ⟨⟨acts, r, p⟩, _⟩ := checkAll_ref h1
        exact ⟨acts, r, fun a ha => outAct_guarded (p a ha)⟩
      | none =>
        simp only [hc] at h1
        cases hreg : s.node2collection with
        | nil => simp [hreg] at h1
        | cons pr rest =>
          obtain ⟨first, col⟩ := pr
          simp only [hreg] at h1
          have hcl := hclean rfl hc
          unfold scheduleFirst at h1
          by_cases hd : (collectionDiffs first col rest).isEmpty = true
          · have hdn : collectionDiffs first col rest = [] := List.isEmpty_iff.1 hd
            simp only [hdn, List.append_nil] at h1
            simp only [List.isEmpty_nil, Bool.not_true, Bool.false_eq_true, if_false] at h1
            obtain ⟨hp0, hb0⟩ : s.pending = [] ∧ (AList.values s.node2pending).flatten = [] := by
              have := hf hc
              simpa [View.all, view] using this
            have hstart : apply (view s) e (.start col.length) =
                some (⟨List.range col.length, s.node2pending, none⟩, e) := by
              simp [apply, view, View.all, hp0, hb0]
            by_cases hce : col.isEmpty = true
            · simp only [hce, if_true] at h1
              simp at h1
              obtain ⟨rfl, rfl⟩ := h1
              refine ⟨[.start col.length], ?_, by simp [Guarded]⟩
              simp only [run, hstart]; rfl
            · simp only [hce] at h1
              obtain ⟨⟨acts, r, p⟩, _⟩ := initialSend_ref_g (by simpa [nodes] using hcl) h1
              refine ⟨.start col.length :: acts, ?_, ?_⟩
              · simp only [run, hstart]; exact r
              · intro a ha
                rcases List.mem_cons.1 ha with rfl | ha
                · simp [Guarded]
                · exact outAct_guarded (p a ha)
          · simp [hd] at h1
            obtain ⟨rfl, rfl⟩ := h1
            refine ⟨reportActs first col rest, run_reports _ _ _ _ _, ?_⟩
            intro a ha
            unfold reportActs at ha
            obtain ⟨p, _, rfl⟩ := List.mem_map.1 ha
            simp [Guarded]
  | markComplete n i slow =>
    simp only [step] at h
    obtain ⟨⟨s1, e1⟩, h1, h2⟩ := map_ok.1 h
    simp at h2; obtain ⟨rfl, rfl, rfl⟩ := h2
    obtain ⟨acts, r, p, _⟩ := markComplete_ref h1
    refine ⟨_, r, ?_⟩
    intro a ha
    rcases List.mem_cons.1 ha with rfl | ha
    · simp [Guarded]
    · exact outAct_guarded (p a ha)
  | markPending t =>
    simp only [step] at h
    obtain ⟨⟨s1, e1⟩, h1, h2⟩ := map_ok.1 h
    simp at h2; obtain ⟨rfl, rfl, rfl⟩ := h2
    obtain ⟨col, idx, acts, hc, hi, r, p, _⟩ := markPending_ref h1
    refine ⟨_, r, ?_⟩
    intro a ha
    rcases List.mem_cons.1 ha with rfl | ha
    · simp [Guarded]
    · exact outAct_guarded (p a ha)
  | removePending n is => simp [step] at h
  | removeNode n =>
    simp only [step] at h
    obtain ⟨book, acts, hl, r, p, _, _⟩ := removeNode_ref h
    refine ⟨_, r, ?_⟩
    intro a ha
    rcases List.mem_cons.1 ha with rfl | ha
    · simp [Guarded]
    · exact outAct_guarded (p a ha)

/-- **Wire theorem for `LoadScheduling`** (one call): at most one shutdown per node and nothing behind it. -/
theorem step_wire {s s' : State τ} {e e' : Env} {op : SOp τ} {ret : Option τ}
    (hf : Fresh s)
    (hclean : op = .schedule → s.collection = none → ∀ m ∈ nodes s, e.flags.shuttingDown m = false)
    (h1 : NoAfter e.outs) (h2 : SentSync e)
    (h : step s e op = .ok (s', e', ret)) : NoAfter e'.outs ∧ SentSync e' := by
  obtain ⟨acts, r, p⟩ := step_acts hf hclean h
  exact run_wire p h1 h2 r

/-- size of the agreed collection (0 before agreement) -/
def total (s : State τ) : Nat := match s.collection with | some col => col.length | none => 0

/-- **No index is outstanding twice, and every outstanding index is a valid position** — one scheduler call.
    The only environment obligation: a plugin re-queues (`mark_test_pending`) a test that is not outstanding
    (the crashed one it was just handed). -/
theorem step_nodup_bounded {s s' : State τ} {e e' : Env} {op : SOp τ} {ret : Option τ}
    (hf : Fresh s) (hn : (view s).all.Nodup) (hb : Bounded (total s) (view s))
    (hreq : ∀ t col idx, op = .markPending t → s.collection = some col → PyList.index col t = .ok idx →
              idx ∉ (view s).all)
    (h : step s e op = .ok (s', e', ret)) :
    (view s').all.Nodup ∧ Bounded (total s') (view s') := by
  cases op with
  | addNode n =>
    simp only [step] at h
    obtain ⟨s1, h1, h2⟩ := map_ok.1 h
    simp at h2; obtain ⟨rfl, rfl, rfl⟩ := h2
    obtain ⟨ha, st⟩ := addNode_ref (e := e) h1
    have ht : total s1 = total s := by simp [total, st.2.2.1]
    rw [ht]
    exact ⟨nodup_step hn (by simp [Legal]) (by intro i hi; simp at hi) ha,
      bounded_step hb (by simp [Legal]) (by intro i hi; simp at hi) (by intro t ht; simp at ht) ha⟩
  | addNodeCollection n c =>
    simp only [step] at h
    obtain ⟨s1, h1, h2⟩ := map_ok.1 h
    simp at h2; obtain ⟨rfl, rfl, rfl⟩ := h2
    obtain ⟨hv, hc, _, _⟩ := addNodeCollection_view h1
    have ht : total s1 = total s := by simp [total, hc]
    rw [ht, hv]; exact ⟨hn, hb⟩
  | schedule =>
    simp only [step] at h
    obtain ⟨⟨s1, e1⟩, h1, h2⟩ := map_ok.1 h
    simp at h2; obtain ⟨rfl, rfl, rfl⟩ := h2
    cases schedule_shape hf h1 with
    | again hsome r =>
      obtain ⟨⟨acts, hr, p⟩, st⟩ := r
      have ht : total s1 = total s := by simp [total, st.2.2.1]
      rw [ht]
      exact ⟨nodup_out_run hn (fun a ha => outAct_isOut (p a ha)) hr,
        bounded_out_run hb (fun a ha => outAct_isOut (p a ha)) hr⟩
    | mismatch first col rest hreg hne hs he => subst hs; exact ⟨hn, hb⟩
    | first first col rest hcn hreg hall hcol acts r p hst =>
      have ht : total s1 = col.length := by simp [total, hcol]
      rw [ht]
      have hb0 : Bounded col.length (view s) := by
        intro i hi
        have := hf hcn
        rw [this] at hi; simp at hi
      exact ⟨nodup_head_out hn (by simp [Legal]) (by intro i hi; simp at hi) (fun a ha => outAct_isOut (p a ha)) r,
        bounded_head_out hb0 (by simp [Legal]) (by intro i hi; simp at hi)
          (by intro t ht; simp at ht; exact ht.symm) (fun a ha => outAct_isOut (p a ha)) r⟩
  | markComplete n i slow =>
    simp only [step] at h
    obtain ⟨⟨s1, e1⟩, h1, h2⟩ := map_ok.1 h
    simp at h2; obtain ⟨rfl, rfl, rfl⟩ := h2
    obtain ⟨acts, r, p, st⟩ := markComplete_ref h1
    have ht : total s1 = total s := by simp [total, st.2.2.1]
    rw [ht]
    exact ⟨nodup_head_out hn (by simp [Legal]) (by intro i hi; simp at hi) (fun a ha => outAct_isOut (p a ha)) r,
      bounded_head_out hb (by simp [Legal]) (by intro i hi; simp at hi) (by intro t ht; simp at ht)
        (fun a ha => outAct_isOut (p a ha)) r⟩
  | markPending t =>
    simp only [step] at h
    obtain ⟨⟨s1, e1⟩, h1, h2⟩ := map_ok.1 h
    simp at h2; obtain ⟨rfl, rfl, rfl⟩ := h2
    obtain ⟨col, idx, acts, hc, hi, r, p, st⟩ := markPending_ref h1
    have ht : total s1 = total s := by simp [total, st.2.2.1]
    rw [ht]
    have hlt : idx < total s := by simp [total, hc]; exact index_lt_of_ok hi
    exact ⟨nodup_head_out hn (by simp [Legal])
        (by intro i hi'; simp at hi'; subst hi'; exact hreq t col idx rfl hc hi) (fun a ha => outAct_isOut (p a ha)) r,
      bounded_head_out hb (by simp [Legal]) (by intro i hi'; simp at hi'; subst hi'; exact hlt)
        (by intro t ht; simp at ht) (fun a ha => outAct_isOut (p a ha)) r⟩
  | removePending n is => simp [step] at h
  | removeNode n =>
    simp only [step] at h
    obtain ⟨book, acts, hl, r, p, st, _⟩ := removeNode_ref h
    have ht : total s' = total s := by simp [total, st.2.2.1]
    rw [ht]
    exact ⟨nodup_head_out hn (by simp [Legal]) (by intro i hi; simp at hi) (fun a ha => outAct_isOut (p a ha)) r,
      bounded_head_out hb (by simp [Legal]) (by intro i hi; simp at hi) (by intro t ht; simp at ht)
        (fun a ha => outAct_isOut (p a ha)) r⟩

end Xdist.Load
