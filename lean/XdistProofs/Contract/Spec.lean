import XdistModel.Sched.Node
import XdistProofs.Lemmas.AList
/-!
  The abstract scheduler contract (DESIGN §3.3, L2).

  A `View` is what every load-balancing scheduler maintains, whatever its data structures:
  an unassigned `pool`, one `book` per registered node, and at most one outstanding steal request.
  Everything a scheduler does is a sequence of primitive `Act`s.  The invariants of the
  properties (conservation of tests, duplicate-freeness, well-formed wire) are proved once,
  here, for every act; each concrete scheduler is then proved to refine the contract
  (`LoadRefines`, `WorkStealRefines`).
-/
namespace Xdist.Contract
open Xdist

structure View where
  pool : List Nat := []
  books : AList Nat (List Nat) := []
  req : Option Nat := none
  deriving Repr, DecidableEq

/-- every test the controller still owes a result for, with multiplicity -/
def View.all (v : View) : List Nat := v.pool ++ v.books.values.flatten

inductive Act where
  /-- `_send_tests`: a non-empty prefix of the pool goes to the end of `n`'s book and on the wire;
      `guarded` records that the scheduler checked `shutting_down` first -/
  | send (n : Nat) (k : Nat) (guarded : Bool)
  | shut (n : Nat)
  /-- ask `n` to give back the last `k` tests of its book -/
  | steal (n : Nat) (k : Nat)
  | report (n first : Nat)
  | complete (n i : Nat)
  | drop (n : Nat)
  | requeue (i : Nat)
  | unsched (n : Nat) (is : List Nat)
  | register (n : Nat)
  | start (total : Nat)
  deriving Repr, DecidableEq

/-- executable semantics of one act; `none` = the act is not permitted in this state -/
def apply (v : View) (e : Env) : Act → Option (View × Env)
  | .send n k guarded =>
    match AList.lookup v.books n with
    | none => none
    | some book =>
      let ts := v.pool.take k
      if ts.isEmpty then none
      else if guarded && e.flags.shuttingDown n then none
      else some ({ v with pool := v.pool.drop k, books := AList.set v.books n (book ++ ts) },
                 -- a peer that is gone: the command does not reach the wire (`sendcommand` swallows the `OSError`)
                 if (e.flags.get n).broken then e else e.emit (.run n ts))
  | .shut n => some (v, e.shutdown n)
  | .steal n k =>
    match AList.lookup v.books n with
    | none => none
    | some book =>
      if k = 0 ∨ book.length < k + 2 then none
      else if v.req.isSome then none
      else if e.flags.shuttingDown n then none
      else some ({ v with req := some n },
                 if (e.flags.get n).broken then e else e.emit (.steal n (book.drop (book.length - k))))
  | .report n f => some (v, e.emit (.collectReport n f))
  | .complete n i =>
    match AList.lookup v.books n with
    | none => none
    | some book =>
      if i ∈ book then some ({ v with books := AList.set v.books n (book.erase i) }, e) else none
  | .drop n =>
    match AList.lookup v.books n with
    | none => none
    | some book =>
      some ({ pool := v.pool ++ book.tail, books := AList.erase v.books n,
              req := if v.req = some n then none else v.req }, e)
  | .requeue i => some ({ v with pool := i :: v.pool }, e)
  | .unsched n is =>
    match AList.lookup v.books n with
    | none => none
    | some book =>
      if v.req = some n then
        some ({ pool := v.pool ++ is,
                books := AList.set v.books n (book.filter (fun i => !is.contains i)), req := none }, e)
      else none
  | .register n =>
    if (AList.lookup v.books n).isSome then none
    else some ({ v with books := AList.set v.books n [] }, e)
  | .start total =>
    if v.all.isEmpty then some ({ v with pool := List.range total }, e) else none

def run (v : View) (e : Env) : List Act → Option (View × Env)
  | [] => some (v, e)
  | a :: t =>
    match apply v e a with
    | none => none
    | some (v', e') => run v' e' t

theorem run_append {v : View} {e : Env} {as bs : List Act} {v' : View} {e' : Env}
    (h : run v e as = some (v', e')) : run v e (as ++ bs) = run v' e' bs := by
  induction as generalizing v e with
  | nil => simp [run] at h; obtain ⟨rfl, rfl⟩ := h; rfl
  | cons a t ih =>
    simp only [run, List.cons_append] at h ⊢
    cases ha : apply v e a with
    | none => simp [ha] at h
    | some p => obtain ⟨v1, e1⟩ := p; simp [ha] at h ⊢; exact ih h

end Xdist.Contract
