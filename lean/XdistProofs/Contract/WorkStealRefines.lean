import XdistModel.Sched.WorkSteal
import XdistProofs.Contract.Spec
import XdistProofs.Contract.Invariants
import XdistProofs.Contract.Wire
import XdistProofs.Lemmas.Except
/-!
  `WorkStealingScheduling` refines the contract on the view `(pending, node2pending, steal_requested_from_node)`.
-/
namespace Xdist.WorkSteal
open Xdist Xdist.Contract

variable {τ : Type} [DecidableEq τ]

def view (s : State τ) : View := { pool := s.pending, books := s.node2pending, req := s.stealReq }

def SameStatic (s s' : State τ) : Prop :=
  s'.numnodes = s.numnodes ∧ s'.node2collection = s.node2collection ∧ s'.collection = s.collection

theorem SameStatic.refl (s : State τ) : SameStatic s s := ⟨rfl, rfl, rfl⟩
theorem SameStatic.trans {a b c : State τ} (h1 : SameStatic a b) (h2 : SameStatic b c) : SameStatic a c := by
  obtain ⟨a1, a2, a3⟩ := h1; obtain ⟨b1, b2, b3⟩ := h2
  exact ⟨b1.trans a1, b2.trans a2, b3.trans a3⟩

/-- acts a work-stealing scheduler performs on its own: guarded sends, shutdowns, steal requests -/
def OutAct : Act → Prop
  | .send _ _ g => g = true
  | .shut _ => True
  | .steal _ _ => True
  | _ => False

structure Ref (s : State τ) (e : Env) (s' : State τ) (e' : Env) : Prop where
  acts : ∃ acts, run (view s) e acts = some (view s', e') ∧ (∀ a ∈ acts, OutAct a)
  static : SameStatic s s'
  keys : AList.keys s'.node2pending = AList.keys s.node2pending

theorem Ref.refl (s : State τ) (e : Env) : Ref s e s e :=
  ⟨⟨[], rfl, by simp⟩, SameStatic.refl s, rfl⟩

theorem Ref.trans {s1 s2 s3 : State τ} {e1 e2 e3 : Env}
    (h1 : Ref s1 e1 s2 e2) (h2 : Ref s2 e2 s3 e3) : Ref s1 e1 s3 e3 := by
  obtain ⟨⟨a1, r1, p1⟩, st1, k1⟩ := h1
  obtain ⟨⟨a2, r2, p2⟩, st2, k2⟩ := h2
  refine ⟨⟨a1 ++ a2, ?_, ?_⟩, st1.trans st2, k2.trans k1⟩
  · rw [run_append r1]; exact r2
  · intro a ha
    rcases List.mem_append.1 ha with h | h
    · exact p1 a h
    · exact p2 a h

theorem sendTests_ref {s s' : State τ} {e e' : Env} {n num : Nat}
    (hg : e.flags.shuttingDown n = false)
    (h : sendTests s e n num = .ok (s', e')) : Ref s e s' e' ∧ e'.flags = e.flags := by
  unfold sendTests at h
  by_cases hemp : (s.pending.take num).isEmpty = true
  · simp [hemp] at h
    obtain ⟨rfl, rfl⟩ := h
    exact ⟨Ref.refl _ _, rfl⟩
  · simp only [hemp] at h
    cases hb : s.node2pending.get n with
    | error err => simp [hb, bind, Except.bind] at h
    | ok book =>
      have hl := AList.get_eq_ok.1 hb
      simp only [hb, bind, Except.bind] at h
      unfold Env.sendRun Env.send at h
      by_cases hbr : (e.flags.get n).broken = true
      all_goals
        simp [hbr] at h
        obtain ⟨rfl, rfl⟩ := h
        refine ⟨⟨⟨[.send n num true], ?_, ?_⟩, ⟨rfl, rfl, rfl⟩, ?_⟩, rfl⟩
        · simp [run, apply, view, hl, hemp, hbr, hg]
        · intro a ha; simp at ha; subst ha; simp [OutAct]
        · exact AList.keys_set_of_mem _ _ _ (by simp [hl])

theorem shutdown_ref (s : State τ) (e : Env) (n : Nat) : Ref s e s (e.shutdown n) :=
  ⟨⟨[.shut n], by simp [run, apply], by simp [OutAct]⟩, SameStatic.refl s, rfl⟩

theorem shutdownAll_ref (s : State τ) (e : Env) (ns : List Nat) : Ref s e s (e.shutdownAll ns) := by
  induction ns generalizing e with
  | nil => exact Ref.refl s e
  | cons n t ih => exact (shutdown_ref s e n).trans (ih _)

theorem distribute_ref {s s' : State τ} {e e' : Env} {ns : List Nat}
    (hg : ∀ n ∈ ns, e.flags.shuttingDown n = false)
    (h : distribute s e ns = .ok (s', e')) : Ref s e s' e' ∧ e'.flags = e.flags := by
  induction ns generalizing s e with
  | nil => simp [distribute] at h; obtain ⟨rfl, rfl⟩ := h; exact ⟨Ref.refl _ _, rfl⟩
  | cons n t ih =>
    simp only [distribute] at h
    obtain ⟨⟨s1, e1⟩, h1, h2⟩ := bind_ok.1 h
    obtain ⟨r1, f1⟩ := sendTests_ref (hg n (by simp)) h1
    obtain ⟨r2, f2⟩ := ih (e := e1) (fun m hm => by rw [f1]; exact hg m (by simp [hm])) h2
    exact ⟨r1.trans r2, f2.trans f1⟩

theorem maxBy_mem {up : AList Nat (List Nat)} {p : Nat × List Nat} (h : maxBy up = some p) : p ∈ up := by
  induction up generalizing p with
  | nil => simp [maxBy] at h
  | cons q t ih =>
    simp only [maxBy] at h
    cases hm : maxBy t with
    | none => simp [hm] at h; subst h; simp
    | some r =>
      simp only [hm] at h
      split at h
      · simp at h; subst h; exact List.mem_cons_of_mem _ (ih hm)
      · simp at h; subst h; simp

/-- with distinct keys, an entry of the dict is what `lookup` finds -/
theorem lookup_of_mem {d : AList Nat (List Nat)} {n : Nat} {b : List Nat}
    (hnd : (AList.keys d).Nodup) (h : (n, b) ∈ d) : AList.lookup d n = some b := by
  induction d with
  | nil => simp at h
  | cons q t ih =>
    obtain ⟨k, w⟩ := q
    simp [AList.keys] at hnd
    rcases List.mem_cons.1 h with h | h
    · simp at h; obtain ⟨rfl, rfl⟩ := h; simp [AList.lookup]
    · have hk : k ≠ n := by
        intro hkn; subst hkn
        exact hnd.1 b h
      simp [AList.lookup, hk]
      exact ih (by simpa [AList.keys] using hnd.2) h

theorem stealOrShutdown_ref {s s' : State τ} {e e' : Env} {up : AList Nat (List Nat)} {idle : List Nat}
    (hnd : (AList.keys s.node2pending).Nodup)
    (hup : ∀ p ∈ up, p ∈ s.node2pending ∧ e.flags.shuttingDown p.1 = false)
    (h : stealOrShutdown s e up idle = .ok (s', e')) : Ref s e s' e' := by
  unfold stealOrShutdown at h
  split at h
  · simp at h; obtain ⟨rfl, rfl⟩ := h; exact Ref.refl _ _
  · rename_i hreq
    cases hm : maxBy up with
    | none => simp [hm] at h; obtain ⟨rfl, rfl⟩ := h; exact shutdownAll_ref _ _ _
    | some p =>
      obtain ⟨victim, book⟩ := p
      simp only [hm] at h
      split at h
      · simp at h; obtain ⟨rfl, rfl⟩ := h; exact shutdownAll_ref _ _ _
      · rename_i hns
        obtain ⟨e2, hs2, h2⟩ := bind_ok.1 h
        simp at h2; obtain ⟨rfl, rfl⟩ := h2
        obtain ⟨hmem, hsd⟩ := hup _ (maxBy_mem hm)
        have hl := lookup_of_mem hnd hmem
        unfold Env.sendSteal Env.send at hs2
        by_cases hbr : (e.flags.get victim).broken = true
        all_goals
          simp [hbr] at hs2
          subst hs2
          refine ⟨⟨[.steal victim (min (book.length / 2) (book.length - minPending))], ?_, ?_⟩,
            ⟨rfl, rfl, rfl⟩, rfl⟩
          · have hreq' : s.stealReq = none := by
              cases hq : s.stealReq with
              | none => rfl
              | some x => simp [hq] at hreq
            have hk : ¬ (min (book.length / 2) (book.length - minPending) = 0 ∨
                book.length < min (book.length / 2) (book.length - minPending) + 2) := by
              unfold minPending at hns ⊢
              omega
            simp only [run, apply, view, hl, hk, if_false, hreq']
            simp [hbr, hsd]
          · intro a ha; simp at ha; subst ha; simp [OutAct]

theorem nodesUp_spec {s : State τ} {e : Env} :
    ∀ p ∈ nodesUp s e, p ∈ s.node2pending ∧ e.flags.shuttingDown p.1 = false := by
  intro p hp
  unfold nodesUp at hp
  obtain ⟨h1, h2⟩ := List.mem_filter.1 hp
  exact ⟨h1, by simpa using h2⟩

theorem idleOf_spec {up : AList Nat (List Nat)} {n : Nat} (h : n ∈ idleOf up) : ∃ b, (n, b) ∈ up := by
  unfold idleOf at h
  obtain ⟨p, hp, rfl⟩ := List.mem_map.1 h
  exact ⟨p.2, (List.mem_filter.1 hp).1⟩

/-- `check_schedule` consists of guarded sends, steal requests and shutdowns only. -/
theorem checkSchedule_ref {s s' : State τ} {e e' : Env}
    (hnd : (AList.keys s.node2pending).Nodup)
    (h : checkSchedule s e = .ok (s', e')) : Ref s e s' e' := by
  unfold checkSchedule at h
  split at h
  · simp at h; obtain ⟨rfl, rfl⟩ := h; exact Ref.refl _ _
  · dsimp only at h
    split at h
    · simp at h; obtain ⟨rfl, rfl⟩ := h; exact Ref.refl _ _
    · split at h
      · exact stealOrShutdown_ref hnd nodesUp_spec h
      · obtain ⟨⟨s1, e1⟩, hd, h2⟩ := bind_ok.1 h
        have hidle : ∀ n ∈ idleOf (nodesUp s e), e.flags.shuttingDown n = false := by
          intro n hn
          obtain ⟨b, hb⟩ := idleOf_spec hn
          exact (nodesUp_spec _ hb).2
        obtain ⟨r1, f1⟩ := distribute_ref hidle hd
        dsimp only at h2
        split at h2
        · simp at h2; obtain ⟨rfl, rfl⟩ := h2; exact r1
        · have hnd1 : (AList.keys s1.node2pending).Nodup := by rw [r1.keys]; exact hnd
          have hup : ∀ p ∈ nodesUp s1 e, p ∈ s1.node2pending ∧ e1.flags.shuttingDown p.1 = false := by
            intro p hp
            have := nodesUp_spec (s := s1) (e := e) p hp
            exact ⟨this.1, by rw [f1]; exact this.2⟩
          exact r1.trans (stealOrShutdown_ref hnd1 hup h2)

/-! ### scheduler calls -/

def KeysNodup (s : State τ) : Prop := (AList.keys s.node2pending).Nodup
def Fresh (s : State τ) : Prop := s.collection = none → (view s).all = []

theorem addNode_ref {s s' : State τ} {e : Env} {n : Nat} (hk : KeysNodup s) (h : addNode s n = .ok s') :
    apply (view s) e (.register n) = some (view s', e) ∧ SameStatic s s' ∧ KeysNodup s' := by
  unfold addNode at h
  split at h
  · simp at h
  · rename_i hc
    simp at h; subst h
    simp [AList.contains] at hc
    refine ⟨by simp [apply, view, hc], ⟨rfl, rfl, rfl⟩, ?_⟩
    unfold KeysNodup at hk ⊢
    rw [AList.keys_set_of_not_mem _ _ _ hc]
    refine List.nodup_append.2 ⟨hk, by simp, ?_⟩
    intro a ha b hb
    simp at hb; subst hb
    intro hab; subst hab
    have := (AList.lookup_isSome_iff_mem_keys s.node2pending a).2 ha
    simp [hc] at this

theorem addNodeCollection_view {s s' : State τ} {n : Nat} {c : List τ}
    (h : addNodeCollection s n c = .ok s') :
    view s' = view s ∧ s'.collection = s.collection ∧ s'.numnodes = s.numnodes
      ∧ s'.node2pending = s.node2pending ∧ s'.stealReq = s.stealReq := by
  unfold addNodeCollection at h
  split at h
  · simp at h
  · split at h
    · split at h
      · simp at h
      · split at h
        · simp at h
        · split at h
          · simp at h; subst h; simp
          · simp at h; subst h; simp [view]
    · simp at h; subst h; simp [view]

theorem markComplete_ref {s s' : State τ} {e e' : Env} {n i : Nat} (hk : KeysNodup s)
    (h : markComplete s e n i = .ok (s', e')) :
    ∃ acts, run (view s) e (.complete n i :: acts) = some (view s', e') ∧
      (∀ a ∈ acts, OutAct a) ∧ SameStatic s s' ∧ KeysNodup s' := by
  unfold markComplete at h
  obtain ⟨book, hb, h⟩ := bind_ok.1 h
  obtain ⟨book', hr, h⟩ := bind_ok.1 h
  unfold PyList.remove at hr
  split at hr
  · rename_i hi
    simp at hr; subst hr
    have hl := AList.get_eq_ok.1 hb
    have hk1 : (AList.keys (AList.set s.node2pending n (book.erase i))).Nodup := by
      rw [AList.keys_set_of_mem _ _ _ (by simp [hl])]; exact hk
    obtain ⟨⟨acts, r, p⟩, st, ks⟩ := checkSchedule_ref hk1 h
    refine ⟨acts, ?_, p, st, ?_⟩
    · simp only [run, apply, view, hl, hi, if_true]; exact r
    · unfold KeysNodup; rw [ks]; exact hk1
  · simp at hr

theorem markPending_ref {s s' : State τ} {e e' : Env} {t : τ} (hk : KeysNodup s)
    (h : markPending s e t = .ok (s', e')) :
    ∃ col idx acts, s.collection = some col ∧ PyList.index col t = .ok idx ∧
      run (view s) e (.requeue idx :: acts) = some (view s', e') ∧
      (∀ a ∈ acts, OutAct a) ∧ SameStatic s s' ∧ KeysNodup s' := by
  unfold markPending at h
  cases hc : s.collection with
  | none => simp [hc] at h
  | some col =>
    simp only [hc] at h
    obtain ⟨idx, hi, h⟩ := bind_ok.1 h
    obtain ⟨⟨acts, r, p⟩, st, ks⟩ := checkSchedule_ref (s := _) (by exact hk) h
    obtain ⟨a1, a2, a3⟩ := st
    exact ⟨col, idx, acts, rfl, hi, by simpa [run, apply, view] using r, p,
      ⟨a1, a2, by simpa [hc] using a3⟩, by unfold KeysNodup; rw [ks]; exact hk⟩

theorem removePending_ref {s s' : State τ} {e e' : Env} {n : Nat} {is : List Nat} (hk : KeysNodup s)
    (h : removePending s e n is = .ok (s', e')) :
    ∃ acts, run (view s) e (.unsched n is :: acts) = some (view s', e') ∧
      (∀ a ∈ acts, OutAct a) ∧ SameStatic s s' ∧ KeysNodup s' := by
  unfold removePending at h
  split at h
  · simp at h
  · rename_i hreq
    simp at hreq
    obtain ⟨book, hb, h⟩ := bind_ok.1 h
    have hl := AList.get_eq_ok.1 hb
    have hk1 : (AList.keys (AList.set s.node2pending n (book.filter (fun i => !is.contains i)))).Nodup := by
      rw [AList.keys_set_of_mem _ _ _ (by simp [hl])]; exact hk
    obtain ⟨⟨acts, r, p⟩, st, ks⟩ := checkSchedule_ref hk1 h
    refine ⟨acts, ?_, p, st, ?_⟩
    · simp only [run, apply, view, hl, hreq, if_true]; exact r
    · unfold KeysNodup; rw [ks]; exact hk1

theorem keys_erase_nodup {d : AList Nat (List Nat)} {n : Nat} (h : (AList.keys d).Nodup) :
    (AList.keys (AList.erase d n)).Nodup := by
  rw [AList.keys_erase]; exact h.erase _

/-- `remove_node` returns the head of the dead node's book as the crashed test -/
def CrashRet (c : Option (List τ)) (book : List Nat) (ret : Option τ) : Prop :=
  match book with
  | [] => ret = none
  | i :: _ => ∃ col, c = some col ∧ col[i]? = ret ∧ ret.isSome

theorem crashOf_spec {c : Option (List τ)} {book rest : List Nat} {crash : Option τ}
    (h : crashOf c book = .ok (crash, rest)) : rest = book.tail ∧ CrashRet c book crash := by
  cases book with
  | nil => simp [crashOf] at h; obtain ⟨rfl, rfl⟩ := h; simp [CrashRet]
  | cons i r =>
    simp only [crashOf] at h
    cases hc : c with
    | none => simp [hc] at h
    | some col =>
      simp only [hc] at h
      cases hi : col[i]? with
      | none => simp [hi] at h
      | some item =>
        simp [hi] at h; obtain ⟨rfl, rfl⟩ := h
        exact ⟨rfl, col, rfl, hi, by simp⟩

theorem removeNode_ref {s s' : State τ} {e e' : Env} {n : Nat} {ret : Option τ} (hk : KeysNodup s)
    (h : removeNode s e n = .ok (s', e', ret)) :
    ∃ book acts, AList.lookup s.node2pending n = some book ∧
      run (view s) e (.drop n :: acts) = some (view s', e') ∧
      (∀ a ∈ acts, OutAct a) ∧ SameStatic s s' ∧ KeysNodup s' ∧
      CrashRet s.collection book ret := by
  unfold removeNode at h
  obtain ⟨⟨book, n2p⟩, hp, h⟩ := bind_ok.1 (show (s.node2pending.pop n >>= _) = _ from h)
  obtain ⟨hl, rfl⟩ := AList.pop_eq_ok.1 hp
  dsimp only at h
  obtain ⟨⟨crash, rest⟩, hcr, h⟩ := bind_ok.1 (show (crashOf s.collection book >>= _) = _ from h)
  dsimp only at h
  obtain ⟨⟨s3, e3⟩, hcs, h⟩ := bind_ok.1 (show (checkSchedule _ e >>= _) = _ from h)
  simp at h; obtain ⟨rfl, rfl, rfl⟩ := h
  have hk1 : (AList.keys (AList.erase s.node2pending n)).Nodup := keys_erase_nodup hk
  have hrest := crashOf_spec hcr
  obtain ⟨rfl, hret⟩ := hrest
  obtain ⟨⟨acts, r, p⟩, st, ks⟩ := checkSchedule_ref hk1 hcs
  refine ⟨book, acts, hl, ?_, p, ?_, ?_, hret⟩
  · simp only [run, apply, view, hl]
    exact r
  · obtain ⟨a1, a2, a3⟩ := st; exact ⟨a1, a2, a3⟩
  · unfold KeysNodup; rw [ks]; exact hk1

inductive SchedShape (s : State τ) (e : Env) (s' : State τ) (e' : Env) : Prop
  | again (h : s.collection.isSome) (r : Ref s e s' e')
  | mismatch (first : Nat) (col : List τ) (rest : AList Nat (List τ))
      (hreg : s.node2collection = (first, col) :: rest)
      (hne : ∃ p ∈ rest, p.2 ≠ col)
      (hs : s' = s) (he : e' = { e with outs := e.outs ++ collectionDiffs first col rest })
  | first (first : Nat) (col : List τ) (rest : AList Nat (List τ))
      (hnone : s.collection = none)
      (hreg : s.node2collection = (first, col) :: rest)
      (hall : ∀ p ∈ rest, p.2 = col)
      (hcol : s'.collection = some col)
      (acts : List Act)
      (r : run (view s) e (.start col.length :: acts) = some (view s', e'))
      (p : ∀ a ∈ acts, OutAct a)
      (hk : AList.keys s'.node2pending = AList.keys s.node2pending)

theorem schedule_shape {s s' : State τ} {e e' : Env} (hf : Fresh s) (hk : KeysNodup s)
    (h : schedule s e = .ok (s', e')) : SchedShape s e s' e' := by
  unfold schedule at h
  split at h
  · simp at h
  · cases hc : s.collection with
    | some col0 =>
      simp only [hc] at h
      exact .again (by simp [hc]) (checkSchedule_ref hk h)
    | none =>
      simp only [hc] at h
      cases hreg : s.node2collection with
      | nil => simp [hreg] at h
      | cons pr rest =>
        obtain ⟨first, col⟩ := pr
        simp only [hreg] at h
        by_cases hd : (collectionDiffs first col rest).isEmpty = true
        · have hall : ∀ p ∈ rest, p.2 = col := by
            intro p hp
            refine Decidable.byContradiction fun hne => ?_
            have : (SOut.collectReport p.1 first) ∈ collectionDiffs first col rest := by
              unfold collectionDiffs
              exact List.mem_map.2 ⟨p, List.mem_filter.2 ⟨hp, by simpa using hne⟩, rfl⟩
            rw [List.isEmpty_iff] at hd
            rw [hd] at this
            exact absurd this (by simp)
          have hdn : collectionDiffs first col rest = [] := List.isEmpty_iff.1 hd
          simp only [hdn, List.append_nil] at h
          simp only [List.isEmpty_nil, Bool.not_true, Bool.false_eq_true, if_false] at h
          obtain ⟨hp0, hb0⟩ : s.pending = [] ∧ (AList.values s.node2pending).flatten = [] := by
            have := hf hc
            simpa [View.all, view] using this
          have hstart : apply (view s) e (.start col.length) =
              some (⟨List.range col.length, s.node2pending, s.stealReq⟩, e) := by
            simp [apply, view, View.all, hp0, hb0]
          by_cases hce : col.isEmpty = true
          · simp only [hce, if_true] at h
            simp at h
            obtain ⟨rfl, rfl⟩ := h
            refine .first first col rest hc hreg hall rfl [] ?_ (by simp) rfl
            simp only [run, hstart]
            rfl
          · simp only [hce, Bool.false_eq_true, if_false] at h
            obtain ⟨⟨acts, r, p⟩, st, ks⟩ := checkSchedule_ref (s := _) (by exact hk) h
            refine .first first col rest hc hreg hall ?_ acts ?_ p ?_
            · simpa using st.2.2
            · simp only [run, hstart]
              exact r
            · simpa using ks
        · have hne : ∃ p ∈ rest, p.2 ≠ col := by
            have : collectionDiffs first col rest ≠ [] := by
              intro h0; simp [h0] at hd
            unfold collectionDiffs at this
            obtain ⟨x, hx⟩ := List.exists_mem_of_ne_nil _ this
            obtain ⟨p, hp, _⟩ := List.mem_map.1 hx
            obtain ⟨hp1, hp2⟩ := List.mem_filter.1 hp
            exact ⟨p, hp1, by simpa using hp2⟩
          simp [hd] at h
          obtain ⟨rfl, rfl⟩ := h
          exact .mismatch first col rest hreg hne rfl rfl

/-! ### the ledger along any sequence of scheduler calls -/

def ghostOp (s s' : State τ) (g : Ghost) : SOp τ → Ghost
  | .markComplete _ i _ => { g with completed := i :: g.completed }
  | .removeNode n =>
    match AList.lookup s.node2pending n with
    | some (i :: _) => { g with crashed := i :: g.crashed }
    | _ => g
  | .markPending t =>
    match s.collection with
    | some col =>
      match PyList.index col t with
      | .ok idx => { g with requeued := idx :: g.requeued }
      | .error _ => g
    | none => g
  | .schedule =>
    match s.collection, s'.collection with
    | none, some col => { g with started := List.range col.length ++ g.started }
    | _, _ => g
  | _ => g

theorem out_legal {a : Act} (h : OutAct a) (v : View) : Legal v a := by
  cases a <;> simp_all [OutAct, Legal]

theorem out_ghost {a : Act} (h : OutAct a) (v : View) (g : Ghost) : ghostStep v g a = g := by
  cases a <;> simp_all [OutAct, ghostStep]

theorem out_inc {a : Act} (h : OutAct a) (x : Nat) : inc a x = 0 := by
  cases a <;> simp_all [OutAct, inc]

theorem bal_out_run {v v' : View} {e e' : Env} {g : Ghost} {acts : List Act}
    (hb : Bal v g) (hp : ∀ a ∈ acts, OutAct a) (h : run v e acts = some (v', e')) : Bal v' g := by
  induction acts generalizing v e with
  | nil => simp [run] at h; obtain ⟨rfl, _⟩ := h; exact hb
  | cons a t ih =>
    simp only [run] at h
    cases ha : apply v e a with
    | none => simp [ha] at h
    | some p =>
      obtain ⟨v1, e1⟩ := p
      simp only [ha] at h
      have h1 := bal_step hb (out_legal (hp a (by simp)) v) ha
      rw [out_ghost (hp a (by simp))] at h1
      exact ih h1 (fun a' ha' => hp a' (by simp [ha'])) h

theorem all_nil_out_run {v v' : View} {e e' : Env} {acts : List Act}
    (hv : v.all = []) (hp : ∀ a ∈ acts, OutAct a) (h : run v e acts = some (v', e')) : v'.all = [] := by
  induction acts generalizing v e with
  | nil => simp [run] at h; obtain ⟨rfl, _⟩ := h; exact hv
  | cons a t ih =>
    simp only [run] at h
    cases ha : apply v e a with
    | none => simp [ha] at h
    | some p =>
      obtain ⟨v1, e1⟩ := p
      simp only [ha] at h
      have h1 : v1.all = [] := by
        apply List.eq_nil_iff_forall_not_mem.2
        intro x hx
        have hc := count_step (out_legal (hp a (by simp)) v) ha x
        rw [out_inc (hp a (by simp))] at hc
        have : 0 < List.count x v1.all := List.count_pos_iff.2 hx
        simp [hv] at hc
        omega
      exact ih h1 (fun a' ha' => hp a' (by simp [ha'])) h

/-- what the environment (the worker, via `C07_all_or_none`) guarantees about a steal reply -/
def OpLegal (s : State τ) : SOp τ → Prop
  | .removePending n is => Legal (view s) (.unsched n is)
  | _ => True

/-- **Ledger theorem for `WorkStealingScheduling`.** -/
theorem step_bal {s s' : State τ} {e e' : Env} {g : Ghost} {op : SOp τ} {ret : Option τ}
    (hf : Fresh s) (hk : KeysNodup s) (hb : Bal (view s) g) (hl : OpLegal s op)
    (h : step s e op = .ok (s', e', ret)) :
    Fresh s' ∧ KeysNodup s' ∧ Bal (view s') (ghostOp s s' g op) := by
  cases op with
  | addNode n =>
    simp only [step] at h
    obtain ⟨s1, h1, h2⟩ := map_ok.1 h
    simp at h2; obtain ⟨rfl, rfl, rfl⟩ := h2
    obtain ⟨ha, st, hk1⟩ := addNode_ref (e := e) hk h1
    have hbs := bal_step hb (by simp [Legal]) ha
    refine ⟨?_, hk1, by simpa [ghostStep, ghostOp] using hbs⟩
    intro hc
    have hv := hf (by rw [← st.2.2]; exact hc)
    apply List.eq_nil_iff_forall_not_mem.2
    intro x hx
    have hcs := count_step (by simp [Legal]) ha x
    have : 0 < List.count x (view s1).all := List.count_pos_iff.2 hx
    simp [hv, dec, inc] at hcs
    omega
  | addNodeCollection n c =>
    simp only [step] at h
    obtain ⟨s1, h1, h2⟩ := map_ok.1 h
    simp at h2; obtain ⟨rfl, rfl, rfl⟩ := h2
    obtain ⟨hv, hc, _, hn, _⟩ := addNodeCollection_view h1
    refine ⟨?_, by unfold KeysNodup; rw [hn]; exact hk, by simpa [ghostOp, hv] using hb⟩
    intro hcn; rw [hv]; exact hf (by rw [← hc]; exact hcn)
  | schedule =>
    simp only [step] at h
    obtain ⟨⟨s1, e1⟩, h1, h2⟩ := map_ok.1 h
    simp at h2; obtain ⟨rfl, rfl, rfl⟩ := h2
    cases schedule_shape hf hk h1 with
    | again hsome r =>
      obtain ⟨⟨acts, hr, p⟩, st, ks⟩ := r
      obtain ⟨col, hcol⟩ := Option.isSome_iff_exists.1 hsome
      have hc1 : s1.collection = some col := by rw [st.2.2]; exact hcol
      refine ⟨by intro hcn; rw [hc1] at hcn; simp at hcn, by unfold KeysNodup; rw [ks]; exact hk, ?_⟩
      simp only [ghostOp, hcol, hc1]
      exact bal_out_run hb p hr
    | mismatch first col rest hreg hne hs he =>
      subst hs
      refine ⟨hf, hk, ?_⟩
      cases hc : s1.collection <;> simpa [ghostOp, hc] using hb
    | first first col rest hcn hreg hall hcol acts r p hks =>
      refine ⟨by intro hc; rw [hcol] at hc; simp at hc, by unfold KeysNodup; rw [hks]; exact hk, ?_⟩
      simp only [ghostOp, hcn, hcol]
      simp only [run] at r
      cases hst0 : apply (view s) e (.start col.length) with
      | none => simp [hst0] at r
      | some pr =>
        obtain ⟨v1, e1'⟩ := pr
        simp only [hst0] at r
        have hb1 := bal_step hb (by simp [Legal]) hst0
        simp only [ghostStep] at hb1
        exact bal_out_run hb1 p r
  | markComplete n i slow =>
    simp only [step] at h
    obtain ⟨⟨s1, e1⟩, h1, h2⟩ := map_ok.1 h
    simp at h2; obtain ⟨rfl, rfl, rfl⟩ := h2
    obtain ⟨acts, r, p, st, hk1⟩ := markComplete_ref hk h1
    simp only [run] at r
    cases ha : apply (view s) e (.complete n i) with
    | none => simp [ha] at r
    | some pr =>
      obtain ⟨v1, e1'⟩ := pr
      simp only [ha] at r
      have hb1 := bal_step hb (by simp [Legal]) ha
      simp only [ghostStep] at hb1
      refine ⟨?_, hk1, by simpa [ghostOp] using bal_out_run hb1 p r⟩
      intro hc
      have hv := hf (by rw [← st.2.2]; exact hc)
      exfalso
      have hcs := count_step (by simp [Legal]) ha i
      simp [hv, dec, inc] at hcs
  | markPending t =>
    simp only [step] at h
    obtain ⟨⟨s1, e1⟩, h1, h2⟩ := map_ok.1 h
    simp at h2; obtain ⟨rfl, rfl, rfl⟩ := h2
    obtain ⟨col, idx, acts, hc, hi, r, p, st, hk1⟩ := markPending_ref hk h1
    simp only [run] at r
    cases ha : apply (view s) e (.requeue idx) with
    | none => simp [ha] at r
    | some pr =>
      obtain ⟨v1, e1'⟩ := pr
      simp only [ha] at r
      have hb1 := bal_step hb (by simp [Legal]) ha
      simp only [ghostStep] at hb1
      refine ⟨by intro hcn; rw [st.2.2, hc] at hcn; simp at hcn, hk1, ?_⟩
      simpa [ghostOp, hc, hi] using bal_out_run hb1 p r
  | removePending n is =>
    simp only [step] at h
    obtain ⟨⟨s1, e1⟩, h1, h2⟩ := map_ok.1 h
    simp at h2; obtain ⟨rfl, rfl, rfl⟩ := h2
    obtain ⟨acts, r, p, st, hk1⟩ := removePending_ref hk h1
    have hl : Legal (view s) (.unsched n is) := hl
    simp only [run] at r
    cases ha : apply (view s) e (.unsched n is) with
    | none => simp [ha] at r
    | some pr =>
      obtain ⟨v1, e1'⟩ := pr
      simp only [ha] at r
      have hb1 := bal_step hb hl ha
      simp only [ghostStep] at hb1
      refine ⟨?_, hk1, by simpa [ghostOp] using bal_out_run hb1 p r⟩
      intro hc
      have hv := hf (by rw [← st.2.2]; exact hc)
      have hv1 : v1.all = [] := by
        apply List.eq_nil_iff_forall_not_mem.2
        intro x hx
        have hcs := count_step hl ha x
        have : 0 < List.count x v1.all := List.count_pos_iff.2 hx
        simp [hv, dec, inc] at hcs
        omega
      exact all_nil_out_run hv1 p r
  | removeNode n =>
    simp only [step] at h
    obtain ⟨book, acts, hlk, r, p, st, hk1, hret⟩ := removeNode_ref hk h
    simp only [run] at r
    cases ha : apply (view s) e (.drop n) with
    | none => simp [ha] at r
    | some pr =>
      obtain ⟨v1, e1'⟩ := pr
      simp only [ha] at r
      have hb1 := bal_step hb (by simp [Legal]) ha
      have hg : ghostStep (view s) g (.drop n) = ghostOp s s' g (.removeNode n) := by
        simp only [ghostStep, ghostOp, view, hlk]
        cases book with
        | nil => rfl
        | cons i rest => rfl
      rw [hg] at hb1
      refine ⟨?_, hk1, bal_out_run hb1 p r⟩
      intro hc
      have hv := hf (by rw [← st.2.2]; exact hc)
      have hv1 : v1.all = [] := by
        apply List.eq_nil_iff_forall_not_mem.2
        intro x hx
        have hcs := count_step (by simp [Legal]) ha x
        have : 0 < List.count x v1.all := List.count_pos_iff.2 hx
        simp [hv, inc] at hcs
        omega
      exact all_nil_out_run hv1 p r

def StartedOK (s : State τ) (g : Ghost) : Prop :=
  g.started = match s.collection with | some col => List.range col.length | none => []

theorem step_started {s s' : State τ} {e e' : Env} {g : Ghost} {op : SOp τ} {ret : Option τ}
    (hf : Fresh s) (hk : KeysNodup s) (hs : StartedOK s g) (h : step s e op = .ok (s', e', ret)) :
    StartedOK s' (ghostOp s s' g op) := by
  unfold StartedOK at hs ⊢
  cases op with
  | addNode n =>
    simp only [step] at h
    obtain ⟨s1, h1, h2⟩ := map_ok.1 h
    simp at h2; obtain ⟨rfl, rfl, rfl⟩ := h2
    obtain ⟨_, st, _⟩ := addNode_ref (e := e) hk h1
    simpa [ghostOp, st.2.2] using hs
  | addNodeCollection n c =>
    simp only [step] at h
    obtain ⟨s1, h1, h2⟩ := map_ok.1 h
    simp at h2; obtain ⟨rfl, rfl, rfl⟩ := h2
    obtain ⟨_, hc, _, _⟩ := addNodeCollection_view h1
    simpa [ghostOp, hc] using hs
  | schedule =>
    simp only [step] at h
    obtain ⟨⟨s1, e1⟩, h1, h2⟩ := map_ok.1 h
    simp at h2; obtain ⟨rfl, rfl, rfl⟩ := h2
    cases schedule_shape hf hk h1 with
    | again hsome r =>
      obtain ⟨col, hcol⟩ := Option.isSome_iff_exists.1 hsome
      have hc1 : s1.collection = some col := by rw [r.static.2.2]; exact hcol
      simpa [ghostOp, hcol, hc1] using hs
    | mismatch first col rest hreg hne hs' he =>
      subst hs'
      cases hc : s1.collection <;> simpa [ghostOp, hc] using hs
    | first first col rest hcn hreg hall hcol acts r p hst =>
      simp [ghostOp, hcn, hcol] at hs ⊢
      simp [hs]
  | markComplete n i slow =>
    simp only [step] at h
    obtain ⟨⟨s1, e1⟩, h1, h2⟩ := map_ok.1 h
    simp at h2; obtain ⟨rfl, rfl, rfl⟩ := h2
    obtain ⟨_, _, _, st, _⟩ := markComplete_ref hk h1
    simpa [ghostOp, st.2.2] using hs
  | markPending t =>
    simp only [step] at h
    obtain ⟨⟨s1, e1⟩, h1, h2⟩ := map_ok.1 h
    simp at h2; obtain ⟨rfl, rfl, rfl⟩ := h2
    obtain ⟨col, idx, acts, hc, hi, r, p, st, _⟩ := markPending_ref hk h1
    simpa [ghostOp, hc, hi, st.2.2] using hs
  | removePending n is =>
    simp only [step] at h
    obtain ⟨⟨s1, e1⟩, h1, h2⟩ := map_ok.1 h
    simp at h2; obtain ⟨rfl, rfl, rfl⟩ := h2
    obtain ⟨_, _, _, st, _⟩ := removePending_ref hk h1
    simpa [ghostOp, st.2.2] using hs
  | removeNode n =>
    simp only [step] at h
    obtain ⟨book, acts, hl, r, p, st, _, hret⟩ := removeNode_ref hk h
    simp only [ghostOp, hl, st.2.2]
    cases book with
    | nil => simpa using hs
    | cons i rest => simpa using hs

/-- run a whole sequence of scheduler calls; `legal` is checked on the way (steal replies) -/
def runOps (s : State τ) (e : Env) (g : Ghost) : List (SOp τ) → Option (State τ × Env × Ghost)
  | [] => some (s, e, g)
  | op :: t =>
    match step s e op with
    | .error _ => none
    | .ok (s', e', _) => runOps s' e' (ghostOp s s' g op) t

/-- every steal reply in the sequence is legal in the state in which it is processed -/
def AllLegal (s : State τ) (e : Env) : List (SOp τ) → Prop
  | [] => True
  | op :: t =>
    OpLegal s op ∧
    match step s e op with
    | .error _ => True
    | .ok (s', e', _) => AllLegal s' e' t

theorem runOps_inv {s s' : State τ} {e e' : Env} {g g' : Ghost} {ops : List (SOp τ)}
    (hf : Fresh s) (hk : KeysNodup s) (hb : Bal (view s) g) (hs : StartedOK s g)
    (hl : AllLegal s e ops)
    (h : runOps s e g ops = some (s', e', g')) :
    Fresh s' ∧ KeysNodup s' ∧ Bal (view s') g' ∧ StartedOK s' g' := by
  induction ops generalizing s e g with
  | nil => simp [runOps] at h; obtain ⟨rfl, _, rfl⟩ := h; exact ⟨hf, hk, hb, hs⟩
  | cons op t ih =>
    simp only [runOps] at h
    simp only [AllLegal] at hl
    cases hst : step s e op with
    | error err => simp [hst] at h
    | ok r =>
      obtain ⟨s1, e1, ret⟩ := r
      simp only [hst] at h hl
      obtain ⟨hf1, hk1, hb1⟩ := step_bal hf hk hb hl.1 hst
      exact ih hf1 hk1 hb1 (step_started hf hk hs hst) hl.2 h

/-! ### wire well-formedness and duplicate-freeness along scheduler calls (C16) -/

theorem outAct_isOut {a : Act} (h : OutAct a) : IsOut a := by
  cases a <;> simp_all [OutAct, IsOut]

theorem outAct_guarded {a : Act} (h : OutAct a) : Guarded a := by
  cases a <;> simp_all [OutAct, Guarded]

theorem run_reports (v : View) (e : Env) (first : Nat) (col : List τ) (rest : AList Nat (List τ)) :
    run v e ((rest.filter (fun p => p.2 ≠ col)).map (fun p => Act.report p.1 first)) =
      some (v, { e with outs := e.outs ++ collectionDiffs first col rest }) := by
  unfold collectionDiffs
  generalize rest.filter (fun p => p.2 ≠ col) = l
  induction l generalizing e with
  | nil => simp [run]
  | cons p t ih =>
    simp only [List.map_cons, run, apply, Env.emit]
    rw [ih]
    simp

/-- every act of every scheduler call is guarded: work stealing never addresses a node that is shutting down -/
theorem step_acts {s s' : State τ} {e e' : Env} {op : SOp τ} {ret : Option τ}
    (hf : Fresh s) (hk : KeysNodup s)
    (h : step s e op = .ok (s', e', ret)) :
    ∃ acts, run (view s) e acts = some (view s', e') ∧ (∀ a ∈ acts, Guarded a) := by
  cases op with
  | addNode n =>
    simp only [step] at h
    obtain ⟨s1, h1, h2⟩ := map_ok.1 h
    simp at h2; obtain ⟨rfl, rfl, rfl⟩ := h2
    obtain ⟨ha, _⟩ := addNode_ref (e := e) hk h1
    exact ⟨[.register n], by simp [run, ha], by simp [Guarded]⟩
  | addNodeCollection n c =>
    simp only [step] at h
    obtain ⟨s1, h1, h2⟩ := map_ok.1 h
    simp at h2; obtain ⟨rfl, rfl, rfl⟩ := h2
    obtain ⟨hv, _⟩ := addNodeCollection_view h1
    exact ⟨[], by simp [run, hv], by simp⟩
  | schedule =>
    simp only [step] at h
    obtain ⟨⟨s1, e1⟩, h1, h2⟩ := map_ok.1 h
    simp at h2; obtain ⟨rfl, rfl, rfl⟩ := h2
    cases schedule_shape hf hk h1 with
    | again hsome r =>
      obtain ⟨⟨acts, hr, p⟩, _⟩ := r
      exact ⟨acts, hr, fun a ha => outAct_guarded (p a ha)⟩
    | mismatch first col rest hreg hne hs he =>
      subst hs; subst he
      refine ⟨_, run_reports _ _ first col rest, ?_⟩
      intro a ha
      obtain ⟨p, _, rfl⟩ := List.mem_map.1 ha
      simp [Guarded]
    | first first col rest hcn hreg hall hcol acts r p hks =>
      refine ⟨_, r, ?_⟩
      intro a ha
      rcases List.mem_cons.1 ha with rfl | ha
      · simp [Guarded]
      · exact outAct_guarded (p a ha)
  | markComplete n i slow =>
    simp only [step] at h
    obtain ⟨⟨s1, e1⟩, h1, h2⟩ := map_ok.1 h
    simp at h2; obtain ⟨rfl, rfl, rfl⟩ := h2
    obtain ⟨acts, r, p, _⟩ := markComplete_ref hk h1
    refine ⟨_, r, ?_⟩
    intro a ha
    rcases List.mem_cons.1 ha with rfl | ha
    · simp [Guarded]
    · exact outAct_guarded (p a ha)
  | markPending t =>
    simp only [step] at h
    obtain ⟨⟨s1, e1⟩, h1, h2⟩ := map_ok.1 h
    simp at h2; obtain ⟨rfl, rfl, rfl⟩ := h2
    obtain ⟨col, idx, acts, hc, hi, r, p, _⟩ := markPending_ref hk h1
    refine ⟨_, r, ?_⟩
    intro a ha
    rcases List.mem_cons.1 ha with rfl | ha
    · simp [Guarded]
    · exact outAct_guarded (p a ha)
  | removePending n is =>
    simp only [step] at h
    obtain ⟨⟨s1, e1⟩, h1, h2⟩ := map_ok.1 h
    simp at h2; obtain ⟨rfl, rfl, rfl⟩ := h2
    obtain ⟨acts, r, p, _⟩ := removePending_ref hk h1
    refine ⟨_, r, ?_⟩
    intro a ha
    rcases List.mem_cons.1 ha with rfl | ha
    · simp [Guarded]
    · exact outAct_guarded (p a ha)
  | removeNode n =>
    simp only [step] at h
    obtain ⟨book, acts, hl, r, p, _, _⟩ := removeNode_ref hk h
    refine ⟨_, r, ?_⟩
    intro a ha
    rcases List.mem_cons.1 ha with rfl | ha
    · simp [Guarded]
    · exact outAct_guarded (p a ha)

/-- **Wire theorem for `WorkStealingScheduling`** (one call), unconditionally. -/
theorem step_wire {s s' : State τ} {e e' : Env} {op : SOp τ} {ret : Option τ}
    (hf : Fresh s) (hk : KeysNodup s) (h1 : NoAfter e.outs) (h2 : SentSync e)
    (h : step s e op = .ok (s', e', ret)) : NoAfter e'.outs ∧ SentSync e' := by
  obtain ⟨acts, r, p⟩ := step_acts hf hk h
  exact run_wire p h1 h2 r

def total (s : State τ) : Nat := match s.collection with | some col => col.length | none => 0

theorem step_nodup_bounded {s s' : State τ} {e e' : Env} {op : SOp τ} {ret : Option τ}
    (hf : Fresh s) (hk : KeysNodup s) (hn : (view s).all.Nodup) (hb : Bounded (total s) (view s))
    (hl : OpLegal s op)
    (hreq : ∀ t col idx, op = .markPending t → s.collection = some col → PyList.index col t = .ok idx →
              idx ∉ (view s).all)
    (h : step s e op = .ok (s', e', ret)) :
    (view s').all.Nodup ∧ Bounded (total s') (view s') := by
  cases op with
  | addNode n =>
    simp only [step] at h
    obtain ⟨s1, h1, h2⟩ := map_ok.1 h
    simp at h2; obtain ⟨rfl, rfl, rfl⟩ := h2
    obtain ⟨ha, st, _⟩ := addNode_ref (e := e) hk h1
    have ht : total s1 = total s := by simp [total, st.2.2]
    rw [ht]
    exact ⟨nodup_step hn (by simp [Legal]) (by intro i hi; simp at hi) ha,
      bounded_step hb (by simp [Legal]) (by intro i hi; simp at hi) (by intro t ht; simp at ht) ha⟩
  | addNodeCollection n c =>
    simp only [step] at h
    obtain ⟨s1, h1, h2⟩ := map_ok.1 h
    simp at h2; obtain ⟨rfl, rfl, rfl⟩ := h2
    obtain ⟨hv, hc, _, _⟩ := addNodeCollection_view h1
    have ht : total s1 = total s := by simp [total, hc]
    rw [ht, hv]; exact ⟨hn, hb⟩
  | schedule =>
    simp only [step] at h
    obtain ⟨⟨s1, e1⟩, h1, h2⟩ := map_ok.1 h
    simp at h2; obtain ⟨rfl, rfl, rfl⟩ := h2
    cases schedule_shape hf hk h1 with
    | again hsome r =>
      obtain ⟨⟨acts, hr, p⟩, st, _⟩ := r
      have ht : total s1 = total s := by simp [total, st.2.2]
      rw [ht]
      exact ⟨nodup_out_run hn (fun a ha => outAct_isOut (p a ha)) hr,
        bounded_out_run hb (fun a ha => outAct_isOut (p a ha)) hr⟩
    | mismatch first col rest hreg hne hs he => subst hs; exact ⟨hn, hb⟩
    | first first col rest hcn hreg hall hcol acts r p hst =>
      have ht : total s1 = col.length := by simp [total, hcol]
      rw [ht]
      have hb0 : Bounded col.length (view s) := by
        intro i hi
        have := hf hcn
        rw [this] at hi; simp at hi
      exact ⟨nodup_head_out hn (by simp [Legal]) (by intro i hi; simp at hi) (fun a ha => outAct_isOut (p a ha)) r,
        bounded_head_out hb0 (by simp [Legal]) (by intro i hi; simp at hi)
          (by intro t ht; simp at ht; exact ht.symm) (fun a ha => outAct_isOut (p a ha)) r⟩
  | markComplete n i slow =>
    simp only [step] at h
    obtain ⟨⟨s1, e1⟩, h1, h2⟩ := map_ok.1 h
    simp at h2; obtain ⟨rfl, rfl, rfl⟩ := h2
    obtain ⟨acts, r, p, st, _⟩ := markComplete_ref hk h1
    have ht : total s1 = total s := by simp [total, st.2.2]
    rw [ht]
    exact ⟨nodup_head_out hn (by simp [Legal]) (by intro i hi; simp at hi) (fun a ha => outAct_isOut (p a ha)) r,
      bounded_head_out hb (by simp [Legal]) (by intro i hi; simp at hi) (by intro t ht; simp at ht)
        (fun a ha => outAct_isOut (p a ha)) r⟩
  | markPending t =>
    simp only [step] at h
    obtain ⟨⟨s1, e1⟩, h1, h2⟩ := map_ok.1 h
    simp at h2; obtain ⟨rfl, rfl, rfl⟩ := h2
    obtain ⟨col, idx, acts, hc, hi, r, p, st, _⟩ := markPending_ref hk h1
    have ht : total s1 = total s := by simp [total, st.2.2]
    rw [ht]
    have hlt : idx < total s := by simp [total, hc]; exact index_lt_of_ok hi
    exact ⟨nodup_head_out hn (by simp [Legal])
        (by intro i hi'; simp at hi'; subst hi'; exact hreq t col idx rfl hc hi) (fun a ha => outAct_isOut (p a ha)) r,
      bounded_head_out hb (by simp [Legal]) (by intro i hi'; simp at hi'; subst hi'; exact hlt)
        (by intro t ht; simp at ht) (fun a ha => outAct_isOut (p a ha)) r⟩
  | removePending n is =>
    simp only [step] at h
    obtain ⟨⟨s1, e1⟩, h1, h2⟩ := map_ok.1 h
    simp at h2; obtain ⟨rfl, rfl, rfl⟩ := h2
    obtain ⟨acts, r, p, st, _⟩ := removePending_ref hk h1
    have ht : total s1 = total s := by simp [total, st.2.2]
    rw [ht]
    have hl' : Legal (view s) (.unsched n is) := hl
    exact ⟨nodup_head_out hn hl' (by intro i hi; simp at hi) (fun a ha => outAct_isOut (p a ha)) r,
      bounded_head_out hb hl' (by intro i hi; simp at hi) (by intro t ht; simp at ht)
        (fun a ha => outAct_isOut (p a ha)) r⟩
  | removeNode n =>
    simp only [step] at h
    obtain ⟨book, acts, hlk, r, p, st, _, _⟩ := removeNode_ref hk h
    have ht : total s' = total s := by simp [total, st.2.2]
    rw [ht]
    exact ⟨nodup_head_out hn (by simp [Legal]) (by intro i hi; simp at hi) (fun a ha => outAct_isOut (p a ha)) r,
      bounded_head_out hb (by simp [Legal]) (by intro i hi; simp at hi) (by intro t ht; simp at ht)
        (fun a ha => outAct_isOut (p a ha)) r⟩

end Xdist.WorkSteal
