import XdistProofs.Contract.Spec
/-!
  Invariants of the contract, proved once for every act:
  conservation of the outstanding tests (as a multiset), duplicate-freeness, bounds.
-/
namespace Xdist.Contract
open Xdist

/-- a book sits at one place of the flattened ledger; `set`/`erase` act exactly there -/
theorem split_book {d : AList Nat (List Nat)} {n : Nat} {book : List Nat}
    (h : AList.lookup d n = some book) :
    ∃ pre post, (AList.values d).flatten = pre ++ book ++ post ∧
      (∀ new, (AList.values (AList.set d n new)).flatten = pre ++ new ++ post) ∧
      (AList.values (AList.erase d n)).flatten = pre ++ post := by
  induction d with
  | nil => simp [AList.lookup] at h
  | cons p t ih =>
    obtain ⟨k, w⟩ := p
    by_cases hk : k = n
    · subst hk
      simp [AList.lookup] at h
      subst h
      exact ⟨[], (AList.values t).flatten, by simp [AList.values], by intro new; simp [AList.set, AList.values],
        by simp [AList.erase, AList.values]⟩
    · simp [AList.lookup, hk] at h
      obtain ⟨pre, post, h1, h2, h3⟩ := ih h
      refine ⟨w ++ pre, post, ?_, ?_, ?_⟩
      · simp [AList.values] at h1 ⊢; rw [h1]
      · intro new
        have := h2 new
        simp [AList.set, AList.values, hk] at this ⊢; rw [this]
      · simp [AList.erase, AList.values, hk] at h3 ⊢; rw [h3]

/-- acts a scheduler performs on its own initiative never create or lose a test -/
def IsOut : Act → Prop
  | .send _ _ _ => True
  | .shut _ => True
  | .steal _ _ => True
  | .report _ _ => True
  | _ => False

theorem apply_out_all {v v' : View} {e e' : Env} {a : Act} (ha : IsOut a)
    (h : apply v e a = some (v', e')) :
    v'.all.Perm v.all ∧ AList.keys v'.books = AList.keys v.books := by
  cases a with
  | send n k g =>
    simp only [apply] at h
    cases hb : AList.lookup v.books n with
    | none => simp [hb] at h
    | some book =>
      simp only [hb] at h
      split at h
      · simp at h
      · split at h
        · simp at h
        · simp only [Option.some.injEq, Prod.mk.injEq] at h
          obtain ⟨rfl, _⟩ := h
          · obtain ⟨pre, post, h1, h2, _⟩ := split_book hb
            refine ⟨?_, AList.keys_set_of_mem _ _ _ (by simp [hb])⟩
            simp only [View.all, h1, h2]
            have : v.pool = v.pool.take k ++ v.pool.drop k := (List.take_append_drop k v.pool).symm
            conv => rhs; rw [this]
            simp only [List.append_assoc]
            -- drop ++ pre ++ book ++ take ++ post  ~  take ++ drop ++ pre ++ book ++ post
            refine List.Perm.trans ?_ (List.perm_append_comm_assoc _ _ _)
            refine List.Perm.append_left _ ?_
            refine List.Perm.trans ?_ (List.perm_append_comm_assoc _ _ _)
            refine List.Perm.append_left _ ?_
            exact (List.perm_append_comm_assoc _ _ _)
  | shut n => simp [apply] at h; obtain ⟨rfl, rfl⟩ := h; exact ⟨List.Perm.refl _, rfl⟩
  | steal n k =>
    simp only [apply] at h
    cases hb : AList.lookup v.books n with
    | none => simp [hb] at h
    | some book =>
      simp only [hb] at h
      split at h
      · simp at h
      · split at h
        · simp at h
        · split at h
          · simp at h
          · simp at h; obtain ⟨rfl, rfl⟩ := h; exact ⟨List.Perm.refl _, rfl⟩
  | report n f => simp [apply] at h; obtain ⟨rfl, rfl⟩ := h; exact ⟨List.Perm.refl _, rfl⟩
  | complete _ _ => exact absurd ha (by simp [IsOut])
  | drop _ => exact absurd ha (by simp [IsOut])
  | requeue _ => exact absurd ha (by simp [IsOut])
  | unsched _ _ => exact absurd ha (by simp [IsOut])
  | register _ => exact absurd ha (by simp [IsOut])
  | start _ => exact absurd ha (by simp [IsOut])

/-- ghost history of a run of acts (never read by `apply`) -/
structure Ghost where
  started : List Nat := []
  requeued : List Nat := []
  completed : List Nat := []
  crashed : List Nat := []
  deriving Repr

def ghostStep (v : View) (g : Ghost) : Act → Ghost
  | .complete _ i => { g with completed := i :: g.completed }
  | .drop n =>
    match AList.lookup v.books n with
    | some (i :: _) => { g with crashed := i :: g.crashed }
    | _ => g
  | .requeue i => { g with requeued := i :: g.requeued }
  | .start total => { g with started := List.range total ++ g.started }
  | _ => g

def runG (v : View) (e : Env) (g : Ghost) : List Act → Option (View × Env × Ghost)
  | [] => some (v, e, g)
  | a :: t =>
    match apply v e a with
    | none => none
    | some (v', e') => runG v' e' (ghostStep v g a) t

/-- what the environment must guarantee about a steal reply: it lists tests of the victim's book,
    each once (the worker-side theorem `C07_all_or_none` provides it) -/
def Legal (v : View) : Act → Prop
  | .unsched n is =>
    ∀ book, AList.lookup v.books n = some book → (is ++ book.filter (fun i => !is.contains i)).Perm book
  | _ => True

/-- the ledger balances: outstanding + completed + crashed = started + re-queued (as multisets) -/
def Bal (v : View) (g : Ghost) : Prop :=
  (v.all ++ g.completed ++ g.crashed).Perm (g.started ++ g.requeued)

theorem bal_init : Bal {} {} := by simp [Bal, View.all, AList.values]

theorem count_all (v : View) (x : Nat) :
    List.count x v.all = List.count x v.pool + List.count x (AList.values v.books).flatten := by
  simp [View.all, List.count_append]

theorem bal_step {v v' : View} {e e' : Env} {g : Ghost} {a : Act}
    (hb : Bal v g) (hl : Legal v a) (h : apply v e a = some (v', e')) : Bal v' (ghostStep v g a) := by
  unfold Bal at hb ⊢
  rw [List.perm_iff_count] at hb ⊢
  intro x
  have hx := hb x
  simp only [List.count_append, count_all] at hx ⊢
  cases a with
  | send n k gd =>
    have := List.perm_iff_count.1 (apply_out_all (a := .send n k gd) trivial h).1 x
    simp only [count_all] at this
    simp only [ghostStep]; omega
  | shut n =>
    have := List.perm_iff_count.1 (apply_out_all (a := .shut n) trivial h).1 x
    simp only [count_all] at this
    simp only [ghostStep]; omega
  | steal n k =>
    have := List.perm_iff_count.1 (apply_out_all (a := .steal n k) trivial h).1 x
    simp only [count_all] at this
    simp only [ghostStep]; omega
  | report n f =>
    have := List.perm_iff_count.1 (apply_out_all (a := .report n f) trivial h).1 x
    simp only [count_all] at this
    simp only [ghostStep]; omega
  | complete n i =>
    simp only [apply] at h
    cases hbk : AList.lookup v.books n with
    | none => simp [hbk] at h
    | some book =>
      simp only [hbk] at h
      split at h
      · rename_i hi
        simp at h; obtain ⟨rfl, rfl⟩ := h
        obtain ⟨pre, post, h1, h2, _⟩ := split_book hbk
        simp only [ghostStep, h1, h2, List.count_append, List.count_cons, List.count_erase] at hx ⊢
        have hpos : x = i → List.count x book ≥ 1 := by
          intro hxi; subst hxi; exact List.count_pos_iff.2 hi
        by_cases hxi : i = x
        · subst hxi; have := hpos rfl; simp; omega
        · have : ¬ x = i := fun h => hxi h.symm
          simp [hxi]; omega
      · simp at h
  | drop n =>
    simp only [apply] at h
    cases hbk : AList.lookup v.books n with
    | none => simp [hbk] at h
    | some book =>
      simp only [hbk] at h
      simp at h; obtain ⟨rfl, rfl⟩ := h
      obtain ⟨pre, post, h1, _, h3⟩ := split_book hbk
      cases book with
      | nil =>
        simp only [ghostStep, hbk, h1, h3, List.count_append, List.tail_nil, List.count_nil] at hx ⊢
        omega
      | cons i rest =>
        simp only [ghostStep, hbk, h1, h3, List.count_append, List.tail_cons, List.count_cons] at hx ⊢
        omega
  | requeue i =>
    simp [apply] at h; obtain ⟨rfl, rfl⟩ := h
    simp only [ghostStep, List.count_cons] at hx ⊢
    omega
  | unsched n is =>
    simp only [apply] at h
    cases hbk : AList.lookup v.books n with
    | none => simp [hbk] at h
    | some book =>
      simp only [hbk] at h
      split at h
      · simp at h; obtain ⟨rfl, rfl⟩ := h
        obtain ⟨pre, post, h1, h2, _⟩ := split_book hbk
        have hperm := List.perm_iff_count.1 (hl book hbk) x
        simp only [ghostStep, h1, h2, List.count_append, List.contains_eq_mem] at hx hperm ⊢
        omega
      · simp at h
  | register n =>
    simp only [apply] at h
    split at h
    · simp at h
    · rename_i hn
      simp at h; obtain ⟨rfl, rfl⟩ := h
      have hnone : AList.lookup v.books n = none := by
        cases hq : AList.lookup v.books n with
        | none => rfl
        | some b => simp [hq] at hn
      have : (AList.values (AList.set v.books n [])).flatten = (AList.values v.books).flatten := by
        clear hb hn hx
        revert hnone
        generalize v.books = d
        intro hnone
        induction d with
        | nil => simp [AList.set, AList.values]
        | cons p t ih =>
          obtain ⟨k, w⟩ := p
          by_cases hk : k = n
          · simp [AList.lookup, hk] at hnone
          · simp [AList.lookup, hk] at hnone
            have := ih hnone
            simp [AList.set, AList.values, hk] at this ⊢
            exact this
      simp only [ghostStep, this]; omega
  | start total =>
    simp only [apply] at h
    split at h
    · rename_i hemp
      simp at h; obtain ⟨rfl, rfl⟩ := h
      have hnil : v.all = [] := by simpa using hemp
      simp only [View.all, List.append_eq_nil_iff] at hnil
      simp only [ghostStep, hnil.1, hnil.2, List.count_append, List.count_nil] at hx ⊢
      omega
    · simp at h

theorem bal_run {v v' : View} {e e' : Env} {g g' : Ghost} {acts : List Act}
    (hb : Bal v g)
    (hl : ∀ (pre : List Act) (a : Act) (post : List Act) (v1 : View) (e1 : Env) (g1 : Ghost),
          acts = pre ++ a :: post → runG v e g pre = some (v1, e1, g1) → Legal v1 a)
    (h : runG v e g acts = some (v', e', g')) : Bal v' g' := by
  induction acts generalizing v e g with
  | nil => simp [runG] at h; obtain ⟨rfl, _, rfl⟩ := h; exact hb
  | cons a t ih =>
    simp only [runG] at h
    cases ha : apply v e a with
    | none => simp [ha] at h
    | some p =>
      obtain ⟨v1, e1⟩ := p
      simp only [ha] at h
      have hla : Legal v a := hl [] a t v e g rfl rfl
      refine ih (bal_step hb hla ha) ?_ h
      intro pre a' post v2 e2 g2 hsplit hrun
      refine hl (a :: pre) a' post v2 e2 g2 (by simp [hsplit]) ?_
      simp [runG, ha, hrun]

/-! ### counting form of every act, and the invariants that follow from it -/

def dec (v : View) (a : Act) (x : Nat) : Nat :=
  match a with
  | .complete _ i => if x = i then 1 else 0
  | .drop n =>
    match AList.lookup v.books n with
    | some (i :: _) => if x = i then 1 else 0
    | _ => 0
  | _ => 0

def inc (a : Act) (x : Nat) : Nat :=
  match a with
  | .requeue i => if x = i then 1 else 0
  | .start total => List.count x (List.range total)
  | _ => 0

theorem count_step {v v' : View} {e e' : Env} {a : Act}
    (hl : Legal v a) (h : apply v e a = some (v', e')) (x : Nat) :
    List.count x v'.all + dec v a x = List.count x v.all + inc a x := by
  simp only [count_all]
  cases a with
  | send n k gd =>
    have := List.perm_iff_count.1 (apply_out_all (a := .send n k gd) trivial h).1 x
    simp only [count_all] at this
    simp only [dec, inc]; omega
  | shut n =>
    have := List.perm_iff_count.1 (apply_out_all (a := .shut n) trivial h).1 x
    simp only [count_all] at this
    simp only [dec, inc]; omega
  | steal n k =>
    have := List.perm_iff_count.1 (apply_out_all (a := .steal n k) trivial h).1 x
    simp only [count_all] at this
    simp only [dec, inc]; omega
  | report n f =>
    have := List.perm_iff_count.1 (apply_out_all (a := .report n f) trivial h).1 x
    simp only [count_all] at this
    simp only [dec, inc]; omega
  | complete n i =>
    simp only [apply] at h
    cases hbk : AList.lookup v.books n with
    | none => simp [hbk] at h
    | some book =>
      simp only [hbk] at h
      split at h
      · rename_i hi
        simp at h; obtain ⟨rfl, rfl⟩ := h
        obtain ⟨pre, post, h1, h2, _⟩ := split_book hbk
        simp only [dec, inc, h1, h2, List.count_append, List.count_erase]
        by_cases hxi : x = i
        · subst hxi
          have : List.count x book ≥ 1 := List.count_pos_iff.2 hi
          simp; omega
        · have : ¬ i = x := fun h => hxi h.symm
          simp [hxi, this]
      · simp at h
  | drop n =>
    simp only [apply] at h
    cases hbk : AList.lookup v.books n with
    | none => simp [hbk] at h
    | some book =>
      simp only [hbk] at h
      simp at h; obtain ⟨rfl, rfl⟩ := h
      obtain ⟨pre, post, h1, _, h3⟩ := split_book hbk
      cases book with
      | nil => simp only [dec, inc, hbk, h1, h3, List.count_append, List.tail_nil, List.count_nil]; omega
      | cons i rest =>
        simp only [dec, inc, hbk, h1, h3, List.count_append, List.tail_cons, List.count_cons]
        by_cases hxi : x = i
        · subst hxi; simp; omega
        · have : ¬ i = x := fun h => hxi h.symm
          simp [hxi, this]; omega
  | requeue i =>
    simp [apply] at h; obtain ⟨rfl, rfl⟩ := h
    simp only [dec, inc, List.count_cons]
    by_cases hxi : x = i
    · subst hxi; simp; omega
    · have : ¬ i = x := fun h => hxi h.symm
      simp [hxi, this]
  | unsched n is =>
    simp only [apply] at h
    cases hbk : AList.lookup v.books n with
    | none => simp [hbk] at h
    | some book =>
      simp only [hbk] at h
      split at h
      · simp at h; obtain ⟨rfl, rfl⟩ := h
        obtain ⟨pre, post, h1, h2, _⟩ := split_book hbk
        have hperm := List.perm_iff_count.1 (hl book hbk) x
        simp only [dec, inc, h1, h2, List.count_append, List.contains_eq_mem] at hperm ⊢
        omega
      · simp at h
  | register n =>
    have hb : Bal v {} → Bal v' (ghostStep v {} (.register n)) := fun hb => bal_step hb hl h
    -- reuse the structural fact proved in `bal_step`: registering adds an empty book
    simp only [apply] at h
    split at h
    · simp at h
    · rename_i hn
      simp at h; obtain ⟨rfl, rfl⟩ := h
      have hnone : AList.lookup v.books n = none := by
        cases hq : AList.lookup v.books n with
        | none => rfl
        | some b => simp [hq] at hn
      have : (AList.values (AList.set v.books n [])).flatten = (AList.values v.books).flatten := by
        clear hb hn
        revert hnone
        generalize v.books = d
        intro hnone
        induction d with
        | nil => simp [AList.set, AList.values]
        | cons p t ih =>
          obtain ⟨k, w⟩ := p
          by_cases hk : k = n
          · simp [AList.lookup, hk] at hnone
          · simp [AList.lookup, hk] at hnone
            have := ih hnone
            simp [AList.set, AList.values, hk] at this ⊢
            exact this
      simp only [dec, inc, this]
  | start total =>
    simp only [apply] at h
    split at h
    · rename_i hemp
      simp at h; obtain ⟨rfl, rfl⟩ := h
      have hnil : v.all = [] := by simpa using hemp
      simp only [View.all, List.append_eq_nil_iff] at hnil
      simp only [dec, inc, hnil.1, hnil.2, List.count_nil]
      omega
    · simp at h

/-- no test is outstanding twice: books are pairwise disjoint and disjoint from the pool -/
theorem nodup_step {v v' : View} {e e' : Env} {a : Act}
    (hn : v.all.Nodup) (hl : Legal v a) (hr : ∀ i, a = .requeue i → i ∉ v.all)
    (h : apply v e a = some (v', e')) : v'.all.Nodup := by
  rw [List.nodup_iff_count] at hn ⊢
  intro x
  have hc := count_step hl h x
  have hx := hn x
  cases a with
  | requeue i =>
    have hni := hr i rfl
    simp only [dec, inc] at hc
    by_cases hxi : x = i
    · subst hxi
      have : List.count x v.all = 0 := List.count_eq_zero.2 hni
      simp at hc; omega
    · simp [hxi] at hc; omega
  | start total =>
    simp only [dec, inc] at hc
    have : List.count x (List.range total) ≤ 1 := List.nodup_iff_count.1 (List.nodup_range) x
    simp only [apply] at h
    split at h
    · rename_i hemp
      have hnil : v.all = [] := by simpa using hemp
      simp only [hnil, List.count_nil] at hc; omega
    · simp at h
  | send n k g => simp only [dec, inc] at hc; omega
  | shut n => simp only [dec, inc] at hc; omega
  | steal n k => simp only [dec, inc] at hc; omega
  | report n f => simp only [dec, inc] at hc; omega
  | complete n i => simp only [dec, inc] at hc; omega
  | drop n => simp only [dec, inc] at hc; omega
  | unsched n is => simp only [dec, inc] at hc; omega
  | register n => simp only [dec, inc] at hc; omega

/-- every outstanding index is a valid position of the agreed collection -/
def Bounded (N : Nat) (v : View) : Prop := ∀ i ∈ v.all, i < N

theorem bounded_step {N : Nat} {v v' : View} {e e' : Env} {a : Act}
    (hb : Bounded N v) (hl : Legal v a) (hr : ∀ i, a = .requeue i → i < N)
    (hs : ∀ t, a = .start t → t = N)
    (h : apply v e a = some (v', e')) : Bounded N v' := by
  intro i hi
  refine Decidable.byContradiction fun hge => ?_
  have hge : N ≤ i := Nat.le_of_not_lt hge
  have h0 : List.count i v.all = 0 := List.count_eq_zero.2 (fun hm => absurd (hb i hm) (Nat.not_lt.2 hge))
  have hpos : 0 < List.count i v'.all := List.count_pos_iff.2 hi
  have hc := count_step hl h i
  cases a with
  | requeue j =>
    have := hr j rfl
    simp only [dec, inc] at hc
    by_cases hij : i = j
    · subst hij; omega
    · simp [hij] at hc; omega
  | start total =>
    have := hs total rfl
    subst this
    simp only [dec, inc] at hc
    have : List.count i (List.range total) = 0 := List.count_eq_zero.2 (by simp; omega)
    omega
  | send n k g => simp only [dec, inc] at hc; omega
  | shut n => simp only [dec, inc] at hc; omega
  | steal n k => simp only [dec, inc] at hc; omega
  | report n f => simp only [dec, inc] at hc; omega
  | complete n j => simp only [dec, inc] at hc; omega
  | drop n => simp only [dec, inc] at hc; omega
  | unsched n is => simp only [dec, inc] at hc; omega
  | register n => simp only [dec, inc] at hc; omega

theorem isOut_legal {a : Act} (h : IsOut a) (v : View) : Legal v a := by
  cases a <;> simp_all [IsOut, Legal]

theorem nodup_out_run {v v' : View} {e e' : Env} {acts : List Act}
    (hn : v.all.Nodup) (hp : ∀ a ∈ acts, IsOut a) (h : run v e acts = some (v', e')) : v'.all.Nodup := by
  induction acts generalizing v e with
  | nil => simp [run] at h; obtain ⟨rfl, _⟩ := h; exact hn
  | cons a t ih =>
    simp only [run] at h
    cases ha : apply v e a with
    | none => simp [ha] at h
    | some p =>
      obtain ⟨v1, e1⟩ := p
      simp only [ha] at h
      have hout := hp a (by simp)
      have h1 := nodup_step hn (isOut_legal hout v) (by intro i hi; subst hi; simp [IsOut] at hout) ha
      exact ih h1 (fun a' ha' => hp a' (by simp [ha'])) h

theorem bounded_out_run {N : Nat} {v v' : View} {e e' : Env} {acts : List Act}
    (hb : Bounded N v) (hp : ∀ a ∈ acts, IsOut a) (h : run v e acts = some (v', e')) : Bounded N v' := by
  induction acts generalizing v e with
  | nil => simp [run] at h; obtain ⟨rfl, _⟩ := h; exact hb
  | cons a t ih =>
    simp only [run] at h
    cases ha : apply v e a with
    | none => simp [ha] at h
    | some p =>
      obtain ⟨v1, e1⟩ := p
      simp only [ha] at h
      have hout := hp a (by simp)
      have h1 := bounded_step hb (isOut_legal hout v) (by intro i hi; subst hi; simp [IsOut] at hout)
        (by intro t' ht; subst ht; simp [IsOut] at hout) ha
      exact ih h1 (fun a' ha' => hp a' (by simp [ha'])) h

/-- an environment-driven act followed by scheduler-initiated acts -/
theorem nodup_head_out {v v' : View} {e e' : Env} {a : Act} {acts : List Act}
    (hn : v.all.Nodup) (hl : Legal v a) (hr : ∀ i, a = .requeue i → i ∉ v.all)
    (hp : ∀ x ∈ acts, IsOut x) (h : run v e (a :: acts) = some (v', e')) : v'.all.Nodup := by
  simp only [run] at h
  cases ha : apply v e a with
  | none => simp [ha] at h
  | some p =>
    obtain ⟨v1, e1⟩ := p
    simp only [ha] at h
    exact nodup_out_run (nodup_step hn hl hr ha) hp h

theorem bounded_head_out {N : Nat} {v v' : View} {e e' : Env} {a : Act} {acts : List Act}
    (hb : Bounded N v) (hl : Legal v a) (hr : ∀ i, a = .requeue i → i < N) (hs : ∀ t, a = .start t → t = N)
    (hp : ∀ x ∈ acts, IsOut x) (h : run v e (a :: acts) = some (v', e')) : Bounded N v' := by
  simp only [run] at h
  cases ha : apply v e a with
  | none => simp [ha] at h
  | some p =>
    obtain ⟨v1, e1⟩ := p
    simp only [ha] at h
    exact bounded_out_run (bounded_step hb hl hr hs ha) hp h

theorem index_lt_of_ok {τ : Type} [DecidableEq τ] {col : List τ} {t : τ} {idx : Nat}
    (h : PyList.index col t = .ok idx) : idx < col.length := by
  induction col generalizing idx with
  | nil => simp [PyList.index] at h
  | cons a r ih =>
    simp only [PyList.index] at h
    split at h
    · simp at h; subst h; simp
    · cases hr : PyList.index r t with
      | error err => simp [hr, Except.map] at h
      | ok j =>
        simp [hr, Except.map] at h
        subst h
        have := ih hr
        simp; omega

end Xdist.Contract
