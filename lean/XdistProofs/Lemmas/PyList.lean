import XdistModel.Py.Basic
/-! Lemmas about the Python list helpers. -/
namespace Xdist.PyList
variable {α : Type} [DecidableEq α]

theorem mem_uniqAux (acc l : List α) (x : α) : x ∈ uniqAux acc l ↔ x ∈ acc ∨ x ∈ l := by
  induction l generalizing acc with
  | nil => simp [uniqAux]
  | cons a t ih =>
    simp only [uniqAux]
    split
    · rename_i h
      rw [ih]
      constructor
      · rintro (h1 | h1)
        · exact Or.inl h1
        · exact Or.inr (List.mem_cons_of_mem _ h1)
      · rintro (h1 | h1)
        · exact Or.inl h1
        · rcases List.mem_cons.1 h1 with h2 | h2
          · subst h2; exact Or.inl h
          · exact Or.inr h2
    · rw [ih]
      simp only [List.mem_append, List.mem_cons, List.mem_singleton, List.not_mem_nil, or_false]
      constructor
      · rintro ((h1 | h1) | h1)
        · exact Or.inl h1
        · exact Or.inr (Or.inl h1)
        · exact Or.inr (Or.inr h1)
      · rintro (h1 | h1 | h1)
        · exact Or.inl (Or.inl h1)
        · exact Or.inl (Or.inr h1)
        · exact Or.inr h1

theorem nodup_uniqAux (acc l : List α) (h : acc.Nodup) : (uniqAux acc l).Nodup := by
  induction l generalizing acc with
  | nil => simpa [uniqAux]
  | cons a t ih =>
    simp only [uniqAux]
    split
    · exact ih acc h
    · rename_i hna
      apply ih
      refine List.nodup_append.2 ⟨h, by simp, ?_⟩
      intro x hx y hy
      simp at hy; subst hy
      intro hxy; subst hxy
      exact hna hx

@[simp] theorem mem_uniq (l : List α) (x : α) : x ∈ uniq l ↔ x ∈ l := by
  simp [uniq, mem_uniqAux]

theorem nodup_uniq (l : List α) : (uniq l).Nodup := nodup_uniqAux [] l (by simp)

theorem uniqAux_eq_aux (n : Nat) : ∀ (l : List α), l.length ≤ n → ∀ acc : List α,
    uniqAux acc l = acc ++ uniqAux [] (l.filter (fun x => decide (x ∉ acc))) := by
  induction n with
  | zero =>
    intro l hl acc
    have : l = [] := List.length_eq_zero_iff.1 (Nat.le_zero.1 hl)
    subst this; simp [uniqAux]
  | succ n ih =>
    intro l hl acc
    cases l with
    | nil => simp [uniqAux]
    | cons x t =>
      have ht : t.length ≤ n := by simp at hl; omega
      by_cases hx : x ∈ acc
      · simp only [uniqAux, hx, ↓reduceIte]
        rw [ih t ht acc]
        simp [hx]
      · simp only [uniqAux, hx, ↓reduceIte]
        rw [ih t ht (acc ++ [x])]
        simp only [List.filter_cons, hx, not_false_eq_true, decide_true, ↓reduceIte, uniqAux, List.not_mem_nil,
          List.nil_append]
        rw [ih _ (Nat.le_trans (List.length_filter_le _ _) ht) [x]]
        simp only [List.append_assoc, List.filter_filter]
        congr 3
        apply List.filter_congr
        intro y _
        simp only [List.mem_append, List.mem_singleton, not_or, List.mem_cons, List.not_mem_nil, or_false]
        by_cases h1 : y ∈ acc <;> by_cases h2 : y = x <;> simp [h1, h2]

theorem uniqAux_eq (acc l : List α) :
    uniqAux acc l = acc ++ uniqAux [] (l.filter (fun x => decide (x ∉ acc))) :=
  uniqAux_eq_aux l.length l (Nat.le_refl _) acc

theorem uniq_cons (x : α) (l : List α) : uniq (x :: l) = x :: uniq (l.filter (· ≠ x)) := by
  unfold uniq
  simp only [uniqAux, List.not_mem_nil, ↓reduceIte, List.nil_append]
  rw [uniqAux_eq [x] l]
  simp

/-- for duplicate-free lists: as many elements of `a` lie in `b` as `b` has elements iff `b ⊆ a` -/
theorem length_filter_mem_eq_iff {a b : List α} (ha : a.Nodup) (hb : b.Nodup) :
    (a.filter (fun x => decide (x ∈ b))).length = b.length ↔ ∀ x ∈ b, x ∈ a := by
  have hperm : (a.filter (fun x => decide (x ∈ b))).Perm (b.filter (fun x => decide (x ∈ a))) := by
    rw [List.perm_iff_count]
    intro x
    have h1 : List.count x a ≤ 1 := List.nodup_iff_count.1 ha x
    have h2 : List.count x b ≤ 1 := List.nodup_iff_count.1 hb x
    by_cases hxa : x ∈ a <;> by_cases hxb : x ∈ b
    · rw [List.count_filter (by simpa using hxb), List.count_filter (by simpa using hxa)]
      have := List.count_pos_iff.2 hxa
      have := List.count_pos_iff.2 hxb
      omega
    · rw [List.count_eq_zero.2 (by simp [hxb]), List.count_eq_zero.2 (by simp [hxb])]
    · rw [List.count_eq_zero.2 (by simp [hxa]), List.count_eq_zero.2 (by simp [hxa])]
    · rw [List.count_eq_zero.2 (by simp [hxb]), List.count_eq_zero.2 (by simp [hxb])]
  rw [hperm.length_eq]
  constructor
  · intro hlen x hx
    have hs : (b.filter (fun x => decide (x ∈ a))) = b :=
      List.Sublist.eq_of_length List.filter_sublist hlen
    have := List.filter_eq_self.1 hs x hx
    simpa using this
  · intro hall
    have : b.filter (fun x => decide (x ∈ a)) = b := List.filter_eq_self.2 (by intro x hx; simpa using hall x hx)
    rw [this]

end Xdist.PyList
