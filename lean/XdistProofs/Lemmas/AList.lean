import XdistModel.Py.Basic
/-! Lemmas about the insertion-ordered dictionary. -/
namespace Xdist.AList
variable {κ ν : Type} [DecidableEq κ]

@[simp] theorem lookup_nil (x : κ) : lookup ([] : AList κ ν) x = none := rfl

@[simp] theorem lookup_set_same (d : AList κ ν) (x : κ) (v : ν) : lookup (set d x v) x = some v := by
  induction d with
  | nil => simp [set, lookup]
  | cons p t ih =>
    obtain ⟨k, w⟩ := p
    by_cases h : k = x
    · simp [set, lookup, h]
    · simp [set, lookup, h, ih]

theorem lookup_set_other (d : AList κ ν) (x y : κ) (v : ν) (h : y ≠ x) :
    lookup (set d x v) y = lookup d y := by
  induction d with
  | nil => simp [set, lookup, Ne.symm h]
  | cons p t ih =>
    obtain ⟨k, w⟩ := p
    by_cases hk : k = x
    · subst hk; simp [set, lookup, Ne.symm h]
    · by_cases hy : k = y
      · subst hy; simp [set, lookup, hk]
      · simp [set, lookup, hk, hy, ih]

theorem lookup_set (d : AList κ ν) (x y : κ) (v : ν) :
    lookup (set d x v) y = if y = x then some v else lookup d y := by
  by_cases h : y = x
  · subst h; simp
  · simp [h, lookup_set_other d x y v h]

theorem keys_set_of_mem (d : AList κ ν) (x : κ) (v : ν) (h : (lookup d x).isSome) :
    keys (set d x v) = keys d := by
  induction d with
  | nil => simp [lookup] at h
  | cons p t ih =>
    obtain ⟨k, w⟩ := p
    by_cases hk : k = x
    · simp [set, keys, hk]
    · simp [lookup, hk] at h
      have := ih h
      simp [set, keys, hk] at this ⊢
      exact this

theorem keys_set_of_not_mem (d : AList κ ν) (x : κ) (v : ν) (h : lookup d x = none) :
    keys (set d x v) = keys d ++ [x] := by
  induction d with
  | nil => simp [set, keys]
  | cons p t ih =>
    obtain ⟨k, w⟩ := p
    by_cases hk : k = x
    · simp [lookup, hk] at h
    · simp [lookup, hk] at h
      have := ih h
      simp [set, keys, hk] at this ⊢
      exact this

theorem lookup_isSome_iff_mem_keys (d : AList κ ν) (x : κ) : (lookup d x).isSome ↔ x ∈ keys d := by
  induction d with
  | nil => simp [keys]
  | cons p t ih =>
    obtain ⟨k, w⟩ := p
    by_cases hk : k = x
    · simp [lookup, keys, hk]
    · have hx : ¬ x = k := fun h => hk h.symm
      simp [lookup, keys, hk, hx] at ih ⊢
      exact ih

theorem lookup_erase_same (d : AList κ ν) (x : κ) (hnd : (keys d).Nodup) : lookup (erase d x) x = none := by
  induction d with
  | nil => simp [erase]
  | cons p t ih =>
    obtain ⟨k, w⟩ := p
    simp [keys] at hnd
    by_cases hk : k = x
    · subst hk
      simp [erase]
      cases h : lookup t k with
      | none => rfl
      | some v =>
        have : k ∈ keys t := (lookup_isSome_iff_mem_keys t k).1 (by simp [h])
        simp [keys] at this
        obtain ⟨b, hb⟩ := this
        exact absurd hb (hnd.1 b)
    · simp [erase, lookup, hk]
      exact ih (by simpa [keys] using hnd.2)

theorem lookup_erase_other (d : AList κ ν) (x y : κ) (h : y ≠ x) : lookup (erase d x) y = lookup d y := by
  induction d with
  | nil => simp [erase]
  | cons p t ih =>
    obtain ⟨k, w⟩ := p
    by_cases hk : k = x
    · subst hk; simp [erase, lookup, Ne.symm h]
    · by_cases hy : k = y
      · subst hy; simp [erase, lookup, hk]
      · simp [erase, lookup, hk, hy, ih]

theorem keys_erase (d : AList κ ν) (x : κ) : keys (erase d x) = (keys d).erase x := by
  induction d with
  | nil => simp [erase, keys]
  | cons p t ih =>
    obtain ⟨k, w⟩ := p
    by_cases hk : k = x
    · simp [erase, keys, hk]
    · simp [erase, keys, hk, List.erase_cons] at ih ⊢
      exact ih

theorem get_eq_ok {d : AList κ ν} {x : κ} {v : ν} : get d x = .ok v ↔ lookup d x = some v := by
  unfold get; split <;> simp_all

theorem pop_eq_ok {d : AList κ ν} {x : κ} {v : ν} {d' : AList κ ν} :
    pop d x = .ok (v, d') ↔ lookup d x = some v ∧ d' = erase d x := by
  unfold pop
  cases h : lookup d x with
  | none => simp
  | some w =>
    simp
    intro _
    exact eq_comm

theorem mem_keys_of_mem_keys_erase (d : AList κ ν) (x y : κ) (h : y ∈ keys (erase d x)) : y ∈ keys d := by
  induction d with
  | nil => simp [erase, keys] at h
  | cons p t ih =>
    obtain ⟨k, w⟩ := p
    by_cases hk : k = x
    · simp only [erase, hk, ↓reduceIte] at h
      simp only [keys, List.map_cons, List.mem_cons]
      exact Or.inr h
    · simp only [erase, hk, ↓reduceIte, keys, List.map_cons, List.mem_cons] at h ⊢
      rcases h with h | h
      · exact Or.inl h
      · exact Or.inr (ih h)

theorem nodup_keys_erase (d : AList κ ν) (x : κ) (h : (keys d).Nodup) : (keys (erase d x)).Nodup := by
  induction d with
  | nil => simp [erase, keys]
  | cons p t ih =>
    obtain ⟨k, w⟩ := p
    simp only [keys, List.map_cons, List.nodup_cons] at h
    by_cases hk : k = x
    · simp only [erase, hk, ↓reduceIte]
      exact h.2
    · simp only [erase, hk, ↓reduceIte, keys, List.map_cons, List.nodup_cons]
      exact ⟨fun hm => h.1 (mem_keys_of_mem_keys_erase t x k hm), ih h.2⟩

theorem not_mem_keys_erase_self (d : AList κ ν) (x : κ) (h : (keys d).Nodup) : x ∉ keys (erase d x) := by
  rw [← lookup_isSome_iff_mem_keys, lookup_erase_same d x h]
  simp

theorem lookup_of_mem (d : AList κ ν) (h : (keys d).Nodup) (e : κ × ν) (he : e ∈ d) : lookup d e.1 = some e.2 := by
  induction d with
  | nil => simp at he
  | cons a t ih =>
    obtain ⟨k, v⟩ := a
    simp only [keys, List.map_cons, List.nodup_cons] at h
    rcases List.mem_cons.1 he with h' | h'
    · subst h'; simp [lookup]
    · have hk : k ≠ e.1 := by
        intro hke; subst hke
        exact h.1 (List.mem_map.2 ⟨e, h', rfl⟩)
      simp only [lookup, hk, ↓reduceIte]
      exact ih h.2 h'


theorem nodup_keys_set (d : AList κ ν) (x : κ) (v : ν) (h : (keys d).Nodup) : (keys (set d x v)).Nodup := by
  cases hl : lookup d x with
  | some w => rw [keys_set_of_mem d x v (by rw [hl]; rfl)]; exact h
  | none =>
    rw [keys_set_of_not_mem d x v hl]
    have hx : x ∉ keys d := by
      intro hm
      have := (lookup_isSome_iff_mem_keys d x).2 hm
      rw [hl] at this; cases this
    exact List.nodup_append.2 ⟨h, by simp, by intro a ha b hb; simp at hb; subst hb; intro hab; exact hx (hab ▸ ha)⟩

theorem mem_keys_set (d : AList κ ν) (x y : κ) (v : ν) : y ∈ keys (set d x v) ↔ y = x ∨ y ∈ keys d := by
  rw [← lookup_isSome_iff_mem_keys, ← lookup_isSome_iff_mem_keys, lookup_set]
  by_cases h : y = x <;> simp [h]

theorem length_keys (d : AList κ ν) : (keys d).length = d.length := by simp [keys]

end Xdist.AList
