/-! Decomposing `do` blocks in the `Except` monad. -/
namespace Xdist

theorem bind_ok {ε α β : Type} {x : Except ε α} {f : α → Except ε β} {b : β} :
    (x >>= f) = .ok b ↔ ∃ a, x = .ok a ∧ f a = .ok b := by
  cases x with
  | error err => simp [bind, Except.bind]
  | ok a => simp [bind, Except.bind]

theorem map_ok {ε α β : Type} {x : Except ε α} {f : α → β} {b : β} :
    (Except.map f x) = .ok b ↔ ∃ a, x = .ok a ∧ f a = b := by
  cases x with
  | error err => simp [Except.map]
  | ok a => simp [Except.map]

end Xdist

instance {ε α : Type} [DecidableEq ε] [DecidableEq α] : DecidableEq (Except ε α)
  | .ok a, .ok b => if h : a = b then isTrue (by rw [h]) else isFalse (by intro h'; cases h'; exact h rfl)
  | .error a, .error b => if h : a = b then isTrue (by rw [h]) else isFalse (by intro h'; cases h'; exact h rfl)
  | .ok _, .error _ => isFalse (by intro h; cases h)
  | .error _, .ok _ => isFalse (by intro h; cases h)
