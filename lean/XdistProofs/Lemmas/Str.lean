import XdistModel.Py.Str
/-! Lemmas about the Python string helpers: `int(str(n)) = n`, `find` past a prefix without the character. -/
namespace Xdist.Str

theorem digitVal_of_isDigit {c : Char} (h : c.isDigit = true) : digitVal c = some (c.toNat - '0'.toNat) := by
  simp only [Char.isDigit, Bool.and_eq_true, decide_eq_true_eq] at h
  simp only [digitVal]
  have h1 : '0' ≤ c := by
    simpa [Char.le_def, Char.lt_def, UInt32.le_iff_toNat_le] using h.1
  have h2 : c ≤ '9' := by
    simpa [Char.le_def, UInt32.le_iff_toNat_le] using h.2
  simp [h1, h2]

theorem ne_underscore_of_isDigit {c : Char} (h : c.isDigit = true) : c ≠ '_' := by
  intro hc; subst hc; simp [Char.isDigit] at h

theorem digitsAux_digits (l : List Char) (acc : Nat) (prev : Bool) (hl : ∀ c ∈ l, c.isDigit = true)
    (hne : l ≠ [] ∨ prev = true) :
    digitsAux l acc prev = some (Nat.ofDigitChars 10 l acc) := by
  induction l generalizing acc prev with
  | nil =>
    rcases hne with h | h
    · exact absurd rfl h
    · simp [digitsAux, h]
  | cons c r ih =>
    have hc := hl c (by simp)
    rw [digitsAux]
    simp only [ne_underscore_of_isDigit hc, ↓reduceIte, digitVal_of_isDigit hc]
    rw [ih _ _ (fun x hx => hl x (List.mem_cons_of_mem _ hx)) (Or.inr rfl)]
    simp [Nat.ofDigitChars_cons, Nat.mul_comm]

theorem isDigit_natDigits {n : Nat} {c : Char} (h : c ∈ natDigits n) : c.isDigit = true :=
  Nat.isDigit_of_mem_toDigits (by decide) (by decide) h

theorem natDigits_ne_nil (n : Nat) : natDigits n ≠ [] := Nat.toDigits_ne_nil

theorem pyNat_natDigits (n : Nat) : pyNat (natDigits n) = some n := by
  unfold pyNat
  rw [digitsAux_digits _ _ _ (fun c hc => isDigit_natDigits hc) (Or.inl (natDigits_ne_nil n))]
  simp [natDigits]

theorem not_isSpace_of_isDigit {c : Char} (h : c.isDigit = true) : isSpace c = false := by
  simp only [Char.isDigit, Bool.and_eq_true, decide_eq_true_eq] at h
  simp only [isSpace, Bool.or_eq_false_iff, decide_eq_false_iff_not]
  refine ⟨⟨⟨⟨⟨?_, ?_⟩, ?_⟩, ?_⟩, ?_⟩, ?_⟩ <;> (intro hc; subst hc; simp at h)

theorem dropWhile_isSpace_digits (l : List Char) (hl : ∀ c ∈ l, c.isDigit = true) : l.dropWhile isSpace = l := by
  cases l with
  | nil => rfl
  | cons c r => simp [List.dropWhile, not_isSpace_of_isDigit (hl c (by simp))]

theorem strip_digits (l : List Char) (hl : ∀ c ∈ l, c.isDigit = true) : strip l = l := by
  unfold strip
  rw [dropWhile_isSpace_digits l hl, dropWhile_isSpace_digits l.reverse (by simpa using hl)]
  simp

theorem pyInt_natDigits (n : Nat) : pyInt (natDigits n) = some (n : Int) := by
  unfold pyInt
  rw [strip_digits _ (fun c hc => isDigit_natDigits hc)]
  have hne := natDigits_ne_nil n
  cases hd : natDigits n with
  | nil => exact absurd hd hne
  | cons c r =>
    have hc : c.isDigit = true := isDigit_natDigits (n := n) (by rw [hd]; simp)
    have h1 : c ≠ '+' := by intro h; subst h; simp [Char.isDigit] at hc
    have h2 : c ≠ '-' := by intro h; subst h; simp [Char.isDigit] at hc
    have := pyNat_natDigits n
    rw [hd] at this
    split
    · rename_i heq; simp at heq; exact absurd heq.1 h1
    · rename_i heq; simp at heq; exact absurd heq.1 h2
    · simp [this]

theorem findAux_append (c : Char) (pre r : List Char) (i : Nat) (h : c ∉ pre) :
    findAux c (pre ++ c :: r) i = ((i + pre.length : Nat) : Int) := by
  induction pre generalizing i with
  | nil => simp [findAux]
  | cons x t ih =>
    have hx : x ≠ c := by intro hh; subst hh; simp at h
    have ht : c ∉ t := by intro hh; exact h (List.mem_cons_of_mem _ hh)
    simp only [List.cons_append, findAux, hx, ↓reduceIte, List.length_cons]
    rw [ih _ ht]
    congr 1
    omega

theorem star_not_mem_natDigits (n : Nat) : '*' ∉ natDigits n := by
  intro h
  have := isDigit_natDigits h
  simp [Char.isDigit] at this

@[simp] theorem find_digits_star (n : Nat) (spec : List Char) :
    find '*' (natDigits n ++ '*' :: spec) = ((natDigits n).length : Int) := by
  unfold find
  rw [findAux_append _ _ _ _ (star_not_mem_natDigits n)]
  simp

theorem natDigits_length_drop (n : Nat) (spec : List Char) :
    (natDigits n ++ '*' :: spec).drop (((natDigits n).length : Int) + 1).toNat = spec := by
  have : (((natDigits n).length : Int) + 1).toNat = (natDigits n).length + 1 := by omega
  rw [this]
  simp [List.drop_append]

end Xdist.Str

namespace Xdist.PyList

@[simp] theorem sliceTo_digits_star (n : Nat) (spec : List Char) :
    sliceTo (Str.natDigits n ++ '*' :: spec) ((Str.natDigits n).length : Int) = Str.natDigits n := by
  unfold sliceTo
  simp

end Xdist.PyList
