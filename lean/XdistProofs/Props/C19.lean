import XdistModel.Pure.Remote
import XdistProofs.Lemmas.PyList
import XdistProofs.Lemmas.Except
/-!
# C19 — remote runs map arguments into synced roots and filter files as documented

`make_reltoroot`, the rsync filter and the "purely local workers never synchronise" rule, for all arguments, root sets,
ignore patterns and path names (fnmatch bracket corner cases excepted, see the model).
-/
namespace Xdist.Props.C19
open Xdist Xdist.Remote

/-- an argument naming nothing on disk is passed through unchanged -/
theorem C19_passthrough (roots : List Path) (ps : String) (p : Path) (rest : String) :
    rewriteArg false roots ps p rest = .ok (ps ++ rest) := rfl

theorem relativeTo_some {r p rel : Path} (h : relativeTo r p = some rel) : p = r ++ rel := by
  induction r generalizing p with
  | nil => simp [relativeTo] at h; simp [h]
  | cons a t ih =>
    cases p with
    | nil => simp [relativeTo] at h
    | cons c cs =>
      simp only [relativeTo] at h
      split at h
      · rename_i hac; subst hac; rw [ih h]; rfl
      · simp at h

theorem relativeTo_append (r rel : Path) : relativeTo r (r ++ rel) = some rel := by
  induction r with
  | nil => rfl
  | cons a t ih => simp [relativeTo, ih]

theorem firstRoot_some {roots : List Path} {p r rel : Path} (h : firstRoot roots p = some (r, rel)) :
    r ∈ roots ∧ p = r ++ rel := by
  induction roots with
  | nil => simp [firstRoot] at h
  | cons a t ih =>
    simp only [firstRoot] at h
    split at h
    · rename_i rel' hr
      simp only [Option.some.injEq, Prod.mk.injEq] at h
      obtain ⟨rfl, rfl⟩ := h
      exact ⟨by simp, relativeTo_some hr⟩
    · obtain ⟨h1, h2⟩ := ih h
      exact ⟨List.mem_cons_of_mem _ h1, h2⟩

theorem firstRoot_none {roots : List Path} {p : Path} (h : firstRoot roots p = none) :
    ∀ r ∈ roots, ∀ rel, p ≠ r ++ rel := by
  induction roots with
  | nil => simp
  | cons a t ih =>
    simp only [firstRoot] at h
    split at h
    · simp at h
    · rename_i hr
      intro r hr' rel hp
      rcases List.mem_cons.1 hr' with rfl | hm
      · rw [hp, relativeTo_append] at hr; simp at hr
      · exact ih h r hm rel hp

/-- **An existing path under a synchronised root is rewritten to `<root name>/<relative path>`, the selector kept** -/
theorem C19_rewrite (roots : List Path) (ps : String) (p : Path) (rest : String) (r rel : Path)
    (h : firstRoot roots p = some (r, rel)) :
    rewriteArg true roots ps p rest = .ok (rootName r ++ "/" ++ showRel rel ++ rest) ∧
    r ∈ roots ∧ p = r ++ rel := by
  refine ⟨by simp [rewriteArg, h], firstRoot_some h⟩

/-- the root itself maps to `<root name>/.` -/
theorem C19_root_itself (roots : List Path) (r : Path) (ps rest : String) (hr : firstRoot roots r = some (r, [])) :
    rewriteArg true roots ps r rest = .ok (rootName r ++ "/" ++ "." ++ rest) := by
  simp [rewriteArg, hr, showRel]

/-- **An existing path outside all roots is rejected**, and only then -/
theorem C19_reject_iff (roots : List Path) (ps : String) (p : Path) (rest : String) :
    rewriteArg true roots ps p rest = .error .valueError ↔ ∀ r ∈ roots, ∀ rel, p ≠ r ++ rel := by
  constructor
  · intro h
    cases hf : firstRoot roots p with
    | none => exact firstRoot_none hf
    | some x => obtain ⟨r, rel⟩ := x; simp [rewriteArg, hf] at h
  · intro h
    cases hf : firstRoot roots p with
    | none => simp [rewriteArg, hf]
    | some x =>
      obtain ⟨r, rel⟩ := x
      obtain ⟨h1, h2⟩ := firstRoot_some hf
      exact absurd h2 (h r h1 rel)

/-- **The filter excludes exactly the entries whose base name or full path matches an ignore pattern** -/
theorem C19_filter_iff (ignores : List (List Char)) (name full : List Char) :
    filter ignores name full = false ↔ ∃ pat ∈ ignores, glob pat name = true ∨ glob pat full = true := by
  simp [filter, List.any_eq_true]

/-- the ignore list: the four built-in patterns, then the user's -/
theorem C19_ignores (cmdline ini : List (List Char)) :
    ignoresOf cmdline ini = [".*".toList, "*.pyc".toList, "*.pyo".toList, "*~".toList] ++ cmdline ++ ini := rfl

/-! ### the built-in patterns -/

theorem matchLits (lits s : List Char) : matchToks (lits.map Tok.lit) s = (s == lits) := by
  induction lits generalizing s with
  | nil => cases s <;> simp [matchToks]
  | cons c t ih =>
    cases s with
    | nil => simp [matchToks]
    | cons x r => simp [matchToks, ih, Bool.and_comm]

theorem matchStarLits (lits s : List Char) : matchToks (Tok.star :: lits.map Tok.lit) s = lits.isSuffixOf s := by
  rw [matchToks]
  induction s with
  | nil =>
    rw [matchStar, matchLits]
    cases lits <;> simp
  | cons x r ih =>
    rw [matchStar, matchLits, ih]
    by_cases h : (x :: r) = lits
    · subst h; simp
    · have h1 : ((x :: r) == lits) = false := by simpa using h
      rw [h1, Bool.false_or]
      by_cases hs : lits.isSuffixOf r = true
      · have : lits.isSuffixOf (x :: r) = true := by
          rw [List.isSuffixOf_iff_suffix] at hs ⊢
          exact List.IsSuffix.trans hs (List.suffix_cons x r)
        rw [hs, this]
      · have hs' : lits.isSuffixOf r = false := by cases hh : lits.isSuffixOf r <;> simp_all
        have : lits.isSuffixOf (x :: r) = false := by
          cases hh : lits.isSuffixOf (x :: r) with
          | false => rfl
          | true =>
            rw [List.isSuffixOf_iff_suffix] at hh
            rcases List.suffix_cons_iff.1 hh with h2 | h2
            · exact absurd h2.symm h
            · rw [← List.isSuffixOf_iff_suffix] at h2; rw [h2] at hs'; cases hs'
        rw [hs', this]

/-- `*.pyc`, `*.pyo`, `*~` exclude exactly the names with that ending … -/
theorem C19_builtin_suffix (s : List Char) :
    glob "*.pyc".toList s = ".pyc".toList.isSuffixOf s ∧ glob "*.pyo".toList s = ".pyo".toList.isSuffixOf s ∧
    glob "*~".toList s = "~".toList.isSuffixOf s := by
  refine ⟨?_, ?_, ?_⟩
  · exact matchStarLits ".pyc".toList s
  · exact matchStarLits ".pyo".toList s
  · exact matchStarLits "~".toList s

/-- … and `.*` exactly the names starting with a dot -/
theorem C19_builtin_hidden (s : List Char) : glob ".*".toList s = (s.head? == some '.') := by
  show matchToks [Tok.lit '.', Tok.star] s = _
  have star_all : ∀ t : List Char, matchStar (matchToks []) t = true := by
    intro t
    induction t with
    | nil => simp [matchStar, matchToks]
    | cons x r ih => simp [matchStar, ih]
  cases s with
  | nil => simp [matchToks]
  | cons x r =>
    have h := star_all r
    rw [matchToks, matchToks, h]
    by_cases hx : x = '.' <;> simp [hx]

/-- **Purely local workers without a chdir never trigger file synchronisation** -/
theorem C19_local_no_sync (specs : List Spec) (cands : List (List String))
    (h : ∀ s ∈ specs, s.popen = true ∧ s.chdir = false) :
    rsyncDirs specs cands = [] ∧ ∀ s ∈ specs, rsyncSendsFiles s = false := by
  constructor
  · unfold rsyncDirs
    have : specs.all (fun s => s.popen && !s.chdir) = true := by
      rw [List.all_eq_true]; intro s hs; simp [h s hs]
    simp [this]
  · intro s hs; simp [rsyncSendsFiles, h s hs]

/-- with any remote or chdir spec the roots are the candidates, each once, in order -/
theorem C19_remote_roots (specs : List Spec) (cands : List (List String)) (s : Spec) (hs : s ∈ specs)
    (h : s.popen = false ∨ s.chdir = true) : rsyncDirs specs cands = PyList.uniq cands := by
  unfold rsyncDirs
  have : specs.all (fun s => s.popen && !s.chdir) = false := by
    rw [List.all_eq_false]
    exact ⟨s, hs, by rcases h with h | h <;> simp [h]⟩
  simp [this]

/-- Non-vacuity -/
example : rewriteArg true [["home", "u", "proj"], ["home", "u", "lib"]] "/home/u/lib/t/test_x.py" ["home", "u", "lib", "t", "test_x.py"] "::test_f[a::b]"
    = .ok "lib/t/test_x.py::test_f[a::b]" := by decide
example : filter (ignoresOf ["build*".toList] []) "mod.pyc".toList "/r/pkg/mod.pyc".toList = false ∧
    filter (ignoresOf ["build*".toList] []) "mod.py".toList "/r/pkg/mod.py".toList = true ∧
    filter (ignoresOf ["build*".toList] []) "build_1".toList "/r/build_1".toList = false ∧
    filter (ignoresOf ["[!a-c]x?".toList] []) "dxy".toList "/r/dxy".toList = false := by decide

end Xdist.Props.C19
