import XdistModel.Sched.Each
import XdistProofs.Lemmas.AList
import XdistProofs.Lemmas.Except
/-!
# C08 — with `--dist each`, every environment runs every test (scheduler logic)

Theorems about the `EachScheduling` model (each.py, repaired): the first `schedule()` tells every registered node to run
its whole collection; a dead node's crash item is the head of its book and the rest is parked; a replacement with the
same specification and the same collection takes over exactly that rest; while a remainder is parked the scheduler does
not report `tests_finished`; a late node with nothing to take over is shut down instead of running everything again.
-/
namespace Xdist.Props.C08
open Xdist Xdist.Each

variable {τ : Type} [DecidableEq τ]

/-- one pass of the loop in `schedule()` over a node that was not started, has reported its collection and has an empty
    book: it is sent `runtests_all` followed by the shutdown signal, its book becomes its whole collection -/
theorem C08_schedule_new_node (s : State τ) (e : Env) (n : Nat) (t : List Nat) (col : List τ)
    (hs : s.started.contains n = false) (hc : AList.lookup s.node2collection n = some col)
    (hb : AList.lookup s.node2pending n = some []) (hbr : (e.flags.get n).broken = false)
    (hsd : e.flags.shuttingDown n = false) :
    scheduleLoop s e (n :: t) =
      scheduleLoop { s with node2pending := s.node2pending.set n (List.range col.length), started := s.started ++ [n] }
        ((e.emit (.runAll n)).shutdown n) t := by
  have hcc : s.node2collection.contains n = true := by simp [AList.contains, hc]
  have hget : s.node2pending.get n = .ok [] := AList.get_eq_ok.2 hb
  have hgetc : s.node2collection.get n = .ok col := AList.get_eq_ok.2 hc
  rw [scheduleLoop]
  simp only [hs, Bool.false_eq_true, ↓reduceIte, hcc, Bool.not_true]
  simp [hget, hgetc, bind, Except.bind, Env.sendRunAll, Env.send, hbr, hsd, pure, Except.pure]

/-- a node that is already down when `schedule()` reaches it (its channel is closed) is sent nothing; its book still
    becomes its whole collection, so that `remove_node` parks it for the replacement -/
theorem C08_schedule_new_node_down (s : State τ) (e : Env) (n : Nat) (t : List Nat) (col : List τ)
    (hs : s.started.contains n = false) (hc : AList.lookup s.node2collection n = some col)
    (hb : AList.lookup s.node2pending n = some []) (hsd : e.flags.shuttingDown n = true) :
    scheduleLoop s e (n :: t) =
      scheduleLoop { s with node2pending := s.node2pending.set n (List.range col.length), started := s.started ++ [n] } e t := by
  have hcc : s.node2collection.contains n = true := by simp [AList.contains, hc]
  have hget : s.node2pending.get n = .ok [] := AList.get_eq_ok.2 hb
  have hgetc : s.node2collection.get n = .ok col := AList.get_eq_ok.2 hc
  have hshut : e.shutdown n = e := by
    unfold Env.shutdown
    unfold Flags.shuttingDown at hsd
    simp [hsd]
  rw [scheduleLoop]
  simp only [hs, Bool.false_eq_true, ↓reduceIte, hcc, Bool.not_true]
  simp [hget, hgetc, bind, Except.bind, hsd, pure, Except.pure, hshut]

/-- a node that takes over a remainder is sent exactly that remainder -/
theorem C08_schedule_replacement (s : State τ) (e : Env) (n : Nat) (t : List Nat) (col : List τ) (i : Nat) (rest : List Nat)
    (hs : s.started.contains n = false) (hc : AList.lookup s.node2collection n = some col)
    (hb : AList.lookup s.node2pending n = some (i :: rest)) (hbr : (e.flags.get n).broken = false)
    (hsd : e.flags.shuttingDown n = false) :
    scheduleLoop s e (n :: t) = scheduleLoop { s with started := s.started ++ [n] } (e.emit (.run n (i :: rest))) t := by
  have hcc : s.node2collection.contains n = true := by simp [AList.contains, hc]
  have hget : s.node2pending.get n = .ok (i :: rest) := AList.get_eq_ok.2 hb
  rw [scheduleLoop]
  simp only [hs, Bool.false_eq_true, ↓reduceIte, hcc, Bool.not_true]
  simp [hget, bind, Except.bind, Env.sendRun, Env.send, hbr, hsd, pure, Except.pure]

/-- started nodes and late nodes that are still collecting are left alone -/
theorem C08_schedule_skips (s : State τ) (e : Env) (n : Nat) (t : List Nat)
    (h : s.started.contains n = true ∨ s.node2collection.contains n = false) :
    scheduleLoop s e (n :: t) = scheduleLoop s e t := by
  rw [scheduleLoop]
  rcases h with h | h
  · simp only [h, ↓reduceIte]
  · by_cases hs : s.started.contains n = true
    · simp only [hs, ↓reduceIte]
    · simp only [hs, Bool.false_eq_true, ↓reduceIte, h, Bool.not_false]

/-- **The crashed test is the head of the dead worker's book; the rest is parked for its replacement.** -/
theorem C08_crash_item (s : State τ) (n i : Nat) (rest : List Nat) (col : List τ) (item : τ)
    (hb : AList.lookup s.node2pending n = some (i :: rest)) (hc : AList.lookup s.node2collection n = some col)
    (hi : col[i]? = some item) (hcomp : s.completed = true) :
    removeNode s n = .ok ({ s with node2pending := s.node2pending.erase n,
                                   removed2pending := if rest.isEmpty then s.removed2pending
                                                      else s.removed2pending.set n rest }, some item) := by
  have hp : s.node2pending.pop n = .ok (i :: rest, s.node2pending.erase n) := AList.pop_eq_ok.2 ⟨hb, rfl⟩
  have hgetc : s.node2collection.get n = .ok col := AList.get_eq_ok.2 hc
  unfold removeNode
  simp only [hp, Except.bind, hcomp, ↓reduceIte, hgetc, hi]
  cases rest <;> rfl

/-- a node that dies holding nothing leaves nothing behind and no test is reported as crashed -/
theorem C08_idle_death (s : State τ) (n : Nat) (hb : AList.lookup s.node2pending n = some []) :
    removeNode s n = .ok ({ s with node2pending := s.node2pending.erase n,
                                   node2collection := if s.completed then s.node2collection
                                                      else s.node2collection.erase n }, none) := by
  have hp : s.node2pending.pop n = .ok ([], s.node2pending.erase n) := AList.pop_eq_ok.2 ⟨hb, rfl⟩
  unfold removeNode
  simp only [hp, Except.bind]

/-- **The run does not finish while a remainder waits for its replacement.** -/
theorem C08_not_finished_while_parked (s : State τ) (h : s.removed2pending ≠ []) : testsFinished s = false := by
  unfold testsFinished
  cases hr : s.removed2pending with
  | nil => exact absurd hr h
  | cons a t => simp

/-- **A replacement with the same specification and the same collection takes over exactly the dead worker's rest**
    (the first parked remainder of that specification), together with its collection. -/
theorem C08_replacement_takes_rest (spec : Nat → Nat) (s : State τ) (e : Env) (n dead : Nat) (rest : List Nat)
    (more : AList Nat (List Nat)) (col : List τ)
    (hreg : s.node2pending.contains n = true) (hcomp : s.completed = true)
    (hr : s.removed2pending = (dead, rest) :: more) (hspec : spec dead = spec n)
    (hc : AList.lookup s.node2collection dead = some col) :
    addNodeCollection spec s e n col =
      .ok ({ s with removed2pending := s.removed2pending.erase dead, node2pending := s.node2pending.set n rest,
                    node2collection := s.node2collection.set n col }, e) := by
  have hgetc : s.node2collection.get dead = .ok col := AList.get_eq_ok.2 hc
  unfold addNodeCollection
  simp only [hreg, Bool.not_true, Bool.false_eq_true, ↓reduceIte, hcomp, hr, takeOver, hspec, hgetc, bind, Except.bind,
    ne_eq, not_true_eq_false]

/-- a late node whose collection differs from the dead worker's takes over nothing: it is shut down -/
theorem C08_replacement_mismatch (spec : Nat → Nat) (s : State τ) (e : Env) (n dead : Nat) (rest : List Nat)
    (more : AList Nat (List Nat)) (col c : List τ)
    (hreg : s.node2pending.contains n = true) (hcomp : s.completed = true)
    (hr : s.removed2pending = (dead, rest) :: more) (hspec : spec dead = spec n)
    (hc : AList.lookup s.node2collection dead = some col) (hne : c ≠ col) :
    addNodeCollection spec s e n c = .ok ({ s with started := s.started ++ [n] }, e.shutdown n) := by
  have hgetc : s.node2collection.get dead = .ok col := AList.get_eq_ok.2 hc
  unfold addNodeCollection
  simp only [hreg, Bool.not_true, Bool.false_eq_true, ↓reduceIte, hcomp, hr, takeOver, hspec, hgetc, bind, Except.bind,
    ne_eq, hne, not_false_eq_true, nothingToTakeOver]

/-- a late node when nothing is parked (e.g. the worker it replaces died on its last test) is shut down, not restarted
    on the whole collection -/
theorem C08_nothing_left (spec : Nat → Nat) (s : State τ) (e : Env) (n : Nat) (c : List τ)
    (hreg : s.node2pending.contains n = true) (hcomp : s.completed = true) (hr : s.removed2pending = []) :
    addNodeCollection spec s e n c = .ok ({ s with started := s.started ++ [n] }, e.shutdown n) := by
  unfold addNodeCollection
  simp only [hreg, Bool.not_true, Bool.false_eq_true, ↓reduceIte, hcomp, hr, takeOver, nothingToTakeOver]

/-- Non-vacuity, end to end on the model: two environments, three tests; gw0 dies on test 1 holding `[1, 2]`; its
    replacement gw2 is sent exactly `[2]`; nothing finishes before that. -/
example :
    let spec : Nat → Nat := fun _ => 0
    let run := fun (s : State Nat) (e : Env) (ops : List (SOp Nat)) =>
      ops.foldlM (fun (p : State Nat × Env) op => (step spec p.1 p.2 op).map (fun r => (r.1, r.2.1))) (s, e)
    ∃ s e, run (init 2) {} [.addNode 0, .addNode 1, .addNodeCollection 0 [7, 8, 9], .addNodeCollection 1 [7, 8, 9], .schedule,
        .markComplete 0 0 false, .removeNode 0, .addNode 2, .addNodeCollection 2 [7, 8, 9], .schedule] = .ok (s, e) ∧
      e.outs = [.runAll 0, .shutdown 0, .runAll 1, .shutdown 1, .run 2 [2]] ∧ testsFinished s = false ∧
      s.removed2pending = [] := by
  refine ⟨_, _, rfl, ?_⟩
  decide

end Xdist.Props.C08
