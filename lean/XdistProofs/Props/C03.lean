import XdistProofs.Contract.LoadRefines
import XdistProofs.Contract.WorkStealRefines
/-!
# C03 — a worker crash costs exactly the test that was running (controller side)

For `load` and `worksteal`: `remove_node` reports exactly the head of the dead worker's book (the test it was
running or about to start, by the book/queue correspondence), returns the rest of the book to the pool, and the
ledger stays exact: with no re-queue, every index is — exactly once — outstanding, completed, or crash-reported.
-/
namespace Xdist.Props.C03
open Xdist Xdist.Contract

variable {τ : Type} [DecidableEq τ]

/-- load: what `remove_node` returns and does, for every state. -/
theorem C03_load_crash_item {s s' : Load.State τ} {e e' : Env} {n : Nat} {ret : Option τ}
    (h : Load.removeNode s e n = .ok (s', e', ret)) :
    ∃ book acts, AList.lookup s.node2pending n = some book ∧
      run (Load.view s) e (.drop n :: acts) = some (Load.view s', e') ∧
      (match book with
       | [] => ret = none
       | i :: _ => ∃ col, s.collection = some col ∧ col[i]? = ret ∧ ret.isSome) := by
  obtain ⟨book, acts, hl, r, _, _, hret⟩ := Load.removeNode_ref h
  exact ⟨book, acts, hl, r, hret⟩

/-- worksteal: the same. -/
theorem C03_worksteal_crash_item {s s' : WorkSteal.State τ} {e e' : Env} {n : Nat} {ret : Option τ}
    (hk : WorkSteal.KeysNodup s)
    (h : WorkSteal.removeNode s e n = .ok (s', e', ret)) :
    ∃ book acts, AList.lookup s.node2pending n = some book ∧
      run (WorkSteal.view s) e (.drop n :: acts) = some (WorkSteal.view s', e') ∧
      WorkSteal.CrashRet s.collection book ret := by
  obtain ⟨book, acts, hl, r, _, _, _, hret⟩ := WorkSteal.removeNode_ref hk h
  exact ⟨book, acts, hl, r, hret⟩

/-- the `drop` act: the head of the book is the crashed test, the tail goes to the end of the pool, the node is gone -/
theorem C03_drop_semantics {v v' : View} {e e' : Env} {n : Nat} (h : apply v e (.drop n) = some (v', e')) :
    ∃ book, AList.lookup v.books n = some book ∧ v'.pool = v.pool ++ book.tail ∧
      v'.books = AList.erase v.books n ∧ e' = e := by
  simp only [apply] at h
  cases hb : AList.lookup v.books n with
  | none => simp [hb] at h
  | some book =>
    simp [hb] at h
    obtain ⟨rfl, rfl⟩ := h
    exact ⟨book, rfl, rfl, rfl, rfl⟩

/-- load, any number of crashes, no re-queue: each index is outstanding, completed or crash-reported — exactly once.
    In particular at the end (`all = []`) a test that was reported as crashed was not also completed, every other
    test was completed exactly once, and there is one crash report per crash with a non-empty book. -/
theorem C03_load_accounting (k : Nat) (msc : Option Int) (e0 : Env) (ops : List (SOp τ))
    {s : Load.State τ} {e : Env} {g : Ghost} {col : List τ}
    (h : Load.runOps (Load.init k msc) e0 {} ops = some (s, e, g))
    (hcol : s.collection = some col) (hreq : g.requeued = []) :
    ((Load.view s).all ++ g.completed ++ g.crashed).Perm (List.range col.length) ∧
    ((Load.view s).all = [] → (g.completed ++ g.crashed).Perm (List.range col.length) ∧ (g.completed ++ g.crashed).Nodup) := by
  obtain ⟨_, hb, hs⟩ := Load.runOps_inv (τ := τ) (s := Load.init k msc) (e := e0) (g := {}) (by intro _; rfl)
    (by simp [Bal, Load.view, Load.init, View.all, AList.values]) (by simp [Load.StartedOK, Load.init]) h
  unfold Bal at hb
  unfold Load.StartedOK at hs
  rw [hcol] at hs
  rw [hreq, hs] at hb
  simp only [List.append_nil] at hb
  refine ⟨hb, ?_⟩
  intro hnil
  rw [hnil] at hb
  simp only [List.nil_append] at hb
  exact ⟨hb, hb.nodup_iff.2 List.nodup_range⟩

theorem C03_worksteal_accounting (k : Nat) (e0 : Env) (ops : List (SOp τ))
    {s : WorkSteal.State τ} {e : Env} {g : Ghost} {col : List τ}
    (hl : WorkSteal.AllLegal (WorkSteal.init k) e0 ops)
    (h : WorkSteal.runOps (WorkSteal.init k) e0 {} ops = some (s, e, g))
    (hcol : s.collection = some col) (hreq : g.requeued = []) :
    ((WorkSteal.view s).all ++ g.completed ++ g.crashed).Perm (List.range col.length) ∧
    ((WorkSteal.view s).all = [] →
      (g.completed ++ g.crashed).Perm (List.range col.length) ∧ (g.completed ++ g.crashed).Nodup) := by
  obtain ⟨_, _, hb, hs⟩ := WorkSteal.runOps_inv (τ := τ) (s := WorkSteal.init k) (e := e0) (g := {}) (by intro _; rfl)
    (by simp [WorkSteal.KeysNodup, WorkSteal.init, AList.keys])
    (by simp [Bal, WorkSteal.view, WorkSteal.init, View.all, AList.values])
    (by simp [WorkSteal.StartedOK, WorkSteal.init]) hl h
  unfold Bal at hb
  unfold WorkSteal.StartedOK at hs
  rw [hcol] at hs
  rw [hreq, hs] at hb
  simp only [List.append_nil] at hb
  refine ⟨hb, ?_⟩
  intro hnil
  rw [hnil] at hb
  simp only [List.nil_append] at hb
  exact ⟨hb, hb.nodup_iff.2 List.nodup_range⟩

/-- Non-vacuity: node 0 dies holding `[1, 4]` (index 0 already completed): test 1 is the crash item, 4 goes back
    to the pool and is run by node 1; every index ends up completed or crash-reported exactly once. -/
example :
    ∃ s e g, Load.runOps (Load.init (τ := Nat) 2 none) {} {}
      [.addNode 0, .addNode 1, .addNodeCollection 0 [10, 11, 12, 13, 14], .addNodeCollection 1 [10, 11, 12, 13, 14],
       .schedule, .markComplete 0 0 false, .removeNode 0, .markComplete 1 2 false, .markComplete 1 3 false,
       .markComplete 1 4 false] = some (s, e, g)
      ∧ g.crashed = [1] ∧ g.requeued = [] ∧ (Load.view s).all = [] ∧ g.completed = [4, 3, 2, 0] := by
  refine ⟨_, _, _, rfl, ?_⟩
  decide

end Xdist.Props.C03
