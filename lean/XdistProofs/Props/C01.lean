import XdistProofs.Contract.LoadRefines
import XdistProofs.Contract.WorkStealRefines
/-!
# C01 — every collected test runs exactly once (load-balancing modes, no worker failure)

Scheduler-level content of the property for `--dist load`: the controller's ledger is exact for
**every** sequence of scheduler calls (any collection, any number of nodes, any `--maxschedchunk`,
any order of completions, any slow/fast pattern).  Whole-system composition: see DESIGN §5 C01.
-/
namespace Xdist.Props.C01
open Xdist Xdist.Contract Xdist.Load

variable {τ : Type} [DecidableEq τ]

/-- Full ledger statement: after any sequence of calls that `DSession` may make (completions, crashes,
    re-queues, late nodes …), outstanding + completed + crashed = all indices + re-queued, as multisets. -/
theorem C01_load_ledger (k : Nat) (msc : Option Int) (e0 : Env) (ops : List (SOp τ))
    {s : State τ} {e : Env} {g : Ghost}
    (h : runOps (init k msc) e0 {} ops = some (s, e, g)) :
    Bal (view s) g ∧ StartedOK s g := by
  have := runOps_inv (τ := τ) (s := init k msc) (e := e0) (g := {}) (by intro _; rfl)
    (by simp [Bal, view, init, View.all, AList.values]) (by simp [StartedOK, init]) h
  exact ⟨this.2.1, this.2.2⟩

/-- **Exactly once, not before all are done.**  In a run without worker failure and without re-queues:
    at any moment the completed tests together with the outstanding ones are exactly the indices of the
    agreed collection, each once.  So no index is completed twice, none is lost, and the ledger is empty
    (which is what `tests_finished`/session end waits for) only when every test has been completed. -/
theorem C01_load_exactly_once (k : Nat) (msc : Option Int) (e0 : Env) (ops : List (SOp τ))
    {s : State τ} {e : Env} {g : Ghost} {col : List τ}
    (h : runOps (init k msc) e0 {} ops = some (s, e, g))
    (hcol : s.collection = some col) (hcrash : g.crashed = []) (hreq : g.requeued = []) :
    ((view s).all ++ g.completed).Perm (List.range col.length) ∧
    ((view s).all = [] → g.completed.Perm (List.range col.length) ∧ g.completed.Nodup) := by
  obtain ⟨hb, hs⟩ := C01_load_ledger k msc e0 ops h
  unfold Bal at hb
  unfold StartedOK at hs
  rw [hcol] at hs
  rw [hcrash, hreq, hs] at hb
  simp only [List.append_nil] at hb
  refine ⟨hb, ?_⟩
  intro hnil
  rw [hnil] at hb
  simp only [List.nil_append] at hb
  exact ⟨hb, hb.nodup_iff.2 List.nodup_range⟩

/-- Non-vacuity: a concrete 2-node, 5-test run satisfies the hypotheses and ends with every test completed. -/
example :
    ∃ s e g, runOps (init (τ := Nat) 2 none) {} {}
      [.addNode 0, .addNode 1, .addNodeCollection 0 [10, 11, 12, 13, 14], .addNodeCollection 1 [10, 11, 12, 13, 14],
       .schedule, .markComplete 0 0 false, .markComplete 1 2 false, .markComplete 0 1 false,
       .markComplete 0 4 false, .markComplete 1 3 false] = some (s, e, g)
      ∧ s.collection = some [10, 11, 12, 13, 14] ∧ g.crashed = [] ∧ g.requeued = [] ∧ (view s).all = [] := by
  refine ⟨_, _, _, rfl, ?_⟩
  decide

/-! ### `--dist worksteal` -/

theorem C01_worksteal_ledger (k : Nat) (e0 : Env) (ops : List (SOp τ))
    {s : WorkSteal.State τ} {e : Env} {g : Ghost}
    (hl : WorkSteal.AllLegal (WorkSteal.init k) e0 ops)
    (h : WorkSteal.runOps (WorkSteal.init k) e0 {} ops = some (s, e, g)) :
    Bal (WorkSteal.view s) g ∧ WorkSteal.StartedOK s g := by
  have := WorkSteal.runOps_inv (τ := τ) (s := WorkSteal.init k) (e := e0) (g := {}) (by intro _; rfl)
    (by simp [WorkSteal.KeysNodup, WorkSteal.init, AList.keys])
    (by simp [Bal, WorkSteal.view, WorkSteal.init, View.all, AList.values])
    (by simp [WorkSteal.StartedOK, WorkSteal.init]) hl h
  exact ⟨this.2.2.1, this.2.2.2⟩

/-- worksteal: as for load, with steal round trips in the sequence (each reply listing tests of the victim's book). -/
theorem C01_worksteal_exactly_once (k : Nat) (e0 : Env) (ops : List (SOp τ))
    {s : WorkSteal.State τ} {e : Env} {g : Ghost} {col : List τ}
    (hl : WorkSteal.AllLegal (WorkSteal.init k) e0 ops)
    (h : WorkSteal.runOps (WorkSteal.init k) e0 {} ops = some (s, e, g))
    (hcol : s.collection = some col) (hcrash : g.crashed = []) (hreq : g.requeued = []) :
    ((WorkSteal.view s).all ++ g.completed).Perm (List.range col.length) ∧
    ((WorkSteal.view s).all = [] → g.completed.Perm (List.range col.length) ∧ g.completed.Nodup) := by
  obtain ⟨hb, hs⟩ := C01_worksteal_ledger k e0 ops hl h
  unfold Bal at hb
  unfold WorkSteal.StartedOK at hs
  rw [hcol] at hs
  rw [hcrash, hreq, hs] at hb
  simp only [List.append_nil] at hb
  refine ⟨hb, ?_⟩
  intro hnil
  rw [hnil] at hb
  simp only [List.nil_append] at hb
  exact ⟨hb, hb.nodup_iff.2 List.nodup_range⟩

/-- Non-vacuity (worksteal): a run with a successful steal round trip. -/
example :
    ∃ s e g, WorkSteal.runOps (WorkSteal.init (τ := Nat) 2) {} {}
      [.addNode 0, .addNode 1, .addNodeCollection 0 [10, 11, 12, 13, 14, 15], .addNodeCollection 1 [10, 11, 12, 13, 14, 15],
       .schedule, .markComplete 0 0 false, .markComplete 0 1 false, .removePending 1 [5],
       .markComplete 0 2 false, .markComplete 0 5 false, .markComplete 1 3 false, .markComplete 1 4 false]
        = some (s, e, g)
      ∧ s.collection = some [10, 11, 12, 13, 14, 15] ∧ g.crashed = [] ∧ g.requeued = []
      ∧ (WorkSteal.view s).all = [] ∧ SOut.steal 1 [5] ∈ e.outs := by
  refine ⟨_, _, _, rfl, ?_⟩
  decide

end Xdist.Props.C01
