import XdistProofs.Sched.IfaceQuiet
/-!
# C11 — stop conditions halt dispatch and end the run as interrupted

`I` is any scheduler that is quiet once all its nodes are shutting down (`Ctl.Quiet`); `Sched.iface_quiet` proves this for
the scheduler `pytest_xdist_make_scheduler` builds for each of the six `--dist` modes, so every theorem below holds for
all modes, every collection, every worker count, every `--maxfail`, every budget and **every sequence of controller
events** (workers becoming ready, finishing or crashing after the decision included).
-/
namespace Xdist.Props.C11
open Xdist Xdist.Ctl

variable {σ τ : Type}

/-- **No further tests are dispatched.**  From the end of the loop iteration in which a stop reason was set, the
    dispatching commands on the wire never change again; the reason stays set and the shutdown stays in force. -/
theorem C11_no_dispatch_after_stop (I : SchedI σ τ) (hQ : Quiet I) (evs : List (Event τ)) {st st' : State σ τ}
    (hi : ShutInv I st) (hstop : st.shouldstop.isSome = true) (hsd : st.shuttingdown = true)
    (h : runLoop I st evs = .ok st') :
    dispatches st'.env = dispatches st.env ∧ st'.shouldstop.isSome = true ∧ st'.shuttingdown = true :=
  runLoop_no_dispatch_after_stop I hQ evs hi hstop hsd h

/-- … and the iteration that sets the reason does not dispatch either, and ends with the shutdown in force and every
    scheduled worker told to shut down -/
theorem C11_stop_iteration (I : SchedI σ τ) (hQ : Quiet I) {st st' : State σ τ} {ev : Event τ}
    (hi : ShutInv I st) (h : loopOnce I st ev = .ok st') (h0 : st.shouldstop = none) (h1 : st'.shouldstop.isSome = true) :
    dispatches st'.env = dispatches st.env ∧ st'.shuttingdown = true ∧
    ∀ n ∈ I.nodes st'.sched, st'.env.flags.shuttingDown n = true := by
  have sp := loopOnce_spec I hQ hi h
  exact ⟨sp.setting h0 h1, sp.stopped h1, sp.shutInv (sp.stopped h1)⟩

/-- the same, from the very start of a run: for every prefix of events after which a stop reason is set, whatever
    follows adds nothing but shutdown signals -/
theorem C11_run (I : SchedI σ τ) (hQ : Quiet I) (s0 : σ) (k mf : Nat) (mr : Option Int)
    (pre post : List (Event τ)) {st1 st2 : State σ τ}
    (h1 : runLoop I (init I s0 k mf mr) pre = .ok st1) (hstop : st1.shouldstop.isSome = true)
    (hsd : st1.shuttingdown = true) (h2 : runLoop I st1 post = .ok st2) :
    dispatches st2.env = dispatches st1.env ∧ st2.shouldstop.isSome = true :=
  let hi := runLoop_shutInv I hQ pre (init_shutInv I s0 k mf mr) h1
  let r := runLoop_no_dispatch_after_stop I hQ post hi hstop hsd h2
  ⟨r.1, r.2.1⟩

/-- **The run ends as interrupted iff a stop reason was set** (`pytest_runtestloop` raises `Interrupted(reason)`) -/
theorem C11_outcome_iff (st : State σ τ) : (∃ r, outcome st = .interrupted r) ↔ st.shouldstop.isSome = true := by
  unfold outcome
  cases st.shouldstop <;> simp

/-- **Without such a condition the run is never interrupted**: a stop reason appears only through `--maxfail` failed
    reports, a worker that ended with a fail-fast or stop request, or a keyboard interrupt. -/
theorem C11_only_if (I : SchedI σ τ) {st st' : State σ τ} {ev : Event τ}
    (h : handle I st ev = .ok st') (h0 : st.shouldstop = none) (h1 : st'.shouldstop.isSome = true) :
    (∃ n x sf ss, ev = .workerfinished n x sf ss ∧ (x = 2 ∨ sf.isSome = true ∨ ss.isSome = true)) ∨
    ((∃ n, ev = .testreport n true) ∨ (∃ n key, ev = .collectreport n key true)) ∧
      st.maxfail ≠ 0 ∧ st.countfailures + 1 ≥ st.maxfail := by
  cases ev with
  | workerready n =>
    simp only [handle] at h
    split at h
    · simp only [Except.ok.injEq] at h; subst h; rw [h0] at h1; cases h1
    · obtain ⟨a, ha, hb⟩ := map_ok.1 h
      subst hb
      obtain ⟨_, h2, _⟩ := callSched_fields I (r := a.2) (show callSched I st _ = .ok (a.1, a.2) by rw [ha])
      rw [h2, h0] at h1; cases h1
  | workerfinished n x sf ss =>
    left
    refine ⟨n, x, sf, ss, rfl, ?_⟩
    by_cases hx : x = 2
    · exact Or.inl hx
    · right
      simp only [handle] at h
      unfold workerfinished at h
      simp only [hx, ↓reduceIte] at h
      cases sf with
      | some a => exact Or.inl rfl
      | none =>
        cases ss with
        | some a => exact Or.inr rfl
        | none =>
          exfalso
          simp only at h
          split at h
          · split at h
            · simp at h
            · simp at h
            · rename_i st1 hc
              obtain ⟨_, a2, _⟩ := callSched_fields I hc
              obtain ⟨_, _, _, hss, _⟩ := removeActive_fields h
              rw [hss, a2] at h1; simp only at h1; rw [h0] at h1; cases h1
          · obtain ⟨_, _, _, hss, _⟩ := removeActive_fields h
            rw [hss] at h1; simp only at h1; rw [h0] at h1; cases h1
  | internalError n =>
    simp only [handle] at h
    obtain ⟨a, ha, hb⟩ := map_ok.1 h
    subst hb
    obtain ⟨_, _, _, hss, _⟩ := removeActive_fields ha
    have : a.shouldstop.isSome = true := h1
    rw [hss, h0] at this; cases this
  | errordown n rq =>
    have hq : Quiet I ∨ True := Or.inr trivial
    simp only [handle] at h
    unfold errordown at h
    simp only at h
    exfalso
    have tail : ∀ (s1 s2 : State σ τ), s1.shouldstop = none → removeActive (restartOrStop I s1 n) n = .ok s2 →
        s2.shouldstop = none := by
      intro s1 s2 hs1 hr
      obtain ⟨_, _, _, hss, _⟩ := removeActive_fields hr
      rw [hss, (restartOrStop_fields I s1 n).1, hs1]
    split at h
    · rw [tail ({ st with pubs := st.pubs ++ [Pub.nodedown n true] } : State σ τ) st' h0 h] at h1; cases h1
    · simp at h
    · rename_i st1 hc
      obtain ⟨_, a2, _⟩ := callSched_fields I hc
      rw [tail _ _ (by rw [a2]; exact h0) h] at h1; cases h1
    · rename_i st1 t hc
      obtain ⟨_, a2, _⟩ := callSched_fields I hc
      obtain ⟨st2, h2, h3⟩ := bind_ok.1 h
      obtain ⟨b1, _⟩ := handleCrashItem_fields I h2
      rw [tail _ _ (by rw [b1, a2]; exact h0) h3] at h1; cases h1
  | collectionfinish n ids =>
    exfalso
    simp only [handle, collectionfinish] at h
    split at h
    · simp only [Except.ok.injEq] at h; subst h; rw [h0] at h1; cases h1
    · split at h
      · simp only [Except.ok.injEq] at h; subst h; rw [h0] at h1; cases h1
      · obtain ⟨r, hr, h2⟩ := bind_ok.1 h
        obtain ⟨_, a2, _⟩ := callSched_fields I (r := r.2) (show callSched I st _ = .ok (r.1, r.2) by rw [hr])
        split at h2
        · obtain ⟨a, ha, hb⟩ := map_ok.1 h2
          subst hb
          obtain ⟨_, b2, _⟩ := callSched_fields I (r := a.2) (show callSched I r.1 _ = .ok (a.1, a.2) by rw [ha])
          rw [b2, a2, h0] at h1; cases h1
        · simp only [Except.ok.injEq] at h2; subst h2
          rw [a2, h0] at h1; cases h1
  | testreport n failed =>
    simp only [handle, Except.ok.injEq] at h
    subst h
    right
    unfold handleFailures at h1
    cases failed with
    | false => simp only [Bool.false_eq_true, ↓reduceIte] at h1; rw [h0] at h1; cases h1
    | true =>
      simp only [↓reduceIte] at h1
      split at h1
      · rename_i hc
        exact ⟨Or.inl ⟨n, rfl⟩, hc.1, hc.2.1⟩
      · simp only at h1; rw [h0] at h1; cases h1
  | complete n i slow =>
    simp only [handle] at h
    obtain ⟨a, ha, hb⟩ := map_ok.1 h
    subst hb
    obtain ⟨_, h2, _⟩ := callSched_fields I (r := a.2) (show callSched I st _ = .ok (a.1, a.2) by rw [ha])
    rw [h2, h0] at h1; cases h1
  | unscheduled n is =>
    simp only [handle] at h
    obtain ⟨a, ha, hb⟩ := map_ok.1 h
    subst hb
    obtain ⟨_, h2, _⟩ := callSched_fields I (r := a.2) (show callSched I st _ = .ok (a.1, a.2) by rw [ha])
    rw [h2, h0] at h1; cases h1
  | collectreport n key failed =>
    simp only [handle] at h
    split at h
    · simp only [Except.ok.injEq] at h; subst h; rw [h0] at h1; cases h1
    · simp only [Except.ok.injEq] at h; subst h
      right
      unfold handleFailures at h1
      cases failed with
      | false => simp only [Bool.false_eq_true, ↓reduceIte] at h1; rw [h0] at h1; cases h1
      | true =>
        simp only [↓reduceIte] at h1
        split at h1
        · rename_i hc
          exact ⟨Or.inr ⟨n, key, rfl⟩, hc.1, hc.2.1⟩
        · simp only at h1; rw [h0] at h1; cases h1
  | other =>
    simp only [handle, Except.ok.injEq] at h; subst h; rw [h0] at h1; cases h1

/-- the concrete schedulers satisfy the hypothesis of the theorems above -/
theorem C11_all_modes (specs : AList Nat Nat) : Quiet (Sched.iface specs) := Sched.iface_quiet specs

/-- the load scheduler over numeric test ids, as an interface (for the example below) -/
def loadI : SchedI (Load.State Nat) Nat :=
  { step := Load.step, nodes := Load.nodes, testsFinished := Load.testsFinished,
    collectionIsCompleted := Load.collectionIsCompleted }

theorem loadI_quiet : Quiet loadI := ⟨fun hq hsd h => Load.step_quiet hq hsd h⟩

/-- Non-vacuity: `--maxfail=1`, load mode, two workers, six tests: the failing report of the first test sets the reason;
    afterwards completions, which would otherwise top the workers up, dispatch nothing. -/
example :
    ∃ st1 st2,
      runLoop loadI (init loadI (Load.init 2 none) 2 1 none)
        [.workerready 0, .workerready 1, .collectionfinish 0 [10, 11, 12, 13, 14, 15],
         .collectionfinish 1 [10, 11, 12, 13, 14, 15], .testreport 0 true] = .ok st1 ∧
      runLoop loadI (init loadI (Load.init 2 none) 2 1 none)
        [.workerready 0, .workerready 1, .collectionfinish 0 [10, 11, 12, 13, 14, 15],
         .collectionfinish 1 [10, 11, 12, 13, 14, 15], .testreport 0 true,
         .complete 0 0 false, .complete 1 2 false] = .ok st2 ∧
      st1.shouldstop = some (.maxfail 1) ∧ st1.shuttingdown = true ∧
      dispatches st2.env = dispatches st1.env ∧ (dispatches st1.env).length = 2 := by
  refine ⟨_, _, rfl, rfl, ?_⟩
  decide

end Xdist.Props.C11
