import XdistProofs.Ctl.Budget
/-!
# C10 — worker restarts are bounded by the restart budget

The theorems quantify over **every** scheduler (any interface `I`, i.e. any function standing for the scheduler),
every number of initial workers, every `--maxfail`, every budget and every finite sequence of controller events
(deaths of any length, in any order, interleaved with anything else).
-/
namespace Xdist.Props.C10
open Xdist Xdist.Ctl

variable {σ τ : Type}

/-- **The number of replacement workers never exceeds the budget**: after any run of the controller loop, exactly
    `min (workers lost) budget` replacements were started (a negative budget counts as zero). -/
theorem C10_spawn_bound (I : SchedI σ τ) (s0 : σ) (k mf : Nat) (b : Int) (evs : List (Event τ)) {st' : State σ τ}
    (h : runLoop I (init I s0 k mf (some b)) evs = .ok st') :
    spawnCount st' = min st'.failedNodes b.toNat ∧ spawnCount st' ≤ b.toNat := by
  obtain ⟨h1, _, h3⟩ := runLoop_inv I evs (init_inv I s0 k mf (some b)) h
  have : spawnCount st' = min st'.failedNodes b.toNat := by
    rw [spawnCount_eq_length, h1, h3]; simp [cap]
  exact ⟨this, by omega⟩

/-- zero disables replacement -/
theorem C10_zero_disables (I : SchedI σ τ) (s0 : σ) (k mf : Nat) (evs : List (Event τ)) {st' : State σ τ}
    (h : runLoop I (init I s0 k mf (some 0)) evs = .ok st') : spawnCount st' = 0 := by
  have := (C10_spawn_bound I s0 k mf 0 evs h).2
  simpa using this

/-- without a budget (`--tx` only, no `-n`, no option) every lost worker is replaced — the statement's "by default four
    times the number of workers" does not apply then (known finding F9) -/
theorem C10_unset_unbounded (I : SchedI σ τ) (s0 : σ) (k mf : Nat) (evs : List (Event τ)) {st' : State σ τ}
    (h : runLoop I (init I s0 k mf none) evs = .ok st') : spawnCount st' = st'.failedNodes := by
  obtain ⟨h1, _, h3⟩ := runLoop_inv I evs (init_inv I s0 k mf none) h
  rw [spawnCount_eq_length, h1, h3]; simp [cap]

/-- **One more death than the budget allows**: the run stops dispatching (shutdown is triggered for every scheduled
    worker), the documented summary is recorded, and no replacement is started. -/
theorem C10_exceeded (I : SchedI σ τ) (st : State σ τ) (n : Nat) (b : Int)
    (hm : st.maxRestart = some b) (hb : ((st.failedNodes + 1 : Nat) : Int) > b) :
    let st' := restartOrStop I st n
    st'.shuttingdown = true ∧
    st'.summary = some (if b = 0 then Summary.disabled n else Summary.maximum b) ∧
    spawnIds st' = spawnIds st ∧ st'.failedNodes = st.failedNodes + 1 ∧
    (st.shuttingdown = false → st'.env = st.env.shutdownAll (I.nodes st.sched)) := by
  simp only
  rw [restartOrStop_exceeded I st n b hm hb]
  unfold triggerShutdown
  by_cases hs : st.shuttingdown = true
  · simp [hs, spawnIds]
  · simp [hs, spawnIds]

/-- once the budget is exceeded it stays exceeded: every later death is handled the same way (it neither restarts
    nor revokes the shutdown) -/
theorem C10_stays_exceeded (I : SchedI σ τ) (st : State σ τ) (n : Nat) (b : Int)
    (hm : st.maxRestart = some b) (hb : (st.failedNodes : Int) > b) :
    (restartOrStop I st n).shuttingdown = true ∧ spawnIds (restartOrStop I st n) = spawnIds st :=
  let h := C10_exceeded I st n b hm (by omega)
  ⟨h.1, h.2.2.1⟩

/-- within the budget a lost worker is replaced by exactly one new worker with the next free id, and the pending
    shutdown is revoked so that the replacement can be used -/
theorem C10_within (I : SchedI σ τ) (st : State σ τ) (n : Nat) (b : Int)
    (hm : st.maxRestart = some b) (hb : ¬ ((st.failedNodes + 1 : Nat) : Int) > b) :
    let st' := restartOrStop I st n
    spawnIds st' = spawnIds st ++ [st.nextId] ∧ st'.shuttingdown = false ∧ st'.summary = st.summary ∧
    st'.active = st.active ++ [st.nextId] := by
  simp only
  rw [restartOrStop_within I st n (Or.inr ⟨b, hm, hb⟩), spawnIds_cloneNode]
  simp [cloneNode, spawnIds]

/-- the default budget (dsession.py:562-574): the explicit option, else four per `-n` worker, else none -/
theorem C10_default_explicit (b : Int) (np : Option Int) : defaultMaxRestart (some b) np = some b := rfl
theorem C10_default_n (k : Int) (hk : k ≠ 0) : defaultMaxRestart none (some k) = some (k * 4) := by
  simp [defaultMaxRestart, hk]
theorem C10_default_unset : defaultMaxRestart none none = none ∧ defaultMaxRestart none (some 0) = none := by
  simp [defaultMaxRestart]

/-- Non-vacuity: with budget 1, three deaths start one replacement and end with the summary recorded
    (a trivial scheduler stands in: it accepts every call and knows no nodes). -/
def trivialI : SchedI Unit Nat :=
  { step := fun s e _ => .ok (s, e, none), nodes := fun _ => [], testsFinished := fun _ => false,
    collectionIsCompleted := fun _ => false }

example :
    ∃ st', runLoop trivialI (init trivialI () 2 0 (some 1)) [.errordown 0 false, .errordown 1 false, .errordown 2 false] = .ok st' ∧
      spawnIds st' = [2] ∧ st'.failedNodes = 3 ∧ st'.summary = some (.maximum 1) ∧ st'.shuttingdown = true ∧
      st'.active = [] := by
  refine ⟨_, rfl, ?_⟩
  decide

end Xdist.Props.C10
