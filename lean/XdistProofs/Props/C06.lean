import XdistModel.Pure.SplitScope
/-!
# C06 — tests of one group run on one worker (the grouping keys)

`_split_scope` of the three grouping schedulers on rendered node ids.  A node id is `path :: seg₁ :: … :: name` (pytest)
with, under `--dist loadgroup`, the suffix `@group` (remote.py:236-252).  The key theorems need *well-formedness*
hypotheses, spelled as decidable predicates on the parts; each excluded point is a known finding (F10) with a proved
witness.  That units are dispatched whole, to one worker, in collection order is examined by the scheduler correspondence
and by the whole-system simulation (monitor `group-*`), not proved here.
-/
namespace Xdist.Props.C06
open Xdist.SplitScope

theorem splitFirst_sep2 (a b : List Char) (ha : ':' ∉ a) : splitFirst sep2 (a ++ ':' :: ':' :: b) = some (a, b) := by
  induction a with
  | nil => simp [splitFirst, sep2, List.isPrefixOf]
  | cons c t ih =>
    have hc : c ≠ ':' := by intro h; subst h; simp at ha
    have ht : ':' ∉ t := fun h => ha (List.mem_cons_of_mem _ h)
    have hnp : sep2.isPrefixOf (c :: (t ++ ':' :: ':' :: b)) = false := by
      simp [sep2, List.isPrefixOf, hc.symm]
    simp only [List.cons_append, splitFirst, hnp, Bool.false_eq_true, ↓reduceIte, ih ht, Option.map_some]

/-- **loadfile**: the key of `path::anything` is the path (paths contain no `:`), so tests are grouped exactly by file -/
theorem C06_file_key (path rest : List Char) (hp : ':' ∉ path) : fileKey (path ++ ':' :: ':' :: rest) = path := by
  simp [fileKey, splitFirst_sep2 path rest hp]

/-- **loadscope**: the key of `prefix::name` is the prefix — the class (with its module) for a method, the module for a
    function — provided the last segment contains no `:` -/
theorem C06_scope_key (pfx name : List Char) (hn : ':' ∉ name) : scopeKey (pfx ++ ':' :: ':' :: name) = pfx := by
  have hrev : (pfx ++ ':' :: ':' :: name).reverse = name.reverse ++ ':' :: ':' :: pfx.reverse := by simp
  have hn' : ':' ∉ name.reverse := by simpa using hn
  have : sep2.reverse = sep2 := rfl
  simp only [scopeKey, splitLast, this, hrev, splitFirst_sep2 _ _ hn', Option.map_some, List.reverse_reverse]

theorem rfindAux_append (c : Char) (s t : List Char) (i : Nat) (acc : Int) :
    rfindAux c (s ++ t) i acc = rfindAux c t (i + s.length) (rfindAux c s i acc) := by
  induction s generalizing i acc with
  | nil => simp [rfindAux]
  | cons x r ih =>
    simp only [List.cons_append, rfindAux, List.length_cons]
    rw [ih]
    congr 1
    omega

theorem rfindAux_not_mem (c : Char) (t : List Char) (i : Nat) (acc : Int) (h : c ∉ t) : rfindAux c t i acc = acc := by
  induction t generalizing i with
  | nil => rfl
  | cons x r ih =>
    have hx : x ≠ c := by intro hh; subst hh; simp at h
    simp only [rfindAux, hx, ↓reduceIte]
    exact ih _ (fun hh => h (List.mem_cons_of_mem _ hh))

theorem rfindAux_lt (c : Char) (s : List Char) (i : Nat) (acc : Int) (h : acc < (i : Int)) :
    rfindAux c s i acc < ((i + s.length : Nat) : Int) := by
  induction s generalizing i acc with
  | nil => simpa [rfindAux] using h
  | cons x r ih =>
    simp only [rfindAux, List.length_cons]
    have := ih (i + 1) (if x = c then (i : Int) else acc) (by split <;> omega)
    have e : i + 1 + r.length = i + (r.length + 1) := by omega
    rw [e] at this
    exact this

theorem afterLast_at (s g : List Char) (hg : '@' ∉ g) : afterLast '@' (s ++ '@' :: g) = g := by
  have hrev : (s ++ '@' :: g).reverse = g.reverse ++ '@' :: s.reverse := by simp
  have hg' : '@' ∉ g.reverse := by simpa using hg
  have key : ∀ (a b : List Char), '@' ∉ a → splitFirst ['@'] (a ++ '@' :: b) = some (a, b) := by
    intro a b ha
    induction a with
    | nil => simp [splitFirst, List.isPrefixOf]
    | cons c t ih =>
      have hc : c ≠ '@' := by intro h; subst h; simp at ha
      have ht : '@' ∉ t := fun h => ha (List.mem_cons_of_mem _ h)
      have hnp : List.isPrefixOf ['@'] (c :: (t ++ '@' :: b)) = false := by simp [List.isPrefixOf, hc.symm]
      simp only [List.cons_append, splitFirst, hnp, Bool.false_eq_true, ↓reduceIte, ih ht, Option.map_some]
  have : [('@' : Char)].reverse = ['@'] := rfl
  simp only [afterLast, splitLast, this, hrev, key _ _ hg', Option.map_some, List.reverse_reverse]

/-- **loadgroup**: the key of `nodeid@group` is the group name, for group names without `@` and `]` — so all tests of one
    `xdist_group`, wherever they are defined, share a key -/
theorem C06_group_key (nid g : List Char) (h1 : '@' ∉ g) (h2 : ']' ∉ g) : groupKey (nid ++ '@' :: g) = g := by
  have hat : rfind '@' (nid ++ '@' :: g) = (nid.length : Int) := by
    unfold rfind
    rw [rfindAux_append]
    simp only [rfindAux, ↓reduceIte, Nat.zero_add]
    exact rfindAux_not_mem _ _ _ _ h1
  have hbr : rfind ']' (nid ++ '@' :: g) < (nid.length : Int) := by
    unfold rfind
    rw [rfindAux_append]
    have hne : ('@' : Char) ≠ ']' := by decide
    simp only [rfindAux, hne, ↓reduceIte, Nat.zero_add]
    rw [rfindAux_not_mem _ _ _ _ h2]
    have := rfindAux_lt ']' nid 0 (-1) (by omega)
    simpa using this
  unfold groupKey
  rw [if_pos (by rw [hat]; exact hbr)]
  exact afterLast_at nid g h1

/-- **loadgroup**: a test without a group mark (no `@` behind the last `]`) is its own group -/
theorem C06_group_key_ungrouped (s : List Char) (h : rfind '@' s ≤ rfind ']' s) : groupKey s = s := by
  unfold groupKey
  rw [if_neg (by omega)]

/-- in particular a parametrised, ungrouped test whose parameter id contains `@` is not split off -/
example : groupKey "t.py::test_mail[a@b.c]".toList = "t.py::test_mail[a@b.c]".toList := by decide

/-! ### excluded points (known finding F10), with witnesses -/

/-- loadscope: a parametrisation id containing `::` cuts the key inside the brackets: two parameters of one function
    in one module get different keys -/
theorem C06_scope_key_param_colons :
    scopeKey "a.py::test_f[x::y]".toList = "a.py::test_f[x".toList ∧
    scopeKey "a.py::test_f[z]".toList = "a.py".toList := by decide

/-- loadgroup: a group name containing `]` is not recognised -/
theorem C06_group_key_bracket : groupKey "a.py::test_f@g]1".toList = "a.py::test_f@g]1".toList := by decide

/-- Non-vacuity -/
example : fileKey "pkg/t.py::C::test_m[1]".toList = "pkg/t.py".toList ∧
    scopeKey "pkg/t.py::C::test_m".toList = "pkg/t.py::C".toList ∧
    groupKey "pkg/t.py::C::test_m[1]@db".toList = "db".toList := by decide

end Xdist.Props.C06
