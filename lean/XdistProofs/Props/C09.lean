import XdistModel.Sched.Iface
import XdistProofs.Lemmas.AList
import XdistProofs.Lemmas.Except
/-!
# C09 — tests are only dispatched against an agreed collection (scheduler logic)

For the three scheduler families that dispatch by position (load, worksteal, loadscope/loadfile/loadgroup): when the
initial workers disagree, `schedule()` publishes exactly one failed collection report per disagreeing worker — naming the
first worker and that worker — and dispatches nothing; the scheduler state is unchanged, so nothing can be dispatched
later either.  For the loadscope family a late (replacement) worker that disagrees is never registered and never
assigned work.  For load and worksteal the late-joiner clause is **false** on the current code (known finding F4): the
negation is proved on a concrete witness below.
-/
namespace Xdist.Props.C09
open Xdist

variable {τ : Type} [DecidableEq τ]

/-- no disagreement report iff every other registered collection equals the first one (ids and order) -/
theorem C09_diffs_nil_iff (first : Nat) (col : List τ) (rest : AList Nat (List τ)) :
    Load.collectionDiffs first col rest = [] ↔ ∀ p ∈ rest, p.2 = col := by
  unfold Load.collectionDiffs
  simp only [List.map_eq_nil_iff, List.filter_eq_nil_iff, ne_eq, decide_not, Bool.not_eq_eq_eq_not, Bool.not_true,
    decide_eq_false_iff_not, Decidable.not_not]

/-- one report per disagreeing worker, naming the first worker and that worker -/
theorem C09_diffs_exact (first : Nat) (col : List τ) (rest : AList Nat (List τ)) (o : SOut) :
    o ∈ Load.collectionDiffs first col rest ↔ ∃ n c, (n, c) ∈ rest ∧ c ≠ col ∧ o = .collectReport n first := by
  unfold Load.collectionDiffs
  simp only [List.mem_map, List.mem_filter, ne_eq, decide_not, Bool.not_eq_eq_eq_not, Bool.not_true,
    decide_eq_false_iff_not, Prod.exists]
  constructor
  · rintro ⟨n, c, ⟨hm, hne⟩, rfl⟩; exact ⟨n, c, hm, hne, rfl⟩
  · rintro ⟨n, c, hm, hne, rfl⟩; exact ⟨n, c, ⟨hm, hne⟩, rfl⟩

theorem ws_diffs_eq (first : Nat) (col : List τ) (rest : AList Nat (List τ)) :
    WorkSteal.collectionDiffs first col rest = Load.collectionDiffs first col rest := rfl

theorem scope_diffs_eq (first : Nat) (col : List τ) (rest : AList Nat (List τ)) :
    LoadScope.collectionDiffs first col rest = Load.collectionDiffs first col rest := rfl

/-- **load: initial disagreement ⇒ no test is dispatched**, one report per disagreeing worker, nothing changes -/
theorem C09_load_initial_mismatch (s : Load.State τ) (e : Env) (first : Nat) (col : List τ) (rest : AList Nat (List τ))
    (hc : Load.collectionIsCompleted s = true) (hn : s.collection = none)
    (hreg : s.node2collection = (first, col) :: rest) (hd : ∃ p ∈ rest, p.2 ≠ col) :
    Load.schedule s e = .ok (s, { e with outs := e.outs ++ Load.collectionDiffs first col rest }) := by
  have hne : Load.collectionDiffs first col rest ≠ [] := by
    intro h; obtain ⟨p, hp, hpc⟩ := hd; exact hpc ((C09_diffs_nil_iff first col rest).1 h p hp)
  unfold Load.schedule
  simp only [hc, Bool.not_true, Bool.false_eq_true, ↓reduceIte, hn, hreg, Load.scheduleFirst]
  have : (Load.collectionDiffs first col rest).isEmpty = false := by
    cases h : Load.collectionDiffs first col rest with
    | nil => exact absurd h hne
    | cons a t => rfl
  simp [this]

/-- worksteal: the same -/
theorem C09_worksteal_initial_mismatch (s : WorkSteal.State τ) (e : Env) (first : Nat) (col : List τ) (rest : AList Nat (List τ))
    (hc : WorkSteal.collectionIsCompleted s = true) (hn : s.collection = none)
    (hreg : s.node2collection = (first, col) :: rest) (hd : ∃ p ∈ rest, p.2 ≠ col) :
    WorkSteal.schedule s e = .ok (s, { e with outs := e.outs ++ Load.collectionDiffs first col rest }) := by
  have hne : Load.collectionDiffs first col rest ≠ [] := by
    intro h; obtain ⟨p, hp, hpc⟩ := hd; exact hpc ((C09_diffs_nil_iff first col rest).1 h p hp)
  unfold WorkSteal.schedule
  simp only [hc, Bool.not_true, Bool.false_eq_true, ↓reduceIte, hn, hreg, ws_diffs_eq]
  have : (Load.collectionDiffs first col rest).isEmpty = false := by
    cases h : Load.collectionDiffs first col rest with
    | nil => exact absurd h hne
    | cons a t => rfl
  simp [this]

/-- loadscope / loadfile / loadgroup: the same -/
theorem C09_loadscope_initial_mismatch {κ : Type} [DecidableEq κ] (split : τ → κ) (s : LoadScope.State κ τ) (e : Env)
    (first : Nat) (col : List τ) (rest : AList Nat (List τ))
    (hc : LoadScope.collectionIsCompleted s = true) (hn : s.collection = none)
    (hreg : s.registered = (first, col) :: rest) (hd : ∃ p ∈ rest, p.2 ≠ col) :
    LoadScope.schedule split s e = .ok (s, { e with outs := e.outs ++ Load.collectionDiffs first col rest }) := by
  have hne : Load.collectionDiffs first col rest ≠ [] := by
    intro h; obtain ⟨p, hp, hpc⟩ := hd; exact hpc ((C09_diffs_nil_iff first col rest).1 h p hp)
  unfold LoadScope.schedule
  simp only [hc, Bool.not_true, Bool.false_eq_true, ↓reduceIte, hn, hreg, scope_diffs_eq]
  have : (Load.collectionDiffs first col rest).isEmpty = false := by
    cases h : Load.collectionDiffs first col rest with
    | nil => exact absurd h hne
    | cons a t => rfl
  simp [this]

/-- what the reports put on the wire are: no run, run-all or steal command among them -/
theorem C09_diffs_no_dispatch (first : Nat) (col : List τ) (rest : AList Nat (List τ)) :
    ∀ o ∈ Load.collectionDiffs first col rest, ∃ n, o = .collectReport n first := by
  intro o ho
  obtain ⟨n, _, _, _, rfl⟩ := (C09_diffs_exact first col rest o).1 ho
  exact ⟨n, rfl⟩

/-- **loadscope family: a late joiner that disagrees is never registered …** -/
theorem C09_loadscope_late_mismatch {κ : Type} [DecidableEq κ] (s : LoadScope.State κ τ) (n : Nat) (c col : List τ)
    (hreg : s.assigned.contains n = true) (hc : LoadScope.collectionIsCompleted s = true)
    (hcol : s.collection = some col) (hne : col ≠ []) (hdiff : c ≠ col) :
    LoadScope.addNodeCollection s n c = .ok s := by
  unfold LoadScope.addNodeCollection
  have : col.isEmpty = false := by cases col <;> simp_all
  simp [hreg, hc, hcol, this, hdiff]

/-- **… and a node that is not registered is never assigned work** (`_reschedule` returns at once) -/
theorem C09_loadscope_unregistered_never_assigned {κ : Type} [DecidableEq κ] (s : LoadScope.State κ τ) (e : Env) (n : Nat)
    (h : s.registered.contains n = false) : LoadScope.reschedule s e n = .ok (s, e) := by
  unfold LoadScope.reschedule
  split
  · rfl
  · simp [h]

/-- **Known finding F4 (load)**: the late-joiner clause does not hold for `--dist load`.  Witness: after the initial
    agreement on `[10, 11, 12, 13]`, worker 0 is lost; its replacement 2 reports the different collection `[13, 12]`
    — and the next scheduling step sends it tests by index. -/
theorem C09_load_late_mismatch_dispatches :
    ∃ s e, (([.addNode 0, .addNode 1, .addNodeCollection 0 [10, 11, 12, 13], .addNodeCollection 1 [10, 11, 12, 13], .schedule,
              .removeNode 0, .addNode 2, .addNodeCollection 2 [13, 12], .schedule] : List (SOp Nat)).foldlM
            (fun (p : Load.State Nat × Env) op => (Load.step p.1 p.2 op).map (fun r => (r.1, r.2.1)))
            (Load.init 2 none, ({} : Env))) = .ok (s, e) ∧
      SOut.run 2 [1] ∈ e.outs ∧ AList.lookup s.node2collection 2 = none := by
  refine ⟨_, _, rfl, ?_⟩
  decide

/-- Non-vacuity of the initial-mismatch theorem -/
example :
    Load.schedule (τ := Nat) { numnodes := 3, maxschedchunk := none, node2collection := [(1, [7, 8]), (0, [8, 7]), (2, [7, 8])],
                               node2pending := [(0, []), (1, []), (2, [])] } {} =
      .ok ({ numnodes := 3, maxschedchunk := none, node2collection := [(1, [7, 8]), (0, [8, 7]), (2, [7, 8])],
             node2pending := [(0, []), (1, []), (2, [])] }, { outs := [.collectReport 0 1] }) := by
  rfl

end Xdist.Props.C09
