import XdistProofs.Ctl.Stop
import XdistProofs.Lemmas.AList
import XdistProofs.Lemmas.Except
/-!
# C02 — the distributed session always terminates: the mechanisms (controller side)

A worker holding a single queued test cannot start it before it learns what comes next.  Two mechanisms guarantee that
it is always eventually sent more tests or the shutdown signal:

* every scheduling decision of `LoadScheduling.check_schedule` for a node that is not shutting down leaves that node with
  **at least two** queued tests, or with the shutdown signal, or the unassigned list empty (`C02_load_check_leaves_two`);
* whenever the scheduler reports `tests_finished` at the end of a loop iteration — which is what it does as soon as the
  unassigned list is empty and every book holds fewer than two tests — the controller has told **every** scheduled
  worker to shut down (`C02_finished_shuts_everyone`), for every scheduler.

The absence of stand-offs in whole executions (all six modes, with crashes) is examined by the simulation on the real
classes (a stand-off there is a run in which the controller waits and no worker step, delivery or receiver step is
enabled); it is not yet a theorem — see DESIGN §5 C02.
-/
namespace Xdist.Props.C02
open Xdist Xdist.Ctl

variable {σ τ : Type}

theorem afterHandler_sched (I : SchedI σ τ) (st : State σ τ) : (afterHandler I st).sched = st.sched := by
  unfold afterHandler
  simp only
  split <;> split <;> simp [(triggerShutdown_fields I _).2.1]

/-- **`tests_finished` ⇒ everybody has been told to shut down**, at the end of every loop iteration, for every scheduler
    and every event. -/
theorem C02_finished_shuts_everyone (I : SchedI σ τ) (hQ : Quiet I) {st st' : State σ τ} {ev : Event τ}
    (hi : ShutInv I st) (h : loopOnce I st ev = .ok st') (hf : I.testsFinished st'.sched = true) :
    st'.shuttingdown = true ∧ ∀ n ∈ I.nodes st'.sched, st'.env.flags.shuttingDown n = true := by
  have sp := loopOnce_spec I hQ hi h
  unfold loopOnce at h
  split at h
  · simp at h
  · obtain ⟨a, _, hb⟩ := map_ok.1 h
    subst hb
    rw [afterHandler_sched] at hf
    have hsd : (afterHandler I a).shuttingdown = true := by
      unfold afterHandler
      simp only [hf, ↓reduceIte]
      split
      · exact triggerShutdown_shuttingdown I _
      · exact triggerShutdown_shuttingdown I _
    exact ⟨hsd, sp.shutInv hsd⟩

/-- the session is over exactly when the shutdown is in force and no worker is active any more -/
theorem C02_session_finished_iff (st : State σ τ) : sessionFinished st = true ↔ st.shuttingdown = true ∧ st.active = [] := by
  simp [sessionFinished, List.isEmpty_iff]

/-! ### `LoadScheduling.check_schedule` keeps two tests queued -/

theorem sliceTo_length (l : List Nat) (k : Int) (hk : 0 ≤ k) : (PyList.sliceTo l k).length = min k.toNat l.length := by
  unfold PyList.sliceTo; simp [hk]

theorem sliceFrom_nil_of_le (l : List Nat) (k : Int) (hk : 0 ≤ k) (h : l.length ≤ k.toNat) : PyList.sliceFrom l k = [] := by
  unfold PyList.sliceFrom; simp [hk, h]

/-- **Every scheduling decision for a live node leaves it with at least two queued tests, the shutdown signal, or nothing
    left to hand out.** -/
theorem C02_load_check_leaves_two {τ : Type} [DecidableEq τ] {s s' : Load.State τ} {e e' : Env} {n : Nat} {slow : Bool}
    {book : List Nat} (h : Load.checkSchedule s e n slow = .ok (s', e'))
    (hl : e.flags.shuttingDown n = false) (hb : AList.lookup s.node2pending n = some book) :
    (s.pending = [] ∧ e' = e.shutdown n) ∨
    (∃ book', AList.lookup s'.node2pending n = some book' ∧ (2 ≤ book'.length ∨ s'.pending = [])) := by
  unfold Load.checkSchedule at h
  simp only [hl, Bool.false_eq_true, ↓reduceIte] at h
  by_cases hp : s.pending.isEmpty = true
  · left
    simp only [hp, Bool.not_true, Bool.false_eq_true, ↓reduceIte, Except.ok.injEq, Prod.mk.injEq] at h
    exact ⟨List.isEmpty_iff.1 hp, h.2.symm⟩
  · right
    have hp' : s.pending.isEmpty = false := by cases hh : s.pending.isEmpty <;> simp_all
    simp only [hp', Bool.not_false, ↓reduceIte] at h
    split at h
    · simp at h
    · have hget : s.node2pending.get n = .ok book := AList.get_eq_ok.2 hb
      simp only [hget, bind, Except.bind] at h
      split at h
      · -- the book is below the low-water mark
        split at h
        · -- slow test and already two queued: nothing sent
          rename_i hs
          simp only [Except.ok.injEq, Prod.mk.injEq] at h
          obtain ⟨rfl, _⟩ := h
          simp only [Bool.and_eq_true, decide_eq_true_eq] at hs
          exact ⟨book, hb, Or.inl hs.2⟩
        · split at h
          · simp at h
          · rename_i msc hmsc
            -- sendTests with num ≥ 2 - len
            unfold Load.sendTests at h
            simp only at h
            split at h
            · -- nothing to send: then the book already holds two
              rename_i hempty
              simp only [Except.ok.injEq, Prod.mk.injEq] at h
              obtain ⟨rfl, _⟩ := h
              refine ⟨book, hb, Or.inl ?_⟩
              by_cases hlen2 : 2 ≤ book.length
              · exact hlen2
              exfalso
              have hlen : book.length < 2 := by omega
              have hnum : (0 : Int) < min ((max 2 (s.pending.length / s.node2pending.length / 2) : Nat) - (book.length : Int))
                  (max ((2 : Int) - (book.length : Int)) msc) := by omega
              have := sliceTo_length s.pending _ (Int.le_of_lt hnum)
              rw [List.isEmpty_iff.1 hempty] at this
              have hpl : 0 < s.pending.length := by
                cases hh : s.pending with
                | nil => simp [hh] at hp'
                | cons a t => simp
              simp only [List.length_nil] at this
              omega
            · simp only [hget, bind, Except.bind] at h
              split at h
              · simp at h
              · rename_i e1 _
                simp only [Except.ok.injEq, Prod.mk.injEq] at h
                obtain ⟨rfl, _⟩ := h
                refine ⟨_, AList.lookup_set_same _ _ _, ?_⟩
                simp only [List.length_append]
                by_cases hlen : 2 ≤ book.length
                · exact Or.inl (by omega)
                · have hnum : (0 : Int) < min ((max 2 (s.pending.length / s.node2pending.length / 2) : Nat) - (book.length : Int))
                      (max ((2 : Int) - (book.length : Int)) msc) := by omega
                  rw [sliceTo_length _ _ (Int.le_of_lt hnum)]
                  by_cases hall : s.pending.length ≤ (min ((max 2 (s.pending.length / s.node2pending.length / 2) : Nat) - (book.length : Int))
                      (max ((2 : Int) - (book.length : Int)) msc)).toNat
                  · exact Or.inr (sliceFrom_nil_of_le _ _ (Int.le_of_lt hnum) hall)
                  · left; omega
      · -- the book is at or above the low-water mark (≥ 2)
        rename_i hge
        simp only [Except.ok.injEq, Prod.mk.injEq] at h
        obtain ⟨rfl, _⟩ := h
        exact ⟨book, hb, Or.inl (by omega)⟩

/-- Non-vacuity: `--maxschedchunk=1`, a replacement worker with an empty book: it is given two tests, not one. -/
example :
    (Load.checkSchedule (τ := Nat)
      { numnodes := 1, maxschedchunk := some 1, node2collection := [(0, [1, 2, 3, 4])], node2pending := [(1, [])],
        pending := [2, 3], collection := some [1, 2, 3, 4] } {} 1 false).map (fun r => r.2.outs) = .ok [.run 1 [2, 3]] := by
  rfl

end Xdist.Props.C02
