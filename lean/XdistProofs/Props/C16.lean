import XdistProofs.Contract.LoadRefines
import XdistProofs.Contract.WorkStealRefines
import XdistProofs.Ctl.WireWS
/-!
# C16 — the controller sends each worker a well-formed command stream (scheduler level: load, worksteal)

`Env.outs` is the complete wire log.  `NoAfter outs`: nothing is addressed to a node behind its shutdown command
(so also: at most one shutdown per node).  `Nodup (view s).all`: no index is outstanding on two nodes, or on a node
and in the pool.  `Bounded N`: every outstanding index is a position of the agreed collection.
`WorkerController.shutdown()` itself is part of the model (`Env.shutdown`), including the swallowed `OSError`.
-/
namespace Xdist.Props.C16
open Xdist Xdist.Contract

variable {τ : Type} [DecidableEq τ]

/-- `shutdown()` is idempotent and keeps the wire well-formed, whatever the flags are. -/
theorem C16_shutdown_idempotent (e : Env) (n : Nat) (h1 : NoAfter e.outs) (h2 : SentSync e) :
    NoAfter (e.shutdown n).outs ∧ SentSync (e.shutdown n) ∧ ((e.shutdown n).shutdown n = e.shutdown n) := by
  obtain ⟨a, b⟩ := shutdown_wire (n := n) h1 h2
  refine ⟨a, b, ?_⟩
  unfold Env.shutdown
  by_cases hd : ((e.flags.get n).down || (e.flags.get n).sent) = true
  · simp [hd]
  · simp only [hd, Bool.false_eq_true, if_false]
    simp [flags_get_set]

/-- worksteal: every scheduler call keeps "single shutdown, nothing after it", unconditionally. -/
theorem C16_worksteal_nothing_after_shutdown {s s' : WorkSteal.State τ} {e e' : Env} {op : SOp τ} {ret : Option τ}
    (hf : WorkSteal.Fresh s) (hk : WorkSteal.KeysNodup s) (h1 : NoAfter e.outs) (h2 : SentSync e)
    (h : WorkSteal.step s e op = .ok (s', e', ret)) : NoAfter e'.outs ∧ SentSync e' :=
  WorkSteal.step_wire hf hk h1 h2 h

/-- load: the same; the one proviso concerns the *first* `schedule()`, whose `_send_tests` does not look at
    `shutting_down`: no registered node may be shutting down at that moment (DESIGN §5 C16 discusses when
    `DSession` can violate this: a stop decision revoked by a crash before the collection is complete). -/
theorem C16_load_nothing_after_shutdown {s s' : Load.State τ} {e e' : Env} {op : SOp τ} {ret : Option τ}
    (hf : Load.Fresh s)
    (hclean : op = .schedule → s.collection = none → ∀ m ∈ Load.nodes s, e.flags.shuttingDown m = false)
    (h1 : NoAfter e.outs) (h2 : SentSync e)
    (h : Load.step s e op = .ok (s', e', ret)) : NoAfter e'.outs ∧ SentSync e' :=
  Load.step_wire hf hclean h1 h2 h

/-- the proviso is necessary: a node shut down before the first `schedule()` is still sent tests (concrete witness). -/
theorem C16_load_first_schedule_unguarded :
    ∃ e', (Load.step (τ := Nat)
      { numnodes := 1, maxschedchunk := none, node2collection := [(0, [7, 8])], node2pending := [(0, [])] }
      { flags := [(0, { sent := true })], outs := [.shutdown 0] } .schedule).map (fun r => r.2.1.outs) = .ok e'
      ∧ ¬ NoAfter e' := by
  refine ⟨[.shutdown 0, .run 0 [0, 1]], rfl, ?_⟩
  intro h
  exact h [] [.run 0 [0, 1]] 0 rfl (.run 0 [0, 1]) (by simp) rfl

/-- load: no index is ever outstanding twice and all are valid positions (one call; induction over calls is `runOps`). -/
theorem C16_load_no_double_assignment {s s' : Load.State τ} {e e' : Env} {op : SOp τ} {ret : Option τ}
    (hf : Load.Fresh s) (hn : (Load.view s).all.Nodup) (hb : Bounded (Load.total s) (Load.view s))
    (hreq : ∀ t col idx, op = .markPending t → s.collection = some col → PyList.index col t = .ok idx →
              idx ∉ (Load.view s).all)
    (h : Load.step s e op = .ok (s', e', ret)) :
    (Load.view s').all.Nodup ∧ Bounded (Load.total s') (Load.view s') :=
  Load.step_nodup_bounded hf hn hb hreq h

theorem C16_worksteal_no_double_assignment {s s' : WorkSteal.State τ} {e e' : Env} {op : SOp τ} {ret : Option τ}
    (hf : WorkSteal.Fresh s) (hk : WorkSteal.KeysNodup s) (hn : (WorkSteal.view s).all.Nodup)
    (hb : Bounded (WorkSteal.total s) (WorkSteal.view s)) (hl : WorkSteal.OpLegal s op)
    (hreq : ∀ t col idx, op = .markPending t → s.collection = some col → PyList.index col t = .ok idx →
              idx ∉ (WorkSteal.view s).all)
    (h : WorkSteal.step s e op = .ok (s', e', ret)) :
    (WorkSteal.view s').all.Nodup ∧ Bounded (WorkSteal.total s') (WorkSteal.view s') :=
  WorkSteal.step_nodup_bounded hf hk hn hb hl hreq h

/-- a run command carries exactly a non-empty prefix of the pool, which then sits at the end of that node's book:
    combined with duplicate-freeness its indices are outstanding nowhere else -/
theorem C16_run_command_is_pool_prefix {v v' : View} {e e' : Env} {n k : Nat} {g : Bool}
    (h : apply v e (.send n k g) = some (v', e')) :
    ∃ book, AList.lookup v.books n = some book ∧ v.pool.take k ≠ [] ∧
      (if (e.flags.get n).broken then e' = e        -- the worker is already gone: nothing reaches the wire
       else e'.outs = e.outs ++ [.run n (v.pool.take k)]) ∧ v'.pool = v.pool.drop k ∧
      AList.lookup v'.books n = some (book ++ v.pool.take k) := by
  simp only [apply] at h
  cases hb : AList.lookup v.books n with
  | none => simp [hb] at h
  | some book =>
    simp only [hb] at h
    split at h
    · simp at h
    · rename_i hne
      split at h
      · simp at h
      · simp only [Option.some.injEq, Prod.mk.injEq] at h
        obtain ⟨rfl, rfl⟩ := h
        exact ⟨book, rfl, by simpa using hne, by split <;> rfl, rfl, by simp⟩

/-- a steal request names tests of the victim's book only (C07_request_suffix gives the exact shape) -/
theorem C16_steal_in_book {v v' : View} {e e' : Env} {n k : Nat}
    (h : apply v e (.steal n k) = some (v', e')) :
    ∃ book, AList.lookup v.books n = some book ∧
      (if (e.flags.get n).broken then e' = e else e'.outs = e.outs ++ [.steal n (book.drop (book.length - k))]) ∧
      ∀ i ∈ book.drop (book.length - k), i ∈ book := by
  simp only [apply] at h
  cases hb : AList.lookup v.books n with
  | none => simp [hb] at h
  | some book =>
    simp only [hb] at h
    split at h
    · simp at h
    · split at h
      · simp at h
      · split at h
        · simp at h
        · simp only [Option.some.injEq, Prod.mk.injEq] at h
          obtain ⟨_, rfl⟩ := h
          exact ⟨book, rfl, by split <;> rfl, fun i hi => List.mem_of_mem_drop hi⟩

/-! ### controller level (worksteal): every sequence of controller events -/

/-- `NoAfter` implies at most one shutdown signal per worker -/
theorem noAfter_one_shutdown {outs : List SOut} (h : NoAfter outs) (n : Nat) : (outs.filter (· = SOut.shutdown n)).length ≤ 1 := by
  induction outs with
  | nil => simp
  | cons o t ih =>
    have ht : NoAfter t := by
      intro pre post m heq x hx
      exact h (o :: pre) post m (by simp [heq]) x hx
    by_cases ho : o = SOut.shutdown n
    · subst ho
      have hnone : ∀ x ∈ t, x ≠ SOut.shutdown n := by
        intro x hx hxe
        subst hxe
        exact h [] t n rfl _ hx rfl
      have : t.filter (· = SOut.shutdown n) = [] := by
        rw [List.filter_eq_nil_iff]; intro x hx; simpa using hnone x hx
      simp [List.filter_cons, this]
    · simp only [List.filter_cons, ho, decide_false, Bool.false_eq_true, ↓reduceIte]
      exact ih ht

/-- **`--dist worksteal`, controller level**: along every sequence of controller events whose steal answers are legal
    (each answer lists tests of the answering worker's book), whatever workers become ready, finish, crash, are replaced or
    send undecodable data, and whatever stop conditions occur: the complete wire log has nothing addressed to a worker behind
    its shutdown signal, and every worker gets at most one shutdown signal. -/
theorem C16_controller_worksteal (k mf : Nat) (mr : Option Int) (evs : List (Ctl.Event τ)) {st' : Ctl.State (WorkSteal.State τ) τ}
    (hok : Ctl.AllEvOk Ctl.wsI WorkSteal.OpLegal (Ctl.init Ctl.wsI (WorkSteal.init k) k mf mr) evs)
    (h : Ctl.runLoop Ctl.wsI (Ctl.init Ctl.wsI (WorkSteal.init k) k mf mr) evs = .ok st') :
    NoAfter st'.env.outs ∧ (∀ n, (st'.env.outs.filter (· = SOut.shutdown n)).length ≤ 1) ∧ SentSync st'.env := by
  have hinv := Ctl.lift_runLoop Ctl.wsI_schedInv evs (st := Ctl.init Ctl.wsI (WorkSteal.init (τ := τ) k) k mf mr)
    (Ctl.wsI_init_inv k) hok h
  obtain ⟨_, _, _, _, h1, h2⟩ := hinv
  exact ⟨h1, fun n => noAfter_one_shutdown h1 n, h2⟩

end Xdist.Props.C16
