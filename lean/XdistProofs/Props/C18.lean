import XdistProofs.Pure.Looponfail
/-!
# C18 — loop-on-fail detects exactly the real changes and remembers the failing tests

`StatRecorder.check` is modelled literally (`Looponfail.check`); the theorems hold for **every** root list
(single, several, nested, duplicated), every cache with distinct keys and every file system with distinct paths.
-/
namespace Xdist.Props.C18
open Xdist Xdist.Looponfail Xdist.AList

theorem fold_facts (c : Cache) (roots : List Path) (fs : FS) (hc : (keys c).Nodup) (hfs : (keys fs).Nodup) :
    ((check c roots fs).1 = true ↔ ∃ p, lookup c p ≠ vis roots fs p) ∧
    (∀ p, lookup (check c roots fs).2 p = vis roots fs p) ∧ (keys (check c roots fs).2).Nodup := by
  let f : Path → Stat := fun p => match lookup fs p with | some s => s | none => (0, 0)
  have hcons := visit_consistent fs hfs roots
  have hf : ∀ e ∈ roots.flatMap (visit fs), e.2 = f e.1 := by
    intro e he
    have := hcons e he
    simp only [f, this]
  have hvis : ∀ p, (if p ∈ (roots.flatMap (visit fs)).map Prod.fst then some (f p) else none) = vis roots fs p := by
    intro p
    rw [vis]
    by_cases hw : roots.any (fun r => watched r p) = true
    · by_cases hk : p ∈ keys fs
      · rw [if_pos ((mem_walk_iff fs roots p).2 ⟨hw, hk⟩), if_pos hw]
        have : (lookup fs p).isSome := (lookup_isSome_iff_mem_keys fs p).2 hk
        cases hl : lookup fs p with
        | none => rw [hl] at this; simp at this
        | some s => simp [f, hl]
      · rw [if_neg (fun h => hk ((mem_walk_iff fs roots p).1 h).2), if_pos hw]
        exact ((lookup_none_iff fs p).2 hk).symm
    · rw [if_neg (fun h => hw ((mem_walk_iff fs roots p).1 h).1), if_neg hw]
  obtain ⟨h1, h2, h3⟩ := fold_spec (roots.flatMap (visit fs)) f hf
    { changed := false, old := c, new := [] } hc (by simp [keys]) (by simp [keys])
  refine ⟨?_, ?_, h3⟩
  · simp only [check, Bool.or_eq_true, Bool.not_eq_true', List.isEmpty_eq_false_iff]
    rw [h1]
    simp only [Bool.false_eq_true, keys, List.map_nil, List.not_mem_nil, not_false_eq_true, true_and, false_or]
    exact exists_congr (fun p => by rw [hvis p])
  · intro p
    simp only [check]
    rw [h2 p, hvis p]
    simp [lookup]

/-- **Change detection, first half**: a poll reports a change iff the cache (what the previous poll saw)
    differs, as a finite map, from the watched files as they are now — some file was created, deleted,
    or changed in modification time or size. -/
theorem C18_iff (c : Cache) (roots : List Path) (fs : FS) (hc : (keys c).Nodup) (hfs : (keys fs).Nodup) :
    (check c roots fs).1 = true ↔ ∃ p, lookup c p ≠ vis roots fs p :=
  (fold_facts c roots fs hc hfs).1

/-- after a poll the cache is exactly the watched files with their current `(mtime, size)` -/
theorem C18_cache (c : Cache) (roots : List Path) (fs : FS) (hc : (keys c).Nodup) (hfs : (keys fs).Nodup) :
    (∀ p, lookup (check c roots fs).2 p = vis roots fs p) ∧ (keys (check c roots fs).2).Nodup :=
  (fold_facts c roots fs hc hfs).2

/-- **Exactly the real changes**: two consecutive polls, file system `fs₁` at the first and `fs₂` at the second:
    the second poll reports a change iff some watched file differs between the two (created, deleted, other
    mtime or size) — whatever the cache was before, and for every root list. -/
theorem C18_poll_iff_change (c : Cache) (roots : List Path) (fs₁ fs₂ : FS)
    (hc : (keys c).Nodup) (h1 : (keys fs₁).Nodup) (h2 : (keys fs₂).Nodup) :
    (check (check c roots fs₁).2 roots fs₂).1 = true ↔ ∃ p, vis roots fs₁ p ≠ vis roots fs₂ p := by
  obtain ⟨hl, hn⟩ := C18_cache c roots fs₁ hc h1
  rw [C18_iff _ roots fs₂ hn h2]
  exact exists_congr (fun p => by rw [hl p])

/-- polling twice without a change reports nothing (also for nested or duplicated roots) -/
theorem C18_idempotent (c : Cache) (roots : List Path) (fs : FS) (hc : (keys c).Nodup) (hfs : (keys fs).Nodup) :
    (check (check c roots fs).2 roots fs).1 = false := by
  have := C18_poll_iff_change c roots fs fs hc hfs hfs
  cases h : (check (check c roots fs).2 roots fs).1 with
  | false => rfl
  | true =>
    obtain ⟨p, hp⟩ := this.1 h
    exact absurd rfl hp

/-- which files are watched: strictly below a root, base name neither hidden nor `.pyc`, every directory
    between the root and the file not hidden -/
theorem C18_watched_iff (root p : Path) :
    watched root p = true ↔ ∃ dirs name, p = root ++ dirs ++ [name] ∧ hidden name = false ∧ isPyc name = false ∧
      ∀ d ∈ dirs, hidden d = false := by
  have hbelow : ∀ (r q rel : Path), below r q = some rel ↔ (q = r ++ rel ∧ rel ≠ []) := by
    intro r
    induction r with
    | nil =>
      intro q rel
      cases q with
      | nil => simp [below]
      | cons b u =>
        simp only [below, Option.some.injEq, List.nil_append]
        constructor
        · intro h; subst h; exact ⟨rfl, by simp⟩
        · intro h; exact h.1
    | cons a t ih =>
      intro q rel
      cases q with
      | nil => simp [below]
      | cons b u =>
        simp only [below]
        split
        · rename_i hab; subst hab; rw [ih]; simp
        · rename_i hab
          simp only [reduceCtorEq, List.cons_append, List.cons.injEq, ne_eq, false_iff, not_and, Decidable.not_not]
          intro h1; exact absurd h1.1.symm hab
  unfold watched
  constructor
  · intro h
    cases hb : below root p with
    | none => simp [hb] at h
    | some rel =>
      simp only [hb] at h
      obtain ⟨hp, hne⟩ := (hbelow _ _ _).1 hb
      cases hr : rel.reverse with
      | nil => simp [hr] at h
      | cons name dirsRev =>
        simp only [hr, Bool.and_eq_true, Bool.not_eq_eq_eq_not, Bool.not_true, List.all_eq_true] at h
        refine ⟨dirsRev.reverse, name, ?_, h.1.1, h.1.2, ?_⟩
        · have : rel = dirsRev.reverse ++ [name] := by
            have := congrArg List.reverse hr
            simpa using this
          rw [hp, this, List.append_assoc]
        · intro d hd; exact h.2 d (by simpa using hd)
  · rintro ⟨dirs, name, hp, h1, h2, h3⟩
    have hb : below root p = some (dirs ++ [name]) := (hbelow _ _ _).2 ⟨by rw [hp, List.append_assoc], by simp⟩
    simp only [hb, List.reverse_append, List.reverse_cons, List.reverse_nil, List.nil_append, List.cons_append,
      Bool.and_eq_true, Bool.not_eq_eq_eq_not, Bool.not_true, List.all_eq_true, h1, h2, true_and]
    intro d hd; exact h3 d (by simpa using hd)

/-! ### the failure memory -/

/-- after a run whose collection did not fail, the remembered set is the list of distinct failing ids in
    first-occurrence order; when collection failed it is kept unchanged -/
theorem C18_failures_kept (fails trails : List String) : loopOnce fails trails true = fails := rfl

theorem C18_failures_distinct (fails trails : List String) :
    (loopOnce fails trails false).Nodup ∧ (∀ t, t ∈ loopOnce fails trails false ↔ t ∈ trails) :=
  ⟨PyList.nodup_uniq trails, fun t => PyList.mem_uniq trails t⟩

/-- first-occurrence order: the remembered list is what remains of `trails` when every later repetition is dropped -/
theorem C18_failures_order (fails : List String) (t : String) (trails : List String) :
    loopOnce fails (t :: trails) false = t :: loopOnce fails (trails.filter (· ≠ t)) false := by
  simp only [loopOnce, Bool.false_eq_true, ↓reduceIte]
  exact PyList.uniq_cons t trails

/-- Non-vacuity: duplicated and nested roots, one file modified, one hidden, one `.pyc`, one created. -/
example :
    let roots : List Path := [["r"], ["r"], ["r", "sub"]]
    let fs₁ : FS := [(["r", "a.py"], (1, 10)), (["r", "sub", "b.py"], (1, 5)), (["r", ".h", "c.py"], (1, 1)), (["r", "a.pyc"], (1, 9))]
    let fs₂ : FS := [(["r", "a.py"], (2, 10)), (["r", "sub", "b.py"], (1, 5)), (["r", ".h", "c.py"], (7, 1)), (["r", "a.pyc"], (3, 9))]
    let c₁ := (check [] roots fs₁).2
    (check c₁ roots fs₁).1 = false ∧ (check c₁ roots fs₂).1 = true ∧
    (check c₁ roots [(["r", "a.py"], (1, 10)), (["r", "sub", "b.py"], (1, 5)), (["r", ".h", "c.py"], (7, 1)), (["r", "a.pyc"], (3, 9))]).1 = false ∧
    keys c₁ = [["r", "a.py"], ["r", "sub", "b.py"]] := by
  decide

example : loopOnce ["x"] ["b", "a", "b", "c", "a"] false = ["b", "a", "c"] := by decide

end Xdist.Props.C18
