import XdistProofs.Ctl.QLoad
import XdistProofs.Props.C02
/-!
# C02 — `--dist load`, controller level: no worker is left alone with a single queued test

The per-call statement `C02_load_check_leaves_two` is made a state invariant and lifted through the whole `DSession` event
loop: after **every** iteration, for **every** sequence of controller events (workers ready, collections reported — matching
or not, early or late —, completions, crashes with and without re-queueing, replacements, finished workers, stop
conditions) and every `--maxschedchunk`:

* every worker whose collection is registered has been sent the shutdown signal (or is down), or holds at least two queued
  tests, or the unassigned list is empty (`C02_controller_load`);
* hence the controller never sits in its loop with a registered worker that holds fewer than two tests and was not told to
  shut down while nobody can make progress: either the collection phase is still running, or some worker holds at least two
  tests, i.e. one it can start right away (`C02_controller_load_no_standoff`).

Side conditions (`AllEvOk`): a worker that reports ready is a new one (node objects are fresh in the implementation).
What is not covered here: the worker side and message delivery (whether a worker with two queued tests does run one and
report it) — examined by the whole-system simulation.
-/
namespace Xdist.Props.C02
open Xdist Xdist.Ctl

variable {τ : Type} [DecidableEq τ]

theorem loadI_quiet : Quiet (loadI (τ := τ)) := ⟨fun hq hsd h => Load.step_quiet hq hsd h⟩

/-- **`--dist load`, controller level**: the two-tests invariant holds after every iteration of the controller loop. -/
theorem C02_controller_load (k mf : Nat) (msc mr : Option Int) (evs : List (Event τ)) {st' : State (Load.State τ) τ}
    (hok : AllEvOk loadI Load.QOk (init loadI (Load.init k msc) k mf mr) evs)
    (h : runLoop loadI (init loadI (Load.init k msc) k mf mr) evs = .ok st') :
    ∀ n ∈ AList.keys st'.sched.node2collection, ∀ book, AList.lookup st'.sched.node2pending n = some book →
      st'.env.flags.shuttingDown n = true ∨ 2 ≤ book.length ∨ st'.sched.pending = [] := by
  have hinv := lift_runLoop loadI_schedInv evs (st := init loadI (Load.init (τ := τ) k msc) k mf mr) (Load.init_inv k msc) hok h
  exact fun n hn book hb => hinv.q n hn book hb

/-- **No controller-side stand-off in `--dist load`**: whenever the loop is about to wait for the next event and some
    registered worker holds fewer than two tests without having been told to shut down, then collection is still in progress
    or some worker holds at least two queued tests (one of which it can start without hearing from the controller). -/
theorem C02_controller_load_no_standoff (k mf : Nat) (msc mr : Option Int) (evs : List (Event τ)) (ev : Event τ)
    {st st' : State (Load.State τ) τ}
    (hok : AllEvOk loadI Load.QOk (init loadI (Load.init k msc) k mf mr) evs)
    (h : runLoop loadI (init loadI (Load.init k msc) k mf mr) evs = .ok st)
    (hokev : EvOk Load.QOk st ev) (h1 : loopOnce loadI st ev = .ok st')
    {n : Nat} {book : List Nat} (hn : n ∈ AList.keys st'.sched.node2collection)
    (hb : AList.lookup st'.sched.node2pending n = some book) (hlt : book.length < 2)
    (hlive : st'.env.flags.shuttingDown n = false) :
    Load.collectionIsCompleted st'.sched = false ∨
    ∃ m bm, AList.lookup st'.sched.node2pending m = some bm ∧ 2 ≤ bm.length := by
  have hinv0 := lift_runLoop loadI_schedInv evs (st := init loadI (Load.init (τ := τ) k msc) k mf mr) (Load.init_inv k msc) hok h
  have hinv : Load.QInv st'.sched st'.env := lift_loopOnce loadI_schedInv hinv0 hokev h1
  have hsi : ShutInv loadI st := runLoop_shutInv loadI loadI_quiet evs (init_shutInv loadI _ k mf mr) h
  -- n is a scheduler node and was not told to shut down, so `tests_finished` is false
  have hnn : n ∈ loadI.nodes st'.sched := (AList.lookup_isSome_iff_mem_keys _ _).1 (by rw [hb]; rfl)
  have hnf : Load.testsFinished st'.sched = false := by
    cases hf : Load.testsFinished st'.sched with
    | false => rfl
    | true =>
      have := (C02_finished_shuts_everyone loadI loadI_quiet hsi h1 hf).2 n hnn
      rw [hlive] at this; cases this
  have hp : st'.sched.pending = [] := by
    rcases hinv.q n hn book hb with h' | h' | h'
    · rw [hlive] at h'; cases h'
    · omega
    · exact h'
  by_cases hc : Load.collectionIsCompleted st'.sched = true
  · right
    unfold Load.testsFinished at hnf
    simp only [hc, hp, List.isEmpty_nil, Bool.and_self, Bool.true_and] at hnf
    -- some book has at least two entries
    have : ∃ p ∈ st'.sched.node2pending, ¬ p.2.length < 2 := by
      rcases List.all_eq_false.1 hnf with ⟨p, hp1, hp2⟩
      exact ⟨p, hp1, by simpa using hp2⟩
    obtain ⟨p, hp1, hp2⟩ := this
    exact ⟨p.1, p.2, AList.lookup_of_mem _ hinv.nodup p hp1, by omega⟩
  · left
    cases hh : Load.collectionIsCompleted st'.sched <;> simp_all

/-- the premises are satisfiable and the conclusion is not vacuous: two workers, five tests; both workers end up holding
    two tests while the pool still has one -/
def exEvs : List (Event Nat) :=
  [.workerready 0, .workerready 1, .collectionfinish 0 [10, 11, 12, 13, 14], .collectionfinish 1 [10, 11, 12, 13, 14]]
def exInit : State (Load.State Nat) Nat := init loadI (Load.init (τ := Nat) 2 none) 2 0 none

example : AllEvOk loadI Load.QOk exInit exEvs := by decide
example : (runLoop loadI exInit exEvs).toOption.map (fun st => (st.sched.pending, st.sched.node2pending)) =
    some ([4], [(0, [0, 1]), (1, [2, 3])]) := by decide

end Xdist.Props.C02
