import XdistProofs.Ctl.Budget
import XdistProofs.Props.C10
/-!
# C12 — workers have unique stable identities (controller side)

Worker numbers are allocated by a counter (`execnet.Group.allocate_id` through `_clone_node`): the initial workers are
`gw0 … gw(k-1)`; the replacements, in start order, are `gw k, gw(k+1), …` — pairwise distinct, never reused, and never
one of the initial ids.  For every scheduler and every event sequence.
(What a worker finds in its environment and fixtures is validated by the correspondence harness, not modelled.)
-/
namespace Xdist.Props.C12
open Xdist Xdist.Ctl

variable {σ τ : Type}

theorem C12_ids_fresh (I : SchedI σ τ) (s0 : σ) (k mf : Nat) (mr : Option Int) (evs : List (Event τ)) {st' : State σ τ}
    (h : runLoop I (init I s0 k mf mr) evs = .ok st') :
    spawnIds st' = List.range' k (spawnCount st') ∧ st'.nextId = k + spawnCount st' := by
  obtain ⟨h1, h2, _⟩ := runLoop_inv I evs (init_inv I s0 k mf mr) h
  have hc : spawnCount st' = cap st'.maxRestart st'.failedNodes := by
    rw [spawnCount_eq_length, h1]; simp
  rw [hc]
  exact ⟨h1, h2⟩

/-- the ids of all workers of a run — initial ones and replacements — are pairwise distinct -/
theorem C12_ids_distinct (I : SchedI σ τ) (s0 : σ) (k mf : Nat) (mr : Option Int) (evs : List (Event τ)) {st' : State σ τ}
    (h : runLoop I (init I s0 k mf mr) evs = .ok st') :
    (List.range k ++ spawnIds st').Nodup ∧ ∀ n ∈ spawnIds st', k ≤ n ∧ n < st'.nextId := by
  obtain ⟨h1, h2⟩ := C12_ids_fresh I s0 k mf mr evs h
  rw [h1, h2]
  refine ⟨?_, ?_⟩
  · have : List.range k ++ List.range' k (spawnCount st') = List.range (k + spawnCount st') := by
      rw [List.range_eq_range', List.range_eq_range']
      have := List.range'_append_1 (s := 0) (m := k) (n := spawnCount st')
      simpa using this
    rw [this]
    exact List.nodup_range
  · intro n hn
    simp only [List.mem_range'_1] at hn
    omega

/-- Non-vacuity: two deaths within the budget give the replacements `gw2`, `gw3`. -/
example :
    ∃ st', runLoop C10.trivialI (init C10.trivialI () 2 0 (some 5)) [.errordown 1 false, .errordown 2 false] = .ok st' ∧
      spawnIds st' = [2, 3] ∧ st'.active = [0, 3] := by
  refine ⟨_, rfl, ?_⟩
  decide

end Xdist.Props.C12
