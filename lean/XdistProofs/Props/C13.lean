import XdistModel.Pure.Options
import XdistProofs.Lemmas.Str
import XdistProofs.Lemmas.Except
/-!
# C13 — distribution is decided by the documented option rules and never recurses

All theorems quantify over **every** option record (`Raw`), every value of the auto-worker hook
and every `--tx` list.
-/
namespace Xdist.Props.C13
open Xdist Xdist.Options

/-- `-n0` always means a plain in-process run (whatever `--dist`, `-d`, `--tx`, `--pdb` … say). -/
theorem C13_n0_plain (auto : Int) (r : Raw) (h : r.n = .num 0) :
    ∃ c, cmdlineMain auto r = .ok c ∧ c.dist = .no ∧ c.tx = [] ∧ installsDSession c = false := by
  cases r with
  | mk n maxproc dist distload tx usepdb collectonly looponfail =>
    simp only at h
    subst h
    simp [cmdlineMain, resolve, isDistribution, installsDSession]

/-- `-nK` (K ≠ 0) means `min K maxprocesses` local workers, in load mode unless `--dist`/`-d` names a mode. -/
theorem C13_nK (auto : Int) (r : Raw) (k : Int) (h : r.n = .num k) (hk : k ≠ 0)
    (hpdb : r.usepdb = false ∨ r.collectonly = true) :
    ∃ c, cmdlineMain auto r = .ok c ∧
      c.tx = Str.repeatInt "popen" (capped k r.maxproc) ∧
      c.dist = (let d := if r.distload then Dist.load else r.dist; if d = .no then Dist.load else d) ∧
      c.collectonly = r.collectonly ∧ c.n = some k := by
  cases r with
  | mk n maxproc dist distload tx usepdb collectonly looponfail =>
    simp only at h hpdb
    subst h
    rcases hpdb with hp | hp <;> subst hp <;> simp [cmdlineMain, resolve, hk]

/-- with K > 0 and no cap the run is distributed over exactly K workers -/
theorem C13_nK_workers (auto : Int) (r : Raw) (k : Nat) (h : r.n = .num (k : Int)) (hk : 0 < k)
    (hm : r.maxproc = none) (hpdb : r.usepdb = false) (hco : r.collectonly = false) :
    ∃ c, cmdlineMain auto r = .ok c ∧ c.tx = List.replicate k "popen" ∧ installsDSession c = true := by
  obtain ⟨c, hc, htx, hd, hcol, _⟩ := C13_nK auto r k h (by omega) (Or.inl hpdb)
  refine ⟨c, hc, ?_, ?_⟩
  · rw [htx, hm]; simp [capped, Str.repeatInt]
  · have hne : List.replicate k "popen" ≠ [] := by
      cases k with
      | zero => omega
      | succ k => simp [List.replicate]
    have htx' : c.tx = List.replicate k "popen" := by rw [htx, hm]; simp [capped, Str.repeatInt]
    simp only [installsDSession, isDistribution, hcol, hco, htx', hd]
    cases r.distload <;> cases r.dist <;> simp <;> omega

/-- distribution needs both a mode and an execution environment -/
theorem C13_needs_both (c : Norm) :
    installsDSession c = true ↔ c.collectonly = false ∧ c.dist ≠ .no ∧ c.tx ≠ [] := by
  simp [installsDSession, isDistribution, bne_iff_ne]

/-- a mode without any environment means no distribution … -/
theorem C13_mode_without_env (auto : Int) (r : Raw) (hn : r.n = .absent) (htx : r.tx = []) :
    ∃ c, cmdlineMain auto r = .ok c ∧ installsDSession c = false := by
  cases r with
  | mk n maxproc dist distload tx usepdb collectonly looponfail =>
    simp only at hn htx
    subst hn htx
    simp [cmdlineMain, resolve, isDistribution, installsDSession]

/-- … and environments without a mode mean no distribution -/
theorem C13_env_without_mode (auto : Int) (r : Raw) (hn : r.n = .absent) (hd : r.dist = .no) (hdl : r.distload = false) :
    ∃ c, cmdlineMain auto r = .ok c ∧ installsDSession c = false ∧ c.tx = r.tx := by
  cases r with
  | mk n maxproc dist distload tx usepdb collectonly looponfail =>
    simp only at hn hd hdl
    subst hn hd hdl
    simp [cmdlineMain, resolve, isDistribution, installsDSession]

/-- `--pdb` turns `-n auto` / `-n logical` into `-n0` -/
theorem C13_pdb_auto (auto : Int) (r : Raw) (hn : r.n = .auto ∨ r.n = .logical) (hp : r.usepdb = true) :
    ∃ c, cmdlineMain auto r = .ok c ∧ c.n = some 0 ∧ c.dist = .no ∧ c.tx = [] ∧ installsDSession c = false := by
  cases r with
  | mk n maxproc dist distload tx usepdb collectonly looponfail =>
    simp only at hn hp
    subst hp
    rcases hn with hn | hn <;> subst hn <;> simp [cmdlineMain, resolve, isDistribution, installsDSession]

/-- `--pdb` combined with distribution is rejected — exactly then, and only with the usage error -/
theorem C13_pdb_rejected_iff (auto : Int) (r : Raw) (e : PyErr) :
    cmdlineMain auto r = .error e ↔
      (e = .usage ∧ r.usepdb = true ∧ r.collectonly = false ∧
        isDistribution (resolve auto r).2.1 (resolve auto r).2.2 = true) := by
  unfold cmdlineMain
  simp only
  split
  · rename_i h
    simp only [Bool.and_eq_true, Bool.not_eq_eq_eq_not, Bool.not_true] at h
    simp only [Except.error.injEq, h, and_true]
    exact eq_comm
  · rename_i h
    simp only [Bool.and_eq_true, Bool.not_eq_eq_eq_not, Bool.not_true] at h
    simp only [reduceCtorEq, false_iff]
    intro ⟨_, h1, h2, h3⟩
    exact h ⟨⟨h2, h3⟩, h1⟩

/-- without `--pdb` nothing is rejected, and the decision is exactly "mode and environment" -/
theorem C13_no_pdb_ok (auto : Int) (r : Raw) (h : r.usepdb = false) :
    ∃ c, cmdlineMain auto r = .ok c ∧ c.dist = (resolve auto r).2.1 ∧ c.tx = (resolve auto r).2.2 := by
  unfold cmdlineMain
  simp [h]

/-- `--collect-only` never starts workers and is never rejected -/
theorem C13_collectonly (auto : Int) (r : Raw) (h : r.collectonly = true) :
    ∃ c, cmdlineMain auto r = .ok c ∧ installsDSession c = false := by
  cases r with
  | mk n maxproc dist distload tx usepdb collectonly looponfail =>
    simp only at h
    subst h
    simp [cmdlineMain, resolve, installsDSession]

/-- **Workers never start workers**: whatever arguments or addopts a worker inherits, after its
    `setup_config` the normalisation succeeds, no `DSession` is installed, loop-on-fail does not take over
    and pdb is off. -/
theorem C13_worker_never_distributes (auto : Int) (r : Raw) :
    ∃ c, cmdlineMain auto (workerSetup r) = .ok c ∧ installsDSession c = false ∧
      looponfailMain c = none ∧ c.usepdb = false ∧ c.dist = .no := by
  cases r with
  | mk n maxproc dist distload tx usepdb collectonly looponfail =>
    simp [cmdlineMain, resolve, workerSetup, installsDSession, isDistribution, looponfailMain]

/-- the default auto count: an integer environment value wins, otherwise the CPU count, at least 1 -/
theorem C13_auto_env (k : Int) (cpu : Nat) : autoNum (.int k) cpu = k := rfl
theorem C13_auto_cpu (cpu : Nat) (env : AutoEnv) (h : ∀ k, env ≠ .int k) : 1 ≤ autoNum env cpu := by
  cases env with
  | int k => exact absurd rfl (h k)
  | unset => simp only [autoNum]; split <;> omega
  | garbage => simp only [autoNum]; split <;> omega

/-- `N*spec` expands to N workers `spec` (N written in decimal, `spec` without a `*`) -/
theorem C13_star_expands (n : Nat) (spec : List Char) :
    expandOne (Str.natDigits n ++ '*' :: spec) = List.replicate n spec := by
  unfold expandOne
  simp only [Str.find_digits_star, PyList.sliceTo_digits_star, Str.pyInt_natDigits]
  simp [Str.repeatInt]

/-- a spec that does not start with a number is kept as it is -/
theorem C13_plain_spec (x : List Char) (h : Str.pyInt (PyList.sliceTo x (Str.find '*' x)) = none) :
    expandOne x = [x] := by
  simp [expandOne, h]

/-- no environment at all is a usage error -/
theorem C13_no_tx : expand [] = .error .usage := rfl

/-- Non-vacuity / examples on concrete records. -/
example : cmdlineMain 8 { n := .num 3, maxproc := some 2, dist := .loadscope } =
    .ok { n := some 3, dist := .loadscope, tx := ["popen", "popen"], usepdb := false, collectonly := false, looponfail := false } := by
  rfl
example : cmdlineMain 8 { n := .auto, usepdb := true, dist := .load, tx := ["popen"] } =
    .ok { n := some 0, dist := .no, tx := [], usepdb := true, collectonly := false, looponfail := false } := by rfl
example : cmdlineMain 8 { n := .num 2, usepdb := true } = .error .usage := by rfl
example : expand [['3', '*', 'p', 'o'], ['s', 's', 'h', '=', 'h']] =
    .ok [['p', 'o'], ['p', 'o'], ['p', 'o'], ['s', 's', 'h', '=', 'h']] := by decide +kernel
/-- the quirk the model keeps: without a `*`, `int(xspec[:-1])` is tried, so the spec `"25"` yields two copies -/
example : expand [['2', '5']] = .ok [['2', '5'], ['2', '5']] := by decide +kernel

end Xdist.Props.C13
