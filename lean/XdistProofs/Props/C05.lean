import XdistProofs.Worker.Steal
/-!
# C05 — each worker runs its tests in assignment order and announces the true next test

All statements hold for **every** interleaving of receiver-thread steps (`put`, `putShutdown`, `steal`, in any
number, including commands behind the shutdown marker) with main-thread steps (`get0`, `get1`, `finish`):
`steps : List Step` is universally quantified and `run` fails (returns `none`) only when a step is not enabled
(a blocked `get`).
-/
namespace Xdist.Props.C05
open Xdist Xdist.Worker

/-- (a) **Assignment order.**  What the worker has run, holds as next item, and still has queued — in this order —
    is a subsequence of what it received, and the indices missing from it are exactly the ones it replied as
    withdrawn (as multisets).  Nothing is reordered, duplicated or dropped. -/
theorem C05_order (steps : List Step) {s : State} (h : run {} steps = some s) :
    (line s).Sublist s.received ∧ s.received.Perm (line s ++ s.stolen) :=
  (run_inv (by simp [NextInit]) orderInv_init h).2

/-- (b) **True next item.**  Consecutive protocol calls `(i, a)`, `(j, _)` satisfy `a = some j`; the last call
    announced the entry the worker currently holds as `nextitem_index`. -/
theorem C05_nextitem (steps : List Step) {s : State} (h : run {} steps = some s) :
    Chain s.ran ∧ (∀ i a, s.ran.getLast? = some (i, a) → ∃ q, s.next = some q ∧ a = announce q) :=
  let inv := run_nextInv nextInv_init h
  ⟨inv.1, inv.2.1⟩

/-- (b') a worker that left the loop on the shutdown marker announced `none` with its last test; a worker that
    stopped on its own (`shouldstop`/`shouldfail`) announced the successor it would have run. -/
theorem C05_last_announcement (steps : List Step) {s : State} (h : run {} steps = some s)
    (i : Nat) (a : Option Nat) (hl : s.ran.getLast? = some (i, a)) :
    (s.next = some .shutdown → a = none) ∧ (∀ j, s.next = some (.test j) → a = some j) := by
  obtain ⟨q, hq, ha⟩ := (C05_nextitem steps h).2 i a hl
  constructor
  · intro hs; rw [hs] at hq; simp at hq; subst hq; simpa [announce] using ha
  · intro j hs; rw [hs] at hq; simp at hq; subst hq; simpa [announce] using ha

/-- (c) **Withdrawn tests were neither started nor announced.**  A steal touches the queue only: the reply is a
    subsequence of the queued tests; `ran`, the running item and the announced next item are unchanged. -/
theorem C05_steal_untouched (s : State) (req : List Nat) :
    ∃ xs, (steal s req).sent = s.sent ++ [.unscheduled xs] ∧ xs.Sublist (tests s.torun) ∧
      (steal s req).ran = s.ran ∧ (steal s req).cur = s.cur ∧ (steal s req).next = s.next := by
  obtain ⟨xs, h1, _, _, h4, h5, h6, h7, _⟩ := steal_shape s req
  exact ⟨xs, h1, h4, h5, h6, h7⟩

/-- Non-vacuity: tests 3,4,5,6 are put, the worker starts 3 (announcing 4), 5 and 6 are withdrawn while it runs,
    shutdown arrives; it then runs 4 announcing `none`. -/
example :
    ∃ s, run {} [.put 3, .put 4, .put 5, .put 6, .get0, .get1, .steal [5, 6], .putShutdown,
                 .finish false, .get1, .finish false] = some s
      ∧ s.ran = [(3, some 4), (4, none)] ∧ s.stolen = [5, 6] ∧ s.pc = .done
      ∧ s.sent = [.unscheduled [5, 6], .complete 3, .complete 4] := by
  refine ⟨_, rfl, ?_⟩
  decide

end Xdist.Props.C05
