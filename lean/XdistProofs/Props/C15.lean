import XdistProofs.Contract.LoadRefines
import XdistProofs.Contract.WorkStealRefines
import XdistModel.Sched.LoadScope
import XdistModel.Sched.Each
/-!
# C15 — a crashed test re-queued by a plugin is run again, once per re-queue (controller side)

`mark_test_pending` puts the index at the *front* of the pool; the ledger then balances with the re-queued
indices on the right-hand side: #completions + #crash reports of an index = 1 + #re-queues of it.
-/
namespace Xdist.Props.C15
open Xdist Xdist.Contract

variable {τ : Type} [DecidableEq τ]

/-- load: the re-queued index is inserted at the front of the pool (ahead of the other unassigned tests),
    then every node is re-examined. -/
theorem C15_load_front {s s' : Load.State τ} {e e' : Env} {t : τ}
    (h : Load.markPending s e t = .ok (s', e')) :
    ∃ col idx acts, s.collection = some col ∧ PyList.index col t = .ok idx ∧
      run { Load.view s with pool := idx :: s.pending } e acts = some (Load.view s', e') := by
  obtain ⟨col, idx, acts, hc, hi, r, _, _⟩ := Load.markPending_ref h
  refine ⟨col, idx, acts, hc, hi, ?_⟩
  simpa [run, apply, Load.view] using r

theorem C15_worksteal_front {s s' : WorkSteal.State τ} {e e' : Env} {t : τ} (hk : WorkSteal.KeysNodup s)
    (h : WorkSteal.markPending s e t = .ok (s', e')) :
    ∃ col idx acts, s.collection = some col ∧ PyList.index col t = .ok idx ∧
      run { WorkSteal.view s with pool := idx :: s.pending } e acts = some (WorkSteal.view s', e') := by
  obtain ⟨col, idx, acts, hc, hi, r, _, _, _⟩ := WorkSteal.markPending_ref hk h
  refine ⟨col, idx, acts, hc, hi, ?_⟩
  simpa [run, apply, WorkSteal.view] using r

/-- load: accounting with re-queues.  When nothing is outstanding any more, for every index
    (#completed + #crash-reported) = 1 + #re-queued. -/
theorem C15_load_requeue_accounting (k : Nat) (msc : Option Int) (e0 : Env) (ops : List (SOp τ))
    {s : Load.State τ} {e : Env} {g : Ghost} {col : List τ}
    (h : Load.runOps (Load.init k msc) e0 {} ops = some (s, e, g))
    (hcol : s.collection = some col) (hdone : (Load.view s).all = []) (i : Nat) (hi : i < col.length) :
    List.count i g.completed + List.count i g.crashed = 1 + List.count i g.requeued := by
  obtain ⟨_, hb, hs⟩ := Load.runOps_inv (τ := τ) (s := Load.init k msc) (e := e0) (g := {}) (by intro _; rfl)
    (by simp [Bal, Load.view, Load.init, View.all, AList.values]) (by simp [Load.StartedOK, Load.init]) h
  unfold Bal at hb
  unfold Load.StartedOK at hs
  rw [hcol] at hs
  rw [hdone, hs] at hb
  have := List.perm_iff_count.1 hb i
  simp only [List.nil_append, List.count_append] at this
  have hr : List.count i (List.range col.length) = 1 := by
    have h1 : List.count i (List.range col.length) ≤ 1 := List.nodup_iff_count.1 List.nodup_range i
    have h2 : 0 < List.count i (List.range col.length) := List.count_pos_iff.2 (by simp [hi])
    omega
  omega

theorem C15_worksteal_requeue_accounting (k : Nat) (e0 : Env) (ops : List (SOp τ))
    {s : WorkSteal.State τ} {e : Env} {g : Ghost} {col : List τ}
    (hl : WorkSteal.AllLegal (WorkSteal.init k) e0 ops)
    (h : WorkSteal.runOps (WorkSteal.init k) e0 {} ops = some (s, e, g))
    (hcol : s.collection = some col) (hdone : (WorkSteal.view s).all = []) (i : Nat) (hi : i < col.length) :
    List.count i g.completed + List.count i g.crashed = 1 + List.count i g.requeued := by
  obtain ⟨_, _, hb, hs⟩ := WorkSteal.runOps_inv (τ := τ) (s := WorkSteal.init k) (e := e0) (g := {}) (by intro _; rfl)
    (by simp [WorkSteal.KeysNodup, WorkSteal.init, AList.keys])
    (by simp [Bal, WorkSteal.view, WorkSteal.init, View.all, AList.values])
    (by simp [WorkSteal.StartedOK, WorkSteal.init]) hl h
  unfold Bal at hb
  unfold WorkSteal.StartedOK at hs
  rw [hcol] at hs
  rw [hdone, hs] at hb
  have := List.perm_iff_count.1 hb i
  simp only [List.nil_append, List.count_append] at this
  have hr : List.count i (List.range col.length) = 1 := by
    have h1 : List.count i (List.range col.length) ≤ 1 := List.nodup_iff_count.1 List.nodup_range i
    have h2 : 0 < List.count i (List.range col.length) := List.count_pos_iff.2 (by simp [hi])
    omega
  omega

/-- `mark_test_pending` is not supported by the grouping schedulers and `each` (stated, not hidden). -/
theorem C15_unsupported_modes (split : τ → τ) (s : LoadScope.State τ τ) (e : Env) (t : τ) (spec : Nat → Nat)
    (s2 : Each.State τ) :
    LoadScope.step split s e (.markPending t) = .error .notImplemented ∧
    Each.step spec s2 e (.markPending t) = .error .notImplemented := ⟨rfl, rfl⟩

/-- Non-vacuity: the only test of a one-node run crashes, is re-queued, and is run again on the replacement. -/
example :
    ∃ s e g, Load.runOps (Load.init (τ := Nat) 1 none) {} {}
      [.addNode 0, .addNodeCollection 0 [10], .schedule, .removeNode 0, .markPending 10,
       .addNode 1, .addNodeCollection 1 [10], .schedule, .markComplete 1 0 false] = some (s, e, g)
      ∧ g.crashed = [0] ∧ g.requeued = [0] ∧ g.completed = [0] ∧ (Load.view s).all = []
      ∧ SOut.run 1 [0] ∈ e.outs := by
  refine ⟨_, _, _, rfl, ?_⟩
  decide

end Xdist.Props.C15
