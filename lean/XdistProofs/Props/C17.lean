import XdistProofs.Ctl.Receiver
import XdistProofs.Ctl.Stop
/-!
# C17 — losing a worker at any stage never wedges or crashes the controller (controller-side logic)

Receiver side (`process_from_remote`, any message stream of a worker) and `DSession` side (`worker_errordown`, for any
scheduler).  The whole-system part (no stand-off, exactly-once accounting after lifecycle crashes) is examined by the
simulation on the real classes; see DESIGN §5 C17 for what is proved and what is validated.
-/
namespace Xdist.Props.C17
open Xdist Xdist.Ctl

variable {σ τ α : Type}

/-- **Later messages of a worker already written off are tolerated**: once `_down` is set (the worker finished, was lost,
    or sent something undecodable) nothing it still sends reaches the controller, whatever it is. -/
theorem C17_written_off_tolerated (st : Receiver.State) (h : st.down = true) (ms : List (Receiver.Msg α)) :
    Receiver.run st ms = (st, []) := Receiver.run_down st h ms

/-- **Exactly the events before the first terminating message are passed on, in order, and then one notice**: a
    `workerfinished` if the worker ended properly, otherwise one `errordown` (undecodable message or lost connection) —
    never two notices for one worker. -/
theorem C17_one_notice (ms : List (Receiver.Msg α)) :
    (Receiver.run {} ms).2 = (ms.takeWhile (fun m => !Receiver.isTerminal m)).flatMap Receiver.postOf ++
      (match ms.find? Receiver.isTerminal with | some m => Receiver.postOf m | none => []) :=
  Receiver.run_live {} rfl ms

/-- an undecodable message writes the shutdown command at most once and marks the worker down at once -/
theorem C17_garbage (st : Receiver.State) (h : st.down = false) :
    (Receiver.step st (Receiver.Msg.garbage : Receiver.Msg α)) = ({ down := true, shutdownSent := true }, [.errordown], !st.shutdownSent) := by
  simp [Receiver.step, h]

/-- **A worker that dies before the scheduler knows it** (while starting): `remove_node` raises `KeyError`, which
    `worker_errordown` swallows; the death is counted, the worker is replaced or the run stopped per the budget, and the
    handler does not raise. -/
theorem C17_death_before_ready (I : SchedI σ τ) (st : State σ τ) (n : Nat) (rq : Bool) (hn : n ∈ st.active)
    (hk : callSched I { st with pubs := st.pubs ++ [Pub.nodedown n true] } (.removeNode n) = .error .keyError) :
    ∃ st', errordown I st n rq = .ok st' ∧ st'.failedNodes = st.failedNodes + 1 := by
  unfold errordown
  simp only [hk]
  have hact : n ∈ (restartOrStop I ({ st with pubs := st.pubs ++ [Pub.nodedown n true] } : State σ τ) n).active := by
    rcases restartOrStop_cases I ({ st with pubs := st.pubs ++ [Pub.nodedown n true] } : State σ τ) n with ⟨b, h⟩ | h
    · rw [h, (triggerShutdown_fields I _).2.2.1]; exact hn
    · rw [h]; simp [cloneNode, hn]
  refine ⟨_, by unfold removeActive; rw [if_pos hact], ?_⟩
  rcases restartOrStop_cases I ({ st with pubs := st.pubs ++ [Pub.nodedown n true] } : State σ τ) n with ⟨b, h⟩ | h
  · rw [h]
    exact (keeps_triggerShutdown I _).failedNodes
  · rw [h]; rfl

/-- **`worker_errordown` raises only for one of three reasons**: the scheduler's `remove_node` raised something other than
    `KeyError`, the crash hook's re-queue raised, or the node was not active any more. -/
theorem C17_errordown_failure_causes (I : SchedI σ τ) (st : State σ τ) (n : Nat) (rq : Bool) (e : PyErr)
    (h : errordown I st n rq = .error e) :
    (∃ st0, callSched I st0 (.removeNode n) = .error e ∧ e ≠ .keyError) ∨
    (∃ st0 t, handleCrashItem I st0 n t rq = .error e) ∨
    (e = .keyError ∧ ∃ st0 : State σ τ, n ∉ st0.active ∧ removeActive st0 n = .error e) := by
  unfold errordown at h
  simp only at h
  have tail : ∀ s1 : State σ τ, removeActive (restartOrStop I s1 n) n = .error e →
      e = .keyError ∧ ∃ st0 : State σ τ, n ∉ st0.active ∧ removeActive st0 n = .error e := by
    intro s1 hr
    have hr' := hr
    unfold removeActive at hr
    split at hr
    · simp at hr
    · rename_i hna
      simp only [Except.error.injEq] at hr
      exact ⟨hr.symm, _, hna, hr'⟩
  split at h
  · exact Or.inr (Or.inr (tail _ h))
  · rename_i e' hne hc
    simp only [Except.error.injEq] at h
    subst h
    exact Or.inl ⟨_, hc, hne⟩
  · exact Or.inr (Or.inr (tail _ h))
  · rename_i st1 t hc
    cases hh : handleCrashItem I st1 n t rq with
    | error e2 =>
      rw [hh] at h
      simp only [Except.bind, Except.error.injEq] at h
      subst h
      exact Or.inr (Or.inl ⟨_, _, hh⟩)
    | ok st2 =>
      rw [hh] at h
      exact Or.inr (Or.inr (tail _ h))

/-- the budget theorems (C10) and the stop theorems (C11) hold in these histories too: they quantify over every event
    sequence, deaths at any lifecycle point included. -/
theorem C17_replaced_within_budget (I : SchedI σ τ) (s0 : σ) (k mf : Nat) (b : Int) (evs : List (Event τ)) {st' : State σ τ}
    (h : runLoop I (init I s0 k mf (some b)) evs = .ok st') : spawnCount st' = min st'.failedNodes b.toNat := by
  obtain ⟨h1, _, h3⟩ := runLoop_inv I evs (init_inv I s0 k mf (some b)) h
  rw [spawnCount_eq_length, h1, h3]; simp [cap]

/-- Non-vacuity: events, then something undecodable, then more events, then the end marker: one `errordown`, nothing after. -/
example : (Receiver.run {} [Receiver.Msg.event "testreport" 1, .ignored, .garbage, .event "testreport" 2, .workerfinished 0, .endMarker]).2
    = [Receiver.Post.event "testreport" 1, .errordown] := by decide

end Xdist.Props.C17
