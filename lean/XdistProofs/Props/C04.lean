import XdistProofs.Ctl.Receiver
import XdistProofs.Ctl.Frame
import XdistProofs.Lemmas.PyList
/-!
# C04 — reports reach the controller complete, once, in order, tagged with their worker (controller-side logic)

* per worker, the receiver passes on exactly the events the worker sent before its terminating message, each once, in order
  (`process_from_remote` model, any message stream);
* the controller publishes a worker's test report tagged with that worker and counts it for `--maxfail`;
* a failed/skipped collection report is published iff its text was not seen before — once, not once per worker.
Field fidelity of the reports themselves (pytest's serialiser) is validated on real runs, not modelled.
-/
namespace Xdist.Props.C04
open Xdist Xdist.Ctl

/-- a scheduler that accepts every call and knows no nodes (for the example) -/
def C10Triv.I : SchedI Unit Nat :=
  { step := fun s e _ => .ok (s, e, none), nodes := fun _ => [], testsFinished := fun _ => false,
    collectionIsCompleted := fun _ => false }

variable {σ τ α : Type}

/-- **Exactly once, in order**: whatever a worker sends, the controller's queue receives its well-formed events up to the
    first terminating message, in the order sent, each exactly once. -/
theorem C04_fifo_once (ms : List (Receiver.Msg α)) (h : ∀ m ∈ ms, Receiver.isTerminal m = false) :
    (Receiver.run {} ms).2 = ms.flatMap Receiver.postOf := by
  rw [Receiver.run_live {} rfl ms]
  have h1 : ms.takeWhile (fun m => !Receiver.isTerminal m) = ms := by

    induction ms with
    | nil => rfl
    | cons m t ih =>
      simp only [List.takeWhile, h m (by simp), Bool.not_false]
      rw [ih (fun x hx => h x (List.mem_cons_of_mem _ hx))]
  have h2 : ms.find? Receiver.isTerminal = none := by
    rw [List.find?_eq_none]
    intro m hm; simp [h m hm]
  rw [h1, h2]; simp

theorem handleFailures_more (st : State σ τ) (f : Bool) :
    (handleFailures st f).pubs = st.pubs ∧ (handleFailures st f).seenCollect = st.seenCollect ∧
    (handleFailures st f).countfailures = st.countfailures + (if f then 1 else 0) := by
  unfold handleFailures
  cases f with
  | false => simp
  | true =>
    simp only [↓reduceIte]
    split <;> simp

/-- **Tagged and counted**: a worker's test report is published tagged with that worker, and a failed one counts once -/
theorem C04_report_tagged (I : SchedI σ τ) (st : State σ τ) (n : Nat) (failed : Bool) :
    ∃ st', handle I st (.testreport n failed) = .ok st' ∧ st'.pubs = st.pubs ++ [.report n failed] ∧
      st'.countfailures = st.countfailures + (if failed then 1 else 0) := by
  refine ⟨_, rfl, ?_, ?_⟩
  · exact (handleFailures_more _ _).1
  · exact (handleFailures_more _ _).2.2

/-- **A collection error is reported once, not once per worker** (first occurrence published and counted) … -/
theorem C04_collect_new (I : SchedI σ τ) (st : State σ τ) (n : Nat) (key : String) (failed : Bool)
    (h : key ∉ st.seenCollect) :
    ∃ st', handle I st (.collectreport n key failed) = .ok st' ∧ st'.pubs = st.pubs ++ [.collect key] ∧
      st'.seenCollect = st.seenCollect ++ [key] ∧ st'.countfailures = st.countfailures + (if failed then 1 else 0) := by
  simp only [handle, h, ↓reduceIte]
  refine ⟨_, rfl, ?_, ?_, ?_⟩
  · exact (handleFailures_more _ _).1
  · exact (handleFailures_more _ _).2.1
  · exact (handleFailures_more _ _).2.2

/-- … and every repetition, from whichever worker, changes nothing -/
theorem C04_collect_repeat (I : SchedI σ τ) (st : State σ τ) (n : Nat) (key : String) (failed : Bool)
    (h : key ∈ st.seenCollect) : handle I st (.collectreport n key failed) = .ok st := by
  simp [handle, h]

/-- the texts of the collection errors published so far -/
def collectKeys (st : State σ τ) : List String :=
  st.pubs.filterMap (fun p => match p with | .collect k => some k | _ => none)

/-- for any sequence of collection reports (any workers, any repetitions): the published ones are the distinct texts, in
    first-occurrence order -/
theorem C04_collect_sequence (I : SchedI σ τ) (reports : List (Nat × String × Bool)) (st : State σ τ)
    (h0 : collectKeys st = st.seenCollect) :
    ∃ st', (reports.foldlM (fun s r => handle I s (.collectreport r.1 r.2.1 r.2.2)) st) = .ok st' ∧
      collectKeys st' = PyList.uniqAux st.seenCollect (reports.map (·.2.1)) ∧ st'.seenCollect = collectKeys st' := by
  induction reports generalizing st with
  | nil => exact ⟨st, rfl, by simp [PyList.uniqAux, h0], h0.symm⟩
  | cons r rest ih =>
    obtain ⟨n, key, failed⟩ := r
    by_cases hk : key ∈ st.seenCollect
    · obtain ⟨st', h1, h2, h3⟩ := ih st h0
      refine ⟨st', ?_, ?_, h3⟩
      · simp only [List.foldlM_cons, C04_collect_repeat I st n key failed hk]
        exact h1
      · simp only [List.map_cons, PyList.uniqAux, hk, ↓reduceIte]; exact h2
    · obtain ⟨st1, e1, p1, s1, _⟩ := C04_collect_new I st n key failed hk
      have h01 : collectKeys st1 = st1.seenCollect := by
        unfold collectKeys at *
        rw [p1, s1, List.filterMap_append, h0]; rfl
      obtain ⟨st', h1, h2, h3⟩ := ih st1 h01
      refine ⟨st', ?_, ?_, h3⟩
      · simp only [List.foldlM_cons, e1]
        exact h1
      · simp only [List.map_cons, PyList.uniqAux, hk, ↓reduceIte]
        rw [← s1]; exact h2

/-- Non-vacuity: three workers hit the same two collection errors; two are published. -/
example :
    ∃ st', ([(0, "E1", true), (1, "E1", true), (0, "E2", true), (2, "E1", true), (2, "E2", true)].foldlM
        (fun s r => handle C10Triv.I s (.collectreport r.1 r.2.1 r.2.2)) (init C10Triv.I () 3 0 none)) = .ok st' ∧
      collectKeys st' = ["E1", "E2"] ∧ st'.countfailures = 2 := by
  refine ⟨_, rfl, ?_⟩
  decide

end Xdist.Props.C04
