import XdistProofs.Worker.Steal
import XdistProofs.Contract.WorkStealRefines
/-!
# C07 — work-stealing withdrawals are all-or-nothing and exactly accounted
-/
namespace Xdist.Props.C07
open Xdist Xdist.Worker Xdist.Contract

/-- (a) **All or none**, for any requested index list (subsets, supersets, already-run tests, duplicates) and any
    position of the shutdown marker, given a duplicate-free queue. -/
theorem C07_all_or_none (s : State) (req : List Nat) (hq : (tests s.torun).Nodup) :
    ((∀ r ∈ req, r ∈ tests s.torun) →
        tests (steal s req).torun = (tests s.torun).filter (fun i => decide (i ∉ req)) ∧
        (steal s req).sent = s.sent ++ [.unscheduled ((tests s.torun).filter (fun i => decide (i ∈ req)))]) ∧
    ((∃ r ∈ req, r ∉ tests s.torun) →
        (steal s req).torun = s.torun ∧ (steal s req).sent = s.sent ++ [.unscheduled []]) :=
  ⟨steal_all s req hq, steal_none s req hq⟩

/-- (a') **Exactly accounted, unconditionally** (even with duplicates in the queue): one reply; the reply plus what
    stays queued is what was queued; order of the remaining tests preserved; nothing started or announced is touched. -/
theorem C07_reply_exact (s : State) (req : List Nat) :
    ∃ xs, (steal s req).sent = s.sent ++ [.unscheduled xs] ∧
      (xs ++ tests (steal s req).torun).Perm (tests s.torun) ∧
      (tests (steal s req).torun).Sublist (tests s.torun) ∧
      (steal s req).ran = s.ran ∧ (steal s req).cur = s.cur ∧ (steal s req).next = s.next := by
  obtain ⟨xs, h1, h2, h3, _, h5, h6, h7, _⟩ := steal_shape s req
  exact ⟨xs, h1, h2, h3, h5, h6, h7⟩

/-- (a'') every queued test that is not listed in a reply is still run, in the original order: `C05_order` for
    runs containing any number of steals. -/
theorem C07_rest_still_in_order (steps : List Step) {s : State} (h : run {} steps = some s) :
    (line s).Sublist s.received ∧ s.received.Perm (line s ++ s.stolen) :=
  (run_inv (by simp [NextInit]) orderInv_init h).2

/-- the reply of a steal whose request lies inside the duplicate-free queue satisfies the scheduler's `Legal`
    requirement: this is what links the worker theorem to the controller's ledger theorem -/
theorem C07_reply_is_legal (book : List Nat) (is : List Nat) (hb : book.Nodup) (hn : is.Nodup)
    (hsub : ∀ i ∈ is, i ∈ book) :
    (is ++ book.filter (fun i => !is.contains i)).Perm book := by
  rw [List.perm_iff_count]
  intro x
  have h1 : List.count x book ≤ 1 := List.nodup_iff_count.1 hb x
  have h2 : List.count x is ≤ 1 := List.nodup_iff_count.1 hn x
  simp only [List.count_append]
  by_cases hx : x ∈ is
  · have hxb := hsub x hx
    have c1 := List.count_pos_iff.2 hx
    have c2 := List.count_pos_iff.2 hxb
    have : List.count x (book.filter (fun i => !is.contains i)) = 0 :=
      List.count_eq_zero.2 (by simp [hx])
    omega
  · have c1 : List.count x is = 0 := List.count_eq_zero.2 hx
    have : List.count x (book.filter (fun i => !is.contains i)) = List.count x book := by
      by_cases hxb : x ∈ book
      · exact List.count_filter (by simp [hx])
      · rw [List.count_eq_zero.2 hxb, List.count_eq_zero.2 (by simp [hxb])]
    omega

/-- (b) **At most one request outstanding** (controller side): a steal act is only possible while no request is
    outstanding, and it records the victim; the scheduler performs nothing but contract acts (`checkSchedule_ref`). -/
theorem C07_single_request {v v' : View} {e e' : Env} {n k : Nat}
    (h : apply v e (.steal n k) = some (v', e')) : v.req = none ∧ v'.req = some n := by
  simp only [apply] at h
  cases hb : AList.lookup v.books n with
  | none => simp [hb] at h
  | some book =>
    simp only [hb] at h
    split at h
    · simp at h
    · split at h
      · simp at h
      · rename_i hreq
        split at h
        · simp at h
        · simp at h
          obtain ⟨rfl, _⟩ := h
          cases hq : v.req with
          | none => exact ⟨rfl, rfl⟩
          | some x => simp [hq] at hreq

/-- (d) the request is a suffix of the victim's book which leaves it at least two tests -/
theorem C07_request_suffix {v v' : View} {e e' : Env} {n k : Nat}
    (h : apply v e (.steal n k) = some (v', e')) :
    ∃ book, AList.lookup v.books n = some book ∧ 0 < k ∧ k + 2 ≤ book.length ∧
      (if (e.flags.get n).broken then e' = e       -- the victim is already gone: nothing reaches the wire
       else e'.outs = e.outs ++ [.steal n (book.drop (book.length - k))]) := by
  simp only [apply] at h
  cases hb : AList.lookup v.books n with
  | none => simp [hb] at h
  | some book =>
    simp only [hb] at h
    split at h
    · simp at h
    · rename_i hk
      split at h
      · simp at h
      · split at h
        · simp at h
        · simp only [Option.some.injEq, Prod.mk.injEq] at h
          obtain ⟨_, rfl⟩ := h
          refine ⟨book, rfl, by omega, by omega, ?_⟩
          split <;> rfl

/-- (c) after the reply is processed the book is the old book minus the reply, and the request is cleared -/
theorem C07_book_after_reply {s s' : WorkSteal.State Nat} {e e' : Env} {n : Nat} {is : List Nat}
    (hk : WorkSteal.KeysNodup s)
    (h : WorkSteal.removePending s e n is = .ok (s', e')) :
    ∃ acts, run (WorkSteal.view s) e (.unsched n is :: acts) = some (WorkSteal.view s', e') ∧
      ∀ a ∈ acts, WorkSteal.OutAct a := by
  obtain ⟨acts, r, p, _, _⟩ := WorkSteal.removePending_ref hk h
  exact ⟨acts, r, p⟩

example : ∃ s : State, (tests s.torun).Nodup ∧ tests s.torun = [4, 5, 6, 7] ∧
    (steal s [6, 7]).sent = [.unscheduled [6, 7]] ∧ (steal s [7, 9]).sent = [.unscheduled []] :=
  ⟨{ torun := [.test 4, .test 5, .test 6, .shutdown, .test 7] }, by decide, by decide, by decide, by decide⟩

end Xdist.Props.C07
