import XdistModel.Pure.Warnings
import XdistProofs.Lemmas.Except
/-!
# C14 — warnings raised in workers arrive on the controller and never break the run

For every warning (`Warning`), every capability profile of the controller (`Caps`: which classes it can import, what their
constructors do) — with the single assumption that `builtins.Warning` is importable.
-/
namespace Xdist.Props.C14
open Xdist Xdist.Warnings

/-- **Never raises**: whatever the class, payload and details, receiving a warning yields a warning message (so the
    receiver thread does not write the worker off). -/
theorem C14_total (caps : Caps) (hb : caps.importable "builtins" "Warning" = true) (w : Warning) :
    ∃ o, receive caps (serialize w) = .ok o := by
  unfold receive
  cases h : unserialize caps (serialize w) with
  | ok o => exact ⟨o, rfl⟩
  | error e =>
    simp only
    unfold unserialize unserializeMsg genericData
    simp [hb, Except.bind]

/-- **Same category and message when the controller can rebuild the warning object** -/
theorem C14_roundtrip_instance (caps : Caps) (m c t : String) (cat : String × String) (dets : List (String × Detail))
    (h1 : caps.importable m c = true) (h2 : caps.rebuild m c = .ok) (h3 : caps.importable cat.1 cat.2 = true) :
    receive caps (serialize { payload := .inst m c t true, category := some cat, details := dets }) =
      .ok { message := .rebuilt m c, category := some cat,
            details := dets.map fun p => (p.1, p.2.wire) } := by
  obtain ⟨cm, cc⟩ := cat
  simp [receive, unserialize, unserializeMsg, serialize, h1, h2, h3, Except.bind]

/-- a plain string message arrives as that string with its category -/
theorem C14_roundtrip_str (caps : Caps) (t : String) (cat : String × String) (dets : List (String × Detail))
    (h3 : caps.importable cat.1 cat.2 = true) :
    receive caps (serialize { payload := .str t, category := some cat, details := dets }) =
      .ok { message := .str t, category := some cat,
            details := dets.map fun p => (p.1, p.2.wire) } := by
  obtain ⟨cm, cc⟩ := cat
  simp [receive, unserialize, unserializeMsg, serialize, h3, Except.bind]

/-- **A generic warning that still carries the original class name and text** when the arguments could not be sent or
    the constructor does not accept them (category kept) … -/
theorem C14_generic_same_category (caps : Caps) (m c t : String) (ad : Bool) (cat : String × String)
    (dets : List (String × Detail)) (h1 : caps.importable m c = true) (h3 : caps.importable cat.1 cat.2 = true)
    (h2 : ad = false ∨ caps.rebuild m c = .typeError) :
    ∃ o, receive caps (serialize { payload := .inst m c t ad, category := some cat, details := dets }) = .ok o ∧
      o.message = .generic (genericText m c t) ∧ o.category = some cat := by
  obtain ⟨cm, cc⟩ := cat
  refine ⟨{ message := .generic (genericText m c t), category := some (cm, cc), details := dets.map fun p => (p.1, p.2.wire) }, ?_, rfl, rfl⟩
  rcases h2 with h2 | h2
  · subst h2
    simp [receive, unserialize, unserializeMsg, serialize, h1, h3, Except.bind]
  · cases ad
    · simp [receive, unserialize, unserializeMsg, serialize, h1, h3, Except.bind]
    · simp [receive, unserialize, unserializeMsg, serialize, h1, h2, h3, Except.bind]

/-- … and also when the class cannot be imported on the controller at all, or its constructor raises something else
    (then the category degrades to `Warning`) -/
theorem C14_generic_unimportable (caps : Caps) (hb : caps.importable "builtins" "Warning" = true)
    (m c t : String) (ad : Bool) (cat : Option (String × String)) (dets : List (String × Detail))
    (h : caps.importable m c = false ∨ (ad = true ∧ caps.rebuild m c = .otherError)) :
    ∃ o, receive caps (serialize { payload := .inst m c t ad, category := cat, details := dets }) = .ok o ∧
      o.message = .str (genericText m c t) ∧ o.category = some ("builtins", "Warning") := by
  have fallback : unserialize caps (genericData (serialize { payload := .inst m c t ad, category := cat, details := dets })) =
      .ok { message := .str (genericText m c t), category := some ("builtins", "Warning"),
            details := dets.map fun p => (p.1, p.2.wire) } := by
    simp [unserialize, unserializeMsg, genericData, serialize, hb, Except.bind]
  have first : ∃ e, unserialize caps (serialize { payload := .inst m c t ad, category := cat, details := dets }) = .error e := by
    rcases h with h | ⟨h1, h2⟩
    · exact ⟨.importError, by simp [unserialize, unserializeMsg, serialize, h, Except.bind]⟩
    · subst h1
      by_cases hi : caps.importable m c = true
      · exact ⟨.runtime, by simp [unserialize, unserializeMsg, serialize, hi, h2, Except.bind]⟩
      · exact ⟨.importError, by simp [unserialize, unserializeMsg, serialize, hi, Except.bind]⟩
  obtain ⟨e, he⟩ := first
  refine ⟨{ message := .str (genericText m c t), category := some ("builtins", "Warning"),
            details := dets.map fun p => (p.1, p.2.wire) }, ?_, rfl, rfl⟩
  unfold receive
  rw [he]
  exact fallback

/-- file name, line number and the other details arrive unchanged (or as their `repr` when they cannot be sent) -/
theorem C14_details (caps : Caps) (w : Warning) (o : Out) (h : receive caps (serialize w) = .ok o) :
    o.details = w.details.map fun p => (p.1, p.2.wire) := by
  unfold receive at h
  have key : ∀ d o', unserialize caps d = .ok o' → o'.details = d.details := by
    intro d o' hu
    unfold unserialize at hu
    obtain ⟨msg, _, hu⟩ := bind_ok.1 hu
    split at hu
    · simp only [Except.ok.injEq] at hu; subst hu; rfl
    · split at hu
      · simp at hu
      · simp only [Except.ok.injEq] at hu; subst hu; rfl
  cases hu : unserialize caps (serialize w) with
  | ok o1 =>
    rw [hu] at h
    simp only [Except.ok.injEq] at h
    subst h
    exact key _ _ hu
  | error e =>
    rw [hu] at h
    simp only at h
    have := key _ _ h
    rw [this]
    rfl

/-- Non-vacuity: a class the controller cannot import -/
example :
    let caps : Caps := { importable := fun m _ => m == "builtins", rebuild := fun _ _ => .ok }
    receive caps (serialize { payload := .inst "tests.sub.mod" "MyWarning" "boom" true, category := some ("tests.sub.mod", "MyWarning"),
                              details := [("filename", .value "t.py"), ("lineno", .value "3"), ("source", .undumpable "<obj>")] }) =
      .ok { message := .str "tests.sub.mod.MyWarning: boom", category := some ("builtins", "Warning"),
            details := [("filename", "t.py"), ("lineno", "3"), ("source", "<obj>")] } := by
  rfl

end Xdist.Props.C14
