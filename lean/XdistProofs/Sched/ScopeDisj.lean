import XdistProofs.Sched.ScopeUnits
/-!
  C06, "one single worker": in `loadscope.py` (and `loadfile`, `loadgroup`) **a group key is in one place at a time** — in the queue, or
  in exactly one worker's assigned work — through every history of scheduler calls: assignments, completions, crashes that re-queue
  what is left, replacements.  Together with `Sched/ScopeUnits` (a unit holds exactly the tests of its key): the not yet completed
  tests of a group are never spread over two workers.
-/
namespace Xdist.LoadScope
open Xdist

set_option linter.unusedSectionVars false

variable {κ τ : Type} [DecidableEq κ] [DecidableEq τ]

/-! ### association-list facts -/

theorem mem_set_nd {α β : Type} [DecidableEq α] {d : AList α β} {x : α} {v : β} {p : α × β} (hnd : (AList.keys d).Nodup)
    (h : p ∈ AList.set d x v) : p = (x, v) ∨ (p ∈ d ∧ p.1 ≠ x) := by
  rcases mem_set' h with h' | h'
  · by_cases hx : p.1 = x
    · left
      have h1 := AList.lookup_of_mem _ (AList.nodup_keys_set d x v hnd) p h
      rw [hx, AList.lookup_set_same] at h1
      simp only [Option.some.injEq] at h1
      exact Prod.ext hx h1.symm
    · exact Or.inr ⟨h', hx⟩
  · exact Or.inl h'

theorem mem_erase_nd {α β : Type} [DecidableEq α] {d : AList α β} {x : α} {p : α × β} (hnd : (AList.keys d).Nodup)
    (h : p ∈ AList.erase d x) : p ∈ d ∧ p.1 ≠ x := by
  refine ⟨mem_erase' h, ?_⟩
  intro hx
  have hm : p.1 ∈ AList.keys (AList.erase d x) := List.mem_map.2 ⟨p, h, rfl⟩
  rw [hx] at hm
  exact AList.not_mem_keys_erase_self d x hnd hm

theorem set_of_not_mem {α β : Type} [DecidableEq α] {d : AList α β} {x : α} {v : β} (h : x ∉ AList.keys d) :
    AList.set d x v = d ++ [(x, v)] := by
  induction d with
  | nil => rfl
  | cons a t ih =>
    obtain ⟨k, w⟩ := a
    simp only [AList.keys, List.map_cons, List.mem_cons, not_or] at h
    have hk : ¬ k = x := fun hh => h.1 hh.symm
    simp only [AList.set, hk, if_false, List.cons_append]
    rw [ih h.2]

theorem keys_append {α β : Type} (a b : AList α β) : AList.keys (a ++ b) = AList.keys a ++ AList.keys b := by
  simp [AList.keys]

theorem update_append {α β : Type} [DecidableEq α] (b : AList α β) : ∀ (acc : AList α β), (AList.keys b).Nodup →
    (∀ k ∈ AList.keys b, k ∉ AList.keys acc) → AList.update acc b = acc ++ b := by
  induction b with
  | nil => intro acc _ _; simp [AList.update]
  | cons x t ih =>
    intro acc hnd hdis
    obtain ⟨k, v⟩ := x
    simp only [AList.keys, List.map_cons, List.nodup_cons] at hnd
    have hk : k ∉ AList.keys acc := hdis k (by simp [AList.keys])
    have : AList.update acc ((k, v) :: t) = AList.update (AList.set acc k v) t := by simp [AList.update]
    rw [this, set_of_not_mem hk, ih _ hnd.2]
    · simp
    · intro k' hk' hm
      rw [keys_append] at hm
      rcases List.mem_append.1 hm with hm | hm
      · exact hdis k' (by simp only [AList.keys, List.map_cons, List.mem_cons]; exact Or.inr hk') hm
      · simp only [AList.keys, List.map_cons, List.map_nil, List.mem_singleton] at hm
        subst hm; exact hnd.1 hk'

theorem mem_keys_iff {α β : Type} {d : AList α β} {k : α} : k ∈ AList.keys d ↔ ∃ v, (k, v) ∈ d := by
  simp [AList.keys]

/-! ### the invariant -/

/-- a group key is in one place at a time -/
structure Disj (s : State κ τ) : Prop where
  ndA : (AList.keys s.assigned).Nodup
  ndQ : (AList.keys s.workqueue).Nodup
  ndW : ∀ a ∈ s.assigned, (AList.keys a.2).Nodup
  qa : ∀ a ∈ s.assigned, ∀ k ∈ AList.keys a.2, k ∉ AList.keys s.workqueue
  aa : ∀ a ∈ s.assigned, ∀ b ∈ s.assigned, a.1 ≠ b.1 → ∀ k ∈ AList.keys a.2, k ∉ AList.keys b.2

/-- before the first successful `schedule()` there are no units anywhere -/
def Fresh (s : State κ τ) : Prop := s.collection = none → s.workqueue = [] ∧ ∀ a ∈ s.assigned, a.2 = []

/-- the head unit of the queue moves into the assigned work of node `n` -/
theorem disj_move {s : State κ τ} {scope : κ} {wu : WUnit τ} {rest cur : Workload κ τ} {n : Nat} (hd : Disj s)
    (hq : s.workqueue = (scope, wu) :: rest) (hcur : cur = [] ∨ (n, cur) ∈ s.assigned) :
    Disj ({ s with workqueue := rest, assigned := AList.set s.assigned n (AList.set cur scope wu) } : State κ τ) := by
  have hscope_q : scope ∈ AList.keys s.workqueue := by rw [hq]; simp [AList.keys]
  have hndq := hd.ndQ
  rw [hq] at hndq
  simp only [AList.keys, List.map_cons, List.nodup_cons] at hndq
  have hrest : ∀ k, k ∉ AList.keys s.workqueue → k ∉ AList.keys rest := by
    intro k hk hm; apply hk; rw [hq]; simp only [AList.keys, List.map_cons, List.mem_cons]; exact Or.inr hm
  have c_nd : (AList.keys cur).Nodup := by
    rcases hcur with h | h
    · subst h; simp [AList.keys]
    · exact hd.ndW _ h
  have c_q : ∀ k ∈ AList.keys cur, k ∉ AList.keys s.workqueue := by
    rcases hcur with h | h
    · subst h; intro k hk; simp [AList.keys] at hk
    · exact hd.qa _ h
  have c_ab : ∀ b ∈ s.assigned, b.1 ≠ n → ∀ k ∈ AList.keys cur, k ∉ AList.keys b.2 := by
    rcases hcur with h | h
    · subst h; intro b _ _ k hk; simp [AList.keys] at hk
    · intro b hb hbn; exact hd.aa _ h b hb (fun hh => hbn hh.symm)
  have c_ba : ∀ b ∈ s.assigned, b.1 ≠ n → ∀ k ∈ AList.keys b.2, k ∉ AList.keys cur := by
    rcases hcur with h | h
    · subst h; intro b _ _ k _ hk; simp [AList.keys] at hk
    · intro b hb hbn; exact hd.aa b hb _ h hbn
  have hw' : ∀ k, k ∈ AList.keys (AList.set cur scope wu) ↔ k = scope ∨ k ∈ AList.keys cur := fun k => AList.mem_keys_set _ _ _ _
  refine ⟨AList.nodup_keys_set _ _ _ hd.ndA, hndq.2, ?_, ?_, ?_⟩
  · intro a ha
    rcases mem_set_nd hd.ndA ha with rfl | ⟨ha, _⟩
    · exact AList.nodup_keys_set _ _ _ c_nd
    · exact hd.ndW a ha
  · intro a ha k hk
    rcases mem_set_nd hd.ndA ha with rfl | ⟨ha, _⟩
    · rcases (hw' k).1 hk with hks | hk
      · rw [hks]; exact hndq.1
      · exact hrest k (c_q k hk)
    · exact hrest k (hd.qa a ha k hk)
  · intro a ha b hb hab k hk
    rcases mem_set_nd hd.ndA ha with rfl | ⟨ha, han⟩
    · rcases mem_set_nd hd.ndA hb with rfl | ⟨hb, hbn⟩
      · exact absurd rfl hab
      · rcases (hw' k).1 hk with hks | hk
        · intro hm; rw [hks] at hm; exact hd.qa b hb _ hm hscope_q
        · exact c_ab b hb hbn k hk
    · rcases mem_set_nd hd.ndA hb with rfl | ⟨hb, hbn⟩
      · intro hm
        rcases (hw' k).1 hm with hks | hm
        · rw [hks] at hk; exact hd.qa a ha _ hk hscope_q
        · exact c_ba a ha han k hk hm
      · exact hd.aa a ha b hb hab k hk

theorem assignWorkUnit_disj {s s' : State κ τ} {e e' : Env} {n : Nat} (h : assignWorkUnit s e n = .ok (s', e')) (hd : Disj s) :
    Disj s' ∧ s'.collection = s.collection := by
  unfold assignWorkUnit at h
  split at h
  · cases h
  · rename_i scope wu rest hq
    simp only at h
    obtain ⟨col, _, h⟩ := bind_ok.1 h
    obtain ⟨is, _, h⟩ := bind_ok.1 h
    obtain ⟨e1, _, h⟩ := bind_ok.1 h
    simp only [Except.ok.injEq, Prod.mk.injEq] at h
    obtain ⟨rfl, _⟩ := h
    refine ⟨?_, rfl⟩
    apply disj_move hd hq
    cases hl : AList.lookup s.assigned n with
    | none => exact Or.inl rfl
    | some w => exact Or.inr (mem_of_lookup' hl)

theorem topUp_disj {n : Nat} (fuel : Nat) : ∀ {s s' : State κ τ} {e e' : Env}, topUp s e n fuel = .ok (s', e') →
    Disj s → Disj s' ∧ s'.collection = s.collection := by
  induction fuel with
  | zero =>
    intro s s' e e' h hi
    simp only [topUp, Except.ok.injEq, Prod.mk.injEq] at h
    obtain ⟨rfl, _⟩ := h; exact ⟨hi, rfl⟩
  | succ fuel ih =>
    intro s s' e e' h hi
    simp only [topUp] at h
    split at h
    · simp only [Except.ok.injEq, Prod.mk.injEq] at h; obtain ⟨rfl, _⟩ := h; exact ⟨hi, rfl⟩
    · obtain ⟨w, _, h⟩ := bind_ok.1 h
      split at h
      · obtain ⟨⟨s1, e1⟩, h1, h⟩ := bind_ok.1 h
        obtain ⟨a1, a2⟩ := assignWorkUnit_disj h1 hi
        obtain ⟨b1, b2⟩ := ih h a1
        exact ⟨b1, b2.trans a2⟩
      · simp only [Except.ok.injEq, Prod.mk.injEq] at h; obtain ⟨rfl, _⟩ := h; exact ⟨hi, rfl⟩

theorem reschedule_disj {s s' : State κ τ} {e e' : Env} {n : Nat} (h : reschedule s e n = .ok (s', e')) (hi : Disj s) :
    Disj s' ∧ s'.collection = s.collection := by
  unfold reschedule at h
  split at h
  · simp only [Except.ok.injEq, Prod.mk.injEq] at h; obtain ⟨rfl, _⟩ := h; exact ⟨hi, rfl⟩
  · split at h
    · simp only [Except.ok.injEq, Prod.mk.injEq] at h; obtain ⟨rfl, _⟩ := h; exact ⟨hi, rfl⟩
    · split at h
      · simp only [Except.ok.injEq, Prod.mk.injEq] at h; obtain ⟨rfl, _⟩ := h; exact ⟨hi, rfl⟩
      · obtain ⟨w, _, h⟩ := bind_ok.1 h
        split at h
        · simp only [Except.ok.injEq, Prod.mk.injEq] at h; obtain ⟨rfl, _⟩ := h; exact ⟨hi, rfl⟩
        · obtain ⟨⟨s1, e1⟩, h1, h⟩ := bind_ok.1 h
          obtain ⟨a1, a2⟩ := assignWorkUnit_disj h1 hi
          obtain ⟨b1, b2⟩ := topUp_disj _ h a1
          exact ⟨b1, b2.trans a2⟩

theorem rescheduleAll_disj (l : List Nat) : ∀ {s s' : State κ τ} {e e' : Env}, rescheduleAll s e l = .ok (s', e') →
    Disj s → Disj s' ∧ s'.collection = s.collection := by
  induction l with
  | nil =>
    intro s s' e e' h hi
    simp only [rescheduleAll, Except.ok.injEq, Prod.mk.injEq] at h
    obtain ⟨rfl, _⟩ := h; exact ⟨hi, rfl⟩
  | cons n t ih =>
    intro s s' e e' h hi
    simp only [rescheduleAll] at h
    obtain ⟨⟨s1, e1⟩, h1, h2⟩ := bind_ok.1 h
    obtain ⟨a1, a2⟩ := reschedule_disj h1 hi
    obtain ⟨b1, b2⟩ := ih h2 a1
    exact ⟨b1, b2.trans a2⟩

theorem assignAll_disj (l : List Nat) : ∀ {s s' : State κ τ} {e e' : Env}, assignAll s e l = .ok (s', e') →
    Disj s → Disj s' ∧ s'.collection = s.collection := by
  induction l with
  | nil =>
    intro s s' e e' h hi
    simp only [assignAll, Except.ok.injEq, Prod.mk.injEq] at h
    obtain ⟨rfl, _⟩ := h; exact ⟨hi, rfl⟩
  | cons n t ih =>
    intro s s' e e' h hi
    simp only [assignAll] at h
    split at h
    · exact ih h hi
    · obtain ⟨⟨s1, e1⟩, h1, h2⟩ := bind_ok.1 h
      obtain ⟨a1, a2⟩ := assignWorkUnit_disj h1 hi
      obtain ⟨b1, b2⟩ := ih h2 a1
      exact ⟨b1, b2.trans a2⟩

theorem dropExtra_disj (k : Nat) : ∀ {s s' : State κ τ} {e e' : Env}, dropExtra s e k = .ok (s', e') →
    Disj s → Disj s' ∧ s'.collection = s.collection := by
  induction k with
  | zero =>
    intro s s' e e' h hi
    simp only [dropExtra, Except.ok.injEq, Prod.mk.injEq] at h
    obtain ⟨rfl, _⟩ := h; exact ⟨hi, rfl⟩
  | succ k ih =>
    intro s s' e e' h hi
    simp only [dropExtra] at h
    split at h
    · cases h
    · have hsub : ∀ a ∈ s.assigned.dropLast, a ∈ s.assigned := fun a ha => List.dropLast_subset _ ha
      have h1 : Disj ({ s with assigned := s.assigned.dropLast } : State κ τ) :=
        ⟨by
          have : AList.keys s.assigned.dropLast = (AList.keys s.assigned).dropLast := by simp [AList.keys, List.map_dropLast]
          rw [this]; exact List.Sublist.nodup (List.dropLast_sublist _) hi.ndA,
         hi.ndQ, fun a ha => hi.ndW a (hsub a ha), fun a ha => hi.qa a (hsub a ha),
         fun a ha b hb => hi.aa a (hsub a ha) b (hsub b hb)⟩
      obtain ⟨b1, b2⟩ := ih h h1
      exact ⟨b1, b2⟩

/-! ### the units of a collection have distinct keys, also after sorting -/

theorem mem_keys_insertBySize {x : κ × WUnit τ} {w : Workload κ τ} {k : κ} :
    k ∈ AList.keys (insertBySize x w) ↔ k = x.1 ∨ k ∈ AList.keys w := by
  rw [mem_keys_iff, mem_keys_iff]
  constructor
  · rintro ⟨v, hv⟩
    rcases mem_insertBySize.1 hv with h | h
    · exact Or.inl (by rw [← h])
    · exact Or.inr ⟨v, h⟩
  · rintro (h | ⟨v, hv⟩)
    · exact ⟨x.2, mem_insertBySize.2 (Or.inl (by rw [h]))⟩
    · exact ⟨v, mem_insertBySize.2 (Or.inr hv)⟩

theorem nodup_insertBySize {x : κ × WUnit τ} : ∀ {w : Workload κ τ}, x.1 ∉ AList.keys w → (AList.keys w).Nodup →
    (AList.keys (insertBySize x w)).Nodup := by
  intro w
  induction w with
  | nil => intro _ _; simp [insertBySize, AList.keys]
  | cons y r ih =>
    intro hx hnd
    simp only [insertBySize]
    split
    · simp only [AList.keys, List.map_cons, List.nodup_cons] at hnd hx ⊢
      exact ⟨hx, hnd⟩
    · have hnd' := hnd
      simp only [AList.keys, List.map_cons, List.nodup_cons, List.mem_cons, not_or] at hnd' hx
      have : AList.keys (y :: insertBySize x r) = y.1 :: AList.keys (insertBySize x r) := rfl
      rw [this, List.nodup_cons]
      refine ⟨?_, ih hx.2 hnd'.2⟩
      intro hm
      rcases mem_keys_insertBySize.1 hm with h | h
      · exact hx.1 h.symm
      · exact hnd'.1 h

theorem mem_keys_sortBySize {w : Workload κ τ} {k : κ} : k ∈ AList.keys (sortBySize w) ↔ k ∈ AList.keys w := by
  rw [mem_keys_iff, mem_keys_iff]
  exact ⟨fun ⟨v, hv⟩ => ⟨v, mem_sortBySize.1 hv⟩, fun ⟨v, hv⟩ => ⟨v, mem_sortBySize.2 hv⟩⟩

theorem nodup_sortBySize : ∀ {w : Workload κ τ}, (AList.keys w).Nodup → (AList.keys (sortBySize w)).Nodup := by
  intro w
  induction w with
  | nil => intro _; simp [sortBySize, AList.keys]
  | cons x r ih =>
    intro hnd
    have hnd' := hnd
    simp only [AList.keys, List.map_cons, List.nodup_cons] at hnd'
    simp only [sortBySize]
    exact nodup_insertBySize (fun hm => hnd'.1 (mem_keys_sortBySize.1 hm)) (ih hnd'.2)

/-! ### every scheduler call keeps a key in one place -/

/-- a worker's assigned work is replaced by one with the same keys (`mark_test_complete`) -/
theorem disj_replace {s : State κ τ} {n : Nat} {w w' : Workload κ τ} (hd : Disj s) (hw : (n, w) ∈ s.assigned)
    (hk : AList.keys w' = AList.keys w) : Disj ({ s with assigned := AList.set s.assigned n w' } : State κ τ) := by
  refine ⟨AList.nodup_keys_set _ _ _ hd.ndA, hd.ndQ, ?_, ?_, ?_⟩
  · intro a ha
    rcases mem_set_nd hd.ndA ha with rfl | ⟨ha, _⟩
    · show (AList.keys w').Nodup
      rw [hk]; exact hd.ndW _ hw
    · exact hd.ndW a ha
  · intro a ha k hk'
    rcases mem_set_nd hd.ndA ha with rfl | ⟨ha, _⟩
    · have hk'' : k ∈ AList.keys w := hk ▸ hk'
      exact hd.qa _ hw k hk''
    · exact hd.qa a ha k hk'
  · intro a ha b hb hab k hk'
    rcases mem_set_nd hd.ndA ha with rfl | ⟨ha, han⟩
    · rcases mem_set_nd hd.ndA hb with rfl | ⟨hb, hbn⟩
      · exact absurd rfl hab
      · have hk'' : k ∈ AList.keys w := hk ▸ hk'
        exact hd.aa _ hw b hb hab k hk''
    · rcases mem_set_nd hd.ndA hb with rfl | ⟨hb, hbn⟩
      · show k ∉ AList.keys w'
        rw [hk]; exact hd.aa a ha _ hw hab k hk'
      · exact hd.aa a ha b hb hab k hk'

/-- a dead worker's entry is dropped and units with keys of its assigned work are appended to the queue (`remove_node`) -/
theorem disj_requeue {s : State κ τ} {n : Nat} {workload back : Workload κ τ} (hd : Disj s) (hwm : (n, workload) ∈ s.assigned)
    (hkeys : ∀ k ∈ AList.keys back, k ∈ AList.keys workload) (hbnd : (AList.keys back).Nodup) :
    Disj ({ s with assigned := AList.erase s.assigned n, workqueue := AList.update s.workqueue back } : State κ τ) := by
  have hsub : ∀ a ∈ AList.erase s.assigned n, a ∈ s.assigned ∧ a.1 ≠ n := fun a ha => mem_erase_nd hd.ndA ha
  have hbq : ∀ k ∈ AList.keys back, k ∉ AList.keys s.workqueue := fun k hk => hd.qa _ hwm k (hkeys k hk)
  have hupd := update_append _ s.workqueue hbnd hbq
  refine ⟨AList.nodup_keys_erase _ _ hd.ndA, ?_, fun a ha => hd.ndW a (hsub a ha).1, ?_,
    fun a ha b hb => hd.aa a (hsub a ha).1 b (hsub b hb).1⟩
  · show (AList.keys (AList.update s.workqueue back)).Nodup
    rw [hupd, keys_append]
    exact List.nodup_append.2 ⟨hd.ndQ, hbnd, fun a ha b hb hab => hbq b hb (hab ▸ ha)⟩
  · intro a ha k hk
    show k ∉ AList.keys (AList.update s.workqueue back)
    rw [hupd, keys_append]
    intro hm
    rcases List.mem_append.1 hm with hm | hm
    · exact hd.qa a (hsub a ha).1 k hk hm
    · exact hd.aa a (hsub a ha).1 _ hwm (hsub a ha).2 k hk (hkeys k hm)

/-- the invariant carried through every history -/
def DI (s : State κ τ) : Prop := Disj s ∧ Fresh s

theorem init_di (numnodes : Nat) : DI (init numnodes : State κ τ) := by
  refine ⟨⟨?_, ?_, ?_, ?_, ?_⟩, ?_⟩ <;> simp [init, AList.keys, Fresh]

theorem fresh_of_some {s : State κ τ} (h : s.collection ≠ none) : Fresh s := fun hc => absurd hc h

theorem step_di (split : τ → κ) {s s' : State κ τ} {e e' : Env} {op : SOp τ} {r : Option τ}
    (h : step split s e op = .ok (s', e', r)) (hi : DI s) : DI s' := by
  obtain ⟨hd, hf⟩ := hi
  cases op with
  | addNode n =>
    simp only [step] at h
    obtain ⟨s1, h1, h2⟩ := map_ok.1 h
    simp at h2; obtain ⟨rfl, _, _⟩ := h2
    unfold addNode at h1
    split at h1
    · cases h1
    · simp only [Except.ok.injEq] at h1; subst h1
      refine ⟨⟨AList.nodup_keys_set _ _ _ hd.ndA, hd.ndQ, ?_, ?_, ?_⟩, ?_⟩
      · intro a ha
        rcases mem_set_nd hd.ndA ha with rfl | ⟨ha, _⟩
        · simp [AList.keys]
        · exact hd.ndW a ha
      · intro a ha k hk
        rcases mem_set_nd hd.ndA ha with rfl | ⟨ha, _⟩
        · simp [AList.keys] at hk
        · exact hd.qa a ha k hk
      · intro a ha b hb hab k hk
        rcases mem_set_nd hd.ndA ha with rfl | ⟨ha, _⟩
        · simp [AList.keys] at hk
        · rcases mem_set_nd hd.ndA hb with rfl | ⟨hb, _⟩
          · simp [AList.keys]
          · exact hd.aa a ha b hb hab k hk
      · intro hc
        obtain ⟨f1, f2⟩ := hf hc
        refine ⟨f1, ?_⟩
        intro a ha
        rcases mem_set' ha with ha | ha
        · exact f2 a ha
        · subst ha; rfl
  | addNodeCollection n c =>
    simp only [step] at h
    obtain ⟨s1, h1, h2⟩ := map_ok.1 h
    simp at h2; obtain ⟨rfl, _, _⟩ := h2
    unfold addNodeCollection at h1
    split at h1
    · cases h1
    · split at h1
      · split at h1
        · cases h1
        · split at h1
          · cases h1
          · split at h1
            · simp only [Except.ok.injEq] at h1; subst h1; exact ⟨hd, hf⟩
            · simp only [Except.ok.injEq] at h1; subst h1
              exact ⟨⟨hd.ndA, hd.ndQ, hd.ndW, hd.qa, hd.aa⟩, hf⟩
      · simp only [Except.ok.injEq] at h1; subst h1
        exact ⟨⟨hd.ndA, hd.ndQ, hd.ndW, hd.qa, hd.aa⟩, hf⟩
  | schedule =>
    simp only [step] at h
    obtain ⟨⟨s1, e1⟩, h1, h2⟩ := map_ok.1 h
    simp at h2; obtain ⟨rfl, _, _⟩ := h2
    unfold schedule at h1
    split at h1
    · cases h1
    · split at h1
      · rename_i c0 hc0
        obtain ⟨a1, a2⟩ := rescheduleAll_disj _ h1 hd
        exact ⟨a1, fresh_of_some (by rw [a2, hc0]; simp)⟩
      · rename_i hc0
        split at h1
        · cases h1
        · rename_i first col rest _
          simp only at h1
          split at h1
          · simp only [Except.ok.injEq, Prod.mk.injEq] at h1; obtain ⟨rfl, _⟩ := h1; exact ⟨hd, hf⟩
          · split at h1
            · simp only [Except.ok.injEq, Prod.mk.injEq] at h1; obtain ⟨rfl, _⟩ := h1
              exact ⟨⟨hd.ndA, hd.ndQ, hd.ndW, hd.qa, hd.aa⟩, fresh_of_some (by simp)⟩
            · obtain ⟨⟨s3, e3⟩, h3, h1⟩ := bind_ok.1 h1
              obtain ⟨⟨s4, e4⟩, h4, h1⟩ := bind_ok.1 h1
              obtain ⟨⟨s5, e5⟩, h5, h1⟩ := bind_ok.1 h1
              obtain ⟨f1, f2⟩ := hf hc0
              have hnu : (AList.keys (sortBySize (buildUnits split [] col))).Nodup :=
                nodup_sortBySize (buildUnits_nodup split col (acc := []) (by simp [AList.keys]))
              have hupd : AList.update s.workqueue (sortBySize (buildUnits split [] col)) = sortBySize (buildUnits split [] col) := by
                rw [f1, update_append _ _ hnu (by intro k _; simp [AList.keys])]; simp
              have h2 : Disj ({ s with collection := some col, workqueue := AList.update s.workqueue (sortBySize (buildUnits split [] col)) } : State κ τ) := by
                refine ⟨hd.ndA, ?_, hd.ndW, ?_, hd.aa⟩
                · show (AList.keys (AList.update s.workqueue (sortBySize (buildUnits split [] col)))).Nodup
                  rw [hupd]; exact hnu
                · intro a ha k hk
                  rw [f2 a ha] at hk
                  simp [AList.keys] at hk
              obtain ⟨a1, a2⟩ := dropExtra_disj _ h3 h2
              obtain ⟨b1, b2⟩ := assignAll_disj _ h4 a1
              obtain ⟨c1, c2⟩ := rescheduleAll_disj _ h5 b1
              have hcs : s5.collection ≠ none := by rw [c2, b2, a2]; simp
              split at h1
              · simp only [Except.ok.injEq, Prod.mk.injEq] at h1; obtain ⟨rfl, _⟩ := h1; exact ⟨c1, fresh_of_some hcs⟩
              · simp only [Except.ok.injEq, Prod.mk.injEq] at h1; obtain ⟨rfl, _⟩ := h1; exact ⟨c1, fresh_of_some hcs⟩
  | markComplete n i slow =>
    simp only [step] at h
    obtain ⟨⟨s1, e1⟩, h1, h2⟩ := map_ok.1 h
    simp at h2; obtain ⟨rfl, _, _⟩ := h2
    unfold markComplete at h1
    obtain ⟨col, _, h1⟩ := bind_ok.1 h1
    split at h1
    · cases h1
    · rename_i t _
      obtain ⟨w, hw, h1⟩ := bind_ok.1 h1
      obtain ⟨wu, hwu, h1⟩ := bind_ok.1 h1
      have hwm := mem_of_lookup' (AList.get_eq_ok.1 hw)
      have hcs : s.collection ≠ none := by
        intro hc
        have := (hf hc).2 _ hwm
        simp only at this
        subst this
        simp [AList.get, AList.lookup] at hwu
      have hk : AList.keys (AList.set w (split t) (AList.set wu t true)) = AList.keys w :=
        AList.keys_set_of_mem w _ _ (by rw [AList.get_eq_ok.1 hwu]; rfl)
      obtain ⟨a1, a2⟩ := reschedule_disj h1 (disj_replace hd hwm hk)
      exact ⟨a1, fresh_of_some (by rw [a2]; exact hcs)⟩
  | markPending t => simp [step] at h
  | removePending n is => simp [step] at h
  | removeNode n =>
    simp only [step] at h
    unfold removeNode at h
    obtain ⟨⟨workload, asg⟩, hp, h⟩ := bind_ok.1 h
    obtain ⟨hl, hasg⟩ := AList.pop_eq_ok.1 hp
    subst hasg
    have hwm := mem_of_lookup' hl
    have hsub : ∀ a ∈ AList.erase s.assigned n, a ∈ s.assigned ∧ a.1 ≠ n := fun a ha => mem_erase_nd hd.ndA ha
    have hd1 : Disj ({ s with assigned := AList.erase s.assigned n } : State κ τ) :=
      ⟨AList.nodup_keys_erase _ _ hd.ndA, hd.ndQ, fun a ha => hd.ndW a (hsub a ha).1, fun a ha => hd.qa a (hsub a ha).1,
       fun a ha b hb => hd.aa a (hsub a ha).1 b (hsub b hb).1⟩
    simp only at h
    split at h
    · simp only [Except.ok.injEq, Prod.mk.injEq] at h; obtain ⟨rfl, _, _⟩ := h
      refine ⟨hd1, ?_⟩
      intro hc
      obtain ⟨f1, f2⟩ := hf hc
      exact ⟨f1, fun a ha => f2 a (hsub a ha).1⟩
    · rename_i hpend
      have hcs : s.collection ≠ none := by
        intro hc
        have := (hf hc).2 _ hwm
        simp only at this
        subst this
        exact hpend (by simp [pendingOf])
      split at h
      · cases h
      · rename_i scope item hfp
        obtain ⟨⟨s3, e3⟩, h3, h⟩ := bind_ok.1 h
        simp only [Except.ok.injEq, Prod.mk.injEq] at h
        obtain ⟨rfl, _, _⟩ := h
        -- the re-queued units
        have hkeys : ∀ k ∈ AList.keys ((workload.map (fun p => if p.1 = scope then (p.1, AList.set p.2 item true) else p)).filter
            (fun p => !(p.2.all (fun q => q.2)))), k ∈ AList.keys workload := by
          intro k hk
          obtain ⟨v, hv⟩ := mem_keys_iff.1 hk
          obtain ⟨p0, hp0, hpe⟩ := List.mem_map.1 (List.mem_filter.1 hv).1
          have : p0.1 = k := by
            split at hpe
            · exact (congrArg Prod.fst hpe)
            · exact (congrArg Prod.fst hpe)
          exact this ▸ List.mem_map.2 ⟨p0, hp0, rfl⟩
        have hbnd : (AList.keys ((workload.map (fun p => if p.1 = scope then (p.1, AList.set p.2 item true) else p)).filter
            (fun p => !(p.2.all (fun q => q.2))))).Nodup := by
          have hmk : AList.keys (workload.map (fun p => if p.1 = scope then (p.1, AList.set p.2 item true) else p)) = AList.keys workload := by
            simp only [AList.keys, List.map_map]
            apply List.map_congr_left
            intro p _
            simp only [Function.comp]
            split <;> rfl
          have hsl : List.Sublist (AList.keys ((workload.map (fun p => if p.1 = scope then (p.1, AList.set p.2 item true) else p)).filter
              (fun p => !(p.2.all (fun q => q.2))))) (AList.keys workload) := by
            rw [← hmk]
            exact List.Sublist.map _ List.filter_sublist
          exact List.Sublist.nodup hsl (hd.ndW _ hwm)
        have hd2 := disj_requeue hd hwm hkeys hbnd
        obtain ⟨a1, a2⟩ := rescheduleAll_disj _ h3 hd2
        exact ⟨a1, fresh_of_some (by rw [a2]; exact hcs)⟩

/-- **A group key is in one place at a time** (C06), as a statement about a state: a key in the queue is in nobody's assigned work,
    and two workers that both hold a unit of the same key are the same worker with the same assigned work. -/
theorem Disj.one_place {s : State κ τ} (hd : Disj s) (k : κ) :
    (k ∈ AList.keys s.workqueue → ∀ a ∈ s.assigned, k ∉ AList.keys a.2) ∧
    (∀ a ∈ s.assigned, ∀ b ∈ s.assigned, k ∈ AList.keys a.2 → k ∈ AList.keys b.2 → a = b) := by
  refine ⟨fun hq a ha hk => hd.qa a ha k hk hq, ?_⟩
  intro a ha b hb hka hkb
  by_cases hab : a.1 = b.1
  · have h1 := AList.lookup_of_mem _ hd.ndA a ha
    have h2 := AList.lookup_of_mem _ hd.ndA b hb
    rw [hab, h2] at h1
    simp only [Option.some.injEq] at h1
    exact Prod.ext hab h1.symm
  · exact absurd hkb (hd.aa a ha b hb hab k hka)

end Xdist.LoadScope
