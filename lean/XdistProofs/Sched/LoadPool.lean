import XdistProofs.Sched.LoadAcc
import XdistProofs.Sched.LoadQG
/-!
  **What leaves the pool of the load scheduler is exactly what is put on the wire as run commands** (as long as no peer is
  gone): the pool-side half of the ledger, for every scheduler call that does not put tests back (`add_node`,
  `add_node_collection`, `schedule`, `mark_test_complete`, `remove_node` of a node holding nothing).
-/
namespace Xdist.Load
open Xdist

variable {τ : Type} [DecidableEq τ]

/-- the test indices of the run commands in a piece of the wire log, in order -/
def runsOf (outs : List SOut) : List Nat :=
  outs.flatMap fun o => match o with | .run _ is => is | _ => []

theorem runsOf_append (a b : List SOut) : runsOf (a ++ b) = runsOf a ++ runsOf b := by
  unfold runsOf; rw [List.flatMap_append]

@[simp] theorem runsOf_nil : runsOf [] = [] := rfl

/-- from pool `p` and environment `e`, sending `new`, to pool `p'` and environment `e'` -/
structure Pool (p : List Nat) (e : Env) (new : List SOut) (p' : List Nat) (e' : Env) : Prop where
  outs : e'.outs = e.outs ++ new
  pool : p = runsOf new ++ p'
  broken : ∀ m, (e'.flags.get m).broken = (e.flags.get m).broken

theorem Pool.refl (p : List Nat) (e : Env) : Pool p e [] p e := ⟨by simp, by simp, fun _ => rfl⟩

theorem Pool.trans {p1 p2 p3 : List Nat} {e1 e2 e3 : Env} {n1 n2 : List SOut}
    (x : Pool p1 e1 n1 p2 e2) (y : Pool p2 e2 n2 p3 e3) : Pool p1 e1 (n1 ++ n2) p3 e3 :=
  ⟨by rw [y.outs, x.outs, List.append_assoc], by rw [runsOf_append, List.append_assoc, ← y.pool, ← x.pool],
    fun m => (y.broken m).trans (x.broken m)⟩

theorem shutdown_pool (p : List Nat) (e : Env) (n : Nat) : ∃ new, Pool p e new p (e.shutdown n) ∧ runsOf new = [] := by
  unfold Env.shutdown
  simp only
  split
  · exact ⟨[], Pool.refl _ _, rfl⟩
  · split
    · refine ⟨[], ⟨by simp, by simp, ?_⟩, rfl⟩
      intro m; simp only [Contract.flags_get_set]; split
      · rename_i h; subst h; rfl
      · rfl
    · refine ⟨[.shutdown n], ⟨rfl, by simp [runsOf], ?_⟩, by simp [runsOf]⟩
      intro m; simp only [Contract.flags_get_set]; split
      · rename_i h; subst h; rfl
      · rfl

theorem shutdownAll_pool (p : List Nat) (e : Env) (ns : List Nat) : ∃ new, Pool p e new p (e.shutdownAll ns) ∧ runsOf new = [] := by
  induction ns generalizing e with
  | nil => exact ⟨[], Pool.refl _ _, rfl⟩
  | cons n t ih =>
    obtain ⟨n1, a1, r1⟩ := shutdown_pool p e n
    obtain ⟨n2, a2, r2⟩ := ih (e.shutdown n)
    exact ⟨n1 ++ n2, a1.trans a2, by rw [runsOf_append, r1, r2]; rfl⟩

/-- no peer is gone -/
def NoBroken (e : Env) : Prop := ∀ m, (e.flags.get m).broken = false

theorem Pool.noBroken {p p' : List Nat} {e e' : Env} {new : List SOut} (x : Pool p e new p' e') (h : NoBroken e) : NoBroken e' :=
  fun m => by rw [x.broken m]; exact h m

theorem sendTests_pool {s s' : State τ} {e e' : Env} {n : Nat} {num : Int} (hb : NoBroken e)
    (h : sendTests s e n num = .ok (s', e')) : ∃ new, Pool s.pending e new s'.pending e' ∧ s'.collection = s.collection := by
  unfold sendTests at h
  obtain ⟨k, hk1, hk2⟩ := slice_take_drop s.pending num
  simp only [hk1, hk2] at h
  by_cases hemp : (s.pending.take k).isEmpty = true
  · simp [hemp] at h
    obtain ⟨rfl, rfl⟩ := h
    exact ⟨[], Pool.refl _ _, rfl⟩
  · simp only [hemp] at h
    cases hbk : s.node2pending.get n with
    | error err => simp [hbk, bind, Except.bind] at h
    | ok book =>
      simp only [hbk, bind, Except.bind] at h
      unfold Env.sendRun Env.send at h
      simp [hb n] at h
      obtain ⟨rfl, rfl⟩ := h
      exact ⟨[SOut.run n (s.pending.take k)], ⟨rfl, by simp [runsOf], fun _ => rfl⟩, rfl⟩

theorem checkSchedule_pool {s s' : State τ} {e e' : Env} {n : Nat} {slow : Bool} (hb : NoBroken e)
    (h : checkSchedule s e n slow = .ok (s', e')) : ∃ new, Pool s.pending e new s'.pending e' ∧ s'.collection = s.collection := by
  unfold checkSchedule at h
  by_cases hsd : e.flags.shuttingDown n = true
  · simp [hsd] at h; obtain ⟨rfl, rfl⟩ := h; exact ⟨[], Pool.refl _ _, rfl⟩
  · simp only [hsd] at h
    by_cases hp : s.pending.isEmpty = true
    · simp [hp] at h; obtain ⟨rfl, rfl⟩ := h
      obtain ⟨new, a, _⟩ := shutdown_pool s.pending e n
      exact ⟨new, a, rfl⟩
    · simp only [hp] at h
      by_cases hz : s.node2pending.length = 0
      · simp [hz] at h
      · simp only [hz] at h
        cases hbk : s.node2pending.get n with
        | error err => simp [hbk, bind, Except.bind] at h
        | ok book =>
          simp only [hbk, bind, Except.bind] at h
          by_cases hlt : book.length < max 2 (s.pending.length / s.node2pending.length / 4)
          · simp only [hlt, if_true] at h
            by_cases hslow : (slow && decide (book.length ≥ 2)) = true
            · simp only [hslow, if_true] at h
              simp at h; obtain ⟨rfl, rfl⟩ := h; exact ⟨[], Pool.refl _ _, rfl⟩
            · simp only [hslow] at h
              cases hm : s.maxschedchunk with
              | none => simp [hm] at h
              | some msc =>
                simp only [hm] at h
                exact sendTests_pool hb h
          · simp [hlt] at h; obtain ⟨rfl, rfl⟩ := h; exact ⟨[], Pool.refl _ _, rfl⟩

theorem checkAll_pool {s s' : State τ} {e e' : Env} {ns : List Nat} (hb : NoBroken e) (h : checkAll s e ns = .ok (s', e')) :
    ∃ new, Pool s.pending e new s'.pending e' ∧ s'.collection = s.collection := by
  induction ns generalizing s e with
  | nil => simp only [checkAll, Except.ok.injEq, Prod.mk.injEq] at h; obtain ⟨rfl, rfl⟩ := h; exact ⟨[], Pool.refl _ _, rfl⟩
  | cons n t ih =>
    simp only [checkAll] at h
    obtain ⟨⟨s1, e1⟩, h1, h2⟩ := bind_ok.1 h
    obtain ⟨n1, a1, c1⟩ := checkSchedule_pool hb h1
    obtain ⟨n2, a2, c2⟩ := ih (a1.noBroken hb) h2
    exact ⟨n1 ++ n2, a1.trans a2, c2.trans c1⟩

theorem sendEach_pool {s s' : State τ} {e e' : Env} {num : Int} {ns : List Nat} (hb : NoBroken e)
    (h : sendEach s e num ns = .ok (s', e')) : ∃ new, Pool s.pending e new s'.pending e' ∧ s'.collection = s.collection := by
  induction ns generalizing s e with
  | nil => simp only [sendEach, Except.ok.injEq, Prod.mk.injEq] at h; obtain ⟨rfl, rfl⟩ := h; exact ⟨[], Pool.refl _ _, rfl⟩
  | cons n t ih =>
    simp only [sendEach] at h
    obtain ⟨⟨s1, e1⟩, h1, h2⟩ := bind_ok.1 h
    obtain ⟨n1, a1, c1⟩ := sendTests_pool hb h1
    obtain ⟨n2, a2, c2⟩ := ih (a1.noBroken hb) h2
    exact ⟨n1 ++ n2, a1.trans a2, c2.trans c1⟩

theorem roundRobin_pool {ns : List Nat} {k i : Nat} {s s' : State τ} {e e' : Env} (hb : NoBroken e)
    (h : roundRobin ns s e k i = .ok (s', e')) : ∃ new, Pool s.pending e new s'.pending e' ∧ s'.collection = s.collection := by
  induction k generalizing s e i with
  | zero => simp only [roundRobin, Except.ok.injEq, Prod.mk.injEq] at h; obtain ⟨rfl, rfl⟩ := h; exact ⟨[], Pool.refl _ _, rfl⟩
  | succ k ih =>
    simp only [roundRobin] at h
    split at h
    · cases h
    · obtain ⟨⟨s1, e1⟩, h1, h2⟩ := bind_ok.1 h
      obtain ⟨n1, a1, c1⟩ := sendTests_pool hb h1
      obtain ⟨n2, a2, c2⟩ := ih (a1.noBroken hb) h2
      exact ⟨n1 ++ n2, a1.trans a2, c2.trans c1⟩

theorem initialSend_pool {s s' : State τ} {e e' : Env} {k : Nat} {msc : Int} (hb : NoBroken e)
    (h : initialSend s e k msc = .ok (s', e')) : ∃ new, Pool s.pending e new s'.pending e' ∧ s'.collection = s.collection := by
  unfold initialSend at h
  obtain ⟨⟨s3, e3⟩, hsend, h⟩ := bind_ok.1 h
  have h3 : ∃ new, Pool s.pending e new s3.pending e3 ∧ s3.collection = s.collection := by
    unfold initialDistribute at hsend
    dsimp only at hsend
    split at hsend
    · exact roundRobin_pool hb hsend
    · split at hsend
      · simp at hsend
      · exact sendEach_pool hb hsend
  obtain ⟨n1, a1, c1⟩ := h3
  simp only at h
  split at h
  · simp only [Except.ok.injEq, Prod.mk.injEq] at h
    obtain ⟨rfl, rfl⟩ := h
    obtain ⟨n2, a2, _⟩ := shutdownAll_pool s3.pending e3 (nodes s3)
    exact ⟨n1 ++ n2, a1.trans a2, c1⟩
  · simp only [Except.ok.injEq, Prod.mk.injEq] at h
    obtain ⟨rfl, rfl⟩ := h
    exact ⟨n1, a1, c1⟩

/-- `schedule()`: either the collection was agreed before and the pool shrinks by what is sent, or this call agrees it — the
    pool becomes all its indices, minus what is sent at once — or the collections disagree and nothing is handed out -/
theorem schedule_pool {s s' : State τ} {e e' : Env} (hb : NoBroken e) (hnc : s.collection = none → s.pending = [])
    (h : schedule s e = .ok (s', e')) :
    ∃ new, e'.outs = e.outs ++ new ∧ NoBroken e' ∧
      ((s'.collection = s.collection ∧ s.pending = runsOf new ++ s'.pending) ∨
       (s.collection = none ∧ ∃ col, s'.collection = some col ∧ List.range col.length = runsOf new ++ s'.pending)) := by
  unfold schedule at h
  split at h
  · cases h
  split at h
  · obtain ⟨new, a, c⟩ := checkAll_pool hb h
    exact ⟨new, a.outs, a.noBroken hb, Or.inl ⟨c, a.pool⟩⟩
  · rename_i hcol
    split at h
    · cases h
    · rename_i first col rest hreg
      unfold scheduleFirst at h
      simp only at h
      split at h
      · simp only [Except.ok.injEq, Prod.mk.injEq] at h
        obtain ⟨rfl, rfl⟩ := h
        refine ⟨collectionDiffs first col rest, rfl, hb, Or.inl ⟨rfl, ?_⟩⟩
        have : runsOf (collectionDiffs first col rest) = [] := by
          unfold runsOf collectionDiffs
          rw [List.flatMap_eq_nil_iff]
          intro o ho
          obtain ⟨p, _, rfl⟩ := List.mem_map.1 ho
          rfl
        rw [this]; rfl
      · rename_i hd
        have hdn : collectionDiffs first col rest = [] := by
          cases hh : collectionDiffs first col rest with
          | nil => rfl
          | cons a t => rw [hh] at hd; simp at hd
        split at h
        · simp only [Except.ok.injEq, Prod.mk.injEq] at h
          obtain ⟨rfl, rfl⟩ := h
          refine ⟨[], by simp [hdn], hb, Or.inr ⟨hcol, col, rfl, ?_⟩⟩
          simp
        · have hb' : NoBroken ({ e with outs := e.outs ++ collectionDiffs first col rest } : Env) := fun m => hb m
          obtain ⟨new, a, c⟩ := initialSend_pool hb' h
          refine ⟨new, ?_, a.noBroken hb', Or.inr ⟨hcol, col, c, a.pool⟩⟩
          rw [a.outs, hdn]; simp

theorem markComplete_pool {s s' : State τ} {e e' : Env} {n i : Nat} {slow : Bool} (hb : NoBroken e)
    (h : markComplete s e n i slow = .ok (s', e')) : ∃ new, Pool s.pending e new s'.pending e' ∧ s'.collection = s.collection := by
  unfold markComplete at h
  obtain ⟨book, _, h1⟩ := bind_ok.1 h
  obtain ⟨book', _, h2⟩ := bind_ok.1 h1
  exact checkSchedule_pool (s := { s with node2pending := s.node2pending.set n book' }) hb h2

/-- `remove_node` of a node that held nothing: nothing goes back to the pool, nothing is sent -/
theorem removeNode_none {s s' : State τ} {e e' : Env} {n : Nat} (h : removeNode s e n = .ok (s', e', none)) :
    e' = e ∧ s'.pending = s.pending ∧ s'.collection = s.collection := by
  unfold removeNode at h
  obtain ⟨⟨book, n2p⟩, _, h1⟩ := bind_ok.1 h
  simp only at h1
  split at h1
  · simp only [Except.ok.injEq, Prod.mk.injEq] at h1
    obtain ⟨rfl, rfl, _⟩ := h1
    exact ⟨rfl, rfl, rfl⟩
  · split at h1
    · cases h1
    · split at h1
      · cases h1
      · obtain ⟨⟨s3, e3⟩, _, h3⟩ := bind_ok.1 h1
        simp at h3

end Xdist.Load
