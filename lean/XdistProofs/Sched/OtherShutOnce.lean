import XdistProofs.Sched.LoadShutOnce
import XdistProofs.Sched.EachReach
/-!
  The shutdown discipline of the wire (`ShutOnceE`: at most one shutdown signal per worker, and a signal on the wire means the
  flag is set) is kept by every call of `EachScheduling` and of `WorkStealingScheduling`.
-/
namespace Xdist
open Xdist

theorem send_shutOnce {e e' : Env} {n : Nat} {o : SOut} (h : e.send n o = .ok e') (ho : ∀ m, o ≠ SOut.shutdown m)
    (hs : ShutOnceE e) : ShutOnceE e' := by
  unfold Env.send at h
  split at h
  · simp only [Except.ok.injEq] at h; subst h; exact hs
  · simp only [Except.ok.injEq] at h; subst h
    exact shutOnceE_append hs (by intro x hx m; simp at hx; subst hx; exact ho m)

namespace Each
open Xdist.Contract

variable {τ : Type} [DecidableEq τ]

theorem afterSend_shutOnce {e : Env} (n : Nat) {o : SOut} (ho : ∀ m, o ≠ SOut.shutdown m) (hs : ShutOnceE e) :
    ShutOnceE (afterSend e n o) := by
  unfold afterSend
  split
  · exact hs
  · split
    · exact hs
    · exact shutOnceE_append hs (by intro x hx m; simp at hx; subst hx; exact ho m)

theorem takeOver_shutOnce (spec : Nat → Nat) {n : Nat} {c : List τ} (l : AList Nat (List Nat)) :
    ∀ {s s' : State τ} {e e' : Env}, takeOver spec s e n c l = .ok (s', e') → ShutOnceE e → ShutOnceE e' := by
  induction l with
  | nil =>
    intro s s' e e' h hs
    simp only [takeOver, nothingToTakeOver, Except.ok.injEq, Prod.mk.injEq] at h
    obtain ⟨_, rfl⟩ := h
    exact shutOnceE_shutdown hs n
  | cons p rest ih =>
    intro s s' e e' h hs
    obtain ⟨dead, pend⟩ := p
    simp only [takeOver] at h
    split at h
    · obtain ⟨deadCol, _, h⟩ := bind_ok.1 h
      split at h
      · simp only [nothingToTakeOver, Except.ok.injEq, Prod.mk.injEq] at h
        obtain ⟨_, rfl⟩ := h
        exact shutOnceE_shutdown hs n
      · simp only [Except.ok.injEq, Prod.mk.injEq] at h
        obtain ⟨_, rfl⟩ := h
        exact hs
    · exact ih h hs

theorem scheduleLoop_shutOnce (l : List Nat) : ∀ {s s' : State τ} {e e' : Env}, scheduleLoop s e l = .ok (s', e') →
    ShutOnceE e → ShutOnceE e' := by
  induction l with
  | nil =>
    intro s s' e e' h hs
    simp only [scheduleLoop, Except.ok.injEq, Prod.mk.injEq] at h
    obtain ⟨_, rfl⟩ := h; exact hs
  | cons n t ih =>
    intro s s' e e' h hs
    by_cases hst : s.started.contains n = true
    · rw [scheduleLoop] at h
      simp only [hst, if_true] at h
      exact ih h hs
    · have hst' : s.started.contains n = false := by simpa using hst
      by_cases hcc : s.node2collection.contains n = true
      · cases hget : s.node2pending.get n with
        | error err =>
          rw [scheduleLoop] at h
          have hnm : n ∉ s.started := by simpa using hst'
          simp [hnm, hcc, hget, bind, Except.bind] at h
        | ok book =>
          rw [scheduleLoop_cons s e n t book hst' hcc hget] at h
          split at h
          · split at h
            · exact ih h (shutOnceE_shutdown (afterSend_shutOnce n (by intro m; simp) hs) n)
            · cases h
          · exact ih h (afterSend_shutOnce n (by intro m; simp) hs)
      · rw [scheduleLoop] at h
        simp only [hst', Bool.false_eq_true, if_false, hcc, Bool.not_false, if_true] at h
        exact ih h hs

theorem step_shutOnce (spec : Nat → Nat) {s s' : State τ} {e e' : Env} {op : SOp τ} {r : Option τ}
    (h : step spec s e op = .ok (s', e', r)) (hs : ShutOnceE e) : ShutOnceE e' := by
  cases op with
  | addNode n =>
    simp only [step] at h
    obtain ⟨s1, _, h2⟩ := map_ok.1 h
    simp at h2; obtain ⟨_, rfl, _⟩ := h2; exact hs
  | addNodeCollection n c =>
    simp only [step] at h
    obtain ⟨⟨s1, e1⟩, h1, h2⟩ := map_ok.1 h
    simp at h2; obtain ⟨_, rfl, _⟩ := h2
    unfold addNodeCollection at h1
    split at h1
    · cases h1
    · split at h1
      · simp only [Except.ok.injEq, Prod.mk.injEq] at h1; obtain ⟨_, rfl⟩ := h1; exact hs
      · exact takeOver_shutOnce spec _ h1 hs
  | schedule =>
    simp only [step] at h
    obtain ⟨⟨s1, e1⟩, h1, h2⟩ := map_ok.1 h
    simp at h2; obtain ⟨_, rfl, _⟩ := h2
    unfold schedule at h1
    split at h1
    · cases h1
    · exact scheduleLoop_shutOnce _ h1 hs
  | markComplete n i slow =>
    simp only [step] at h
    obtain ⟨s1, _, h2⟩ := map_ok.1 h
    simp at h2; obtain ⟨_, rfl, _⟩ := h2; exact hs
  | markPending t => simp [step] at h
  | removePending n is => simp [step] at h
  | removeNode n =>
    simp only [step] at h
    obtain ⟨p, _, h2⟩ := map_ok.1 h
    simp at h2; obtain ⟨_, rfl, _⟩ := h2; exact hs

end Each

namespace WorkSteal

variable {τ : Type} [DecidableEq τ]

omit [DecidableEq τ] in
theorem sendTests_shutOnce {s s' : State τ} {e e' : Env} {n num : Nat} (h : sendTests s e n num = .ok (s', e'))
    (hs : ShutOnceE e) : ShutOnceE e' := by
  unfold sendTests at h
  simp only at h
  split at h
  · simp only [Except.ok.injEq, Prod.mk.injEq] at h; obtain ⟨_, rfl⟩ := h; exact hs
  · obtain ⟨book, _, h⟩ := bind_ok.1 h
    obtain ⟨e1, he1, h⟩ := bind_ok.1 h
    simp only [Except.ok.injEq, Prod.mk.injEq] at h
    obtain ⟨_, rfl⟩ := h
    exact send_shutOnce he1 (by intro m; simp) hs

omit [DecidableEq τ] in
theorem distribute_shutOnce (l : List Nat) : ∀ {s s' : State τ} {e e' : Env}, distribute s e l = .ok (s', e') →
    ShutOnceE e → ShutOnceE e' := by
  induction l with
  | nil =>
    intro s s' e e' h hs
    simp only [distribute, Except.ok.injEq, Prod.mk.injEq] at h
    obtain ⟨_, rfl⟩ := h; exact hs
  | cons n t ih =>
    intro s s' e e' h hs
    simp only [distribute] at h
    obtain ⟨⟨s1, e1⟩, h1, h2⟩ := bind_ok.1 h
    exact ih h2 (sendTests_shutOnce h1 hs)

omit [DecidableEq τ] in
theorem stealOrShutdown_shutOnce {s s' : State τ} {e e' : Env} {up : AList Nat (List Nat)} {idle : List Nat}
    (h : stealOrShutdown s e up idle = .ok (s', e')) (hs : ShutOnceE e) : ShutOnceE e' := by
  unfold stealOrShutdown at h
  split at h
  · simp only [Except.ok.injEq, Prod.mk.injEq] at h; obtain ⟨_, rfl⟩ := h; exact hs
  · split at h
    · simp only [Except.ok.injEq, Prod.mk.injEq] at h; obtain ⟨_, rfl⟩ := h
      exact shutOnceE_shutdownAll _ hs
    · simp only at h
      split at h
      · simp only [Except.ok.injEq, Prod.mk.injEq] at h; obtain ⟨_, rfl⟩ := h
        exact shutOnceE_shutdownAll _ hs
      · obtain ⟨e2, he2, h⟩ := bind_ok.1 h
        simp only [Except.ok.injEq, Prod.mk.injEq] at h; obtain ⟨_, rfl⟩ := h
        exact send_shutOnce he2 (by intro m; simp) hs

omit [DecidableEq τ] in
theorem checkSchedule_shutOnce {s s' : State τ} {e e' : Env} (h : checkSchedule s e = .ok (s', e')) (hs : ShutOnceE e) :
    ShutOnceE e' := by
  unfold checkSchedule at h
  split at h
  · simp only [Except.ok.injEq, Prod.mk.injEq] at h; obtain ⟨_, rfl⟩ := h; exact hs
  · simp only at h
    split at h
    · simp only [Except.ok.injEq, Prod.mk.injEq] at h; obtain ⟨_, rfl⟩ := h; exact hs
    · split at h
      · exact stealOrShutdown_shutOnce h hs
      · obtain ⟨r, hr, h⟩ := bind_ok.1 h
        have h1 := distribute_shutOnce _ (show distribute s e _ = .ok (r.1, r.2) from hr) hs
        split at h
        · simp only [Except.ok.injEq, Prod.mk.injEq] at h; obtain ⟨_, rfl⟩ := h; exact h1
        · exact stealOrShutdown_shutOnce h h1

theorem step_shutOnce {s s' : State τ} {e e' : Env} {op : SOp τ} {r : Option τ} (h : step s e op = .ok (s', e', r))
    (hs : ShutOnceE e) : ShutOnceE e' := by
  cases op with
  | addNode n =>
    simp only [step] at h
    obtain ⟨s1, _, h2⟩ := map_ok.1 h
    simp at h2; obtain ⟨_, rfl, _⟩ := h2; exact hs
  | addNodeCollection n c =>
    simp only [step] at h
    obtain ⟨s1, _, h2⟩ := map_ok.1 h
    simp at h2; obtain ⟨_, rfl, _⟩ := h2; exact hs
  | schedule =>
    simp only [step] at h
    obtain ⟨⟨s1, e1⟩, h1, h2⟩ := map_ok.1 h
    simp at h2; obtain ⟨_, rfl, _⟩ := h2
    unfold schedule at h1
    split at h1
    · cases h1
    · split at h1
      · exact checkSchedule_shutOnce h1 hs
      · split at h1
        · cases h1
        · rename_i first col rest _
          simp only at h1
          have hd : ShutOnceE { e with outs := e.outs ++ collectionDiffs first col rest } := by
            apply shutOnceE_append hs
            intro o ho m
            unfold collectionDiffs at ho
            obtain ⟨p, _, rfl⟩ := List.mem_map.1 ho
            simp
          split at h1
          · simp only [Except.ok.injEq, Prod.mk.injEq] at h1; obtain ⟨_, rfl⟩ := h1; exact hd
          · split at h1
            · simp only [Except.ok.injEq, Prod.mk.injEq] at h1; obtain ⟨_, rfl⟩ := h1; exact hd
            · exact checkSchedule_shutOnce h1 hd
  | markComplete n i slow =>
    simp only [step] at h
    obtain ⟨⟨s1, e1⟩, h1, h2⟩ := map_ok.1 h
    simp at h2; obtain ⟨_, rfl, _⟩ := h2
    unfold markComplete at h1
    obtain ⟨book, _, h1⟩ := bind_ok.1 h1
    obtain ⟨book', _, h1⟩ := bind_ok.1 h1
    exact checkSchedule_shutOnce h1 hs
  | markPending t =>
    simp only [step] at h
    obtain ⟨⟨s1, e1⟩, h1, h2⟩ := map_ok.1 h
    simp at h2; obtain ⟨_, rfl, _⟩ := h2
    unfold markPending at h1
    split at h1
    · cases h1
    · obtain ⟨idx, _, h1⟩ := bind_ok.1 h1
      exact checkSchedule_shutOnce h1 hs
  | removePending n is =>
    simp only [step] at h
    obtain ⟨⟨s1, e1⟩, h1, h2⟩ := map_ok.1 h
    simp at h2; obtain ⟨_, rfl, _⟩ := h2
    unfold removePending at h1
    split at h1
    · cases h1
    · obtain ⟨book, _, h1⟩ := bind_ok.1 h1
      exact checkSchedule_shutOnce h1 hs
  | removeNode n =>
    simp only [step] at h
    unfold removeNode at h
    obtain ⟨p, _, h⟩ := bind_ok.1 h
    obtain ⟨cr, _, h⟩ := bind_ok.1 h
    obtain ⟨r2, h3, h⟩ := bind_ok.1 h
    simp only [Except.ok.injEq, Prod.mk.injEq] at h
    obtain ⟨_, rfl, _⟩ := h
    exact checkSchedule_shutOnce (show checkSchedule _ e = .ok (r2.1, r2.2) from h3) hs

end WorkSteal
end Xdist

namespace Xdist
namespace LoadScope

variable {κ τ : Type} [DecidableEq κ] [DecidableEq τ]

theorem assignWorkUnit_shutOnce {s s' : State κ τ} {e e' : Env} {n : Nat} (h : assignWorkUnit s e n = .ok (s', e'))
    (hs : ShutOnceE e) : ShutOnceE e' := by
  unfold assignWorkUnit at h
  split at h
  · cases h
  · simp only at h
    obtain ⟨col, _, h⟩ := bind_ok.1 h
    obtain ⟨is, _, h⟩ := bind_ok.1 h
    obtain ⟨e1, he1, h⟩ := bind_ok.1 h
    simp only [Except.ok.injEq, Prod.mk.injEq] at h
    obtain ⟨_, rfl⟩ := h
    exact send_shutOnce he1 (by intro m; simp) hs

theorem topUp_shutOnce {n : Nat} (fuel : Nat) : ∀ {s s' : State κ τ} {e e' : Env}, topUp s e n fuel = .ok (s', e') →
    ShutOnceE e → ShutOnceE e' := by
  induction fuel with
  | zero =>
    intro s s' e e' h hs
    simp only [topUp, Except.ok.injEq, Prod.mk.injEq] at h
    obtain ⟨_, rfl⟩ := h; exact hs
  | succ fuel ih =>
    intro s s' e e' h hs
    simp only [topUp] at h
    split at h
    · simp only [Except.ok.injEq, Prod.mk.injEq] at h; obtain ⟨_, rfl⟩ := h; exact hs
    · obtain ⟨w, _, h⟩ := bind_ok.1 h
      split at h
      · obtain ⟨⟨s1, e1⟩, h1, h⟩ := bind_ok.1 h
        exact ih h (assignWorkUnit_shutOnce h1 hs)
      · simp only [Except.ok.injEq, Prod.mk.injEq] at h; obtain ⟨_, rfl⟩ := h; exact hs

theorem reschedule_shutOnce {s s' : State κ τ} {e e' : Env} {n : Nat} (h : reschedule s e n = .ok (s', e'))
    (hs : ShutOnceE e) : ShutOnceE e' := by
  unfold reschedule at h
  split at h
  · simp only [Except.ok.injEq, Prod.mk.injEq] at h; obtain ⟨_, rfl⟩ := h; exact hs
  · split at h
    · simp only [Except.ok.injEq, Prod.mk.injEq] at h; obtain ⟨_, rfl⟩ := h; exact hs
    · split at h
      · simp only [Except.ok.injEq, Prod.mk.injEq] at h; obtain ⟨_, rfl⟩ := h
        exact shutOnceE_shutdown hs n
      · obtain ⟨w, _, h⟩ := bind_ok.1 h
        split at h
        · simp only [Except.ok.injEq, Prod.mk.injEq] at h; obtain ⟨_, rfl⟩ := h; exact hs
        · obtain ⟨⟨s1, e1⟩, h1, h⟩ := bind_ok.1 h
          exact topUp_shutOnce _ h (assignWorkUnit_shutOnce h1 hs)

theorem rescheduleAll_shutOnce (l : List Nat) : ∀ {s s' : State κ τ} {e e' : Env}, rescheduleAll s e l = .ok (s', e') →
    ShutOnceE e → ShutOnceE e' := by
  induction l with
  | nil =>
    intro s s' e e' h hs
    simp only [rescheduleAll, Except.ok.injEq, Prod.mk.injEq] at h
    obtain ⟨_, rfl⟩ := h; exact hs
  | cons n t ih =>
    intro s s' e e' h hs
    simp only [rescheduleAll] at h
    obtain ⟨⟨s1, e1⟩, h1, h2⟩ := bind_ok.1 h
    exact ih h2 (reschedule_shutOnce h1 hs)

theorem assignAll_shutOnce (l : List Nat) : ∀ {s s' : State κ τ} {e e' : Env}, assignAll s e l = .ok (s', e') →
    ShutOnceE e → ShutOnceE e' := by
  induction l with
  | nil =>
    intro s s' e e' h hs
    simp only [assignAll, Except.ok.injEq, Prod.mk.injEq] at h
    obtain ⟨_, rfl⟩ := h; exact hs
  | cons n t ih =>
    intro s s' e e' h hs
    simp only [assignAll] at h
    split at h
    · exact ih h hs
    · obtain ⟨⟨s1, e1⟩, h1, h2⟩ := bind_ok.1 h
      exact ih h2 (assignWorkUnit_shutOnce h1 hs)

omit [DecidableEq κ] [DecidableEq τ] in
theorem dropExtra_shutOnce (k : Nat) : ∀ {s s' : State κ τ} {e e' : Env}, dropExtra s e k = .ok (s', e') →
    ShutOnceE e → ShutOnceE e' := by
  induction k with
  | zero =>
    intro s s' e e' h hs
    simp only [dropExtra, Except.ok.injEq, Prod.mk.injEq] at h
    obtain ⟨_, rfl⟩ := h; exact hs
  | succ k ih =>
    intro s s' e e' h hs
    simp only [dropExtra] at h
    split at h
    · cases h
    · exact ih h (shutOnceE_shutdown hs _)

theorem step_shutOnce (split : τ → κ) {s s' : State κ τ} {e e' : Env} {op : SOp τ} {r : Option τ}
    (h : step split s e op = .ok (s', e', r)) (hs : ShutOnceE e) : ShutOnceE e' := by
  cases op with
  | addNode n =>
    simp only [step] at h
    obtain ⟨s1, _, h2⟩ := map_ok.1 h
    simp at h2; obtain ⟨_, rfl, _⟩ := h2; exact hs
  | addNodeCollection n c =>
    simp only [step] at h
    obtain ⟨s1, _, h2⟩ := map_ok.1 h
    simp at h2; obtain ⟨_, rfl, _⟩ := h2; exact hs
  | schedule =>
    simp only [step] at h
    obtain ⟨⟨s1, e1⟩, h1, h2⟩ := map_ok.1 h
    simp at h2; obtain ⟨_, rfl, _⟩ := h2
    unfold schedule at h1
    split at h1
    · cases h1
    · split at h1
      · exact rescheduleAll_shutOnce _ h1 hs
      · split at h1
        · cases h1
        · rename_i first col rest _
          simp only at h1
          have hd : ShutOnceE { e with outs := e.outs ++ collectionDiffs first col rest } := by
            apply shutOnceE_append hs
            intro o ho m
            unfold collectionDiffs at ho
            obtain ⟨p, _, rfl⟩ := List.mem_map.1 ho
            simp
          split at h1
          · simp only [Except.ok.injEq, Prod.mk.injEq] at h1; obtain ⟨_, rfl⟩ := h1; exact hd
          · split at h1
            · simp only [Except.ok.injEq, Prod.mk.injEq] at h1; obtain ⟨_, rfl⟩ := h1; exact hd
            · obtain ⟨⟨s3, e3⟩, h3, h1⟩ := bind_ok.1 h1
              obtain ⟨⟨s4, e4⟩, h4, h1⟩ := bind_ok.1 h1
              obtain ⟨⟨s5, e5⟩, h5, h1⟩ := bind_ok.1 h1
              have a3 := dropExtra_shutOnce _ h3 hd
              have a4 := assignAll_shutOnce _ h4 a3
              have a5 := rescheduleAll_shutOnce _ h5 a4
              split at h1
              · simp only [Except.ok.injEq, Prod.mk.injEq] at h1; obtain ⟨_, rfl⟩ := h1
                exact shutOnceE_shutdownAll _ a5
              · simp only [Except.ok.injEq, Prod.mk.injEq] at h1; obtain ⟨_, rfl⟩ := h1
                exact a5
  | markComplete n i slow =>
    simp only [step] at h
    obtain ⟨⟨s1, e1⟩, h1, h2⟩ := map_ok.1 h
    simp at h2; obtain ⟨_, rfl, _⟩ := h2
    unfold markComplete at h1
    obtain ⟨col, _, h1⟩ := bind_ok.1 h1
    split at h1
    · cases h1
    · obtain ⟨w, _, h1⟩ := bind_ok.1 h1
      obtain ⟨wu, _, h1⟩ := bind_ok.1 h1
      exact reschedule_shutOnce h1 hs
  | markPending t => simp [step] at h
  | removePending n is => simp [step] at h
  | removeNode n =>
    simp only [step] at h
    unfold removeNode at h
    obtain ⟨⟨workload, asg⟩, _, h⟩ := bind_ok.1 h
    simp only at h
    split at h
    · simp only [Except.ok.injEq, Prod.mk.injEq] at h; obtain ⟨_, rfl, _⟩ := h; exact hs
    · split at h
      · cases h
      · obtain ⟨⟨s3, e3⟩, h3, h⟩ := bind_ok.1 h
        simp only [Except.ok.injEq, Prod.mk.injEq] at h
        obtain ⟨_, rfl, _⟩ := h
        exact rescheduleAll_shutOnce _ h3 hs

end LoadScope

/-- **every call of every scheduler keeps the shutdown discipline of the wire** (the six `--dist` modes) -/
theorem Sched.any_step_shutOnce (specs : AList Nat Nat) {a a' : Sched.Any} {e e' : Env} {op : SOp String} {r : Option String}
    (h : Sched.Any.step specs a e op = .ok (a', e', r)) (hs : ShutOnceE e) : ShutOnceE e' := by
  cases a with
  | nosched => simp [Sched.Any.step] at h
  | load s =>
    simp only [Sched.Any.step] at h
    obtain ⟨x, hx, h2⟩ := map_ok.1 h
    simp only [Prod.mk.injEq] at h2
    obtain ⟨_, rfl, _⟩ := h2
    exact Load.step_shutOnce (show Load.step s e op = .ok (x.1, x.2.1, x.2.2) from hx) hs
  | ws s =>
    simp only [Sched.Any.step] at h
    obtain ⟨x, hx, h2⟩ := map_ok.1 h
    simp only [Prod.mk.injEq] at h2
    obtain ⟨_, rfl, _⟩ := h2
    exact WorkSteal.step_shutOnce (show WorkSteal.step s e op = .ok (x.1, x.2.1, x.2.2) from hx) hs
  | scope m s =>
    simp only [Sched.Any.step] at h
    obtain ⟨x, hx, h2⟩ := map_ok.1 h
    simp only [Prod.mk.injEq] at h2
    obtain ⟨_, rfl, _⟩ := h2
    exact LoadScope.step_shutOnce _ (show LoadScope.step (Sched.splitOf m) s e op = .ok (x.1, x.2.1, x.2.2) from hx) hs
  | each s =>
    simp only [Sched.Any.step] at h
    obtain ⟨x, hx, h2⟩ := map_ok.1 h
    simp only [Prod.mk.injEq] at h2
    obtain ⟨_, rfl, _⟩ := h2
    exact Each.step_shutOnce _ (show Each.step _ s e op = .ok (x.1, x.2.1, x.2.2) from hx) hs

end Xdist
