import XdistProofs.Props.C08
/-!
  `--dist each`, every history of scheduler calls: **the collection is complete only when `numnodes` registered nodes have
  reported theirs** — the collection of a node that is gone does not count — and the first `schedule()` then books the whole
  collection for every one of them and tells each that is still reachable to run everything.

  (Before the repair of `remove_node`, a worker that died after it had reported its collection was still counted; the tests
  were handed out one report early and an original worker reporting later was shut down as a late node: its environment ran
  nothing.)
-/

namespace Xdist.Each
open Xdist

variable {τ : Type} [DecidableEq τ]

/-- what is reachable by scheduler calls; between two calls the environment (the nodes' flags: a worker goes down, the session
    sends a shutdown) may change in any way -/
inductive Reach (spec : Nat → Nat) (numnodes : Nat) : State τ → Env → Prop where
  | init (e : Env) : Reach spec numnodes (init numnodes) e
  | env {s : State τ} {e : Env} (e' : Env) : Reach spec numnodes s e → Reach spec numnodes s e'
  | step {s s' : State τ} {e e' : Env} {r : Option τ} (op : SOp τ) : Reach spec numnodes s e →
      step spec s e op = .ok (s', e', r) → Reach spec numnodes s' e'

structure EInv (s : State τ) : Prop where
  ndP : (AList.keys s.node2pending).Nodup
  ndC : (AList.keys s.node2collection).Nodup
  /-- until the collection is complete, the collections counted are those of registered nodes -/
  sub : s.completed = false → ∀ n ∈ AList.keys s.node2collection, n ∈ AList.keys s.node2pending
  /-- until the collection is complete nothing has been handed out -/
  books : s.completed = false → ∀ n b, AList.lookup s.node2pending n = some b → b = []
  parked : s.completed = false → s.removed2pending = []
  started : s.completed = false → s.started = []

theorem einv_completed {s : State τ} (hP : (AList.keys s.node2pending).Nodup) (hC : (AList.keys s.node2collection).Nodup)
    (hc : s.completed = true) : EInv s :=
  { ndP := hP, ndC := hC, sub := fun h => by simp [hc] at h, books := fun h => by simp [hc] at h,
    parked := fun h => by simp [hc] at h, started := fun h => by simp [hc] at h }

theorem init_einv (numnodes : Nat) : EInv (init numnodes : State τ) :=
  { ndP := by simp [init, AList.keys]
    ndC := by simp [init, AList.keys]
    sub := by intro _ n hn; simp [init, AList.keys] at hn
    books := by intro _ n b hb; simp [init] at hb
    parked := by intro _; rfl
    started := by intro _; rfl }

/-- what is put on the wire by `node.send_…` as the loop of `schedule()` does it: nothing for a node that is down -/
def afterSend (e : Env) (n : Nat) (o : SOut) : Env :=
  if e.flags.shuttingDown n then e else if (e.flags.get n).broken then e else e.emit o

/-- one pass of the loop in `schedule()` over a node that is dealt with -/
theorem scheduleLoop_cons (s : State τ) (e : Env) (n : Nat) (t : List Nat) (book : List Nat)
    (hs : s.started.contains n = false) (hcc : s.node2collection.contains n = true)
    (hget : s.node2pending.get n = .ok book) :
    scheduleLoop s e (n :: t) =
      if book.isEmpty then
        match s.node2collection.get n with
        | .ok col =>
          scheduleLoop { s with node2pending := s.node2pending.set n (List.range col.length), started := s.started ++ [n] }
            ((afterSend e n (.runAll n)).shutdown n) t
        | .error err => .error err
      else scheduleLoop { s with started := s.started ++ [n] } (afterSend e n (.run n book)) t := by
  rw [scheduleLoop]
  simp only [hs, Bool.false_eq_true, ↓reduceIte, hcc, Bool.not_true]
  cases hb : book.isEmpty <;> cases hg : s.node2collection.get n <;> cases hsd : e.flags.shuttingDown n <;>
    cases hbr : (e.flags.get n).broken <;>
    simp [hget, hb, hg, hsd, hbr, bind, Except.bind, pure, Except.pure, Env.sendRunAll, Env.sendRun, Env.send, afterSend]

theorem scheduleLoop_keeps (l : List Nat) : ∀ (s s' : State τ) (e e' : Env), scheduleLoop s e l = .ok (s', e') →
    (AList.keys s.node2pending).Nodup →
    (AList.keys s'.node2pending).Nodup ∧ s'.node2collection = s.node2collection ∧ s'.completed = s.completed ∧
      s'.numnodes = s.numnodes := by
  induction l with
  | nil =>
    intro s s' e e' h hn
    simp only [scheduleLoop, Except.ok.injEq, Prod.mk.injEq] at h
    obtain ⟨rfl, rfl⟩ := h
    exact ⟨hn, rfl, rfl, rfl⟩
  | cons n t ih =>
    intro s s' e e' h hn
    by_cases hs : s.started.contains n = true
    · rw [Props.C08.C08_schedule_skips s e n t (Or.inl hs)] at h
      exact ih s s' e e' h hn
    by_cases hcc : s.node2collection.contains n = false
    · rw [Props.C08.C08_schedule_skips s e n t (Or.inr hcc)] at h
      exact ih s s' e e' h hn
    simp only [Bool.not_eq_true] at hs
    simp only [Bool.not_eq_false] at hcc
    cases hget : s.node2pending.get n with
    | error err =>
      rw [scheduleLoop] at h
      have hs' : n ∉ s.started := by simpa using hs
      simp [hs', hcc, hget, bind, Except.bind] at h
    | ok book =>
      rw [scheduleLoop_cons s e n t book hs hcc hget] at h
      split at h
      · split at h
        · obtain ⟨a, b, c, d⟩ := ih _ s' _ e' h (AList.nodup_keys_set _ _ _ hn)
          exact ⟨a, b, c, d⟩
        · cases h
      · obtain ⟨a, b, c, d⟩ := ih _ s' _ e' h hn
        exact ⟨a, b, c, d⟩

theorem takeOver_keeps (spec : Nat → Nat) (s : State τ) (e : Env) (n : Nat) (c : List τ) (hc : s.completed = true)
    (hi : EInv s) : ∀ (l : AList Nat (List Nat)) (s' : State τ) (e' : Env), takeOver spec s e n c l = .ok (s', e') →
    EInv s' := by
  intro l
  induction l with
  | nil =>
    intro s' e' h
    simp only [takeOver, nothingToTakeOver, Except.ok.injEq, Prod.mk.injEq] at h
    obtain ⟨rfl, _⟩ := h
    exact { ndP := hi.ndP, ndC := hi.ndC, sub := fun h => by simp [hc] at h, books := fun h => by simp [hc] at h,
            parked := fun h => by simp [hc] at h, started := fun h => by simp [hc] at h }
  | cons p t ih =>
    intro s' e' h
    obtain ⟨dead, pend⟩ := p
    simp only [takeOver] at h
    split at h
    · obtain ⟨deadCol, _, h⟩ := bind_ok.1 h
      split at h
      · simp only [nothingToTakeOver, Except.ok.injEq, Prod.mk.injEq] at h
        obtain ⟨rfl, _⟩ := h
        exact { ndP := hi.ndP, ndC := hi.ndC, sub := fun h => by simp [hc] at h, books := fun h => by simp [hc] at h,
                parked := fun h => by simp [hc] at h, started := fun h => by simp [hc] at h }
      · simp only [Except.ok.injEq, Prod.mk.injEq] at h
        obtain ⟨rfl, _⟩ := h
        exact { ndP := AList.nodup_keys_set _ _ _ hi.ndP, ndC := AList.nodup_keys_set _ _ _ hi.ndC,
                sub := fun h => by simp [hc] at h, books := fun h => by simp [hc] at h,
                parked := fun h => by simp [hc] at h, started := fun h => by simp [hc] at h }
    · exact ih s' e' h

theorem step_einv (spec : Nat → Nat) {s s' : State τ} {e e' : Env} {r : Option τ} (op : SOp τ) (hi : EInv s)
    (h : step spec s e op = .ok (s', e', r)) : EInv s' := by
  cases op with
  | addNode n =>
    simp only [step] at h
    obtain ⟨s1, h1, h2⟩ := map_ok.1 h
    simp only [Prod.mk.injEq] at h2
    obtain ⟨rfl, _⟩ := h2
    unfold addNode at h1
    split at h1
    · cases h1
    · simp only [Except.ok.injEq] at h1
      subst h1
      exact { ndP := AList.nodup_keys_set _ _ _ hi.ndP
              ndC := hi.ndC
              sub := fun hc m hm => (AList.mem_keys_set _ _ _ _).2 (Or.inr (hi.sub hc m hm))
              books := by
                intro hc m b hb
                simp only [AList.lookup_set] at hb
                split at hb
                · cases hb; rfl
                · exact hi.books hc m b hb
              parked := hi.parked
              started := hi.started }
  | addNodeCollection n c =>
    simp only [step] at h
    obtain ⟨⟨s1, e1⟩, h1, h2⟩ := map_ok.1 h
    simp only [Prod.mk.injEq] at h2
    obtain ⟨rfl, _⟩ := h2
    unfold addNodeCollection at h1
    split at h1
    · cases h1
    rename_i hreg
    split at h1
    · rename_i hcomp
      simp only [Bool.not_eq_eq_eq_not, Bool.not_true] at hcomp
      simp only [Except.ok.injEq, Prod.mk.injEq] at h1
      obtain ⟨rfl, _⟩ := h1
      have hn : n ∈ AList.keys s.node2pending := by
        rw [← AList.lookup_isSome_iff_mem_keys]
        cases hl : AList.lookup s.node2pending n with
        | some v => rfl
        | none => simp [AList.contains, hl] at hreg
      exact { ndP := AList.nodup_keys_set _ _ _ hi.ndP
              ndC := AList.nodup_keys_set _ _ _ hi.ndC
              sub := by
                intro _ m hm
                rw [AList.mem_keys_set] at hm ⊢
                rcases hm with rfl | hm
                · exact Or.inl rfl
                · exact Or.inr (hi.sub hcomp m hm)
              books := by
                intro _ m b hb
                simp only [AList.lookup_set] at hb
                split at hb
                · cases hb; rfl
                · exact hi.books hcomp m b hb
              parked := fun _ => hi.parked hcomp
              started := fun _ => hi.started hcomp }
    · rename_i hcomp
      simp only [Bool.not_eq_eq_eq_not, Bool.not_true, Bool.not_eq_false] at hcomp
      exact takeOver_keeps spec s e n c hcomp hi _ _ _ h1
  | schedule =>
    simp only [step] at h
    obtain ⟨⟨s1, e1⟩, h1, h2⟩ := map_ok.1 h
    simp only [Prod.mk.injEq] at h2
    obtain ⟨rfl, _⟩ := h2
    unfold schedule at h1
    split at h1
    · cases h1
    rename_i hcomp
    simp only [Bool.not_eq_eq_eq_not, Bool.not_true, Bool.not_eq_false] at hcomp
    obtain ⟨a, b, c, _⟩ := scheduleLoop_keeps _ _ _ _ _ h1 hi.ndP
    have hc' : s1.completed = true := c.trans hcomp
    exact { ndP := a, ndC := by rw [b]; exact hi.ndC, sub := fun h => by simp [hc'] at h,
            books := fun h => by simp [hc'] at h, parked := fun h => by simp [hc'] at h,
            started := fun h => by simp [hc'] at h }
  | markComplete n i d =>
    simp only [step] at h
    obtain ⟨s1, h1, h2⟩ := map_ok.1 h
    simp only [Prod.mk.injEq] at h2
    obtain ⟨rfl, _⟩ := h2
    unfold markComplete at h1
    obtain ⟨book, hb, h1⟩ := bind_ok.1 h1
    obtain ⟨book', hb', h1⟩ := bind_ok.1 h1
    simp only [Except.ok.injEq] at h1
    subst h1
    have hcomp : s.completed = true := by
      cases hc : s.completed with
      | true => rfl
      | false =>
        have := hi.books hc n book (AList.get_eq_ok.1 hb)
        subst this
        simp [PyList.remove] at hb'
    exact { ndP := AList.nodup_keys_set _ _ _ hi.ndP, ndC := hi.ndC, sub := fun h => by simp [hcomp] at h,
            books := fun h => by simp [hcomp] at h, parked := fun h => by simp [hcomp] at h,
            started := fun h => by simp [hcomp] at h }
  | markPending t => simp [step] at h
  | removePending n is => simp [step] at h
  | removeNode n =>
    simp only [step] at h
    obtain ⟨⟨s1, r1⟩, h1, h2⟩ := map_ok.1 h
    simp only [Prod.mk.injEq] at h2
    obtain ⟨rfl, _⟩ := h2
    unfold removeNode at h1
    obtain ⟨⟨book, n2p⟩, hp, h1⟩ := bind_ok.1 h1
    obtain ⟨hlk, rfl⟩ := AList.pop_eq_ok.1 hp
    simp only at h1
    cases hc : s.completed with
    | true =>
      simp only [hc, ↓reduceIte] at h1
      cases book with
      | nil =>
        simp only [Except.ok.injEq, Prod.mk.injEq] at h1
        obtain ⟨rfl, _⟩ := h1
        exact einv_completed (AList.nodup_keys_erase _ _ hi.ndP) hi.ndC rfl
      | cons i rest =>
        simp only at h1
        obtain ⟨col, _, h1⟩ := bind_ok.1 h1
        split at h1
        · cases h1
        · simp only [Except.ok.injEq, Prod.mk.injEq] at h1
          obtain ⟨rfl, _⟩ := h1
          split
          · exact einv_completed (AList.nodup_keys_erase _ _ hi.ndP) hi.ndC rfl
          · exact einv_completed (AList.nodup_keys_erase _ _ hi.ndP) hi.ndC rfl
    | false =>
      have hbk := hi.books hc n book hlk
      subst hbk
      simp only [hc, Bool.false_eq_true, ↓reduceIte, Except.ok.injEq, Prod.mk.injEq] at h1
      obtain ⟨rfl, _⟩ := h1
      exact { ndP := AList.nodup_keys_erase _ _ hi.ndP
              ndC := AList.nodup_keys_erase _ _ hi.ndC
              sub := by
                intro _ m hm
                have hmn : m ≠ n := by
                  intro hh; subst hh
                  exact AList.not_mem_keys_erase_self _ _ hi.ndC hm
                have := hi.sub hc m (AList.mem_keys_of_mem_keys_erase _ _ _ hm)
                rw [AList.keys_erase]
                exact (List.mem_erase_of_ne hmn).2 this
              books := by
                intro _ m b hb
                by_cases hmn : m = n
                · subst hmn
                  rw [AList.lookup_erase_same _ _ hi.ndP] at hb; cases hb
                · rw [AList.lookup_erase_other _ _ _ hmn] at hb
                  exact hi.books hc m b hb
              parked := fun _ => hi.parked hc
              started := fun _ => hi.started hc }

theorem reach_einv (spec : Nat → Nat) (numnodes : Nat) {s : State τ} {e : Env} (h : Reach spec numnodes s e) : EInv s := by
  induction h with
  | init e => exact init_einv numnodes
  | env e' _ ih => exact ih
  | step op _ hs ih => exact step_einv spec op ih hs

theorem step_numnodes (spec : Nat → Nat) {s s' : State τ} {e e' : Env} {r : Option τ} (op : SOp τ) (hi : EInv s)
    (h : step spec s e op = .ok (s', e', r)) : s'.numnodes = s.numnodes := by
  cases op with
  | addNode n =>
    simp only [step] at h
    obtain ⟨s2, h1, h2⟩ := map_ok.1 h
    simp only [Prod.mk.injEq] at h2
    obtain ⟨rfl, _⟩ := h2
    unfold addNode at h1
    split at h1
    · cases h1
    · simp only [Except.ok.injEq] at h1; subst h1; rfl
  | addNodeCollection n c =>
    simp only [step] at h
    obtain ⟨⟨s2, e2⟩, h1, h2⟩ := map_ok.1 h
    simp only [Prod.mk.injEq] at h2
    obtain ⟨rfl, _⟩ := h2
    unfold addNodeCollection at h1
    split at h1
    · cases h1
    split at h1
    · simp only [Except.ok.injEq, Prod.mk.injEq] at h1
      obtain ⟨rfl, _⟩ := h1; rfl
    · have : ∀ (l : AList Nat (List Nat)) (s' : State τ) (e' : Env), takeOver spec s e n c l = .ok (s', e') →
          s'.numnodes = s.numnodes := by
        intro l
        induction l with
        | nil =>
          intro s' e' h
          simp only [takeOver, nothingToTakeOver, Except.ok.injEq, Prod.mk.injEq] at h
          obtain ⟨rfl, _⟩ := h; rfl
        | cons p t ih2 =>
          intro s' e' h
          obtain ⟨dead, pend⟩ := p
          simp only [takeOver] at h
          split at h
          · obtain ⟨deadCol, _, h⟩ := bind_ok.1 h
            split at h
            · simp only [nothingToTakeOver, Except.ok.injEq, Prod.mk.injEq] at h
              obtain ⟨rfl, _⟩ := h; rfl
            · simp only [Except.ok.injEq, Prod.mk.injEq] at h
              obtain ⟨rfl, _⟩ := h; rfl
          · exact ih2 s' e' h
      exact this _ _ _ h1
  | schedule =>
    simp only [step] at h
    obtain ⟨⟨s2, e2⟩, h1, h2⟩ := map_ok.1 h
    simp only [Prod.mk.injEq] at h2
    obtain ⟨rfl, _⟩ := h2
    unfold schedule at h1
    split at h1
    · cases h1
    exact (scheduleLoop_keeps _ _ _ _ _ h1 hi.ndP).2.2.2
  | markComplete n i d =>
    simp only [step] at h
    obtain ⟨s2, h1, h2⟩ := map_ok.1 h
    simp only [Prod.mk.injEq] at h2
    obtain ⟨rfl, _⟩ := h2
    unfold markComplete at h1
    obtain ⟨book, hb, h1⟩ := bind_ok.1 h1
    obtain ⟨book', hb', h1⟩ := bind_ok.1 h1
    simp only [Except.ok.injEq] at h1
    subst h1; rfl
  | markPending t => simp [step] at h
  | removePending n is => simp [step] at h
  | removeNode n =>
    simp only [step] at h
    obtain ⟨⟨s2, r2⟩, h1, h2⟩ := map_ok.1 h
    simp only [Prod.mk.injEq] at h2
    obtain ⟨rfl, _⟩ := h2
    unfold removeNode at h1
    obtain ⟨⟨book, n2p⟩, hp, h1⟩ := bind_ok.1 h1
    simp only at h1
    cases book with
    | nil =>
      simp only [Except.ok.injEq, Prod.mk.injEq] at h1
      obtain ⟨rfl, _⟩ := h1; rfl
    | cons i rest =>
      simp only at h1
      obtain ⟨col, _, h1⟩ := bind_ok.1 h1
      split at h1
      · cases h1
      · simp only [Except.ok.injEq, Prod.mk.injEq] at h1
        obtain ⟨rfl, _⟩ := h1
        split <;> rfl


theorem reach_numnodes (spec : Nat → Nat) (numnodes : Nat) {s : State τ} {e : Env} (h : Reach spec numnodes s e) :
    s.numnodes = numnodes := by
  induction h with
  | init e => rfl
  | env e' _ ih => exact ih
  | step op hr hs ih => rw [← ih]; exact step_numnodes spec op (reach_einv spec numnodes hr) hs

/-- pigeonhole for duplicate-free lists -/
theorem subset_of_nodup_length {l₁ l₂ : List Nat} (h₁ : l₁.Nodup) (hsub : ∀ x ∈ l₁, x ∈ l₂)
    (hlen : l₂.length ≤ l₁.length) : ∀ x ∈ l₂, x ∈ l₁ := by
  intro x hx
  apply Classical.byContradiction
  intro hnx
  have hsub' : l₁ ⊆ l₂.erase x := by
    intro y hy
    have hyx : y ≠ x := fun hh => hnx (hh ▸ hy)
    exact (List.mem_erase_of_ne hyx).2 (hsub y hy)
  have := List.Nodup.length_le_of_subset h₁ hsub'
  rw [List.length_erase] at this
  simp only [hx, ↓reduceIte] at this
  have : 0 < l₂.length := List.length_pos_of_mem hx
  omega

/-- **The collection is complete only when every registered node has reported its own** (as long as the session keeps at
    most `numnodes` nodes registered — one replacement per dead worker): whatever happened before — workers dying after
    they reported, replacements joining —, at the moment `collection_is_completed` becomes true there is no registered node
    whose collection is still missing, so no original worker can later be mistaken for a late node. -/
theorem C08_each_complete_means_all_reported (spec : Nat → Nat) (numnodes : Nat) {s s' : State τ} {e e' : Env}
    (hr : Reach spec numnodes s e) (hlen : (nodes s).length ≤ numnodes) (hc : s.completed = false)
    {n : Nat} {c : List τ} (h : addNodeCollection spec s e n c = .ok (s', e')) (hc' : s'.completed = true) :
    (∀ m ∈ nodes s', s'.node2collection.contains m = true) ∧ e' = e ∧ s'.started = [] ∧ s'.removed2pending = [] ∧
      (∀ m b, AList.lookup s'.node2pending m = some b → b = []) := by
  have hi := reach_einv spec numnodes hr
  have hnn := reach_numnodes spec numnodes hr
  have hi' : EInv s' := step_einv spec (e := e) (e' := e') (r := none) (.addNodeCollection n c) hi (by simp [step, h, Except.map])
  unfold addNodeCollection at h
  split at h
  · cases h
  rename_i hreg
  simp only [hc, Bool.not_false, ↓reduceIte, Except.ok.injEq, Prod.mk.injEq] at h
  obtain ⟨rfl, rfl⟩ := h
  simp only [decide_eq_true_eq] at hc'
  have hn : n ∈ AList.keys s.node2pending := by
    rw [← AList.lookup_isSome_iff_mem_keys]
    cases hl : AList.lookup s.node2pending n with
    | some v => rfl
    | none => simp [AList.contains, hl] at hreg
  have hkeysP : AList.keys (AList.set s.node2pending n []) = AList.keys s.node2pending :=
    AList.keys_set_of_mem _ _ _ ((AList.lookup_isSome_iff_mem_keys _ _).2 hn)
  have hsubC : ∀ m ∈ AList.keys (AList.set s.node2collection n c), m ∈ AList.keys s.node2pending := by
    intro m hm
    rw [AList.mem_keys_set] at hm
    rcases hm with rfl | hm
    · exact hn
    · exact hi.sub hc m hm
  refine ⟨?_, rfl, hi.started hc, hi.parked hc, ?_⟩
  · intro m hm
    simp only [nodes, hkeysP] at hm
    have := subset_of_nodup_length (AList.nodup_keys_set _ n c hi.ndC) hsubC
      (by rw [AList.length_keys, AList.length_keys]; simp only [nodes, AList.length_keys] at hlen; omega) m hm
    simpa [AList.contains] using (AList.lookup_isSome_iff_mem_keys _ _).2 this
  · intro m b hb
    simp only [AList.lookup_set] at hb
    split at hb
    · cases hb; rfl
    · exact hi.books hc m b hb

theorem shutdown_flags_other (e : Env) (n k : Nat) (h : k ≠ n) : (e.shutdown n).flags.get k = e.flags.get k := by
  unfold Env.shutdown
  simp only
  split
  · rfl
  · simp only [Flags.get, AList.lookup_set_other _ n k _ h]

theorem shutdown_outs_mono (e : Env) (n : Nat) {o : SOut} (h : o ∈ e.outs) : o ∈ (e.shutdown n).outs := by
  unfold Env.shutdown
  simp only
  split
  · exact h
  · split
    · exact h
    · exact List.mem_append_left _ h

theorem afterSend_flags (e : Env) (n : Nat) (o : SOut) : (afterSend e n o).flags = e.flags := by
  unfold afterSend; split
  · rfl
  · split <;> rfl

theorem afterSend_outs_mono (e : Env) (n : Nat) (o : SOut) {x : SOut} (h : x ∈ e.outs) : x ∈ (afterSend e n o).outs := by
  unfold afterSend; split
  · exact h
  · split
    · exact h
    · exact List.mem_append_left _ h

theorem afterSend_sent (e : Env) (n : Nat) (o : SOut) (hsd : e.flags.shuttingDown n = false)
    (hbr : (e.flags.get n).broken = false) : o ∈ (afterSend e n o).outs := by
  unfold afterSend
  simp [hsd, hbr, Env.emit]

/-- the first `schedule()` over nodes that have nothing booked yet: every one of them is booked its whole collection and,
    unless it is already down, is told to run everything -/
theorem firstLoop (l : List Nat) : ∀ (s : State τ) (e : Env), l.Nodup →
    (∀ m ∈ l, s.started.contains m = false ∧ AList.lookup s.node2pending m = some [] ∧
      ∃ col, AList.lookup s.node2collection m = some col) →
    ∃ s' e', scheduleLoop s e l = .ok (s', e') ∧ s'.node2collection = s.node2collection ∧
      (∀ k, k ∉ l → AList.lookup s'.node2pending k = AList.lookup s.node2pending k) ∧
      (∀ m ∈ l, ∀ col, AList.lookup s.node2collection m = some col →
        AList.lookup s'.node2pending m = some (List.range col.length)) ∧
      (∀ o ∈ e.outs, o ∈ e'.outs) ∧
      (∀ m ∈ l, e.flags.shuttingDown m = false → (e.flags.get m).broken = false → SOut.runAll m ∈ e'.outs) := by
  induction l with
  | nil =>
    intro s e _ _
    exact ⟨s, e, rfl, rfl, fun _ _ => rfl, (by intro m hm; cases hm), fun o ho => ho, (by intro m hm; cases hm)⟩
  | cons n t ih =>
    intro s e hnd hall
    obtain ⟨hnt, hndt⟩ := List.nodup_cons.1 hnd
    obtain ⟨hs, hb, col, hc⟩ := hall n (by simp)
    have hcc : s.node2collection.contains n = true := by simp [AList.contains, hc]
    rw [scheduleLoop_cons s e n t [] hs hcc (AList.get_eq_ok.2 hb)]
    simp only [List.isEmpty_nil, ↓reduceIte, AList.get_eq_ok.2 hc]
    have hne : ∀ m ∈ t, m ≠ n := fun m hm hh => hnt (hh ▸ hm)
    obtain ⟨s', e', hl, hcol, hframe, hbook, hmono, hrun⟩ := ih
      ({ s with node2pending := s.node2pending.set n (List.range col.length), started := s.started ++ [n] })
      ((afterSend e n (.runAll n)).shutdown n) hndt (by
        intro m hm
        obtain ⟨a, b, c⟩ := hall m (List.mem_cons_of_mem _ hm)
        refine ⟨?_, ?_, c⟩
        · simp only [List.contains_eq_mem, List.mem_append, List.mem_singleton, decide_eq_false_iff_not, not_or]
          exact ⟨by simpa using a, hne m hm⟩
        · simp only [AList.lookup_set_other _ n m _ (hne m hm)]; exact b)
    refine ⟨s', e', hl, hcol, ?_, ?_, ?_, ?_⟩
    · intro k hk
      simp only [List.mem_cons, not_or] at hk
      rw [hframe k hk.2]
      simp only [AList.lookup_set_other _ n k _ hk.1]
    · intro m hm c' hc'
      rcases List.mem_cons.1 hm with rfl | hm
      · rw [hframe m hnt]
        rw [hc] at hc'; cases hc'
        simp
      · exact hbook m hm c' hc'
    · intro o ho
      exact hmono o (shutdown_outs_mono _ _ (afterSend_outs_mono _ _ _ ho))
    · intro m hm hsd hbr
      rcases List.mem_cons.1 hm with rfl | hm
      · exact hmono _ (shutdown_outs_mono _ _ (afterSend_sent e m _ hsd hbr))
      · apply hrun m hm
        · unfold Flags.shuttingDown at hsd ⊢
          rw [shutdown_flags_other _ _ _ (hne m hm), afterSend_flags]; exact hsd
        · rw [shutdown_flags_other _ _ _ (hne m hm), afterSend_flags]; exact hbr

/-- **With `--dist each` every environment is handed every test of its collection.**  For every history of scheduler calls
    (workers dying and being replaced while the collections come in, in any order), as long as the session keeps at most
    `numnodes` nodes registered: when the last missing collection arrives, `schedule()` succeeds, books for every registered
    node its whole collection, and tells every node that is not already down to run all of it. -/
theorem C08_each_every_environment_gets_everything (spec : Nat → Nat) (numnodes : Nat) {s s1 : State τ} {e e1 : Env}
    (hr : Reach spec numnodes s e) (hlen : (nodes s).length ≤ numnodes) (hc : s.completed = false)
    {n : Nat} {c : List τ} (h : addNodeCollection spec s e n c = .ok (s1, e1)) (hc1 : s1.completed = true) :
    ∃ s2 e2, schedule s1 e1 = .ok (s2, e2) ∧
      ∀ m ∈ nodes s1, ∃ col, AList.lookup s1.node2collection m = some col ∧
        AList.lookup s2.node2pending m = some (List.range col.length) ∧
        (e1.flags.shuttingDown m = false → (e1.flags.get m).broken = false → SOut.runAll m ∈ e2.outs) := by
  obtain ⟨hall, _, hst, _, hbooks⟩ := C08_each_complete_means_all_reported spec numnodes hr hlen hc h hc1
  have hi1 : EInv s1 := step_einv spec (e := e) (e' := e1) (r := none) (.addNodeCollection n c) (reach_einv spec numnodes hr)
    (by simp [step, h, Except.map])
  have hcol : ∀ m ∈ nodes s1, ∃ col, AList.lookup s1.node2collection m = some col := by
    intro m hm
    have := hall m hm
    simp only [AList.contains] at this
    cases hl : AList.lookup s1.node2collection m with
    | none => rw [hl] at this; cases this
    | some col => exact ⟨col, rfl⟩
  obtain ⟨s2, e2, hl, _, _, hbook, _, hrun⟩ := firstLoop (nodes s1) s1 e1 hi1.ndP (by
    intro m hm
    refine ⟨by simp [hst], ?_, hcol m hm⟩
    have hm' : (AList.lookup s1.node2pending m).isSome := (AList.lookup_isSome_iff_mem_keys _ _).2 hm
    cases hl : AList.lookup s1.node2pending m with
    | none => rw [hl] at hm'; cases hm'
    | some b => rw [hbooks m b hl])
  refine ⟨s2, e2, by simp [schedule, hc1, hl], ?_⟩
  intro m hm
  obtain ⟨col, hcm⟩ := hcol m hm
  exact ⟨col, hcm, hbook m hm col hcm, hrun m hm⟩

/-- Non-vacuity, and the history that used to go wrong: two environments; gw0 reports its collection and dies before gw1 has
    reported; its replacement gw2 reports — the collection is *not* complete yet; when gw1 reports, it is, and both gw2 and gw1
    are told to run everything. -/
example :
    let spec : Nat → Nat := fun _ => 0
    let run := fun (s : State Nat) (e : Env) (ops : List (SOp Nat)) =>
      ops.foldlM (fun (p : State Nat × Env) op => (step spec p.1 p.2 op).map (fun r => (r.1, r.2.1))) (s, e)
    (∃ s e, run (init 2) {} [.addNode 0, .addNode 1, .addNodeCollection 0 [7, 8, 9], .removeNode 0, .addNode 2,
        .addNodeCollection 2 [7, 8, 9]] = .ok (s, e) ∧ s.completed = false ∧ (nodes s).length ≤ 2) ∧
    (∃ s e, run (init 2) {} [.addNode 0, .addNode 1, .addNodeCollection 0 [7, 8, 9], .removeNode 0, .addNode 2,
        .addNodeCollection 2 [7, 8, 9], .addNodeCollection 1 [7, 8, 9], .schedule] = .ok (s, e) ∧
      e.outs = [.runAll 1, .shutdown 1, .runAll 2, .shutdown 2]) := by
  refine ⟨⟨_, _, rfl, ?_⟩, ⟨_, _, rfl, ?_⟩⟩ <;> decide

end Xdist.Each
