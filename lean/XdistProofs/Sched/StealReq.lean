import XdistModel.Sched.WorkSteal
import XdistProofs.Lemmas.AList
import XdistProofs.Lemmas.Except
/-!
  C07, controller side, every history of scheduler calls: **an outstanding withdrawal request always names a worker the scheduler still
  knows** — so it is cleared either by that worker's answer (`remove_pending_tests_from_node`) or by its removal (`remove_node`
  resets it): a request cannot dangle on a forgotten worker and block `tests_finished` for ever.
-/
namespace Xdist.WorkSteal
open Xdist

set_option linter.unusedSectionVars false

variable {τ : Type} [DecidableEq τ]

def SR (s : State τ) : Prop := ∀ v, s.stealReq = some v → v ∈ AList.keys s.node2pending

theorem maxBy_mem : ∀ {l : AList Nat (List Nat)} {p : Nat × List Nat}, maxBy l = some p → p ∈ l := by
  intro l
  induction l with
  | nil => intro p h; simp [maxBy] at h
  | cons a t ih =>
    intro p h
    simp only [maxBy] at h
    split at h
    · simp only [Option.some.injEq] at h; subst h; exact List.mem_cons_self
    · rename_i q hq
      split at h
      · simp only [Option.some.injEq] at h; subst h; exact List.mem_cons_of_mem _ (ih hq)
      · simp only [Option.some.injEq] at h; subst h; exact List.mem_cons_self

theorem sendTests_sr {s s' : State τ} {e e' : Env} {n num : Nat} (h : sendTests s e n num = .ok (s', e')) (hi : SR s) :
    SR s' ∧ ∀ v, v ∈ AList.keys s.node2pending → v ∈ AList.keys s'.node2pending := by
  unfold sendTests at h
  simp only at h
  split at h
  · simp only [Except.ok.injEq, Prod.mk.injEq] at h; obtain ⟨rfl, _⟩ := h; exact ⟨hi, fun v hv => hv⟩
  · obtain ⟨book, _, h⟩ := bind_ok.1 h
    obtain ⟨e1, _, h⟩ := bind_ok.1 h
    simp only [Except.ok.injEq, Prod.mk.injEq] at h
    obtain ⟨rfl, _⟩ := h
    have hk : ∀ v, v ∈ AList.keys s.node2pending → v ∈ AList.keys (AList.set s.node2pending n (book ++ List.take num s.pending)) :=
      fun v hv => (AList.mem_keys_set _ _ _ _).2 (Or.inr hv)
    exact ⟨fun v hv => hk v (hi v hv), hk⟩

theorem distribute_sr (l : List Nat) : ∀ {s s' : State τ} {e e' : Env}, distribute s e l = .ok (s', e') → SR s →
    SR s' ∧ ∀ v, v ∈ AList.keys s.node2pending → v ∈ AList.keys s'.node2pending := by
  induction l with
  | nil =>
    intro s s' e e' h hi
    simp only [distribute, Except.ok.injEq, Prod.mk.injEq] at h
    obtain ⟨rfl, _⟩ := h; exact ⟨hi, fun v hv => hv⟩
  | cons n t ih =>
    intro s s' e e' h hi
    simp only [distribute] at h
    obtain ⟨⟨s1, e1⟩, h1, h2⟩ := bind_ok.1 h
    obtain ⟨a1, a2⟩ := sendTests_sr h1 hi
    obtain ⟨b1, b2⟩ := ih h2 a1
    exact ⟨b1, fun v hv => b2 v (a2 v hv)⟩

theorem stealOrShutdown_sr {s1 s' : State τ} {e1 e' : Env} {up1 : AList Nat (List Nat)} {idle1 : List Nat}
    (h : stealOrShutdown s1 e1 up1 idle1 = .ok (s', e')) (hi : SR s1) (hup : ∀ p ∈ up1, p.1 ∈ AList.keys s1.node2pending) : SR s' := by
  unfold stealOrShutdown at h
  split at h
  · simp only [Except.ok.injEq, Prod.mk.injEq] at h; obtain ⟨rfl, _⟩ := h; exact hi
  · split at h
    · simp only [Except.ok.injEq, Prod.mk.injEq] at h; obtain ⟨rfl, _⟩ := h; exact hi
    · rename_i victim book hmax
      simp only at h
      split at h
      · simp only [Except.ok.injEq, Prod.mk.injEq] at h; obtain ⟨rfl, _⟩ := h; exact hi
      · obtain ⟨e2, _, h⟩ := bind_ok.1 h
        simp only [Except.ok.injEq, Prod.mk.injEq] at h
        obtain ⟨rfl, _⟩ := h
        intro v hv
        simp only [Option.some.injEq] at hv
        subst hv
        exact hup _ (maxBy_mem hmax)

theorem nodesUp_keys (s : State τ) (e : Env) : ∀ p ∈ nodesUp s e, p.1 ∈ AList.keys s.node2pending := by
  intro p hp
  unfold nodesUp at hp
  exact List.mem_map.2 ⟨p, (List.mem_filter.1 hp).1, rfl⟩

theorem checkSchedule_sr {s s' : State τ} {e e' : Env} (h : checkSchedule s e = .ok (s', e')) (hi : SR s) : SR s' := by
  unfold checkSchedule at h
  split at h
  · simp only [Except.ok.injEq, Prod.mk.injEq] at h; obtain ⟨rfl, _⟩ := h; exact hi
  · simp only at h
    split at h
    · simp only [Except.ok.injEq, Prod.mk.injEq] at h; obtain ⟨rfl, _⟩ := h; exact hi
    · split at h
      · exact stealOrShutdown_sr h hi (nodesUp_keys s e)
      · obtain ⟨r, hr, h⟩ := bind_ok.1 h
        obtain ⟨a1, _⟩ := distribute_sr _ (show distribute s e _ = .ok (r.1, r.2) from hr) hi
        split at h
        · simp only [Except.ok.injEq, Prod.mk.injEq] at h; obtain ⟨rfl, _⟩ := h; exact a1
        · exact stealOrShutdown_sr h a1 (nodesUp_keys r.1 e)

/-- **An outstanding request names a known worker, whatever the scheduler is asked to do.** -/
theorem step_sr {s s' : State τ} {e e' : Env} {op : SOp τ} {r : Option τ} (h : step s e op = .ok (s', e', r)) (hi : SR s) : SR s' := by
  cases op with
  | addNode n =>
    simp only [step] at h
    obtain ⟨s1, h1, h2⟩ := map_ok.1 h
    simp at h2; obtain ⟨rfl, _, _⟩ := h2
    unfold addNode at h1
    split at h1
    · cases h1
    · simp only [Except.ok.injEq] at h1; subst h1
      exact fun v hv => (AList.mem_keys_set _ _ _ _).2 (Or.inr (hi v hv))
  | addNodeCollection n c =>
    simp only [step] at h
    obtain ⟨s1, h1, h2⟩ := map_ok.1 h
    simp at h2; obtain ⟨rfl, _, _⟩ := h2
    unfold addNodeCollection at h1
    split at h1
    · cases h1
    · split at h1
      · split at h1
        · cases h1
        · split at h1
          · cases h1
          · split at h1
            · simp only [Except.ok.injEq] at h1; subst h1; exact hi
            · simp only [Except.ok.injEq] at h1; subst h1; exact hi
      · simp only [Except.ok.injEq] at h1; subst h1; exact hi
  | schedule =>
    simp only [step] at h
    obtain ⟨⟨s1, e1⟩, h1, h2⟩ := map_ok.1 h
    simp at h2; obtain ⟨rfl, _, _⟩ := h2
    unfold schedule at h1
    split at h1
    · cases h1
    · split at h1
      · exact checkSchedule_sr h1 hi
      · split at h1
        · cases h1
        · simp only at h1
          split at h1
          · simp only [Except.ok.injEq, Prod.mk.injEq] at h1; obtain ⟨rfl, _⟩ := h1; exact hi
          · split at h1
            · simp only [Except.ok.injEq, Prod.mk.injEq] at h1; obtain ⟨rfl, _⟩ := h1; exact hi
            · exact checkSchedule_sr h1 hi
  | markComplete n i slow =>
    simp only [step] at h
    obtain ⟨⟨s1, e1⟩, h1, h2⟩ := map_ok.1 h
    simp at h2; obtain ⟨rfl, _, _⟩ := h2
    unfold markComplete at h1
    obtain ⟨book, _, h1⟩ := bind_ok.1 h1
    obtain ⟨book', _, h1⟩ := bind_ok.1 h1
    exact checkSchedule_sr h1 (fun v hv => (AList.mem_keys_set _ _ _ _).2 (Or.inr (hi v hv)))
  | markPending t =>
    simp only [step] at h
    obtain ⟨⟨s1, e1⟩, h1, h2⟩ := map_ok.1 h
    simp at h2; obtain ⟨rfl, _, _⟩ := h2
    unfold markPending at h1
    split at h1
    · cases h1
    · obtain ⟨idx, _, h1⟩ := bind_ok.1 h1
      exact checkSchedule_sr h1 hi
  | removePending n is =>
    simp only [step] at h
    obtain ⟨⟨s1, e1⟩, h1, h2⟩ := map_ok.1 h
    simp at h2; obtain ⟨rfl, _, _⟩ := h2
    unfold removePending at h1
    split at h1
    · cases h1
    · obtain ⟨book, _, h1⟩ := bind_ok.1 h1
      exact checkSchedule_sr h1 (fun v hv => by cases hv)
  | removeNode n =>
    simp only [step] at h
    unfold removeNode at h
    obtain ⟨p, hp, h⟩ := bind_ok.1 h
    obtain ⟨cr, _, h⟩ := bind_ok.1 h
    obtain ⟨r1, hr1, h⟩ := bind_ok.1 h
    simp only [Except.ok.injEq, Prod.mk.injEq] at h
    obtain ⟨rfl, _, _⟩ := h
    obtain ⟨v0, d'⟩ := p
    obtain ⟨_, hd'⟩ := AList.pop_eq_ok.1 hp
    refine checkSchedule_sr (show checkSchedule _ e = .ok (r1.1, r1.2) from hr1) ?_
    intro v hv
    simp only at hv ⊢
    split at hv
    · cases hv
    · rename_i hne
      have hv' : s.stealReq = some v := hv
      have hvn : v ≠ n := by intro hh; subst hh; exact hne hv'
      have hk := hi v hv'
      rw [hd']
      rw [← AList.lookup_isSome_iff_mem_keys] at hk ⊢
      rw [AList.lookup_erase_other _ _ _ hvn]; exact hk

end Xdist.WorkSteal
