import XdistModel.Sched.LoadScope
import XdistProofs.Lemmas.AList
import XdistProofs.Lemmas.Except
/-!
  C06, the scheduling half (`loadscope.py`; `loadfile`/`loadgroup` differ only in `split`):

  * the work units built by `schedule()` are exactly the classes of the group key: every test of the collection is in the unit
    filed under its key (`buildUnits_complete`), a unit holds only tests of its key (`Hom`), the keys of the units are distinct —
    so two tests with the same key are in the same unit (`C06_same_group_same_unit`);
  * that units hold only tests of their key is an invariant of **every history of scheduler calls** — assignments, completions,
    crashes that re-queue what is left, replacements (`step_hom`);
  * `_assign_work_unit` hands the head unit of the queue to one worker as a whole: the one `runtests` it sends carries exactly the
    not yet completed tests of that unit, in the unit's order (`C06_assign_sends_whole_unit`).
-/
namespace Xdist.LoadScope
open Xdist

set_option linter.unusedSectionVars false

variable {κ τ : Type} [DecidableEq κ] [DecidableEq τ]

/-! ### association-list facts in membership form -/

theorem mem_set' {α β : Type} [DecidableEq α] {d : AList α β} {x : α} {v : β} {p : α × β} (h : p ∈ AList.set d x v) : p ∈ d ∨ p = (x, v) := by
  induction d with
  | nil => simp only [AList.set, List.mem_singleton] at h; exact Or.inr h
  | cons a t ih =>
    obtain ⟨k, w⟩ := a
    simp only [AList.set] at h
    split at h
    · rename_i hk
      rcases List.mem_cons.1 h with h | h
      · exact Or.inr (by rw [h, hk])
      · exact Or.inl (List.mem_cons_of_mem _ h)
    · rcases List.mem_cons.1 h with h | h
      · exact Or.inl (by rw [h]; exact List.mem_cons_self)
      · rcases ih h with h | h
        · exact Or.inl (List.mem_cons_of_mem _ h)
        · exact Or.inr h

theorem mem_erase' {α β : Type} [DecidableEq α] {d : AList α β} {x : α} {p : α × β} (h : p ∈ AList.erase d x) : p ∈ d := by
  induction d with
  | nil => simp [AList.erase] at h
  | cons a t ih =>
    obtain ⟨k, w⟩ := a
    simp only [AList.erase] at h
    split at h
    · exact List.mem_cons_of_mem _ h
    · rcases List.mem_cons.1 h with h | h
      · rw [h]; exact List.mem_cons_self
      · exact List.mem_cons_of_mem _ (ih h)

theorem mem_of_lookup' {α β : Type} [DecidableEq α] {d : AList α β} {x : α} {v : β} (h : AList.lookup d x = some v) : (x, v) ∈ d := by
  induction d with
  | nil => simp [AList.lookup] at h
  | cons a t ih =>
    obtain ⟨k, w⟩ := a
    simp only [AList.lookup] at h
    split at h
    · rename_i hk
      simp only [Option.some.injEq] at h
      rw [← hk, ← h]; exact List.mem_cons_self
    · exact List.mem_cons_of_mem _ (ih h)

/-! ### units hold only tests of their key -/

/-- every unit of the workload holds only tests whose group key is the key it is filed under -/
def HomW (split : τ → κ) (w : Workload κ τ) : Prop := ∀ p ∈ w, ∀ q ∈ p.2, split q.1 = p.1

/-- … in the queue and in every worker's assigned work -/
def Hom (split : τ → κ) (s : State κ τ) : Prop := HomW split s.workqueue ∧ ∀ a ∈ s.assigned, HomW split a.2

theorem homW_nil (split : τ → κ) : HomW split ([] : Workload κ τ) := by intro p hp; cases hp

theorem homW_sub {split : τ → κ} {w w' : Workload κ τ} (h : HomW split w) (hs : ∀ p ∈ w', p ∈ w) : HomW split w' :=
  fun p hp => h p (hs p hp)

theorem homW_set {split : τ → κ} {w : Workload κ τ} {x : κ} {v : WUnit τ} (h : HomW split w) (hv : ∀ q ∈ v, split q.1 = x) :
    HomW split (AList.set w x v) := by
  intro p hp
  rcases mem_set' hp with hp | hp
  · exact h p hp
  · subst hp; exact hv

theorem homW_update {split : τ → κ} (b : Workload κ τ) : ∀ {w : Workload κ τ}, HomW split w → HomW split b → HomW split (AList.update w b) := by
  induction b with
  | nil => intro w h _; exact h
  | cons x t ih =>
    intro w h hb
    unfold AList.update
    simp only [List.foldl_cons]
    exact ih (homW_set h (hb x List.mem_cons_self)) (homW_sub hb (fun p hp => List.mem_cons_of_mem _ hp))

theorem hom_unit_set {split : τ → κ} {u : WUnit τ} {k : κ} {t : τ} {b : Bool} (hu : ∀ q ∈ u, split q.1 = k) (ht : split t = k) :
    ∀ q ∈ AList.set u t b, split q.1 = k := by
  intro q hq
  rcases mem_set' hq with hq | hq
  · exact hu q hq
  · subst hq; exact ht

theorem homW_buildUnits (split : τ → κ) (l : List τ) : ∀ {acc : Workload κ τ}, HomW split acc → HomW split (buildUnits split acc l) := by
  induction l with
  | nil => intro acc h; exact h
  | cons t r ih =>
    intro acc h
    simp only [buildUnits]
    apply ih
    apply homW_set h
    apply hom_unit_set _ rfl
    cases hl : AList.lookup acc (split t) with
    | none => intro q hq; cases hq
    | some u => exact h _ (mem_of_lookup' hl)

theorem mem_insertBySize {x p : κ × WUnit τ} : ∀ {w : Workload κ τ}, p ∈ insertBySize x w ↔ p = x ∨ p ∈ w := by
  intro w
  induction w with
  | nil => simp [insertBySize]
  | cons y r ih =>
    simp only [insertBySize]
    split
    · simp
    · simp only [List.mem_cons, ih]
      constructor
      · rintro (h | h | h)
        · exact Or.inr (Or.inl h)
        · exact Or.inl h
        · exact Or.inr (Or.inr h)
      · rintro (h | h | h)
        · exact Or.inr (Or.inl h)
        · exact Or.inl h
        · exact Or.inr (Or.inr h)

/-- sorting by size only permutes the units -/
theorem mem_sortBySize {p : κ × WUnit τ} : ∀ {w : Workload κ τ}, p ∈ sortBySize w ↔ p ∈ w := by
  intro w
  induction w with
  | nil => simp [sortBySize]
  | cons x r ih => simp only [sortBySize, mem_insertBySize, ih, List.mem_cons]

theorem assignWorkUnit_hom {split : τ → κ} {s s' : State κ τ} {e e' : Env} {n : Nat} (h : assignWorkUnit s e n = .ok (s', e'))
    (hi : Hom split s) : Hom split s' := by
  unfold assignWorkUnit at h
  split at h
  · cases h
  · rename_i scope wu rest hq
    simp only at h
    obtain ⟨col, _, h⟩ := bind_ok.1 h
    obtain ⟨is, _, h⟩ := bind_ok.1 h
    obtain ⟨e1, _, h⟩ := bind_ok.1 h
    simp only [Except.ok.injEq, Prod.mk.injEq] at h
    obtain ⟨rfl, _⟩ := h
    obtain ⟨hq1, ha⟩ := hi
    rw [hq] at hq1
    refine ⟨homW_sub hq1 (fun p hp => List.mem_cons_of_mem _ hp), ?_⟩
    intro a ha'
    rcases mem_set' ha' with ha' | ha'
    · exact ha a ha'
    · subst ha'
      apply homW_set
      · cases hl : AList.lookup s.assigned n with
        | none => exact homW_nil split
        | some w => exact ha _ (mem_of_lookup' hl)
      · exact hq1 (scope, wu) List.mem_cons_self

theorem topUp_hom {split : τ → κ} {n : Nat} (fuel : Nat) : ∀ {s s' : State κ τ} {e e' : Env}, topUp s e n fuel = .ok (s', e') →
    Hom split s → Hom split s' := by
  induction fuel with
  | zero =>
    intro s s' e e' h hi
    simp only [topUp, Except.ok.injEq, Prod.mk.injEq] at h
    obtain ⟨rfl, _⟩ := h; exact hi
  | succ fuel ih =>
    intro s s' e e' h hi
    simp only [topUp] at h
    split at h
    · simp only [Except.ok.injEq, Prod.mk.injEq] at h; obtain ⟨rfl, _⟩ := h; exact hi
    · obtain ⟨w, _, h⟩ := bind_ok.1 h
      split at h
      · obtain ⟨⟨s1, e1⟩, h1, h⟩ := bind_ok.1 h
        exact ih h (assignWorkUnit_hom h1 hi)
      · simp only [Except.ok.injEq, Prod.mk.injEq] at h; obtain ⟨rfl, _⟩ := h; exact hi

theorem reschedule_hom {split : τ → κ} {s s' : State κ τ} {e e' : Env} {n : Nat} (h : reschedule s e n = .ok (s', e'))
    (hi : Hom split s) : Hom split s' := by
  unfold reschedule at h
  split at h
  · simp only [Except.ok.injEq, Prod.mk.injEq] at h; obtain ⟨rfl, _⟩ := h; exact hi
  · split at h
    · simp only [Except.ok.injEq, Prod.mk.injEq] at h; obtain ⟨rfl, _⟩ := h; exact hi
    · split at h
      · simp only [Except.ok.injEq, Prod.mk.injEq] at h; obtain ⟨rfl, _⟩ := h; exact hi
      · obtain ⟨w, _, h⟩ := bind_ok.1 h
        split at h
        · simp only [Except.ok.injEq, Prod.mk.injEq] at h; obtain ⟨rfl, _⟩ := h; exact hi
        · obtain ⟨⟨s1, e1⟩, h1, h⟩ := bind_ok.1 h
          exact topUp_hom _ h (assignWorkUnit_hom h1 hi)

theorem rescheduleAll_hom {split : τ → κ} (l : List Nat) : ∀ {s s' : State κ τ} {e e' : Env}, rescheduleAll s e l = .ok (s', e') →
    Hom split s → Hom split s' := by
  induction l with
  | nil =>
    intro s s' e e' h hi
    simp only [rescheduleAll, Except.ok.injEq, Prod.mk.injEq] at h
    obtain ⟨rfl, _⟩ := h; exact hi
  | cons n t ih =>
    intro s s' e e' h hi
    simp only [rescheduleAll] at h
    obtain ⟨⟨s1, e1⟩, h1, h2⟩ := bind_ok.1 h
    exact ih h2 (reschedule_hom h1 hi)

theorem assignAll_hom {split : τ → κ} (l : List Nat) : ∀ {s s' : State κ τ} {e e' : Env}, assignAll s e l = .ok (s', e') →
    Hom split s → Hom split s' := by
  induction l with
  | nil =>
    intro s s' e e' h hi
    simp only [assignAll, Except.ok.injEq, Prod.mk.injEq] at h
    obtain ⟨rfl, _⟩ := h; exact hi
  | cons n t ih =>
    intro s s' e e' h hi
    simp only [assignAll] at h
    split at h
    · exact ih h hi
    · obtain ⟨⟨s1, e1⟩, h1, h2⟩ := bind_ok.1 h
      exact ih h2 (assignWorkUnit_hom h1 hi)

theorem dropExtra_hom {split : τ → κ} (k : Nat) : ∀ {s s' : State κ τ} {e e' : Env}, dropExtra s e k = .ok (s', e') →
    Hom split s → Hom split s' := by
  induction k with
  | zero =>
    intro s s' e e' h hi
    simp only [dropExtra, Except.ok.injEq, Prod.mk.injEq] at h
    obtain ⟨rfl, _⟩ := h; exact hi
  | succ k ih =>
    intro s s' e e' h hi
    simp only [dropExtra] at h
    split at h
    · cases h
    · exact ih h ⟨hi.1, fun a ha => hi.2 a (List.dropLast_subset _ ha)⟩

/-- the first not completed test of a workload is a test of one of its units -/
theorem firstPending_mem {w : Workload κ τ} {scope : κ} {item : τ} (h : firstPending w = some (scope, item)) :
    ∃ wu b, (scope, wu) ∈ w ∧ (item, b) ∈ wu := by
  induction w with
  | nil => simp [firstPending] at h
  | cons a t ih =>
    obtain ⟨k, wu⟩ := a
    simp only [firstPending] at h
    split at h
    · rename_i t0 b0 hf
      simp only [Option.some.injEq, Prod.mk.injEq] at h
      obtain ⟨rfl, rfl⟩ := h
      exact ⟨wu, b0, List.mem_cons_self, List.mem_of_find?_eq_some hf⟩
    · obtain ⟨wu', b, h1, h2⟩ := ih h
      exact ⟨wu', b, List.mem_cons_of_mem _ h1, h2⟩

/-- **Units hold only tests of their key, whatever the scheduler is asked to do.** -/
theorem step_hom (split : τ → κ) {s s' : State κ τ} {e e' : Env} {op : SOp τ} {r : Option τ}
    (h : step split s e op = .ok (s', e', r)) (hi : Hom split s) : Hom split s' := by
  cases op with
  | addNode n =>
    simp only [step] at h
    obtain ⟨s1, h1, h2⟩ := map_ok.1 h
    simp at h2; obtain ⟨rfl, _, _⟩ := h2
    unfold addNode at h1
    split at h1
    · cases h1
    · simp only [Except.ok.injEq] at h1; subst h1
      refine ⟨hi.1, ?_⟩
      intro a ha
      rcases mem_set' ha with ha | ha
      · exact hi.2 a ha
      · subst ha; exact homW_nil split
  | addNodeCollection n c =>
    simp only [step] at h
    obtain ⟨s1, h1, h2⟩ := map_ok.1 h
    simp at h2; obtain ⟨rfl, _, _⟩ := h2
    unfold addNodeCollection at h1
    split at h1
    · cases h1
    · split at h1
      · split at h1
        · cases h1
        · split at h1
          · cases h1
          · split at h1
            · simp only [Except.ok.injEq] at h1; subst h1; exact hi
            · simp only [Except.ok.injEq] at h1; subst h1; exact hi
      · simp only [Except.ok.injEq] at h1; subst h1; exact hi
  | schedule =>
    simp only [step] at h
    obtain ⟨⟨s1, e1⟩, h1, h2⟩ := map_ok.1 h
    simp at h2; obtain ⟨rfl, _, _⟩ := h2
    unfold schedule at h1
    split at h1
    · cases h1
    · split at h1
      · exact rescheduleAll_hom _ h1 hi
      · split at h1
        · cases h1
        · rename_i first col rest _
          simp only at h1
          split at h1
          · simp only [Except.ok.injEq, Prod.mk.injEq] at h1; obtain ⟨rfl, _⟩ := h1; exact hi
          · split at h1
            · simp only [Except.ok.injEq, Prod.mk.injEq] at h1; obtain ⟨rfl, _⟩ := h1; exact hi
            · obtain ⟨⟨s3, e3⟩, h3, h1⟩ := bind_ok.1 h1
              obtain ⟨⟨s4, e4⟩, h4, h1⟩ := bind_ok.1 h1
              obtain ⟨⟨s5, e5⟩, h5, h1⟩ := bind_ok.1 h1
              have hu : HomW split (sortBySize (buildUnits split [] col)) :=
                homW_sub (homW_buildUnits split col (homW_nil split)) (fun p hp => mem_sortBySize.1 hp)
              have h2 : Hom split ({ s with collection := some col, workqueue := AList.update s.workqueue (sortBySize (buildUnits split [] col)) } : State κ τ) :=
                ⟨homW_update _ hi.1 hu, hi.2⟩
              have h5' := rescheduleAll_hom _ h5 (assignAll_hom _ h4 (dropExtra_hom _ h3 h2))
              split at h1
              · simp only [Except.ok.injEq, Prod.mk.injEq] at h1; obtain ⟨rfl, _⟩ := h1; exact h5'
              · simp only [Except.ok.injEq, Prod.mk.injEq] at h1; obtain ⟨rfl, _⟩ := h1; exact h5'
  | markComplete n i slow =>
    simp only [step] at h
    obtain ⟨⟨s1, e1⟩, h1, h2⟩ := map_ok.1 h
    simp at h2; obtain ⟨rfl, _, _⟩ := h2
    unfold markComplete at h1
    obtain ⟨col, _, h1⟩ := bind_ok.1 h1
    split at h1
    · cases h1
    · rename_i t _
      obtain ⟨w, hw, h1⟩ := bind_ok.1 h1
      obtain ⟨wu, hwu, h1⟩ := bind_ok.1 h1
      refine reschedule_hom h1 ⟨hi.1, ?_⟩
      have hw' := hi.2 _ (mem_of_lookup' (AList.get_eq_ok.1 hw))
      intro a ha
      rcases mem_set' ha with ha | ha
      · exact hi.2 a ha
      · subst ha
        exact homW_set hw' (hom_unit_set (hw' _ (mem_of_lookup' (AList.get_eq_ok.1 hwu))) rfl)
  | markPending t => simp [step] at h
  | removePending n is => simp [step] at h
  | removeNode n =>
    simp only [step] at h
    unfold removeNode at h
    obtain ⟨⟨workload, asg⟩, hp, h⟩ := bind_ok.1 h
    obtain ⟨hl, hasg⟩ := AList.pop_eq_ok.1 hp
    have hwl : HomW split workload := hi.2 _ (mem_of_lookup' hl)
    have hasg' : ∀ a ∈ asg, HomW split a.2 := fun a ha => hi.2 a (by rw [hasg] at ha; exact mem_erase' ha)
    simp only at h
    split at h
    · simp only [Except.ok.injEq, Prod.mk.injEq] at h; obtain ⟨rfl, _, _⟩ := h; exact ⟨hi.1, hasg'⟩
    · split at h
      · cases h
      · rename_i scope item hfp
        obtain ⟨⟨s3, e3⟩, h3, h⟩ := bind_ok.1 h
        simp only [Except.ok.injEq, Prod.mk.injEq] at h
        obtain ⟨rfl, _, _⟩ := h
        refine rescheduleAll_hom _ h3 ⟨?_, hasg'⟩
        apply homW_update _ hi.1
        obtain ⟨wu0, b0, hm1, hm2⟩ := firstPending_mem hfp
        have hitem : split item = scope := hwl _ hm1 _ hm2
        intro p hp
        have hp' := (List.mem_filter.1 hp).1
        obtain ⟨p0, hp0, rfl⟩ := List.mem_map.1 hp'
        split
        · rename_i hk
          exact hom_unit_set (hwl p0 hp0) (by rw [hitem, hk])
        · exact hwl p0 hp0

/-! ### the units are exactly the classes of the key -/

/-- test `t` is in the unit filed under its key -/
def CovL (split : τ → κ) (acc : Workload κ τ) (t : τ) : Prop := ∃ u, AList.lookup acc (split t) = some u ∧ t ∈ AList.keys u

theorem covL_step {split : τ → κ} {acc : Workload κ τ} {t t' : τ} (h : CovL split acc t) :
    CovL split (AList.set acc (split t') (AList.set (match AList.lookup acc (split t') with | some u => u | none => []) t' false)) t := by
  obtain ⟨u, hu, ht⟩ := h
  by_cases hk : split t = split t'
  · refine ⟨_, by rw [hk]; exact AList.lookup_set_same _ _ _, ?_⟩
    rw [← hk, hu]
    exact (AList.mem_keys_set _ _ _ _).2 (Or.inr ht)
  · exact ⟨u, by rw [AList.lookup_set_other _ _ _ _ hk]; exact hu, ht⟩

theorem covL_new {split : τ → κ} (acc : Workload κ τ) (t' : τ) :
    CovL split (AList.set acc (split t') (AList.set (match AList.lookup acc (split t') with | some u => u | none => []) t' false)) t' :=
  ⟨_, AList.lookup_set_same _ _ _, (AList.mem_keys_set _ _ _ _).2 (Or.inl rfl)⟩

theorem buildUnits_keeps (split : τ → κ) (l : List τ) : ∀ {acc : Workload κ τ} {t : τ}, CovL split acc t → CovL split (buildUnits split acc l) t := by
  induction l with
  | nil => intro acc t h; exact h
  | cons t' r ih => intro acc t h; simp only [buildUnits]; exact ih (covL_step h)

/-- every test of the collection is in the unit filed under its key -/
theorem buildUnits_complete (split : τ → κ) (l : List τ) : ∀ (acc : Workload κ τ) {t : τ}, t ∈ l → CovL split (buildUnits split acc l) t := by
  induction l with
  | nil => intro acc t h; cases h
  | cons t' r ih =>
    intro acc t h
    simp only [buildUnits]
    rcases List.mem_cons.1 h with h | h
    · subst h; exact buildUnits_keeps split r (covL_new acc t)
    · exact ih _ h

theorem buildUnits_nodup (split : τ → κ) (l : List τ) : ∀ {acc : Workload κ τ}, (AList.keys acc).Nodup → (AList.keys (buildUnits split acc l)).Nodup := by
  induction l with
  | nil => intro acc h; exact h
  | cons t r ih => intro acc h; simp only [buildUnits]; exact ih (AList.nodup_keys_set _ _ _ h)

/-- the units `schedule()` puts into the queue -/
def unitsOf (split : τ → κ) (col : List τ) : Workload κ τ := sortBySize (buildUnits split [] col)

/-- **Same group ⇒ same unit; a unit holds one group only** (C06).  For every collection and every key function: each test is in
    a unit filed under its key; a unit holds only tests of the key it is filed under; and any two units holding tests of the same
    key are one and the same unit — so all tests of a group travel together. -/
theorem C06_same_group_same_unit (split : τ → κ) (col : List τ) :
    (∀ t ∈ col, ∃ p ∈ unitsOf split col, p.1 = split t ∧ t ∈ AList.keys p.2) ∧
    (∀ p ∈ unitsOf split col, ∀ q ∈ p.2, split q.1 = p.1) ∧
    (∀ p ∈ unitsOf split col, ∀ p' ∈ unitsOf split col, p.1 = p'.1 → p = p') := by
  refine ⟨?_, ?_, ?_⟩
  · intro t ht
    obtain ⟨u, hu, hm⟩ := buildUnits_complete split col [] ht
    exact ⟨(split t, u), mem_sortBySize.2 (mem_of_lookup' hu), rfl, hm⟩
  · exact homW_sub (homW_buildUnits split col (homW_nil split)) (fun p hp => mem_sortBySize.1 hp)
  · intro p hp p' hp' hk
    have hnd := buildUnits_nodup split col (acc := []) (by simp [AList.keys])
    have h1 := AList.lookup_of_mem _ hnd p (mem_sortBySize.1 hp)
    have h2 := AList.lookup_of_mem _ hnd p' (mem_sortBySize.1 hp')
    rw [hk, h2] at h1
    simp only [Option.some.injEq] at h1
    exact Prod.ext hk h1.symm

/-! ### inside a unit the tests are in collection order -/

/-- the tests of the unit filed under `k`, in the unit's order (nothing if there is no such unit) -/
def unitKeys (acc : Workload κ τ) (k : κ) : List τ := match AList.lookup acc k with | some u => AList.keys u | none => []

theorem unitKeys_step (split : τ → κ) (acc : Workload κ τ) (t : τ) (k : κ) (hf : t ∉ unitKeys acc (split t)) :
    unitKeys (AList.set acc (split t) (AList.set (match AList.lookup acc (split t) with | some u => u | none => []) t false)) k =
      unitKeys acc k ++ (if split t = k then [t] else []) := by
  by_cases hk : split t = k
  · subst hk
    simp only [unitKeys, AList.lookup_set_same, if_true]
    cases hl : AList.lookup acc (split t) with
    | none => simp [AList.set, AList.keys]
    | some u =>
      simp only [unitKeys, hl] at hf
      have hnone : AList.lookup u t = none := by
        cases hu : AList.lookup u t with
        | none => rfl
        | some b => exact absurd ((AList.lookup_isSome_iff_mem_keys u t).1 (by rw [hu]; rfl)) hf
      exact AList.keys_set_of_not_mem u t false hnone
  · have hk' : k ≠ split t := fun h => hk h.symm
    simp only [unitKeys, AList.lookup_set_other _ _ _ _ hk', hk, if_false, List.append_nil]

/-- `buildUnits` appends each new test at the end of the unit of its key -/
theorem buildUnits_order (split : τ → κ) (l : List τ) : ∀ (acc : Workload κ τ) (k : κ), l.Nodup →
    (∀ t ∈ l, t ∉ unitKeys acc (split t)) →
    unitKeys (buildUnits split acc l) k = unitKeys acc k ++ l.filter (fun t => split t = k) := by
  induction l with
  | nil => intro acc k _ _; simp [buildUnits]
  | cons t r ih =>
    intro acc k hnd hf
    obtain ⟨htr, hr⟩ := List.nodup_cons.1 hnd
    simp only [buildUnits]
    have hstep : ∀ k', unitKeys (AList.set acc (split t) (AList.set (match AList.lookup acc (split t) with | some u => u | none => []) t false)) k' =
        unitKeys acc k' ++ (if split t = k' then [t] else []) := fun k' => unitKeys_step split acc t k' (hf t List.mem_cons_self)
    refine Eq.trans (ih _ k hr ?_) ?_
    · intro t' ht'
      refine fun hm => ?_
      have hm' : t' ∈ unitKeys acc (split t') ++ (if split t = split t' then [t] else []) := (hstep (split t')) ▸ hm
      rcases List.mem_append.1 hm' with hm' | hm'
      · exact hf t' (List.mem_cons_of_mem _ ht') hm'
      · split at hm'
        · simp only [List.mem_singleton] at hm'; subst hm'; exact htr ht'
        · cases hm'
    · refine Eq.trans (congrArg (· ++ r.filter (fun t => split t = k)) (hstep k)) ?_
      by_cases hk : split t = k
      · simp [hk]
      · simp [hk]

/-- **Inside a unit the tests are in collection order** (C06).  For a collection without repeated ids, the unit filed under `k`
    holds exactly the tests of the collection whose key is `k`, in collection order. -/
theorem C06_unit_in_collection_order (split : τ → κ) (col : List τ) (hnd : col.Nodup) {p : κ × WUnit τ} (hp : p ∈ unitsOf split col) :
    AList.keys p.2 = col.filter (fun t => split t = p.1) := by
  have hnk := buildUnits_nodup split col (acc := []) (by simp [AList.keys])
  have hl := AList.lookup_of_mem _ hnk p (mem_sortBySize.1 hp)
  have := buildUnits_order split col [] p.1 hnd (by intro t _; simp [unitKeys])
  simp only [unitKeys, hl, AList.lookup_nil, List.nil_append] at this
  exact this

/-! ### a unit is handed to one worker as a whole -/

theorem index_get {col : List τ} {t : τ} {i : Nat} (h : PyList.index col t = .ok i) : col[i]? = some t := by
  induction col generalizing i with
  | nil => simp [PyList.index] at h
  | cons a r ih =>
    simp only [PyList.index] at h
    split at h
    · rename_i ha
      simp only [Except.ok.injEq] at h; subst h; simp [ha]
    · obtain ⟨j, hj, rfl⟩ := map_ok.1 h
      simpa using ih hj

theorem indexAll_get {col ts : List τ} {is : List Nat} (h : indexAll col ts = .ok is) : is.map (col[·]?) = ts.map some := by
  induction ts generalizing is with
  | nil => simp only [indexAll, Except.ok.injEq] at h; subst h; rfl
  | cons t r ih =>
    simp only [indexAll] at h
    obtain ⟨i, hi, h⟩ := bind_ok.1 h
    obtain ⟨js, hjs, h⟩ := bind_ok.1 h
    simp only [Except.ok.injEq] at h; subst h
    simp only [List.map_cons, index_get hi, ih hjs]

/-- **`_assign_work_unit` hands the head unit of the queue to one worker as a whole** (C06).  The unit leaves the queue and is
    filed, unchanged, in that worker's assigned work under its key; and the one `runtests` written to the worker (nothing if its
    channel is already broken) carries indices which, read in the worker's own collection, are exactly the not yet completed tests of
    that unit, in the unit's order — each of them a test of the unit's key when units are homogeneous. -/
theorem C06_assign_sends_whole_unit (split : τ → κ) {s s' : State κ τ} {e e' : Env} {n : Nat}
    (h : assignWorkUnit s e n = .ok (s', e')) :
    ∃ scope wu rest col is w',
      s.workqueue = (scope, wu) :: rest ∧ s'.workqueue = rest ∧
      AList.lookup s'.assigned n = some w' ∧ AList.lookup w' scope = some wu ∧
      AList.lookup s.registered n = some col ∧
      is.map (col[·]?) = ((wu.filter (fun p => !p.2)).map Prod.fst).map some ∧
      e.sendRun n is = .ok e' ∧
      (Hom split s → ∀ i ∈ is, ∃ t, col[i]? = some t ∧ split t = scope) := by
  unfold assignWorkUnit at h
  split at h
  · cases h
  · rename_i scope wu rest hq
    simp only at h
    obtain ⟨col, hcol, h⟩ := bind_ok.1 h
    obtain ⟨is, his, h⟩ := bind_ok.1 h
    obtain ⟨e1, he1, h⟩ := bind_ok.1 h
    simp only [Except.ok.injEq, Prod.mk.injEq] at h
    obtain ⟨rfl, rfl⟩ := h
    have hg := indexAll_get his
    refine ⟨scope, wu, rest, col, is, _, hq, rfl, AList.lookup_set_same _ _ _, AList.lookup_set_same _ _ _,
      AList.get_eq_ok.1 hcol, hg, he1, ?_⟩
    intro hi i hi'
    have hmem : col[i]? ∈ is.map (col[·]?) := List.mem_map.2 ⟨i, hi', rfl⟩
    rw [hg] at hmem
    obtain ⟨t, ht, hte⟩ := List.mem_map.1 hmem
    obtain ⟨q, hq', rfl⟩ := List.mem_map.1 ht
    refine ⟨q.1, hte.symm, ?_⟩
    have := hi.1
    rw [hq] at this
    exact this (scope, wu) List.mem_cons_self q (List.mem_filter.1 hq').1

end Xdist.LoadScope
