import XdistProofs.Sched.ScopeDisj
/-!
  C06 on the wire: in `loadscope.py` (and `loadfile`, `loadgroup`) **every `runtests` command ever written carries tests of one
  single group** — read in the agreed collection, all its indices have the same group key — through every history of scheduler calls.
  With the worker being FIFO (C05) this is "together": a group is handed over in one command, nothing of another group in between.
-/
namespace Xdist.LoadScope
open Xdist

set_option linter.unusedSectionVars false

variable {κ τ : Type} [DecidableEq κ] [DecidableEq τ]

/-- `runtests` and `runtests_all` -/
def isRun : SOut → Bool
  | .run _ _ => true
  | .runAll _ => true
  | _ => false

/-- every command in the log that hands out tests is a `runtests` carrying indices of tests of one group of `col` -/
def RunsOk (split : τ → κ) (col : List τ) (outs : List SOut) : Prop :=
  ∀ o ∈ outs, isRun o = true → ∃ n is, o = SOut.run n is ∧ ∃ scope, ∀ i ∈ is, ∃ t, col[i]? = some t ∧ split t = scope

theorem runsOk_mono {split : τ → κ} {col : List τ} {outs outs' : List SOut} (h : RunsOk split col outs)
    (hs : ∀ o ∈ outs', isRun o = true → o ∈ outs) : RunsOk split col outs' :=
  fun o ho hr => h o (hs o ho hr) hr

theorem shutdown_runs (e : Env) (k : Nat) (o : SOut) (h : o ∈ (e.shutdown k).outs) (hr : isRun o = true) : o ∈ e.outs := by
  unfold Env.shutdown at h
  simp only at h
  split at h
  · exact h
  · simp only at h
    split at h
    · exact h
    · rcases List.mem_append.1 h with h | h
      · exact h
      · simp only [List.mem_singleton] at h
        subst h; cases hr

theorem shutdownAll_runs (l : List Nat) : ∀ (e : Env) (o : SOut), o ∈ (e.shutdownAll l).outs → isRun o = true → o ∈ e.outs := by
  induction l with
  | nil => intro e o h _; exact h
  | cons k t ih => intro e o h hr; exact shutdown_runs e k o (ih _ o h hr) hr

theorem sendRun_outs {e e' : Env} {n : Nat} {is : List Nat} (h : e.sendRun n is = .ok e') :
    e'.outs = e.outs ∨ e'.outs = e.outs ++ [SOut.run n is] := by
  unfold Env.sendRun Env.send at h
  split at h
  · simp only [Except.ok.injEq] at h; subst h; exact Or.inl rfl
  · simp only [Except.ok.injEq] at h; subst h; exact Or.inr rfl

/-- the facts threaded through the scheduling loops once the collection is agreed -/
structure T (split : τ → κ) (col : List τ) (s : State κ τ) (e : Env) : Prop where
  coll : s.collection = some col
  hom : Hom split s
  reg : ∀ p ∈ s.registered, p.2 = col
  runs : RunsOk split col e.outs
  cmp : collectionIsCompleted s = true
  toReg : ∀ n is, SOut.run n is ∈ e.outs → n ∈ AList.keys s.registered

theorem T.shutdown {split : τ → κ} {col : List τ} {s : State κ τ} {e : Env} (h : T split col s e) (k : Nat) : T split col s (e.shutdown k) :=
  ⟨h.coll, h.hom, h.reg, runsOk_mono h.runs (fun o ho hr => shutdown_runs e k o ho hr), h.cmp,
    fun n is hm => h.toReg n is (shutdown_runs e k _ hm rfl)⟩

theorem assignWorkUnit_T {split : τ → κ} {col : List τ} {s s' : State κ τ} {e e' : Env} {n : Nat}
    (h : assignWorkUnit s e n = .ok (s', e')) (ht : T split col s e) : T split col s' e' := by
  have hhom' := assignWorkUnit_hom h ht.hom
  obtain ⟨scope, wu, rest, coln, is, w', hq, _, _, _, hreg, hmap, hsend, hkeys⟩ := C06_assign_sends_whole_unit split h
  have hcoln : coln = col := ht.reg _ (mem_of_lookup' hreg)
  subst hcoln
  have hone := hkeys ht.hom
  unfold assignWorkUnit at h
  split at h
  · cases h
  · simp only at h
    obtain ⟨c0, _, h⟩ := bind_ok.1 h
    obtain ⟨is0, _, h⟩ := bind_ok.1 h
    obtain ⟨e1, _, h⟩ := bind_ok.1 h
    simp only [Except.ok.injEq, Prod.mk.injEq] at h
    obtain ⟨hs', _⟩ := h
    refine ⟨by rw [← hs']; exact ht.coll, hhom', by rw [← hs']; exact ht.reg, ?_, by rw [← hs']; exact ht.cmp, ?_⟩
    · intro o hm hr
      rcases sendRun_outs hsend with ho | ho
      · rw [ho] at hm; exact ht.runs o hm hr
      · rw [ho] at hm
        rcases List.mem_append.1 hm with hm | hm
        · exact ht.runs o hm hr
        · simp only [List.mem_singleton] at hm
          exact ⟨n, is, hm, scope, hone⟩
    · intro m js hm
      rw [← hs']
      show m ∈ AList.keys s.registered
      rcases sendRun_outs hsend with ho | ho
      · rw [ho] at hm; exact ht.toReg m js hm
      · rw [ho] at hm
        rcases List.mem_append.1 hm with hm | hm
        · exact ht.toReg m js hm
        · simp only [List.mem_singleton, SOut.run.injEq] at hm
          rw [hm.1]
          exact (AList.lookup_isSome_iff_mem_keys _ _).1 (by rw [hreg]; rfl)

theorem topUp_T {split : τ → κ} {col : List τ} {n : Nat} (fuel : Nat) : ∀ {s s' : State κ τ} {e e' : Env},
    topUp s e n fuel = .ok (s', e') → T split col s e → T split col s' e' := by
  induction fuel with
  | zero =>
    intro s s' e e' h hi
    simp only [topUp, Except.ok.injEq, Prod.mk.injEq] at h
    obtain ⟨rfl, rfl⟩ := h; exact hi
  | succ fuel ih =>
    intro s s' e e' h hi
    simp only [topUp] at h
    split at h
    · simp only [Except.ok.injEq, Prod.mk.injEq] at h; obtain ⟨rfl, rfl⟩ := h; exact hi
    · obtain ⟨w, _, h⟩ := bind_ok.1 h
      split at h
      · obtain ⟨⟨s1, e1⟩, h1, h⟩ := bind_ok.1 h
        exact ih h (assignWorkUnit_T h1 hi)
      · simp only [Except.ok.injEq, Prod.mk.injEq] at h; obtain ⟨rfl, rfl⟩ := h; exact hi

theorem reschedule_T {split : τ → κ} {col : List τ} {s s' : State κ τ} {e e' : Env} {n : Nat} (h : reschedule s e n = .ok (s', e'))
    (hi : T split col s e) : T split col s' e' := by
  unfold reschedule at h
  split at h
  · simp only [Except.ok.injEq, Prod.mk.injEq] at h; obtain ⟨rfl, rfl⟩ := h; exact hi
  · split at h
    · simp only [Except.ok.injEq, Prod.mk.injEq] at h; obtain ⟨rfl, rfl⟩ := h; exact hi
    · split at h
      · simp only [Except.ok.injEq, Prod.mk.injEq] at h; obtain ⟨rfl, rfl⟩ := h; exact hi.shutdown n
      · obtain ⟨w, _, h⟩ := bind_ok.1 h
        split at h
        · simp only [Except.ok.injEq, Prod.mk.injEq] at h; obtain ⟨rfl, rfl⟩ := h; exact hi
        · obtain ⟨⟨s1, e1⟩, h1, h⟩ := bind_ok.1 h
          exact topUp_T _ h (assignWorkUnit_T h1 hi)

theorem rescheduleAll_T {split : τ → κ} {col : List τ} (l : List Nat) : ∀ {s s' : State κ τ} {e e' : Env},
    rescheduleAll s e l = .ok (s', e') → T split col s e → T split col s' e' := by
  induction l with
  | nil =>
    intro s s' e e' h hi
    simp only [rescheduleAll, Except.ok.injEq, Prod.mk.injEq] at h
    obtain ⟨rfl, rfl⟩ := h; exact hi
  | cons n t ih =>
    intro s s' e e' h hi
    simp only [rescheduleAll] at h
    obtain ⟨⟨s1, e1⟩, h1, h2⟩ := bind_ok.1 h
    exact ih h2 (reschedule_T h1 hi)

theorem assignAll_T {split : τ → κ} {col : List τ} (l : List Nat) : ∀ {s s' : State κ τ} {e e' : Env},
    assignAll s e l = .ok (s', e') → T split col s e → T split col s' e' := by
  induction l with
  | nil =>
    intro s s' e e' h hi
    simp only [assignAll, Except.ok.injEq, Prod.mk.injEq] at h
    obtain ⟨rfl, rfl⟩ := h; exact hi
  | cons n t ih =>
    intro s s' e e' h hi
    simp only [assignAll] at h
    split at h
    · exact ih h hi
    · obtain ⟨⟨s1, e1⟩, h1, h2⟩ := bind_ok.1 h
      exact ih h2 (assignWorkUnit_T h1 hi)

theorem dropExtra_T {split : τ → κ} {col : List τ} (k : Nat) : ∀ {s s' : State κ τ} {e e' : Env},
    dropExtra s e k = .ok (s', e') → T split col s e → T split col s' e' := by
  induction k with
  | zero =>
    intro s s' e e' h hi
    simp only [dropExtra, Except.ok.injEq, Prod.mk.injEq] at h
    obtain ⟨rfl, rfl⟩ := h; exact hi
  | succ k ih =>
    intro s s' e e' h hi
    simp only [dropExtra] at h
    split at h
    · cases h
    · rename_i n0 _ _
      refine ih h ⟨hi.coll, ⟨hi.hom.1, fun a ha => hi.hom.2 a (List.dropLast_subset _ ha)⟩, hi.reg, ?_, hi.cmp,
        fun n is hm => hi.toReg n is (shutdown_runs e _ _ hm rfl)⟩
      exact runsOk_mono hi.runs (fun o ho hr => shutdown_runs e _ o ho hr)

/-! ### the invariant of every scheduler call -/

/-- units hold one group; a key is in one place; once the collection is agreed every registered collection is that one, and every
    `runtests` written carries tests of one group of it; before that, no `runtests` has been written; the collection is agreed only
    when every expected worker has reported -/
structure WI (split : τ → κ) (s : State κ τ) (e : Env) : Prop where
  hom : Hom split s
  di : DI s
  agreed : ∀ col, s.collection = some col → (∀ p ∈ s.registered, p.2 = col) ∧ RunsOk split col e.outs
  quiet : s.collection = none → ∀ o ∈ e.outs, isRun o = false
  cmp : s.collection ≠ none → collectionIsCompleted s = true
  toReg : ∀ n is, SOut.run n is ∈ e.outs → n ∈ AList.keys s.registered

theorem WI.toT {split : τ → κ} {s : State κ τ} {e : Env} {col : List τ} (h : WI split s e) (hc : s.collection = some col) : T split col s e :=
  ⟨hc, h.hom, (h.agreed col hc).1, (h.agreed col hc).2, h.cmp (by rw [hc]; simp), h.toReg⟩

theorem length_le_set' {α β : Type} [DecidableEq α] (d : AList α β) (x : α) (v : β) : d.length ≤ (AList.set d x v).length := by
  induction d with
  | nil => simp [AList.set]
  | cons a t ih =>
    obtain ⟨k, w⟩ := a
    simp only [AList.set]
    split
    · simp
    · simp only [List.length_cons]; omega

theorem step_wi (split : τ → κ) {s s' : State κ τ} {e e' : Env} {op : SOp τ} {r : Option τ}
    (h : step split s e op = .ok (s', e', r)) (hi : WI split s e) : WI split s' e' := by
  have hhom' := step_hom split h hi.hom
  have hdi' := step_di split h hi.di
  -- from the post-state facts of the loops
  have fromT : ∀ {col : List τ}, T split col s' e' → WI split s' e' := by
    intro col ht
    refine ⟨hhom', hdi', ?_, ?_, fun _ => ht.cmp, ht.toReg⟩
    · intro c hc
      rw [ht.coll] at hc
      simp only [Option.some.injEq] at hc
      subst hc
      exact ⟨ht.reg, ht.runs⟩
    · intro hc; rw [ht.coll] at hc; cases hc
  cases op with
  | addNode n =>
    simp only [step] at h
    obtain ⟨s1, h1, h2⟩ := map_ok.1 h
    simp at h2; obtain ⟨rfl, rfl, _⟩ := h2
    unfold addNode at h1
    split at h1
    · cases h1
    · simp only [Except.ok.injEq] at h1; subst h1
      exact ⟨hhom', hdi', hi.agreed, hi.quiet, hi.cmp, hi.toReg⟩
  | addNodeCollection n c =>
    simp only [step] at h
    obtain ⟨s1, h1, h2⟩ := map_ok.1 h
    simp at h2; obtain ⟨rfl, rfl, _⟩ := h2
    unfold addNodeCollection at h1
    split at h1
    · cases h1
    · split at h1
      · rename_i hcmp
        split at h1
        · cases h1
        · rename_i col hcol
          split at h1
          · cases h1
          · split at h1
            · simp only [Except.ok.injEq] at h1; subst h1; exact hi
            · rename_i hc
              simp only [ne_eq, Decidable.not_not] at hc
              simp only [Except.ok.injEq] at h1; subst h1
              refine ⟨hhom', hdi', ?_, hi.quiet, ?_, fun m js hm => (AList.mem_keys_set _ _ _ _).2 (Or.inr (hi.toReg m js hm))⟩
              · intro c' hc'
                have hc'' : s.collection = some c' := hc'
                obtain ⟨a1, a2⟩ := hi.agreed c' hc''
                refine ⟨?_, a2⟩
                intro p hp
                rcases mem_set' hp with hp | hp
                · exact a1 p hp
                · subst hp
                  rw [hcol] at hc''
                  simp only [Option.some.injEq] at hc''
                  rw [← hc'']; exact hc
              · intro _
                have := length_le_set' s.registered n c
                simp only [collectionIsCompleted, ge_iff_le, decide_eq_true_eq] at hcmp ⊢
                omega
      · rename_i hcmp
        simp only [Except.ok.injEq] at h1; subst h1
        have hnone : s.collection = none := by
          cases hc : s.collection with
          | none => rfl
          | some c0 => exact absurd (hi.cmp (by rw [hc]; simp)) hcmp
        refine ⟨hhom', hdi', ?_, hi.quiet, ?_, fun m js hm => (AList.mem_keys_set _ _ _ _).2 (Or.inr (hi.toReg m js hm))⟩
        · intro c' hc'
          have hc'' : s.collection = some c' := hc'
          rw [hnone] at hc''; cases hc''
        · intro hc'
          exact absurd hnone hc'
  | schedule =>
    simp only [step] at h
    obtain ⟨⟨s1, e1⟩, h1, h2⟩ := map_ok.1 h
    simp at h2; obtain ⟨rfl, rfl, _⟩ := h2
    unfold schedule at h1
    split at h1
    · cases h1
    · rename_i hcmp
      have hcmp' : collectionIsCompleted s = true := by simpa using hcmp
      split at h1
      · rename_i c0 hc0
        exact fromT (rescheduleAll_T _ h1 (hi.toT hc0))
      · rename_i hc0
        split at h1
        · cases h1
        · rename_i first col rest hreg
          simp only at h1
          split at h1
          · simp only [Except.ok.injEq, Prod.mk.injEq] at h1; obtain ⟨rfl, rfl⟩ := h1
            refine ⟨hhom', hdi', ?_, ?_, hi.cmp, ?_⟩
            · intro c hc
              have hc' : s.collection = some c := hc
              rw [hc0] at hc'; cases hc'
            · intro _ o hm
              rcases List.mem_append.1 hm with hm | hm
              · exact hi.quiet hc0 o hm
              · unfold collectionDiffs at hm
                obtain ⟨p, _, hp⟩ := List.mem_map.1 hm
                rw [← hp]; rfl
            · intro m js hm
              rcases List.mem_append.1 hm with hm | hm
              · exact hi.toReg m js hm
              · unfold collectionDiffs at hm
                obtain ⟨p, _, hp⟩ := List.mem_map.1 hm
                cases hp
          · rename_i hde
            have hdnil : collectionDiffs first col rest = [] := by simpa using hde
            have hregall : ∀ p ∈ s.registered, p.2 = col := by
              intro p hp
              rw [hreg] at hp
              rcases List.mem_cons.1 hp with rfl | hp
              · rfl
              · unfold collectionDiffs at hdnil
                have hf := List.map_eq_nil_iff.1 hdnil
                have := List.filter_eq_nil_iff.1 hf p hp
                simpa using this
            have hq : RunsOk split col (e.outs ++ collectionDiffs first col rest) := by
              intro o hm hr
              rw [hdnil, List.append_nil] at hm
              rw [hi.quiet hc0 o hm] at hr; cases hr
            have htr : ∀ n is, SOut.run n is ∈ e.outs ++ collectionDiffs first col rest → n ∈ AList.keys s.registered := by
              intro n is hm
              rw [hdnil, List.append_nil] at hm
              exact hi.toReg n is hm
            split at h1
            · simp only [Except.ok.injEq, Prod.mk.injEq] at h1; obtain ⟨rfl, rfl⟩ := h1
              exact fromT (col := col) ⟨rfl, hi.hom, hregall, hq, hcmp', htr⟩
            · obtain ⟨⟨s3, e3⟩, h3, h1⟩ := bind_ok.1 h1
              obtain ⟨⟨s4, e4⟩, h4, h1⟩ := bind_ok.1 h1
              obtain ⟨⟨s5, e5⟩, h5, h1⟩ := bind_ok.1 h1
              have hu : HomW split (sortBySize (buildUnits split [] col)) :=
                homW_sub (homW_buildUnits split col (homW_nil split)) (fun p hp => mem_sortBySize.1 hp)
              have h2 : T split col ({ s with collection := some col, workqueue := AList.update s.workqueue (sortBySize (buildUnits split [] col)) } : State κ τ) ({ e with outs := e.outs ++ collectionDiffs first col rest } : Env) :=
                ⟨rfl, ⟨homW_update _ hi.hom.1 hu, hi.hom.2⟩, hregall, hq, hcmp', htr⟩
              have t5 := rescheduleAll_T _ h5 (assignAll_T _ h4 (dropExtra_T _ h3 h2))
              split at h1
              · simp only [Except.ok.injEq, Prod.mk.injEq] at h1; obtain ⟨rfl, rfl⟩ := h1
                exact fromT ⟨t5.coll, t5.hom, t5.reg, runsOk_mono t5.runs (fun o ho hr => shutdownAll_runs _ _ o ho hr), t5.cmp,
                  fun n is hm => t5.toReg n is (shutdownAll_runs _ _ _ hm rfl)⟩
              · simp only [Except.ok.injEq, Prod.mk.injEq] at h1; obtain ⟨rfl, rfl⟩ := h1
                exact fromT t5
  | markComplete n i slow =>
    simp only [step] at h
    obtain ⟨⟨s1, e1⟩, h1, h2⟩ := map_ok.1 h
    simp at h2; obtain ⟨rfl, rfl, _⟩ := h2
    unfold markComplete at h1
    obtain ⟨col0, _, h1⟩ := bind_ok.1 h1
    split at h1
    · cases h1
    · rename_i t _
      obtain ⟨w, hw, h1⟩ := bind_ok.1 h1
      obtain ⟨wu, hwu, h1⟩ := bind_ok.1 h1
      have hwm := mem_of_lookup' (AList.get_eq_ok.1 hw)
      cases hc : s.collection with
      | none =>
        exfalso
        have := (hi.di.2 hc).2 _ hwm
        simp only at this
        subst this
        simp [AList.get, AList.lookup] at hwu
      | some col =>
        have ht := hi.toT hc
        have hw' := hi.hom.2 _ hwm
        have hmid : T split col ({ s with assigned := AList.set s.assigned n (AList.set w (split t) (AList.set wu t true)) } : State κ τ) e := by
          refine ⟨hc, ⟨hi.hom.1, ?_⟩, ht.reg, ht.runs, ht.cmp, ht.toReg⟩
          intro a ha
          rcases mem_set' ha with ha | ha
          · exact hi.hom.2 a ha
          · subst ha
            exact homW_set hw' (hom_unit_set (hw' _ (mem_of_lookup' (AList.get_eq_ok.1 hwu))) rfl)
        exact fromT (reschedule_T h1 hmid)
  | markPending t => simp [step] at h
  | removePending n is => simp [step] at h
  | removeNode n =>
    simp only [step] at h
    unfold removeNode at h
    obtain ⟨⟨workload, asg⟩, hp, h⟩ := bind_ok.1 h
    obtain ⟨hl, hasg⟩ := AList.pop_eq_ok.1 hp
    have hwm := mem_of_lookup' hl
    have hwl : HomW split workload := hi.hom.2 _ hwm
    have hasg' : ∀ a ∈ asg, HomW split a.2 := fun a ha => hi.hom.2 a (by rw [hasg] at ha; exact mem_erase' ha)
    simp only at h
    split at h
    · simp only [Except.ok.injEq, Prod.mk.injEq] at h; obtain ⟨rfl, rfl, _⟩ := h
      exact ⟨hhom', hdi', hi.agreed, hi.quiet, hi.cmp, hi.toReg⟩
    · rename_i hpend
      cases hc : s.collection with
      | none =>
        exfalso
        have := (hi.di.2 hc).2 _ hwm
        simp only at this
        subst this
        exact hpend (by simp [pendingOf])
      | some col =>
        have ht := hi.toT hc
        split at h
        · cases h
        · rename_i scope item hfp
          obtain ⟨⟨s3, e3⟩, h3, h⟩ := bind_ok.1 h
          simp only [Except.ok.injEq, Prod.mk.injEq] at h
          obtain ⟨rfl, rfl, _⟩ := h
          refine fromT (rescheduleAll_T _ h3 ⟨hc, ⟨?_, hasg'⟩, ht.reg, ht.runs, ht.cmp, ht.toReg⟩)
          apply homW_update _ hi.hom.1
          obtain ⟨wu0, b0, hm1, hm2⟩ := firstPending_mem hfp
          have hitem : split item = scope := hwl _ hm1 _ hm2
          intro p hp
          have hp' := (List.mem_filter.1 hp).1
          obtain ⟨p0, hp0, rfl⟩ := List.mem_map.1 hp'
          split
          · rename_i hk
            exact hom_unit_set (hwl p0 hp0) (by rw [hitem, hk])
          · exact hwl p0 hp0

end Xdist.LoadScope
