import XdistProofs.Sched.Quiet
import XdistProofs.Ctl.Stop
/-! The scheduler selected by `pytest_xdist_make_scheduler` — whichever of the six — is quiet while all its nodes shut down. -/
namespace Xdist.Sched
open Xdist

theorem iface_quiet (specs : AList Nat Nat) : Ctl.Quiet (iface specs) := by
  constructor
  intro s e op s' e' r hq hsd h
  cases s with
  | nosched => simp [iface, Any.step] at h
  | load st =>
    simp only [iface, Any.step] at h
    obtain ⟨a, ha, hb⟩ := map_ok.1 h
    simp only [Prod.mk.injEq] at hb
    obtain ⟨rfl, rfl, rfl⟩ := hb
    exact Load.step_quiet hq hsd ha
  | ws st =>
    simp only [iface, Any.step] at h
    obtain ⟨a, ha, hb⟩ := map_ok.1 h
    simp only [Prod.mk.injEq] at hb
    obtain ⟨rfl, rfl, rfl⟩ := hb
    exact WorkSteal.step_quiet hq hsd ha
  | scope m st =>
    simp only [iface, Any.step] at h
    obtain ⟨a, ha, hb⟩ := map_ok.1 h
    simp only [Prod.mk.injEq] at hb
    obtain ⟨rfl, rfl, rfl⟩ := hb
    exact LoadScope.step_quiet _ hq hsd ha
  | each st =>
    simp only [iface, Any.step] at h
    obtain ⟨a, ha, hb⟩ := map_ok.1 h
    simp only [Prod.mk.injEq] at hb
    obtain ⟨rfl, rfl, rfl⟩ := hb
    exact Each.step_quiet _ hq ha

end Xdist.Sched
